import UrcuVerif.Src.Wq3Tail
import UrcuVerif.Src.Wq4Tail
/-!
# `workqueue_thread()`: the tail of the loop body (statements 10–12) and the loop body from the splice on (statements 4–12)

`Triple L` of `Src/WqWorker.lean` is definitionally `Wq3.PT (wRp L)` (`triple_pt`), so the rules `PT.seq / ifte / call / split`
of `Src/Wq3Logic.lean` apply.  Proved here, from L2's `emptychk` / `rtchk` (where the STOP test `stop_triple` falls through):

* the hooks `worker_before_wait_fct` / `worker_after_wake_up_fct` (any value: `hook_triple`, silent);
* not real-time: `cds_wfcq_empty(&cbs_head, &cbs_tail)` (L2 `wEmptyChk`: `ldHead`, `ldTail`), and if empty
  `futex_wait(&workqueue->futex)` (`worker_futex_wait_triple`) then `uatomic_dec(&workqueue->futex); cmm_smp_mb()` (L2 `wDec`);
* real-time: `cds_wfcq_empty` (L2 `wRtChk`), `poll(NULL, 0, 10)` if empty (silent);

a completed tail is back at L2's `top` (`tail_PT`); and the composition `wIter ; wStop ; tail` = statements 4–12 of the
generated loop body, from L2's `splice` (`body_from_splice_PT`): a completed run is at `top`, a `break` is at `exitSt`
(`dead` if real-time).  Side condition: the local `rt` holds a value whose truth is the automaton's `rt`.
-/
set_option linter.unusedSimpArgs false
set_option linter.unusedVariables false
set_option maxRecDepth 8192
namespace UrcuVerif.Src.WqR
open UrcuVerif UrcuVerif.Src UrcuVerif.Wq WqL
open UrcuVerif.Src.Wq3 (PT Rp)

def wRp (L : Layout) : Rp WLState := ⟨wlr L, wlr_nil L, wlr_append L, evOkW L⟩

theorem triple_pt {L : Layout} {fuel : Nat} {s : Stmt} {P : Env → WLState → Prop} {Q : Ctl → Env → WLState → Prop} :
    Triple L fuel s P Q ↔ PT (wRp L) fuel s P Q := Iff.rfl

open Lean.Parser.Tactic in
macro "w5_abs" " [" ls:simpLemma,* "]" : tactic =>
  `(tactic| simp [wRp, wlr_cons, wlr_nil, absEvW, evOkW, wstep, Ctl.goesOn, hookNames, $ls,*])

def elseOf : Stmt → Stmt
  | .ifte _ _ b => b
  | s => s

/-- rest of a right-nested sequence from position `n` on -/
def dropSeq : Nat → Stmt → Stmt
  | 0, s => s
  | n+1, .seq _ b => dropSeq n b
  | _+1, _ => .skip

/-- outcome of a piece of the tail: back at `top`, or a prefix -/
def TailPost (L : Layout) (rtv : Val) (cnt : Nat) (rt : Bool) (c : Ctl) (e : Env) (l : WLState) : Prop :=
  (c = .normal ∧ e.vars "workqueue" = some (.ptr L.W) ∧ e.vars "rt" = some rtv ∧ l = ⟨.at .top, cnt, rt⟩) ∨
    c = .blocked ∨ c = .fuel

/-- `dst = cds_wfcq_empty(&workqueue->cbs_head, &workqueue->cbs_tail)` from `emptychk` (`pcE`) or `rtchk` -/
theorem empty_call (L : Layout) (dst : String) (hd1 : "workqueue" ≠ dst) (hd2 : "rt" ≠ dst) (pcE : Bool) (cnt : Nat)
    (rt : Bool) (rtv : Val) (fuel : Nat) :
    PT (wRp L) fuel (.call (some dst) ["u_head", "tail"]
        [.fieldAddr (.var "workqueue") "cbs_head", .fieldAddr (.var "workqueue") "cbs_tail"] Gen.Src.«_cds_wfcq_empty»)
      (fun e l => e.vars "workqueue" = some (.ptr L.W) ∧ e.vars "rt" = some rtv ∧
        l = ⟨.at (if pcE = true then .emptychk else .rtchk), cnt, rt⟩)
      (fun c e l => c = .blocked ∨ (c = .normal ∧ e.vars "workqueue" = some (.ptr L.W) ∧ e.vars "rt" = some rtv ∧
        ((e.vars dst = some (.int 1) ∧ l = ⟨.at (if pcE = true then .waitLd else .top), cnt, rt⟩) ∨
         (e.vars dst = some (.int 0) ∧ l = ⟨.at .top, cnt, rt⟩)))) := by
  intro env inp ls o ⟨hw, hr, hl⟩ hE hok
  subst hl
  rcases inp with _ | ⟨v, r1⟩
  · wexec_at hE [Gen.Src.«_cds_wfcq_empty», hw]; subst hE; exact ⟨_, wlr_nil L _, .inl rfl⟩
  · by_cases hv : v = .int 0
    · subst hv
      rcases r1 with _ | ⟨t, r2⟩
      · wexec_at hE [Gen.Src.«_cds_wfcq_empty», hw]; subst hE; cases pcE <;> w5_abs []
      · by_cases ht : t = .ptr (.field L.W "cbs_head")
        · subst ht
          wexec_at hE [Gen.Src.«_cds_wfcq_empty», hw]; subst hE; cases pcE <;> w5_abs [hw, hr, hd1, hd2]
        · wexec_at hE [Gen.Src.«_cds_wfcq_empty», hw, ht]; subst hE; cases pcE <;> w5_abs [hw, hr, hd1, hd2, ht]
    · cases v with
      | int n =>
        have hn : n ≠ 0 := fun h => hv (by rw [h])
        wexec_at hE [Gen.Src.«_cds_wfcq_empty», hw, hn]; subst hE
        simp [wRp, evOkW, IsNode, hn] at hok
      | ptr p =>
        wexec_at hE [Gen.Src.«_cds_wfcq_empty», hw]; subst hE; cases pcE <;> w5_abs [hw, hr, hd1, hd2]

/-- `futex_wait(&workqueue->futex)` without a fixed private view -/
theorem wfw' (L : Layout) (cnt : Nat) (rt : Bool) (fuel : Nat) :
    PT (wRp L) fuel Gen.Src.«futex_wait»
      (fun e l => e.vars "futex" = some (.ptr (.field L.W "futex")) ∧ l = ⟨.at .waitLd, cnt, rt⟩)
      (fun c e l => ((c = .normal ∨ c = .ret none) ∧ l = ⟨.at .dec, cnt, rt⟩) ∨ c = .blocked ∨ c = .fuel) := by
  intro env inp ls o ⟨hf, hl⟩ hE hok
  obtain ⟨l1, h1, h2⟩ := worker_futex_wait_triple L cnt rt env.priv fuel env inp ls o ⟨hf, rfl, hl⟩ hE hok
  refine ⟨l1, h1, ?_⟩
  rcases h2 with ⟨hc, hl', -⟩ | h | ⟨h, -⟩
  · exact .inl ⟨hc, hl'⟩
  · exact .inr (.inl h)
  · exact .inr (.inr h)

/-- not real-time: `if (cds_wfcq_empty(…)) { futex_wait(&workqueue->futex); uatomic_dec(&workqueue->futex); cmm_smp_mb(); }` -/
theorem tail_wait (L : Layout) (cnt : Nat) (rt : Bool) (rtv : Val) (fuel : Nat) :
    PT (wRp L) fuel (thenOf (seqNth 11 wBody))
      (fun e l => e.vars "workqueue" = some (.ptr L.W) ∧ e.vars "rt" = some rtv ∧ l = ⟨.at .emptychk, cnt, rt⟩)
      (TailPost L rtv cnt rt) := by
  rw [show thenOf (seqNth 11 wBody) = Stmt.seq (.call (some "_t14") ["u_head", "tail"]
      [.fieldAddr (.var "workqueue") "cbs_head", .fieldAddr (.var "workqueue") "cbs_tail"] Gen.Src.«_cds_wfcq_empty»)
    (.ifte (.var "_t14") (.seq (.call none ["futex"] [.fieldAddr (.var "workqueue") "futex"] Gen.Src.«futex_wait»)
      (.seq (.prim none .udec [.fieldAddr (.var "workqueue") "futex", .cst "CMM_RELAXED" 0]) (.prim none .mb []))) .skip)
    from rfl]
  refine PT.seq (Mid := fun e l => e.vars "workqueue" = some (.ptr L.W) ∧ e.vars "rt" = some rtv ∧
      ((e.vars "_t14" = some (.int 1) ∧ l = ⟨.at .waitLd, cnt, rt⟩) ∨ (e.vars "_t14" = some (.int 0) ∧ l = ⟨.at .top, cnt, rt⟩)))
    ((empty_call L "_t14" (by decide) (by decide) true cnt rt rtv fuel).conseq (fun _ _ h => by simpa using h) ?_)
    (PT.ifte ?_ ?_)
  · intro c e l h
    rcases h with rfl | ⟨rfl, h⟩
    · simp [TailPost]
    · simpa using h
  · -- empty: wait, then decrement the futex word
    refine PT.seq (Mid := fun e l => e.vars "workqueue" = some (.ptr L.W) ∧ e.vars "rt" = some rtv ∧ l = ⟨.at .dec, cnt, rt⟩)
      ?_ ?_
    · refine PT.call (wfw' L cnt rt fuel) ?_
      intro env ls ⟨⟨hw, hr, h⟩, v, hv, htr⟩
      have hl : ls = ⟨.at .waitLd, cnt, rt⟩ := by
        rcases h with ⟨_, hl⟩ | ⟨h0, _⟩
        · exact hl
        · simp [eval, h0] at hv; subst hv; simp [Val.truthy] at htr
      refine ⟨[.ptr (.field L.W "futex")], by simp [evalArgs, eval, hw, asLoc, bind, Except.bind], rfl,
        ⟨by simp [bindParams], hl⟩, ?_⟩
      intro c e ls' h
      rcases h with ⟨hc' | hc', h1⟩ | hc' | hc' <;> subst hc' <;> simp_all [TailPost]
    · intro env inp ls o ⟨hw, hr, hl⟩ hE hok
      subst hl
      rcases inp with _ | ⟨u, r1⟩
      · wexec_at hE [hw]; subst hE; w5_abs [TailPost]
      · wexec_at hE [hw]; subst hE; w5_abs [TailPost, hw, hr]
  · -- not empty: nothing
    intro env inp ls o ⟨⟨hw, hr, h⟩, v, hv, htr⟩ hE hok
    have hl : ls = ⟨.at .top, cnt, rt⟩ := by
      rcases h with ⟨h1, _⟩ | ⟨_, hl⟩
      · simp [eval, h1] at hv; subst hv; simp [Val.truthy] at htr
      · exact hl
    subst hl
    wexec_at hE []; subst hE
    exact ⟨_, wlr_nil L _, .inl ⟨rfl, hw, hr, rfl⟩⟩

/-- real-time: `if (cds_wfcq_empty(…)) poll(NULL, 0, 10);` -/
theorem tail_poll (L : Layout) (cnt : Nat) (rt : Bool) (rtv : Val) (fuel : Nat) :
    PT (wRp L) fuel (elseOf (seqNth 11 wBody))
      (fun e l => e.vars "workqueue" = some (.ptr L.W) ∧ e.vars "rt" = some rtv ∧ l = ⟨.at .rtchk, cnt, rt⟩)
      (TailPost L rtv cnt rt) := by
  rw [show elseOf (seqNth 11 wBody) = Stmt.seq (.call (some "_t15") ["u_head", "tail"]
      [.fieldAddr (.var "workqueue") "cbs_head", .fieldAddr (.var "workqueue") "cbs_tail"] Gen.Src.«_cds_wfcq_empty»)
    (.ifte (.var "_t15") (.prim none (.ext "poll") [.null, .lit 0, .lit 10]) .skip) from rfl]
  refine PT.seq (Mid := fun e l => e.vars "workqueue" = some (.ptr L.W) ∧ e.vars "rt" = some rtv ∧
      (e.vars "_t15" = some (.int 1) ∨ e.vars "_t15" = some (.int 0)) ∧ l = ⟨.at .top, cnt, rt⟩)
    ((empty_call L "_t15" (by decide) (by decide) false cnt rt rtv fuel).conseq (fun _ _ h => by simpa using h) ?_) ?_
  · intro c e l h
    rcases h with rfl | ⟨rfl, hw, hr, h⟩
    · simp [TailPost]
    · rcases h with ⟨h1, h2⟩ | ⟨h1, h2⟩ <;> simp_all
  · intro env inp ls o ⟨hw, hr, ht, hl⟩ hE hok
    subst hl
    rcases ht with ht | ht
    · rcases inp with _ | ⟨u, r1⟩
      · wexec_at hE [ht]; subst hE; w5_abs [TailPost]
      · wexec_at hE [ht]; subst hE; w5_abs [TailPost, hw, hr]
    · wexec_at hE [ht]; subst hE; w5_abs [TailPost, hw, hr]

/-- `if (workqueue->h) workqueue->h(workqueue, workqueue->priv);` -/
def hookS (h name : String) : Stmt :=
  .ifte (.pload (.fieldAddr (.var "workqueue") h))
    (.prim none (.ext name) [.pload (.fieldAddr (.var "workqueue") h), .var "workqueue",
      .pload (.fieldAddr (.var "workqueue") "priv")]) .skip

/-- a user hook (whatever its value) is silent and changes nothing -/
theorem hook' (L : Layout) (fuel : Nat) (h name : String) (hs : ∀ args r, absEvW L (.ext name args r) = none)
    (P : Env → WLState → Prop) :
    PT (wRp L) fuel (hookS h name) (fun e l => e.vars "workqueue" = some (.ptr L.W) ∧ P e l)
      (fun c e l => (c = .normal ∨ c = .blocked) ∧ e.vars "workqueue" = some (.ptr L.W) ∧ P e l) := by
  intro env inp ls o ⟨hw, hp⟩ hE hok
  obtain ⟨l1, h1, hc, rfl, rfl⟩ := hook_triple L fuel h name hs env ls hw env inp ls o ⟨rfl, rfl⟩ hE hok
  exact ⟨_, h1, hc, hw, hp⟩

/-- **the tail of the loop body** (statements 10–12): hook, emptiness check with `futex_wait` / `poll`, hook – from L2's
`emptychk` (`rtchk` if real-time) back to `top` -/
theorem tail_PT (L : Layout) (cnt : Nat) (rt : Bool) (rtv : Val) (hrt : rtv.truthy = rt) (fuel : Nat) :
    PT (wRp L) fuel (dropSeq 10 wBody)
      (fun e l => e.vars "workqueue" = some (.ptr L.W) ∧ e.vars "rt" = some rtv ∧
        l = ⟨.at (if rt = true then .rtchk else .emptychk), cnt, rt⟩)
      (TailPost L rtv cnt rt) := by
  rw [show dropSeq 10 wBody = Stmt.seq (hookS "worker_before_wait_fct" "(*worker_before_wait_fct)")
    (.seq (.ifte (.un .lnot (.var "rt")) (thenOf (seqNth 11 wBody)) (elseOf (seqNth 11 wBody)))
      (hookS "worker_after_wake_up_fct" "(*worker_after_wake_up_fct)")) from rfl]
  refine PT.seq (Mid := fun e l => e.vars "workqueue" = some (.ptr L.W) ∧ e.vars "rt" = some rtv ∧
      l = ⟨.at (if rt = true then .rtchk else .emptychk), cnt, rt⟩)
    ((hook' L fuel _ _ (by intro a r; simp [absEvW, hookNames]) (fun e l => e.vars "rt" = some rtv ∧
      l = ⟨.at (if rt = true then .rtchk else .emptychk), cnt, rt⟩)).conseq (fun _ _ h => h) ?_)
    (PT.seq (Mid := fun e l => e.vars "workqueue" = some (.ptr L.W) ∧ e.vars "rt" = some rtv ∧ l = ⟨.at .top, cnt, rt⟩)
      (PT.ifte ?_ ?_)
      ((hook' L fuel _ _ (by intro a r; simp [absEvW, hookNames]) (fun e l => e.vars "rt" = some rtv ∧
        l = ⟨.at .top, cnt, rt⟩)).conseq (fun _ _ h => h) ?_))
  · intro c e l ⟨hc, hw, hp⟩
    rcases hc with rfl | rfl
    · simpa using ⟨hw, hp⟩
    · simp [TailPost]
  · refine (tail_wait L cnt rt rtv fuel).conseq ?_ ?_
    · intro e l ⟨⟨hw, hr, hl⟩, v, hv, htr⟩
      have : rt = false := by
        simp [eval, hr, evalUn, bind, Except.bind] at hv
        subst hv
        rw [← hrt]
        cases hb : rtv.truthy
        · rfl
        · simp [ForkX.truthy_int, hb] at htr
      subst this
      exact ⟨hw, hr, by simpa using hl⟩
    · intro c e l h
      by_cases hc : c = .normal
      · subst hc; simpa [TailPost] using h
      · simpa [hc] using h
  · refine (tail_poll L cnt rt rtv fuel).conseq ?_ ?_
    · intro e l ⟨⟨hw, hr, hl⟩, v, hv, htr⟩
      have : rt = true := by
        simp [eval, hr, evalUn, bind, Except.bind] at hv
        subst hv
        rw [← hrt]
        cases hb : rtv.truthy
        · simp [ForkX.truthy_int, hb] at htr
        · rfl
      subst this
      exact ⟨hw, hr, by simpa using hl⟩
    · intro c e l h
      by_cases hc : c = .normal
      · subst hc; simpa [TailPost] using h
      · simpa [hc] using h
  · intro c e l ⟨hc, hw, hr, hl⟩
    rcases hc with rfl | rfl
    · exact .inl ⟨rfl, hw, hr, hl⟩
    · exact .inr (.inl rfl)

/-- outcome of the loop body: back at `top`, out of the loop at `exitSt` (`dead` if real-time), or a prefix -/
def BodyPost (L : Layout) (rtv : Val) (rt : Bool) (c : Ctl) (e : Env) (l : WLState) : Prop :=
  (c = .normal ∧ e.vars "workqueue" = some (.ptr L.W) ∧ e.vars "rt" = some rtv ∧ ∃ k : Nat, l = ⟨.at .top, k, rt⟩) ∨
    (c = .brk ∧ ∃ k : Nat, l = ⟨.at (if rt = true then .dead else .exitSt), k, rt⟩) ∨ c = .blocked ∨ c = .fuel

/-- **statements 4–12 of the loop body of `workqueue_thread`** (`wIter ; wStop ; tail`), from L2's `splice` -/
theorem body_from_splice_PT (L : Layout) (cnt : Nat) (rt : Bool) (rtv : Val) (hrt : rtv.truthy = rt) (fuel : Nat) :
    PT (wRp L) fuel (dropSeq 4 wBody)
      (fun e l => e.vars "workqueue" = some (.ptr L.W) ∧ e.vars "rt" = some rtv ∧ l = ⟨.at .splice, cnt, rt⟩)
      (BodyPost L rtv rt) := by
  refine Wq3.PT.split 3 (PT.seq (Mid := fun e l => e.vars "workqueue" = some (.ptr L.W) ∧ e.vars "rt" = some rtv ∧
      ∃ k : Nat, l = ⟨.at .stopchk, k, rt⟩) ?_ ?_)
  · show PT (wRp L) fuel wIter _ _
    refine (triple_pt.1 (iter_triple L fuel rtv cnt rt)).conseq (fun _ _ h => h) ?_
    intro c e l h
    rcases h with ⟨rfl, hw, hr, hk⟩ | ⟨hc, _⟩
    · simpa using ⟨hw, hr, hk⟩
    · rcases hc with rfl | rfl <;> simp [BodyPost]
  · show PT (wRp L) fuel (dropSeq 8 wBody) _ _
    refine Wq3.PT.split 1 (PT.seq (Mid := fun e l => e.vars "workqueue" = some (.ptr L.W) ∧ e.vars "rt" = some rtv ∧
      ∃ k : Nat, l = ⟨.at (if rt = true then .rtchk else .emptychk), k, rt⟩) ?_ ?_)
    · show PT (wRp L) fuel wStop _ _
      intro env inp ls o ⟨hw, hr, k, hl⟩ hE hok
      obtain ⟨l1, h1, hp, hw', hr', h2⟩ := stop_triple L fuel k rt env hw env inp ls o ⟨rfl, hl⟩ hE hok
      refine ⟨l1, h1, ?_⟩
      rcases h2 with ⟨hc, _⟩ | ⟨hc, hl1⟩ | ⟨hc, hl1⟩
      · rw [hc]; simp [BodyPost]
      · rw [hc]; simp [BodyPost]; exact ⟨k, hl1⟩
      · rw [hc]; simp; exact ⟨by rw [hw', hw], by rw [hr', hr], k, hl1⟩
    · show PT (wRp L) fuel (dropSeq 10 wBody) _ _
      intro env inp ls o ⟨hw, hr, k, hl⟩ hE hok
      obtain ⟨l1, h1, h2⟩ := tail_PT L k rt rtv hrt fuel env inp ls o ⟨hw, hr, hl⟩ hE hok
      refine ⟨l1, h1, ?_⟩
      rcases h2 with ⟨hc, hw', hr', hl1⟩ | hc | hc
      · exact .inl ⟨hc, hw', hr', k, hl1⟩
      · exact .inr (.inr (.inl hc))
      · exact .inr (.inr (.inr hc))

end UrcuVerif.Src.WqR
