import UrcuVerif.Gen.Src
import UrcuVerif.Src.WqLocal
import UrcuVerif.Src.ForkExec
import UrcuVerif.Src.Wq3Logic
import UrcuVerif.Src.QueueRef
/-!
# Completions of the work queue (`src/workqueue.c`) – generated source IR ⊑ L2 (`Wq/Model.lean`), thread-locally

* `urcu_workqueue_wait_completion(completion)` (and `futex_wait(&completion->futex)` inside it) ⊑ the application
  thread's automaton `WqL.tstep` from pc `wcDec b` (labels `cDecFutex`, `cLdCount v`, `cLdFutex v`, `cWaitSleep`,
  `cWaitEagain`, `cWaitEintr`): `wait_completion_PT`.  The call returns (`ctl = normal`) only at pc `idle`, which `tstep`
  reaches from the `wc…` pcs only by `cLdCount 0` (`tstep_wc_idle`): **the waiter returns only after a load of
  `barrier_count` that saw 0** (`accC_idle_saw_zero`, on the events).
* `_urcu_workqueue_wait_complete(work)` (the work function that `urcu_workqueue_queue_completion` queues; it runs on the
  worker thread) ⊑ the local automaton `cstep` below, the thread-local projection of the worker's labels `cSub`, `cLd`,
  `cSt`, `cWake`, `cPut` of `Wq.step` (`cproj_lift`): **exactly one `uatomic_sub_return(&barrier_count, 1)`**, the wake-up
  of the waiter (`futex_wake_up(&completion->futex)`) exactly when it returned 0, then `urcu_ref_put`, whose
  `release(ref)` (= `free_completion`: the completion is freed) happens **exactly when the decremented reference count is
  0**, then `free(completion_work)`: `wait_complete_PT`.

Partial-correctness form (`PT`, `Src/Wq3Logic.lean`): about every run that returns `.ok` (every loop budget, every oracle,
i.e. every prefix) and whose events are well typed (`evOkC` / `evOkD`: loaded / returned words are integers, `errno` after a
failed FUTEX_WAIT is EAGAIN or EINTR, FUTEX_WAKE returns a count `≥ 0` – the source calls `urcu_die` otherwise).

Abstraction of events: fences are silent (L2 executes a thread's accesses in program order; `cmm_smp_mb()` after the
`uatomic_dec` and at the head of `futex_wait` / `futex_wake_up` are folded into the neighbouring labels); a FUTEX_WAIT
that returns non-zero is silent (its outcome is the `errno` that follows); every other event that is not one of the
protocol's accesses is rejected (`bad`).  L2 folds `uatomic_sub_return(&ref->refcount)`, `release(ref)` and
`free(completion_work)` into the one label `cPut`: `putRef r` is `cPut`, `release` / `freeWork` are stutter steps.
-/
set_option linter.unusedSimpArgs false
set_option linter.unusedVariables false
set_option maxRecDepth 8192
namespace UrcuVerif.Src.Wq3
open UrcuVerif UrcuVerif.Src UrcuVerif.Gen.Src UrcuVerif.Wq WqL

open Lean.Parser.Tactic in
/-- symbolic execution inside a hypothesis -/
macro "cx_at" h:ident " [" ls:simpLemma,* "]" : tactic =>
  `(tactic| simp [block, exec_skip, exec_seq, exec_assign, exec_pstore, exec_ifte, exec_brk, exec_cont,
        exec_prim, exec_assertDbg, exec_ret_none, exec_ret_some, exec_call, seqPost, callPost,
        eval, evalArgs, execPrim, asLoc, Env.setVar, Env.setPriv, setDst, bind, Except.bind,
        ForkX.truthy_int, ForkX.truthy_ptr, bindParams, evalUn, boolV, ForkX.evalBin_eq, ForkX.evalBin_ne, ForkX.evalBin_lt,
        ForkX.splitSeq, $ls,*] at $h:ident)

theorem PT.split {σ : Type} {R : Rp σ} {fuel : Nat} {s : Stmt} {P : Env → σ → Prop} {Q : Ctl → Env → σ → Prop} (n : Nat)
    (h : PT R fuel (.seq (ForkX.splitSeq n s).1 (ForkX.splitSeq n s).2) P Q) : PT R fuel s P Q := by
  intro env inp ls o hp hE hok
  rw [ForkX.exec_split fuel n s] at hE
  exact h env inp ls o hp hE hok

theorem truthy_of_ne3 {r : Val} (h : r ≠ .int 0) : r.truthy = true := by
  cases r with
  | int n => simp [Val.truthy]; intro h0; subst h0; exact h rfl
  | ptr l => rfl

-- ==========================================================================================================
/-! ## the waiter: `urcu_workqueue_wait_completion` -/

def absEvC (C : Loc) : Event → Option TLabel
  | .fence _ => none
  | .rmw op l _ _ _ => if l = .field C "futex" ∧ op = .udec then some .cDecFutex else some .bad
  | .ld l v _ =>
    if l = .field C "barrier_count" then (match v with | .int n => some (.cLdCount n) | _ => some .bad)
    else if l = .field C "futex" then (match v with | .int n => some (.cLdFutex n) | _ => some .bad)
    else some .bad
  | .ext name args r =>
    if name = "futex_async" then
      (if args = [.ptr (.field C "futex"), .int 0, .int (-1), .int 0, .int 0, .int 0] then
        (if r = .int 0 then some .cWaitSleep else none)
       else some .bad)
    else if name = "errno" then
      (if r = .int 11 then some .cWaitEagain else if r = .int 4 then some .cWaitEintr else some .bad)
    else some .bad
  | _ => some .bad

/-- well-typed oracle values, stated on the events -/
def evOkC : Event → Bool
  | .ld _ v _ => (match v with | .int _ => true | _ => false)
  | .ext name _ r => if name = "errno" then decide (r = .int 11 ∨ r = .int 4) else true
  | _ => true

def accC (C : Loc) (pc : TPc) (evs : List Event) : Option TPc := trun pc (evs.filterMap (absEvC C))

theorem accC_nil (C : Loc) (pc : TPc) : accC C pc [] = some pc := rfl
theorem accC_append (C : Loc) (pc : TPc) (a b : List Event) :
    accC C pc (a ++ b) = (accC C pc a).bind (fun m => accC C m b) := by
  simp [accC, List.filterMap_append, trun_append]
theorem accC_cons (C : Loc) (pc : TPc) (e : Event) (evs : List Event) :
    accC C pc (e :: evs) = (match absEvC C e with
      | none => accC C pc evs
      | some l => (tstep pc l).bind (fun m => accC C m evs)) := by
  unfold accC
  rw [List.filterMap_cons]
  cases absEvC C e with
  | none => rfl
  | some l =>
    simp only [trun]
    cases tstep pc l <;> rfl

def RC (C : Loc) : Rp TPc := ⟨accC C, accC_nil C, accC_append C, evOkC⟩

open Lean.Parser.Tactic in
/-- run the waiter's abstraction on a closed event list -/
macro "c_abs" " [" ls:simpLemma,* "]" : tactic =>
  `(tactic| simp [RC, accC_nil, accC_cons, accC_append, absEvC, evOkC, tstep, Ctl.goesOn, $ls,*])

/-- body of the `for (;;)` of `futex_wait` -/
def fwBody : Stmt := (firstLoop «futex_wait»).getD .skip

/-- one iteration of `futex_wait(&completion->futex)`: from `wcWaitLd b` back to it (slept and woken / EINTR), or out of
the loop at `wcDec b` (saw a value `≠ -1`, or EAGAIN) -/
theorem fw_body (C : Loc) (b : Nat) (p0 : Loc → Option Val) (fuel : Nat) :
    PT (RC C) fuel fwBody
      (fun e l => e.vars "futex" = some (.ptr (.field C "futex")) ∧ e.priv = p0 ∧ l = .wcWaitLd b)
      (fun c e l => if c.goesOn then (e.vars "futex" = some (.ptr (.field C "futex")) ∧ e.priv = p0 ∧ l = .wcWaitLd b)
        else (((c = .brk ∨ c = .ret none) ∧ l = .wcDec b ∧ e.priv = p0) ∨ c = .blocked)) := by
  intro env inp ls o ⟨hf, hp, hl⟩ hE hok
  subst hl
  rcases inp with _ | ⟨v, r1⟩
  · cx_at hE [fwBody, firstLoop, «futex_wait», hf]; subst hE; c_abs []
  · by_cases hv : v = .int (-1)
    · subst hv
      rcases r1 with _ | ⟨r, r2⟩
      · cx_at hE [fwBody, firstLoop, «futex_wait», hf]; subst hE; c_abs []
      · by_cases hr : r = .int 0
        · subst hr
          cx_at hE [fwBody, firstLoop, «futex_wait», hf]; subst hE; c_abs [hf, hp]
        · have hrt := truthy_of_ne3 hr
          rcases r2 with _ | ⟨e, r3⟩
          · cx_at hE [fwBody, firstLoop, «futex_wait», hf, hrt]; subst hE; c_abs [hr]
          · by_cases he : e = .int 11
            · subst he
              cx_at hE [fwBody, firstLoop, «futex_wait», hf, hrt]; subst hE; c_abs [hr, hp]
            · by_cases he4 : e = .int 4
              · subst he4
                cx_at hE [fwBody, firstLoop, «futex_wait», hf, hrt]; subst hE; c_abs [hr, hf, hp]
              · rcases r3 with _ | ⟨e2, r4⟩
                · cx_at hE [fwBody, firstLoop, «futex_wait», hf, hrt, he, he4]; subst hE
                  simp [RC, evOkC, he, he4] at hok
                · rcases r4 with _ | ⟨d, r5⟩
                  · cx_at hE [fwBody, firstLoop, «futex_wait», hf, hrt, he, he4]; subst hE
                    simp [RC, evOkC, he, he4] at hok
                  · cx_at hE [fwBody, firstLoop, «futex_wait», hf, hrt, he, he4]; subst hE
                    simp [RC, evOkC, he, he4] at hok
    · cases v with
      | int n =>
        have hn : n ≠ -1 := fun h => hv (by rw [h])
        cx_at hE [fwBody, firstLoop, «futex_wait», hf, hn]; subst hE; c_abs [hn, hp]
      | ptr l =>
        cx_at hE [fwBody, firstLoop, «futex_wait», hf]; subst hE
        simp [RC, evOkC] at hok

/-- `futex_wait(&completion->futex)` from `wcWaitLd b`: a completed call is at `wcDec b` (the waiter decrements the
futex word again), the private view unchanged -/
theorem futex_wait_PT (C : Loc) (b : Nat) (p0 : Loc → Option Val) (fuel : Nat) :
    PT (RC C) fuel «futex_wait»
      (fun e l => e.vars "futex" = some (.ptr (.field C "futex")) ∧ e.priv = p0 ∧ l = .wcWaitLd b)
      (fun c e l => ((c = .normal ∨ c = .ret none) ∧ l = .wcDec b ∧ e.priv = p0) ∨ c = .blocked ∨
        (c = .fuel ∧ l = .wcWaitLd b)) := by
  rw [show «futex_wait» = Stmt.seq (.prim none .mb []) (.loop fwBody) from rfl]
  refine PT.seq (Mid := fun e l => e.vars "futex" = some (.ptr (.field C "futex")) ∧ e.priv = p0 ∧ l = .wcWaitLd b) ?_
    ((PT.loop (fw_body C b p0 fuel)).conseq (fun _ _ h => h) ?_)
  · intro env inp ls o ⟨hf, hp, hl⟩ hE hok
    subst hl
    cx_at hE []; subst hE; c_abs [hf, hp]
  · intro c e l h
    rcases h with ⟨rfl, h⟩ | ⟨c0, hgo, h, rfl⟩
    · exact .inr (.inr ⟨rfl, h.2.2⟩)
    · rcases h with ⟨hc | hc, h1, h2⟩ | hc <;> subst hc <;> simp_all [Ctl.afterLoop]

/-- body of the `for (;;)` of `urcu_workqueue_wait_completion` -/
def wcBody : Stmt := (firstLoop «urcu_workqueue_wait_completion»).getD .skip

/-- `uatomic_dec(&completion->futex); cmm_smp_mb(); if (!uatomic_load(&completion->barrier_count)) break;` -/
theorem wc_head (C : Loc) (b : Nat) (p0 : Loc → Option Val) (fuel : Nat) :
    PT (RC C) fuel (ForkX.splitSeq 3 wcBody).1
      (fun e l => e.vars "completion" = some (.ptr C) ∧ e.priv = p0 ∧ l = .wcDec b)
      (fun c e l => if c = .normal then (e.vars "completion" = some (.ptr C) ∧ e.priv = p0 ∧ l = .wcWaitLd b)
        else ((c = .brk ∧ l = .idle ∧ e.priv = p0) ∨ c = .blocked)) := by
  intro env inp ls o ⟨hc, hp, hl⟩ hE hok
  subst hl
  rcases inp with _ | ⟨d, r1⟩
  · cx_at hE [wcBody, firstLoop, «urcu_workqueue_wait_completion», hc]; subst hE; c_abs []
  · rcases r1 with _ | ⟨v, r2⟩
    · cx_at hE [wcBody, firstLoop, «urcu_workqueue_wait_completion», hc]; subst hE; c_abs []
    · cases v with
      | int n =>
        by_cases hn : n = 0
        · subst hn
          cx_at hE [wcBody, firstLoop, «urcu_workqueue_wait_completion», hc]; subst hE; c_abs [hp]
        · cx_at hE [wcBody, firstLoop, «urcu_workqueue_wait_completion», hc, hn]; subst hE; c_abs [hn, hc, hp]
      | ptr l =>
        cx_at hE [wcBody, firstLoop, «urcu_workqueue_wait_completion», hc]; subst hE
        simp [RC, evOkC] at hok

/-- one iteration of the loop of `urcu_workqueue_wait_completion` -/
theorem wc_body (C : Loc) (b : Nat) (p0 : Loc → Option Val) (fuel : Nat) :
    PT (RC C) fuel wcBody
      (fun e l => e.vars "completion" = some (.ptr C) ∧ e.priv = p0 ∧ l = .wcDec b)
      (fun c e l => if c.goesOn then (e.vars "completion" = some (.ptr C) ∧ e.priv = p0 ∧ l = .wcDec b)
        else ((c = .brk ∧ l = .idle ∧ e.priv = p0) ∨ c = .blocked ∨ (c = .fuel ∧ l = .wcWaitLd b))) := by
  refine PT.split 3 (PT.seq (Mid := fun e l => e.vars "completion" = some (.ptr C) ∧ e.priv = p0 ∧ l = .wcWaitLd b)
    ((wc_head C b p0 fuel).conseq (fun _ _ h => h) ?_) ?_)
  · intro c e l h
    by_cases hc : c = .normal
    · simp_all
    · simp only [hc, if_false] at h ⊢
      rcases h with ⟨rfl, h⟩ | rfl <;> simp_all [Ctl.goesOn]
  · show PT (RC C) fuel (.call none ["futex"] [.fieldAddr (.var "completion") "futex"] «futex_wait») _ _
    refine PT.call (futex_wait_PT C b p0 fuel) ?_
    intro env ls ⟨hc, hp, hl⟩
    refine ⟨[.ptr (.field C "futex")], by simp [evalArgs, eval, hc, asLoc, bind, Except.bind], rfl,
      ⟨by simp [bindParams], hp, hl⟩, ?_⟩
    intro c e ls' h
    rcases h with ⟨hc' | hc', h1, h2⟩ | hc' | ⟨hc', h1⟩ <;> subst hc' <;> simp_all [Ctl.goesOn]

/-- **`urcu_workqueue_wait_completion(completion)`** ⊑ `WqL.tstep` from `wcDec b`: a completed call is at `idle`
(reached only by a load of `barrier_count` that saw 0), private view unchanged; a run cut by the loop budget is at the
head of the outer loop or of the loop of `futex_wait` -/
theorem wait_completion_PT (C : Loc) (b : Nat) (p0 : Loc → Option Val) (fuel : Nat) :
    PT (RC C) fuel «urcu_workqueue_wait_completion»
      (fun e l => e.vars "completion" = some (.ptr C) ∧ e.priv = p0 ∧ l = .wcDec b)
      (fun c e l => (c = .normal ∧ l = .idle ∧ e.priv = p0) ∨ c = .blocked ∨
        (c = .fuel ∧ (l = .wcDec b ∨ l = .wcWaitLd b))) := by
  rw [show «urcu_workqueue_wait_completion» = Stmt.loop wcBody from rfl]
  refine (PT.loop (wc_body C b p0 fuel)).conseq (fun _ _ h => h) ?_
  intro c e l h
  rcases h with ⟨rfl, h⟩ | ⟨c0, hgo, h, rfl⟩
  · exact .inr (.inr ⟨rfl, .inl h.2.2⟩)
  · rcases h with ⟨hc, h1, h2⟩ | hc | ⟨hc, h1⟩ <;> subst hc <;> simp_all [Ctl.afterLoop]

/-- the pcs inside `urcu_workqueue_wait_completion` -/
def isWc : TPc → Bool
  | .wcDec _ | .wcLd _ | .wcWaitLd _ | .wcWaitFx _ => true
  | _ => false

/-- from a pc inside `wait_completion`, `idle` is reached only by a load of `barrier_count` that saw 0, and every other
step stays inside -/
theorem tstep_wc_idle (pc pc' : TPc) (l : TLabel) (h : tstep pc l = some pc') (hw : isWc pc = true) :
    (pc' = .idle ∧ l = .cLdCount 0) ∨ isWc pc' = true := by
  cases pc <;> simp [isWc] at hw <;> cases l <;> simp only [tstep] at h <;>
    first
    | (simp at h; done)
    | (simp only [Option.some.injEq] at h; subst h; (try split) <;> simp_all [isWc])

/-- **the waiter returns only after seeing `barrier_count = 0`** (on the events): an accepted event list that leads from
inside `wait_completion` to `idle` contains a load of `barrier_count` that returned 0, after which only silent events
(fences) follow -/
theorem accC_idle_saw_zero (C : Loc) : ∀ (evs : List Event) (pc : TPc), isWc pc = true → accC C pc evs = some .idle →
    ∃ pre mo suf, evs = pre ++ Event.ld (.field C "barrier_count") (.int 0) mo :: suf ∧
      ∀ e ∈ suf, absEvC C e = none := by
  intro evs
  induction evs with
  | nil => intro pc hw h; simp [accC_nil] at h; subst h; simp [isWc] at hw
  | cons e es ih =>
    intro pc hw h
    rw [accC_cons] at h
    cases ha : absEvC C e with
    | none =>
      rw [ha] at h
      obtain ⟨pre, mo, suf, h1, h2⟩ := ih pc hw h
      exact ⟨e :: pre, mo, suf, by simp [h1], h2⟩
    | some l =>
      rw [ha] at h
      cases hs : tstep pc l with
      | none => simp [hs] at h
      | some pc1 =>
        simp only [hs, Option.bind] at h
        rcases tstep_wc_idle pc pc1 l hs hw with ⟨rfl, rfl⟩ | hw1
        · -- `e` is the load that saw 0; the rest is silent
          have hsil : ∀ (es : List Event), accC C .idle es = some .idle → ∀ e' ∈ es, absEvC C e' = none := by
            intro es
            induction es with
            | nil => intro _ e' he'; simp at he'
            | cons x xs ihx =>
              intro hx e' he'
              rw [accC_cons] at hx
              cases hax : absEvC C x with
              | none =>
                rw [hax] at hx
                rcases List.mem_cons.1 he' with rfl | hm
                · exact hax
                · exact ihx hx e' hm
              | some lx =>
                rw [hax] at hx
                have hnone : ∀ m, tstep .idle lx = some m → absEvC C x = some lx → False := by
                  intro m hm hx2
                  cases lx <;> simp [tstep] at hm
                  · cases x <;> simp [absEvC] at hx2 <;> (repeat' split at hx2) <;> simp_all
                  · cases x <;> simp [absEvC] at hx2 <;> (repeat' split at hx2) <;> simp_all
                cases hsx : tstep .idle lx with
                | none => simp [hsx] at hx
                | some m => exact (hnone m hsx hax).elim
          have hev : ∃ mo, e = Event.ld (.field C "barrier_count") (.int 0) mo := by
            cases e <;> simp [absEvC] at ha <;> (repeat' split at ha) <;> simp_all
          obtain ⟨mo, rfl⟩ := hev
          exact ⟨[], mo, es, rfl, hsil es h⟩
        · obtain ⟨pre, mo, suf, h1, h2⟩ := ih pc1 hw1 h
          exact ⟨e :: pre, mo, suf, by simp [h1], h2⟩

-- ==========================================================================================================
/-! ## the completion work function `_urcu_workqueue_wait_complete` (runs on the worker thread) -/

inductive CPc
  | sub      -- about to `uatomic_sub_return(&completion->barrier_count, 1)`          (L2 `wpc = cSub`)
  | ld       -- the count reached 0: about to load `completion->futex`               (L2 `cLd`)
  | st       -- saw -1: about to store 0                                              (L2 `cSt`)
  | wake     -- about to FUTEX_WAKE                                                   (L2 `cWake`)
  | put      -- about to `uatomic_sub_return(&completion->ref.refcount, 1)`           (L2 `cPut`)
  | rel      -- the reference count reached 0: about to call `release(ref)`           (L2: inside `cPut`)
  | free     -- about to `free(completion_work)`                                      (L2: inside `cPut`)
  | done
  deriving DecidableEq, Repr

inductive CLabel
  | subCount (r : Int)    -- `uatomic_sub_return(&completion->barrier_count, 1)` returned `r`
  | ldFutex (v : Int)     -- load of `completion->futex` saw `v`
  | stFutex               -- `uatomic_store(&completion->futex, 0)`
  | wake                  -- `futex(&completion->futex, FUTEX_WAKE, 1)`
  | putRef (r : Int)      -- `uatomic_sub_return(&completion->ref.refcount, 1)` returned `r`
  | release               -- `release(&completion->ref)` = `free_completion`: `free(completion)`
  | freeWork              -- `free(completion_work)`
  | bad
  deriving DecidableEq, Repr

def cstep (pc : CPc) (l : CLabel) : Option CPc :=
  match pc with
  | .sub => (match l with
    | .subCount r => some (if r = 0 then .ld else .put)
    | _ => none)
  | .ld => (match l with
    | .ldFutex v => some (if v = -1 then .st else .put)
    | _ => none)
  | .st => (match l with
    | .stFutex => some .wake
    | _ => none)
  | .wake => (match l with
    | .wake => some .put
    | _ => none)
  | .put => (match l with
    | .putRef r => some (if r = 0 then .rel else .free)
    | _ => none)
  | .rel => (match l with
    | .release => some .free
    | _ => none)
  | .free => (match l with
    | .freeWork => some .done
    | _ => none)
  | .done => none

def crun : CPc → List CLabel → Option CPc
  | pc, [] => some pc
  | pc, l :: r => match cstep pc l with
    | some pc' => crun pc' r
    | none => none

theorem crun_append (pc : CPc) (a b : List CLabel) :
    crun pc (a ++ b) = (crun pc a).bind (fun m => crun m b) := by
  induction a generalizing pc with
  | nil => rfl
  | cons x a ih =>
    simp only [List.cons_append, crun]
    cases cstep pc x with
    | none => rfl
    | some p => exact ih p

/-- L2's pc of the worker at a local pc -/
def CPc.abs : CPc → WPc
  | .sub => .cSub | .ld => .cLd | .st => .cSt | .wake => .cWake | .put => .cPut
  | .rel | .free | .done => .inv

theorem abs_ite (p : Prop) [Decidable p] (a b : CPc) : (if p then a else b).abs = if p then a.abs else b.abs := by
  split <;> rfl

/-- the L2 label an access stands for (`release`, `freeWork`: folded by L2 into `cPut`) -/
def cL2 : CLabel → List Label
  | .subCount _ => [.cSub]
  | .ldFutex _ => [.cLd]
  | .stFutex => [.cSt]
  | .wake => [.cWake]
  | .putRef _ => [.cPut]
  | _ => []

/-- the observed values are the stated functions of the global state (`b` = the completion of the current work) -/
def cObs (s : State) (b : Nat) : CLabel → Prop
  | .subCount r => r = s.ccnt b - 1
  | .ldFutex v => v = s.cfut b
  | .putRef r => r = s.cref b - 1
  | _ => True

/-- the non-local part of L2's guards: FUTEX_WAKE (a system call) only once the store buffer has drained -/
def cGuard (s : State) : CLabel → Prop
  | .wake => s.cbuf = false
  | _ => True

/-- **lift**: a local step of the completion work function at `pc` (`pc` before the end of `cPut`), with the observed
values of the global state, is the enabled L2 step; the worker's pc afterwards is the local successor's; the count is
decremented exactly by `subCount`, and the completion is freed by `putRef r` exactly when `r = 0` -/
theorem cproj_lift (c : Cfg) (s : State) (w b : Nat) (pc pc' : CPc) (l : CLabel)
    (hcur : s.cur = some w) (hcw : s.cw w = some b) (hpc : s.wpc = pc.abs)
    (hne : pc ≠ .rel ∧ pc ≠ .free ∧ pc ≠ .done)
    (hl : cstep pc l = some pc') (ho : cObs s b l) (hg : cGuard s l) :
    ∃ s', Wq.run c s (cL2 l) = some s' ∧ s'.wpc = pc'.abs ∧
      (∀ r, l = .subCount r → s'.ccnt b = r ∧ s'.csub b = true) ∧
      ((∀ r, l ≠ .subCount r) → s'.ccnt = s.ccnt) ∧
      (∀ r, l = .putRef r → s'.cref b = r ∧ s'.cfreed b = (if r = 0 then true else s.cfreed b)) ∧
      ((∀ r, l ≠ .putRef r) → s'.cref = s.cref ∧ s'.cfreed = s.cfreed) := by
  cases pc <;> cases l <;> simp only [cstep] at hl <;>
    first
    | (simp at hl; done)
    | (simp at hne; done)
    | (simp only [Option.some.injEq] at hl; subst hl
       simp only [CPc.abs] at hpc
       simp_all [cL2, Wq.run, step, cObs, cGuard, curB, abs_ite]
       try simp [CPc.abs])

def absEvD (C Wk : Loc) : Event → Option CLabel
  | .fence _ => none
  | .rmw op l operand r _ =>
    if op = .usubret ∧ operand = .int 1 then
      (if l = .field C "barrier_count" then (match r with | .int n => some (.subCount n) | _ => some .bad)
       else if l = .field (.field C "ref") "refcount" then (match r with | .int n => some (.putRef n) | _ => some .bad)
       else some .bad)
    else some .bad
  | .ld l v _ =>
    if l = .field C "futex" then (match v with | .int n => some (.ldFutex n) | _ => some .bad) else some .bad
  | .st l v _ => if l = .field C "futex" ∧ v = .int 0 then some .stFutex else some .bad
  | .ext name args _ =>
    if name = "futex_async" then
      (if args = [.ptr (.field C "futex"), .int 1, .int 1, .int 0, .int 0, .int 0] then some .wake else some .bad)
    else if name = "release" then (if args = [.ptr (.field C "ref")] then some .release else some .bad)
    else if name = "free" then (if args = [.ptr Wk] then some .freeWork else some .bad)
    else some .bad
  | _ => some .bad

/-- well-typed oracle values: words are integers, FUTEX_WAKE returns a count `≥ 0` -/
def evOkD : Event → Bool
  | .rmw _ _ _ r _ => (match r with | .int _ => true | _ => false)
  | .ld _ v _ => (match v with | .int _ => true | _ => false)
  | .ext name _ r => if name = "futex_async" then (match r with | .int n => decide (0 ≤ n) | _ => false) else true
  | _ => true

def accD (C Wk : Loc) (pc : CPc) (evs : List Event) : Option CPc := crun pc (evs.filterMap (absEvD C Wk))

theorem accD_nil (C Wk : Loc) (pc : CPc) : accD C Wk pc [] = some pc := rfl
theorem accD_append (C Wk : Loc) (pc : CPc) (a b : List Event) :
    accD C Wk pc (a ++ b) = (accD C Wk pc a).bind (fun m => accD C Wk m b) := by
  simp [accD, List.filterMap_append, crun_append]
theorem accD_cons (C Wk : Loc) (pc : CPc) (e : Event) (evs : List Event) :
    accD C Wk pc (e :: evs) = (match absEvD C Wk e with
      | none => accD C Wk pc evs
      | some l => (cstep pc l).bind (fun m => accD C Wk m evs)) := by
  unfold accD
  rw [List.filterMap_cons]
  cases absEvD C Wk e with
  | none => rfl
  | some l =>
    simp only [crun]
    cases cstep pc l <;> rfl

def RD (C Wk : Loc) : Rp CPc := ⟨accD C Wk, accD_nil C Wk, accD_append C Wk, evOkD⟩

open Lean.Parser.Tactic in
macro "d_abs" " [" ls:simpLemma,* "]" : tactic =>
  `(tactic| simp [RD, accD_nil, accD_cons, accD_append, absEvD, evOkD, cstep, Ctl.goesOn, $ls,*])

/-- the locals of `_urcu_workqueue_wait_complete` after its two initialisations -/
def DEnv (C Wk : Loc) (e : Env) : Prop :=
  e.vars "completion" = some (.ptr C) ∧ e.vars "completion_work" = some (.ptr Wk)

/-- `completion_work = caa_container_of(work, …); completion = completion_work->completion;
uatomic_sub_return(&completion->barrier_count, 1)` -/
theorem wcf_head (C Wk : Loc) (fuel : Nat) :
    PT (RD C Wk) fuel (ForkX.splitSeq 2 «_urcu_workqueue_wait_complete»).1
      (fun e l => e.vars "work" = some (.ptr (.field Wk "work")) ∧
        e.priv (.field Wk "completion") = some (.ptr C) ∧ l = .sub)
      (fun c e l => if c = .normal then
          (DEnv C Wk e ∧ ∃ r : Int, e.vars "_t1" = some (.int r) ∧ l = (if r = 0 then .ld else .put))
        else c = .blocked) := by
  intro env inp ls o ⟨hw, hp, hl⟩ hE hok
  subst hl
  rcases inp with _ | ⟨r, r1⟩
  · cx_at hE [«_urcu_workqueue_wait_complete», hw, hp]; subst hE; d_abs []
  · cases r with
    | int n =>
      cx_at hE [«_urcu_workqueue_wait_complete», hw, hp]; subst hE
      d_abs [DEnv]
    | ptr l =>
      cx_at hE [«_urcu_workqueue_wait_complete», hw, hp]; subst hE
      simp [RD, evOkD] at hok

/-- `futex_wake_up(&completion->futex)` from `ld`: a completed call is at `put` -/
theorem wake_up_PT (C Wk : Loc) (fuel : Nat) :
    PT (RD C Wk) fuel «futex_wake_up»
      (fun e l => e.vars "futex" = some (.ptr (.field C "futex")) ∧ l = .ld)
      (fun c e l => (c = .normal ∧ l = .put) ∨ c = .blocked) := by
  intro env inp ls o ⟨hf, hl⟩ hE hok
  subst hl
  rcases inp with _ | ⟨v, r1⟩
  · cx_at hE [«futex_wake_up», hf]; subst hE; d_abs []
  · by_cases hv : v = .int (-1)
    · subst hv
      rcases r1 with _ | ⟨k, r2⟩
      · cx_at hE [«futex_wake_up», hf]; subst hE; d_abs []
      · cases k with
        | ptr l => cx_at hE [«futex_wake_up», hf, evalBin]
        | int n =>
          by_cases hn : n < 0
          · rcases r2 with _ | ⟨e, r3⟩
            · cx_at hE [«futex_wake_up», hf, hn]; subst hE; simp [RD, evOkD, hn] at hok; omega
            · rcases r3 with _ | ⟨d, r4⟩
              · cx_at hE [«futex_wake_up», hf, hn]; subst hE; simp [RD, evOkD, hn] at hok; omega
              · cx_at hE [«futex_wake_up», hf, hn]; subst hE; simp [RD, evOkD, hn] at hok; omega
          · cx_at hE [«futex_wake_up», hf, hn]; subst hE; d_abs []
    · cases v with
      | int n =>
        have hn : n ≠ -1 := fun h => hv (by rw [h])
        cx_at hE [«futex_wake_up», hf, hn]; subst hE; d_abs [hn]
      | ptr l =>
        cx_at hE [«futex_wake_up», hf]; subst hE
        simp [RD, evOkD] at hok

/-- `urcu_ref_put(&completion->ref, free_completion)` from `put`: `release(ref)` exactly when the decremented count is 0 -/
theorem ref_put_PT (C Wk : Loc) (fuel : Nat) :
    PT (RD C Wk) fuel «urcu_ref_put»
      (fun e l => e.vars "ref" = some (.ptr (.field C "ref")) ∧ l = .put)
      (fun c e l => (c = .normal ∧ l = .free) ∨ c = .blocked) := by
  intro env inp ls o ⟨hf, hl⟩ hE hok
  subst hl
  rcases inp with _ | ⟨p, r1⟩
  · cx_at hE [«urcu_ref_put», hf]; subst hE; d_abs []
  · cases p with
    | ptr l =>
      cx_at hE [«urcu_ref_put», hf]; subst hE
      simp [RD, evOkD] at hok
    | int n =>
      by_cases hn : n = 0
      · subst hn
        rcases r1 with _ | ⟨x, r2⟩
        · cx_at hE [«urcu_ref_put», hf]; subst hE; d_abs []
        · cx_at hE [«urcu_ref_put», hf]; subst hE; d_abs []
      · cx_at hE [«urcu_ref_put», hf, hn]; subst hE; d_abs [hn]

/-- **`_urcu_workqueue_wait_complete(work)`** ⊑ `cstep` from `sub`: a completed call is at `done` -/
theorem wait_complete_PT (C Wk : Loc) (fuel : Nat) :
    PT (RD C Wk) fuel «_urcu_workqueue_wait_complete»
      (fun e l => e.vars "work" = some (.ptr (.field Wk "work")) ∧
        e.priv (.field Wk "completion") = some (.ptr C) ∧ l = .sub)
      (fun c e l => (c = .normal ∧ l = .done) ∨ c = .blocked) := by
  refine PT.split 2 (PT.seq
    (Mid := fun e l => DEnv C Wk e ∧ ∃ r : Int, e.vars "_t1" = some (.int r) ∧ l = (if r = 0 then .ld else .put))
    ((wcf_head C Wk fuel).conseq (fun _ _ h => h) ?_) ?_)
  · intro c e l h
    by_cases hc : c = .normal
    · simp_all
    · simp only [hc, if_false] at h ⊢; exact .inr h
  · show PT (RD C Wk) fuel (.seq (.ifte (.un .lnot (.var "_t1"))
        (.call none ["futex"] [.fieldAddr (.var "completion") "futex"] «futex_wake_up») .skip)
      (.seq (.call none ["ref", "release"] [.fieldAddr (.var "completion") "ref", .addrGlob "free_completion"] «urcu_ref_put»)
        (.prim none (.ext "free") [.var "completion_work"]))) _ _
    refine PT.seq (Mid := fun e l => DEnv C Wk e ∧ l = .put) (PT.ifte ?_ ?_)
      (PT.seq (Mid := fun e l => DEnv C Wk e ∧ l = .free) ?_ ?_)
    · -- the count reached 0: wake the waiter
      refine PT.call (wake_up_PT C Wk fuel) ?_
      intro env ls ⟨⟨hd, r, ht, hl⟩, v, hv, htr⟩
      have hr : r = 0 := by
        simp [eval, ht, evalUn, bind, Except.bind] at hv
        subst hv
        by_cases h0 : r = 0
        · exact h0
        · simp [Val.truthy, h0] at htr
      subst hr
      refine ⟨[.ptr (.field C "futex")], by simp [evalArgs, eval, hd.1, asLoc, bind, Except.bind], rfl,
        ⟨by simp [bindParams], by simpa using hl⟩, ?_⟩
      intro c e ls' h
      rcases h with ⟨hc', h1⟩ | hc' <;> subst hc' <;> simp_all [DEnv]
    · -- the count is not 0: nothing
      intro env inp ls o ⟨⟨hd, r, ht, hl⟩, v, hv, htr⟩ hE hok
      have hr : r ≠ 0 := by
        simp [eval, ht, evalUn, bind, Except.bind] at hv
        subst hv
        intro h0
        subst h0
        simp [Val.truthy] at htr
      cx_at hE []; subst hE
      d_abs [hd, hl, hr]
    · refine PT.call (ref_put_PT C Wk fuel) ?_
      intro env ls ⟨hd, hl⟩
      refine ⟨[.ptr (.field C "ref"), .ptr (.glob "free_completion")],
        by simp [evalArgs, eval, hd.1, asLoc, bind, Except.bind], rfl, ⟨by simp [bindParams], hl⟩, ?_⟩
      intro c e ls' h
      rcases h with ⟨hc', h1⟩ | hc' <;> subst hc' <;> simp_all [DEnv]
    · intro env inp ls o ⟨hd, hl⟩ hE hok
      subst hl
      rcases inp with _ | ⟨y, r1⟩
      · cx_at hE [hd.2]; subst hE; d_abs []
      · cx_at hE [hd.2]; subst hE; d_abs []

/-- **every completion work decrements `barrier_count` exactly once**: an event list accepted from `sub` contains at most
one `uatomic_sub_return` on `barrier_count`, and exactly one once the function has got past its first access -/
theorem accD_one_sub (C Wk : Loc) (evs : List Event) (pc' : CPc) (h : accD C Wk .sub evs = some pc') :
    (evs.filterMap (absEvD C Wk) = [] ∧ pc' = .sub) ∨
      ∃ r rest, evs.filterMap (absEvD C Wk) = .subCount r :: rest ∧ ∀ r', CLabel.subCount r' ∉ rest := by
  unfold accD at h
  generalize evs.filterMap (absEvD C Wk) = labs at h
  cases labs with
  | nil => simp [crun] at h; exact .inl ⟨rfl, h.symm⟩
  | cons l rest =>
    right
    simp only [crun] at h
    cases l <;> simp [cstep] at h
    rename_i r
    refine ⟨r, rest, rfl, ?_⟩
    have key : ∀ (labs : List CLabel) (pc pc' : CPc), pc ≠ .sub → crun pc labs = some pc' →
        ∀ r', CLabel.subCount r' ∉ labs := by
      intro labs
      induction labs with
      | nil => intro _ _ _ _ r' hm; simp at hm
      | cons x xs ih =>
        intro pc pc' hne hrun r' hm
        simp only [crun] at hrun
        cases hs : cstep pc x with
        | none => simp [hs] at hrun
        | some pc1 =>
          simp only [hs] at hrun
          have hne1 : pc1 ≠ .sub := by
            intro hh; subst hh
            cases pc <;> cases x <;> simp [cstep] at hs <;> (try split at hs) <;> simp at hs
          rcases List.mem_cons.1 hm with hx | hx
          · subst hx
            cases pc <;> simp [cstep] at hs
            exact hne rfl
          · exact ih pc1 pc' hne1 hrun r' hx
    split at h
    · exact key rest .ld pc' (by simp) h
    · exact key rest .put pc' (by simp) h

/-- **the completion is freed exactly when the reference count reaches 0**: in an accepted run, `release` directly follows
a `putRef 0`, and a `putRef r` with `r ≠ 0` is never followed by `release` -/
theorem cstep_release (pc pc' : CPc) (h : cstep pc .release = some pc') : pc = .rel ∧ pc' = .free := by
  cases pc <;> simp [cstep] at h
  exact ⟨rfl, h.symm⟩

theorem cstep_putRef (pc pc' : CPc) (r : Int) (h : cstep pc (.putRef r) = some pc') :
    pc = .put ∧ pc' = (if r = 0 then .rel else .free) := by
  cases pc <;> simp [cstep] at h
  exact ⟨rfl, h.symm⟩

/-- from `free` (reached by `putRef r`, `r ≠ 0`, or after `release`) no `release` is accepted any more -/
theorem crun_free_no_release : ∀ (labs : List CLabel) (pc' : CPc), crun .free labs = some pc' → CLabel.release ∉ labs := by
  intro labs pc' h hm
  cases labs with
  | nil => simp at hm
  | cons x xs =>
    simp only [crun] at h
    cases x <;> simp [cstep] at h
    cases xs with
    | nil => simp at hm
    | cons y ys => simp [crun, cstep] at h

-- ==========================================================================================================
/-! ## `urcu_workqueue_destroy_completion`, `free_completion` -/

open UrcuVerif.Src.Queue.RefR in
/-- **`urcu_workqueue_destroy_completion(completion)`** = `urcu_ref_put(&completion->ref, free_completion)`: for every
oracle the run is exactly `putSpec` on `&completion->ref` (L2: `dcPut`) – one `uatomic_sub_return(&ref->refcount, 1)`, and
`release(ref)` iff it returned 0 (`putSpec_release`) -/
theorem destroy_completion_exec (fuel : Nat) (env : Env) (inp : List Val) (C : Loc)
    (hc : env.vars "completion" = some (.ptr C)) :
    ∃ out, exec fuel «urcu_workqueue_destroy_completion» env inp = .ok out ∧
      out.events = (putSpec (.field C "ref") inp).1 ∧ out.inp = (putSpec (.field C "ref") inp).2.1 ∧
      out.ctl = (putSpec (.field C "ref") inp).2.2 ∧ out.env.priv = env.priv := by
  rcases inp with _ | ⟨r, _ | ⟨x, rest⟩⟩ <;> (try by_cases hr : r = .int 0) <;>
    simp [putSpec, «urcu_workqueue_destroy_completion», «urcu_ref_put», block, exec, eval, evalArgs, execPrim, asLoc, bind,
      Except.bind, hc, Env.setVar, setDst, Val.truthy, evalBin, boolV, bindParams, *]

/-- **`free_completion(ref)`** (the `release` callback): `free(caa_container_of(ref, struct urcu_workqueue_completion, ref))` -/
theorem free_completion_exec (fuel : Nat) (env : Env) (y : Val) (rest : List Val) (C : Loc)
    (hr : env.vars "ref" = some (.ptr (.field C "ref"))) :
    ∃ out, exec fuel «free_completion» env (y :: rest) = .ok out ∧
      out.events = [.ext "free" [.ptr C] y] ∧ out.inp = rest ∧ out.ctl = .normal := by
  simp [«free_completion», block, exec, eval, evalArgs, execPrim, asLoc, bind, Except.bind, hr, Env.setVar, setDst]

end UrcuVerif.Src.Wq3
