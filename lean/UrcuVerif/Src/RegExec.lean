import UrcuVerif.Src.StackExec
/-!
# Every event of a run comes from a primitive that occurs in the statement

`Event.prim e` = the primitive that emits `e`; `Stmt.prims P st` = every primitive occurring in `st` (callee bodies included:
the translator puts them inside the `call` node) satisfies `P`.  `exec_prims`: then every event of every `.ok` run of `st`
satisfies `P`.  Used to treat loop-heavy callees (`arena_alloc`, `rcu_init`, `urcu_bp_exit` …) as "a sequence of events of
this class" where only the class matters (bracket shapes).
-/
namespace UrcuVerif.Src

def Event.prim : Event → Prim
  | .ld _ _ _ => .uload
  | .st _ _ _ => .ustore
  | .xchg _ _ _ _ => .uxchg
  | .cas _ _ _ _ _ _ => .ucmpxchg
  | .rmw op _ _ _ _ => op
  | .fence p => p
  | .ext name _ _ => .ext name

def Stmt.prims (P : Prim → Bool) : Stmt → Bool
  | .seq a b => a.prims P && b.prims P
  | .ifte _ a b => a.prims P && b.prims P
  | .loop b => b.prims P
  | .prim _ p _ => P p
  | .call _ _ _ body => body.prims P
  | _ => true

theorem execPrim_prims (env : Env) (inp : List Val) (dst : Option String) (p : Prim) (vs : List Val) (out : Out)
    (h : execPrim env inp dst p vs = .ok out) : ∀ e ∈ out.events, e.prim = p := by
  unfold execPrim at h
  split at h <;> (try cases inp) <;>
    simp only [bind, Except.bind] at h <;>
    (repeat' split at h) <;> (try (cases h; done)) <;> (cases h; simp [Event.prim])

theorem iterate_prims (Q : Event → Prop) (body : Env → List Val → Except String Out)
    (hb : ∀ env inp o, body env inp = .ok o → ∀ e ∈ o.events, Q e) :
    ∀ n env inp acc out, (∀ e ∈ acc, Q e) → iterate body n env inp acc = .ok out → ∀ e ∈ out.events, Q e := by
  intro n
  induction n with
  | zero => intro env inp acc out ha h; simp only [iterate] at h; cases h; exact ha
  | succ n ih =>
    intro env inp acc out ha h
    simp only [iterate, bind, Except.bind] at h
    cases hbe : body env inp with
    | error e => rw [hbe] at h; cases h
    | ok o =>
      rw [hbe] at h
      have hq := hb env inp o hbe
      have hacc : ∀ e ∈ acc ++ o.events, Q e := by
        intro e he
        rcases List.mem_append.1 he with h1 | h1
        · exact ha e h1
        · exact hq e h1
      rcases o with ⟨oev, oenv, oinp, octl⟩
      cases octl <;> simp only at h <;>
        first
        | exact ih _ _ _ _ hacc h
        | (cases h; exact hacc)

theorem exec_prims (P : Prim → Bool) : ∀ (st : Stmt), st.prims P = true → ∀ (fuel : Nat) (env : Env) (inp : List Val)
    (out : Out), exec fuel st env inp = .ok out → ∀ e ∈ out.events, P e.prim = true := by
  intro st
  induction st with
  | skip => intro _ fuel env inp out h; rw [exec_skip] at h; cases h; simp
  | seq a b iha ihb =>
    intro hp fuel env inp out h
    simp only [Stmt.prims, Bool.and_eq_true] at hp
    rw [exec_seq] at h
    cases ha : exec fuel a env inp with
    | error e => rw [ha] at h; cases h
    | ok o =>
      rw [ha] at h
      have h1 := iha hp.1 fuel env inp o ha
      rcases o with ⟨ev, en, ip, ctl⟩
      cases ctl <;> simp only [seqPost] at h <;> try (cases h; exact h1)
      cases hb : exec fuel b en ip with
      | error e => rw [hb] at h; cases h
      | ok o2 =>
        rw [hb] at h; cases h
        have h2 := ihb hp.2 fuel en ip o2 hb
        intro e he
        rcases List.mem_append.1 he with h3 | h3
        · exact h1 e h3
        · exact h2 e h3
  | assign x e =>
    intro _ fuel env inp out h
    rw [exec_assign] at h
    cases he : eval env e <;> simp only [he, bind, Except.bind] at h <;> cases h; simp
  | pstore l e =>
    intro _ fuel env inp out h
    rw [exec_pstore] at h
    simp only [bind, Except.bind] at h
    repeat' split at h
    all_goals first | (cases h; done) | (cases h; simp)
  | ifte c a b iha ihb =>
    intro hp fuel env inp out h
    simp only [Stmt.prims, Bool.and_eq_true] at hp
    rw [exec_ifte] at h
    cases hc : eval env c with
    | error e => simp only [hc, bind, Except.bind] at h; cases h
    | ok v =>
      simp only [hc, bind, Except.bind] at h
      split at h
      · exact iha hp.1 fuel env inp out h
      · exact ihb hp.2 fuel env inp out h
  | loop body ih =>
    intro hp fuel env inp out h
    simp only [Stmt.prims] at hp
    rw [exec_loop] at h
    exact iterate_prims (fun e => P e.prim = true) (exec fuel body) (fun env inp o ho => ih hp fuel env inp o ho)
      fuel env inp [] out (by simp) h
  | brk => intro _ fuel env inp out h; rw [exec_brk] at h; cases h; simp
  | cont => intro _ fuel env inp out h; rw [exec_cont] at h; cases h; simp
  | prim dst p args =>
    intro hp fuel env inp out h
    simp only [Stmt.prims] at hp
    rw [exec_prim] at h
    cases ha : evalArgs env args with
    | error e => simp only [ha, bind, Except.bind] at h; cases h
    | ok vs =>
      simp only [ha, bind, Except.bind] at h
      intro e he
      rw [execPrim_prims env inp dst p vs out h e he]; exact hp
  | assertDbg e => intro _ fuel env inp out h; rw [exec_assertDbg] at h; cases h; simp
  | ret e =>
    intro _ fuel env inp out h
    cases e with
    | none => rw [exec_ret_none] at h; cases h; simp
    | some e =>
      rw [exec_ret_some] at h
      cases he : eval env e <;> simp only [he, bind, Except.bind] at h <;> cases h; simp
  | call dst params args body ih =>
    intro hp fuel env inp out h
    simp only [Stmt.prims] at hp
    rw [exec_call] at h
    cases ha : evalArgs env args with
    | error e => simp only [ha] at h; cases h
    | ok vs =>
      simp only [ha] at h
      split at h
      · cases h
      · cases hb : exec fuel body { vars := bindParams params vs, priv := env.priv } inp with
        | error e => simp only [hb] at h; cases h
        | ok o =>
          simp only [hb] at h
          have h1 := ih hp fuel _ inp o hb
          rcases o with ⟨ev, en, ip, ctl⟩
          cases ctl with
          | ret v => cases v <;> simp only [callPost] at h <;> cases h <;> exact h1
          | brk => simp only [callPost] at h; cases h
          | cont => simp only [callPost] at h; cases h
          | _ => simp only [callPost] at h; cases h; exact h1

/-! ## statements that never end with `return` -/

/-- no `return` outside a callee body (a `call` turns its callee's `return` into normal completion) -/
def Stmt.noRet : Stmt → Bool
  | .ret _ => false
  | .seq a b => a.noRet && b.noRet
  | .ifte _ a b => a.noRet && b.noRet
  | .loop b => b.noRet
  | _ => true

theorem execPrim_ctl (env : Env) (inp : List Val) (dst : Option String) (p : Prim) (vs : List Val) (out : Out)
    (h : execPrim env inp dst p vs = .ok out) : out.ctl = .normal ∨ out.ctl = .blocked := by
  unfold execPrim at h
  split at h <;> (try cases inp) <;>
    simp only [bind, Except.bind] at h <;>
    (repeat' split at h) <;> (try (cases h; done)) <;> (cases h; simp)

theorem iterate_noRet (body : Env → List Val → Except String Out)
    (hb : ∀ env inp o, body env inp = .ok o → ∀ v, o.ctl ≠ .ret v) :
    ∀ n env inp acc out, iterate body n env inp acc = .ok out →
      out.ctl = .normal ∨ out.ctl = .blocked ∨ out.ctl = .fuel := by
  intro n
  induction n with
  | zero => intro env inp acc out h; simp only [iterate] at h; cases h; exact .inr (.inr rfl)
  | succ n ih =>
    intro env inp acc out h
    simp only [iterate, bind, Except.bind] at h
    cases hbe : body env inp with
    | error e => rw [hbe] at h; cases h
    | ok o =>
      rw [hbe] at h
      have hq := hb env inp o hbe
      rcases o with ⟨oev, oenv, oinp, octl⟩
      cases octl with
      | normal => exact ih _ _ _ _ h
      | cont => exact ih _ _ _ _ h
      | brk => simp only at h; cases h; exact .inl rfl
      | ret v => exact absurd rfl (hq v)
      | blocked => simp only at h; cases h; exact .inr (.inl rfl)
      | fuel => simp only at h; cases h; exact .inr (.inr rfl)

theorem exec_noRet : ∀ (st : Stmt), st.noRet = true → ∀ (fuel : Nat) (env : Env) (inp : List Val) (out : Out),
    exec fuel st env inp = .ok out → ∀ v, out.ctl ≠ .ret v := by
  intro st
  induction st with
  | skip => intro _ fuel env inp out h v; rw [exec_skip] at h; cases h; simp
  | seq a b iha ihb =>
    intro hp fuel env inp out h
    simp only [Stmt.noRet, Bool.and_eq_true] at hp
    rw [exec_seq] at h
    cases ha : exec fuel a env inp with
    | error e => rw [ha] at h; cases h
    | ok o =>
      rw [ha] at h
      have h1 := iha hp.1 fuel env inp o ha
      rcases o with ⟨ev, en, ip, ctl⟩
      cases ctl <;> simp only [seqPost] at h <;> try (cases h; exact h1)
      cases hb : exec fuel b en ip with
      | error e => rw [hb] at h; cases h
      | ok o2 => rw [hb] at h; cases h; exact ihb hp.2 fuel en ip o2 hb
  | assign x e =>
    intro _ fuel env inp out h v
    rw [exec_assign] at h
    cases he : eval env e <;> simp only [he, bind, Except.bind] at h <;> cases h; simp
  | pstore l e =>
    intro _ fuel env inp out h v
    rw [exec_pstore] at h
    simp only [bind, Except.bind] at h
    repeat' split at h
    all_goals first | (cases h; done) | (cases h; simp)
  | ifte c a b iha ihb =>
    intro hp fuel env inp out h
    simp only [Stmt.noRet, Bool.and_eq_true] at hp
    rw [exec_ifte] at h
    cases hc : eval env c with
    | error e => simp only [hc, bind, Except.bind] at h; cases h
    | ok v =>
      simp only [hc, bind, Except.bind] at h
      split at h
      · exact iha hp.1 fuel env inp out h
      · exact ihb hp.2 fuel env inp out h
  | loop body ih =>
    intro hp fuel env inp out h v
    simp only [Stmt.noRet] at hp
    rw [exec_loop] at h
    rcases iterate_noRet (exec fuel body) (fun env inp o ho => ih hp fuel env inp o ho) fuel env inp [] out h with
      h1 | h1 | h1 <;> simp [h1]
  | brk => intro _ fuel env inp out h v; rw [exec_brk] at h; cases h; simp
  | cont => intro _ fuel env inp out h v; rw [exec_cont] at h; cases h; simp
  | prim dst p args =>
    intro _ fuel env inp out h v
    rw [exec_prim] at h
    cases ha : evalArgs env args with
    | error e => simp only [ha, bind, Except.bind] at h; cases h
    | ok vs =>
      simp only [ha, bind, Except.bind] at h
      rcases execPrim_ctl env inp dst p vs out h with h1 | h1 <;> simp [h1]
  | assertDbg e => intro _ fuel env inp out h v; rw [exec_assertDbg] at h; cases h; simp
  | ret e => intro hp; simp [Stmt.noRet] at hp
  | call dst params args body ih =>
    intro _ fuel env inp out h v
    rw [exec_call] at h
    cases ha : evalArgs env args with
    | error e => simp only [ha] at h; cases h
    | ok vs =>
      simp only [ha] at h
      split at h
      · cases h
      · cases hb : exec fuel body { vars := bindParams params vs, priv := env.priv } inp with
        | error e => simp only [hb] at h; cases h
        | ok o =>
          simp only [hb] at h
          rcases o with ⟨ev, en, ip, ctl⟩
          cases ctl with
          | ret w => cases w <;> simp only [callPost] at h <;> cases h <;> simp
          | brk => simp only [callPost] at h; cases h
          | cont => simp only [callPost] at h; cases h
          | _ => simp only [callPost] at h; cases h; simp

/-- `for (;;) body` with a `return`-free body ends normally (after `break`), blocked, or out of budget -/
theorem exec_loop_ctl (body : Stmt) (hp : body.noRet = true) (fuel : Nat) (env : Env) (inp : List Val) (out : Out)
    (h : exec fuel (.loop body) env inp = .ok out) : out.ctl = .normal ∨ out.ctl = .blocked ∨ out.ctl = .fuel := by
  rw [exec_loop] at h
  exact iterate_noRet (exec fuel body) (fun env inp o ho => exec_noRet body hp fuel env inp o ho) fuel env inp [] out h

end UrcuVerif.Src
