import UrcuVerif.Src.LfhtLocal
/-!
# Thread-local projection of `Lfht/Conc` for the insertion: `cds_lfht_add` → `_cds_lfht_add`

Same scheme as `LfhtLocal.lean` / `LfhtWalkLocal.lean` (own label / state types: those files are frozen).  `LState` =
L2's `Thr` record of the thread + `pend` + the `Out` of the thread's last step.  Labels = accesses of the source with the
values passed and observed:

* `hashOf r h` (`bit_reverse_ulong(r)` returned `h`), `ldSize n mo` (load of `ht->size`), `bktAt idx b`
  (`ht->bucket_at(ht, idx)` returned node `b`), `ldNext p w mo` (load of `p->next`), `casNext p exp new old`
  (`uatomic_cmpxchg(&p->next, exp, new)` read `old`), `chkResize` (`check_resize(ht, size, chain_len)`: opaque, silent
  in L2), `count` (`ht_count_add`: opaque, silent in L2, after the return of `_cds_lfht_add`).

L2 folds several source events into one step; `pend` tracks the position inside such a group:
* `ldSize` at `aSize` = `bit_reverse_ulong(hash)` (its result is `node->reverse_hash`, which L2 sets at `callAdd`); load of
  `ht->size`; then – already inside `_cds_lfht_add` – `bucket_at(ht, hash & (size-1))`
  (`pend`: `none → size → bkt → none`; the pc moves to `aHead` at the load of the size);
* `ldNextA` = load of `clear_flag(iter)->next` + (only when the walk advances past a node of another hash chain and the
  word loaded is not a bucket word) `check_resize` (`pend = chk`).

The plain stores `node->next = clear_flag(iter)` before the insertion cmpxchg have no event: L2 folds them into `casIns`
(`nxt[node] := (iter.ptr, bkt = (mode == bkt))`); the refinement theorem states the content of the private view.

`casIns` in mode `bkt` (populate of a resize: successor = `partItem`, which reads the table) is out of the local scope.
-/
namespace UrcuVerif.Src.LfhtA
open UrcuVerif UrcuVerif.Lfht.Conc

inductive Pend
  | none
  | size               -- the load of `ht->size` is next
  | bkt                -- `bucket_at(ht, hash & (size-1))` is next
  | chk                -- `check_resize` is next
  deriving DecidableEq, Repr

structure LState where
  x : Thr
  pend : Pend := .none
  out : Out := .unit

inductive LLabel
  | hashOf (r h : Nat)
  | ldSize (n : Nat) (mo : Int)
  | bktAt (idx b : Nat)
  | ldNext (p : Nat) (w : W) (mo : Int)
  | casNext (p : Nat) (exp new old : W)
  | chkResize
  | count
  | bad
  deriving DecidableEq, Repr

/-- L2's `addPos` on the thread record -/
def laddPos (rev : Nat → Nat) (x : Thr) : Thr :=
  if x.iter.ptr = 0 ∨ rev x.node < rev x.iter.ptr ∨ (x.mode = .bkt ∧ rev x.iter.ptr = rev x.node)
  then { x with pc := .aCas } else { x with pc := .aNext }

/-- L2's `addDone` on the thread record (`none`: mode `bkt`, out of scope) -/
def laddDone (x : Thr) : Option (Thr × Out) :=
  match x.mode with
  | .plain => some ({ x with pc := .idle, op := .none }, .unit)
  | .uniq => some ({ x with pc := .idle, op := .none }, .node x.node)
  | .repl => some ({ x with pc := .idle, op := .none }, .node 0)
  | .bkt => none

def mk (x : Thr) (o : Out := .unit) : LState := { x := x, pend := .none, out := o }

/-- is `check_resize` called after the load of `next = w` at `aNext`? (`iter_prev->reverse_hash != iter->reverse_hash
&& !is_bucket(next)`) -/
def needsChk (rev : Nat → Nat) (x : Thr) (w : W) : Bool := decide (rev x.prev ≠ rev x.iter.ptr) && !w.bkt

def lstep (rev : Nat → Nat) (ls : LState) (l : LLabel) : Option LState :=
  let x := ls.x
  match ls.pend with
  | .size =>
    match l with
    | .ldSize n mo => if 2 ≤ mo then some { x := { x with sz := n, pc := .aHead }, pend := .bkt, out := .unit } else none
    | _ => none
  | .bkt =>
    match l with
    | .bktAt idx b => if idx = x.hs &&& (x.sz - 1) then some { x := { x with bkt := b }, pend := .none, out := .unit } else none
    | _ => none
  | .chk =>
    match l with
    | .chkResize => some { ls with pend := .none }
    | _ => none
  | .none =>
    match x.pc with
    | .aSize =>
      match l with
      | .hashOf r h => if r = x.hs ∧ h = rev x.node then some { ls with pend := .size } else none
      | _ => none
    | .aHead =>
      match l with
      | .ldNext p w mo =>
        if p = x.bkt ∧ 1 ≤ mo then some (mk (laddPos rev { x with prev := x.bkt, iter := w })) else none
      | _ => none
    | .aNext =>
      match l with
      | .ldNext p w mo =>
        if p = x.iter.ptr ∧ 1 ≤ mo then
          if w.rem then some (mk { x with nx := w, pc := .aGc })
          else if (x.mode = .uniq ∨ x.mode = .repl) ∧ w.bkt = false ∧ rev p = rev x.node then
            some (mk { x with nx := w, wk := .dupAdd, rh := rev x.node, cur := p, pc := .wNext })
          else some { x := laddPos rev { x with nx := w, prev := p, iter := w },
                      pend := if needsChk rev x w then .chk else .none, out := .unit }
        else none
      | _ => none
    | .aCas =>
      match l with
      | .casNext p e n old =>
        if p = x.prev ∧ e = x.iter ∧ n = { ptr := x.node, bkt := x.iter.bkt } then
          if old = x.iter then (laddDone x).map fun r => mk r.1 r.2
          else some (mk { x with pc := .aHead })
        else none
      | _ => none
    | .aGc =>
      match l with
      | .casNext p e n _ =>
        if p = x.prev ∧ e = x.iter ∧ n = { ptr := x.nx.ptr, bkt := x.iter.bkt } then some (mk { x with pc := .aHead })
        else none
      | _ => none
    | .idle =>
      match l with
      | .count => some ls
      | _ => none
    | _ => none

def lrun (rev : Nat → Nat) : LState → List LLabel → Option LState
  | ls, [] => some ls
  | ls, l :: r => match lstep rev ls l with
    | some ls' => lrun rev ls' r
    | none => none

theorem lrun_append (rev : Nat → Nat) (ls : LState) (a b : List LLabel) :
    lrun rev ls (a ++ b) = (lrun rev ls a).bind (fun m => lrun rev m b) := by
  induction a generalizing ls with
  | nil => rfl
  | cons l r ih => simp only [List.cons_append, lrun]; cases lstep rev ls l <;> simp [ih]

def proj (s : State) (t : Nat) (o : Out := .unit) : LState := mk (s.th t) o

/-- the labels treated here (`ldSize` only at pc `aSize`, `casGc` only at pc `aGc`, `casIns` not in mode `bkt`) -/
def inScope : Label → Bool
  | .ldSize | .ldHeadA | .ldNextA | .casIns | .casGc => true
  | _ => false

/-- the local labels of an L2 step, with the values the global state determines -/
def decor (s : State) (t : Nat) : Label → List LLabel :=
  let x := s.th t
  fun
  | .ldSize => [.hashOf x.hs (s.rev x.node), .ldSize s.size 2, .bktAt (x.hs &&& (s.size - 1)) (s.tbl (x.hs % s.size))]
  | .ldHeadA => [.ldNext x.bkt (s.nxt x.bkt) 1]
  | .ldNextA => .ldNext x.iter.ptr (s.nxt x.iter.ptr) 1 ::
      (if (s.nxt x.iter.ptr).rem = false ∧
          ¬((x.mode = .uniq ∨ x.mode = .repl) ∧ (s.nxt x.iter.ptr).bkt = false ∧ s.rev x.iter.ptr = s.rev x.node) ∧
          needsChk s.rev x (s.nxt x.iter.ptr) = true then [.chkResize] else [])
  | .casIns => [.casNext x.prev x.iter { ptr := x.node, bkt := x.iter.bkt } (s.nxt x.prev)]
  | .casGc => [.casNext x.prev x.iter { ptr := x.nx.ptr, bkt := x.iter.bkt } (s.nxt x.prev)]
  | _ => []

theorem laddPos_eq (s : State) (x : Thr) : laddPos s.rev x = addPos s x := rfl

theorem addDone_eq (s : State) (t : Nat) (x : Thr) (r : Thr × Out) (h : laddDone x = some r) :
    addDone s t x = (setTh s t r.1, r.2) := by
  unfold laddDone at h; unfold addDone
  cases hm : x.mode <;> simp [hm] at h <;> subst h <;> rfl

/-- every non-crashing L2 step of thread `t` (labels in scope) is the local run `decor s t L`, same `Out` -/
theorem proj_step (c : Cfg) (s s' : State) (t : Nat) (L : Label) (o o0 : Out)
    (hL : inScope L = true) (hsz : L = .ldSize → (s.th t).pc = .aSize) (hgc : L = .casGc → (s.th t).pc = .aGc)
    (hmode : L = .casIns → (s.th t).mode ≠ .bkt)
    (h : step c s t L = some (s', o)) (hnc : o ≠ .crash) :
    lrun s.rev (proj s t o0) (decor s t L) = some (proj s' t o) := by
  unfold step at h
  split at h
  · cases h
  · cases L <;> simp only [inScope, Bool.false_eq_true] at hL <;>
      simp only [stepAdd, crash] at h
    case ldSize =>
      have hpc := hsz rfl
      simp only [hpc] at h
      cases h
      simp [decor, lrun, lstep, proj, mk, hpc, setTh]
    case ldHeadA =>
      split at h <;> try cases h
      rename_i hpc
      split at h
      · cases h; exact absurd rfl hnc
      · cases h
        simp [decor, lrun, lstep, proj, mk, hpc, laddPos_eq]
    case ldNextA =>
      split at h <;> try cases h
      rename_i hpc
      split at h
      · cases h; exact absurd rfl hnc
      · split at h
        · cases h; simp_all [decor, lrun, lstep, proj, mk]
        · rename_i hr
          split at h
          · rename_i hu
            cases h
            simp [decor, lrun, lstep, proj, mk, hpc, hr, hu]
          · rename_i hu
            cases h
            by_cases hk : needsChk s.rev (s.th t) (s.nxt (s.th t).iter.ptr) = true <;>
              simp [decor, lrun, lstep, proj, mk, hpc, hr, hu, hk, laddPos_eq]
    case casIns =>
      split at h <;> try cases h
      rename_i hpc
      have hm := hmode rfl
      split at h
      · cases h; exact absurd rfl hnc
      · split at h
        · rename_i heq
          obtain ⟨r, hr⟩ : ∃ r, laddDone (s.th t) = some r := by
            unfold laddDone; cases hmm : (s.th t).mode <;> simp_all
          rw [addDone_eq _ t _ r hr] at h
          cases h
          simp [decor, lrun, lstep, proj, mk, hpc, heq, hr, setTh]
        · rename_i hne
          cases h
          simp [decor, lrun, lstep, proj, mk, hpc, hne]
    case casGc =>
      have hpc := hgc rfl
      simp only [hpc, true_or, if_true] at h
      split at h
      · cases h; exact absurd rfl hnc
      · split at h <;> cases h <;> simp [decor, lrun, lstep, proj, mk, hpc, unlink, setTh]

/-- the node an L2 step dereferences -/
def derefOf (s : State) (t : Nat) : Label → Nat :=
  let x := s.th t
  fun
  | .ldHeadA => x.bkt
  | .ldNextA => x.iter.ptr
  | _ => x.prev

/-- the pc at which an L2 label of this file is taken -/
def pcOf : Label → Pc
  | .ldSize => .aSize | .ldHeadA => .aHead | .ldNextA => .aNext | .casIns => .aCas | _ => .aGc

/-- conversely: the thread is at the pc of `L`, the local automaton accepts the decorated label and the global guard
holds (thread exists, the dereferenced node is live – not needed for `ldSize`) ⇒ the L2 step is enabled, with the local
successor and the same `Out` -/
theorem lift_step (c : Cfg) (s : State) (t : Nat) (L : Label) (ls' : LState) (o0 : Out)
    (hL : inScope L = true) (ht : t < c.n) (hpc : (s.th t).pc = pcOf L)
    (hok : L ≠ .ldSize → okp s (derefOf s t L) = true)
    (h : lrun s.rev (proj s t o0) (decor s t L) = some ls') :
    ∃ s', step c s t L = some (s', ls'.out) ∧ proj s' t ls'.out = ls' := by
  have ht' : ¬ c.n ≤ t := by omega
  cases L <;> simp only [inScope, Bool.false_eq_true] at hL <;> simp only [pcOf] at hpc <;>
    simp only [derefOf] at hok
  case ldSize =>
    simp [decor, lrun, lstep, proj, mk, hpc] at h
    subst h
    simp [step, stepAdd, ht', hpc, proj, mk, setTh]
  case ldHeadA =>
    have hok := hok (by decide)
    simp [decor, lrun, lstep, proj, mk, hpc] at h
    subst h
    simp [step, stepAdd, ht', hpc, hok, proj, mk, laddPos_eq]
  case ldNextA =>
    have hok := hok (by decide)
    by_cases hr : (s.nxt (s.th t).iter.ptr).rem = true
    · simp [decor, lrun, lstep, proj, mk, hpc, hr] at h
      subst h
      simp [step, stepAdd, ht', hpc, hok, hr, proj, mk]
    · by_cases hu : ((s.th t).mode = .uniq ∨ (s.th t).mode = .repl) ∧ (s.nxt (s.th t).iter.ptr).bkt = false ∧
          s.rev (s.th t).iter.ptr = s.rev (s.th t).node
      · simp [decor, lrun, lstep, proj, mk, hpc, hr, hu] at h
        subst h
        simp [step, stepAdd, ht', hpc, hok, hr, hu, proj, mk]
      · by_cases hk : needsChk s.rev (s.th t) (s.nxt (s.th t).iter.ptr) = true <;>
          simp [decor, lrun, lstep, proj, mk, hpc, hr, hu, hk] at h <;>
          subst h <;>
          simp [step, stepAdd, ht', hpc, hok, hr, hu, proj, mk, laddPos_eq]
  case casIns =>
    have hok := hok (by decide)
    by_cases heq : s.nxt (s.th t).prev = (s.th t).iter
    · cases hr : laddDone (s.th t) with
      | none => simp [decor, lrun, lstep, proj, mk, hpc, heq, hr] at h
      | some r =>
        simp [decor, lrun, lstep, proj, mk, hpc, heq, hr] at h
        subst h
        simp [step, stepAdd, ht', hpc, hok, heq, addDone_eq _ t _ _ hr, proj, mk, setTh]
    · simp [decor, lrun, lstep, proj, mk, hpc, heq] at h
      subst h
      simp [step, stepAdd, ht', hpc, hok, heq, proj, mk]
  case casGc =>
    have hok := hok (by decide)
    simp [decor, lrun, lstep, proj, mk, hpc] at h
    subst h
    by_cases heq : s.nxt (s.th t).prev = (s.th t).iter <;>
      simp [step, stepAdd, ht', hpc, hok, heq, proj, mk, unlink, setTh]

/-- frame: a step of the local automaton keeps the arguments of the call (`node`, `hs`, `mode`) -/
theorem laddPos_args (rev : Nat → Nat) (x : Thr) :
    (laddPos rev x).node = x.node ∧ (laddPos rev x).mode = x.mode ∧ (laddPos rev x).hs = x.hs := by
  unfold laddPos; split <;> simp

end UrcuVerif.Src.LfhtA
