import UrcuVerif.Src.LfhtTag
import UrcuVerif.Src.LfhtLocal
/-!
# Generated source IR of `_cds_lfht_gc_bucket` and `_cds_lfht_del` ⊑ thread-local projection of L2 (`Lfht/Conc`)
-/
namespace UrcuVerif.Src.LfhtR
open UrcuVerif UrcuVerif.Src UrcuVerif.Lfht.Conc UrcuVerif.Src.LfhtL

@[simp] theorem decW_encP (p : Nat) : decW (encP p) = some { ptr := p } := by rw [encP_eq_encW, decW_encW]

/-- the tag tests on an untagged node pointer -/
@[simp] theorem tagand_obj1 (p : Nat) : evalBin .tagand (.ptr (.obj p)) (.int 1) = .ok (.int 0) := by
  simp [evalBin, Loc.tagOf]
@[simp] theorem tagand_obj2 (p : Nat) : evalBin .tagand (.ptr (.obj p)) (.int 2) = .ok (.int 0) := by
  simp [evalBin, Loc.tagOf]
@[simp] theorem tagand_obj4 (p : Nat) : evalBin .tagand (.ptr (.obj p)) (.int 4) = .ok (.int 0) := by
  simp [evalBin, Loc.tagOf]

/-- abstraction of the events of the source to local labels (one label per event) -/
def absEv : Event → LLabel
  | .ld (.field (.obj p) f) v mo =>
    if f = "next" then (match decW v with | some w => .ldNext p w mo | none => .bad) else .bad
  | .cas (.field (.obj p) f) e n old mos _ =>
    if f = "next" ∧ 5 ≤ mos then
      (match decW e, decW n, decW old with
       | some e, some n, some o => .casNext p e n o
       | _, _, _ => .bad)
    else .bad
  | .rmw .uor (.field (.obj p) f) (.int k) r mo =>
    if f = "next" ∧ 0 ≤ k ∧ 3 ≤ mo then (match decW r with | some r => .orNext p k.toNat r | none => .bad) else .bad
  | .xchg (.field (.obj p) f) new old mo =>
    if f = "next" ∧ 5 ≤ mo then
      (match decW new, decW old with
       | some n, some o => .xchgNext p n o
       | _, _ => .bad)
    else .bad
  | .ext name args r =>
    if name = "bit_reverse_ulong" then
      (match args, r with
       | [.int a], .int h => if 0 ≤ a ∧ 0 ≤ h then .hashOf a.toNat h.toNat else .bad
       | _, _ => .bad)
    else if name = "(*bucket_at)" then
      (match args, r with
       | [_, _, .int idx], .ptr (.obj b) => if 0 ≤ idx then .bktAt idx.toNat b else .bad
       | _, _ => .bad)
    else .bad
  | _ => .bad

/-- the access the thread performs next at `ls`, as the label it is when the oracle delivers `v` – `none` when `v` is
ill-typed **or fails an assertion of the source** (`urcu_posix_assert`, an `abort()` in the default build):
`gHead`: `!is_removed(iter)`, `!is_removal_owner(iter)`; `gNext`: a non-removed word has no REMOVAL_OWNER bit (asserted
after the inner loop); `dLd`: `!is_bucket(next)`; `dAssert`: `is_removed(node->next)`. -/
def obsLabel (rev : Nat → Nat) (ls : LState) (v : Val) : Option LLabel :=
  let x := ls.x
  match ls.pend with
  | .hash n => (match v with
    | .int h => if 0 ≤ h then some (.hashOf (rev n) h.toNat) else none
    | _ => none)
  | .bkt h => (match v with
    | .ptr (.obj b) => if b ≠ 0 then some (.bktAt (h &&& (x.sz - 1)) b) else none
    | _ => none)
  | .none => (decW v).bind fun w =>
    match x.pc with
    | .dLd => if w.rem = false → w.bkt = false then some (.ldNext x.node w 0) else none
    | .dOr => some (.orNext x.node 1 w)
    | .gHead => if w.rem = false ∧ w.own = false then some (.ldNext x.gbkt w 1) else none
    | .gNext => if w.own = true → w.rem = true then some (.ldNext x.iter.ptr w 1) else none
    | .gCas => some (.casNext x.prev x.iter { ptr := x.nx.ptr, bkt := x.iter.bkt } w)
    | .dAssert => if w.rem then some (.ldNext x.node w 0) else none
    | .dLd2 => some (.ldNext x.node w 0)
    | .dXchg => some (.xchgNext x.node { x.v with own := true } w)
    | _ => none

/-- the thread is inside `_cds_lfht_del` / `_cds_lfht_gc_bucket` -/
def active (ls : LState) : Prop :=
  ls.pend ≠ .none ∨ ls.x.pc = .dLd ∨ ls.x.pc = .dOr ∨ ls.x.pc = .gHead ∨ ls.x.pc = .gNext ∨ ls.x.pc = .gCas ∨
    ls.x.pc = .dAssert ∨ ls.x.pc = .dLd2 ∨ ls.x.pc = .dXchg

/-- the oracle delivers, at every access, a well-typed value that passes the assertions of the source (nothing is
required of the values left over when the function has returned) -/
def OracleOk (rev : Nat → Nat) : LState → List Val → Prop
  | _, [] => True
  | ls, v :: rest => active ls → ∃ l, obsLabel rev ls v = some l ∧ ∀ ls', lstep rev ls l = some ls' → OracleOk rev ls' rest

/-- replay of the abstraction of an event list -/
def lr (rev : Nat → Nat) (ls : LState) (evs : List Event) : Option LState := lrun rev ls (evs.map absEv)

theorem lr_nil (rev ls) : lr rev ls [] = some ls := rfl
theorem lr_append (rev ls a b) : lr rev ls (a ++ b) = (lr rev ls a).bind (fun m => lr rev m b) := by
  simp [lr, lrun_append]

/-- body of the outer / inner `for (;;)` of the generated `_cds_lfht_gc_bucket` -/
def gcOuter : Stmt := match firstLoop Gen.Src.«lfht._cds_lfht_gc_bucket» with | some b => b | none => .skip
def gcInner : Stmt := match firstLoop gcOuter with | some b => b | none => .skip

/-- the pc of L2 at the head of the inner loop (L2 has already taken the decision of the two loop tests) -/
def gcPc (rev : Nat → Nat) (x : Thr) (rp : Pc) : Pc :=
  if x.iter.ptr = 0 ∨ rev x.gnode < rev x.iter.ptr then rp else .gNext

theorem lgcPos_some (rev : Nat → Nat) (x : Thr) (rp : Pc) (h : retPc x.gcont = some rp) :
    lgcPos rev x = some { x with pc := gcPc rev x rp } := by
  unfold lgcPos gcPc; split <;> simp [h]

/-- environment ~ thread record inside `_cds_lfht_gc_bucket` -/
structure GcRel (rev : Nat → Nat) (priv0 : Loc → Option Val) (B N : Nat) (gc : GCont) (env : Env) (x : Thr) : Prop where
  bucket : env.vars "bucket" = some (.ptr (.obj B))
  node : env.vars "node" = some (.ptr (.obj N))
  prev : env.vars "iter_prev" = some (.ptr (.obj x.prev))
  iter : env.vars "iter" = some (encW x.iter)
  priv : env.priv = priv0
  gbkt : x.gbkt = B
  gnode : x.gnode = N
  gcont : x.gcont = gc
  prev0 : x.prev ≠ 0
  clean : x.iter.rem = false ∧ x.iter.own = false

theorem gcRel_iff (rev priv0 B N gc env x) : GcRel rev priv0 B N gc env x ↔
    (env.vars "bucket" = some (.ptr (.obj B)) ∧ env.vars "node" = some (.ptr (.obj N)) ∧
     env.vars "iter_prev" = some (.ptr (.obj x.prev)) ∧ env.vars "iter" = some (encW x.iter) ∧ env.priv = priv0 ∧
     x.gbkt = B ∧ x.gnode = N ∧ x.gcont = gc ∧ x.prev ≠ 0 ∧ x.iter.rem = false ∧ x.iter.own = false) :=
  ⟨fun h => ⟨h.1, h.2, h.3, h.4, h.5, h.6, h.7, h.8, h.9, h.10.1, h.10.2⟩,
   fun ⟨a, b, c, d, e, f, g, h, i, j, k⟩ => ⟨a, b, c, d, e, f, g, h, i, ⟨j, k⟩⟩⟩

/-- the private view holds the (immutable) `reverse_hash` of every node -/
def RevView (rev : Nat → Nat) (priv0 : Loc → Option Val) : Prop :=
  ∀ n, n ≠ 0 → priv0 (.field (.obj n) "reverse_hash") = some (.int (rev n))

/-- invariant at the head of the inner loop -/
def GcI (rev : Nat → Nat) (priv0 : Loc → Option Val) (B N : Nat) (gc : GCont) (rp : Pc)
    (env : Env) (inp : List Val) (ls : LState) : Prop :=
  GcRel rev priv0 B N gc env ls.x ∧ ls.pend = .none ∧ ls.x.pc = gcPc rev ls.x rp ∧ OracleOk rev ls inp

/-- how the inner loop ends: `return` (L2 is at the caller's pc), `break` (a removed successor: L2 is at `gCas`),
or preempted -/
def GcR (rev : Nat → Nat) (priv0 : Loc → Option Val) (B N : Nat) (gc : GCont) (rp : Pc)
    (c : Ctl) (env : Env) (inp : List Val) (ls : LState) : Prop :=
  match c with
  | .ret none => env.priv = priv0 ∧ ls.pend = .none ∧ ls.x.pc = rp ∧ ls.x.gcont = gc ∧ OracleOk rev ls inp
  | .brk => GcRel rev priv0 B N gc env ls.x ∧ env.vars "next" = some (encW ls.x.nx) ∧ ls.pend = .none ∧
      ls.x.pc = .gCas ∧ OracleOk rev ls inp
  | .blocked => True
  | _ => False

theorem gc_inner_body (fuel : Nat) (rev : Nat → Nat) (priv0 : Loc → Option Val) (B N : Nat) (gc : GCont) (rp : Pc)
    (hrev : RevView rev priv0) (hN : N ≠ 0) (hrp : retPc gc = some rp)
    (env : Env) (inp : List Val) (ls : LState) (hI : GcI rev priv0 B N gc rp env inp ls) :
    ∃ o, exec fuel gcInner env inp = .ok o ∧ ∃ ls', lr rev ls o.events = some ls' ∧
      (if o.ctl.goesOn then GcI rev priv0 B N gc rp o.env o.inp ls' else GcR rev priv0 B N gc rp o.ctl o.env o.inp ls') := by
  rcases ls with ⟨x, pend, out⟩
  obtain ⟨hrel, hpend, hpc, hO⟩ := hI
  dsimp only at hpend hpc hrel; subst hpend
  have hb := hrel.bucket; have hn := hrel.node; have hp := hrel.prev; have hi := hrel.iter; have hpr := hrel.priv
  have hgn := hrel.gnode; have hgc := hrel.gcont
  by_cases h0 : x.iter.ptr = 0
  · lexec [gcInner, gcOuter, firstLoop, Gen.Src.«lfht._cds_lfht_gc_bucket», call_is_end, call_clear_flag,
      call_is_removed, pureCall, bind1]
    refine ⟨_, lr_nil _ _, ?_⟩
    simp [Ctl.goesOn, GcR, hpc, gcPc, h0, hgc, hO]
  · have hri := hrev _ h0
    have hrn := hrev _ hN
    by_cases hgt : rev N < rev x.iter.ptr
    · lexec [gcInner, gcOuter, firstLoop, Gen.Src.«lfht._cds_lfht_gc_bucket», call_is_end, call_clear_flag,
        call_is_removed, pureCall, bind1, encP_pos h0]
      refine ⟨_, lr_nil _ _, ?_⟩
      simp [Ctl.goesOn, GcR, hpc, gcPc, h0, hgc, hO, hgn, hgt]
    · have hpcN : x.pc = .gNext := by simp [hpc, gcPc, h0, hgn, hgt]
      clear hpc
      cases inp with
      | nil =>
        lexec [gcInner, gcOuter, firstLoop, Gen.Src.«lfht._cds_lfht_gc_bucket», call_is_end, call_clear_flag,
          call_is_removed, pureCall, bind1, encP_pos h0]
        exact ⟨_, lr_nil _ _, by simp [Ctl.goesOn, GcR]⟩
      | cons v rest =>
        obtain ⟨l, hl, hrest⟩ := hO (by simp [active, hpcN])
        simp only [obsLabel, hpcN] at hl
        cases hd : decW v with
        | none => simp [hd] at hl
        | some w =>
          have hv := encW_of_decW hd; subst hv
          simp only [decW_encW, Option.bind] at hl
          split at hl <;> cases hl
          rename_i hown
          have hgb := hrel.gbkt; have hcl := hrel.clean; have hp0 := hrel.prev0
          by_cases hr : w.rem
          · lexec [gcInner, gcOuter, firstLoop, Gen.Src.«lfht._cds_lfht_gc_bucket», call_is_end, call_clear_flag,
              call_is_removed, pureCall, bind1, encP_pos h0]
            simp [lr, absEv, lrun, lstep, mk, Ctl.goesOn, GcR, gcRel_iff, *]
          · have hlg : ∀ y : Thr, retPc y.gcont = some rp → lgcPos rev y = some { y with pc := gcPc rev y rp } :=
              fun y hy => lgcPos_some rev y rp hy
            have hwo : w.own = false := by
              cases ho : w.own
              · rfl
              · exact absurd (hown ho) hr
            lexec [gcInner, gcOuter, firstLoop, Gen.Src.«lfht._cds_lfht_gc_bucket», call_is_end, call_clear_flag,
              call_is_removed, pureCall, bind1, encP_pos h0]
            simp [lr, absEv, lrun, lstep, mk, Ctl.goesOn, GcI, gcRel_iff, gcPc, *]

/-- the inner loop: every run is accepted; it ends by `return` (L2 at the caller's pc), by `break` in front of the
unlink cmpxchg (L2 at `gCas`), preempted, or out of budget -/
theorem gc_inner_loop (fuel : Nat) (rev : Nat → Nat) (priv0 : Loc → Option Val) (B N : Nat) (gc : GCont) (rp : Pc)
    (hrev : RevView rev priv0) (hN : N ≠ 0) (hrp : retPc gc = some rp)
    (env : Env) (inp : List Val) (ls : LState) (r : Except String Out)
    (hE : iterate (exec fuel gcInner) fuel env inp [] = r) (hI : GcI rev priv0 B N gc rp env inp ls) :
    ∃ out, r = .ok out ∧ ∃ ls', lr rev ls out.events = some ls' ∧
      (out.ctl = .fuel ∨ ∃ c, c.goesOn = false ∧ GcR rev priv0 B N gc rp c out.env out.inp ls' ∧ out.ctl = c.afterLoop) := by
  obtain ⟨out, hout, evs, ls', hev, hl, hfin⟩ :=
    iterate_inv (lr rev) (lr_nil rev) (lr_append rev) (exec fuel gcInner) (GcI rev priv0 B N gc rp)
      (GcR rev priv0 B N gc rp) (gc_inner_body fuel rev priv0 B N gc rp hrev hN hrp) fuel env inp ls [] hI
  refine ⟨out, by rw [← hE, hout], ls', ?_, hfin⟩
  rw [hev]; simpa using hl

/-- invariant at the head of the outer loop (L2 at `gHead`) -/
def GcO (rev : Nat → Nat) (priv0 : Loc → Option Val) (B N : Nat) (gc : GCont)
    (env : Env) (inp : List Val) (ls : LState) : Prop :=
  env.vars "bucket" = some (.ptr (.obj B)) ∧ env.vars "node" = some (.ptr (.obj N)) ∧ env.priv = priv0 ∧
    ls.pend = .none ∧ ls.x.pc = .gHead ∧ ls.x.gbkt = B ∧ ls.x.gnode = N ∧ ls.x.gcont = gc ∧ OracleOk rev ls inp

/-- how `_cds_lfht_gc_bucket` ends: returned (L2 at the caller's pc `rp`), preempted, or out of budget -/
def GcRO (rev : Nat → Nat) (priv0 : Loc → Option Val) (gc : GCont) (rp : Pc)
    (c : Ctl) (env : Env) (inp : List Val) (ls : LState) : Prop :=
  match c with
  | .ret none => env.priv = priv0 ∧ ls.pend = .none ∧ ls.x.pc = rp ∧ ls.x.gcont = gc ∧ OracleOk rev ls inp
  | .blocked => True
  | .fuel => True
  | _ => False

/-- the statement after the first `k` ones of a (right-nested) sequence -/
def seqTail : Nat → Stmt → Stmt
  | 0, s => s
  | k+1, .seq _ b => seqTail k b
  | _, s => s

/-- the part of the outer loop body after the inner loop: assertions on `iter`, computation of `new_next`, the cmpxchg -/
def gcPost : Stmt := seqTail 8 gcOuter

theorem gc_post (fuel : Nat) (rev : Nat → Nat) (priv0 : Loc → Option Val) (B N : Nat) (gc : GCont)
    (env : Env) (inp : List Val) (ls : LState) (r : Except String Out)
    (hE : exec fuel gcPost env inp = r)
    (hrel : GcRel rev priv0 B N gc env ls.x) (hnx : env.vars "next" = some (encW ls.x.nx)) (hpend : ls.pend = .none)
    (hpc : ls.x.pc = .gCas) (hO : OracleOk rev ls inp) :
    ∃ o, r = .ok o ∧ ∃ ls', lr rev ls o.events = some ls' ∧
      (o.ctl = .blocked ∨ (o.ctl = .normal ∧ GcO rev priv0 B N gc o.env o.inp ls')) := by
  rcases ls with ⟨x, pend, out⟩
  dsimp only at hrel hnx hpend hpc; subst hpend; subst hE
  have hb := hrel.bucket; have hn := hrel.node; have hp := hrel.prev; have hi := hrel.iter; have hpr := hrel.priv
  have hgn := hrel.gnode; have hgc := hrel.gcont; have hgb := hrel.gbkt; have hcl := hrel.clean; have hp0 := hrel.prev0
  cases inp with
  | nil =>
    by_cases hbk : x.iter.bkt <;>
    lexec [gcPost, seqTail, gcOuter, firstLoop, Gen.Src.«lfht._cds_lfht_gc_bucket», call_is_removed,
      call_is_removal_owner, call_is_bucket, call_clear_flag, call_flag_bucket, pureCall, bind1] <;>
    exact ⟨_, lr_nil _ _⟩
  | cons v rest =>
    obtain ⟨l, hl, hrest⟩ := hO (by simp [active, hpc])
    simp only [obsLabel, hpc] at hl
    cases hd : decW v with
    | none => simp [hd] at hl
    | some w =>
      have hv := encW_of_decW hd; subst hv
      simp only [decW_encW, Option.bind] at hl
      cases hl
      by_cases hbk : x.iter.bkt <;>
      lexec [gcPost, seqTail, gcOuter, firstLoop, Gen.Src.«lfht._cds_lfht_gc_bucket», call_is_removed,
        call_is_removal_owner, call_is_bucket, call_clear_flag, call_flag_bucket, pureCall, bind1] <;>
      simp [lr, absEv, lrun, lstep, mk, GcO, *]

theorem gc_outer_body (fuel : Nat) (rev : Nat → Nat) (priv0 : Loc → Option Val) (B N : Nat) (gc : GCont) (rp : Pc)
    (hrev : RevView rev priv0) (hB : B ≠ 0) (hN : N ≠ 0) (hrp : retPc gc = some rp)
    (env : Env) (inp : List Val) (ls : LState) (hI : GcO rev priv0 B N gc env inp ls) :
    ∃ o, exec fuel gcOuter env inp = .ok o ∧ ∃ ls', lr rev ls o.events = some ls' ∧
      (if o.ctl.goesOn then GcO rev priv0 B N gc o.env o.inp ls' else GcRO rev priv0 gc rp o.ctl o.env o.inp ls') := by
  rcases ls with ⟨x, pend, out⟩
  obtain ⟨hb, hn, hpr, hpend, hpc, hgb, hgn, hgc, hO⟩ := hI
  dsimp only at hpend hpc hgb hgn hgc; subst hpend
  have hlg : ∀ y : Thr, retPc y.gcont = some rp → lgcPos rev y = some { y with pc := gcPc rev y rp } :=
    fun y hy => lgcPos_some rev y rp hy
  have hshape : gcOuter =
      .seq _ (.seq _ (.seq _ (.seq _ (.seq _ (.seq _ (.seq _ (.seq (.loop gcInner) gcPost))))))) := rfl
  cases inp with
  | nil =>
    lexec [gcOuter, firstLoop, Gen.Src.«lfht._cds_lfht_gc_bucket»]
    exact ⟨_, lr_nil _ _, by simp [Ctl.goesOn, GcRO]⟩
  | cons v rest =>
    obtain ⟨l, hl, hrest⟩ := hO (by simp [active, hpc])
    simp only [obsLabel, hpc] at hl
    cases hd : decW v with
    | none => simp [hd] at hl
    | some w =>
      have hv := encW_of_decW hd; subst hv
      simp only [decW_encW, Option.bind] at hl
      split at hl <;> cases hl
      rename_i hcl
      obtain ⟨ls0, hls0⟩ : ∃ ls0, ls0 =
          mk { x with prev := x.gbkt, iter := w, pc := gcPc rev { x with prev := x.gbkt, iter := w } rp } := ⟨_, rfl⟩
      have hstep : lstep rev { x := x, pend := .none, out := out } (.ldNext x.gbkt w 1) = some ls0 := by
        rw [hls0]; simp [lstep, hpc, hlg, hgc, hrp, gcPc]
      have hO1 := hrest _ hstep
      have hlr0 : ∀ evs, lr rev { x := x, pend := .none, out := out }
          (Event.ld ((Loc.obj B).field "next") (encW w) 1 :: evs) = lr rev ls0 evs := by
        intro evs; simp only [lr, List.map_cons, lrun, absEv, decW_encW, if_true, ← hgb, hstep]
      rw [hshape]
      lexec [call_is_removed, call_is_removal_owner, pureCall, bind1]
      generalize hE : iterate (exec fuel gcInner) fuel _ rest [] = r
      obtain ⟨o1, rfl, ls1, hl1, hfin⟩ := gc_inner_loop fuel rev priv0 B N gc rp hrev hN hrp _ _ _ _ hE
        (show GcI rev priv0 B N gc rp _ rest ls0 from by
          subst hls0; exact ⟨by simp [gcRel_iff, mk, *], rfl, rfl, hO1⟩)
      rcases o1 with ⟨ev1, env1, inp1, ctl1⟩
      rcases hfin with hf | ⟨c, hc, hR, hctl⟩
      · dsimp only at hf; subst hf
        simp [hlr0, hl1, Ctl.goesOn, GcRO]
      · dsimp only at hctl hR hl1
        cases c <;> simp [Ctl.goesOn] at hc <;> simp only [GcR] at hR <;> simp only [Ctl.afterLoop] at hctl <;> subst hctl
        · -- break: the unlink cmpxchg
          obtain ⟨hrel1, hnx1, hpend1, hpc1, hO1'⟩ := hR
          dsimp only
          generalize hE2 : exec fuel gcPost env1 inp1 = r2
          obtain ⟨o2, rfl, ls2, hl2, hfin2⟩ := gc_post fuel rev priv0 B N gc env1 inp1 ls1 r2 hE2 hrel1 hnx1 hpend1 hpc1 hO1'
          rcases o2 with ⟨ev2, env2, inp2, ctl2⟩
          rcases hfin2 with hb2 | ⟨hn2, hI2⟩
          · dsimp only at hb2; subst hb2
            simp [hlr0, lr_append, hl1, hl2, Ctl.goesOn, GcRO]
          · dsimp only at hn2 hI2; subst hn2
            simp [hlr0, lr_append, hl1, hl2, Ctl.goesOn, hI2]
        · -- return
          cases ‹Option Val› <;> simp only at hR
          simp [hlr0, hl1, Ctl.goesOn, GcRO, hR]
        · simp [hlr0, hl1, Ctl.goesOn, GcRO]

theorem gc_outer_loop (fuel : Nat) (rev : Nat → Nat) (priv0 : Loc → Option Val) (B N : Nat) (gc : GCont) (rp : Pc)
    (hrev : RevView rev priv0) (hB : B ≠ 0) (hN : N ≠ 0) (hrp : retPc gc = some rp)
    (env : Env) (inp : List Val) (ls : LState) (r : Except String Out)
    (hE : iterate (exec fuel gcOuter) fuel env inp [] = r) (hI : GcO rev priv0 B N gc env inp ls) :
    ∃ out, r = .ok out ∧ ∃ ls', lr rev ls out.events = some ls' ∧
      (out.ctl = .fuel ∨ ∃ c, c.goesOn = false ∧ GcRO rev priv0 gc rp c out.env out.inp ls' ∧ out.ctl = c.afterLoop) := by
  obtain ⟨out, hout, evs, ls', hev, hl, hfin⟩ :=
    iterate_inv (lr rev) (lr_nil rev) (lr_append rev) (exec fuel gcOuter) (GcO rev priv0 B N gc)
      (GcRO rev priv0 gc rp) (gc_outer_body fuel rev priv0 B N gc rp hrev hB hN hrp) fuel env inp ls [] hI
  refine ⟨out, by rw [← hE, hout], ls', ?_, hfin⟩
  rw [hev]; simpa using hl

/-- **`_cds_lfht_gc_bucket(bucket, node)`**: for every budget and every oracle that delivers well-typed words passing the
assertions of the source (`OracleOk`), the run does not fail, its events are accepted by the local automaton from
`gHead` (`ldHeadG`, `ldNextG`*, `casGc`, again …, each with the address and the values L2 prescribes), and when the
function returns L2's thread is at the caller's pc (`dAssert` for `_cds_lfht_del`, `rAssert` for `_cds_lfht_replace`);
no plain store: the private view is unchanged. -/
theorem gc_bucket_exec (fuel : Nat) (rev : Nat → Nat) (env : Env) (inp : List Val) (x : Thr) (o0 : Lfht.Conc.Out) (rp : Pc)
    (r : Except String Out) (hE : exec fuel Gen.Src.«lfht._cds_lfht_gc_bucket» env inp = r)
    (hb : env.vars "bucket" = some (.ptr (.obj x.gbkt))) (hn : env.vars "node" = some (.ptr (.obj x.gnode)))
    (hB : x.gbkt ≠ 0) (hN : x.gnode ≠ 0) (hrev : RevView rev env.priv)
    (hpc : x.pc = .gHead) (hrp : retPc x.gcont = some rp)
    (hO : OracleOk rev { x := x, pend := .none, out := o0 } inp) :
    ∃ out, r = .ok out ∧ ∃ ls', lr rev { x := x, pend := .none, out := o0 } out.events = some ls' ∧
      (out.ctl = .blocked ∨ out.ctl = .fuel ∨
        (out.ctl = .ret none ∧ out.env.priv = env.priv ∧ ls'.pend = .none ∧ ls'.x.pc = rp ∧ ls'.x.gcont = x.gcont ∧
          OracleOk rev ls' out.inp)) := by
  subst hE
  have hshape : Gen.Src.«lfht._cds_lfht_gc_bucket» =
      .seq _ (.seq _ (.seq _ (.seq _ (.seq _ (.seq _ (.seq _ (.seq _ (.seq _ (.seq _ (.seq _ (.seq _
        (.loop gcOuter)))))))))))) := rfl
  rw [hshape]
  have hb' : env.vars "bucket" = some (encP x.gbkt) := by rw [hb, encP_pos hB]
  have hn' : env.vars "node" = some (encP x.gnode) := by rw [hn, encP_pos hN]
  lexec [call_is_removed, call_is_removal_owner, call_is_bucket, pureCall, bind1, hb', hn']
  generalize hE : iterate (exec fuel gcOuter) fuel _ inp [] = r
  obtain ⟨out, rfl, ls', hl, hfin⟩ := gc_outer_loop fuel rev env.priv x.gbkt x.gnode x.gcont rp hrev hB hN hrp _ _
    { x := x, pend := .none, out := o0 } _ hE ⟨by simp [hb], by simp [hn], rfl, rfl, hpc, rfl, rfl, rfl, hO⟩
  rcases out with ⟨ev1, env1, inp1, ctl1⟩
  rcases hfin with hf | ⟨c, hc, hR, hctl⟩
  · dsimp only at hf; subst hf; exact ⟨_, rfl, ls', hl, .inr (.inl rfl)⟩
  · dsimp only at hctl hR hl
    cases c <;> simp [Ctl.goesOn] at hc <;> simp only [GcRO] at hR <;> simp only [Ctl.afterLoop] at hctl <;> subst hctl
    · cases ‹Option Val› <;> simp only at hR
      exact ⟨_, rfl, ls', hl, .inr (.inr ⟨rfl, hR⟩)⟩
    · exact ⟨_, rfl, ls', hl, .inl rfl⟩
    · exact ⟨_, rfl, ls', hl, .inr (.inl rfl)⟩

-- ----------------------------------------------------------------------------------------------------------
-- _cds_lfht_del
-- ----------------------------------------------------------------------------------------------------------
/-- the part of `_cds_lfht_del` after the call of `_cds_lfht_gc_bucket` -/
def delPost : Stmt := seqTail 19 Gen.Src.«lfht._cds_lfht_del»

/-- how `_cds_lfht_del` ends: preempted, out of budget, or returned – then L2's thread is back at `idle` and the C
return value is the `Out.ret` of L2's last step (`0` / `-ENOENT`) -/
def DelDone (out : Out) (ls' : LState) : Prop :=
  out.ctl = .blocked ∨ out.ctl = .fuel ∨
    ∃ code, ls'.out = .ret code ∧ out.ctl = .ret (some (.int code)) ∧ ls'.x.pc = .idle ∧ ls'.x.op = .none ∧ ls'.pend = .none

theorem del_post (fuel : Nat) (rev : Nat → Nat) (env : Env) (inp : List Val) (ls : LState) (r : Except String Out)
    (hE : exec fuel delPost env inp = r)
    (hn : env.vars "node" = some (.ptr (.obj ls.x.node))) (hpend : ls.pend = .none)
    (hpc : ls.x.pc = .dAssert) (hO : OracleOk rev ls inp) :
    ∃ o, r = .ok o ∧ ∃ ls', lr rev ls o.events = some ls' ∧ DelDone o ls' := by
  rcases ls with ⟨x, pend, out⟩
  dsimp only at hn hpend hpc; subst hpend; subst hE
  cases inp with
  | nil =>
    lexec [delPost, seqTail, Gen.Src.«lfht._cds_lfht_del»]
    exact ⟨_, lr_nil _ _, .inl rfl⟩
  | cons v1 rest =>
    obtain ⟨l, hl, hrest⟩ := hO (by simp [active, hpc])
    simp only [obsLabel, hpc] at hl
    cases hd : decW v1 with
    | none => simp [hd] at hl
    | some w1 =>
      have hv := encW_of_decW hd; subst hv
      simp only [decW_encW, Option.bind] at hl
      split at hl <;> cases hl
      rename_i hr1
      have hs1 : lstep rev { x := x, pend := .none, out := out } (.ldNext x.node w1 0) = some (mk { x with pc := .dLd2 }) := by
        simp [lstep, hpc]
      have hO1 := hrest _ hs1
      cases rest with
      | nil =>
        lexec [delPost, seqTail, Gen.Src.«lfht._cds_lfht_del», call_is_removed, pureCall, bind1]
        simp [lr, lrun, absEv, hs1, DelDone]
      | cons v2 rest =>
        obtain ⟨l, hl, hrest⟩ := hO1 (by simp [active, mk])
        simp only [obsLabel, mk] at hl
        cases hd2 : decW v2 with
        | none => simp [hd2] at hl
        | some w2 =>
          have hv := encW_of_decW hd2; subst hv
          simp only [decW_encW, Option.bind] at hl
          cases hl
          have hs2 : lstep rev (mk { x with pc := .dLd2 }) (.ldNext x.node w2 0) = some (mk { x with v := w2, pc := .dXchg }) := by
            simp [lstep, mk]
          have hO2 := hrest _ hs2
          cases rest with
          | nil =>
            lexec [delPost, seqTail, Gen.Src.«lfht._cds_lfht_del», call_is_removed, call_flag_removal_owner, pureCall, bind1]
            simp [lr, lrun, absEv, hs1, hs2, DelDone]
          | cons v3 rest =>
            obtain ⟨l, hl, hrest⟩ := hO2 (by simp [active, mk])
            simp only [obsLabel, mk] at hl
            cases hd3 : decW v3 with
            | none => simp [hd3] at hl
            | some w3 =>
              have hv := encW_of_decW hd3; subst hv
              have hs3 : lstep rev (mk { x with v := w2, pc := .dXchg }) (.xchgNext x.node { w2 with own := true } w3) =
                  some (mk { x with v := w2, pc := .idle, op := .none } (if w3.own then .ret (-ENOENT) else .ret 0)) := by
                simp [lstep, mk]
              by_cases ho : w3.own <;>
              lexec [delPost, seqTail, Gen.Src.«lfht._cds_lfht_del», call_is_removed, call_flag_removal_owner,
                call_is_removal_owner, pureCall, bind1] <;>
              simp [lr, lrun, absEv, hs1, hs2, hs3, DelDone, ho] <;> simp [mk, ENOENT]

/-- **`_cds_lfht_del(ht, size, node)`** (`node ≠ NULL`: the NULL test is L2's `dSize` branch, taken in `cds_lfht_del`) -/
theorem del_exec (fuel : Nat) (rev : Nat → Nat) (env : Env) (inp : List Val) (x : Thr) (o0 : Lfht.Conc.Out)
    (ht : Nat) (fp : Val)
    (hht : env.vars "ht" = some (.ptr (.obj ht))) (hsz : env.vars "size" = some (.int x.sz))
    (hnode : env.vars "node" = some (.ptr (.obj x.node))) (hn0 : x.node ≠ 0) (hsz1 : 1 ≤ x.sz)
    (hfp : env.priv (.field (.obj ht) "bucket_at") = some fp) (hrev : RevView rev env.priv)
    (hpc : x.pc = .dLd) (hO : OracleOk rev { x := x, pend := .none, out := o0 } inp) :
    ∃ out, exec fuel Gen.Src.«lfht._cds_lfht_del» env inp = .ok out ∧
      ∃ ls', lr rev { x := x, pend := .none, out := o0 } out.events = some ls' ∧ DelDone out ls' := by
  have hshape : Gen.Src.«lfht._cds_lfht_del» =
      .seq _ (.seq _ (.seq _ (.seq _ (.seq _ (.seq _ (.seq _ (.seq _ (.seq _ (.seq _ (.seq _ (.seq _ (.seq _ (.seq _
        (.seq _ (.seq _ (.seq _ (.seq _ (.seq _ delPost)))))))))))))))))) := rfl
  rw [hshape]
  have hrn := hrev _ hn0
  have hszi : (1 : Int) ≤ (x.sz : Int) := by omega
  have hcast : ((x.sz : Int) - 1).toNat = x.sz - 1 := by omega
  cases inp with
  | nil =>
    lexec [exec_call, Gen.Src.«lfht.is_bucket», Gen.Src.«lfht.is_removed», Gen.Src.«lfht.is_removal_owner», hnode]
    exact ⟨_, lr_nil _ _, .inl rfl⟩
  | cons v1 rest =>
    obtain ⟨l, hl, hrest⟩ := hO (by simp [active, hpc])
    simp only [obsLabel, hpc] at hl
    cases hd : decW v1 with
    | none => simp [hd] at hl
    | some w1 =>
      have hv := encW_of_decW hd; subst hv
      simp only [decW_encW, Option.bind] at hl
      split at hl <;> cases hl
      rename_i hbk1
      by_cases hr : w1.rem
      · have hs1 : lstep rev { x := x, pend := .none, out := o0 } (.ldNext x.node w1 0) =
            some (mk { x with pc := .idle, op := .none } (.ret (-ENOENT))) := by simp [lstep, hpc, hr]
        lexec [exec_call, Gen.Src.«lfht.is_bucket», Gen.Src.«lfht.is_removed», Gen.Src.«lfht.is_removal_owner», hnode]
        simp [lr, lrun, absEv, hs1, DelDone] <;> simp [mk, ENOENT]
      · have hs1 : lstep rev { x := x, pend := .none, out := o0 } (.ldNext x.node w1 0) =
            some (mk { x with pc := .dOr }) := by simp [lstep, hpc, hr]
        have hb1 : w1.bkt = false := hbk1 (by simpa using hr)
        have hO1 := hrest _ hs1
        cases rest with
        | nil =>
          lexec [exec_call, Gen.Src.«lfht.is_bucket», Gen.Src.«lfht.is_removed», Gen.Src.«lfht.is_removal_owner»,
            hnode]
          simp [lr, lrun, absEv, hs1, DelDone]
        | cons v2 rest =>
          obtain ⟨l, hl, hrest⟩ := hO1 (by simp [active, mk])
          simp only [obsLabel, mk] at hl
          cases hd2 : decW v2 with
          | none => simp [hd2] at hl
          | some w2 =>
            have hv := encW_of_decW hd2; subst hv
            simp only [decW_encW, Option.bind] at hl
            cases hl
            obtain ⟨ls2, hls2⟩ : ∃ ls2 : LState, ls2 =
                { x := { x with gnode := x.node, gcont := .del, pc := .gHead }, pend := .hash x.node, out := .unit } :=
              ⟨_, rfl⟩
            have hs2 : lstep rev (mk { x with pc := .dOr }) (.orNext x.node 1 w2) = some ls2 := by
              rw [hls2]; simp [lstep, mk]
            have hO2 := hrest _ hs2
            cases rest with
            | nil =>
              lexec [exec_call, Gen.Src.«lfht.is_bucket», Gen.Src.«lfht.is_removed», Gen.Src.«lfht.is_removal_owner»,
                hnode]
              simp [lr, lrun, absEv, hs1, hs2, DelDone]
            | cons v3 rest =>
              obtain ⟨l, hl, hrest⟩ := hO2 (by subst hls2; simp [active])
              rw [hls2] at hl; simp only [obsLabel] at hl
              cases v3 with
              | ptr _ => simp at hl
              | int h =>
                simp only [Option.ite_none_right_eq_some, Option.some.injEq] at hl
                obtain ⟨hh0, rfl⟩ := hl
                obtain ⟨ls3, hls3⟩ : ∃ ls3 : LState, ls3 =
                    { x := { x with gnode := x.node, gcont := .del, pc := .gHead }, pend := .bkt h.toNat, out := .unit } :=
                  ⟨_, rfl⟩
                have hs3 : lstep rev ls2 (.hashOf (rev x.node) h.toNat) = some ls3 := by
                  rw [hls2, hls3]; simp [lstep]
                have hO3 := hrest _ hs3
                cases rest with
                | nil =>
                  lexec [exec_call, Gen.Src.«lfht.is_bucket», Gen.Src.«lfht.is_removed», Gen.Src.«lfht.is_removal_owner»,
                    Gen.Src.«lfht.lookup_bucket», Gen.Src.«lfht.bucket_at», hnode]
                  simp [lr, lrun, absEv, hs1, hs2, hs3, hh0, DelDone]
                | cons v4 rest =>
                  obtain ⟨l, hl, hrest⟩ := hO3 (by subst hls3; simp [active])
                  rw [hls3] at hl; simp only [obsLabel] at hl
                  cases v4 with
                  | int _ => simp at hl
                  | ptr lo =>
                    cases lo with
                    | obj b =>
                      simp only [Option.ite_none_right_eq_some, Option.some.injEq] at hl
                      obtain ⟨hb0, rfl⟩ := hl
                      obtain ⟨x4, hx4⟩ : ∃ x4 : Thr, x4 =
                          { x with gnode := x.node, gcont := .del, pc := .gHead, gbkt := b } := ⟨_, rfl⟩
                      have hs4 : lstep rev ls3 (.bktAt (h.toNat &&& (x.sz - 1)) b) = some (mk x4) := by
                        rw [hls3, hx4]; simp [lstep, mk]
                      have hO4 := hrest _ hs4
                      lexec [exec_call, Gen.Src.«lfht.is_bucket», Gen.Src.«lfht.is_removed»,
                        Gen.Src.«lfht.is_removal_owner», Gen.Src.«lfht.lookup_bucket», Gen.Src.«lfht.bucket_at», hnode]
                      generalize hE : exec fuel Gen.Src.«lfht._cds_lfht_gc_bucket» _ rest = r
                      obtain ⟨o1, rfl, ls5, hl5, hfin⟩ := gc_bucket_exec fuel rev _ rest x4 .unit .dAssert r hE
                        (by subst hx4; simp [bindParams]) (by subst hx4; simp [bindParams, hnode])
                        (by subst hx4; exact hb0) (by subst hx4; exact hn0) hrev (by subst hx4; rfl)
                        (by subst hx4; rfl) hO4
                      have hnd5 : ls5.x.node = x.node := by
                        have := lrun_node hl5; subst hx4; simpa [mk] using this
                      have hlr4 : ∀ evs, lr rev { x := x, pend := .none, out := o0 }
                          (Event.ld ((Loc.obj x.node).field "next") (encW w1) 0 ::
                            Event.rmw Prim.uor ((Loc.obj x.node).field "next") (Val.int 1) (encW w2) 3 ::
                            Event.ext "bit_reverse_ulong" [Val.int (rev x.node)] (Val.int h) ::
                            Event.ext "(*bucket_at)" [fp, Val.ptr (Loc.obj ht), Val.int ((h.toNat &&& (x.sz - 1) : Nat) : Int)]
                              (Val.ptr (Loc.obj b)) :: evs) = lr rev (mk x4) evs := by
                        intro evs
                        simp [lr, lrun, absEv, hs1, hs2, hs3, hs4, hh0]
                      rcases o1 with ⟨ev1, env1, inp1, ctl1⟩
                      have hl5 : lr rev (mk x4) ev1 = some ls5 := hl5
                      rcases hfin with hb | hf | ⟨hret, hpriv, hpend5, hpc5, hgc5, hO5⟩
                      · dsimp only at hb; subst hb
                        simp [hlr4, DelDone]; exact ⟨ls5, hl5⟩
                      · dsimp only at hf; subst hf
                        simp [hlr4, DelDone]; exact ⟨ls5, hl5⟩
                      · dsimp only at hret hpriv hO5; subst hret
                        dsimp only
                        generalize hE2 : exec fuel delPost _ inp1 = r2
                        obtain ⟨o2, rfl, ls6, hl6, hdone⟩ := del_post fuel rev _ inp1 ls5 r2 hE2
                          (by simp [hnd5, hnode]) hpend5 hpc5 hO5
                        rcases o2 with ⟨ev2, env2, inp2, ctl2⟩
                        simp [hlr4, lr_append]
                        refine ⟨ls6, ?_, by simpa [DelDone] using hdone⟩
                        exact (congrArg (fun o => o.bind fun m => lr rev m ev2) hl5).trans hl6
                    | _ => simp at hl

end UrcuVerif.Src.LfhtR
