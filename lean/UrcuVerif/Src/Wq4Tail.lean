import UrcuVerif.Src.WqSplice
import UrcuVerif.Src.Wq3Compl
/-!
# `workqueue_thread()`: `futex_wait(&workqueue->futex)` of the loop tail, in the `Triple` logic of `Src/WqWorker.lean`

From L2's `waitLd` (`wWaitLd`): load of the futex word (`-1`: `waitFx`, FUTEX_WAIT – slept and woken / EINTR: back to `waitLd`,
EAGAIN: out; another value: out); a completed call is at L2's `dec` (the worker then decrements the futex word again),
private view unchanged.  (Not done: the hook / `cds_wfcq_empty` / `poll` statements around it and the composition of the
whole loop body.)
-/
set_option linter.unusedSimpArgs false
set_option linter.unusedVariables false
set_option maxRecDepth 8192
namespace UrcuVerif.Src.WqR
open UrcuVerif UrcuVerif.Src UrcuVerif.Wq WqL

open Lean.Parser.Tactic in
macro "w_abs" " [" ls:simpLemma,* "]" : tactic =>
  `(tactic| simp [wlr_cons, wlr_nil, absEvW, evOkW, wstep, Ctl.goesOn, $ls,*])

/-- one iteration of the loop of `futex_wait(&workqueue->futex)` -/
theorem wfw_body (L : Layout) (cnt : Nat) (rt : Bool) (p0 : Loc → Option Val) (fuel : Nat) :
    Triple L fuel Wq3.fwBody
      (fun e l => e.vars "futex" = some (.ptr (.field L.W "futex")) ∧ e.priv = p0 ∧ l = ⟨.at .waitLd, cnt, rt⟩)
      (fun c e l => if c.goesOn then
          (e.vars "futex" = some (.ptr (.field L.W "futex")) ∧ e.priv = p0 ∧ l = ⟨.at .waitLd, cnt, rt⟩)
        else (((c = .brk ∨ c = .ret none) ∧ l = ⟨.at .dec, cnt, rt⟩ ∧ e.priv = p0) ∨ c = .blocked)) := by
  intro env inp ls o ⟨hf, hp, hl⟩ hE hok
  subst hl
  rcases inp with _ | ⟨v, r1⟩
  · wexec_at hE [Wq3.fwBody, firstLoop, Gen.Src.«futex_wait», hf]; subst hE; w_abs []
  · by_cases hv : v = .int (-1)
    · subst hv
      rcases r1 with _ | ⟨r, r2⟩
      · wexec_at hE [Wq3.fwBody, firstLoop, Gen.Src.«futex_wait», hf]; subst hE; w_abs []
      · by_cases hr : r = .int 0
        · subst hr
          wexec_at hE [Wq3.fwBody, firstLoop, Gen.Src.«futex_wait», hf]; subst hE; w_abs [hf, hp]
        · have hrt := Wq3.truthy_of_ne3 hr
          rcases r2 with _ | ⟨e, r3⟩
          · wexec_at hE [Wq3.fwBody, firstLoop, Gen.Src.«futex_wait», hf, hrt]; subst hE; w_abs [hr]
          · by_cases he : e = .int 11
            · subst he
              wexec_at hE [Wq3.fwBody, firstLoop, Gen.Src.«futex_wait», hf, hrt]; subst hE; w_abs [hr, hp]
            · by_cases he4 : e = .int 4
              · subst he4
                wexec_at hE [Wq3.fwBody, firstLoop, Gen.Src.«futex_wait», hf, hrt]; subst hE; w_abs [hr, hf, hp]
              · rcases r3 with _ | ⟨e2, r4⟩
                · wexec_at hE [Wq3.fwBody, firstLoop, Gen.Src.«futex_wait», hf, hrt, he, he4]; subst hE
                  simp [evOkW, he, he4] at hok
                · rcases r4 with _ | ⟨d, r5⟩
                  · wexec_at hE [Wq3.fwBody, firstLoop, Gen.Src.«futex_wait», hf, hrt, he, he4]; subst hE
                    simp [evOkW, he, he4] at hok
                  · wexec_at hE [Wq3.fwBody, firstLoop, Gen.Src.«futex_wait», hf, hrt, he, he4]; subst hE
                    simp [evOkW, he, he4] at hok
    · cases v with
      | int n =>
        have hn : n ≠ -1 := fun h => hv (by rw [h])
        wexec_at hE [Wq3.fwBody, firstLoop, Gen.Src.«futex_wait», hf, hn]; subst hE; w_abs [hn, hp]
      | ptr l =>
        wexec_at hE [Wq3.fwBody, firstLoop, Gen.Src.«futex_wait», hf]; subst hE
        simp [evOkW] at hok

/-- **`futex_wait(&workqueue->futex)`** on the worker thread, from L2's `waitLd`: a completed call is at `dec` -/
theorem worker_futex_wait_triple (L : Layout) (cnt : Nat) (rt : Bool) (p0 : Loc → Option Val) (fuel : Nat) :
    Triple L fuel Gen.Src.«futex_wait»
      (fun e l => e.vars "futex" = some (.ptr (.field L.W "futex")) ∧ e.priv = p0 ∧ l = ⟨.at .waitLd, cnt, rt⟩)
      (fun c e l => ((c = .normal ∨ c = .ret none) ∧ l = ⟨.at .dec, cnt, rt⟩ ∧ e.priv = p0) ∨ c = .blocked ∨
        (c = .fuel ∧ l = ⟨.at .waitLd, cnt, rt⟩)) := by
  rw [show Gen.Src.«futex_wait» = Stmt.seq (.prim none .mb []) (.loop Wq3.fwBody) from rfl]
  refine Triple.seq (Mid := fun e l => e.vars "futex" = some (.ptr (.field L.W "futex")) ∧ e.priv = p0 ∧
      l = ⟨.at .waitLd, cnt, rt⟩) ?_
    ((Triple.loop (wfw_body L cnt rt p0 fuel)).conseq (fun _ _ h => h) ?_)
  · intro env inp ls o ⟨hf, hp, hl⟩ hE hok
    subst hl
    wexec_at hE []; subst hE; w_abs [hf, hp]
  · intro c e l h
    rcases h with ⟨rfl, h⟩ | ⟨c0, hgo, h, rfl⟩
    · exact .inr (.inr ⟨rfl, h.2.2⟩)
    · rcases h with ⟨hc | hc, h1, h2⟩ | hc <;> subst hc <;> simp_all [Ctl.afterLoop]

end UrcuVerif.Src.WqR
