import UrcuVerif.Src.SyncFull
import UrcuVerif.Src.SyncQScan
/-!
# The whole `urcu_qsbr_synchronize_rcu` (64-bit variant) refines the updater of `Gp/Qsbr.lean`

`SyncQ.qsbr_sync_eq : «qsbr.urcu_qsbr_synchronize_rcu» = syncQT «qsbr.wait_for_readers»` (by `rfl`); the grace-period branch
`gpBlockQ` is `SyncQ.qsbr_grace_period_holds`.  This file adds the wrapper:

* `wait.state = URCU_WAIT_WAITING`, `was_online = urcu_qsbr_read_ongoing()` (plain read of the caller's own `->ctr`);
* `if (was_online) urcu_qsbr_thread_offline(); else cmm_smp_mb();` and, at the end, `thread_online` / `cmm_smp_mb`: the
  caller's accesses to ITS OWN reader word `URCU_TLS(urcu_qsbr_reader).ctr` / `.waiting` and to `urcu_qsbr_gp.futex`
  (`urcu_qsbr_wake_up_gp`) and the load of `urcu_qsbr_gp.ctr` are events of the caller *as a reader* – their meaning for the
  reader automaton is `Props.SrcRead._urcu_qsbr_thread_offline_refines` / `_urcu_qsbr_thread_online_refines`; for the UPDATER
  checker `SyncQ.absRun` they are silent (it interprets loads of `obj j`'s `ctr` and stores to `urcu_qsbr_gp.ctr` only).
  Proved here by symbolic execution of the generated bodies (`offline_holds`, `online_holds`);
* the five wait-queue calls: quiet by the generic pointer-safety theorem `Sync.exec_safe` (`okStmt` of the generated bodies, by
  `decide`), as for memb / mb: a quiet event (`Sync.QuietEv`: access to a location without `->ctr` in its path, fence,
  uninterpreted external call) is silent for `SyncQ.absEv` at EVERY pc (`absEvQ_quiet`).  This needs the pointer discipline
  `RetSafe` on the oracle and `PrivSafe` on the private view; `PrivSafe` is carried across `thread_offline` and the
  grace-period branch by a second syntactic theorem, `exec_privSafe` (`privOK`: every private store of the statement writes
  an integer-valued expression);
* lock order `rcu_gp_lock` → `rcu_registry_lock` (window), `cds_list_empty(&registry)` ↦ `uEmpty` when it answers "empty"
  (`goto out`), no label otherwise, then `SyncQ.gpBlockQ`.
-/
set_option maxRecDepth 8192
set_option linter.unusedSimpArgs false
set_option linter.unusedVariables false
namespace UrcuVerif.Src.Sync2Q
open UrcuVerif UrcuVerif.Src UrcuVerif.Gen.Src UrcuVerif.Src.SyncQ
open UrcuVerif.Src.Sync (Wins EnvOp registry curSnap qsr regLock curOK rm mem_rm SafeLoc SafeVal QuietEv RetSafe PrivSafe okStmt
  SafeEnv SafeOut exec_safe bindParams_safe setDst_priv exec_ifte eval_var iterate_acc)

/-! ## quiet events are silent for the QSBR updater checker, at every pc -/

theorem SafeLoc_gpCtrQ : SafeLoc gpCtrQ = false := by decide

theorem absEvQ_quiet (trk : Bool) (ss : SS) (e : Event) (hq : QuietEv e = true) :
    absEv trk ss e = .step [] ss.pend ∨ absEv trk ss e = .undisc := by
  have hne : ∀ l, SafeLoc l = true → l ≠ gpCtrQ := by
    intro l hl h; subst h; simp [SafeLoc_gpCtrQ] at hl
  cases e with
  | ld l v mo =>
    simp only [QuietEv] at hq
    cases l with
    | field b f =>
      simp only [SafeLoc, Bool.and_eq_true, bne_iff_ne, ne_eq] at hq
      cases b <;> simp [absEv, hq.1]
    | glob g => simp [absEv]
    | tls g => simp [absEv]
    | obj k => simp [absEv]
  | st l v mo => simp only [QuietEv] at hq; simp [absEv, hne l hq]
  | xchg l a b mo => simp only [QuietEv] at hq; simp [absEv, hne l hq]
  | cas l a b c m1 m2 => simp only [QuietEv] at hq; simp [absEv, hne l hq]
  | rmw p l a b mo => simp only [QuietEv] at hq; simp [absEv, hne l hq]
  | fence p => simp [absEv]
  | ext name args r =>
    simp only [QuietEv, Sync.interpExt, Bool.not_eq_true', List.contains_eq_mem, List.mem_cons, List.not_mem_nil,
      or_false, decide_eq_false_iff_not, not_or] at hq
    obtain ⟨h1, h2, h3, h4, h5, h6, h7⟩ := hq
    simp only [absEv, absExt, h1, h2, h3, h4, h5, h6, h7, if_false, false_and]
    split <;> simp

theorem Ok_quietQ (trk : Bool) (wins : Wins) (R : SS → Wins → Prop) : ∀ (es : List Event) (ss : SS),
    (∀ e ∈ es, QuietEv e = true) → R ss wins → Ok trk ss wins es R := by
  intro es
  induction es with
  | nil => intro ss _ h; exact Ok_nil _ _ _ _ h
  | cons e es ih =>
    intro ss hq h
    rw [Ok_cons]
    rcases absEvQ_quiet trk ss e (hq e List.mem_cons_self) with he | he
    · rw [he]; simp only [lrun]
      have : ({ ls := ss.ls, pend := ss.pend } : SS) = ss := by cases ss; rfl
      rw [this]
      exact ih ss (fun e' he' => hq e' (List.mem_cons_of_mem _ he')) h
    · rw [he]; trivial

/-! ## triples relative to the pointer discipline on the oracle -/

/-- like `SyncQ.Holds`, for the runs whose events return safe values only -/
def HoldsS (trk : Bool) (r : Except String Out) (ss : SS) (wins : Wins) (Q : Post) : Prop :=
  ∀ out, r = .ok out → (∀ e ∈ out.events, RetSafe e = true) →
    Ok trk ss wins out.events (fun ss' wins' => Q out.ctl out.env ss' wins')

theorem _root_.UrcuVerif.Src.SyncQ.Holds.toS {trk r ss wins Q} (h : Holds trk r ss wins Q) : HoldsS trk r ss wins Q :=
  fun out ho _ => h out ho

theorem HoldsS.mono {trk r ss wins} {Q Q' : Post} (h : HoldsS trk r ss wins Q) (hm : ∀ c e s w, Q c e s w → Q' c e s w) :
    HoldsS trk r ss wins Q' := fun out ho hr => Ok_mono _ _ _ _ _ _ (h out ho hr) (fun s w => hm _ _ s w)

theorem HoldsS.seq {trk fuel a b env inp ss wins} {Qa Q : Post}
    (ha : HoldsS trk (exec fuel a env inp) ss wins Qa)
    (hb : ∀ e i s w, Qa .normal e s w → HoldsS trk (exec fuel b e i) s w Q)
    (hc : ∀ c e s w, c ≠ .normal → Qa c e s w → Q c e s w) :
    HoldsS trk (exec fuel (.seq a b) env inp) ss wins Q := by
  intro out ho hr
  simp only [exec, bind, Except.bind] at ho
  cases h1 : exec fuel a env inp with
  | error m => simp [h1] at ho
  | ok o =>
    simp only [h1] at ho
    by_cases hn : o.ctl = .normal
    · simp only [hn] at ho
      cases h2 : exec fuel b o.env o.inp with
      | error m => simp [h2] at ho
      | ok o2 =>
        simp only [h2, Except.ok.injEq] at ho
        subst ho
        have hA := ha o h1 (fun e he => hr e (by simp [he]))
        apply Ok_append
        refine Ok_mono _ _ _ _ _ _ hA ?_
        intro s w hq
        rw [hn] at hq
        exact hb _ _ _ _ hq o2 h2 (fun e he => hr e (by simp [he]))
    · have : out = o := by
        revert ho; cases hc' : o.ctl <;> simp_all
      subst this
      exact Ok_mono _ _ _ _ _ _ (ha out h1 hr) (fun s w hq => hc _ _ _ _ hn hq)

/-- both branches of a conditional satisfy the postcondition (an unbound condition makes the run fail: nothing to show) -/
theorem HoldsS.ifte {trk fuel c a b env inp ss wins} {Q : Post}
    (ha : HoldsS trk (exec fuel a env inp) ss wins Q) (hb : HoldsS trk (exec fuel b env inp) ss wins Q) :
    HoldsS trk (exec fuel (.ifte c a b) env inp) ss wins Q := by
  intro out ho hr
  simp only [exec, bind, Except.bind] at ho
  cases h1 : eval env c with
  | error m => simp [h1] at ho
  | ok v =>
    simp only [h1] at ho
    split at ho
    · exact ha out ho hr
    · exact hb out ho hr

/-! ## private stores of integer-valued expressions keep `PrivSafe` -/

def valOK : Expr → Bool
  | .lit _ | .cst _ _ | .null | .un _ _ => true
  | .bin op _ _ => op != .tagand && op != .tagor
  | _ => false

theorem valOK_safe (env : Env) (e : Expr) (v : Val) (h : valOK e = true) (he : eval env e = .ok v) : SafeVal v = true := by
  cases e with
  | lit n => simp [eval] at he; subst he; rfl
  | cst s n => simp [eval] at he; subst he; rfl
  | null => simp [eval] at he; subst he; rfl
  | un op e =>
    simp only [eval, bind, Except.bind] at he
    cases h1 : eval env e with
    | error m => simp [h1] at he
    | ok v1 => simp only [h1] at he; exact Sync.evalUn_safe _ _ _ he
  | bin op a b =>
    simp only [eval, bind, Except.bind] at he
    cases h1 : eval env a with
    | error m => simp [h1] at he
    | ok v1 =>
      simp only [h1] at he
      cases h2 : eval env b with
      | error m => simp [h2] at he
      | ok v2 =>
        simp only [h2] at he
        simp only [valOK, Bool.and_eq_true, bne_iff_ne, ne_eq] at h
        exact Sync.evalBin_safe _ _ _ _ h he
  | _ => simp [valOK] at h

/-- every private store (`*l = e`, `uatomic_store(l, e)`) of the statement writes an integer-valued expression -/
def privOK : Stmt → Bool
  | .skip | .brk | .cont | .assertDbg _ | .assign _ _ | .ret _ => true
  | .seq a b => privOK a && privOK b
  | .pstore _ e => valOK e
  | .ifte _ a b => privOK a && privOK b
  | .loop b => privOK b
  | .prim _ p args =>
    if p = .ustore then (match args with
      | [_, e, _] => valOK e
      | _ => false) else true
  | .call _ _ _ body => privOK body

theorem PrivSafe.set {p : Loc → Option Val} (h : PrivSafe p) (l : Loc) (v : Val) (hv : SafeLoc l = true → SafeVal v = true) :
    PrivSafe (fun m => if m = l then some v else p m) := by
  intro m w hm hw
  simp only at hw
  split at hw
  · rename_i heq; subst heq; simp at hw; subst hw; exact hv hm
  · exact h m w hm hw

theorem execPrim_priv (env : Env) (inp : List Val) (dst : Option String) (p : Prim) (vs : List Val) (out : Out)
    (h : execPrim env inp dst p vs = .ok out) :
    out.env.priv = env.priv ∨ (p = .ustore ∧ ∃ a v m l, vs = [a, v, m] ∧ out.env.priv = (env.setPriv l v).priv) := by
  unfold execPrim at h
  simp only [] at h
  split at h
  all_goals (try simp only [bind, Except.bind] at h)
  all_goals (repeat' split at h)
  all_goals first
    | (simp at h; done)
    | (simp only [Except.ok.injEq] at h; subst h
       first
       | (left; rfl)
       | (left; exact setDst_priv _ _ _)
       | (right; exact ⟨rfl, _, _, _, _, rfl, rfl⟩))

theorem evalArgs3 (env : Env) (a e m : Expr) (va ve vm : Val) (h : evalArgs env [a, e, m] = .ok [va, ve, vm]) :
    eval env e = .ok ve := by
  simp only [evalArgs, bind, Except.bind] at h
  cases h1 : eval env a with
  | error x => simp [h1] at h
  | ok v1 =>
    simp only [h1] at h
    cases h2 : eval env e with
    | error x => simp [h2] at h
    | ok v2 =>
      simp only [h2] at h
      cases h3 : eval env m with
      | error x => simp [h3] at h
      | ok v3 => simp only [h3, Except.ok.injEq, List.cons.injEq] at h; rw [h.2.1]

theorem evalArgs_length (env : Env) : ∀ (args : List Expr) (vs : List Val), evalArgs env args = .ok vs → vs.length = args.length := by
  intro args
  induction args with
  | nil => intro vs h; simp [evalArgs] at h; subst h; rfl
  | cons e es ih =>
    intro vs h
    simp only [evalArgs, bind, Except.bind] at h
    cases h1 : eval env e with
    | error x => simp [h1] at h
    | ok v1 =>
      simp only [h1] at h
      cases h2 : evalArgs env es with
      | error x => simp [h2] at h
      | ok vs2 => simp only [h2, Except.ok.injEq] at h; subst h; simp [ih vs2 h2]

theorem iterate_privSafe (body : Env → List Val → Except String Out)
    (hb : ∀ env inp out, PrivSafe env.priv → body env inp = .ok out → PrivSafe out.env.priv) :
    ∀ (n : Nat) env inp acc out, PrivSafe env.priv → iterate body n env inp acc = .ok out → PrivSafe out.env.priv := by
  intro n
  induction n with
  | zero => intro env inp acc out hs h; simp only [iterate, Except.ok.injEq] at h; subst h; exact hs
  | succ n ih =>
    intro env inp acc out hs h
    simp only [iterate, bind, Except.bind] at h
    cases hbo : body env inp with
    | error m => simp [hbo] at h
    | ok o =>
      simp only [hbo] at h
      have h1 := hb env inp o hs hbo
      cases hc : o.ctl <;> simp only [hc] at h <;>
        first
        | exact ih _ _ _ _ h1 h
        | (simp only [Except.ok.injEq] at h; subst h; exact h1)

theorem exec_privSafe : ∀ (st : Stmt), privOK st = true → ∀ (fuel : Nat) (env : Env) (inp : List Val) (out : Out),
    PrivSafe env.priv → exec fuel st env inp = .ok out → PrivSafe out.env.priv := by
  intro st
  induction st with
  | skip => intro _ fuel env inp out hs h; simp only [exec, Except.ok.injEq] at h; subst h; exact hs
  | brk => intro _ fuel env inp out hs h; simp only [exec, Except.ok.injEq] at h; subst h; exact hs
  | cont => intro _ fuel env inp out hs h; simp only [exec, Except.ok.injEq] at h; subst h; exact hs
  | assertDbg e => intro _ fuel env inp out hs h; simp only [exec, Except.ok.injEq] at h; subst h; exact hs
  | seq a b iha ihb =>
    intro hok fuel env inp out hs h
    simp only [privOK, Bool.and_eq_true] at hok
    simp only [exec, bind, Except.bind] at h
    cases h1 : exec fuel a env inp with
    | error m => simp [h1] at h
    | ok o =>
      simp only [h1] at h
      have s1 := iha hok.1 fuel env inp o hs h1
      by_cases hn : o.ctl = .normal
      · simp only [hn] at h
        cases h2 : exec fuel b o.env o.inp with
        | error m => simp [h2] at h
        | ok o2 =>
          simp only [h2, Except.ok.injEq] at h; subst h
          exact ihb hok.2 fuel o.env o.inp o2 s1 h2
      · have : out = o := by revert h; cases hc : o.ctl <;> simp_all
        subst this; exact s1
  | assign x e =>
    intro hok fuel env inp out hs h
    simp only [exec, bind, Except.bind] at h
    cases h1 : eval env e with
    | error m => simp [h1] at h
    | ok v => simp only [h1, Except.ok.injEq] at h; subst h; exact hs
  | pstore l e =>
    intro hok fuel env inp out hs h
    simp only [privOK] at hok
    simp only [exec, bind, Except.bind] at h
    cases h1 : eval env l with
    | error m => simp [h1] at h
    | ok vl =>
      simp only [h1] at h
      cases h2 : asLoc vl with
      | error m => simp [h2] at h
      | ok a =>
        simp only [h2] at h
        cases h3 : eval env e with
        | error m => simp [h3] at h
        | ok v =>
          simp only [h3, Except.ok.injEq] at h; subst h
          exact PrivSafe.set hs a v (fun _ => valOK_safe env e v hok h3)
  | ifte c a b iha ihb =>
    intro hok fuel env inp out hs h
    simp only [privOK, Bool.and_eq_true] at hok
    simp only [exec, bind, Except.bind] at h
    cases h1 : eval env c with
    | error m => simp [h1] at h
    | ok v =>
      simp only [h1] at h
      split at h
      · exact iha hok.1 fuel env inp out hs h
      · exact ihb hok.2 fuel env inp out hs h
  | loop body ih =>
    intro hok fuel env inp out hs h
    simp only [privOK] at hok
    simp only [exec] at h
    exact iterate_privSafe _ (fun e i o hse hbo => ih hok fuel e i o hse hbo) fuel env inp [] out hs h
  | prim dst p args =>
    intro hok fuel env inp out hs h
    simp only [exec, bind, Except.bind] at h
    cases h1 : evalArgs env args with
    | error m => simp [h1] at h
    | ok vs =>
      simp only [h1] at h
      rcases execPrim_priv env inp dst p vs out h with hp | ⟨rfl, a, v, m, l, rfl, hp⟩
      · rw [hp]; exact hs
      · have hlen := evalArgs_length env args _ h1
        match args, hlen with
        | [ea, ee, em], _ =>
          simp only [privOK, if_true] at hok
          rw [hp]
          exact PrivSafe.set hs l v (fun _ => valOK_safe env ee v hok (evalArgs3 env ea ee em a v m h1))
  | ret e =>
    intro hok fuel env inp out hs h
    cases e with
    | none => simp only [exec, Except.ok.injEq] at h; subst h; exact hs
    | some e =>
      simp only [exec, bind, Except.bind] at h
      cases h1 : eval env e with
      | error m => simp [h1] at h
      | ok v => simp only [h1, Except.ok.injEq] at h; subst h; exact hs
  | call dst params args body ih =>
    intro hok fuel env inp out hs h
    simp only [privOK] at hok
    simp only [exec, bind, Except.bind] at h
    cases h1 : evalArgs env args with
    | error m => simp [h1] at h
    | ok vs =>
      simp only [h1] at h
      split at h
      · simp at h
      · cases h2 : exec fuel body { vars := bindParams params vs, priv := env.priv } inp with
        | error m => simp [h2] at h
        | ok o =>
          simp only [h2] at h
          have s1 := ih hok fuel { vars := bindParams params vs, priv := env.priv } inp o hs h2
          cases hc : o.ctl with
          | normal => simp only [hc, Except.ok.injEq] at h; subst h; exact s1
          | ret v =>
            cases v with
            | none => simp only [hc, Except.ok.injEq] at h; subst h; exact s1
            | some v => simp only [hc, Except.ok.injEq] at h; subst h; simp only [setDst_priv]; exact s1
          | brk => simp [hc] at h
          | cont => simp [hc] at h
          | blocked => simp only [hc, Except.ok.injEq] at h; subst h; exact s1
          | fuel => simp only [hc, Except.ok.injEq] at h; subst h; exact s1

/-! ## the statements of `urcu_qsbr_synchronize_rcu` -/

open Lean.Parser.Tactic in
macro "abs_simpQ" "[" ts:simpLemma,* "]" : tactic =>
  `(tactic| simp [Ok_cons, Ok_nil_iff, absEv, absExt, inList, curOK, lrun, lstep, registry, qsr, gpCtrQ, regLock, mem_rm, $ts,*])

/-- the caller's own reader word -/
def tlsCtr : Loc := .field (.tls "urcu_qsbr_reader") "ctr"

/-- between the statements outside the grace-period branch: pc `idle`, counter `g`, `urcu_qsbr_gp.ctr = encQ g` in the private
view, the pointer discipline on the private view, `V` = what is known about the locals -/
def QI (g : Nat) (V : (String → Option Val) → Prop) (env : Env) (ss : SS) : Prop :=
  ss.ls.upc = .idle ∧ ss.pend = none ∧ ss.ls.gp = g ∧ env.priv gpCtrQ = some (.int (encQ g)) ∧ PrivSafe env.priv ∧ V env.vars

def QP (g : Nat) (V : (String → Option Val) → Prop) : Post := fun ctl env ss _ =>
  match ctl with
  | .normal => QI g V env ss
  | .blocked | .fuel => True
  | _ => False

theorem QP_nn {g V g' V'} (ctl e s w) (hn : ctl ≠ .normal) (h : QP g V ctl e s w) : QP g' V' ctl e s w := by
  cases ctl <;> simp_all [QP]

/-- a call (closed safe arguments) of a function whose generated body passes `Sync.okStmt`: silent, `urcu_qsbr_gp.ctr`
untouched, `PrivSafe` kept, no local of the caller changed except `dst` -/
theorem quiet_callQ (trk : Bool) (dst : Option String) (params : List String) (args : List Expr) (body : Stmt) (vs : List Val)
    (hev : ∀ env, evalArgs env args = .ok vs) (hlen : params.length = vs.length)
    (hvs : ∀ v ∈ vs, SafeVal v = true) (hok : okStmt body = true) (g : Nat) (V V' : (String → Option Val) → Prop)
    (hV : ∀ vars vars', V vars → (∀ x, some x ≠ dst → vars' x = vars x) → V' vars')
    (fuel : Nat) (env : Env) (inp : List Val) (ss : SS) (wins : Wins) (hI : QI g V env ss) :
    HoldsS trk (exec fuel (.call dst params args body) env inp) ss wins (QP g V') := by
  intro out ho hr
  obtain ⟨h1, h2, h3, h4, h5, h6⟩ := hI
  simp only [exec, hev, bind, Except.bind, hlen, ne_eq, not_true_eq_false, if_false] at ho
  have hs0 : SafeEnv { vars := bindParams params vs, priv := env.priv } := ⟨bindParams_safe params vs hvs, h5⟩
  cases h2' : exec fuel body { vars := bindParams params vs, priv := env.priv } inp with
  | error m => simp [h2'] at ho
  | ok o =>
    simp only [h2'] at ho
    have hnormal : ∀ (so : SafeOut { vars := bindParams params vs, priv := env.priv } o) (e' : Env),
        e'.priv = o.env.priv → (∀ x, some x ≠ dst → e'.vars x = env.vars x) → QI g V' e' ss := by
      intro so e' hpe hv1
      refine ⟨h1, h2, h3, ?_, ?_, hV _ _ h6 hv1⟩
      · rw [hpe, so.2.2.1 _ SafeLoc_gpCtrQ]; exact h4
      · rw [hpe]; exact so.2.1.priv
    cases hc : o.ctl with
    | normal =>
      simp only [hc, Except.ok.injEq] at ho; subst ho
      have so := exec_safe body hok fuel _ inp o hs0 h2' hr
      exact Ok_quietQ trk wins _ o.events ss so.1 (hnormal so _ rfl (fun x hx => rfl))
    | ret v =>
      cases v with
      | none =>
        simp only [hc, Except.ok.injEq] at ho; subst ho
        have so := exec_safe body hok fuel _ inp o hs0 h2' hr
        exact Ok_quietQ trk wins _ o.events ss so.1 (hnormal so _ rfl (fun x hx => rfl))
      | some v =>
        simp only [hc, Except.ok.injEq] at ho; subst ho
        have so := exec_safe body hok fuel _ inp o hs0 h2' hr
        refine Ok_quietQ trk wins _ o.events ss so.1 (hnormal so _ (by rw [setDst_priv]) ?_)
        intro x hx
        cases dst with
        | none => rfl
        | some y =>
          simp only [setDst, Env.setVar]
          rw [if_neg (by intro h; apply hx; rw [h])]
    | brk => simp [hc] at ho
    | cont => simp [hc] at ho
    | blocked =>
      simp only [hc, Except.ok.injEq] at ho; subst ho
      have so := exec_safe body hok fuel _ inp o hs0 h2' hr
      exact Ok_quietQ trk wins _ o.events ss so.1 (by simp [QP])
    | fuel =>
      simp only [hc, Except.ok.injEq] at ho; subst ho
      have so := exec_safe body hok fuel _ inp o hs0 h2' hr
      exact Ok_quietQ trk wins _ o.events ss so.1 (by simp [QP])

theorem assignLit_holds (trk fuel g) (V V' : (String → Option Val) → Prop) (env inp ss wins) (x : String) (n : Int)
    (hV : V env.vars → V' (fun z => if z = x then some (.int n) else env.vars z)) (hI : QI g V env ss) :
    Holds trk (exec fuel (.assign x (.lit n)) env inp) ss wins (QP g V') := by
  intro out ho
  obtain ⟨h1, h2, h3, h4, h5, h6⟩ := hI
  exec_simp_at ho []; subst ho
  simp only [Ok_nil_iff, QP]
  exact ⟨h1, h2, h3, h4, h5, hV h6⟩

theorem assignVar_holds (trk fuel g) (V V' : (String → Option Val) → Prop) (env inp ss wins) (y x : String)
    (hV : ∀ v, V env.vars → V' (fun z => if z = y then some v else env.vars z)) (hI : QI g V env ss) :
    Holds trk (exec fuel (.assign y (.var x)) env inp) ss wins (QP g V') := by
  intro out ho
  obtain ⟨h1, h2, h3, h4, h5, h6⟩ := hI
  cases hv : env.vars x with
  | none => simp [exec, eval, hv, bind, Except.bind] at ho
  | some v =>
    exec_simp_at ho [hv]; subst ho
    simp only [Ok_nil_iff, QP]
    exact ⟨h1, h2, h3, h4, h5, hV v h6⟩

def stWaitInit : Stmt := .pstore (.fieldAddr (.addrGlob "&wait") "state") (.cst "URCU_WAIT_WAITING" (0))

theorem waitInit_holds (trk fuel g) (V : (String → Option Val) → Prop) (env inp ss wins) (hI : QI g V env ss) :
    Holds trk (exec fuel stWaitInit env inp) ss wins (QP g V) := by
  intro out ho
  obtain ⟨h1, h2, h3, h4, h5, h6⟩ := hI
  exec_simp_at ho [stWaitInit]; subst ho
  simp only [Ok_nil_iff, QP]
  refine ⟨h1, h2, h3, ?_, PrivSafe.set h5 _ _ (fun _ => rfl), h6⟩
  simpa [gpCtrQ] using h4

/-- `was_online = urcu_qsbr_read_ongoing()`: a plain read of the caller's own `->ctr`, no event -/
def stReadOngoing : Stmt := .call (some "_t1") [] [] «qsbr.urcu_qsbr_read_ongoing»

theorem readOngoing_holds (trk fuel g) (V V' : (String → Option Val) → Prop) (env inp ss wins)
    (hV : ∀ v, V env.vars → V' (fun z => if z = "_t1" then some v else env.vars z)) (hI : QI g V env ss) :
    Holds trk (exec fuel stReadOngoing env inp) ss wins (QP g V') := by
  intro out ho
  obtain ⟨h1, h2, h3, h4, h5, h6⟩ := hI
  cases hv : env.priv tlsCtr with
  | none =>
    simp only [tlsCtr] at hv
    exec_simp_at ho [stReadOngoing, «qsbr.urcu_qsbr_read_ongoing», «_urcu_qsbr_read_ongoing», hv]
  | some v =>
    simp only [tlsCtr] at hv
    exec_simp_at ho [stReadOngoing, «qsbr.urcu_qsbr_read_ongoing», «_urcu_qsbr_read_ongoing», hv]; subst ho
    simp only [Ok_nil_iff, QP]
    exact ⟨h1, h2, h3, h4, h5, hV v h6⟩

/-- a fence is silent -/
theorem mb_holds (trk fuel g) (V : (String → Option Val) → Prop) (env inp ss wins) (hI : QI g V env ss) :
    Holds trk (exec fuel (.prim none .mb []) env inp) ss wins (QP g V) := by
  intro out ho
  obtain ⟨ls, pend⟩ := ss
  exec_simp_at ho []; subst ho
  abs_simpQ [QP]; exact hI

def stOffline : Stmt := .call none [] [] «qsbr.urcu_qsbr_thread_offline»
def stOnline : Stmt := .call none [] [] «qsbr.urcu_qsbr_thread_online»

theorem offline_privOK : privOK stOffline = true := by decide

open Lean.Parser.Tactic in
/-- symbolic execution of `urcu_qsbr_thread_offline` keeping `Val.truthy` of oracle values folded -/
macro "offl_simp_at" h:ident "[" ts:simpLemma,* "]" : tactic =>
  `(tactic| simp [stOffline, «qsbr.urcu_qsbr_thread_offline», «_urcu_qsbr_thread_offline», «urcu_qsbr_wake_up_gp», block, exec,
      iterate, eval, evalArgs, execPrim, bind, Except.bind, asLoc, Env.setVar, Env.setPriv, bindParams, setDst, evalUn, evalBin,
      boolV, Sync.truthy_int, $ts,*] at $h:ident)

/-- `urcu_qsbr_thread_offline()`: store 0 to the own word, `urcu_qsbr_wake_up_gp()` (own `waiting`, `urcu_qsbr_gp.futex`,
`futex_noasync`), compiler barrier – all silent for the updater checker; `urcu_qsbr_gp.ctr` untouched -/
theorem offline_holds (trk fuel g) (V : (String → Option Val) → Prop) (env inp ss wins) (hI : QI g V env ss) :
    Holds trk (exec fuel stOffline env inp) ss wins (QP g V) := by
  intro out ho
  have hps := exec_privSafe stOffline offline_privOK fuel env inp out hI.2.2.2.2.1 ho
  obtain ⟨h1, h2, h3, h4, h5, h6⟩ := hI
  obtain ⟨ls, pend⟩ := ss
  simp only [gpCtrQ] at h4
  have key : ∀ (p : Loc → Option Val), p = out.env.priv → out.env.vars = env.vars → p gpCtrQ = some (.int (encQ g)) →
      QI g V out.env ⟨ls, pend⟩ := by
    intro p hp hvars hg
    refine ⟨h1, h2, h3, by rw [← hp]; exact hg, hps, by rw [hvars]; exact h6⟩
  rcases inp with _ | ⟨v1, rest⟩
  · offl_simp_at ho []
    subst ho; abs_simpQ [QP]
  by_cases t1 : v1.truthy = true
  case neg =>
    offl_simp_at ho [t1]
    subst ho; abs_simpQ [QP]
    exact key _ rfl rfl (by simp [gpCtrQ, h4])
  rcases rest with _ | ⟨v2, rest⟩
  · offl_simp_at ho [t1]
    subst ho; abs_simpQ [QP]
  by_cases t2 : v2 = .int (-1)
  case neg =>
    offl_simp_at ho [t1, t2]
    subst ho; abs_simpQ [QP]
    exact key _ rfl rfl (by simp [gpCtrQ, h4])
  subst t2
  rcases rest with _ | ⟨v3, rest⟩ <;> offl_simp_at ho [t1] <;> subst ho <;> abs_simpQ [QP]
  exact key _ rfl rfl (by simp [gpCtrQ, h4])

/-- `urcu_qsbr_thread_online()`: compiler barrier, load of `urcu_qsbr_gp.ctr`, store of the loaded value to the own word,
`cmm_smp_mb` – silent for the updater checker; `urcu_qsbr_gp.ctr` untouched -/
theorem online_holds (trk fuel g) (V : (String → Option Val) → Prop) (env inp ss wins) (hI : QI g V env ss) :
    Holds trk (exec fuel stOnline env inp) ss wins (QP g V) := by
  intro out ho
  obtain ⟨h1, h2, h3, h4, h5, h6⟩ := hI
  obtain ⟨ls, pend⟩ := ss
  simp only [gpCtrQ] at h4
  rcases inp with _ | ⟨v1, rest⟩ <;>
    exec_simp_at ho [stOnline, «qsbr.urcu_qsbr_thread_online», «_urcu_qsbr_thread_online»] <;> subst ho <;> abs_simpQ [QP]
  refine ⟨h1, h2, h3, by simp [gpCtrQ, h4], ?_, h6⟩
  exact PrivSafe.set h5 _ _ (fun h => absurd h (by decide))

theorem ext_silentQ (trk fuel g) (V : (String → Option Val) → Prop) (env inp ss wins) (name x : String)
    (hs : ∀ ss r, absExt trk ss name [.ptr (.glob x)] r = .step [] ss.pend) (hI : QI g V env ss) :
    Holds trk (exec fuel (.prim none (.ext name) [.addrGlob x]) env inp) ss wins (QP g V) := by
  intro out ho
  obtain ⟨ls, pend⟩ := ss
  cases inp <;> simp [exec, evalArgs, eval, execPrim, bind, Except.bind, setDst] at ho <;> subst ho
  · simp [Ok_nil_iff, QP]
  · simp only [Ok_cons, absEv, hs, lrun, Ok_nil_iff, QP]; exact hI

def stLockGp : Stmt := .prim none (.ext "mutex_lock") [.addrGlob "rcu_gp_lock"]
def stUnlockGp : Stmt := .prim none (.ext "mutex_unlock") [.addrGlob "rcu_gp_lock"]
def stLockReg : Stmt := .prim none (.ext "mutex_lock") [.addrGlob "rcu_registry_lock"]
def stUnlockReg : Stmt := .prim none (.ext "mutex_unlock") [.addrGlob "rcu_registry_lock"]
def stRegEmpty : Stmt := .prim (some "_t3") (.ext "cds_list_empty") [.addrGlob "registry"]

theorem lockGp_holds (trk fuel g V env inp ss wins) (hI : QI g V env ss) :
    Holds trk (exec fuel stLockGp env inp) ss wins (QP g V) :=
  ext_silentQ trk fuel g V env inp ss wins _ _ (by intro ss r; simp [absExt, regLock]) hI
theorem unlockGp_holds (trk fuel g V env inp ss wins) (hI : QI g V env ss) :
    Holds trk (exec fuel stUnlockGp env inp) ss wins (QP g V) :=
  ext_silentQ trk fuel g V env inp ss wins _ _ (by intro ss r; simp [absExt, regLock]) hI
theorem unlockReg_holds (trk fuel g V env inp ss wins) (hI : QI g V env ss) :
    Holds trk (exec fuel stUnlockReg env inp) ss wins (QP g V) :=
  ext_silentQ trk fuel g V env inp ss wins _ _ (by intro ss r; simp [absExt, regLock]) hI

/-- `mutex_lock(&rcu_registry_lock)`: the window -/
theorem lockReg_holds (trk fuel g V env inp ss wins) (hI : QI g V env ss) :
    Holds trk (exec fuel stLockReg env inp) ss wins (QP g V) := by
  intro out ho
  obtain ⟨ls, pend⟩ := ss
  obtain ⟨ls', hl1, hl2, hl3⟩ := lrun_env (wins.head?.getD []) ls
  obtain ⟨h1, h2, h3, h4, h5, h6⟩ := hI
  cases inp <;> exec_simp_at ho [stLockReg] <;> subst ho <;> abs_simpQ [QP, hl1, QI]
  exact ⟨by rw [hl2]; exact h1, h2, by rw [hl3]; exact h3, h4, h5, h6⟩

/-- `cds_list_empty(&registry)` under both locks: "empty" ↦ `uEmpty` (stay at `idle`); "not empty": no label, the registry is
non-empty -/
def A9 (g : Nat) : Post := fun ctl env ss _ =>
  match ctl with
  | .normal => ∃ r, env.vars "_t3" = some r ∧ env.vars "_goto_out" = some (.int 0) ∧
      QI g (fun _ => True) env ss ∧ (r.truthy = false → ss.ls.reg ≠ [])
  | .blocked | .fuel => True
  | _ => False

theorem regEmpty_holds (trk fuel g env inp ss wins)
    (hI : QI g (fun vars => vars "_goto_out" = some (.int 0)) env ss) :
    Holds trk (exec fuel stRegEmpty env inp) ss wins (A9 g) := by
  intro out ho
  obtain ⟨⟨u, gp, reg, inpl⟩, pend⟩ := ss
  obtain ⟨h1, h2, h3, h4, h5, h6⟩ := hI
  simp only at h1 h2 h3; subst h1; subst h2; subst h3
  cases inp with
  | nil => exec_simp_at ho [stRegEmpty]; subst ho; simp [Ok_nil_iff, A9]
  | cons r rest =>
    simp [stRegEmpty, exec, evalArgs, eval, execPrim, bind, Except.bind, setDst, Env.setVar] at ho; subst ho
    by_cases hr : r.truthy = true
    · by_cases hreg : reg = []
      · subst hreg
        simp [Ok_cons, absEv, absExt, registry, hr, lrun, lstep, Ok_nil_iff, A9, h6]
        exact ⟨rfl, rfl, rfl, h4, h5, trivial⟩
      · simp [Ok_cons, absEv, absExt, registry, hr, hreg]
    · by_cases hreg : reg = []
      · simp [Ok_cons, absEv, absExt, registry, hr, hreg]
      · simp [Ok_cons, absEv, absExt, registry, hr, lrun, lstep, Ok_nil_iff, A9, h6, hreg]
        exact ⟨rfl, rfl, rfl, h4, h5, trivial⟩

/-! ## the whole function -/

theorem HoldsS.and_env {trk r ss wins} {Q : Post} (P : Env → Prop) (h : HoldsS trk r ss wins Q)
    (hp : ∀ out, r = .ok out → P out.env) : HoldsS trk r ss wins (fun ctl e s w => Q ctl e s w ∧ P e) :=
  fun out ho hr => Ok_mono _ _ _ _ _ _ (h out ho hr) (fun s w hq => ⟨hq, hp out ho⟩)

theorem skip_holds (trk fuel g) (V : (String → Option Val) → Prop) (env inp ss wins) (hI : QI g V env ss) :
    Holds trk (exec fuel .skip env inp) ss wins (QP g V) := by
  intro out ho
  simp only [exec, Except.ok.injEq] at ho; subst ho
  simp only [Ok_nil_iff, QP]; exact hI

/-- the counter after the call: unchanged (not the leader, or empty registry) or advanced by one grace period -/
def QE (g : Nat) (V : (String → Option Val) → Prop) : Post := fun ctl env ss _ =>
  match ctl with
  | .normal => ∃ g', (g' = g ∨ g' = g + 1) ∧ QI g' V env ss
  | .blocked | .fuel => True
  | _ => False

theorem QP_QE {g g' V} (hg : g' = g ∨ g' = g + 1) (ctl e s w) (h : QP g' V ctl e s w) : QE g V ctl e s w := by
  cases ctl <;> first | exact ⟨g', hg, h⟩ | trivial | exact h.elim

theorem QE_nn {g V g' V'} (ctl e s w) (hn : ctl ≠ .normal) (h : QE g V ctl e s w) : QE g' V' ctl e s w := by
  cases ctl <;> simp_all [QE]

theorem QP_QE_nn {g V g' V'} (ctl e s w) (hn : ctl ≠ .normal) (h : QP g V ctl e s w) : QE g' V' ctl e s w := by
  cases ctl <;> simp_all [QP, QE]

def qWaitAdd2 : Stmt := .call (some "_t2") ["queue", "node"] [.addrGlob "gp_waiters", .addrGlob "&wait"] «urcu_wait_add»

/-- the leader's part of `urcu_qsbr_synchronize_rcu` (the `else` branch of `if (_goto_gp_end)`) -/
def leaderQ (wfr : Stmt) : Stmt :=
  block [Sync.qSetState, stLockGp, Sync.qMoveWaiters, stLockReg, stRegEmpty,
    (.ifte (.var "_t3") (.assign "_goto_out" (.lit 1)) (.skip)),
    (.ifte (.var "_goto_out") (.skip) (gpBlockQ wfr)),
    (.assign "_goto_out" (.lit 0)), stUnlockReg, stUnlockGp, Sync.qWakeAll]

abbrev V0 : (String → Option Val) → Prop := fun _ => True
abbrev V1 : (String → Option Val) → Prop := fun vars => vars "_goto_out" = some (.int 0)

theorem keepV1 (dst : Option String) (hd : dst ≠ some "_goto_out") : ∀ vars vars' : String → Option Val, V1 vars →
    (∀ x, some x ≠ dst → vars' x = vars x) → V1 vars' := by
  intro vars vars' h1 h2; show vars' "_goto_out" = _; rw [h2 _ (Ne.symm hd)]; exact h1

theorem A9_nn {g g' V'} (ctl e s w) (hn : ctl ≠ .normal) (h : A9 g ctl e s w) : QE g' V' ctl e s w := by
  cases ctl <;> simp_all [A9, QE]

set_option maxHeartbeats 1600000 in
theorem leaderQ_holds (trk fuel wfr)
    (hW : ∀ fuel g gv env inp ss wins, WfrPre g gv env ss → Holds trk (exec fuel wfr env inp) ss wins (WfrPost g gv))
    (hpw : privOK (gpBlockQ wfr) = true) (g : Nat) (hg : 1 ≤ g) (env inp ss wins) (hI : QI g V1 env ss) :
    HoldsS trk (exec fuel (leaderQ wfr) env inp) ss wins (QE g V0) := by
  have hnn : ∀ {g V g' V'} ctl e s w, ctl ≠ .normal → QP g V ctl e s w → QE g' V' ctl e s w :=
    fun ctl e s w hn h => QP_QE_nn ctl e s w hn h
  refine HoldsS.seq (quiet_callQ trk none _ _ _ [.ptr (.glob "&wait"), .int 2] (fun _ => rfl) rfl (by decide) (by decide)
    g V1 V1 (keepV1 _ (by decide)) fuel env inp ss wins hI) ?_ hnn
  intro e i s w hq
  refine HoldsS.seq (lockGp_holds trk fuel g V1 e i s w hq).toS ?_ hnn
  intro e i s w hq
  refine HoldsS.seq (quiet_callQ trk none _ _ _ [.ptr (.glob "&waiters"), .ptr (.glob "gp_waiters")] (fun _ => rfl) rfl
    (by decide) (by decide) g V1 V1 (keepV1 _ (by decide)) fuel e i s w hq) ?_ hnn
  intro e i s w hq
  refine HoldsS.seq (lockReg_holds trk fuel g V1 e i s w hq).toS ?_ hnn
  intro e i s w hq
  refine HoldsS.seq (regEmpty_holds trk fuel g e i s w hq).toS ?_ (fun ctl e s w hn h => A9_nn ctl e s w hn h)
  intro e i s w hq
  obtain ⟨r, hr2, hgo, hqi, hreg⟩ := hq
  -- if (…) goto out
  refine HoldsS.seq (Qa := fun ctl e' s' w' => ctl = .normal ∧ s' = s ∧ e'.priv = e.priv ∧
      e'.vars "_goto_out" = some (.int (if r.truthy then 1 else 0)) ∧ (r.truthy = false → e' = e)) ?_ ?_
      (fun ctl e s w hn h => absurd h.1 hn)
  · rw [exec_ifte _ _ _ _ _ _ _ (eval_var e "_t3" r hr2)]
    by_cases ht : r.truthy = true
    · simp only [ht, if_true]
      intro out ho _; exec_simp_at ho []; subst ho
      simp [Ok_nil_iff]
    · simp only [ht, if_false]
      intro out ho _; simp [exec] at ho; subst ho
      simp [Ok_nil_iff, ht, hgo]
  intro e' i s' w' hq
  obtain ⟨_, rfl, hpriv, hgo', hsame⟩ := hq
  refine HoldsS.seq (Qa := QE g V0) ?_ ?_ (fun ctl e s w hn h => QE_nn ctl e s w hn h)
  · rw [exec_ifte _ _ _ _ _ _ _ (eval_var e' "_goto_out" _ hgo')]
    by_cases ht : r.truthy = true
    · simp only [ht, if_true]
      simp [Val.truthy]
      intro out ho _; simp only [exec, Except.ok.injEq] at ho; subst ho
      obtain ⟨h1, h2, h3, h4, h5, _⟩ := hqi
      simp only [Ok_nil_iff, QE]
      exact ⟨g, Or.inl rfl, h1, h2, h3, by rw [hpriv]; exact h4, by rw [hpriv]; exact h5, trivial⟩
    · simp only [ht, if_false]
      simp [Val.truthy]
      have he : e' = e := hsame (by simpa using ht)
      subst he
      obtain ⟨h1, h2, h3, h4, h5, _⟩ := hqi
      have hG : GInvQ .idle g (fun ls => ls.reg ≠ []) e'.vars e' s' := ⟨rfl, h1, h3, h2, h4, hreg (by simpa using ht)⟩
      refine ((gpBlockQ_holds trk fuel wfr hW g hg _ e' i s' w' hG).toS.and_env (fun e => PrivSafe e.priv)
        (fun out ho => exec_privSafe _ hpw fuel e' i out h5 ho)).mono ?_
      intro ctl e2 s2 w2 ⟨h, hps⟩
      cases ctl with
      | normal =>
        obtain ⟨a1, a2, a3, a4, a5, _⟩ := h
        exact ⟨g + 1, Or.inr rfl, a2, a4, a3, a5, hps, trivial⟩
      | blocked => trivial
      | fuel => trivial
      | _ => exact h.elim
  intro e2 i2 s2 w2 hq
  obtain ⟨g', hg', hq⟩ := hq
  have hnn2 : ∀ {V} ctl e s w, ctl ≠ .normal → QP g' V ctl e s w → QE g V0 ctl e s w :=
    fun ctl e s w hn h => QP_QE_nn ctl e s w hn h
  refine HoldsS.seq (assignLit_holds trk fuel g' V0 V0 e2 i2 s2 w2 "_goto_out" 0 (fun _ => trivial) hq).toS ?_ hnn2
  intro e i s w hq
  refine HoldsS.seq (unlockReg_holds trk fuel g' V0 e i s w hq).toS ?_ hnn2
  intro e i s w hq
  refine HoldsS.seq (unlockGp_holds trk fuel g' V0 e i s w hq).toS ?_ hnn2
  intro e i s w hq
  refine (quiet_callQ trk none _ _ _ [.ptr (.glob "&waiters")] (fun _ => rfl) rfl (by decide) (by decide)
    g' V0 V0 (fun _ _ _ _ => trivial) fuel e i s w hq).mono ?_
  intro ctl e s w h
  exact QP_QE hg' ctl e s w h

/-- what a completed `urcu_qsbr_synchronize_rcu` guarantees: the updater automaton is back at pc `idle`, the counter is `g`
(not the leader / empty registry) or `g + 1`, the private view of `urcu_qsbr_gp.ctr` agrees -/
def SyncPostQ (g : Nat) : Post := QE g V0

set_option maxHeartbeats 1600000 in
theorem syncQT_holds (trk fuel wfr)
    (hW : ∀ fuel g gv env inp ss wins, WfrPre g gv env ss → Holds trk (exec fuel wfr env inp) ss wins (WfrPost g gv))
    (hpw : privOK (gpBlockQ wfr) = true) (g : Nat) (hg : 1 ≤ g) (env inp ss wins) (hI : QI g V0 env ss) :
    HoldsS trk (exec fuel (syncQT wfr) env inp) ss wins (SyncPostQ g) := by
  have hnn : ∀ {g V g' V'} ctl e s w, ctl ≠ .normal → QP g V ctl e s w → QE g' V' ctl e s w :=
    fun ctl e s w hn h => QP_QE_nn ctl e s w hn h
  have setV1 : ∀ (x : String) (hx : x ≠ "_goto_out") (vars : String → Option Val) (v : Val), V1 vars →
      V1 (fun z => if z = x then some v else vars z) := by
    intro x hx vars v h; show (if "_goto_out" = x then _ else _) = _; rw [if_neg (Ne.symm hx)]; exact h
  refine HoldsS.seq (assignLit_holds trk fuel g V0 V0 env inp ss wins "_goto_gp_end" 0 (fun _ => trivial) hI).toS ?_ hnn
  intro e i s w hq
  refine HoldsS.seq (assignLit_holds trk fuel g V0 V1 e i s w "_goto_out" 0 (fun _ => by simp [V1]) hq).toS ?_ hnn
  intro e i s w hq
  refine HoldsS.seq (waitInit_holds trk fuel g V1 e i s w hq).toS ?_ hnn
  intro e i s w hq
  refine HoldsS.seq (readOngoing_holds trk fuel g V1 V1 e i s w (fun v h => setV1 _ (by decide) _ v h) hq).toS ?_ hnn
  intro e i s w hq
  refine HoldsS.seq (assignVar_holds trk fuel g V1 V1 e i s w "was_online" "_t1" (fun v h => setV1 _ (by decide) _ v h) hq).toS
    ?_ hnn
  intro e i s w hq
  -- if (was_online) urcu_qsbr_thread_offline(); else cmm_smp_mb();
  refine HoldsS.seq (HoldsS.ifte (offline_holds trk fuel g V1 e i s w hq).toS (mb_holds trk fuel g V1 e i s w hq).toS) ?_ hnn
  intro e i s w hq
  -- urcu_wait_add
  refine HoldsS.seq (quiet_callQ trk (some "_t2") _ _ _ [.ptr (.glob "gp_waiters"), .ptr (.glob "&wait")] (fun _ => rfl) rfl
    (by decide) (by decide) g V1 V1 (keepV1 _ (by decide)) fuel e i s w hq) ?_ hnn
  intro e i s w hq
  -- not the leader: busy wait, goto gp_end
  refine HoldsS.seq (Qa := QP g V1) (HoldsS.ifte ?_ (skip_holds trk fuel g V1 e i s w hq).toS) ?_ hnn
  · refine HoldsS.seq (quiet_callQ trk none _ _ _ [.ptr (.glob "&wait")] (fun _ => rfl) rfl (by decide) (by decide)
      g V1 V1 (keepV1 _ (by decide)) fuel e i s w hq) ?_ (fun ctl e s w hn h => QP_nn ctl e s w hn h)
    intro e i s w hq
    exact (assignLit_holds trk fuel g V1 V1 e i s w "_goto_gp_end" 1 (fun h => setV1 _ (by decide) _ _ h) hq).toS
  intro e i s w hq
  -- the leader
  refine HoldsS.seq (Qa := QE g V0) (HoldsS.ifte ?_ (leaderQ_holds trk fuel wfr hW hpw g hg e i s w hq)) ?_
    (fun ctl e s w hn h => QE_nn ctl e s w hn h)
  · refine (skip_holds trk fuel g V0 e i s w ?_).toS.mono (fun ctl e s w h => QP_QE (Or.inl rfl) ctl e s w h)
    obtain ⟨h1, h2, h3, h4, h5, _⟩ := hq; exact ⟨h1, h2, h3, h4, h5, trivial⟩
  intro e i s w hq
  obtain ⟨g', hg', hq⟩ := hq
  have hnn2 : ∀ {V} ctl e s w, ctl ≠ .normal → QP g' V ctl e s w → QE g V0 ctl e s w :=
    fun ctl e s w hn h => QP_QE_nn ctl e s w hn h
  refine HoldsS.seq (assignLit_holds trk fuel g' V0 V0 e i s w "_goto_gp_end" 0 (fun _ => trivial) hq).toS ?_ hnn2
  intro e i s w hq
  -- if (was_online) urcu_qsbr_thread_online(); else cmm_smp_mb();
  exact (HoldsS.ifte (online_holds trk fuel g' V0 e i s w hq).toS (mb_holds trk fuel g' V0 e i s w hq).toS).mono
    (fun ctl e s w h => QP_QE hg' ctl e s w h)

theorem gpBlockQ_privOK : privOK (gpBlockQ «qsbr.wait_for_readers») = true := by decide

theorem qsbr_sync_holds (trk fuel) (g : Nat) (hg : 1 ≤ g) (env inp ss wins) (hI : QI g V0 env ss) :
    HoldsS trk (exec fuel «qsbr.urcu_qsbr_synchronize_rcu» env inp) ss wins (SyncPostQ g) := by
  rw [qsbr_sync_eq]
  exact syncQT_holds trk fuel _ (fun fuel g gv env inp ss wins h => qsbr_wfr_holds trk fuel g gv env inp ss wins h)
    gpBlockQ_privOK g hg env inp ss wins hI

end UrcuVerif.Src.Sync2Q
