import UrcuVerif.Wfcq.Model
import UrcuVerif.Lfq.Model
/-!
# Thread-local projections of the queue models (L2) for the source-refinement proofs

`Wfcq/Model.lean` and `Lfq/Model.lean` have one label per shared access *site* of the C text (`ld1`, `sync`, `d2` … are
all "load of some `next` field").  The source IR only shows accesses (`ld/st/xchg/cas` of a location with values), so
the local labels here are **accesses with the values observed**; the local automaton `lstep` decides from the thread's
pc which L2 label an access is (`toL2`) and checks that the address / written values are the ones L2's pc dictates.

* projection lemma (`proj`): an L2 step of thread `t` moves the local state by `lstep` on the access `obs s l`
  whose observed values are the stated functions of the global state (`s.tail q`, `rd s t a`, `s.next src` …);
* enabledness (`enabled_iff`): the L2 step is enabled iff `lstep` is and the global guard `gguard` holds
  (empty own store buffer for locked operations; the API contract of `enqXchg`);
* frame lemma (`frame`): labels of other threads, and the environment labels `flush`/`fence`/`acquire`/`release` of
  any thread, leave the local state unchanged.
-/
namespace UrcuVerif.Src.Queue

/-! ## wfcqueue -/
namespace WfcqL
open UrcuVerif.Wfcq

/-- a shared access of the wfcqueue code with the values it wrote / observed.  Addresses as in L2: `0` NULL, `1`,`2`
the queues (`next q` = `head->node.next`, `tail q` = `tail->p`), nodes `≥ 3`. -/
inductive LLabel
  | ldNext (a v : Nat)              -- `uatomic_load(&a->next)` saw `v`            (L2: ld1, sync, nx1, d2)
  | ldTail (q v : Nat)              -- `uatomic_load(&tail->p)` saw `v`            (L2: ld2, nx2, s4)
  | stNext (a v : Nat)              -- `uatomic_store(&a->next, v)`                (L2: stIssue, d3, d6, d7)
  | xchgTail (q new old : Nat)      -- `uatomic_xchg(&tail->p, new)` returned old  (L2: enqXchg, s5, s6)
  | xchgNext (a new old : Nat)      -- `uatomic_xchg(&a->next, new)` returned old  (L2: s3)
  | casTail (q exp new old : Nat)   -- `uatomic_cmpxchg(&tail->p, exp, new)` returned old (L2: d4)
  | other                           -- any other shared access (not a queue word / not a pointer value): never accepted
  deriving DecidableEq, Repr

/-- the thread-local part of L2's state is the thread's `pc` (which carries the operation's locals). -/
abbrev LState := Pc

def lstep (p : LState) (l : LLabel) : Option LState :=
  match p with
  | .idle => match l with
    | .xchgTail q n old => if isQ q ∧ 3 ≤ n then some (.enq q old n false) else none
    | _ => none
  | .enq q old n spl => match l with
    | .stNext a v =>
      if a = old ∧ v = n then some (.done (if spl then .dest (decide (old ≠ q)) else .bool (decide (old ≠ q)))) else none
    | _ => none
  | .e1 k q => match l with
    | .ldNext a v => if a = q then some (if v ≠ 0 then nonEmptyPc k q else .e2 k q) else none
    | _ => none
  | .e2 k q => match l with
    | .ldTail q' v => if q' = q then some (if v = q then .done (emptyRes k) else nonEmptyPc k q) else none
    | _ => none
  | .sync k q a => match l with
    | .ldNext a' v =>
      if a' = a then
        some (if v ≠ 0 then syncGotPc k q a v else if k.blocking then .sync k q a else syncWbPc k q a)
      else none
    | _ => none
  | .nx1 q a b => match l with
    | .ldNext a' v => if a' = a then some (if v ≠ 0 then .done (.node v false) else .nx2 q a b) else none
    | _ => none
  | .nx2 q a b => match l with
    | .ldTail q' v => if q' = q then some (if v = a then .done .null else .sync (.next b) q a) else none
    | _ => none
  | .d2 q nd b => match l with
    | .ldNext a v => if a = nd then some (if v ≠ 0 then .d6 q nd v else .d3 q nd b) else none
    | _ => none
  | .d3 q nd b => match l with
    | .stNext a v => if a = q ∧ v = 0 then some (.d4 q nd b) else none
    | _ => none
  | .d4 q nd b => match l with
    | .casTail q' e n old =>
      if q' = q ∧ e = nd ∧ n = q then some (if old = nd then .done (.node nd true) else .sync (.deq b) q nd) else none
    | _ => none
  | .d6 q nd nxt => match l with
    | .stNext a v => if a = q ∧ v = nxt then some (.done (.node nd false)) else none
    | _ => none
  | .d7 q nd => match l with
    | .stNext a v => if a = q ∧ v = nd then some (.done .wouldblock) else none
    | _ => none
  | .s3 dst src b => match l with
    | .xchgNext a new old =>
      if a = src ∧ new = 0 then some (if old ≠ 0 then .s5 dst src old else .s4 dst src b) else none
    | _ => none
  | .s4 dst src b => match l with
    | .ldTail q v =>
      if q = src then some (if v = src then .done .srcEmpty else if b then .s3 dst src b else .done .wouldblock) else none
    | _ => none
  | .s5 dst src h => match l with
    | .xchgTail q new old => if q = src ∧ new = src then some (.s6 dst src h old) else none
    | _ => none
  | .s6 dst _src h tl => match l with
    | .xchgTail q new old => if q = dst ∧ new = tl then some (.enq dst old h true) else none
    | _ => none
  | .done _ => none

def lrun : LState → List LLabel → Option LState
  | p, [] => some p
  | p, l :: ls => match lstep p l with
    | some p' => lrun p' ls
    | none => none

theorem lrun_append (p : LState) (a b : List LLabel) :
    lrun p (a ++ b) = (lrun p a).bind fun p' => lrun p' b := by
  induction a generalizing p with
  | nil => rfl
  | cons x xs ih =>
    simp only [List.cons_append, lrun]
    cases lstep p x with
    | none => rfl
    | some p' => exact ih p'

/-- the access (with the values the global state `s` makes it observe) that L2 label `l` of its thread is -/
def obs (s : State) : Label → Option LLabel
  | .enqXchg t q n => if s.pc t = .idle then some (.xchgTail q n (s.tail q)) else none
  | .stIssue t => match s.pc t with
    | .enq _ old n _ => some (.stNext old n)
    | _ => none
  | .ld1 t => match s.pc t with
    | .e1 _ q => some (.ldNext q (rd s t q))
    | _ => none
  | .ld2 t => match s.pc t with
    | .e2 _ q => some (.ldTail q (s.tail q))
    | _ => none
  | .sync t => match s.pc t with
    | .sync _ _ a => some (.ldNext a (rd s t a))
    | _ => none
  | .nx1 t => match s.pc t with
    | .nx1 _ a _ => some (.ldNext a (rd s t a))
    | _ => none
  | .nx2 t => match s.pc t with
    | .nx2 q _ _ => some (.ldTail q (s.tail q))
    | _ => none
  | .d2 t => match s.pc t with
    | .d2 _ nd _ => some (.ldNext nd (rd s t nd))
    | _ => none
  | .d3 t => match s.pc t with
    | .d3 q _ _ => some (.stNext q 0)
    | _ => none
  | .d4 t => match s.pc t with
    | .d4 q nd _ => some (.casTail q nd q (s.tail q))
    | _ => none
  | .d6 t => match s.pc t with
    | .d6 q _ nxt => some (.stNext q nxt)
    | _ => none
  | .d7 t => match s.pc t with
    | .d7 q nd => some (.stNext q nd)
    | _ => none
  | .s3 t => match s.pc t with
    | .s3 _ src _ => some (.xchgNext src 0 (s.next src))
    | _ => none
  | .s4 t => match s.pc t with
    | .s4 _ src _ => some (.ldTail src (s.tail src))
    | _ => none
  | .s5 t => match s.pc t with
    | .s5 _ src _ => some (.xchgTail src src (s.tail src))
    | _ => none
  | .s6 t => match s.pc t with
    | .s6 dst _ _ tl => some (.xchgTail dst tl (s.tail dst))
    | _ => none
  | _ => none

/-- labels that are shared accesses of the C functions (all others: environment `flush`/`fence`, the mutex, and the
call / return markers, which set the pc without an access) -/
def isAccess : Label → Bool
  | .enqXchg .. | .stIssue _ | .ld1 _ | .ld2 _ | .sync _ | .nx1 _ | .nx2 _ | .d2 _ | .d3 _ | .d4 _ | .d6 _ | .d7 _
  | .s3 _ | .s4 _ | .s5 _ | .s6 _ => true
  | _ => false

/-- the global part of the guard of an access label: locked operations need the own store buffer drained;
`enqXchg` has the API contract (node not in a queue, no store to it in flight) -/
def gguard (s : State) : Label → Prop
  | .enqXchg t _ n => s.inq n = false ∧ s.wr n = none ∧ s.buf t = []
  | .d4 t | .s3 t | .s5 t | .s6 t => s.buf t = []
  | _ => True

/-- **projection**: an enabled access label of thread `l.tid` is, locally, `lstep` on the access `obs s l` -/
theorem proj {s s' : State} {l : Label} (hacc : isAccess l = true) (h : step s l = some s') :
    ∃ ll, obs s l = some ll ∧ lstep (s.pc l.tid) ll = some (s'.pc l.tid) := by
  cases l <;> simp only [isAccess, Bool.false_eq_true] at hacc <;> simp only [step] at h
  case enqXchg t q n =>
    split at h
    · next g => obtain ⟨g1, g2, g3, -⟩ := g; cases h; simp [obs, Label.tid, g1, lstep, g2, g3]
    · cases h
  all_goals (split at h <;> try (cases h; done))
  all_goals (rename_i e; simp only [obs, Label.tid, e]; refine ⟨_, rfl, ?_⟩)
  all_goals (repeat' (split at h))
  all_goals (first | (cases h; done) | (cases h; simp_all [lstep, setPc]))

/-- **enabledness**: an access label is enabled iff the local automaton accepts its access and the global guard holds -/
theorem enabled_iff (s : State) (l : Label) (hacc : isAccess l = true) :
    (step s l).isSome ↔ (∃ ll, obs s l = some ll ∧ (lstep (s.pc l.tid) ll).isSome) ∧ gguard s l := by
  cases l <;> simp only [isAccess, Bool.false_eq_true] at hacc <;> simp only [step, obs, gguard, Label.tid]
  case enqXchg t q n =>
    by_cases g : s.pc t = .idle
    · simp only [g, lstep]; by_cases g2 : isQ q ∧ 3 ≤ n <;> simp [g2] <;> grind
    · simp [g]
  all_goals (cases hp : s.pc _ <;> simp [lstep])
  all_goals grind

/-- **frame**: steps of other threads leave the local state of thread `t` unchanged -/
theorem frame {s s' : State} {l : Label} {t : Nat} (h : step s l = some s') (ht : l.tid ≠ t) : s'.pc t = s.pc t := by
  have hne : t ≠ l.tid := fun e => ht e.symm
  cases l <;> simp only [step] at h <;> simp only [Label.tid] at hne
  all_goals (repeat' (split at h))
  all_goals (first | (cases h; done) | (cases h; simp [setPc, hne]))

/-- **frame (environment labels)**: `flush`, `fence`, `acquire`, `release` — also of thread `t` itself — change only
memory / store buffers / the lock, never a pc -/
theorem frame_env {s s' : State} {l : Label} (h : step s l = some s')
    (hl : (∃ u, l = .flush u) ∨ (∃ u, l = .fence u) ∨ (∃ u q, l = .acquire u q) ∨ (∃ u q, l = .release u q)) :
    s'.pc = s.pc := by
  rcases hl with ⟨u, rfl⟩ | ⟨u, rfl⟩ | ⟨u, q, rfl⟩ | ⟨u, q, rfl⟩ <;> simp only [step] at h <;>
    (repeat' (split at h)) <;> first | (cases h; done) | (cases h; rfl)

end WfcqL

/-! ## rculfqueue -/
namespace LfqL
open UrcuVerif.Lfq

/-- a shared access of the rculfqueue code with the values it wrote / observed (pointers as in L2: `Nat`, `0` = NULL).
`ldNext` and `casHead` also carry the value of the *plain* load `head->dummy` that L2 folds into the same step
(`dm`), and `ldNext` the node `d` that `make_dummy`'s `malloc` returns when the load finds the last real node. -/
inductive LLabel
  | ldTail (v : Nat)                       -- `rcu_dereference(q->tail)` saw v              (L2: ldTail, ldTailD)
  | casNext (a new old : Nat)              -- `cmpxchg(&a->next, NULL, new)` returned old   (L2: casNext)
  | casTail (exp new old : Nat)            -- `cmpxchg(&q->tail, exp, new)` returned old    (L2: casTailAdv/Help/D)
  | ldHead (v : Nat)                       -- `rcu_dereference(q->head)` saw v              (L2: ldHead)
  | ldNext (a v : Nat) (dm : Bool) (d : Nat)  -- `rcu_dereference(a->next)` saw v           (L2: ldNext d, ldNext2)
  | casHead (exp new old : Nat) (dm : Bool)   -- `cmpxchg(&q->head, exp, new)` returned old (L2: casHead)
  | other                                  -- any other shared access: never accepted
  deriving DecidableEq, Repr

/-- the fields of L2's state owned by one thread -/
structure LState where
  pc : Pc
  inDeq : Bool
  node : Nat
  tl : Nat
  nx : Nat
  hd : Nat
  deriving DecidableEq, Repr

def proj (s : State) (t : Nat) : LState :=
  { pc := s.pc t, inDeq := s.inDeq t, node := s.node t, tl := s.tl t, nx := s.nx t, hd := s.hd t }

def lstep (c : Cfg) (p : LState) (l : LLabel) : Option LState :=
  match p.pc with
  | .idle => none
  | .eLd => match l with
    | .ldTail v => some { p with tl := v, pc := .eCas }
    | _ => none
  | .eCas => match l with
    | .casNext a new old =>
      if a = p.tl ∧ new = p.node then
        some (if old = 0 then { p with pc := .eAdv } else { p with nx := old, pc := .eHelp })
      else none
    | _ => none
  | .eAdv => match l with
    | .casTail e n _ => if e = p.tl ∧ n = p.node then some { p with pc := if p.inDeq then .dLdN2 else .idle } else none
    | _ => none
  | .eHelp => match l with
    | .casTail e n _ => if e = p.tl ∧ n = p.nx then some { p with pc := .eLd } else none
    | _ => none
  | .dLdH => match l with
    | .ldHead v => some { p with hd := v, pc := .dLdN }
    | _ => none
  | .dLdN => match l with
    | .ldNext a v dm d =>
      if a = p.hd then
        if v = 0 then
          if dm then some { p with nx := v, pc := .idle }
          else if d ≠ 0 then some { p with nx := v, node := d, inDeq := true, pc := .eLd }
          else none
        else some { p with nx := v, pc := afterNextPc c }
      else none
    | _ => none
  | .dLdN2 => match l with
    | .ldNext a v _ _ => if a = p.hd then some { p with nx := v, pc := afterNextPc c } else none
    | _ => none
  | .dLdT => match l with
    | .ldTail v => some { p with pc := if v = p.hd then .dHelpT else .dCas }
    | _ => none
  | .dHelpT => match l with
    | .casTail e n _ => if e = p.hd ∧ n = p.nx then some { p with pc := .dCas } else none
    | _ => none
  | .dCas => match l with
    | .casHead e n old dm =>
      if e = p.hd ∧ n = p.nx then
        some { p with pc := if old = p.hd then (if dm then .dLdH else .idle) else .dLdH }
      else none
    | _ => none

def lrun (c : Cfg) : LState → List LLabel → Option LState
  | p, [] => some p
  | p, l :: ls => match lstep c p l with
    | some p' => lrun c p' ls
    | none => none

theorem lrun_append (c : Cfg) (p : LState) (a b : List LLabel) :
    lrun c p (a ++ b) = (lrun c p a).bind fun p' => lrun c p' b := by
  induction a generalizing p with
  | nil => rfl
  | cons x xs ih =>
    simp only [List.cons_append, lrun]
    cases lstep c p x with
    | none => rfl
    | some p' => exact ih p'

/-- the access (with the values the global state makes it observe) that L2 label `l` of thread `t` is -/
def obs (s : State) (t : Nat) : Label → Option LLabel
  | .ldTail => if s.pc t = .eLd then some (.ldTail s.tail) else none
  | .casNext => if s.pc t = .eCas then some (.casNext (s.tl t) (s.node t) (s.next (s.tl t))) else none
  | .casTailAdv => if s.pc t = .eAdv then some (.casTail (s.tl t) (s.node t) s.tail) else none
  | .casTailHelp => if s.pc t = .eHelp then some (.casTail (s.tl t) (s.nx t) s.tail) else none
  | .ldHead => if s.pc t = .dLdH then some (.ldHead s.head) else none
  | .ldNext d => if s.pc t = .dLdN then some (.ldNext (s.hd t) (s.next (s.hd t)) (s.isDummy (s.hd t)) d) else none
  | .ldNext2 => if s.pc t = .dLdN2 then some (.ldNext (s.hd t) (s.next (s.hd t)) (s.isDummy (s.hd t)) 0) else none
  | .ldTailD => if s.pc t = .dLdT then some (.ldTail s.tail) else none
  | .casTailD => if s.pc t = .dHelpT then some (.casTail (s.hd t) (s.nx t) s.tail) else none
  | .casHead => if s.pc t = .dCas then some (.casHead (s.hd t) (s.nx t) s.head (s.isDummy (s.hd t))) else none
  | _ => none

/-- labels that are shared accesses of the C functions (the others: `lock`/`unlock`/`reclaim`/`destroy` = environment,
`enqCall`/`deqCall` = call markers that set the thread's pc and arguments) -/
def isAccess : Label → Bool
  | .ldTail | .casNext | .casTailAdv | .casTailHelp | .ldHead | .ldNext _ | .ldNext2 | .ldTailD | .casTailD | .casHead => true
  | _ => false

/-- global part of the guard: only `make_dummy`'s allocation (the allocator returns memory that is not in use) -/
def gguard (s : State) (t : Nat) : Label → Prop
  | .ldNext d => s.next (s.hd t) = 0 → s.isDummy (s.hd t) = false → s.life d = .fresh
  | _ => True

/-- **projection** -/
theorem proj_step {c : Cfg} {s s' : State} {t : Nat} {l : Label} {o : Out} (hacc : isAccess l = true)
    (h : step c s t l = some (s', o)) : ∃ ll, obs s t l = some ll ∧ lstep c (proj s t) ll = some (proj s' t) := by
  cases l <;> simp only [isAccess, Bool.false_eq_true] at hacc <;> simp only [step] at h
  all_goals (split at h <;> try (cases h; done))
  all_goals (rename_i e; simp only [obs, e, if_true]; refine ⟨_, rfl, ?_⟩)
  all_goals (repeat' (split at h))
  all_goals (first
    | (cases h; done)
    | (simp only [Option.some.injEq, Prod.mk.injEq] at h; obtain ⟨rfl, -⟩ := h
       simp_all [lstep, proj, tick, casNextOk, casNextFail, casTailAdvOk, casTailAdvFail, casTailHelpOk, casTailHelpFail,
         ldNextNull, ldNextAlloc, ldNextGo, ldTailDS, casTailDOk, casTailDFail, casHeadOk, casHeadFail, advPc]))

/-- **enabledness** -/
theorem enabled_iff (c : Cfg) (s : State) (t : Nat) (l : Label) (hacc : isAccess l = true) :
    (step c s t l).isSome ↔ (∃ ll, obs s t l = some ll ∧ (lstep c (proj s t) ll).isSome) ∧ gguard s t l := by
  cases l <;> simp only [isAccess, Bool.false_eq_true] at hacc <;> simp only [step, obs, gguard]
  all_goals (cases hp : s.pc t <;> simp [lstep, proj, hp])
  all_goals (repeat' split) <;> simp_all

/-- **frame**: a step of another thread `u` (any label, including `reclaim`, `destroy`, `lock`, `unlock`) leaves the
local state of `t` unchanged -/
theorem frame {c : Cfg} {s s' : State} {t u : Nat} {l : Label} {o : Out} (h : step c s u l = some (s', o))
    (hne : t ≠ u) : proj s' t = proj s t := by
  cases l <;> simp only [step] at h
  all_goals (repeat' (split at h))
  all_goals (first
    | (cases h; done)
    | (simp only [Option.some.injEq, Prod.mk.injEq] at h; obtain ⟨rfl, -⟩ := h
       simp [proj, tick, enqCallS, casNextOk, casNextFail, casTailAdvOk, casTailAdvFail, casTailHelpOk, casTailHelpFail,
         ldNextNull, ldNextAlloc, ldNextGo, ldTailDS, casTailDOk, casTailDFail, casHeadOk, casHeadFail, reclaimS, hne]))

/-- **frame (environment labels of the thread itself)**: `lock`, `unlock`, `reclaim p`, `destroy` do not touch it -/
theorem frame_env {c : Cfg} {s s' : State} {t u : Nat} {l : Label} {o : Out} (h : step c s u l = some (s', o))
    (hl : l = .lock ∨ l = .unlock ∨ (∃ p, l = .reclaim p) ∨ l = .destroy) : proj s' t = proj s t := by
  rcases hl with rfl | rfl | ⟨p, rfl⟩ | rfl <;> simp only [step] at h
  all_goals (repeat' (split at h))
  all_goals (first
    | (cases h; done)
    | (simp only [Option.some.injEq, Prod.mk.injEq] at h; obtain ⟨rfl, -⟩ := h; simp [proj, tick, reclaimS]))

end LfqL

end UrcuVerif.Src.Queue
