import UrcuVerif.Src.DeferRefine
import UrcuVerif.Src.FutexDefer
/-!
# `_defer_rcu` as waker `i` of the defer-thread futex handshake (`Defer/ConcWake.lean`)

`Src/FutexDefer.lean` (component "futex") proves `wake_up_defer()` ⊑ the generic waker from L2 pc `k1`, and
`Src/FutexLocal.lean` gives the owner's local automaton `Df.kstep` (`k0 ; kf ; k1 v ; (k2Wake ; k3 | k2Skip)`, projection of
`DeferWake.step`: `Df.projK_step`, `Df.projK_enabled`, `Df.projK_frame`).  Here the two missing labels are supplied by the
caller: in `_defer_rcu` the store of `head` is L2's `k0` and the `cmm_smp_mb()` after it is `kf`; every other event of
`_defer_rcu` before the wake-up (the load of `tail`, the `q[]` stores, `wmb`) is silent for this model (`absKD`), the events
of `wake_up_defer()` are abstracted as in the futex component (`absEvK dfF "futex_noasync"`, mapped by `Df.gk2l`).
-/
set_option maxRecDepth 8192
set_option linter.unusedSimpArgs false
set_option linter.unusedVariables false
namespace UrcuVerif.Src.DeferR
open UrcuVerif UrcuVerif.Src UrcuVerif.Defer UrcuVerif.Src.Futex

/-- events of `_defer_rcu` ↦ labels of waker `i` -/
def absKD : Event → Option (List Df.KLabel)
  | .st l v mo =>
    if l = .field dq "head" then some [.k0]
    else (absEvK dfF "futex_noasync" (.st l v mo)).map (fun g => g.flatMap Df.gk2l)
  | .fence p => if p = .mb then some [.kf] else some []
  | e => (absEvK dfF "futex_noasync" e).map (fun g => g.flatMap Df.gk2l)

/-- not one of the two events the caller contributes -/
def NotPre : Event → Prop
  | .st l _ _ => l ≠ .field dq "head"
  | .fence _ => False
  | _ => True

theorem absKD_notPre (e : Event) (h : NotPre e) :
    absKD e = (absEvK dfF "futex_noasync" e).map (fun g => g.flatMap Df.gk2l) := by
  cases e <;> simp_all [absKD, NotPre]

theorem labelsOf_absKD (evs : List Event) (h : ∀ e ∈ evs, NotPre e) :
    labelsOf absKD evs = (labelsOf (absEvK dfF "futex_noasync") evs).map (fun g => g.flatMap Df.gk2l) := by
  induction evs with
  | nil => rfl
  | cons e es ih =>
    simp only [labelsOf]
    rw [absKD_notPre e (h e (by simp)), ih (fun e he => h e (by simp [he]))]
    cases absEvK dfF "futex_noasync" e <;> cases labelsOf (absEvK dfF "futex_noasync") es <;> simp

theorem wakeSpec_notPre (inp : List Val) : ∀ e ∈ (wakeSpec inp).1, NotPre e := by
  unfold wakeSpec
  repeat' split
  all_goals simp [NotPre, futexL, dq]

theorem accept_stores (s : Df.KState) : ∀ (ws : List (BitVec 64)) (i : Nat),
    accept absKD Df.kstep s (stores dq i ws) = some s := by
  intro ws
  induction ws with
  | nil => intro i; rfl
  | cons w ws ih =>
    intro i
    simp only [stores, accept_cons]
    have : absKD (.st (slot dq i) (wv w) 0) = some [] := by simp [absKD, absEvK, slot, dq]
    simp only [this, runA]
    exact ih (i + 1)

/-- **`_defer_rcu(f, p)` ⊑ waker `i` of `Defer/ConcWake.lean`** (non-full path; `WakeRetOk`: `FUTEX_WAKE` does not fail,
the contract of the futex component).  Under the system-call contract on the events (`evOk`: the futex word holds an
integer) the labels of the run are `k0 ; kf ; k1 v ; (k2Wake ; k3 | k2Skip)` – accepted by the owner's local automaton
`Df.kstep` from pc `k0` (any register content), back at `k0` when the call completes; a blocked run is a prefix. -/
theorem defer_rcu_waker (fuel : Nat) (env : Env) (f p last : BitVec 64) (head : Nat) (tl : Int) (rest : List Val)
    (hf : env.vars "fct" = some (wv f)) (hp : env.vars "p" = some (wv p))
    (hh : env.priv (.field dq "head") = some (.int (head : Int)))
    (hl : env.priv (.field dq "last_fct_in") = some (wv last))
    (hnf : (head : Int) - tl < 4094) (hi : IntInp rest) (hr : WakeRetOk rest) :
    ∃ out, exec fuel Gen.Src.«_defer_rcu» env (.int tl :: rest) = .ok out ∧
      (out.events.all (evOk dfF) = true → ∀ r0, ∃ ks', accept absKD Df.kstep ⟨.k0, r0⟩ out.events = some ks' ∧
        (out.ctl = .normal → ks'.kpc = .k0)) := by
  obtain ⟨vars, hE⟩ := defer_exec (fuel := fuel) f p last head tl rest rfl hf hp hh hl hnf hi
  refine ⟨_, hE, ?_⟩
  intro hok r0
  -- the wake-up part, from the futex component
  obtain ⟨ow, how, hwp⟩ := src_wake_up_defer fuel Env.empty rest hr
  obtain ⟨vw', hmine⟩ := wake_exec (fuel := fuel) (env := Env.empty) (inp := rest) rfl hi
  rw [hmine] at how
  have hev : ow.events = (wakeSpec rest).1 := by cases how; rfl
  have hctl : ow.ctl = (wakeSpec rest).2.2 := by cases how; rfl
  have hokW : ow.events.all (evOk dfF) = true := by
    rw [hev]
    simp only [List.all_cons, List.all_append, Bool.and_eq_true] at hok
    exact hok.2.2
  obtain ⟨k', hk, hkn⟩ := hwp.2.2 hokW r0
  obtain ⟨glabs, hg1, hg2⟩ := (accept_iff _ _ _ _ _).1 hk
  have hsim := runA_sim gkstep Df.kstep Df.kMap Df.gk2l Df.simK glabs _ _ hg2
  have hW : accept absKD Df.kstep ⟨.k1, r0⟩ (wakeSpec rest).1 = some (Df.kMap k') := by
    rw [accept_iff]
    refine ⟨glabs.flatMap Df.gk2l, ?_, hsim⟩
    rw [labelsOf_absKD _ (wakeSpec_notPre rest), ← hev, hg1]; rfl
  -- the caller's part
  have hpre : accept absKD Df.kstep ⟨.k0, r0⟩
      (.ld (.field dq "tail") (.int tl) 0 :: (stores dq head (enc1 last f p).1 ++
        [.fence .wmb, .st (.field dq "head") (.int ((head : Int) + ((enc1 last f p).1.length : Nat))) 0, .fence .mb]))
      = some ⟨.k1, r0⟩ := by
    have h1 : absKD (.ld (.field dq "tail") (.int tl) 0) = some [] := by simp [absKD, absEvK, dq]
    rw [accept_cons, h1]
    simp only [runA]
    refine accept_append _ _ _ _ _ _ _ (accept_stores _ _ _) ?_
    simp [accept_cons, absKD, runA, Df.kstep, accept_nil]
  refine ⟨Df.kMap k', ?_, ?_⟩
  · show accept absKD Df.kstep ⟨.k0, r0⟩ (_ :: (_ ++ _ ++ _)) = _
    rw [← List.cons_append]
    exact accept_append _ _ _ _ _ _ _ hpre hW
  · intro hc
    have : k'.kpc = .k4 := hkn (by rw [hctl]; exact hc)
    simp [Df.kMap, this]

end UrcuVerif.Src.DeferR
