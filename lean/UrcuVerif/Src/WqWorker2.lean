import UrcuVerif.Src.WqWorker
/-!
# `workqueue_thread()`: the batch without restriction on the oracle (busy-wait path included), the splice, the tail

Partial-correctness logic of `Src/WqWorker.lean` (`Triple`): every run that returns `.ok` and whose events are well typed
(`evOkW`) is accepted by the worker's automaton.  New here: the rule for calls (`call_spec`), the traversal primitives
`___cds_wfcq_node_sync_next` (busy-wait loop), `___cds_wfcq_next_blocking`, `___cds_wfcq_first_blocking`.
-/
set_option linter.unusedSimpArgs false
set_option linter.unusedVariables false
set_option maxRecDepth 8192
namespace UrcuVerif.Src.WqR
open UrcuVerif UrcuVerif.Src UrcuVerif.Wq WqL

open Lean.Parser.Tactic in
/-- `wexec` on a hypothesis -/
macro "wexec_at" h:ident " [" ls:simpLemma,* "]" : tactic =>
  `(tactic| simp [block, exec_skip, exec_seq, exec_assign, exec_pstore, exec_ifte, exec_loop, exec_brk, exec_cont,
        exec_prim, exec_assertDbg, exec_ret_none, exec_ret_some, exec_call, seqPost, callPost,
        eval, evalArgs, execPrim, asLoc, Env.setVar, Env.setPriv, setDst, bind, Except.bind,
        truthy_int, truthy_ptr, bindParams, evalUn, boolV, evalBin_eq, evalBin_ne, evalBin_lt, evalBin_add,
        band_1, band_2, band_4, band_8, bandV_truthy, bandV_eq_zero, List.filterMap_cons, $ls,*] at $h:ident)

/-- everything but the busy-wait counter is unchanged in the private view -/
def Frame (priv0 priv : Loc → Option Val) : Prop := ∀ l, l ≠ .glob "&attempt" → priv l = priv0 l

theorem isNode_ptr {x : Loc} (h : IsNode (.ptr x) = true) : ∃ u, x = .field u "next" := by
  cases x with
  | field b f => simp [IsNode] at h; exact ⟨b, by rw [h]⟩
  | _ => simp [IsNode] at h

/-! ## calls -/

/-- what a call guarantees, from the callee's postcondition `PostB`: a completed call restores the caller's locals and
sets `dst`; a cut run (`blocked` / `fuel`) ends inside the callee -/
def CallPost (env0 : Env) (dst : Option String) (PostB : Ctl → Env → WLState → Prop) (o : Out) (ls' : WLState) : Prop :=
  (o.ctl = .normal ∧ ∃ e, (PostB .normal e ls' ∨ PostB (.ret none) e ls') ∧ o.env = ⟨env0.vars, e.priv⟩) ∨
  (o.ctl = .normal ∧ ∃ e v, PostB (.ret (some v)) e ls' ∧ o.env = setDst ⟨env0.vars, e.priv⟩ dst v) ∨
  ((o.ctl = .blocked ∨ o.ctl = .fuel) ∧ PostB o.ctl o.env ls')

theorem call_spec (L : Layout) {fuel : Nat} {dst : Option String} {params : List String} {args : List Expr} {body : Stmt}
    {env0 : Env} {ls0 : WLState} {vs : List Val} {PostB : Ctl → Env → WLState → Prop}
    (hargs : evalArgs env0 args = .ok vs) (hlen : params.length = vs.length)
    (hb : Triple L fuel body (fun e l => e = ⟨bindParams params vs, env0.priv⟩ ∧ l = ls0) PostB)
    {inp : List Val} {o : Out} (hE : exec fuel (.call dst params args body) env0 inp = .ok o)
    (hok : o.events.all (evOkW L) = true) :
    ∃ ls', wlr L ls0 o.events = some ls' ∧ CallPost env0 dst PostB o ls' := by
  rw [exec_call, hargs] at hE
  simp only [hlen, ne_eq, not_true_eq_false, if_false] at hE
  cases hB : exec fuel body ⟨bindParams params vs, env0.priv⟩ inp with
  | error e => rw [hB] at hE; simp at hE
  | ok ob =>
    rw [hB] at hE
    simp only at hE
    rcases ob with ⟨ev, en, ip, ctl⟩
    cases ctl with
    | normal =>
      simp only [callPost, Except.ok.injEq] at hE; subst hE
      obtain ⟨l1, h1, h2⟩ := hb _ inp ls0 _ ⟨rfl, rfl⟩ hB hok
      exact ⟨l1, h1, .inl ⟨rfl, en, .inl h2, rfl⟩⟩
    | ret v =>
      cases v with
      | none =>
        simp only [callPost, Except.ok.injEq] at hE; subst hE
        obtain ⟨l1, h1, h2⟩ := hb _ inp ls0 _ ⟨rfl, rfl⟩ hB hok
        exact ⟨l1, h1, .inl ⟨rfl, en, .inr h2, rfl⟩⟩
      | some v =>
        simp only [callPost, Except.ok.injEq] at hE; subst hE
        obtain ⟨l1, h1, h2⟩ := hb _ inp ls0 _ ⟨rfl, rfl⟩ hB hok
        exact ⟨l1, h1, .inr (.inl ⟨rfl, en, v, h2, rfl⟩)⟩
    | brk => simp [callPost] at hE
    | cont => simp [callPost] at hE
    | blocked =>
      simp only [callPost, Except.ok.injEq] at hE; subst hE
      obtain ⟨l1, h1, h2⟩ := hb _ inp ls0 _ ⟨rfl, rfl⟩ hB hok
      exact ⟨l1, h1, .inr (.inr ⟨.inl rfl, h2⟩)⟩
    | fuel =>
      simp only [callPost, Except.ok.injEq] at hE; subst hE
      obtain ⟨l1, h1, h2⟩ := hb _ inp ls0 _ ⟨rfl, rfl⟩ hB hok
      exact ⟨l1, h1, .inr (.inr ⟨.inr rfl, h2⟩)⟩

/-! ## `___cds_wfcq_node_sync_next(node, blocking = 1)`: the busy-wait for a `next` pointer -/

/-- the two places the worker busy-waits: `S` = pc while waiting, `G u` = pc once `node->next == u` was seen -/
structure SyncSite (a : Loc) where
  S : WLPc
  G : Loc → WLPc
  stay : ∀ ls : WLState, ls.pc = S → wstep ls (.ldNext a (.int 0)) = some ls
  got : ∀ (ls : WLState) (u : Loc), ls.pc = S → wstep ls (.ldNext a (.ptr u)) = some { ls with pc := G u }

def siteFirst : SyncSite tmpHead where
  S := .firstS
  G u := .fetch0 u
  stay ls h := by obtain ⟨pc, c, r⟩ := ls; simp only at h; subst h; simp [wstep]
  got ls u h := by obtain ⟨pc, c, r⟩ := ls; simp only at h; subst h; simp [wstep]

def siteNext (c : Loc) : SyncSite c where
  S := .fetchS c
  G u := .ready c (.ptr u)
  stay ls h := by obtain ⟨pc, n, r⟩ := ls; simp only at h; subst h; simp [wstep]
  got ls u h := by obtain ⟨pc, n, r⟩ := ls; simp only at h; subst h; simp [wstep]

def syncBody : Stmt := (firstLoop Gen.Src.«___cds_wfcq_node_sync_next»).getD .skip

def SyncInv (a : Loc) (priv0 : Loc → Option Val) (ls0 : WLState) (e : Env) (l : WLState) : Prop :=
  e.vars "node" = some (.ptr a) ∧ e.vars "blocking" = some (.int 1) ∧ Frame priv0 e.priv ∧ l = ls0

def SyncEnd (a : Loc) (site : SyncSite a) (priv0 : Loc → Option Val) (ls0 : WLState) (c : Ctl) (e : Env) (l : WLState) :
    Prop :=
  Frame priv0 e.priv ∧
    ((c = .brk ∧ ∃ u, e.vars "next" = some (.ptr u) ∧ IsNode (.ptr u) = true ∧ l = { ls0 with pc := site.G u }) ∨
      (c = .blocked ∧ l = ls0))

theorem absEvW_ldNext (L : Layout) (a : Loc) (ha : a ≠ .field L.W "cbs_head") (v : Val) (mo : Int) :
    absEvW L (.ld (.field a "next") v mo) = some (.ldNext a v) := by
  simp [absEvW, ha]

theorem sync_body_triple (L : Layout) (fuel : Nat) (a : Loc) (ha : a ≠ .field L.W "cbs_head") (site : SyncSite a)
    (priv0 : Loc → Option Val) (ls0 : WLState) (hpc : ls0.pc = site.S) :
    Triple L fuel syncBody (SyncInv a priv0 ls0)
      (fun c e l => if c.goesOn then SyncInv a priv0 ls0 e l else SyncEnd a site priv0 ls0 c e l) := by
  intro env inp ls o hpre hE hok
  obtain ⟨hn, hb, hf, rfl⟩ := hpre
  cases inp with
  | nil =>
    wexec_at hE [syncBody, firstLoop, Gen.Src.«___cds_wfcq_node_sync_next», hn, hb]
    subst hE
    simp [wlr, wrun, Ctl.goesOn, SyncEnd, hf]
  | cons v rest =>
    cases v with
    | ptr u =>
      wexec_at hE [syncBody, firstLoop, Gen.Src.«___cds_wfcq_node_sync_next», hn, hb]
      subst hE
      have hnode : IsNode (.ptr u) = true := by simpa [evOkW] using hok
      simp [wlr_cons, wlr_nil, absEvW_ldNext L a ha, site.got ls u hpc, Ctl.goesOn, SyncEnd, hf, hnode]
    | int n =>
      by_cases h0 : n = 0
      · subst h0
        cases hp : env.priv (.glob "&attempt") with
        | none =>
          wexec_at hE [syncBody, firstLoop, Gen.Src.«___cds_wfcq_node_sync_next», Gen.Src.«___cds_wfcq_busy_wait», hn, hb, hp]
        | some av =>
          cases av with
          | ptr x =>
            wexec_at hE [syncBody, firstLoop, Gen.Src.«___cds_wfcq_node_sync_next», Gen.Src.«___cds_wfcq_busy_wait», hn, hb, hp,
              evalBin]
          | int k =>
            by_cases hk : k + 1 ≥ 10
            · cases rest with
              | nil =>
                wexec_at hE [syncBody, firstLoop, Gen.Src.«___cds_wfcq_node_sync_next», Gen.Src.«___cds_wfcq_busy_wait», hn, hb,
                  hp, evalBin, hk]
                subst hE
                simp [wlr_cons, wlr_nil, absEvW, ha, site.stay ls hpc, Ctl.goesOn, SyncEnd, Frame]
                intro l hl; simp [hl, hf l hl]
              | cons r rest =>
                wexec_at hE [syncBody, firstLoop, Gen.Src.«___cds_wfcq_node_sync_next», Gen.Src.«___cds_wfcq_busy_wait», hn, hb,
                  hp, evalBin, hk]
                subst hE
                simp [wlr_cons, wlr_nil, absEvW, ha, site.stay ls hpc, Ctl.goesOn, SyncInv, hn, hb, hookNames, Frame]
                intro l hl; simp [hl, hf l hl]
            · wexec_at hE [syncBody, firstLoop, Gen.Src.«___cds_wfcq_node_sync_next», Gen.Src.«___cds_wfcq_busy_wait», hn, hb,
                hp, evalBin, hk]
              subst hE
              simp [wlr_cons, wlr_nil, absEvW, ha, site.stay ls hpc, Ctl.goesOn, SyncInv, hn, hb, Frame]
              intro l hl; simp [hl, hf l hl]
      · wexec_at hE [syncBody, firstLoop, Gen.Src.«___cds_wfcq_node_sync_next», hn, hb, h0]
        subst hE
        simp [evOkW, IsNode, h0] at hok

/-! ## more rules -/

theorem Triple.seq' {L : Layout} {fuel : Nat} {a b : Stmt} {Pre Mid : Env → WLState → Prop}
    {PostA Post : Ctl → Env → WLState → Prop} (ha : Triple L fuel a Pre PostA) (hb : Triple L fuel b Mid Post)
    (hmid : ∀ e l, PostA .normal e l → Mid e l) (hend : ∀ c e l, c ≠ .normal → PostA c e l → Post c e l) :
    Triple L fuel (.seq a b) Pre Post := by
  refine Triple.seq (Mid := Mid) (ha.conseq (fun _ _ h => h) ?_) hb
  intro c e l h
  by_cases hc : c = .normal
  · subst hc; simpa using hmid _ _ h
  · simpa [hc] using hend c e l hc h

/-- a statement without events that runs to completion under `Pre` -/
theorem Triple.of_det {L : Layout} {fuel : Nat} {s : Stmt} {Pre : Env → WLState → Prop}
    {Post : Ctl → Env → WLState → Prop}
    (h : ∀ env inp ls, Pre env ls → ∃ env', exec fuel s env inp = .ok ⟨[], env', inp, .normal⟩ ∧ Post .normal env' ls) :
    Triple L fuel s Pre Post := by
  intro env inp ls o hp hE _
  obtain ⟨env', he, hpost⟩ := h env inp ls hp
  rw [he] at hE
  simp only [Except.ok.injEq] at hE
  subst hE
  exact ⟨ls, wlr_nil L ls, hpost⟩

def SyncPost (a : Loc) (site : SyncSite a) (priv0 : Loc → Option Val) (ls0 : WLState) (c : Ctl) (e : Env) (l : WLState) :
    Prop :=
  Frame priv0 e.priv ∧
    (((c = .blocked ∨ c = .fuel) ∧ l = ls0) ∨
      ∃ u, c = .ret (some (.ptr u)) ∧ IsNode (.ptr u) = true ∧ l = { ls0 with pc := site.G u })

/-- `___cds_wfcq_node_sync_next(node, 1)` at a busy-wait site, every budget: stutter loads of `node->next` that see NULL
(`relax` / `CDS_WFCQ_WAIT_SLEEP` silent), then the load that sees a node `u`: returns `u` at `site.G u`; cut: at `site.S` -/
theorem sync_next_triple (L : Layout) (fuel : Nat) (a : Loc) (ha : a ≠ .field L.W "cbs_head") (site : SyncSite a)
    (priv0 : Loc → Option Val) (ls0 : WLState) (hpc : ls0.pc = site.S) :
    Triple L fuel Gen.Src.«___cds_wfcq_node_sync_next» (SyncInv a priv0 ls0) (SyncPost a site priv0 ls0) := by
  rw [show Gen.Src.«___cds_wfcq_node_sync_next» = Stmt.seq (.assign _ _) (.seq (.pstore _ _) (.seq (.loop syncBody) (.ret _)))
    from rfl]
  refine Triple.seq' (Mid := fun e l => SyncInv a priv0 ls0 e l ∧ e.vars "_t1" = some (.int 0))
    (PostA := fun c e l => c = .normal ∧ SyncInv a priv0 ls0 e l ∧ e.vars "_t1" = some (.int 0)) ?_ ?_
    (fun _ _ h => h.2) (fun c _ _ hc h => absurd h.1 hc)
  · refine Triple.of_det ?_
    intro env inp ls ⟨hn, hb, hf, hl⟩
    wexec [SyncInv, hn, hb, hf, hl]
  refine Triple.seq' (Mid := SyncInv a priv0 ls0) (PostA := fun c e l => c = .normal ∧ SyncInv a priv0 ls0 e l) ?_ ?_
    (fun _ _ h => h.2) (fun c _ _ hc h => absurd h.1 hc)
  · refine Triple.of_det ?_
    intro env inp ls ⟨⟨hn, hb, hf, hl⟩, h1⟩
    wexec [SyncInv, hn, hb, hl, h1, Frame]
    intro l hne; simp [hne, hf l hne]
  refine Triple.seq' (Mid := fun e l => Frame priv0 e.priv ∧
      ∃ u, e.vars "next" = some (.ptr u) ∧ IsNode (.ptr u) = true ∧ l = { ls0 with pc := site.G u })
    (Triple.loop (sync_body_triple L fuel a ha site priv0 ls0 hpc)) ?_ ?_ ?_
  · intro env inp ls o ⟨hf, u, hu, hnd, hl⟩ hE hok
    wexec_at hE [hu]
    subst hE
    exact ⟨ls, wlr_nil L ls, hf, .inr ⟨u, rfl, hnd, hl⟩⟩
  · intro e l h
    rcases h with ⟨h, -⟩ | ⟨c0, hg, ⟨hf, hR⟩, hc⟩
    · simp at h
    · rcases hR with ⟨rfl, u, hu, hnd, hl⟩ | ⟨rfl, hl⟩
      · exact ⟨hf, u, hu, hnd, hl⟩
      · simp [Ctl.afterLoop] at hc
  · intro c e l hc h
    rcases h with ⟨rfl, _, _, hf, hl⟩ | ⟨c0, hg, ⟨hf, hR⟩, rfl⟩
    · exact ⟨hf, .inl ⟨.inr rfl, hl⟩⟩
    · rcases hR with ⟨rfl, u, hu, hnd, hl⟩ | ⟨rfl, hl⟩
      · simp [Ctl.afterLoop] at hc
      · exact ⟨hf, .inl ⟨.inl rfl, hl⟩⟩

/-! ## `___cds_wfcq_next(head, tail, node, 1)` on the private list -/

def tmpTail : Loc := .glob "&cbs_tmp_tail"

def NextPre (c : Loc) (priv0 : Loc → Option Val) (ls0 : WLState) (e : Env) (l : WLState) : Prop :=
  e.vars "node" = some (.ptr c) ∧ e.vars "tail" = some (.ptr tmpTail) ∧ e.vars "blocking" = some (.int 1) ∧
    Frame priv0 e.priv ∧ l = ls0

def NextPost (c : Loc) (priv0 : Loc → Option Val) (ls0 : WLState) (cc : Ctl) (e : Env) (l : WLState) : Prop :=
  Frame priv0 e.priv ∧
    (((cc = .blocked ∨ cc = .fuel) ∧ (l = ls0 ∨ l = { ls0 with pc := .fetch1 c } ∨ l = { ls0 with pc := .fetchS c })) ∨
     ∃ v, cc = .ret (some v) ∧ (v = .int 0 ∨ ∃ u, v = .ptr (.field u "next")) ∧ l = { ls0 with pc := .ready c v })

theorem Frame.trans {p0 p1 p2 : Loc → Option Val} (h1 : Frame p0 p1) (h2 : Frame p1 p2) : Frame p0 p2 :=
  fun l hl => (h2 l hl).trans (h1 l hl)
theorem Frame.refl (p : Loc → Option Val) : Frame p p := fun _ _ => rfl

theorem next_triple (L : Layout) (fuel : Nat) (u : Loc) (priv0 : Loc → Option Val) (ls0 : WLState)
    (hpc : ls0.pc = .fetch0 (.field u "next")) :
    Triple L fuel Gen.Src.«___cds_wfcq_next» (NextPre (.field u "next") priv0 ls0) (NextPost (.field u "next") priv0 ls0) := by
  intro env inp ls o ⟨hn, ht, hb, hf, hl⟩ hE hok
  subst hl
  obtain ⟨pc, cnt, rt⟩ := ls
  simp only at hpc
  subst hpc
  have hne : Loc.field u "next" ≠ .field L.W "cbs_head" := by simp
  cases inp with
  | nil =>
    wexec_at hE [Gen.Src.«___cds_wfcq_next», hn, ht, hb]
    subst hE
    simp [wlr, wrun, NextPost, hf]
  | cons v1 rest =>
    cases v1 with
    | ptr x =>
      wexec_at hE [Gen.Src.«___cds_wfcq_next», hn, ht, hb]
      subst hE
      obtain ⟨u', rfl⟩ := isNode_ptr (x := x) (by simpa [evOkW] using hok)
      simp [wlr_cons, wlr_nil, absEvW, wstep, NextPost, hf]
    | int n =>
      by_cases h0 : n = 0
      · subst h0
        cases rest with
        | nil =>
          wexec_at hE [Gen.Src.«___cds_wfcq_next», hn, ht, hb]
          subst hE
          simp [wlr_cons, wlr_nil, absEvW, wstep, NextPost, hf]
        | cons v2 rest2 =>
          by_cases h2 : v2 = .ptr (.field u "next")
          · subst h2
            wexec_at hE [Gen.Src.«___cds_wfcq_next», hn, ht, hb]
            subst hE
            simp [wlr_cons, wlr_nil, absEvW, wstep, NextPost, hf, tmpTail]
          · wexec_at hE [Gen.Src.«___cds_wfcq_next», hn, ht, hb, h2]
            generalize hS : exec fuel Gen.Src.«___cds_wfcq_node_sync_next» _ _ = r at hE
            cases r with
            | error e => simp at hE
            | ok oS =>
              rcases oS with ⟨ev, en, ip, ctl⟩
              have key : ev.all (evOkW L) = true →
                  ∃ ls', wlr L ⟨.fetchS (.field u "next"), cnt, rt⟩ ev = some ls' ∧
                    SyncPost (.field u "next") (siteNext (.field u "next")) env.priv
                      ⟨.fetchS (.field u "next"), cnt, rt⟩ ctl en ls' := fun hk =>
                sync_next_triple L fuel (.field u "next") hne (siteNext _) env.priv ⟨.fetchS _, cnt, rt⟩ rfl _ _ _ _
                  (by exact ⟨by simp, by simp, Frame.refl _, rfl⟩) hS hk
              cases ctl with
              | normal =>
                cases h3 : env.vars "_t3" with
                | none => simp [h3] at hE
                | some v3 =>
                  simp [h3] at hE; subst hE
                  simp only [List.all_cons, List.all_append, Bool.and_eq_true] at hok
                  obtain ⟨ls', -, -, h⟩ := key (by simp_all)
                  rcases h with ⟨h, -⟩ | ⟨_, h, -, -⟩ <;> simp at h
              | brk => simp at hE
              | cont => simp at hE
              | ret rv =>
                cases rv with
                | none =>
                  cases h3 : env.vars "_t3" with
                  | none => simp [h3] at hE
                  | some v3 =>
                    simp [h3] at hE; subst hE
                    simp only [List.all_cons, List.all_append, Bool.and_eq_true] at hok
                    obtain ⟨ls', -, -, h⟩ := key (by simp_all)
                    rcases h with ⟨h, -⟩ | ⟨_, h, -, -⟩ <;> simp at h
                | some rv =>
                  simp at hE; subst hE
                  simp only [List.all_cons, Bool.and_eq_true] at hok
                  obtain ⟨ls', hw, hfr, h⟩ := key hok.2.2
                  rcases h with ⟨h, -⟩ | ⟨x, h, hnd, hl⟩
                  · simp at h
                  · simp only [Ctl.ret.injEq, Option.some.injEq] at h
                    subst h; subst hl
                    obtain ⟨u', rfl⟩ := isNode_ptr hnd
                    refine ⟨_, ?_, hf.trans hfr, .inr ⟨_, rfl, .inr ⟨u', rfl⟩, rfl⟩⟩
                    simp [wlr_cons, absEvW, wstep, tmpTail, h2, hw, siteNext]
              | blocked =>
                simp at hE; subst hE
                simp only [List.all_cons, Bool.and_eq_true] at hok
                obtain ⟨ls', hw, hfr, h⟩ := key hok.2.2
                rcases h with ⟨-, hl⟩ | ⟨_, h, -, -⟩
                · subst hl
                  refine ⟨_, ?_, hf.trans hfr, .inl ⟨.inl rfl, .inr (.inr rfl)⟩⟩
                  simp [wlr_cons, absEvW, wstep, tmpTail, h2, hw]
                · simp at h
              | fuel =>
                simp at hE; subst hE
                simp only [List.all_cons, Bool.and_eq_true] at hok
                obtain ⟨ls', hw, hfr, h⟩ := key hok.2.2
                rcases h with ⟨-, hl⟩ | ⟨_, h, -, -⟩
                · subst hl
                  refine ⟨_, ?_, hf.trans hfr, .inl ⟨.inr rfl, .inr (.inr rfl)⟩⟩
                  simp [wlr_cons, absEvW, wstep, tmpTail, h2, hw]
                · simp at h
      · wexec_at hE [Gen.Src.«___cds_wfcq_next», hn, ht, hb, h0]
        subst hE
        simp [evOkW, IsNode, h0] at hok

/-! ## the traversal loop, every oracle -/

def FeInv2 (L : Layout) (rtv : Val) (priv0 : Loc → Option Val) (rt : Bool) (e : Env) (l : WLState) : Prop :=
  e.vars "workqueue" = some (.ptr L.W) ∧ e.vars "rt" = some rtv ∧ Frame priv0 e.priv ∧
    ∃ cnt : Nat, e.vars "cbcount" = some (.int cnt) ∧
      ((∃ u, e.vars "_t9" = some (.ptr (.field u "next")) ∧ l = ⟨.fetch0 (.field u "next"), cnt, rt⟩) ∨
       (e.vars "_t9" = some (.int 0) ∧ l = ⟨.at .sub, cnt, rt⟩))

def FeEnd2 (L : Layout) (rtv : Val) (priv0 : Loc → Option Val) (rt : Bool) (c : Ctl) (e : Env) (l : WLState) : Prop :=
  Frame priv0 e.priv ∧
    ((c = .brk ∧ e.vars "workqueue" = some (.ptr L.W) ∧ e.vars "rt" = some rtv ∧
        ∃ cnt : Nat, e.vars "cbcount" = some (.int cnt) ∧ l = ⟨.at .sub, cnt, rt⟩) ∨
     ((c = .blocked ∨ c = .fuel) ∧ ∃ cnt : Nat, ∃ p, l = ⟨p, cnt, rt⟩ ∧ p.abs = .inv))

theorem fe_body2_triple (L : Layout) (fuel : Nat) (rtv : Val) (priv0 : Loc → Option Val) (rt : Bool) :
    Triple L fuel wFEBody (FeInv2 L rtv priv0 rt)
      (fun c e l => if c.goesOn then FeInv2 L rtv priv0 rt e l else FeEnd2 L rtv priv0 rt c e l) := by
  intro env inp ls o ⟨hw, hr, hf, cnt, hc, hcase⟩ hE hok
  rcases hcase with ⟨u, h9, rfl⟩ | ⟨h9, rfl⟩
  · wexec_at hE [wFEBody, innerLoop, wBatch, seqNth, wBody, firstLoop, Gen.Src.«workqueue_thread»,
      Gen.Src.«___cds_wfcq_next_blocking», hw, hr, hc, h9]
    generalize hS : exec fuel Gen.Src.«___cds_wfcq_next» _ _ = r at hE
    cases r with
    | error e => simp at hE
    | ok oS =>
      rcases oS with ⟨ev, en, ip, ctl⟩
      have key : ev.all (evOkW L) = true →
          ∃ ls', wlr L ⟨.fetch0 (.field u "next"), cnt, rt⟩ ev = some ls' ∧
            NextPost (.field u "next") env.priv ⟨.fetch0 (.field u "next"), cnt, rt⟩ ctl en ls' := fun hk =>
        next_triple L fuel u env.priv ⟨.fetch0 _, cnt, rt⟩ rfl _ _ _ _
          (by exact ⟨by simp, by simp [tmpTail], by simp, Frame.refl _, rfl⟩) hS hk
      cases ctl with
      | normal => simp at hE
      | brk => simp at hE
      | cont => simp at hE
      | blocked =>
        simp at hE; subst hE
        obtain ⟨ls', hwl, hfr, h⟩ := key (by simpa using hok)
        rcases h with ⟨-, h⟩ | ⟨_, h, -⟩
        · refine ⟨ls', hwl, ?_⟩
          simp only [Ctl.goesOn]
          refine ⟨hf.trans hfr, .inr ⟨.inl rfl, cnt, ls'.pc, ?_⟩⟩
          rcases h with rfl | rfl | rfl <;> simp [WLPc.abs]
        · simp at h
      | fuel =>
        simp at hE; subst hE
        obtain ⟨ls', hwl, hfr, h⟩ := key (by simpa using hok)
        rcases h with ⟨-, h⟩ | ⟨_, h, -⟩
        · refine ⟨ls', hwl, ?_⟩
          simp only [Ctl.goesOn]
          refine ⟨hf.trans hfr, .inr ⟨.inr rfl, cnt, ls'.pc, ?_⟩⟩
          rcases h with rfl | rfl | rfl <;> simp [WLPc.abs]
        · simp at h
      | ret rv =>
        cases rv with
        | none => simp at hE
        | some v =>
          cases hfn : en.priv (.field u "func") with
          | none => simp [hfn] at hE
          | some fv =>
            cases ip with
            | nil =>
              simp [hfn, hc, evalBin_add] at hE; subst hE
              obtain ⟨ls', hwl, hfr, h⟩ := key (by simpa using hok)
              rcases h with ⟨h, -⟩ | ⟨v', h, -, hl⟩
              · simp at h
              · simp only [Ctl.ret.injEq, Option.some.injEq] at h
                subst h; subst hl
                refine ⟨_, by simpa using hwl, ?_⟩
                simp only [Ctl.goesOn]
                exact ⟨hf.trans hfr, .inr ⟨.inl rfl, cnt, _, rfl, rfl⟩⟩
            | cons rr ip =>
              simp [hfn, hc, evalBin_add] at hE; subst hE
              simp only [List.all_append, List.all_cons, List.all_nil, Bool.and_eq_true] at hok
              obtain ⟨ls', hwl, hfr, h⟩ := key hok.1
              rcases h with ⟨h, -⟩ | ⟨v', h, hv', hl⟩
              · simp at h
              · simp only [Ctl.ret.injEq, Option.some.injEq] at h
                subst h; subst hl
                rcases hv' with rfl | ⟨u2, rfl⟩
                · refine ⟨⟨.at .sub, cnt + 1, rt⟩, ?_, ?_⟩
                  · simp [wlr_append, hwl, wlr_cons, wlr_nil, absEvW, wstep]
                  · simp only [Ctl.goesOn, if_true]
                    exact ⟨by simp [hw], by simp [hr], hf.trans hfr, cnt + 1, by simp, .inr ⟨by simp, rfl⟩⟩
                · refine ⟨⟨.fetch0 (.field u2 "next"), cnt + 1, rt⟩, ?_, ?_⟩
                  · simp [wlr_append, hwl, wlr_cons, wlr_nil, absEvW, wstep]
                  · simp only [Ctl.goesOn, if_true]
                    exact ⟨by simp [hw], by simp [hr], hf.trans hfr, cnt + 1, by simp, .inl ⟨u2, by simp, rfl⟩⟩
  · wexec_at hE [wFEBody, innerLoop, wBatch, seqNth, wBody, firstLoop, Gen.Src.«workqueue_thread», hw, hr, hc, h9]
    subst hE
    refine ⟨_, wlr_nil L _, ?_⟩
    simp only [Ctl.goesOn]
    exact ⟨hf, .inl ⟨rfl, by simp [hw], by simp [hr], cnt, by simp [hc], rfl⟩⟩

/-- what the statements between the splice and the STOP test leave: a completed batch is at L2's `stopchk`, a cut one
inside the traversal (L2's `inv`) or before the `uatomic_sub` -/
def BatchPost (L : Layout) (rtv : Val) (priv0 : Loc → Option Val) (rt : Bool) (c : Ctl) (e : Env) (l : WLState) : Prop :=
  Frame priv0 e.priv ∧
    ((c = .normal ∧ e.vars "workqueue" = some (.ptr L.W) ∧ e.vars "rt" = some rtv ∧ ∃ cnt : Nat, l = ⟨.at .stopchk, cnt, rt⟩) ∨
     ((c = .blocked ∨ c = .fuel) ∧ ∃ cnt : Nat, ∃ p, l = ⟨p, cnt, rt⟩ ∧ (p.abs = .inv ∨ p = .at .sub)))

/-- **one batch, every oracle** (`wForEach`): as `worker_foreach_exec`, without the restriction `FeInp` – the busy-wait for
a `next` pointer that an enqueuer has not stored yet (`___cds_wfcq_node_sync_next`) included -/
theorem foreach2_triple (L : Layout) (fuel : Nat) (rtv : Val) (priv0 : Loc → Option Val) (rt : Bool) :
    Triple L fuel wForEach (FeInv2 L rtv priv0 rt) (BatchPost L rtv priv0 rt) := by
  rw [show wForEach = Stmt.seq (.loop wFEBody) (.prim _ _ _) from rfl]
  refine Triple.seq' (Mid := fun e l => Frame priv0 e.priv ∧ e.vars "workqueue" = some (.ptr L.W) ∧ e.vars "rt" = some rtv ∧
      ∃ cnt : Nat, e.vars "cbcount" = some (.int cnt) ∧ l = ⟨.at .sub, cnt, rt⟩)
    (Triple.loop (fe_body2_triple L fuel rtv priv0 rt)) ?_ ?_ ?_
  · intro env inp ls o ⟨hf, hw, hr, cnt, hc, hl⟩ hE hok
    subst hl
    cases inp with
    | nil =>
      wexec_at hE [hw, hc]
      subst hE
      exact ⟨_, wlr_nil L _, hf, .inr ⟨.inl rfl, cnt, _, rfl, .inr rfl⟩⟩
    | cons r rest =>
      wexec_at hE [hw, hc]
      subst hE
      refine ⟨⟨.at .stopchk, cnt, rt⟩, by simp [wlr_cons, wlr_nil, absEvW, wstep], hf, .inl ⟨rfl, hw, hr, cnt, rfl⟩⟩
  · intro e l h
    rcases h with ⟨h, -⟩ | ⟨c0, hg, ⟨hf, hR⟩, hc⟩
    · simp at h
    · rcases hR with ⟨rfl, hw, hr, cnt, hcb, hl⟩ | ⟨hcc, -⟩
      · exact ⟨hf, hw, hr, cnt, hcb, hl⟩
      · rcases hcc with rfl | rfl <;> simp [Ctl.afterLoop] at hc
  · intro c e l hc h
    rcases h with ⟨rfl, hw, hr, hf, cnt, hcb, hcase⟩ | ⟨c0, hg, ⟨hf, hR⟩, rfl⟩
    · refine ⟨hf, .inr ⟨.inr rfl, cnt, l.pc, ?_⟩⟩
      rcases hcase with ⟨u, -, rfl⟩ | ⟨-, rfl⟩ <;> simp [WLPc.abs]
    · rcases hR with ⟨rfl, -⟩ | ⟨hcc, cnt, p, hl, hp⟩
      · simp [Ctl.afterLoop] at hc
      · refine ⟨hf, .inr ⟨?_, cnt, p, hl, .inl hp⟩⟩
        rcases hcc with rfl | rfl <;> simp [Ctl.afterLoop]

/-! ## `___cds_wfcq_first(&cbs_tmp_head, &cbs_tmp_tail, 1)` -/

def FirstPre (priv0 : Loc → Option Val) (ls0 : WLState) (e : Env) (l : WLState) : Prop :=
  e.vars "u_head" = some (.ptr tmpHead) ∧ e.vars "tail" = some (.ptr tmpTail) ∧ e.vars "blocking" = some (.int 1) ∧
    Frame priv0 e.priv ∧ l = ls0

def FirstPost (priv0 : Loc → Option Val) (ls0 : WLState) (cc : Ctl) (e : Env) (l : WLState) : Prop :=
  Frame priv0 e.priv ∧
    (((cc = .blocked ∨ cc = .fuel) ∧ (l = ls0 ∨ l = { ls0 with pc := .first1 } ∨ l = { ls0 with pc := .firstS })) ∨
     (cc = .ret (some (.int 0)) ∧ l = { ls0 with pc := .at .sub }) ∨
     ∃ u, cc = .ret (some (.ptr (.field u "next"))) ∧ l = { ls0 with pc := .fetch0 (.field u "next") })

theorem first_triple (L : Layout) (fuel : Nat) (priv0 : Loc → Option Val) (ls0 : WLState) (hpc : ls0.pc = .first0) :
    Triple L fuel Gen.Src.«___cds_wfcq_first» (FirstPre priv0 ls0) (FirstPost priv0 ls0) := by
  intro env inp ls o ⟨hn, ht, hb, hf, hl⟩ hE hok
  subst hl
  obtain ⟨pc, cnt, rt⟩ := ls
  simp only at hpc
  subst hpc
  have hne : tmpHead ≠ .field L.W "cbs_head" := by simp [tmpHead]
  cases inp with
  | nil =>
    wexec_at hE [Gen.Src.«___cds_wfcq_first», Gen.Src.«_cds_wfcq_empty», hn, ht, hb]
    subst hE
    simp [wlr, wrun, FirstPost, hf]
  | cons v1 rest =>
    by_cases HV : v1 = .int 0
    · subst HV
      cases rest with
      | nil =>
        wexec_at hE [Gen.Src.«___cds_wfcq_first», Gen.Src.«_cds_wfcq_empty», hn, ht, hb]
        subst hE
        simp [wlr_cons, wlr_nil, absEvW, wstep, FirstPost, hf, tmpHead]
      | cons v2 rest2 =>
        by_cases h2 : v2 = .ptr tmpHead
        · subst h2
          wexec_at hE [Gen.Src.«___cds_wfcq_first», Gen.Src.«_cds_wfcq_empty», hn, ht, hb]
          subst hE
          simp [wlr_cons, wlr_nil, absEvW, wstep, FirstPost, hf, tmpTail, tmpHead]
        · have HV : ¬ v2 = Val.ptr (Loc.glob "&cbs_tmp_head") := h2
          wexec_at hE [Gen.Src.«___cds_wfcq_first», Gen.Src.«_cds_wfcq_empty», hn, ht, hb, h2]
          generalize hS : exec fuel Gen.Src.«___cds_wfcq_node_sync_next» _ _ = r at hE
          cases r with
          | error e => simp at hE
          | ok oS =>
            rcases oS with ⟨ev, en, ip, ctl⟩
            have key : ev.all (evOkW L) = true →
                ∃ ls', wlr L ⟨.firstS, cnt, rt⟩ ev = some ls' ∧
                  SyncPost tmpHead siteFirst env.priv ⟨.firstS, cnt, rt⟩ ctl en ls' := fun hk =>
              sync_next_triple L fuel tmpHead hne siteFirst env.priv ⟨.firstS, cnt, rt⟩ rfl _ _ _ _
                (by exact ⟨by simp [tmpHead], by simp, Frame.refl _, rfl⟩) hS hk
            cases ctl with
            | normal =>
              cases h3 : env.vars "_t2" with
              | none => simp [h3] at hE
              | some v3 =>
                simp [h3] at hE; subst hE
                simp only [List.all_cons, List.all_append, Bool.and_eq_true] at hok
                obtain ⟨ls', -, -, h⟩ := key (by simp_all)
                rcases h with ⟨h, -⟩ | ⟨_, h, -, -⟩ <;> simp at h
            | brk => simp at hE
            | cont => simp at hE
            | ret rv =>
              cases rv with
              | none =>
                cases h3 : env.vars "_t2" with
                | none => simp [h3] at hE
                | some v3 =>
                  simp [h3] at hE; subst hE
                  simp only [List.all_cons, List.all_append, Bool.and_eq_true] at hok
                  obtain ⟨ls', -, -, h⟩ := key (by simp_all)
                  rcases h with ⟨h, -⟩ | ⟨_, h, -, -⟩ <;> simp at h
              | some rv =>
                simp at hE; subst hE
                simp only [List.all_cons, Bool.and_eq_true] at hok
                obtain ⟨ls', hw, hfr, h⟩ := key (by simp_all)
                rcases h with ⟨h, -⟩ | ⟨x, h, hnd, hl⟩
                · simp at h
                · simp only [Ctl.ret.injEq, Option.some.injEq] at h
                  subst h; subst hl
                  obtain ⟨u', rfl⟩ := isNode_ptr hnd
                  refine ⟨_, ?_, hf.trans hfr, .inr (.inr ⟨u', rfl, rfl⟩)⟩
                  simp [wlr_cons, absEvW, wstep, tmpTail, tmpHead, HV, hw, siteFirst]
            | blocked =>
              simp at hE; subst hE
              simp only [List.all_cons, Bool.and_eq_true] at hok
              obtain ⟨ls', hw, hfr, h⟩ := key (by simp_all)
              rcases h with ⟨-, hl⟩ | ⟨_, h, -, -⟩
              · subst hl
                refine ⟨_, ?_, hf.trans hfr, .inl ⟨.inl rfl, .inr (.inr rfl)⟩⟩
                simp [wlr_cons, absEvW, wstep, tmpTail, tmpHead, HV, hw]
              · simp at h
            | fuel =>
              simp at hE; subst hE
              simp only [List.all_cons, Bool.and_eq_true] at hok
              obtain ⟨ls', hw, hfr, h⟩ := key (by simp_all)
              rcases h with ⟨-, hl⟩ | ⟨_, h, -, -⟩
              · subst hl
                refine ⟨_, ?_, hf.trans hfr, .inl ⟨.inr rfl, .inr (.inr rfl)⟩⟩
                simp [wlr_cons, absEvW, wstep, tmpTail, tmpHead, HV, hw]
              · simp at h
    · wexec_at hE [Gen.Src.«___cds_wfcq_first», Gen.Src.«_cds_wfcq_empty», hn, ht, hb, HV]
      generalize hS : exec fuel Gen.Src.«___cds_wfcq_node_sync_next» _ _ = r at hE
      cases r with
      | error e => simp at hE
      | ok oS =>
        rcases oS with ⟨ev, en, ip, ctl⟩
        have key : ev.all (evOkW L) = true →
            ∃ ls', wlr L ⟨.firstS, cnt, rt⟩ ev = some ls' ∧
              SyncPost tmpHead siteFirst env.priv ⟨.firstS, cnt, rt⟩ ctl en ls' := fun hk =>
          sync_next_triple L fuel tmpHead hne siteFirst env.priv ⟨.firstS, cnt, rt⟩ rfl _ _ _ _
            (by exact ⟨by simp [tmpHead], by simp, Frame.refl _, rfl⟩) hS hk
        cases ctl with
        | normal =>
          cases h3 : env.vars "_t2" with
          | none => simp [h3] at hE
          | some v3 =>
            simp [h3] at hE; subst hE
            simp only [List.all_cons, List.all_append, Bool.and_eq_true] at hok
            obtain ⟨ls', -, -, h⟩ := key (by simp_all)
            rcases h with ⟨h, -⟩ | ⟨_, h, -, -⟩ <;> simp at h
        | brk => simp at hE
        | cont => simp at hE
        | ret rv =>
          cases rv with
          | none =>
            cases h3 : env.vars "_t2" with
            | none => simp [h3] at hE
            | some v3 =>
              simp [h3] at hE; subst hE
              simp only [List.all_cons, List.all_append, Bool.and_eq_true] at hok
              obtain ⟨ls', -, -, h⟩ := key (by simp_all)
              rcases h with ⟨h, -⟩ | ⟨_, h, -, -⟩ <;> simp at h
          | some rv =>
            simp at hE; subst hE
            simp only [List.all_cons, Bool.and_eq_true] at hok
            obtain ⟨ls', hw, hfr, h⟩ := key (by simp_all)
            rcases h with ⟨h, -⟩ | ⟨x, h, hnd, hl⟩
            · simp at h
            · simp only [Ctl.ret.injEq, Option.some.injEq] at h
              subst h; subst hl
              obtain ⟨u', rfl⟩ := isNode_ptr hnd
              refine ⟨_, ?_, hf.trans hfr, .inr (.inr ⟨u', rfl, rfl⟩)⟩
              simp [wlr_cons, absEvW, wstep, tmpTail, tmpHead, HV, hw, siteFirst]
        | blocked =>
          simp at hE; subst hE
          simp only [List.all_cons, Bool.and_eq_true] at hok
          obtain ⟨ls', hw, hfr, h⟩ := key (by simp_all)
          rcases h with ⟨-, hl⟩ | ⟨_, h, -, -⟩
          · subst hl
            refine ⟨_, ?_, hf.trans hfr, .inl ⟨.inl rfl, .inr (.inr rfl)⟩⟩
            simp [wlr_cons, absEvW, wstep, tmpTail, tmpHead, HV, hw]
          · simp at h
        | fuel =>
          simp at hE; subst hE
          simp only [List.all_cons, Bool.and_eq_true] at hok
          obtain ⟨ls', hw, hfr, h⟩ := key (by simp_all)
          rcases h with ⟨-, hl⟩ | ⟨_, h, -, -⟩
          · subst hl
            refine ⟨_, ?_, hf.trans hfr, .inl ⟨.inr rfl, .inr (.inr rfl)⟩⟩
            simp [wlr_cons, absEvW, wstep, tmpTail, tmpHead, HV, hw]
          · simp at h

/-! ## user hooks, the whole `if (splice_ret != CDS_WFCQ_RET_SRC_EMPTY) { … }` -/

/-- `if (workqueue->h) workqueue->h(workqueue, workqueue->priv);` – silent, no effect on the environment -/
theorem hook_triple (L : Layout) (fuel : Nat) (h name : String) (hs : ∀ args r, absEvW L (.ext name args r) = none)
    (env0 : Env) (ls0 : WLState) (hw : env0.vars "workqueue" = some (.ptr L.W)) :
    Triple L fuel (.ifte (.pload (.fieldAddr (.var "workqueue") h))
        (.prim none (.ext name) [.pload (.fieldAddr (.var "workqueue") h), .var "workqueue",
          .pload (.fieldAddr (.var "workqueue") "priv")]) .skip)
      (fun e l => e = env0 ∧ l = ls0) (fun c e l => (c = .normal ∨ c = .blocked) ∧ e = env0 ∧ l = ls0) := by
  intro env inp ls o ⟨he, hl⟩ hE hok
  subst he; subst hl
  cases hp : env.priv (.field L.W h) with
  | none => wexec_at hE [hw, hp]
  | some hv =>
    by_cases ht : hv.truthy = true
    · cases hp2 : env.priv (.field L.W "priv") with
      | none => wexec_at hE [hw, hp, ht, hp2]
      | some pv =>
        cases inp with
        | nil =>
          wexec_at hE [hw, hp, ht, hp2]
          subst hE
          exact ⟨ls, wlr_nil L ls, .inr rfl, rfl, rfl⟩
        | cons r rest =>
          wexec_at hE [hw, hp, ht, hp2]
          subst hE
          exact ⟨ls, by simp [wlr_cons, wlr_nil, hs], .inl rfl, rfl, rfl⟩
    · wexec_at hE [hw, hp, ht]
      subst hE
      exact ⟨ls, wlr_nil L ls, .inl rfl, rfl, rfl⟩

theorem first_blocking_triple (L : Layout) (fuel : Nat) (priv0 : Loc → Option Val) (ls0 : WLState) (hpc : ls0.pc = .first0) :
    Triple L fuel Gen.Src.«___cds_wfcq_first_blocking»
      (fun e l => e.vars "head" = some (.ptr tmpHead) ∧ e.vars "tail" = some (.ptr tmpTail) ∧ Frame priv0 e.priv ∧ l = ls0)
      (FirstPost priv0 ls0) := by
  intro env inp ls o ⟨hh, ht, hf, hl⟩ hE hok
  subst hl
  wexec_at hE [Gen.Src.«___cds_wfcq_first_blocking», hh, ht]
  generalize hS : exec fuel Gen.Src.«___cds_wfcq_first» _ _ = r at hE
  cases r with
  | error e => simp at hE
  | ok oS =>
    rcases oS with ⟨ev, en, ip, ctl⟩
    have key : ev.all (evOkW L) = true → ∃ ls', wlr L ls ev = some ls' ∧ FirstPost env.priv ls ctl en ls' := fun hk =>
      first_triple L fuel env.priv ls hpc _ _ _ _ (by exact ⟨by simp, by simp, by simp, Frame.refl _, rfl⟩) hS hk
    have lift : ∀ c e l, FirstPost env.priv ls c e l → FirstPost priv0 ls c e l := fun c e l h => ⟨hf.trans h.1, h.2⟩
    cases ctl with
    | normal =>
      cases h3 : env.vars "_t1" with
      | none => simp [h3] at hE
      | some v3 =>
        simp [h3] at hE; subst hE
        obtain ⟨ls', -, -, h⟩ := key (by simpa using hok)
        rcases h with ⟨h, -⟩ | ⟨h, -⟩ | ⟨_, h, -⟩ <;> simp at h
    | brk => simp at hE
    | cont => simp at hE
    | ret rv =>
      cases rv with
      | none =>
        cases h3 : env.vars "_t1" with
        | none => simp [h3] at hE
        | some v3 =>
          simp [h3] at hE; subst hE
          obtain ⟨ls', -, -, h⟩ := key (by simpa using hok)
          rcases h with ⟨h, -⟩ | ⟨h, -⟩ | ⟨_, h, -⟩ <;> simp at h
      | some v =>
        simp at hE; subst hE
        obtain ⟨ls', h1, h2⟩ := key (by simpa using hok)
        exact ⟨ls', by simpa using h1, lift _ _ _ h2⟩
    | blocked =>
      simp at hE; subst hE
      obtain ⟨ls', h1, h2⟩ := key (by simpa using hok)
      exact ⟨ls', h1, lift _ _ _ h2⟩
    | fuel =>
      simp at hE; subst hE
      obtain ⟨ls', h1, h2⟩ := key (by simpa using hok)
      exact ⟨ls', h1, lift _ _ _ h2⟩

def CfPre (L : Layout) (rtv : Val) (priv0 : Loc → Option Val) (ls0 : WLState) (e : Env) (l : WLState) : Prop :=
  e.vars "workqueue" = some (.ptr L.W) ∧ e.vars "rt" = some rtv ∧ e.vars "cbcount" = some (.int 0) ∧
    Frame priv0 e.priv ∧ l = ls0

def CfPost (L : Layout) (rtv : Val) (priv0 : Loc → Option Val) (rt : Bool) (c : Ctl) (e : Env) (l : WLState) : Prop :=
  Frame priv0 e.priv ∧
    ((c = .normal ∧ e.vars "workqueue" = some (.ptr L.W) ∧ e.vars "rt" = some rtv ∧ e.vars "cbcount" = some (.int 0) ∧
        ((e.vars "_t11" = some (.int 0) ∧ l = ⟨.at .sub, 0, rt⟩) ∨
         ∃ u, e.vars "_t11" = some (.ptr (.field u "next")) ∧ l = ⟨.fetch0 (.field u "next"), 0, rt⟩)) ∨
     ((c = .blocked ∨ c = .fuel) ∧ ∃ p, l = ⟨p, 0, rt⟩ ∧ p.abs = .inv))

theorem cf_triple (L : Layout) (fuel : Nat) (rtv : Val) (priv0 : Loc → Option Val) (rt : Bool) :
    Triple L fuel (.call (some "_t11") ["head", "tail"] [.addrGlob "&cbs_tmp_head", .addrGlob "&cbs_tmp_tail"]
        Gen.Src.«___cds_wfcq_first_blocking»)
      (CfPre L rtv priv0 ⟨.first0, 0, rt⟩) (CfPost L rtv priv0 rt) := by
  intro env inp ls o ⟨hw, hr, hc, hf, hl⟩ hE hok
  subst hl
  obtain ⟨ls', h1, h2⟩ := call_spec L (env0 := env) (ls0 := ⟨.first0, 0, rt⟩)
    (vs := [.ptr tmpHead, .ptr tmpTail]) (PostB := FirstPost env.priv ⟨.first0, 0, rt⟩) (by simp [evalArgs, eval, tmpHead, tmpTail, bind, Except.bind])
    rfl
    ((first_blocking_triple L fuel env.priv ⟨.first0, 0, rt⟩ rfl).conseq
      (fun e l h => by obtain ⟨rfl, rfl⟩ := h; exact ⟨by simp [bindParams], by simp [bindParams], Frame.refl _, rfl⟩)
      (fun _ _ _ h => h)) hE hok
  refine ⟨ls', h1, ?_⟩
  rcases h2 with ⟨hc1, e, he, hoe⟩ | ⟨hc1, e, v, he, hoe⟩ | ⟨hc1, he⟩
  · rcases he with ⟨-, h⟩ | ⟨-, h⟩ <;> (rcases h with ⟨h, -⟩ | ⟨h, -⟩ | ⟨_, h, -⟩ <;> simp at h)
  · obtain ⟨hfr, h⟩ := he
    rw [hoe, hc1]
    refine ⟨hf.trans (by simpa [setDst, Env.setVar] using hfr), .inl ⟨rfl, by simp [setDst, Env.setVar, hw],
      by simp [setDst, Env.setVar, hr], by simp [setDst, Env.setVar, hc], ?_⟩⟩
    rcases h with ⟨h, -⟩ | ⟨h, hl⟩ | ⟨u, h, hl⟩
    · simp at h
    · simp only [Ctl.ret.injEq, Option.some.injEq] at h
      subst h; subst hl
      exact .inl ⟨by simp [setDst, Env.setVar], rfl⟩
    · simp only [Ctl.ret.injEq, Option.some.injEq] at h
      subst h; subst hl
      exact .inr ⟨u, by simp [setDst, Env.setVar], rfl⟩
  · obtain ⟨hfr, h⟩ := he
    refine ⟨hf.trans hfr, .inr ⟨hc1, ls'.pc, ?_⟩⟩
    rcases h with ⟨-, h⟩ | ⟨h, -⟩ | ⟨_, h, -⟩
    · rcases h with rfl | rfl | rfl <;> simp [WLPc.abs]
    · rcases hc1 with h' | h' <;> rw [h'] at h <;> simp at h
    · rcases hc1 with h' | h' <;> rw [h'] at h <;> simp at h

/-- **statement 7 of the loop body, `if (splice_ret != CDS_WFCQ_RET_SRC_EMPTY) { grace_period hook; cbcount = 0; traversal;
uatomic_sub }`**, every oracle, whatever the hook: after an empty splice (`splice_ret == 2`, L2 at `stopchk`) nothing happens;
after a non-empty one (L2's `inv`, local `first0` with `cbcount` reset) the batch is run as `foreach2_triple` says -/
theorem batch_triple (L : Layout) (fuel : Nat) (rtv : Val) (rt : Bool) (env0 : Env) (sr : Int)
    (hw : env0.vars "workqueue" = some (.ptr L.W)) (hr : env0.vars "rt" = some rtv)
    (hsr : env0.vars "splice_ret" = some (.int sr)) :
    Triple L fuel wBatch
      (fun e l => e = env0 ∧ ((sr = 2 ∧ ∃ cnt0, l = ⟨.at .stopchk, cnt0, rt⟩) ∨ (sr ≠ 2 ∧ l = ⟨.first0, 0, rt⟩)))
      (BatchPost L rtv env0.priv rt) := by
  intro env inp ls o ⟨he, hl⟩ hE hok
  subst he
  rw [show wBatch = Stmt.ifte (.bin .ne (.var "splice_ret") (.cst "CDS_WFCQ_RET_SRC_EMPTY" 2)) (thenOf wBatch) .skip from rfl,
    exec_ifte] at hE
  rcases hl with ⟨rfl, cnt0, rfl⟩ | ⟨hne, rfl⟩
  · simp [eval, hsr, evalBin_ne, boolV, truthy_int, bind, Except.bind, exec_skip] at hE
    subst hE
    exact ⟨_, wlr_nil L _, Frame.refl _, .inl ⟨rfl, hw, hr, cnt0, rfl⟩⟩
  · have hne' : ¬ (Val.int sr = Val.int 2) := fun h => hne (by injection h)
    simp [eval, hsr, evalBin_ne, boolV, truthy_int, bind, Except.bind, hne'] at hE
    have T : Triple L fuel (thenOf wBatch) (fun e l => e = env ∧ l = ⟨.first0, 0, rt⟩) (BatchPost L rtv env.priv rt) := by
      rw [show thenOf wBatch = Stmt.seq (.ifte (.pload (.fieldAddr (.var "workqueue") "grace_period_fct"))
          (.prim none (.ext "(*grace_period_fct)") [.pload (.fieldAddr (.var "workqueue") "grace_period_fct"), .var "workqueue",
            .pload (.fieldAddr (.var "workqueue") "priv")]) .skip)
        (.seq (.assign "cbcount" (.lit 0)) (.seq (.call (some "_t11") ["head", "tail"]
          [.addrGlob "&cbs_tmp_head", .addrGlob "&cbs_tmp_tail"] Gen.Src.«___cds_wfcq_first_blocking»)
          (.seq (.assign "_t9" (.var "_t11")) wForEach))) from rfl]
      refine Triple.seq' (Mid := fun e l => e = env ∧ l = ⟨.first0, 0, rt⟩)
        (hook_triple L fuel _ _ (by intro a r; simp [absEvW, hookNames]) env ⟨.first0, 0, rt⟩ hw) ?_
        (fun _ _ h => h.2) ?_
      · refine Triple.seq' (Mid := CfPre L rtv env.priv ⟨.first0, 0, rt⟩)
          (PostA := fun c e l => c = .normal ∧ CfPre L rtv env.priv ⟨.first0, 0, rt⟩ e l) ?_ ?_
          (fun _ _ h => h.2) (fun c _ _ hc h => absurd h.1 hc)
        · refine Triple.of_det ?_
          intro e i l ⟨he, hl⟩
          subst he; subst hl
          wexec [CfPre, hw, hr, Frame]
        refine Triple.seq' (Mid := fun e l => CfPost L rtv env.priv rt .normal e l) (cf_triple L fuel rtv env.priv rt) ?_
          (fun _ _ h => h) ?_
        · refine Triple.seq' (Mid := FeInv2 L rtv env.priv rt)
            (PostA := fun c e l => c = .normal ∧ FeInv2 L rtv env.priv rt e l) ?_ (foreach2_triple L fuel rtv env.priv rt)
            (fun _ _ h => h.2) (fun c _ _ hc h => absurd h.1 hc)
          refine Triple.of_det ?_
          intro e i l ⟨hf, h⟩
          rcases h with ⟨-, hw', hr', hc', hcase⟩ | ⟨h, -⟩
          · rcases hcase with ⟨h11, rfl⟩ | ⟨u, h11, rfl⟩
            · wexec [FeInv2, hw', hr', hc', h11, hf]
            · wexec [FeInv2, hw', hr', hc', h11, hf]
          · rcases h with h | h <;> simp at h
        · intro c e l hc h
          obtain ⟨hf, h⟩ := h
          rcases h with ⟨rfl, -⟩ | ⟨hcc, p, hl, hp⟩
          · exact absurd rfl hc
          · exact ⟨hf, .inr ⟨hcc, 0, p, hl, .inl hp⟩⟩
      · intro c e l hc h
        rcases h with ⟨h | h, rfl, rfl⟩
        · exact absurd h hc
        · exact ⟨Frame.refl _, .inr ⟨.inl h, 0, _, rfl, .inl rfl⟩⟩
    exact T env inp _ o ⟨rfl, rfl⟩ hE hok

end UrcuVerif.Src.WqR
