import UrcuVerif.Src.DeferExec
import UrcuVerif.Src.PollLocal
/-!
# Poll API (C14): the GENERATED `start_poll_synchronize_rcu`, `poll_state_synchronize_rcu`, `urcu_poll_worker_cb`
# refine `Poll/Model.lean`

All accesses to `poll_worker_gp_state` are plain (under `poll_worker_gp_state.lock`): they act on the private view.  The
events of a run are the external calls only: `mutex_lock(&lock)`, possibly `call_rcu(&rcu_head, urcu_poll_worker_cb)`,
`mutex_unlock(&lock)`, each consuming one oracle value (`extSeq`); a run whose oracle ends early is blocked at that call
(the prefixes).  Between the lock and the unlock event the private words `(cur, latest, active)` move exactly as the
model's `step` (`PollL.lstep`, and `PollL.proj_step` for the real `Poll.step`), with the same output: returned handle /
boolean, `call_rcu` emitted iff the model says the worker is (re)queued.

Integers are exact in the IR: `(long)(a - b) >= 0` is `a - b ≥ 0` on `Int`, the model compares `Nat`s – no wrap-around on
either side (the 2^64 wrap of `grace_period_id` is outside both; C14's model documents the same abstraction).
A struct passed / returned by value is its address: `target_gp_state` is a pointer to a record whose field
`grace_period_id` is read from the private view; `start_poll` returns `&new_target_gp_state` whose field holds the id.
-/
set_option maxRecDepth 8192
set_option linter.unusedSimpArgs false
set_option linter.unusedVariables false
namespace UrcuVerif.Src.PollR
open UrcuVerif UrcuVerif.Src UrcuVerif.Src.DeferR UrcuVerif.Poll UrcuVerif.Src.PollL

/-- `&poll_worker_gp_state` -/
def pw : Loc := .glob "poll_worker_gp_state"
def curL : Loc := .field (.field pw "current_state") "grace_period_id"
def latL : Loc := .field (.field pw "latest_target") "grace_period_id"
def actL : Loc := .field pw "active"
/-- the local `new_target_gp_state` of `start_poll_synchronize_rcu` (returned by value = by address) -/
def newObj : Loc := .glob "&new_target_gp_state"
def newL : Loc := .field newObj "grace_period_id"
def lockArgs : List Val := [.ptr (.field pw "lock")]
def callArgs : List Val := [.ptr (.field pw "rcu_head"), .ptr (.glob "urcu_poll_worker_cb")]

/-- the private view of the lock holder is the model's three words -/
def RelP (priv : Loc → Option Val) (ls : LP) : Prop :=
  priv curL = some (.int (ls.cur : Int)) ∧ priv latL = some (.int (ls.latest : Int)) ∧ priv actL = some (boolV ls.active)

/-- a sequence of external calls against the oracle: events, remaining oracle, completed? -/
def extSeq : List (String × List Val) → List Val → List Event × List Val × Bool
  | [], inp => ([], inp, true)
  | _ :: _, [] => ([], [], false)
  | (n, a) :: r, v :: inp => (.ext n a v :: (extSeq r inp).1, (extSeq r inp).2.1, (extSeq r inp).2.2)

/-- the external calls of one operation: lock, `call_rcu` iff the worker is (re)queued, unlock -/
def apiCalls (queued : Bool) : List (String × List Val) :=
  ("mutex_lock", lockArgs) :: ((if queued then [("call_rcu", callArgs)] else []) ++ [("mutex_unlock", lockArgs)])

macro "poll_simp" "[" ts:Lean.Parser.Tactic.simpLemma,* "]" : tactic =>
  `(tactic| exec_simp [evalUn, Val.truthy, boolV, extSeq, apiCalls, lockArgs, callArgs, pw, curL, latL, actL, newL, newObj, $ts,*])

/-! ## `start_poll_synchronize_rcu` -/

theorem start_poll_exec (fuel : Nat) (env : Env) (ls : LP) (inp : List Val) (hr : RelP env.priv ls) :
    ∃ out, exec fuel Gen.Src.«poll.start_poll_synchronize_rcu» env inp = .ok out ∧
      out.events = (extSeq (apiCalls (!ls.active)) inp).1 ∧ out.inp = (extSeq (apiCalls (!ls.active)) inp).2.1 ∧
      ((extSeq (apiCalls (!ls.active)) inp).2.2 = false → out.ctl = .blocked) ∧
      ((extSeq (apiCalls (!ls.active)) inp).2.2 = true →
        out.ctl = .ret (some (.ptr newObj)) ∧
        RelP out.env.priv ⟨ls.cur, if ls.active then ls.cur + 1 else ls.cur, true⟩ ∧
        out.env.priv newL = some (.int ((if ls.active then ls.cur + 1 else ls.cur : Nat) : Int)) ∧
        ∀ l, l ≠ latL → l ≠ actL → l ≠ newL → out.env.priv l = env.priv l) := by
  obtain ⟨h1, h2, h3⟩ := hr
  simp only [curL, latL, actL, pw] at h1 h2 h3
  obtain ⟨c, lt, a⟩ := ls
  cases a
  · -- inactive: the worker is queued
    simp only [boolV] at h3
    match inp with
    | [] => poll_simp [Gen.Src.«poll.start_poll_synchronize_rcu», RelP, h1, h2, h3]
    | [l] => poll_simp [Gen.Src.«poll.start_poll_synchronize_rcu», RelP, h1, h2, h3]
    | [l, q] => poll_simp [Gen.Src.«poll.start_poll_synchronize_rcu», RelP, h1, h2, h3]
    | l :: q :: u :: rest =>
      poll_simp [Gen.Src.«poll.start_poll_synchronize_rcu», RelP, h1, h2, h3]
      intro l a b c; simp [a, b, c]
  · -- active: one more grace period, no call_rcu
    simp only [boolV] at h3
    match inp with
    | [] => poll_simp [Gen.Src.«poll.start_poll_synchronize_rcu», RelP, h1, h2, h3]
    | [l] => poll_simp [Gen.Src.«poll.start_poll_synchronize_rcu», RelP, h1, h2, h3]
    | l :: u :: rest =>
      poll_simp [Gen.Src.«poll.start_poll_synchronize_rcu», RelP, h1, h2, h3]
      intro l a b c; simp [a, b, c]

/-! ## `poll_state_synchronize_rcu` -/

theorem poll_state_exec (fuel : Nat) (env : Env) (ls : LP) (tl : Loc) (g : Nat) (inp : List Val)
    (hr : RelP env.priv ls) (ht : env.vars "target_gp_state" = some (.ptr tl))
    (hg : env.priv (.field tl "grace_period_id") = some (.int (g : Int))) :
    ∃ out, exec fuel Gen.Src.«poll.poll_state_synchronize_rcu» env inp = .ok out ∧
      out.events = (extSeq (apiCalls false) inp).1 ∧ out.inp = (extSeq (apiCalls false) inp).2.1 ∧
      out.env.priv = env.priv ∧
      ((extSeq (apiCalls false) inp).2.2 = false → out.ctl = .blocked) ∧
      ((extSeq (apiCalls false) inp).2.2 = true → out.ctl = .ret (some (boolV (decide (g < ls.cur))))) := by
  obtain ⟨h1, h2, h3⟩ := hr
  simp only [curL, latL, actL, pw] at h1 h2 h3
  by_cases hlt : g < ls.cur
  · have hlt' : (g : Int) - (ls.cur : Int) < 0 := by omega
    match inp with
    | [] => poll_simp [Gen.Src.«poll.poll_state_synchronize_rcu», h1, ht, hg, hlt, hlt']
    | [l] => poll_simp [Gen.Src.«poll.poll_state_synchronize_rcu», h1, ht, hg, hlt, hlt']
    | l :: u :: rest => poll_simp [Gen.Src.«poll.poll_state_synchronize_rcu», h1, ht, hg, hlt, hlt']
  · have hlt' : ¬ ((g : Int) - (ls.cur : Int) < 0) := by omega
    match inp with
    | [] => poll_simp [Gen.Src.«poll.poll_state_synchronize_rcu», h1, ht, hg, hlt, hlt']
    | [l] => poll_simp [Gen.Src.«poll.poll_state_synchronize_rcu», h1, ht, hg, hlt, hlt']
    | l :: u :: rest => poll_simp [Gen.Src.«poll.poll_state_synchronize_rcu», h1, ht, hg, hlt, hlt']

/-! ## `urcu_poll_worker_cb` -/

theorem worker_cb_exec (fuel : Nat) (env : Env) (ls : LP) (inp : List Val) (hr : RelP env.priv ls) :
    ∃ out, exec fuel Gen.Src.«poll.urcu_poll_worker_cb» env inp = .ok out ∧
      out.events = (extSeq (apiCalls (decide (ls.cur + 1 ≤ ls.latest))) inp).1 ∧
      out.inp = (extSeq (apiCalls (decide (ls.cur + 1 ≤ ls.latest))) inp).2.1 ∧
      ((extSeq (apiCalls (decide (ls.cur + 1 ≤ ls.latest))) inp).2.2 = false → out.ctl = .blocked) ∧
      ((extSeq (apiCalls (decide (ls.cur + 1 ≤ ls.latest))) inp).2.2 = true →
        out.ctl = .normal ∧
        RelP out.env.priv ⟨ls.cur + 1, ls.latest, if ls.cur + 1 ≤ ls.latest then ls.active else false⟩ ∧
        ∀ l, l ≠ curL → l ≠ actL → out.env.priv l = env.priv l) := by
  obtain ⟨h1, h2, h3⟩ := hr
  simp only [curL, latL, actL, pw] at h1 h2 h3
  by_cases hc : ls.cur + 1 ≤ ls.latest
  · have hc' : (ls.cur : Int) + 1 ≤ (ls.latest : Int) := by omega
    match inp with
    | [] => poll_simp [Gen.Src.«poll.urcu_poll_worker_cb», RelP, h1, h2, h3, hc, hc']
    | [l] => poll_simp [Gen.Src.«poll.urcu_poll_worker_cb», RelP, h1, h2, h3, hc, hc']
    | [l, q] => poll_simp [Gen.Src.«poll.urcu_poll_worker_cb», RelP, h1, h2, h3, hc, hc']
    | l :: q :: u :: rest =>
      poll_simp [Gen.Src.«poll.urcu_poll_worker_cb», RelP, h1, h2, h3, hc, hc']
      intro l a b c; exact absurd c a
  · have hc' : ¬ ((ls.cur : Int) + 1 ≤ (ls.latest : Int)) := by omega
    match inp with
    | [] => poll_simp [Gen.Src.«poll.urcu_poll_worker_cb», RelP, h1, h2, h3, hc, hc']
    | [l] => poll_simp [Gen.Src.«poll.urcu_poll_worker_cb», RelP, h1, h2, h3, hc, hc']
    | l :: u :: rest =>
      poll_simp [Gen.Src.«poll.urcu_poll_worker_cb», RelP, h1, h2, h3, hc, hc']
      intro l a b; simp [a, b]

/-! ## against the real `Poll.step` -/

theorem extSeq_lock_first (q : Bool) (inp : List Val) :
    ∀ e ∈ ((extSeq (apiCalls q) inp).1).head?, ∃ v, e = .ext "mutex_lock" lockArgs v := by
  cases inp <;> simp [extSeq, apiCalls]

/-- a completed run of an operation: lock, (`call_rcu` iff queued), unlock -/
theorem extSeq_done (q : Bool) (inp : List Val) (h : (extSeq (apiCalls q) inp).2.2 = true) :
    (q = true ∧ ∃ l c u rest, inp = l :: c :: u :: rest ∧ (extSeq (apiCalls q) inp).1 =
        [.ext "mutex_lock" lockArgs l, .ext "call_rcu" callArgs c, .ext "mutex_unlock" lockArgs u] ∧
        (extSeq (apiCalls q) inp).2.1 = rest) ∨
    (q = false ∧ ∃ l u rest, inp = l :: u :: rest ∧ (extSeq (apiCalls q) inp).1 =
        [.ext "mutex_lock" lockArgs l, .ext "mutex_unlock" lockArgs u] ∧ (extSeq (apiCalls q) inp).2.1 = rest) := by
  cases q
  · right
    match inp, h with
    | [], h => simp [extSeq, apiCalls] at h
    | [l], h => simp [extSeq, apiCalls] at h
    | l :: u :: rest, _ => exact ⟨rfl, l, u, rest, rfl, by simp [extSeq, apiCalls], by simp [extSeq, apiCalls]⟩
  · left
    match inp, h with
    | [], h => simp [extSeq, apiCalls] at h
    | [l], h => simp [extSeq, apiCalls] at h
    | [l, c], h => simp [extSeq, apiCalls] at h
    | l :: c :: u :: rest, _ => exact ⟨rfl, l, c, u, rest, rfl, by simp [extSeq, apiCalls], by simp [extSeq, apiCalls]⟩

end UrcuVerif.Src.PollR
