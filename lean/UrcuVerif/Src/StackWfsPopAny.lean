import UrcuVerif.Src.StackWfsPop
/-!
# `___cds_wfs_pop` ⊑ local projection of `Wfs`, **for every oracle whatsoever**

`Src/StackWfsPop.lean` assumes every oracle value well-typed – also the (discarded) result of `poll()` in the adaptive
busy-wait, so a run where `poll()` returns `-1` (EINTR) was not covered.  Here nothing is assumed of the oracle:

    exec fuel «___cds_wfs_pop» env inp = .ok out →  (∀ e ∈ out.events, ObsWT e) →  ∃ ls', lr … out.events = some ls' ∧ …

`ObsWT e`: the value *observed* by a load / cmpxchg / xchg event is a stack value (NULL, END, node); nothing is asked
of `ext` events – `poll()` may return any value.  (Implication form: a run that fails – the NULL-head dereference,
see `StackWfsPop.lean` – or that observes an ill-typed value is not constrained.)
-/
namespace UrcuVerif.Src.WfsR
open UrcuVerif UrcuVerif.Src WfsL

/-- the value an access observes is a well-typed stack value -/
def ObsWT : Event → Prop
  | .ld _ v _ => (dec v).isSome
  | .xchg _ _ old _ => (dec old).isSome
  | .cas _ _ _ old _ _ => (dec old).isSome
  | _ => True

-- ----------------------------------------------------------------------------------------------------------
-- ___cds_wfs_node_sync_next
-- ----------------------------------------------------------------------------------------------------------
def SyncJ (h : Nat) (bl : Int) (p0 : Loc → Option Val) (e : Env) : Prop :=
  e.vars "node" = some (.ptr (.obj h)) ∧ e.vars "blocking" = some (.int bl) ∧
  (∃ a, e.vars "attempt" = some (.int a)) ∧ e.priv = p0

def SyncRJ (bl : Int) (p0 : Loc → Option Val) (c : Ctl) (e : Env) : Prop :=
  c = .blocked ∨ (e.priv = p0 ∧ ((c = .ret (some (.int (-1))) ∧ bl = 0) ∨ (c = .brk ∧ ∃ w, e.vars "next" = some w)))

def SyncRT (h : Nat) (bl : Int) (ls : LState) (c : Ctl) (e : Env) (l : LState) : Prop :=
  c = .blocked ∨ (c = .ret (some (.int (-1))) ∧ bl = 0 ∧ l = ⟨.idle, .wouldblock⟩) ∨
  (c = .brk ∧ ∃ k, k ≠ 0 ∧ e.vars "next" = some (enc k) ∧ l = ⟨.popCas (bl != 0) h k, ls.ret⟩)

theorem sync_body_any (fuel s h : Nat) (bl : Int) (p0 : Loc → Option Val) (ls : LState)
    (hnode : Wfs.isNode h) (hpc : ls.pc = .popSync (bl != 0) h)
    (body : Stmt) (hb : firstLoop Gen.Src.«___cds_wfs_node_sync_next» = some body)
    (e : Env) (i : List Val) (hJ : SyncJ h bl p0 e) :
    ∀ o, exec fuel body e i = .ok o →
      (if o.ctl.goesOn then SyncJ h bl p0 o.env else SyncRJ bl p0 o.ctl o.env) ∧
      (∀ l, l = ls → (∀ ev ∈ o.events, ObsWT ev) → ∃ ls', lr .pop s l o.events = some ls' ∧
        (if o.ctl.goesOn then ls' = ls else SyncRT h bl ls o.ctl o.env ls')) := by
  simp only [Gen.Src.«___cds_wfs_node_sync_next», block, firstLoop, Option.some.injEq] at hb
  subst hb
  obtain ⟨h1, h2, ⟨a, h3⟩, h4⟩ := hJ
  cases i with
  | nil => sexec; simp [lr, lrun, Ctl.goesOn, SyncRJ, SyncRT]
  | cons v rest =>
    by_cases hv0 : v = .int 0
    · subst hv0
      by_cases hbl : bl = 0
      · subst hbl
        sexec
        simp [lr, lrun, lstep, absEv, Ctl.goesOn, SyncRJ, SyncRT, hpc, hnode,
          show dec (.int 0) = some 0 from rfl]
      · by_cases ha : a + 1 ≥ 10
        · cases rest with
          | nil =>
            sexec
            simp [lr, lrun, lstep, absEv, Ctl.goesOn, SyncRJ, SyncRT, hpc, hnode, hbl,
              show dec (.int 0) = some 0 from rfl]
          | cons w rest =>
            sexec
            simp [lr, lrun, lstep, absEv, Ctl.goesOn, SyncJ, hpc, hnode, hbl, h1, h2,
              show dec (.int 0) = some 0 from rfl]
        · sexec
          simp [lr, lrun, lstep, absEv, Ctl.goesOn, SyncJ, hpc, hnode, hbl, h1, h2,
            show dec (.int 0) = some 0 from rfl]
    · sexec
      simp only [Ctl.goesOn, SyncRJ, SyncRT, reduceCtorEq, Bool.false_eq_true, if_false, false_or, false_and,
        true_and, ObsWT]
      refine ⟨by simp, ?_⟩
      intro hw
      obtain ⟨k, hk⟩ := Option.isSome_iff_exists.mp hw
      have hv := enc_dec hk; subst hv
      have hk0 : k ≠ 0 := fun e => hv0 (by subst e; rfl)
      simp [lr, lrun, lstep, absEv, hpc, hnode, hk0]
      exact Nat.pos_of_ne_zero hk0

/-- `___cds_wfs_node_sync_next` for every oracle: unconditional facts about how it ends, and – if the observed values
are well-typed – the L2 reading of its events -/
theorem sync_next_any (fuel : Nat) (env : Env) (inp : List Val) (s h : Nat) (bl : Int) (ls : LState)
    (hn : env.vars "node" = some (.ptr (.obj h))) (hbv : env.vars "blocking" = some (.int bl))
    (hnode : Wfs.isNode h) (hpc : ls.pc = .popSync (bl != 0) h)
    (o : Out) (ho : exec fuel Gen.Src.«___cds_wfs_node_sync_next» env inp = .ok o) :
    (o.ctl = .fuel ∨ o.ctl = .blocked ∨ (o.env.priv = env.priv ∧
        ((o.ctl = .ret (some (.int (-1))) ∧ bl = 0) ∨ ∃ w, o.ctl = .ret (some w)))) ∧
    ((∀ ev ∈ o.events, ObsWT ev) → ∃ ls', lr .pop s ls o.events = some ls' ∧
      (o.ctl = .fuel ∨ o.ctl = .blocked ∨
       (o.ctl = .ret (some (.int (-1))) ∧ bl = 0 ∧ ls' = ⟨.idle, .wouldblock⟩) ∨
       (∃ k, k ≠ 0 ∧ o.ctl = .ret (some (enc k)) ∧ ls' = ⟨.popCas (bl != 0) h k, ls.ret⟩))) := by
  revert o
  sexec [Gen.Src.«___cds_wfs_node_sync_next»]
  generalize hE : iterate _ _ _ _ _ = r
  cases r with
  | error err => simp
  | ok o1 =>
    obtain ⟨evs, hev, hs, ht⟩ := iterate_inv_wt (lr .pop s) ObsWT (lr_nil _ _) (lr_append _ _) _
      (SyncJ h bl env.priv) (SyncRJ bl env.priv) (fun _ l => l = ls) (SyncRT h bl ls)
      (fun e i o hJ hb => sync_body_any fuel s h bl env.priv ls hnode hpc _
        (by simp [Gen.Src.«___cds_wfs_node_sync_next», block, firstLoop]) e i hJ o hb)
      fuel _ _ [] o1 (by sexec [SyncJ]) hE
    simp only [List.nil_append] at hev
    have ht' := ht ls rfl
    rcases hs with hf | ⟨c, -, rfl | ⟨hp, ⟨rfl, hb0⟩ | ⟨rfl, w, hw⟩⟩, hc⟩
    · sexec
      intro hW
      obtain ⟨ls', hl, -⟩ := ht' hW
      exact ⟨ls', hl⟩
    · simp only [Ctl.afterLoop] at hc
      sexec
      intro hW
      obtain ⟨ls', hl, -⟩ := ht' hW
      exact ⟨ls', hl⟩
    · simp only [Ctl.afterLoop] at hc
      sexec
      intro hW
      obtain ⟨ls', hl, hfin⟩ := ht' hW
      refine ⟨ls', hl, ?_⟩
      rcases hfin with hf | ⟨c, -, hR, hc'⟩
      · rw [hc] at hf; cases hf
      · rcases hR with rfl | ⟨rfl, -, rfl⟩ | ⟨rfl, _⟩ <;> simp only [Ctl.afterLoop] at hc' <;> rw [hc] at hc' <;>
          first | exact .inl rfl | exact .inl ⟨hb0, rfl⟩ | cases hc'
    · simp only [Ctl.afterLoop] at hc
      sexec
      intro hW
      obtain ⟨ls', hl, hfin⟩ := ht' hW
      refine ⟨ls', hl, ?_⟩
      rcases hfin with hf | ⟨c, -, hR, hc'⟩
      · rw [hc] at hf; cases hf
      · rcases hR with rfl | ⟨rfl, -, rfl⟩ | ⟨rfl, k, hk0, hk, rfl⟩ <;> simp only [Ctl.afterLoop] at hc' <;>
          rw [hc] at hc' <;> try cases hc'
        rw [hw] at hk; cases hk
        obtain ⟨n, rfl⟩ := Nat.exists_eq_succ_of_ne_zero hk0
        exact .inr ⟨n, rfl, rfl⟩

-- ----------------------------------------------------------------------------------------------------------
-- ___cds_wfs_pop
-- ----------------------------------------------------------------------------------------------------------
/-- all observed values of an event list are well-typed -/
def WTs (evs : List Event) : Prop := ∀ e ∈ evs, ObsWT e

@[simp] theorem WTs_nil : WTs [] := by simp [WTs]
@[simp] theorem WTs_cons (e evs) : WTs (e :: evs) ↔ ObsWT e ∧ WTs evs := by simp [WTs]
@[simp] theorem WTs_append (a b) : WTs (a ++ b) ↔ WTs a ∧ WTs b := by
  simp only [WTs, List.mem_append]
  exact ⟨fun h => ⟨fun e he => h e (.inl he), fun e he => h e (.inr he)⟩, fun h e he => he.elim (h.1 e) (h.2 e)⟩
theorem wouldblock_ne_enc (a : Nat) : Val.int (-1) ≠ enc a := fun h => enc_ne_wouldblock a h.symm
@[simp] theorem ObsWT_ld (l v mo) : ObsWT (.ld l v mo) = (dec v).isSome := rfl
@[simp] theorem ObsWT_cas (l e n old a b) : ObsWT (.cas l e n old a b) = (dec old).isSome := rfl
@[simp] theorem ObsWT_fence (p) : ObsWT (.fence p) = True := rfl

/-- loop invariant (maintained as long as the observed values are well-typed) -/
def PopIA (s : Nat) (stv : Val) (bl cfg : Int) (e : Env) (l : LState) : Prop :=
  e.vars "s" = some (.ptr (.obj s)) ∧ e.vars "state" = some stv ∧ e.vars "blocking" = some (.int bl) ∧
  e.priv cfgLoc = some (.int cfg) ∧ (∀ st, stv = .ptr st → e.priv st = some (.int 0)) ∧ l.pc = .popLd (bl != 0)

theorem pop_body_any (fuel s : Nat) (stv : Val) (bl cfg : Int)
    (hst : stv = .int 0 ∨ ∃ st, stv = .ptr st ∧ st ≠ cfgLoc)
    (body : Stmt) (hb : firstLoop Gen.Src.«___cds_wfs_pop» = some body)
    (e : Env) (i : List Val) (l : LState) (hI : PopIA s stv bl cfg e l) :
    ∀ o, exec fuel body e i = .ok o → WTs o.events → ∃ ls', lr .pop s l o.events = some ls' ∧
      (if o.ctl.goesOn then PopIA s stv bl cfg o.env ls' else PopR stv o.ctl o.env [] ls') := by
  simp only [Gen.Src.«___cds_wfs_pop», block, firstLoop, Option.some.injEq] at hb
  subst hb
  obtain ⟨h1, h2, h3, h4, h5, h7⟩ := hI
  simp only [cfgLoc] at h4
  cases i with
  | nil => sexec; simp [lr, lrun, Ctl.goesOn, PopR]
  | cons v rest =>
    -- the head value is well-typed: its load is the first event of the body, whatever follows
    cases hd : dec v with
    | none =>
      intro o ho hW
      exfalso
      obtain ⟨o1, ho1, tl, htl⟩ := exec_seq_events _ _ _ _ _ _ ho
      rw [htl] at hW
      revert o1
      sexec
    | some k =>
    have hv := enc_dec hd; subst hv
    clear hd
    by_cases hkE : k = Wfs.END
    · subst hkE
      sexec [Gen.Src.«___cds_wfs_end»]
      simp [lr, lrun, lstep, absEv, Ctl.goesOn, PopR, h7, retV, lastFlag]
      exact h5
    · by_cases hk0 : k = 0
      · subst hk0
        sexec [Gen.Src.«___cds_wfs_end»]
        generalize hE : exec fuel Gen.Src.«___cds_wfs_node_sync_next» _ _ = r
        rcases (by rw [← hE]; exact sync_next_null fuel _ _ (by simp [enc]) :
          (∃ o, r = .ok o ∧ o.ctl = .fuel ∧ o.events = []) ∨ ∃ err, r = .error err) with ⟨o, rfl, hf, hev⟩ | ⟨err, rfl⟩
        · sexec
          simp [lr, lrun, lstep, absEv, Ctl.goesOn, PopR, h7, hkE]
        · sexec
      · have hnode : Wfs.isNode k := ⟨hk0, hkE⟩
        have hek := enc_node hnode
        have hpre : ∀ evs, lr .pop s l (Event.ld ((Loc.obj s).field "head") (.ptr (.obj k)) 1 :: evs) =
            lr .pop s ⟨.popSync (bl != 0) k, l.ret⟩ evs := by
          intro evs; simp [lr, lrun, lstep, absEv, h7, dec_node hnode, hkE]
        sexec [Gen.Src.«___cds_wfs_end»]
        generalize hE : exec fuel Gen.Src.«___cds_wfs_node_sync_next» _ _ = r
        cases r with
        | error err => simp
        | ok o1 =>
          obtain ⟨hs1, ht1⟩ := sync_next_any fuel _ rest s k bl ⟨.popSync (bl != 0) k, l.ret⟩
            (by simp) (by simp) hnode rfl o1 hE
          rcases o1 with ⟨oev, ⟨ovars, opriv⟩, oinp, octl⟩
          simp only at hs1 ht1
          have ht1' : WTs oev → _ := ht1
          clear ht1
          rcases hs1 with rfl | rfl | ⟨rfl, ⟨rfl, hbl⟩ | ⟨w, rfl⟩⟩
          · sexec
            intro _ hW
            obtain ⟨ls1, hl1, -⟩ := ht1' hW
            exact ⟨ls1, hl1, by simp [Ctl.goesOn, PopR]⟩
          · sexec
            intro _ hW
            obtain ⟨ls1, hl1, -⟩ := ht1' hW
            exact ⟨ls1, hl1, by simp [Ctl.goesOn, PopR]⟩
          · subst hbl
            sexec
            intro _ hW
            obtain ⟨ls1, hl1, hc⟩ := ht1' hW
            simp [wouldblock_ne_enc] at hc
            subst hc
            simp only [bne_self_eq_false] at hl1
            exact ⟨_, hl1, by simp [Ctl.goesOn, PopR, retV, lastFlag]; exact h5⟩
          · by_cases hwb : bl = 0 ∧ w = .int (-1)
            · obtain ⟨rfl, rfl⟩ := hwb
              sexec
              intro _ hW
              obtain ⟨ls1, hl1, hc⟩ := ht1' hW
              simp [wouldblock_ne_enc] at hc
              subst hc
              simp only [bne_self_eq_false] at hl1
              exact ⟨_, hl1, by simp [Ctl.goesOn, PopR, retV, lastFlag]; exact h5⟩
            · by_cases hWo : WTs oev
              · -- the values `sync_next` observed are well-typed: `w` is a non-NULL stack value
                obtain ⟨ls1, hl1, hc⟩ := ht1' hWo
                obtain ⟨nx, hnx0, rfl, rfl⟩ : ∃ nx, nx ≠ 0 ∧ w = enc nx ∧
                    ls1 = ⟨.popCas (bl != 0) k nx, l.ret⟩ := by
                  rcases hc with hc | hc | ⟨hc, hb0, -⟩ | ⟨nx, hnx0, hc, rfl⟩
                  · cases hc
                  · cases hc
                  · injection hc with hc; injection hc with hc; exact absurd ⟨hb0, hc⟩ hwb
                  · injection hc with hc; injection hc with hc; exact ⟨nx, hnx0, hc, rfl⟩
                have hcas : ∀ (x : Val) (cur : Nat) (evs : List Event), dec x = some cur →
                  lr .pop s ⟨.popSync (bl != 0) k, l.ret⟩
                    (oev ++ Event.cas ((Loc.obj s).field "head") (.ptr (.obj k)) (enc nx) x 5 5 :: evs) =
                  (lstep ⟨.popCas (bl != 0) k nx, l.ret⟩ (.popCas k nx cur)).bind (fun m => lr .pop s m evs) := by
                  intro x cur evs hx
                  rw [lr_append, hl1]
                  simp [lr, lrun, absEv, headLoc, dec_node hnode, hx]
                  cases lstep ⟨.popCas (bl != 0) k nx, l.ret⟩ (.popCas k nx cur) <;> rfl
                cases oinp with
                | nil => sexec; simp [Ctl.goesOn, PopR]
                | cons x rest3 =>
                  cases hdx : dec x with
                  | none =>
                    have hxne : ¬ x = .ptr (.obj k) := by
                      intro h; subst h; simp [dec_node hnode] at hdx
                    by_cases hbl : bl = 0 <;> sexec
                  | some cur =>
                    have hx := enc_dec hdx; subst hx
                    have hcmp : (enc cur = .ptr (.obj k)) ↔ cur = k := by rw [← hek]; simp
                    by_cases hch : cur = k
                    · subst hch
                      rcases hst with rfl | ⟨st, rfl, hstne⟩
                      · by_cases hnE : nx = Wfs.END
                        · subst hnE
                          by_cases hc : cfg = 0 <;> sexec <;>
                            simp [Ctl.goesOn, PopR, hcas _ cur _ (dec_node hnode), lstep, retV, lastFlag, lr_nil,
                              lr_fence, hek]
                        · by_cases hc : cfg = 0 <;> sexec <;>
                            simp [Ctl.goesOn, PopR, hcas _ cur _ (dec_node hnode), lstep, retV, lastFlag, lr_nil,
                              lr_fence, hek]
                      · have hstne' : ¬ Loc.glob "CONFIG_RCU_EMIT_LEGACY_MB" = st :=
                          fun h => hstne (by simp [cfgLoc, h])
                        have h5s := h5 st rfl
                        by_cases hnE : nx = Wfs.END
                        · subst hnE
                          by_cases hc : cfg = 0 <;> sexec [Gen.Src.«___cds_wfs_end»] <;>
                            simp [Ctl.goesOn, PopR, hcas _ cur _ (dec_node hnode), lstep, retV, lastFlag, lr_nil,
                              lr_fence, hek]
                        · by_cases hc : cfg = 0 <;> sexec [Gen.Src.«___cds_wfs_end»] <;>
                            simp [Ctl.goesOn, PopR, hcas _ cur _ (dec_node hnode), lstep, retV, lastFlag, lr_nil,
                              lr_fence, hek, hnE, h5s]
                    · by_cases hbl : bl = 0
                      · subst hbl
                        simp only [bne_self_eq_false] at hl1 hpre hcas
                        sexec; simp [Ctl.goesOn, PopR, lstep, hch, retV, lastFlag, lr_nil]
                        exact fun _ => h5
                      · sexec; simp [Ctl.goesOn, PopIA, lstep, hch, hbl, lr_nil, h1, h2, h3, cfgLoc, h4]
                        exact fun _ => h5
              · -- an ill-typed value was observed inside `sync_next`: nothing is claimed
                cases oinp with
                | nil => sexec
                | cons x rest3 =>
                  by_cases hx : x = .ptr (.obj k)
                  · subst hx
                    rcases hst with rfl | ⟨st, rfl, hstne⟩
                    · by_cases hc : cfg = 0 <;> sexec
                    · have hstne' : ¬ Loc.glob "CONFIG_RCU_EMIT_LEGACY_MB" = st :=
                        fun h => hstne (by simp [cfgLoc, h])
                      have h5s := h5 st rfl
                      by_cases hw1 : w = .int 1 <;> by_cases hc : cfg = 0 <;> sexec [Gen.Src.«___cds_wfs_end»]
                  · by_cases hbl : bl = 0
                    · subst hbl
                      have hw1 : ¬ w = .int (-1) := fun h => hwb ⟨rfl, h⟩
                      clear hwb
                      sexec
                    · sexec

theorem pop_loop_any (fuel s : Nat) (stv : Val) (bl cfg : Int)
    (hst : stv = .int 0 ∨ ∃ st, stv = .ptr st ∧ st ≠ cfgLoc)
    (body : Stmt) (hb : firstLoop Gen.Src.«___cds_wfs_pop» = some body)
    (n : Nat) (e : Env) (i : List Val) (l : LState) (hI : PopIA s stv bl cfg e l)
    (o : Out) (ho : iterate (exec fuel body) n e i [] = .ok o) (hW : WTs o.events) :
    ∃ ls', lr .pop s l o.events = some ls' ∧
      (o.ctl = .fuel ∨ ∃ c, c.goesOn = false ∧ PopR stv c o.env [] ls' ∧ o.ctl = c.afterLoop) := by
  obtain ⟨evs, hev, -, ht⟩ := iterate_inv_wt (lr .pop s) ObsWT (lr_nil _ _) (lr_append _ _) _
    (fun _ => True) (fun _ _ => True) (PopIA s stv bl cfg) (fun c e l => PopR stv c e [] l)
    (fun e i o _ hbo => ⟨by split <;> trivial,
      fun l hI hW => pop_body_any fuel s stv bl cfg hst body hb e i l hI o hbo hW⟩)
    n e i [] o trivial ho
  simp only [List.nil_append] at hev
  rw [hev] at hW ⊢
  exact ht l hI hW

/-- `___cds_wfs_pop` for **every** oracle: if the run is `.ok` and the values its loads / cmpxchg observed are
well-typed (`WTs`; nothing is asked of what `poll()` returned), its events are a label sequence of L2's local
automaton, with the return value and `*state` as in `pop_refines`. -/
theorem pop_refines_any (fuel : Nat) (env : Env) (inp : List Val) (s : Nat) (stv : Val) (bl cfg : Int) (ls : LState)
    (hs : env.vars "u_stack" = some (.ptr (.obj s))) (hstv : env.vars "state" = some stv)
    (hblv : env.vars "blocking" = some (.int bl))
    (hst : stv = .int 0 ∨ ∃ st, stv = .ptr st ∧ st ≠ cfgLoc)
    (hcfg : env.priv cfgLoc = some (.int cfg))
    (hpc : ls.pc = .popLd (bl != 0))
    (out : Out) (hout : exec fuel Gen.Src.«___cds_wfs_pop» env inp = .ok out) (hW : WTs out.events) :
    ∃ ls', lr .pop s ls out.events = some ls' ∧ Done out ls' ∧
      (∀ st r, stv = .ptr st → out.ctl = .ret r → out.env.priv st = some (.int (lastFlag ls'.ret))) := by
  have hcfg' := hcfg
  simp only [cfgLoc] at hcfg'
  revert out
  rcases hst with rfl | ⟨st, rfl, hstne⟩
  · sexec [Gen.Src.«___cds_wfs_pop»]
    generalize hE : iterate _ _ _ _ _ = r
    cases r with
    | error err => simp
    | ok o1 =>
      have key := fun hW => pop_loop_any fuel s (.int 0) bl cfg (.inl rfl) _
        (by simp [Gen.Src.«___cds_wfs_pop», block, firstLoop]) fuel _ inp ls (by sexec [PopIA, cfgLoc]) o1 hE hW
      sexec
      intro hW
      obtain ⟨ls', hl, hfin⟩ := key hW
      refine ⟨ls', hl, ?_⟩
      rcases hfin with hf | ⟨c, -, rfl | rfl | ⟨rfl, hidle, hstw⟩, hc⟩
      · simp [Done, hf]
      · simp only [Ctl.afterLoop] at hc; simp [Done, hc]
      · simp only [Ctl.afterLoop] at hc; simp [Done, hc]
      · simp only [Ctl.afterLoop] at hc; simp [Done, hc, hidle]
  · have hstne' : ¬ Loc.glob "CONFIG_RCU_EMIT_LEGACY_MB" = st := fun h => hstne (by simp [cfgLoc, h])
    sexec [Gen.Src.«___cds_wfs_pop»]
    generalize hE : iterate _ _ _ _ _ = r
    cases r with
    | error err => simp
    | ok o1 =>
      have key := fun hW => pop_loop_any fuel s (.ptr st) bl cfg (.inr ⟨st, rfl, hstne⟩) _
        (by simp [Gen.Src.«___cds_wfs_pop», block, firstLoop]) fuel _ inp ls (by sexec [PopIA, cfgLoc]) o1 hE hW
      sexec
      intro hW
      obtain ⟨ls', hl, hfin⟩ := key hW
      refine ⟨ls', hl, ?_⟩
      rcases hfin with hf | ⟨c, -, rfl | rfl | ⟨rfl, hidle, hstw⟩, hc⟩
      · simp [Done, hf]
      · simp only [Ctl.afterLoop] at hc; simp [Done, hc]
      · simp only [Ctl.afterLoop] at hc; simp [Done, hc]
      · simp only [Ctl.afterLoop] at hc; simp [Done, hc, hidle]; exact hstw st rfl

end UrcuVerif.Src.WfsR
