import UrcuVerif.Src.ReadRefine
import UrcuVerif.Src.ReadQsbrLocal
/-!
# Read side, QSBR: the GENERATED source IR refines the thread-local projections of `Gp/Qsbr.lean` and
`Handshake/QsbrTso.lean`

Functions: `_urcu_qsbr_quiescent_state` (+ `_urcu_qsbr_quiescent_state_update_and_wakeup`, `urcu_qsbr_wake_up_gp`),
`_urcu_qsbr_thread_offline`, `_urcu_qsbr_thread_online`, `_urcu_qsbr_read_ongoing`, `_urcu_qsbr_read_lock/unlock`
(assertions only).  Same statement pattern as `Src/ReadRefine.lean`.

## Values

L2 counts grace periods abstractly (`gp : Nat`, starting at 1, `+1` per grace period, reader word 0 = offline); the C
word is `URCU_QSBR_GP_ONLINE (1) + (gp - 1) * URCU_QSBR_GP_CTR (2)`, i.e. `encq g = 2 g - 1` for `g ≥ 1` and `encq 0 = 0`
(`decq` is its inverse).  The local automaton only compares these values for equality and with 0, and `encq` is injective.
Oracle hypothesis `QShape`: the value loaded from `rcu_gp.ctr` is `encq g` with `g ≥ 1` – an invariant of the UPDATER side
(initialised to `URCU_QSBR_GP_ONLINE`, only ever `+= URCU_QSBR_GP_CTR` on 64-bit), assumed here.  `hint`: every oracle
value is an integer (the words `waiting`, `futex` and the return value of `futex_noasync` are integers).

## Abstraction to `Gp/Qsbr.lean` (`absEvQ`, looks at the event and the local state; `none` = rejected)

* `ld rcu_gp.ctr v` ↦ `qLd (decq v)`, immediately followed by the silent L2 branch `qSkip` when that value equals the
  thread's own word (the source returns without a further access in that case);
* `st reader.ctr v mo` ↦ at pc `ld g`: `qSt (decq v)`; at pc `out`: `qOff` (only for `v = 0`); in both cases followed by
  `qFence` when `mo = CMM_SEQ_CST` (the store carries its fence);
* `fence mb` at pc `fence` ↦ `qFence` (`rcu_thread_online`: relaxed store + `cmm_smp_mb()`); any other fence there: rejected;
* other accesses to `rcu_gp.ctr` / the reader word: rejected; silent: the `cmm_barrier()`s, everything of
  `urcu_qsbr_wake_up_gp` (handshake model), the trailing `cmm_smp_mb()` of `quiescent_state` (after `qFence`; L2's `rRead`
  of the next section reads memory directly).

## Abstraction to `Handshake/QsbrTso.lean` (`absEvK`)

`st reader.ctr _ CMM_SEQ_CST` at `k0` ↦ `k0`; `ld waiting w` ↦ `k1 (w ≠ 0)`; `st waiting 0` ↦ `k2`; `fence mb` at `kf` ↦ `kf`;
`ld gp->futex v` ↦ `k3 v` (+ silent `k4Skip` when `v ≠ -1`); `st gp->futex 0` ↦ `k4Wake`;
`futex_noasync(&gp->futex, FUTEX_WAKE, 1, NULL, NULL, 0)` ↦ `k5`.

## Side conditions

`RelQ` (private view of the reader word = `encq lctr`); pc `out`; `reg = true` (the `urcu_assert_debug(registered)`);
`rcu_thread_online`: `lctr = 0` (API contract: called by an offline thread – L2 has no label for an online thread
re-announcing the value it already holds).
-/
set_option maxRecDepth 8192
set_option linter.unusedSimpArgs false
set_option linter.unusedVariables false
namespace UrcuVerif.Src.ReadQsbr
open UrcuVerif UrcuVerif.Src UrcuVerif.Gen.Src UrcuVerif.Src.Read

def encq (g : Nat) : Int := if g = 0 then 0 else 2 * (g : Int) - 1
def decq (n : Int) : Nat := (n.toNat + 1) / 2

theorem decq_encq (g : Nat) : decq (encq g) = g := by
  unfold decq encq; split <;> omega
theorem encq_inj (a b : Nat) : encq a = encq b ↔ a = b := by
  unfold encq; constructor
  · intro h; split at h <;> split at h <;> omega
  · intro h; subst h; rfl
theorem encq_eq_zero (g : Nat) : encq g = 0 ↔ g = 0 := by
  unfold encq; split <;> omega
theorem encq_zero : encq 0 = 0 := rfl
theorem decq_zero : decq 0 = 0 := by decide

def qGpCtr : Loc := .field (.glob "urcu_qsbr_gp") "ctr"
def qRdCtr : Loc := .field (.tls "urcu_qsbr_reader") "ctr"
def qWaiting : Loc := .field (.tls "urcu_qsbr_reader") "waiting"
def qFutex : Loc := .field (.glob "urcu_qsbr_gp") "futex"
def qWakeArgs : List Val := [.ptr qFutex, .int 1, .int 1, .int 0, .int 0, .int 0]

/-! ## abstraction to the grace-period model -/

def absEvQ (ls : QState) (e : Event) : Option (List QLabel) :=
  match e with
  | .ld l (.int n) _ =>
    if l = qGpCtr then some (if decq n = ls.lctr then [.qLd (decq n), .qSkip] else [.qLd (decq n)])
    else if l = qRdCtr then none else some []
  | .st l (.int n) mo =>
    if l = qRdCtr then
      match ls.rpc with
      | .ld _ => some (if mo = 5 then [.qSt (decq n), .qFence] else [.qSt (decq n)])
      | .out => if n = 0 then some (if mo = 5 then [.qOff, .qFence] else [.qOff]) else none
      | .fence => none
    else if l = qGpCtr then none else some []
  | .fence p => if ls.rpc = .fence then (if p = .mb then some [.qFence] else none) else some []
  | e =>
    match Event.loc? e with
    | some l => if l = qRdCtr ∨ l = qGpCtr then none else some []
    | none => some []

def absRunQ : QState → List Event → Option (List QLabel × QState)
  | ls, [] => some ([], ls)
  | ls, e :: es =>
    match absEvQ ls e with
    | none => none
    | some l =>
      match qrun ls l with
      | none => none
      | some ls1 =>
        match absRunQ ls1 es with
        | some (labs, ls2) => some (l ++ labs, ls2)
        | none => none

theorem qrun_append : ∀ (a b : List QLabel) (s s1 s2), qrun s a = some s1 → qrun s1 b = some s2 →
    qrun s (a ++ b) = some s2 := by
  intro a
  induction a with
  | nil => intro b s s1 s2 h1 h2; simp [qrun] at h1; subst h1; simpa using h2
  | cons x a ih =>
    intro b s s1 s2 h1 h2
    simp only [qrun, List.cons_append] at h1 ⊢
    split at h1
    · exact ih _ _ _ _ h1 h2
    · simp at h1

theorem absRunQ_qrun : ∀ (es : List Event) (s labs s'), absRunQ s es = some (labs, s') → qrun s labs = some s' := by
  intro es
  induction es with
  | nil => intro s labs s' h; simp [absRunQ] at h; obtain ⟨rfl, rfl⟩ := h; rfl
  | cons e es ih =>
    intro s labs s' h
    simp only [absRunQ] at h
    split at h
    · simp at h
    · split at h
      · simp at h
      · rename_i ls _ s1 h1
        split at h
        · rename_i labs2 s2 h2
          simp only [Option.some.injEq, Prod.mk.injEq] at h
          obtain ⟨rfl, rfl⟩ := h
          exact qrun_append _ _ _ _ _ h1 (ih _ _ _ h2)
        · simp at h

/-! ## abstraction to the futex handshake model -/

def absEvK (ks : KState) (e : Event) : Option (List KLabel) :=
  match e with
  | .st l (.int n) mo =>
    if l = qRdCtr then (if ks.kpc = .k0 ∧ mo = 5 then some [.k0] else none)
    else if l = qWaiting then (if n = 0 then some [.k2] else none)
    else if l = qFutex then (if n = 0 then some [.k4Wake] else none)
    else some []
  | .ld l (.int n) _ =>
    if l = qWaiting then some [.k1 (decide (n ≠ 0))]
    else if l = qFutex then some (if n = -1 then [.k3 n] else [.k3 n, .k4Skip])
    else if l = qRdCtr then none else some []
  | .fence p => if ks.kpc = .kf then (if p = .mb then some [.kf] else none) else some []
  | .ext name args _ =>
    if name = "futex_noasync" then (if args = qWakeArgs then some [.k5] else none) else some []
  | e =>
    match Event.loc? e with
    | some l => if l = qRdCtr ∨ l = qWaiting ∨ l = qFutex then none else some []
    | none => some []

def absRunK : KState → List Event → Option (List KLabel × KState)
  | ks, [] => some ([], ks)
  | ks, e :: es =>
    match absEvK ks e with
    | none => none
    | some l =>
      match krun ks l with
      | none => none
      | some ks1 =>
        match absRunK ks1 es with
        | some (labs, ks2) => some (l ++ labs, ks2)
        | none => none

theorem krun_append : ∀ (a b : List KLabel) (s s1 s2), krun s a = some s1 → krun s1 b = some s2 →
    krun s (a ++ b) = some s2 := by
  intro a
  induction a with
  | nil => intro b s s1 s2 h1 h2; simp [krun] at h1; subst h1; simpa using h2
  | cons x a ih =>
    intro b s s1 s2 h1 h2
    simp only [krun, List.cons_append] at h1 ⊢
    split at h1
    · exact ih _ _ _ _ h1 h2
    · simp at h1

theorem absRunK_krun : ∀ (es : List Event) (s labs s'), absRunK s es = some (labs, s') → krun s labs = some s' := by
  intro es
  induction es with
  | nil => intro s labs s' h; simp [absRunK] at h; obtain ⟨rfl, rfl⟩ := h; rfl
  | cons e es ih =>
    intro s labs s' h
    simp only [absRunK] at h
    split at h
    · simp at h
    · split at h
      · simp at h
      · rename_i ls _ s1 h1
        split at h
        · rename_i labs2 s2 h2
          simp only [Option.some.injEq, Prod.mk.injEq] at h
          obtain ⟨rfl, rfl⟩ := h
          exact krun_append _ _ _ _ _ h1 (ih _ _ _ h2)
        · simp at h

/-! ## relation, pre / post conditions -/

def RelQ (env : Env) (ls : QState) : Prop := env.priv qRdCtr = some (.int (encq ls.lctr))

/-- `rcu_gp.ctr` holds `ONLINE + k * GP_CTR` (updater-side invariant, assumed) -/
def QShape (v : Val) : Prop := ∃ g : Nat, 1 ≤ g ∧ v = .int (encq g)

/-- the call ran to its end -/
def Done (c : Ctl) : Prop := c = .normal ∨ c = .ret none

def QPost (env : Env) (ls : QState) (out : Out) : Prop :=
  ∃ labs ls', absRunQ ls out.events = some (labs, ls') ∧ RelQ out.env ls' ∧
    (∀ l, l ≠ qRdCtr → l ≠ qWaiting → l ≠ qFutex → out.env.priv l = env.priv l) ∧
    (Done out.ctl ∨ out.ctl = .blocked) ∧
    (Done out.ctl → ls'.rpc = .out ∧ ls'.reg = ls.reg ∧
      -- the announced value: what was loaded from `rcu_gp.ctr` / 0 for `thread_offline`
      (∀ e ∈ out.events, ∀ l n mo, e = .st l (.int n) mo → l = qRdCtr → ls'.lctr = decq n) ∧
      ((∀ e ∈ out.events, ∀ l v mo, e ≠ .st l v mo) → ls'.lctr = ls.lctr))

/-- w.r.t. the handshake model: from waker pc `k0` the events are a run of the waker automaton, ending at `k9` when the
call ran to its end -/
def KPost (out : Out) : Prop :=
  ∀ r0, ∃ klabs ks', absRunK { kpc := .k0, r := r0 } out.events = some (klabs, ks') ∧
    (Done out.ctl → ks'.kpc = .k9)

open Lean.Parser.Tactic in
macro "absq_simp" "[" ts:simpLemma,* "]" : tactic =>
  `(tactic| (simp [absRunQ, absEvQ, qrun, qstep, absRunK, absEvK, krun, kstep, qWakeArgs, RelQ, decq_encq, encq_inj,
               encq_eq_zero, encq_zero, decq_zero, Event.loc?, qGpCtr, qRdCtr, qWaiting, qFutex, Done,
               exists_pair_eq, exists_pair_eq', *, $ts,*]
             try (simp +contextual [*])))

set_option hygiene false in
macro "qs_go" : tactic =>
  `(tactic| (exec_simp [«_urcu_qsbr_quiescent_state», «_urcu_qsbr_quiescent_state_update_and_wakeup»,
               «urcu_qsbr_wake_up_gp», «_urcu_qsbr_thread_offline», «_urcu_qsbr_thread_online», hrel, QPost, KPost,
               encq_inj, encq_eq_zero] <;>
             absq_simp [hrel]))

/-! ## `rcu_quiescent_state()` -/

theorem qsbr_quiescent_state (fuel : Nat) (env : Env) (inp : List Val) (ls : QState)
    (hrel : RelQ env ls) (hout : ls.rpc = .out) (hreg : ls.reg = true)
    (hgp : ∀ v, inp.head? = some v → QShape v) (hint : ∀ v, v ∈ inp → ∃ n : Int, v = .int n) :
    ∃ out, exec fuel «_urcu_qsbr_quiescent_state» env inp = .ok out ∧ QPost env ls out ∧
      -- unless nothing had to be announced, the call is one run of the handshake's waker
      ((∀ g, inp.head? = some (.int (encq g)) → g ≠ ls.lctr) → KPost out) := by
  obtain ⟨rpc, reg, lctr⟩ := ls
  simp only [RelQ, qRdCtr] at hrel
  simp only at hout hreg
  subst hout; subst hreg
  cases inp with
  | nil => qs_go
  | cons v rest =>
    obtain ⟨g, hg1, rfl⟩ := hgp v rfl
    have hg0 : g ≠ 0 := by omega
    by_cases hgl : g = lctr
    · subst hgl
      qs_go
    · have hgl' : ¬ lctr = g := fun h => hgl h.symm
      cases rest with
      | nil => qs_go
      | cons w r2 =>
        obtain ⟨wn, rfl⟩ := hint w (by simp)
        by_cases hw : wn = 0
        · subst hw; qs_go
        · cases r2 with
          | nil => qs_go
          | cons f r3 =>
            obtain ⟨fn, rfl⟩ := hint f (by simp)
            by_cases hf : fn = -1
            · subst hf
              cases r3 with
              | nil => qs_go
              | cons x r4 => qs_go
            · qs_go

/-! ## `rcu_thread_offline()` -/

theorem qsbr_thread_offline (fuel : Nat) (env : Env) (inp : List Val) (ls : QState)
    (hrel : RelQ env ls) (hout : ls.rpc = .out) (hreg : ls.reg = true)
    (hint : ∀ v, v ∈ inp → ∃ n : Int, v = .int n) :
    ∃ out, exec fuel «_urcu_qsbr_thread_offline» env inp = .ok out ∧ QPost env ls out ∧ KPost out := by
  obtain ⟨rpc, reg, lctr⟩ := ls
  simp only [RelQ, qRdCtr] at hrel
  simp only at hout hreg
  subst hout; subst hreg
  cases inp with
  | nil => qs_go
  | cons w r2 =>
    obtain ⟨wn, rfl⟩ := hint w (by simp)
    by_cases hw : wn = 0
    · subst hw; qs_go
    · cases r2 with
      | nil => qs_go
      | cons f r3 =>
        obtain ⟨fn, rfl⟩ := hint f (by simp)
        by_cases hf : fn = -1
        · subst hf
          cases r3 with
          | nil => qs_go
          | cons x r4 => qs_go
        · qs_go

/-! ## `rcu_thread_online()` -/

theorem qsbr_thread_online (fuel : Nat) (env : Env) (inp : List Val) (ls : QState)
    (hrel : RelQ env ls) (hout : ls.rpc = .out) (hreg : ls.reg = true) (hoff : ls.lctr = 0)
    (hgp : ∀ v, inp.head? = some v → QShape v) :
    ∃ out, exec fuel «_urcu_qsbr_thread_online» env inp = .ok out ∧ QPost env ls out := by
  obtain ⟨rpc, reg, lctr⟩ := ls
  simp only [RelQ, qRdCtr] at hrel
  simp only at hout hreg hoff
  subst hout; subst hreg; subst hoff
  cases inp with
  | nil => qs_go
  | cons v rest =>
    obtain ⟨g, hg1, rfl⟩ := hgp v rfl
    have hg0 : g ≠ 0 := by omega
    qs_go

/-! ## `urcu_qsbr_wake_up_gp()` on its own: a waker run from pc `k1` -/

theorem qsbr_wake_up_gp (fuel : Nat) (env : Env) (inp : List Val)
    (hint : ∀ v, v ∈ inp → ∃ n : Int, v = .int n) :
    ∃ out, exec fuel «urcu_qsbr_wake_up_gp» env inp = .ok out ∧ (Done out.ctl ∨ out.ctl = .blocked) ∧
      ∀ r0, ∃ klabs ks', absRunK { kpc := .k1, r := r0 } out.events = some (klabs, ks') ∧
        (Done out.ctl → ks'.kpc = .k9) := by
  have hrel : True := trivial   -- (`qs_go` mentions `hrel`)
  cases inp with
  | nil => qs_go
  | cons w r2 =>
    obtain ⟨wn, rfl⟩ := hint w (by simp)
    by_cases hw : wn = 0
    · subst hw; qs_go
    · cases r2 with
      | nil => qs_go
      | cons f r3 =>
        obtain ⟨fn, rfl⟩ := hint f (by simp)
        by_cases hf : fn = -1
        · subst hf
          cases r3 with
          | nil => qs_go
          | cons x r4 => qs_go
        · qs_go

/-! ## `rcu_read_ongoing()`, `rcu_read_lock()`, `rcu_read_unlock()` -/

/-- no shared access; returns the own word (non-zero iff online) -/
theorem qsbr_read_ongoing (fuel : Nat) (env : Env) (inp : List Val) (ls : QState) (hrel : RelQ env ls) :
    exec fuel «_urcu_qsbr_read_ongoing» env inp =
      .ok { events := [], env := env, inp := inp, ctl := .ret (some (.int (encq ls.lctr))) } := by
  simp only [RelQ, qRdCtr] at hrel
  exec_simp [«_urcu_qsbr_read_ongoing», hrel]

/-- QSBR `rcu_read_lock` / `rcu_read_unlock` are assertions only: no event, no state change -/
theorem qsbr_read_lock_unlock (fuel : Nat) (env : Env) (inp : List Val) :
    exec fuel «_urcu_qsbr_read_lock» env inp = .ok { events := [], env := env, inp := inp, ctl := .normal } ∧
    exec fuel «_urcu_qsbr_read_unlock» env inp = .ok { events := [], env := env, inp := inp, ctl := .normal } := by
  constructor <;> exec_simp [«_urcu_qsbr_read_lock», «_urcu_qsbr_read_unlock»]

end UrcuVerif.Src.ReadQsbr
