import UrcuVerif.Src.DeferLocal
import UrcuVerif.Src.DeferRefine
/-!
# defer_rcu: the events of the GENERATED `_defer_rcu` / `rcu_defer_barrier_queue` are label sequences of the local automata
# of `Src/DeferLocal.lean` (projections of the concurrent model `Defer/ConcModel.lean`)

Abstraction of events (state dependent, like the read side: whatever label is picked, the local step *checks* the values):

owner (`absO f p`, for the call `_defer_rcu(f, p)`):
* `ld &defer_queue.tail tl`     ↦ `call f p tl` at pc `idle` (L2 `oCall`), `postFlush tl` at pc `flushed` (L2 `oPostFlush`)
* `st &q[wlen & MASK] w`        ↦ `stQ wlen w` (L2 `oStQ`; the local step checks that `w` is the next pending word)
* `st &defer_queue.head h`      ↦ `stHead h` (L2 `oStHead`, which includes the preceding `cmm_smp_wmb()`: the store buffer of
                                   the TSO model is FIFO, so `wmb` itself is silent)
* `fence mb` at pc `mb`         ↦ `mb` (L2 `oMb`)
* silent: `fence wmb`, and the accesses of `wake_up_defer()` (`ld/st defer_thread_futex`, `futex_noasync`, `errno`,
  `urcu_die`): they belong to the handshake model `Defer/ConcWake.lean` (see `wake_up_defer_refines`);
* any other access: REJECTED.

runner (`absR base`, inside `rcu_defer_barrier_queue(base, H)`; the plain load `i = queue->tail` has no event: the local
run starts in the state after L2's `rBegin`):
* `ld &q[ri & MASK] v`          ↦ `ld ri v` (L2 `rLd`, which includes the `cmm_smp_rmb()`: loads are not reordered in TSO)
* `(*fct)(p)`                   ↦ `invoke fct p` (L2 `rInvoke`)
* `st &queue->tail i`           ↦ `fin i` (L2 `rEnd`, which includes the preceding `cmm_smp_mb()`)
* silent: `fence rmb`, `fence mb`; any other access: REJECTED.
-/
set_option maxRecDepth 8192
set_option linter.unusedSimpArgs false
set_option linter.unusedVariables false
namespace UrcuVerif.Src.DeferR
open UrcuVerif UrcuVerif.Src UrcuVerif.Defer UrcuVerif.Src.DeferL
open UrcuVerif.DeferConc (OPc RPc RIt)

/-! ## owner -/

def absO (f p : BitVec 64) (ls : OState) : Event → Option (Option OLabel)
  | .ld l v _ =>
    if l = .field dq "tail" then
      (match v, ls.opc with
        | .int tl, .idle => if 0 ≤ tl then some (some (.call f p tl.toNat)) else none
        | .int tl, .flushed => if 0 ≤ tl then some (some (.postFlush tl.toNat)) else none
        | _, _ => none)
    else if l = futexL then some none else none
  | .st l v _ =>
    if l = slot dq ls.wlen then
      (match ls.pendW with
        | w :: _ => if v = wv w then some (some (.stQ ls.wlen w)) else none
        | [] => none)
    else if l = .field dq "head" then (if v = .int (ls.wlen : Int) then some (some (.stHead ls.wlen)) else none)
    else if l = futexL then some none else none
  | .fence q => if q = .mb ∧ ls.opc = .mb then some (some .mb) else some none
  | .ext .. => some none
  | _ => none

/-- abstract the events one by one and run the local automaton; result = (labels, final local state) -/
def absRunO (f p : BitVec 64) (size : Nat) : OState → List Event → Option (List OLabel × OState)
  | ls, [] => some ([], ls)
  | ls, e :: es =>
    match absO f p ls e with
    | none => none
    | some none => absRunO f p size ls es
    | some (some l) =>
      match olstep size ls l with
      | none => none
      | some ls1 =>
        match absRunO f p size ls1 es with
        | some (labs, ls2) => some (l :: labs, ls2)
        | none => none

theorem absRunO_olrun (f p size) : ∀ (es : List Event) (ls labs ls'),
    absRunO f p size ls es = some (labs, ls') → olrun size ls labs = some ls' := by
  intro es
  induction es with
  | nil => intro ls labs ls' h; simp [absRunO] at h; obtain ⟨rfl, rfl⟩ := h; rfl
  | cons e es ih =>
    intro ls labs ls' h
    simp only [absRunO] at h
    split at h
    · simp at h
    · exact ih _ _ _ h
    · split at h
      · simp at h
      · rename_i l _ ls1 h1
        split at h
        · rename_i labs2 ls2 h2
          simp only [Option.some.injEq, Prod.mk.injEq] at h
          obtain ⟨rfl, rfl⟩ := h
          simp only [olrun, h1]
          exact ih _ _ _ h2
        · simp at h

theorem absRunO_append (f p size) : ∀ (a b : List Event) (ls la ls1), absRunO f p size ls a = some (la, ls1) →
    absRunO f p size ls (a ++ b) = (absRunO f p size ls1 b).map (fun r => (la ++ r.1, r.2)) := by
  intro a
  induction a with
  | nil =>
    intro b ls la ls1 h; simp [absRunO] at h; obtain ⟨rfl, rfl⟩ := h
    simp only [List.nil_append]
    generalize absRunO f p size ls b = r
    cases r <;> simp
  | cons e a ih =>
    intro b ls la ls1 h
    simp only [absRunO, List.cons_append] at h ⊢
    split at h
    · simp at h
    · exact ih _ _ _ _ h
    · split at h
      · simp at h
      · split at h
        · rename_i labs2 ls3 h2
          simp only [Option.some.injEq, Prod.mk.injEq] at h
          obtain ⟨rfl, rfl⟩ := h
          rw [ih _ _ _ _ h2]
          generalize absRunO f p size ls3 b = r
          cases r <;> simp
        · simp at h

/-- the `q[]` stores of one entry: `stQ` labels, the pending words are consumed -/
theorem absRunO_stores (f p : BitVec 64) (size : Nat) : ∀ (ws : List (BitVec 64)) (ls : OState), ls.opc = .stq → ls.pendW = ws →
    ∃ labs, absRunO f p size ls (stores dq ls.wlen ws) =
      some (labs, { ls with pendW := [], wlen := ls.wlen + ws.length }) ∧ labs.length = ws.length := by
  intro ws
  induction ws with
  | nil => intro ls h1 h2; exact ⟨[], by cases ls; simp_all [absRunO, stores], rfl⟩
  | cons w ws ih =>
    intro ls h1 h2
    obtain ⟨labs, hl, hn⟩ := ih { ls with wlen := ls.wlen + 1, pendW := ws } h1 rfl
    refine ⟨.stQ ls.wlen w :: labs, ?_, by simp [hn]⟩
    simp only [stores, absRunO, absO, if_true, h2, olstep, h1, and_self]
    have hl' := hl
    simp only [h1] at hl'
    simp [hl', Nat.add_assoc, Nat.add_comm 1]

/-- the accesses of `wake_up_defer()` are silent for the owner automaton (they are the waker of `Defer/ConcWake.lean`) -/
theorem absRunO_wake (f p : BitVec 64) (size : Nat) (ls : OState) (hpc : ls.opc ≠ .mb) (inp : List Val) :
    absRunO f p size ls (wakeSpec inp).1 = some ([], ls) := by
  have n1 : futexL ≠ slot dq ls.wlen := by simp [futexL, slot]
  have n2 : futexL ≠ .field dq "head" := by simp [futexL]
  have n3 : futexL ≠ .field dq "tail" := by simp [futexL]
  unfold wakeSpec
  repeat' split
  all_goals (try subst_vars)
  all_goals (try contradiction)
  all_goals simp [absRunO, absO, n1, n2, n3, hpc]

/-- the owner's private view of its queue is the local L2 state -/
def RelOL (env : Env) (ls : OState) : Prop :=
  env.priv (.field dq "head") = some (.int (ls.head : Int)) ∧ env.priv (.field dq "last_fct_in") = some (wv ls.lastIn)

/-- **`_defer_rcu(f, p)` ⊑ owner automaton** (non-full path): from pc `idle` (with `wlen = head`, nothing pending: L2's
invariant between calls) every run – complete or blocked inside `wake_up_defer()` – is accepted label by label, with the
same values: `call f p tl`, one `stQ` per word of `enc1`, `stHead`, `mb`; the local state is back at `idle` with the model's
`head` and `last_fct_in`, and the private view is related to it again. -/
theorem defer_rcu_abs (fuel : Nat) (env : Env) (ls : OState) (f p : BitVec 64) (tl : Nat) (rest : List Val)
    (hr : RelOL env ls) (hpc : ls.opc = .idle) (hwl : ls.wlen = ls.head) (hpw : ls.pendW = [])
    (hf : env.vars "fct" = some (wv f)) (hp : env.vars "p" = some (wv p))
    (hnf : ¬ (4096 - 2 ≤ ls.head - tl)) (hi : IntInp rest) :
    ∃ out labs ls', exec fuel Gen.Src.«_defer_rcu» env (.int (tl : Int) :: rest) = .ok out ∧
      absRunO f p 4096 ls out.events = some (labs, ls') ∧ RelOL out.env ls' ∧
      ls' = { ls with otl := tl, lastIn := (enc1 ls.lastIn f p).2, head := ls.head + (enc1 ls.lastIn f p).1.length,
                      wlen := ls.head + (enc1 ls.lastIn f p).1.length } ∧
      labs.length = (enc1 ls.lastIn f p).1.length + 3 := by
  obtain ⟨h1, h2⟩ := hr
  have hnf' : (ls.head : Int) - (tl : Int) < 4094 := by omega
  obtain ⟨vars, hE⟩ := defer_exec (fuel := fuel) f p ls.lastIn ls.head tl rest rfl hf hp h1 h2 hnf' hi
  -- the local run
  let ls1 : OState := { ls with otl := tl, pendW := (enc1 ls.lastIn f p).1, lastIn := (enc1 ls.lastIn f p).2, opc := .stq }
  obtain ⟨labs, hst, hlen⟩ := absRunO_stores f p 4096 (enc1 ls.lastIn f p).1 ls1 rfl rfl
  let ls4 : OState := { ls with otl := tl, lastIn := (enc1 ls.lastIn f p).2, head := ls.head + (enc1 ls.lastIn f p).1.length,
                                wlen := ls.head + (enc1 ls.lastIn f p).1.length }
  have hrun : absRunO f p 4096 ls (.ld (.field dq "tail") (.int (tl : Int)) 0 :: (stores dq ls.head (enc1 ls.lastIn f p).1 ++
        [.fence .wmb, .st (.field dq "head") (.int ((ls.head : Int) + ((enc1 ls.lastIn f p).1.length : Nat))) 0, .fence .mb] ++
        (wakeSpec rest).1)) = some (.call f p tl :: (labs ++ [.stHead (ls.head + (enc1 ls.lastIn f p).1.length), .mb]), ls4) := by
    have hcall : olstep 4096 ls (.call f p tl) = some ls1 := by
      simp [olstep, hpc, hnf, oEntry, ls1]
    simp only [absRunO, absO, if_true, hpc, Int.natCast_nonneg, Int.toNat_natCast, hcall]
    have hst' := hst
    rw [show ls1.wlen = ls.head from hwl] at hst'
    rw [List.append_assoc, absRunO_append f p 4096 _ _ _ _ _ hst']
    have n1 : (Loc.field dq "head") ≠ slot dq (ls.head + (enc1 ls.lastIn f p).1.length) := by simp [dq, slot]
    have hw := absRunO_wake f p 4096 ls4 (by simp [ls4, hpc]) rest
    simp [absRunO, absO, olstep, ls1, hwl, n1, ls4, hpc, hpw] at hw ⊢
    simp [hw]
  refine ⟨_, _, ls4, hE, hrun, ⟨?_, ?_⟩, rfl, by simp [hlen]⟩
  · show wakePriv _ rest _ = _
    rw [wakePriv_frame _ _ _ (by simp [dq, futexL])]
    simp [ls4]
  · show wakePriv _ rest _ = _
    rw [wakePriv_frame _ _ _ (by simp [dq, futexL])]
    have hne : (Loc.field dq "last_fct_in") ≠ Loc.field dq "head" := by simp
    simp only [hne, if_false]
    rw [storesPriv_frame dq (.field dq "last_fct_in") (fun k => slot_ne_field dq _ _ k)]
    simp only [ls4, enc1_snd]
    unfold lastPriv
    split
    · simp
    · rename_i hc
      have : ls.lastIn = f := by
        by_cases a : ls.lastIn = f
        · exact a
        · exfalso; apply hc; simp [a]
      rw [h2, this]

/-! ## runner -/

def absR (base : Loc) (ls : RState) : Event → Option (Option RLabel)
  | .ld l v _ => if l = slot base ls.ri then some (some (.ld ls.ri (vw v))) else none
  | .ext n args _ =>
    (match args with
      | [f, p] => if n = "(*)" then some (some (.invoke (vw f) (vw p))) else none
      | _ => none)
  | .fence _ => some none
  | .st l v _ =>
    if l = .field base "tail" then
      (match v with
        | .int n => if 0 ≤ n then some (some (.fin n.toNat)) else none
        | _ => none)
    else none
  | _ => none

def absRunR (base : Loc) : RState → List Event → Option (List RLabel × RState)
  | ls, [] => some ([], ls)
  | ls, e :: es =>
    match absR base ls e with
    | none => none
    | some none => absRunR base ls es
    | some (some l) =>
      match rlstep ls l with
      | none => none
      | some ls1 =>
        match absRunR base ls1 es with
        | some (labs, ls2) => some (l :: labs, ls2)
        | none => none

theorem absRunR_rlrun (base) : ∀ (es : List Event) (ls labs ls'),
    absRunR base ls es = some (labs, ls') → rlrun ls labs = some ls' := by
  intro es
  induction es with
  | nil => intro ls labs ls' h; simp [absRunR] at h; obtain ⟨rfl, rfl⟩ := h; rfl
  | cons e es ih =>
    intro ls labs ls' h
    simp only [absRunR] at h
    split at h
    · simp at h
    · exact ih _ _ _ h
    · split at h
      · simp at h
      · rename_i l _ ls1 h1
        split at h
        · rename_i labs2 ls2 h2
          simp only [Option.some.injEq, Prod.mk.injEq] at h
          obtain ⟨rfl, rfl⟩ := h
          simp only [rlrun, h1]
          exact ih _ _ _ h2
        · simp at h

theorem absRunR_append (base) : ∀ (a b : List Event) (ls la ls1), absRunR base ls a = some (la, ls1) →
    absRunR base ls (a ++ b) = (absRunR base ls1 b).map (fun r => (la ++ r.1, r.2)) := by
  intro a
  induction a with
  | nil =>
    intro b ls la ls1 h; simp [absRunR] at h; obtain ⟨rfl, rfl⟩ := h
    simp only [List.nil_append]
    generalize absRunR base ls b = r
    cases r <;> simp
  | cons e a ih =>
    intro b ls la ls1 h
    simp only [absRunR, List.cons_append] at h ⊢
    split at h
    · simp at h
    · exact ih _ _ _ _ h
    · split at h
      · simp at h
      · split at h
        · rename_i labs2 ls3 h2
          simp only [Option.some.injEq, Prod.mk.injEq] at h
          obtain ⟨rfl, rfl⟩ := h
          rw [ih _ _ _ _ h2]
          generalize absRunR base ls3 b = r
          cases r <;> simp
        · simp at h

/-- one iteration of the source loop is `rLd` (1–3 times) then `rInvoke` of the local automaton, with the same values -/
theorem absR_iter (base : Loc) (t H i : Nat) (lo : BitVec 64) (inp : List Val) (hne : i ≠ H) (hw : WordInp inp) :
    ∃ labs ls', absRunR base ⟨.iter, t, i, .top, H, lo⟩ (iterSpec base i lo inp).events = some (labs, ls') ∧
      ((iterSpec base i lo inp).done = true →
        ls' = ⟨.iter, t, (iterSpec base i lo inp).i, .top, H, (iterSpec base i lo inp).lo⟩) := by
  match inp, hw with
  | [], _ => simp [iterSpec, absRunR, absR]
  | v0 :: r0, hw =>
    obtain ⟨w0, rfl⟩ := hw v0 (by simp)
    by_cases hf : isFct w0 = true
    · match r0, hw with
      | [], _ => simp [iterSpec, absRunR, absR, rlstep, ldq, callEv, hne, hf]
      | [v1], _ => simp [iterSpec, absRunR, absR, rlstep, ldq, callEv, hne, hf]
      | v1 :: rv :: r2, hw =>
        obtain ⟨w1, rfl⟩ := hw v1 (by simp)
        simp [iterSpec, absRunR, absR, rlstep, ldq, callEv, hne, hf]
    · have hf' : isFct w0 = false := by simpa using hf
      by_cases hm : w0 = fctMark
      · subst hm
        match r0, hw with
        | [], _ => simp [iterSpec, absRunR, absR, rlstep, ldq, callEv, hne, isFct_fctMark]
        | [v1], _ => simp [iterSpec, absRunR, absR, rlstep, ldq, callEv, hne, isFct_fctMark]
        | [v1, v2], _ => simp [iterSpec, absRunR, absR, rlstep, ldq, callEv, hne, isFct_fctMark]
        | v1 :: v2 :: rv :: r3, hw =>
          obtain ⟨w1, rfl⟩ := hw v1 (by simp)
          obtain ⟨w2, rfl⟩ := hw v2 (by simp)
          simp [iterSpec, absRunR, absR, rlstep, ldq, callEv, hne, isFct_fctMark]
      · match r0, hw with
        | [], _ => simp [iterSpec, absRunR, absR, rlstep, ldq, callEv, hne, hf', hm]
        | rv :: r1, hw => simp [iterSpec, absRunR, absR, rlstep, ldq, callEv, hne, hf', hm]

theorem absR_loop (base : Loc) (t H : Nat) : ∀ (n i : Nat) (lo : BitVec 64) (inp : List Val) (acc : List Event)
    (ls0 : RState) (la : List RLabel), WordInp inp → absRunR base ls0 acc = some (la, ⟨.iter, t, i, .top, H, lo⟩) →
    ∃ labs ls', absRunR base ls0 (loopSpec base H n i lo inp acc).events = some (labs, ls') ∧
      ((loopSpec base H n i lo inp acc).ctl = .normal →
        ls' = ⟨.iter, t, H, .top, H, (loopSpec base H n i lo inp acc).lo⟩) := by
  intro n
  induction n with
  | zero => intro i lo inp acc ls0 la hw h; exact ⟨_, _, by simpa [loopSpec] using h, by simp [loopSpec]⟩
  | succ n ih =>
    intro i lo inp acc ls0 la hw h
    unfold loopSpec
    by_cases hiH : i = H
    · simp only [hiH, if_true]
      exact ⟨_, _, h, fun _ => by rw [hiH]⟩
    · simp only [hiH, if_false]
      obtain ⟨labs1, ls1, h1, h2⟩ := absR_iter base t H i lo inp hiH hw
      have happ := absRunR_append base acc (iterSpec base i lo inp).events ls0 la _ h
      rw [h1] at happ
      simp only [Option.map_some] at happ
      by_cases hd : (iterSpec base i lo inp).done = true
      · simp only [hd, if_true]
        have hw' : WordInp (iterSpec base i lo inp).inp := fun v hv => hw v (iterSpec_inp_sub base i lo inp v hv)
        rw [h2 hd] at happ
        exact ih _ _ _ _ ls0 _ hw' happ
      · simp only [hd]
        exact ⟨_, _, happ, by simp⟩

/-- the local state of the runner when `rcu_defer_barrier_queue(queue t, H)` starts its loop (after L2's `rBegin`, whose
read of `tail` is the plain load `i = queue->tail` of the source: no event) -/
def rstart (t T H : Nat) (lo : BitVec 64) : RState := ⟨.iter, t, T, .top, H, lo⟩

/-- **`rcu_defer_barrier_queue` ⊑ runner automaton**: for every budget and every oracle of words, every run – complete,
blocked at an access, or out of budget – is accepted label by label by the local automaton from the state after `rBegin`;
a completed run ends after `fin H` at pc `run` with the decoded `last_fct_out`. -/
theorem barrier_queue_abs (fuel : Nat) (env : Env) (base : Loc) (t T H : Nat) (lo : BitVec 64) (inp : List Val)
    (hq : env.vars "queue" = some (.ptr base)) (hH : env.vars "head" = some (.int (H : Int)))
    (hT : env.priv (.field base "tail") = some (.int (T : Int)))
    (hlo : env.priv (.field base "last_fct_out") = some (wv lo)) (hw : WordInp inp) :
    ∃ out labs ls', exec fuel Gen.Src.«rcu_defer_barrier_queue» env inp = .ok out ∧
      absRunR base (rstart t T H lo) out.events = some (labs, ls') ∧
      (out.ctl = .normal → ls'.rpc = .run ∧ ls'.ri = H ∧ ls'.rit = .top ∧ ls'.cur = t ∧
        out.env.priv (.field base "last_fct_out") = some (wv ls'.lastOut) ∧
        out.env.priv (.field base "tail") = some (.int (H : Int))) := by
  obtain ⟨o, ho, -, h1, h2⟩ := cons_exec fuel env base T H lo inp hq hH hT hlo hw
  obtain ⟨labs, ls', hl, hn⟩ := absR_loop base t H fuel T lo inp [] (rstart t T H lo) [] hw (by simp [absRunR, rstart])
  by_cases hc : (loopSpec base H fuel T lo inp []).ctl = .normal
  · obtain ⟨e1, e2, e3, e4, e5, e6⟩ := h1 hc
    have hls := hn hc
    have happ := absRunR_append base _ [.fence .mb, .st (.field base "tail") (.int (H : Int)) 0] _ _ _ hl
    rw [hls] at happ
    simp [absRunR, absR, rlstep] at happ
    refine ⟨o, _, _, ho, by rw [e1]; exact happ, ?_⟩
    intro _
    exact ⟨rfl, rfl, rfl, rfl, e5, e4⟩
  · obtain ⟨e1, e2⟩ := h2 hc
    refine ⟨o, labs, ls', ho, by rw [e1]; exact hl, ?_⟩
    intro hcn; rw [e2] at hcn; exact absurd hcn hc

end UrcuVerif.Src.DeferR
