/-!
# Source-level IR of the small static-inline primitives of /repo, and its event semantics

`harness/gen/gen_src.py` **translates the C text of /repo on every run** (function bodies of the static headers,
callees inlined, the concurrency macros `uatomic_*`, `CMM_LOAD_SHARED`, `cmm_smp_mb`, … kept as primitives) into
values of `Stmt` (`UrcuVerif/Gen/Src.lean`, regenerated, never edited).  This file gives those values a meaning:
`exec` runs a statement of ONE thread against an *oracle* for the values that its shared loads / read-modify-writes
return (`inp`, consumed in order) and yields the list of shared-memory events the thread performs, its final local
environment and how it ended.  Running out of oracle values ends the run `blocked`: the runs of `exec` over all
oracles are therefore exactly the *prefixes* of the thread's event sequences, which is what a refinement argument
about arbitrary interleavings with other threads needs (any thread may be preempted forever at any access).

The refinement theorems (`Src/*Refine.lean`, `Props/Src*.lean`) state, for the **generated** program values, that
every event sequence of `exec` is a label sequence of the thread-local projection of the proven abstract model (L2):
that is the tie "source text ⊑ L2" *proved* for every schedule, where `Driver/*.lean` (L1) only checks it on the
schedules a harness explored.  `Driver/Src.lean` additionally replays the events of real executions on `exec`
(validation of the translator and of this semantics against the compiled code).

Modelled, not verified, here: C integer arithmetic is exact (`Int`; no wrap-around – the properties that are about
widths are C20's), bitwise operators are defined on non-negative operands only (anything else is an error, never a
default), memory orders of the primitives are not represented, plain accesses read the thread's private view `priv`
(own stores are forwarded to it; a plain load of a location without a private value is an error).
-/
namespace UrcuVerif.Src

/-- symbolic address -/
inductive Loc
  | glob (g : String)                  -- `&g` of a global object
  | tls (g : String)                   -- `&URCU_TLS(g)` of the executing thread
  | obj (id : Nat)                     -- a heap object handed in as a parameter
  | field (base : Loc) (f : String)    -- `&base->f`
  deriving DecidableEq, Repr, Inhabited

/-- C values: integers (NULL is the integer 0, as in C: the traces of the compiled code print it so) and symbolic pointers -/
inductive Val
  | int (n : Int)
  | ptr (l : Loc)
  deriving DecidableEq, Repr, Inhabited

def Val.truthy : Val → Bool
  | .int n => n != 0
  | .ptr _ => true

inductive UnOp | lnot | bnot | neg
  deriving DecidableEq, Repr
inductive BinOp | add | sub | band | bor | bxor | shl | shr | eq | ne | lt | le | gt | ge | land | lor | mul | div | mod
  | tagand | tagor     -- `((unsigned long) p) & m`, `((unsigned long) p) | k` on a pointer-typed p: act on its low tag bits
  deriving DecidableEq, Repr

inductive Expr
  | lit (n : Int)
  | cst (name : String) (n : Int)      -- named constant of the source, value resolved by the translator
  | null
  | var (x : String)
  | addrGlob (g : String)
  | addrTls (g : String)
  | fieldAddr (e : Expr) (f : String)  -- `&(e)->f`
  | pload (e : Expr)                   -- plain load of `*e`
  | parent (e : Expr) (f : String)     -- `caa_container_of(e, T, f)` for a member f that is not at offset 0: e must be `&obj->f`
  | index (e i : Expr)                 -- `&(e)[i]`: element i of the array at e (named as the field "[i]")
  | un (op : UnOp) (e : Expr)
  | bin (op : BinOp) (a b : Expr)
  deriving Repr, Inhabited

/-- the concurrency primitives the translator keeps opaque -/
inductive Prim
  | uload | ustore | uxchg | ucmpxchg
  | uadd | usub | uor | uand | uinc | udec            -- no value returned
  | uaddret | usubret                                 -- new value returned
  | mb | rmb | wmb | barrier | relax
  | ext (name : String)                               -- external call (futex_async, …): arguments evaluated, result from the oracle
  deriving DecidableEq, Repr

inductive Stmt
  | skip
  | seq (a b : Stmt)
  | assign (x : String) (e : Expr)
  | pstore (l : Expr) (e : Expr)       -- plain store `*l = e`
  | ifte (c : Expr) (a b : Stmt)
  | loop (body : Stmt)                 -- `for (;;) body`   (`while (c) b` = `loop (ifte c b brk)`)
  | brk | cont
  | prim (dst : Option String) (p : Prim) (args : List Expr)
  | assertDbg (e : Expr)               -- `urcu_assert_debug(e)`: compiled out in the default build, no event
  | ret (e : Option Expr)
  | call (dst : Option String) (params : List String) (args : List Expr) (body : Stmt)
                                       -- call of a static inline function of /repo: the translator puts the callee's
                                       -- translated body here (fresh locals = the parameters; `ret` ends the callee only)
  deriving Repr, Inhabited

/-- shared-memory events of one thread; `mo` = the `enum cmm_memorder` value the source passes (explicitly or by the
default of `urcu/uatomic/api.h`, which the translator reads), 7 = `CMM_LOAD_SHARED`/`CMM_STORE_SHARED` (volatile access) -/
inductive Event
  | ld (l : Loc) (v : Val) (mo : Int)
  | st (l : Loc) (v : Val) (mo : Int)
  | xchg (l : Loc) (new old : Val) (mo : Int)
  | cas (l : Loc) (exp new old : Val) (mos mof : Int)
  | rmw (op : Prim) (l : Loc) (operand result : Val) (mo : Int)
  | fence (p : Prim)
  | ext (name : String) (args : List Val) (ret : Val)
  deriving DecidableEq, Repr

structure Env where
  vars : String → Option Val
  priv : Loc → Option Val

def Env.setVar (e : Env) (x : String) (v : Val) : Env := { e with vars := fun y => if y = x then some v else e.vars y }
def Env.setPriv (e : Env) (l : Loc) (v : Val) : Env := { e with priv := fun m => if m = l then some v else e.priv m }

/-! Low tag bits of pointers (rculfhash: REMOVED / BUCKET / REMOVAL_OWNER in bits 0-2 of `next`): a tagged pointer is the
location `field l "|k"` (k ≠ 0) of the untagged `l`; `p | k`, `p & k` (k < 8) and `p & ~mask` act on the tag only. -/
def Loc.tagOf : Loc → Nat
  | .field _ f => if f.startsWith "|" then (f.drop 1).toString.toNat?.getD 0 else 0
  | _ => 0
def Loc.untag : Loc → Loc
  | .field b f => if f.startsWith "|" then b else .field b f
  | l => l
def Loc.withTag (l : Loc) (k : Nat) : Loc := if k = 0 then l.untag else .field l.untag s!"|{k}"

def evalUn : UnOp → Val → Except String Val
  | .lnot, v => .ok (.int (if v.truthy then 0 else 1))
  | .bnot, _ => .error "bnot: not in the subset"
  | .neg, .int n => .ok (.int (-n))
  | .neg, _ => .error "neg of a pointer"

def boolV (b : Bool) : Val := .int (if b then 1 else 0)

def evalBin : BinOp → Val → Val → Except String Val
  | .add, .int a, .int b => .ok (.int (a + b))
  | .sub, .int a, .int b => .ok (.int (a - b))
  | .mul, .int a, .int b => .ok (.int (a * b))
  | .div, .int a, .int b => if 0 ≤ a ∧ 0 < b then .ok (.int (a / b)) else .error "division: operand sign not in the subset"
  | .mod, .int a, .int b => if 0 ≤ a ∧ 0 < b then .ok (.int (a % b)) else .error "modulo: operand sign not in the subset"
  | .band, .int a, .int b => if 0 ≤ a ∧ 0 ≤ b then .ok (.int (Int.ofNat (a.toNat &&& b.toNat))) else .error "band of a negative operand"
  | .bor, .int a, .int b => if 0 ≤ a ∧ 0 ≤ b then .ok (.int (Int.ofNat (a.toNat ||| b.toNat))) else .error "bor of a negative operand"
  | .bxor, .int a, .int b => if 0 ≤ a ∧ 0 ≤ b then .ok (.int (Int.ofNat (a.toNat ^^^ b.toNat))) else .error "bxor of a negative operand"
  | .shl, .int a, .int b => if 0 ≤ a ∧ 0 ≤ b then .ok (.int (Int.ofNat (a.toNat <<< b.toNat))) else .error "shl of a negative operand"
  | .shr, .int a, .int b => if 0 ≤ a ∧ 0 ≤ b then .ok (.int (Int.ofNat (a.toNat >>> b.toNat))) else .error "shr of a negative operand"
  | .eq, a, b => .ok (boolV (a = b))
  | .ne, a, b => .ok (boolV (a ≠ b))
  | .lt, .int a, .int b => .ok (boolV (a < b))
  | .le, .int a, .int b => .ok (boolV (a ≤ b))
  | .gt, .int a, .int b => .ok (boolV (a > b))
  | .ge, .int a, .int b => .ok (boolV (a ≥ b))
  | .land, a, b => .ok (boolV (a.truthy && b.truthy))     -- operands are call-free in the subset: no short-circuit effect
  | .lor, a, b => .ok (boolV (a.truthy || b.truthy))
  | .tagor, .ptr l, .int k =>
    if 0 ≤ k ∧ k < 8 then .ok (.ptr (l.withTag (l.tagOf ||| k.toNat))) else .error "tagor: more than tag bits"
  | .tagor, .int a, .int k => if 0 ≤ a ∧ 0 ≤ k then .ok (.int (Int.ofNat (a.toNat ||| k.toNat))) else .error "tagor of a negative operand"
  | .tagand, .ptr l, .int m =>
    if 0 ≤ m ∧ m < 8 then .ok (.int (Int.ofNat (l.tagOf &&& m.toNat)))                       -- test of tag bits
    else if 4294967296 ≤ m then .ok (.ptr (l.withTag (l.tagOf &&& (m.toNat % 8))))             -- `& ~mask`: clears tag bits only
    else .error "tagand of a pointer with this mask"
  | .tagand, .int a, .int m => if 0 ≤ a ∧ 0 ≤ m then .ok (.int (Int.ofNat (a.toNat &&& m.toNat))) else .error "tagand of a negative operand"
  | _, _, _ => .error "binary operator on these operand kinds: not in the subset"

def asLoc : Val → Except String Loc
  | .ptr l => .ok l
  | _ => .error "dereference of a non-pointer"

def eval (env : Env) : Expr → Except String Val
  | .lit n => .ok (.int n)
  | .cst _ n => .ok (.int n)
  | .null => .ok (.int 0)
  | .var x => match env.vars x with
    | some v => .ok v
    | none => .error s!"unbound local {x}"
  | .addrGlob g => .ok (.ptr (.glob g))
  | .addrTls g => .ok (.ptr (.tls g))
  | .fieldAddr e f => do
    let l ← asLoc (← eval env e)
    .ok (.ptr (.field l f))
  | .parent e f => do
    match ← asLoc (← eval env e) with
    | .field b g => if g = f then .ok (.ptr b) else .error s!"container_of: the pointer is the address of member {g}, not {f}"
    | _ => .error "container_of: the pointer is not the address of a member"
  | .index e i => do
    let l ← asLoc (← eval env e)
    match ← eval env i with
    | .int n => .ok (.ptr (.field l s!"[{n}]"))
    | _ => .error "array index is a pointer"
  | .pload e => do
    let l ← asLoc (← eval env e)
    match env.priv l with
    | some v => .ok v
    | none => .error s!"plain load of a location without a private value: {repr l}"
  | .un op e => do evalUn op (← eval env e)
  | .bin op a b => do evalBin op (← eval env a) (← eval env b)

def evalArgs (env : Env) : List Expr → Except String (List Val)
  | [] => .ok []
  | e :: es => do
    let v ← eval env e
    let vs ← evalArgs env es
    .ok (v :: vs)

inductive Ctl
  | normal | brk | cont
  | ret (v : Option Val)
  | blocked            -- the oracle ran out at a value-returning access: a prefix of a run
  | fuel               -- loop budget exhausted (executable use only; theorems quantify over the budget)
  deriving DecidableEq, Repr

structure Out where
  events : List Event
  env : Env
  inp : List Val
  ctl : Ctl

def setDst (env : Env) : Option String → Val → Env
  | none, _ => env
  | some x, v => env.setVar x v

def bindParams : List String → List Val → String → Option Val
  | x :: xs, v :: vs => fun y => if y = x then some v else bindParams xs vs y
  | _, _ => fun _ => none

/-- one primitive; `inp` = remaining oracle -/
def execPrim (env : Env) (inp : List Val) (dst : Option String) (p : Prim) (args : List Val) : Except String Out :=
  let need (k : Val → List Val → Except String Out) : Except String Out :=
    match inp with
    | [] => .ok { events := [], env := env, inp := [], ctl := .blocked }
    | v :: rest => k v rest
  match p, args with
  | .uload, [a, .int mo] => do
    let l ← asLoc a
    need fun v rest => .ok { events := [.ld l v mo], env := setDst env dst v, inp := rest, ctl := .normal }
  | .ustore, [a, v, .int mo] => do
    let l ← asLoc a
    .ok { events := [.st l v mo], env := env.setPriv l v, inp := inp, ctl := .normal }
  | .uxchg, [a, v, .int mo] => do
    let l ← asLoc a
    need fun old rest => .ok { events := [.xchg l v old mo], env := setDst env dst old, inp := rest, ctl := .normal }
  | .ucmpxchg, [a, e, n, .int mos, .int mof] => do
    let l ← asLoc a
    need fun old rest => .ok { events := [.cas l e n old mos mof], env := setDst env dst old, inp := rest, ctl := .normal }
  | .uadd, [a, v, .int mo] | .usub, [a, v, .int mo] | .uor, [a, v, .int mo] | .uand, [a, v, .int mo]
  | .uaddret, [a, v, .int mo] | .usubret, [a, v, .int mo] => do
    let l ← asLoc a
    need fun r rest => .ok { events := [.rmw p l v r mo], env := setDst env dst r, inp := rest, ctl := .normal }
  | .uinc, [a, .int mo] | .udec, [a, .int mo] => do
    let l ← asLoc a
    need fun r rest => .ok { events := [.rmw p l (.int 1) r mo], env := env, inp := rest, ctl := .normal }
  | .mb, [] | .rmb, [] | .wmb, [] | .barrier, [] | .relax, [] =>
    .ok { events := [.fence p], env := env, inp := inp, ctl := .normal }
  | .ext name, vs =>
    need fun r rest => .ok { events := [.ext name vs r], env := setDst env dst r, inp := rest, ctl := .normal }
  | _, _ => .error s!"primitive {repr p} with {args.length} arguments: not in the subset"

/-- `for (;;) body` with a budget; `body` is the executor of the loop body -/
def iterate (body : Env → List Val → Except String Out) : Nat → Env → List Val → List Event → Except String Out
  | 0, env, inp, acc => .ok { events := acc, env := env, inp := inp, ctl := .fuel }
  | n+1, env, inp, acc => do
    let o ← body env inp
    match o.ctl with
    | .normal | .cont => iterate body n o.env o.inp (acc ++ o.events)
    | .brk => .ok { o with events := acc ++ o.events, ctl := .normal }
    | c => .ok { o with events := acc ++ o.events, ctl := c }

/-- run a statement; `fuel` bounds the iterations of each loop -/
def exec (fuel : Nat) : Stmt → Env → List Val → Except String Out
  | .skip, env, inp => .ok { events := [], env := env, inp := inp, ctl := .normal }
  | .seq a b, env, inp => do
    let o ← exec fuel a env inp
    match o.ctl with
    | .normal => do
      let o2 ← exec fuel b o.env o.inp
      .ok { o2 with events := o.events ++ o2.events }
    | _ => .ok o
  | .assign x e, env, inp => do
    let v ← eval env e
    .ok { events := [], env := env.setVar x v, inp := inp, ctl := .normal }
  | .pstore l e, env, inp => do
    let a ← asLoc (← eval env l)
    let v ← eval env e
    .ok { events := [], env := env.setPriv a v, inp := inp, ctl := .normal }
  | .ifte c a b, env, inp => do
    let v ← eval env c
    if v.truthy then exec fuel a env inp else exec fuel b env inp
  | .loop body, env, inp => iterate (fun e i => exec fuel body e i) fuel env inp []
  | .brk, env, inp => .ok { events := [], env := env, inp := inp, ctl := .brk }
  | .cont, env, inp => .ok { events := [], env := env, inp := inp, ctl := .cont }
  | .prim dst p args, env, inp => do
    let vs ← evalArgs env args
    execPrim env inp dst p vs
  | .assertDbg _, env, inp => .ok { events := [], env := env, inp := inp, ctl := .normal }
  | .ret none, env, inp => .ok { events := [], env := env, inp := inp, ctl := .ret none }
  | .ret (some e), env, inp => do
    let v ← eval env e
    .ok { events := [], env := env, inp := inp, ctl := .ret (some v) }
  | .call dst params args body, env, inp => do
    let vs ← evalArgs env args
    if params.length ≠ vs.length then .error "call: arity" else
    let o ← exec fuel body { vars := bindParams params vs, priv := env.priv } inp
    match o.ctl with
    | .normal | .ret none => .ok { o with env := { vars := env.vars, priv := o.env.priv }, ctl := .normal }
    | .ret (some v) => .ok { o with env := setDst { vars := env.vars, priv := o.env.priv } dst v, ctl := .normal }
    | .brk | .cont => .error "break/continue escapes a function body"
    | c => .ok { o with ctl := c }

/-- sequence of a list of statements (what the translator emits for a block) -/
def block : List Stmt → Stmt
  | [] => .skip
  | [s] => s
  | s :: ss => .seq s (block ss)

def Env.empty : Env := { vars := fun _ => none, priv := fun _ => none }

end UrcuVerif.Src
