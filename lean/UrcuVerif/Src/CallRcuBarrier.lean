import UrcuVerif.Gen.Src
import UrcuVerif.Src.StackExec
import UrcuVerif.CallRcu.Barrier
/-!
# `_rcu_barrier_complete` / `free_completion` ⊑ thread-local projection of `CallRcu/Barrier.lean` (C04: the counting)

The marker callback of `rcu_barrier()` running on helper `h` (L2: `mrun h = some (b, h')`, program counter `mpc h`).
Local labels = the accesses with the values observed: `sub r` = `uatomic_sub_return(&completion->barrier_count, 1)`
returned `r` (L2 `mSub`, `r = cnt b - 1`), `ldFut v` (`mLdFut`), `stFut` (`mStFut`), `wake` (`mWake`), `put r` =
`uatomic_sub_return(&completion->ref.refcount, 1)` returned `r` (`mPut`, `r = ref b - 1`), `release` = the call
`release(ref)` = `free_completion` (no L2 label: L2 sets `bfreed b` in `mPut` when `ref b - 1 = 0`; the automaton accepts
`release` exactly then, and requires it before `free(work)`), `freeWork` = `free(work)` (no L2 label).
-/
set_option linter.unusedSimpArgs false
set_option linter.unusedVariables false
set_option maxRecDepth 4096
namespace UrcuVerif.Src.CallRcuB
open UrcuVerif UrcuVerif.Src UrcuVerif.Gen.Src UrcuVerif.CallRcu

structure LState where
  pc : MPc
  rel : Bool      -- the last reference was dropped: `release(ref)` is due
  deriving DecidableEq, Repr

inductive LLabel
  | sub (r : Int) | ldFut (v : Int) | stFut | wake | put (r : Int) | release | freeWork | bad
  deriving DecidableEq, Repr

def lstepAt (ls : LState) (pc : MPc) (l : LLabel) : Option LState :=
  match pc with
  | .idle => (match l with | .sub r => some { ls with pc := if r = 0 then .ldFut else .put } | _ => none)
  | .ldFut => (match l with | .ldFut v => some { ls with pc := if v = -1 then .stFut else .put } | _ => none)
  | .stFut => (match l with | .stFut => some { ls with pc := .wake } | _ => none)
  | .wake => (match l with | .wake => some { ls with pc := .put } | _ => none)
  | .put => (match l with | .put r => some { pc := .fin, rel := decide (r = 0) } | _ => none)
  | .fin =>
    match l with
    | .release => if ls.rel then some { ls with rel := false } else none
    | .freeWork => if ls.rel then none else some ls
    | _ => none

def lstep (ls : LState) (l : LLabel) : Option LState := lstepAt ls ls.pc l

def lrun : LState → List LLabel → Option LState
  | ls, [] => some ls
  | ls, l :: r => match lstep ls l with
    | some ls' => lrun ls' r
    | none => none

def toL2 (h : Nat) : LLabel → List BLabel
  | .sub _ => [.mSub h] | .ldFut _ => [.mLdFut h] | .stFut => [.mStFut h] | .wake => [.mWake h] | .put _ => [.mPut h]
  | _ => []

/-- observed values, for the marker of barrier `b` -/
def Obs (s : BState) (b : Nat) : LLabel → Prop
  | .sub r => r = s.cnt b - 1
  | .ldFut v => v = s.fut b
  | .put r => r = s.ref b - 1
  | _ => True

/-- a local step with the global state's values is the L2 step (stutter for `release` / `freeWork`); the helper keeps
running the same marker; `release` becomes due exactly when L2 marks the completion freed -/
theorem lift_step (c : Cfg) (s : BState) (h b h' : Nat) (ls ls' : LState) (l : LLabel)
    (hm : s.mrun h = some (b, h')) (hpc : ls.pc = s.mpc h) (ho : Obs s b l) (hs : lstep ls l = some ls') :
    ∃ s', brun c s (toL2 h l) = some s' ∧ ls'.pc = s'.mpc h ∧ s'.mrun h = some (b, h') ∧
      (∀ r, l = .put r → s.bfreed b = false → (ls'.rel = true ↔ s'.bfreed b = true)) := by
  rcases ls with ⟨pc, rel⟩
  simp only [] at hpc
  have hpc' := hpc.symm
  unfold lstep at hs
  simp only [] at hs
  cases pc <;> cases l <;> simp only [lstepAt, reduceCtorEq] at hs <;> simp only [Obs] at ho <;>
    (repeat' split at hs) <;> simp only [Option.some.injEq, reduceCtorEq] at hs <;> subst hs <;>
    simp_all [toL2, brun, bstep]
  intro hb
  by_cases e : s.ref b - 1 = 0 <;> simp [e, hb]

/-! ## the generated `_rcu_barrier_complete` -/

def wakeArgs (F : Loc) : List Val := [.ptr F, .int 1, .int 1, .int 0, .int 0, .int 0]

/-- abstraction of events; `B` = the completion object, `W` = the work item (`struct call_rcu_completion_work`) -/
def absB (B W : Loc) : Event → List LLabel
  | .fence _ => []
  | .rmw p l operand r _ =>
    if p = .usubret ∧ operand = .int 1 then
      (match r with
       | .int n => if l = .field B "barrier_count" then [.sub n]
                   else if l = .field (.field B "ref") "refcount" then [.put n] else [.bad]
       | _ => [.bad])
    else [.bad]
  | .ld l v _ => if l = .field B "futex" then (match v with | .int n => [.ldFut n] | _ => [.bad]) else [.bad]
  | .st l v _ => if l = .field B "futex" ∧ v = .int 0 then [.stFut] else [.bad]
  | .ext name args _ =>
    if name = "futex_async" then (if args = wakeArgs (.field B "futex") then [.wake] else [.bad])
    else if name = "release" then (if args = [.ptr (.field B "ref")] then [.release] else [.bad])
    else if name = "free" then (if args = [.ptr W] then [.freeWork] else [.bad])
    else [.bad]
  | _ => [.bad]

def Follows : List (Val → Prop) → List Val → Prop
  | [], _ => True
  | _ :: _, [] => True
  | p :: ps, v :: vs => p v ∧ Follows ps vs

def anyV : Val → Prop := fun _ => True

/-- oracle of `_rcu_barrier_complete` along the path (`r` = new `barrier_count`, `v` = futex word seen if `r = 0`,
`w ≥ 0` = result of FUTEX_WAKE if `v = -1`, `res` = new reference count; then the returns of `release` / `free`) -/
def cplSpec (r v : Int) (w : Nat) (res : Int) : List (Val → Prop) :=
  [(· = .int r)] ++ (if r = 0 then [(· = .int v)] ++ (if v = -1 then [(· = .int w)] else []) else []) ++
  [(· = .int res)] ++ (if res = 0 then [anyV] else []) ++ [anyV]

open Lean.Parser.Tactic in
set_option hygiene false in
macro "cpl_leaves" : tactic => `(tactic| (
  (rcases inp with _ | ⟨x1, _ | ⟨x2, _ | ⟨x3, _ | ⟨x4, _ | ⟨x5, _ | ⟨x6, rest⟩⟩⟩⟩⟩⟩) <;>
  simp only [cplSpec, Follows, List.cons_append, List.nil_append, anyV, hr, hv, hres, if_true, if_false,
    List.append_nil] at hF <;>
  sexec [«_rcu_barrier_complete», «call_rcu_completion_wake_up», «urcu_ref_put», hr, hv, hres, hF] <;>
  simp [absB, lrun, lstep, lstepAt, wakeArgs, List.flatMap_cons, hr, hv, hres, hF]))

theorem complete_aux0 (fuel : Nat) (env : Env) (inp : List Val) (B W : Loc) (r v : Int) (w : Nat) (res : Int)
    (hr : r = 0) (h1 : env.vars "head" = some (.ptr (.field W "head")))
    (h2 : env.priv (.field W "completion") = some (.ptr B)) (hF : Follows (cplSpec r v w res) inp) :
    ∃ out, exec fuel «_rcu_barrier_complete» env inp = .ok out ∧
      ∃ ls', lrun ⟨.idle, false⟩ (out.events.flatMap (absB B W)) = some ls' ∧
        (out.ctl = .blocked ∨ (out.ctl = .normal ∧ ls' = ⟨.fin, false⟩)) := by
  have hw : ¬ ((w : Int) < 0) := by omega
  by_cases hv : v = -1 <;> by_cases hres : res = 0 <;> cpl_leaves

theorem complete_aux1 (fuel : Nat) (env : Env) (inp : List Val) (B W : Loc) (r v : Int) (w : Nat) (res : Int)
    (hr : ¬ r = 0) (h1 : env.vars "head" = some (.ptr (.field W "head")))
    (h2 : env.priv (.field W "completion") = some (.ptr B)) (hF : Follows (cplSpec r v w res) inp) :
    ∃ out, exec fuel «_rcu_barrier_complete» env inp = .ok out ∧
      ∃ ls', lrun ⟨.idle, false⟩ (out.events.flatMap (absB B W)) = some ls' ∧
        (out.ctl = .blocked ∨ (out.ctl = .normal ∧ ls' = ⟨.fin, false⟩)) := by
  have hv : True := trivial
  by_cases hres : res = 0 <;> cpl_leaves

/-- `_rcu_barrier_complete(head)` (the marker callback of `rcu_barrier()`): the counting of C04.  From L2's `mpc = idle` to
`fin`: `mSub` (the decrement, observed value `r`), the wake-up of the barrier's caller when the count reaches zero
(`mLdFut`, `mStFut`, `mWake`), `mPut` (the reference drop, observed value `res`), `release(ref)` = `free_completion`
exactly when the reference count reached zero, `free(work)` last. -/
theorem complete_refines (fuel : Nat) (env : Env) (inp : List Val) (B W : Loc) (r v : Int) (w : Nat) (res : Int)
    (h1 : env.vars "head" = some (.ptr (.field W "head")))
    (h2 : env.priv (.field W "completion") = some (.ptr B)) (hF : Follows (cplSpec r v w res) inp) :
    ∃ out, exec fuel «_rcu_barrier_complete» env inp = .ok out ∧
      ∃ ls', lrun ⟨.idle, false⟩ (out.events.flatMap (absB B W)) = some ls' ∧
        (out.ctl = .blocked ∨ (out.ctl = .normal ∧ ls' = ⟨.fin, false⟩)) := by
  by_cases hr : r = 0
  · exact complete_aux0 fuel env inp B W r v w res hr h1 h2 hF
  · exact complete_aux1 fuel env inp B W r v w res hr h1 h2 hF

/-- `free_completion(ref)` = `free(caa_container_of(ref, struct call_rcu_completion, ref))` -/
theorem free_completion_exec (fuel : Nat) (env : Env) (B : Loc) (x : Val) (rest : List Val)
    (h1 : env.vars "ref" = some (.ptr (.field B "ref"))) :
    ∃ out, exec fuel «free_completion» env (x :: rest) = .ok out ∧ out.events = [.ext "free" [.ptr B] x] ∧
      out.ctl = .normal := by
  sexec [«free_completion»]

end UrcuVerif.Src.CallRcuB
