import UrcuVerif.Src.WqRefine
import UrcuVerif.Src.Wq3Compl
/-!
# Completions, the queueing side (`src/workqueue.c`): `urcu_workqueue_create_completion`,
# `urcu_workqueue_queue_completion` (with `urcu_ref_get` / `urcu_ref_get_safe` and `urcu_workqueue_queue_work` inside)

`urcu_workqueue_queue_completion(workqueue, completion)` ⊑ the local automaton `qstepE` (partial-correctness logic `PT` of
`Src/Wq3Logic.lean`), whose states are

    alloc --calloc = Wk--> get --ld refcount = v--> cas v --cmpxchg(v → v+1) = r≠v--> cas r  (retry)
                                                      |--cmpxchg(v → v+1) = v--> inc          (reference taken: L2 `qcGet`)
                                                      |--[v = LONG_MAX] abort()--> failed      (absorbing: `abort` does not return)
    inc --uatomic_inc(&completion->barrier_count)--> q (enq id (compl b))                      (L2 `qcInc`)
    q pc --access of `urcu_workqueue_queue_work`, abstracted by `WqR.absEvT`--> q (WqL.tstep pc ·)

so **the enqueue of a completion work (`xchgTail id` from `q (enq id (compl b))`) is preceded by `barrier_count++`, itself
directly preceded by the successful `cmpxchg` of the reference count** (`qrun_queued_after_get_inc`); `cmpxchg` is attempted
only from the last value observed and never from `LONG_MAX`.  The part inside `q` is `WqL.tstep` (projection of `Wq.step`:
`WqL.tproj_lift`); `qcGet` / `qcInc` are lifted by `qcGet_lift` / `qcInc_lift`.

Typing contract `evOkQ Wk`: `calloc` returns the object `Wk` (a NULL result makes the source call `urcu_die`), loaded /
exchanged counts are integers, the flags word is non-negative, FUTEX_WAKE returns a count `≥ 0`.
-/
set_option linter.unusedSimpArgs false
set_option linter.unusedVariables false
set_option maxRecDepth 8192
namespace UrcuVerif.Src.Wq4
open UrcuVerif UrcuVerif.Src UrcuVerif.Gen.Src UrcuVerif.Wq WqL Wq3
open UrcuVerif.Src.WqR (Layout absEvT)

inductive QPc
  | alloc | get | cas (old : Int) | inc | q (pc : TPc) | failed
  deriving DecidableEq, Repr

def qstepE (L : Layout) (Wk : Loc) (id b : Nat) (pc : QPc) (e : Event) : Option QPc :=
  match pc with
  | .failed => some .failed
  | .alloc => (match e with
    | .ext name args r =>
      if name = "calloc" ∧ args = [.int 1, .int 24] ∧ r = .ptr Wk then some .get else none
    | _ => none)
  | .get => (match e with
    | .ld l v _ =>
      if l = .field (.field L.C "ref") "refcount" then (match v with | .int n => some (.cas n) | _ => none) else none
    | _ => none)
  | .cas old => (match e with
    | .cas l ex nw r _ _ =>
      if l = .field (.field L.C "ref") "refcount" ∧ ex = .int old ∧ nw = .int (old + 1) ∧ old ≠ 9223372036854775807 then
        (match r with | .int n => some (if n = old then .inc else .cas n) | _ => none)
      else none
    | .ext name _ _ => if name = "abort" ∧ old = 9223372036854775807 then some .failed else none
    | _ => none)
  | .inc => (match e with
    | .rmw op l _ _ _ =>
      if op = .uinc ∧ l = .field L.C "barrier_count" then some (.q (.enq id (.compl b))) else none
    | _ => none)
  | .q pc => (match absEvT L e with
    | none => some (.q pc)
    | some lab => (tstep pc lab).map .q)

def qrun (L : Layout) (Wk : Loc) (id b : Nat) : QPc → List Event → Option QPc
  | pc, [] => some pc
  | pc, e :: es => match qstepE L Wk id b pc e with
    | some pc' => qrun L Wk id b pc' es
    | none => none

theorem qrun_append (L : Layout) (Wk : Loc) (id b : Nat) (pc : QPc) (x y : List Event) :
    qrun L Wk id b pc (x ++ y) = (qrun L Wk id b pc x).bind (fun m => qrun L Wk id b m y) := by
  induction x generalizing pc with
  | nil => rfl
  | cons e x ih =>
    simp only [List.cons_append, qrun]
    cases qstepE L Wk id b pc e with
    | none => rfl
    | some p => exact ih p

theorem qrun_failed (L : Layout) (Wk : Loc) (id b : Nat) (evs : List Event) :
    qrun L Wk id b .failed evs = some .failed := by
  induction evs with
  | nil => rfl
  | cons e es ih => simp [qrun, qstepE, ih]

def evOkQ (L : Layout) (Wk : Loc) : Event → Bool
  | .ld l v _ => (match v with | .int n => if l = .field L.W "flags" then decide (0 ≤ n) else true | _ => false)
  | .cas _ _ _ r _ _ => (match r with | .int _ => true | _ => false)
  | .ext name _ r =>
    if name = "calloc" then decide (r = .ptr Wk)
    else if name = "futex_async" then (match r with | .int n => decide (0 ≤ n) | _ => false)
    else true
  | _ => true

def RQ (L : Layout) (Wk : Loc) (id b : Nat) : Rp QPc :=
  ⟨qrun L Wk id b, fun _ => rfl, qrun_append L Wk id b, evOkQ L Wk⟩

open Lean.Parser.Tactic in
macro "q_abs" " [" ls:simpLemma,* "]" : tactic =>
  `(tactic| simp [RQ, qrun, qstepE, absEvT, evOkQ, tstep, K.cont, Ctl.goesOn, $ls,*])

/-- a triple extended to the absorbing state `failed` (after `abort()`) -/
theorem PT.orFailed {L : Layout} {Wk : Loc} {id b fuel : Nat} {s : Stmt} {P : Env → QPc → Prop}
    {Q : Ctl → Env → QPc → Prop} (h : PT (RQ L Wk id b) fuel s P Q) :
    PT (RQ L Wk id b) fuel s (fun e l => P e l ∨ l = .failed) (fun c e l => Q c e l ∨ l = .failed) := by
  intro env inp ls o hp hE hok
  rcases hp with hp | rfl
  · obtain ⟨l1, h1, h2⟩ := h env inp ls o hp hE hok
    exact ⟨l1, h1, .inl h2⟩
  · exact ⟨.failed, qrun_failed L Wk id b _, .inr rfl⟩

-- ==========================================================================================================
/-! ## `urcu_ref_get_safe`, `urcu_ref_get` on `&completion->ref` -/

def gsBody : Stmt := (firstLoop «urcu_ref_get_safe»).getD .skip

/-- `old = uatomic_load(&ref->refcount)` -/
theorem gs_load (L : Layout) (Wk : Loc) (id b : Nat) (p0 : Loc → Option Val) (fuel : Nat) :
    PT (RQ L Wk id b) fuel (ForkX.splitSeq 1 «urcu_ref_get_safe»).1
      (fun e l => e.vars "ref" = some (.ptr (.field L.C "ref")) ∧ e.priv = p0 ∧ l = .get)
      (fun c e l => if c = .normal then
          (∃ n : Int, e.vars "old" = some (.int n) ∧ e.vars "ref" = some (.ptr (.field L.C "ref")) ∧ e.priv = p0 ∧ l = .cas n)
        else c = .blocked) := by
  intro env inp ls o ⟨hr, hp, hl⟩ hE hok
  subst hl
  rcases inp with _ | ⟨v, r1⟩
  · cx_at hE [«urcu_ref_get_safe», hr]; subst hE; q_abs []
  · cases v with
    | int n => cx_at hE [«urcu_ref_get_safe», hr]; subst hE; q_abs [hr, hp]
    | ptr p => cx_at hE [«urcu_ref_get_safe», hr]; subst hE; simp [RQ, evOkQ] at hok

/-- one iteration of the `cmpxchg` loop -/
theorem gs_body (L : Layout) (Wk : Loc) (id b : Nat) (p0 : Loc → Option Val) (fuel : Nat) :
    PT (RQ L Wk id b) fuel gsBody
      (fun e l => ∃ n : Int, e.vars "old" = some (.int n) ∧ e.vars "ref" = some (.ptr (.field L.C "ref")) ∧ e.priv = p0 ∧
        l = .cas n)
      (fun c e l => if c.goesOn then
          (∃ n : Int, e.vars "old" = some (.int n) ∧ e.vars "ref" = some (.ptr (.field L.C "ref")) ∧ e.priv = p0 ∧ l = .cas n)
        else ((c = .ret (some (.int 1)) ∧ l = .inc ∧ e.priv = p0) ∨
              (c = .ret (some (.int 0)) ∧ l = .cas 9223372036854775807 ∧ e.priv = p0) ∨ c = .blocked)) := by
  intro env inp ls o ⟨n, ho, hr, hp, hl⟩ hE hok
  subst hl
  by_cases hn : n = 9223372036854775807
  · subst hn
    cx_at hE [gsBody, firstLoop, «urcu_ref_get_safe», ho, hr]; subst hE; q_abs [hp]
  · rcases inp with _ | ⟨v, r1⟩
    · cx_at hE [gsBody, firstLoop, «urcu_ref_get_safe», ho, hr, hn, ForkX.evalBin_add]; subst hE; q_abs []
    · cases v with
      | ptr p =>
        cx_at hE [gsBody, firstLoop, «urcu_ref_get_safe», ho, hr, hn, ForkX.evalBin_add]; subst hE
        simp [RQ, evOkQ] at hok
      | int m =>
        by_cases hm : m = n
        · subst hm
          cx_at hE [gsBody, firstLoop, «urcu_ref_get_safe», ho, hr, hn, ForkX.evalBin_add]; subst hE; q_abs [hn, hp]
        · cx_at hE [gsBody, firstLoop, «urcu_ref_get_safe», ho, hr, hn, hm, ForkX.evalBin_add]; subst hE
          q_abs [hn, hm, hr, hp]

/-- **`urcu_ref_get_safe(&completion->ref)`**: returns 1 at `inc` (the successful `cmpxchg`), 0 at `cas LONG_MAX` -/
theorem get_safe_PT (L : Layout) (Wk : Loc) (id b : Nat) (p0 : Loc → Option Val) (fuel : Nat) :
    PT (RQ L Wk id b) fuel «urcu_ref_get_safe»
      (fun e l => e.vars "ref" = some (.ptr (.field L.C "ref")) ∧ e.priv = p0 ∧ l = .get)
      (fun c e l => (c = .ret (some (.int 1)) ∧ l = .inc ∧ e.priv = p0) ∨
        (c = .ret (some (.int 0)) ∧ l = .cas 9223372036854775807 ∧ e.priv = p0) ∨ c = .blocked ∨ c = .fuel) := by
  refine PT.split 1 (PT.seq (Mid := fun e l => ∃ n : Int, e.vars "old" = some (.int n) ∧
      e.vars "ref" = some (.ptr (.field L.C "ref")) ∧ e.priv = p0 ∧ l = .cas n)
    ((gs_load L Wk id b p0 fuel).conseq (fun _ _ h => h) ?_) ?_)
  · intro c e l h
    by_cases hc : c = .normal
    · simp_all
    · simp only [hc, if_false] at h ⊢; exact .inr (.inr (.inl h))
  · show PT (RQ L Wk id b) fuel (.loop gsBody) _ _
    refine (PT.loop (gs_body L Wk id b p0 fuel)).conseq (fun _ _ h => h) ?_
    intro c e l h
    rcases h with ⟨rfl, h⟩ | ⟨c0, hgo, h, rfl⟩
    · exact .inr (.inr (.inr rfl))
    · rcases h with ⟨hc, h1⟩ | ⟨hc, h1⟩ | hc <;> subst hc <;> simp_all [Ctl.afterLoop]

/-- **`urcu_ref_get(&completion->ref)`**: a completed call is at `inc`, or at `failed` after `abort()` -/
theorem ref_get_PT (L : Layout) (Wk : Loc) (id b : Nat) (p0 : Loc → Option Val) (fuel : Nat) :
    PT (RQ L Wk id b) fuel «urcu_ref_get»
      (fun e l => e.vars "ref" = some (.ptr (.field L.C "ref")) ∧ e.priv = p0 ∧ l = .get)
      (fun c e l => (c = .normal ∧ (l = .inc ∨ l = .failed) ∧ e.priv = p0) ∨ c = .blocked ∨ c = .fuel) := by
  show PT (RQ L Wk id b) fuel (.seq (.call (some "_t1") ["ref"] [.var "ref"] «urcu_ref_get_safe»)
    (.ifte (.un .lnot (.var "_t1")) (.prim none (.ext "abort") []) .skip)) _ _
  refine PT.seq (Mid := fun e l => e.priv = p0 ∧ ((e.vars "_t1" = some (.int 1) ∧ l = .inc) ∨
      (e.vars "_t1" = some (.int 0) ∧ l = .cas 9223372036854775807))) ?_ ?_
  · refine PT.call (get_safe_PT L Wk id b p0 fuel) ?_
    intro env ls ⟨hr, hp, hl⟩
    refine ⟨[.ptr (.field L.C "ref")], by simp [evalArgs, eval, hr, bind, Except.bind], rfl,
      ⟨by simp [bindParams], hp, hl⟩, ?_⟩
    intro c e ls' h
    rcases h with ⟨hc, h1, h2⟩ | ⟨hc, h1, h2⟩ | hc | hc <;> subst hc <;> simp_all [setDst, Env.setVar]
  · intro env inp ls o ⟨hp, h⟩ hE hok
    rcases h with ⟨ht, hl⟩ | ⟨ht, hl⟩
    · subst hl
      cx_at hE [ht]; subst hE; q_abs [hp]
    · subst hl
      rcases inp with _ | ⟨x, r1⟩
      · cx_at hE [ht]; subst hE; q_abs []
      · cx_at hE [ht]; subst hE; q_abs [hp]

-- ==========================================================================================================
/-! ## `urcu_workqueue_queue_work(workqueue, &work->work, _urcu_workqueue_wait_complete)` from `q (enq id (compl b))` -/

/-- `futex_wake_up(&workqueue->futex)` from `q (ldFutex k)` -/
theorem wake_up_Q (L : Layout) (Wk : Loc) (id b : Nat) (k : K) (fuel : Nat) :
    PT (RQ L Wk id b) fuel «futex_wake_up»
      (fun e l => e.vars "futex" = some (.ptr (.field L.W "futex")) ∧ l = .q (.ldFutex k))
      (fun c e l => (c = .normal ∧ l = .q k.cont) ∨ c = .blocked) := by
  intro env inp ls o ⟨hf, hl⟩ hE hok
  subst hl
  rcases inp with _ | ⟨v, r1⟩
  · cx_at hE [«futex_wake_up», hf]; subst hE; q_abs []
  · by_cases hv : v = .int (-1)
    · subst hv
      rcases r1 with _ | ⟨kk, r2⟩
      · cx_at hE [«futex_wake_up», hf]; subst hE; q_abs []
      · cases kk with
        | ptr l => cx_at hE [«futex_wake_up», hf, evalBin]
        | int n =>
          by_cases hn : n < 0
          · rcases r2 with _ | ⟨e, r3⟩
            · cx_at hE [«futex_wake_up», hf, hn]; subst hE; simp [RQ, evOkQ, hn] at hok; omega
            · rcases r3 with _ | ⟨d, r4⟩
              · cx_at hE [«futex_wake_up», hf, hn]; subst hE; simp [RQ, evOkQ, hn] at hok; omega
              · cx_at hE [«futex_wake_up», hf, hn]; subst hE; simp [RQ, evOkQ, hn] at hok; omega
          · cx_at hE [«futex_wake_up», hf, hn]; subst hE; q_abs []
    · cases v with
      | int n =>
        have hn : n ≠ -1 := fun h => hv (by rw [h])
        cx_at hE [«futex_wake_up», hf, hn]; subst hE; q_abs [hn]
      | ptr l =>
        cx_at hE [«futex_wake_up», hf]; subst hE
        simp [RQ, evOkQ] at hok

/-- `wake_worker_thread(workqueue)` from `q (ldFlags k)` -/
theorem wake_worker_Q (L : Layout) (Wk : Loc) (id b : Nat) (k : K) (fuel : Nat) :
    PT (RQ L Wk id b) fuel «wake_worker_thread»
      (fun e l => e.vars "workqueue" = some (.ptr L.W) ∧ l = .q (.ldFlags k))
      (fun c e l => (c = .normal ∧ l = .q k.cont) ∨ c = .blocked) := by
  show PT (RQ L Wk id b) fuel (.seq (.prim (some "_t1") .uload [.fieldAddr (.var "workqueue") "flags", .cst "CMM_RELAXED" 0])
    (.ifte (.un .lnot (.bin .band (.var "_t1") (.cst "URCU_WORKQUEUE_RT" 1)))
      (.call none ["futex"] [.fieldAddr (.var "workqueue") "futex"] «futex_wake_up») .skip)) _ _
  refine PT.seq (Mid := fun e l => e.vars "workqueue" = some (.ptr L.W) ∧ ∃ f : Nat, e.vars "_t1" = some (.int f) ∧
      l = .q (if bit f 1 = true then k.cont else .ldFutex k)) ?_ (PT.ifte ?_ ?_)
  · intro env inp ls o ⟨hw, hl⟩ hE hok
    subst hl
    rcases inp with _ | ⟨v, r1⟩
    · cx_at hE [hw]; subst hE; q_abs []
    · cases v with
      | ptr p => cx_at hE [hw]; subst hE; simp [RQ, evOkQ] at hok
      | int n =>
        by_cases hn : 0 ≤ n
        · obtain ⟨f, rfl⟩ : ∃ f : Nat, n = (f : Int) := ⟨n.toNat, by omega⟩
          cx_at hE [hw]; subst hE
          refine ⟨_, by q_abs []; rfl, ?_⟩
          q_abs [hw]
          exact ⟨f, rfl, rfl⟩
        · cx_at hE [hw]; subst hE
          simp [RQ, evOkQ, hn] at hok
  · refine PT.call (wake_up_Q L Wk id b k fuel) ?_
    intro env ls ⟨⟨hw, f, ht, hl⟩, v, hv, htr⟩
    have hb : bit f 1 = false := by
      simp [eval, ht, evalUn, WqR.band_1, bind, Except.bind] at hv
      subst hv
      cases hbb : bit f 1 <;> simp [WqR.bandV_truthy, ForkX.truthy_int, hbb] at htr ⊢
    refine ⟨[.ptr (.field L.W "futex")], by simp [evalArgs, eval, hw, asLoc, bind, Except.bind], rfl,
      ⟨by simp [bindParams], by simpa [hb] using hl⟩, ?_⟩
    intro c e ls' h
    rcases h with ⟨hc', h1⟩ | hc' <;> subst hc' <;> simp_all
  · intro env inp ls o ⟨⟨hw, f, ht, hl⟩, v, hv, htr⟩ hE hok
    have hb : bit f 1 = true := by
      simp [eval, ht, evalUn, WqR.band_1, bind, Except.bind] at hv
      subst hv
      cases hbb : bit f 1 <;> simp [WqR.bandV_truthy, ForkX.truthy_int, hbb] at htr ⊢
    cx_at hE []; subst hE
    q_abs [hl, hb]

/-- `cds_wfcq_node_init(&work->next); work->func = func; cds_wfcq_enqueue(&workqueue->cbs_head, &workqueue->cbs_tail, &work->next)` -/
theorem qw_head (L : Layout) (Wk : Loc) (id b : Nat) (k : K) (w : Loc) (fv : Val) (mbv : Int) (fuel : Nat)
    (hid : L.wid w = some id) :
    PT (RQ L Wk id b) fuel (ForkX.splitSeq 3 «urcu_workqueue_queue_work»).1
      (fun e l => e.vars "workqueue" = some (.ptr L.W) ∧ e.vars "work" = some (.ptr w) ∧ e.vars "func" = some fv ∧
        e.priv (.glob "CONFIG_RCU_EMIT_LEGACY_MB") = some (.int mbv) ∧ l = .q (.enq id k))
      (fun c e l => if c = .normal then (e.vars "workqueue" = some (.ptr L.W) ∧ l = .q (.inc k)) else c = .blocked) := by
  intro env inp ls o ⟨hw, hwk, hf, hcfg, hl⟩ hE hok
  subst hl
  rcases inp with _ | ⟨ov, r1⟩
  · by_cases hm : mbv = 0 <;>
      (cx_at hE [«urcu_workqueue_queue_work», «_cds_wfcq_node_init», «_cds_wfcq_enqueue», «___cds_wfcq_append», hw, hwk, hf,
        hcfg, hm]; subst hE; q_abs [])
  · cases ov with
    | int n =>
      by_cases hm : mbv = 0 <;>
        cx_at hE [«urcu_workqueue_queue_work», «_cds_wfcq_node_init», «_cds_wfcq_enqueue», «___cds_wfcq_append», hw, hwk, hf,
          hcfg, hm]
    | ptr ol =>
      by_cases hm : mbv = 0 <;>
        (cx_at hE [«urcu_workqueue_queue_work», «_cds_wfcq_node_init», «_cds_wfcq_enqueue», «___cds_wfcq_append», hw, hwk, hf,
          hcfg, hm]; subst hE; q_abs [hid, hw])

/-- **`urcu_workqueue_queue_work(workqueue, work, func)`** from `q (enq id k)`: a completed call is at `q k.cont` -/
theorem queue_work_Q (L : Layout) (Wk : Loc) (id b : Nat) (k : K) (w : Loc) (fv : Val) (mbv : Int) (fuel : Nat)
    (hid : L.wid w = some id) :
    PT (RQ L Wk id b) fuel «urcu_workqueue_queue_work»
      (fun e l => e.vars "workqueue" = some (.ptr L.W) ∧ e.vars "work" = some (.ptr w) ∧ e.vars "func" = some fv ∧
        e.priv (.glob "CONFIG_RCU_EMIT_LEGACY_MB") = some (.int mbv) ∧ l = .q (.enq id k))
      (fun c e l => (c = .normal ∧ l = .q k.cont) ∨ c = .blocked) := by
  refine PT.split 3 (PT.seq (Mid := fun e l => e.vars "workqueue" = some (.ptr L.W) ∧ l = .q (.inc k))
    ((qw_head L Wk id b k w fv mbv fuel hid).conseq (fun _ _ h => h) ?_) ?_)
  · intro c e l h
    by_cases hc : c = .normal
    · simp_all
    · simp only [hc, if_false] at h ⊢; exact .inr h
  · show PT (RQ L Wk id b) fuel (.seq (.prim none .uinc [.fieldAddr (.var "workqueue") "qlen", .cst "CMM_RELAXED" 0])
      (.call none ["workqueue"] [.var "workqueue"] «wake_worker_thread»)) _ _
    refine PT.seq (Mid := fun e l => e.vars "workqueue" = some (.ptr L.W) ∧ l = .q (.ldFlags k)) ?_ ?_
    · intro env inp ls o ⟨hw, hl⟩ hE hok
      subst hl
      rcases inp with _ | ⟨u, r1⟩
      · cx_at hE [hw]; subst hE; q_abs []
      · cx_at hE [hw]; subst hE; q_abs [hw]
    · refine PT.call (wake_worker_Q L Wk id b k fuel) ?_
      intro env ls ⟨hw, hl⟩
      refine ⟨[.ptr L.W], by simp [evalArgs, eval, hw, bind, Except.bind], rfl, ⟨by simp [bindParams], hl⟩, ?_⟩
      intro c e ls' h
      rcases h with ⟨hc', h1⟩ | hc' <;> subst hc' <;> simp_all

-- ==========================================================================================================
/-! ## `urcu_workqueue_queue_completion(workqueue, completion)` -/

/-- the locals / configuration of `urcu_workqueue_queue_completion` after the allocation -/
def QE (L : Layout) (Wk : Loc) (mbv : Int) (e : Env) : Prop :=
  e.vars "workqueue" = some (.ptr L.W) ∧ e.vars "completion" = some (.ptr L.C) ∧ e.vars "work" = some (.ptr Wk) ∧
    e.priv (.glob "CONFIG_RCU_EMIT_LEGACY_MB") = some (.int mbv)

/-- `work = calloc(1, sizeof(*work)); if (!work) urcu_die(errno); work->completion = completion;` -/
theorem qc_head (L : Layout) (Wk : Loc) (id b : Nat) (mbv : Int) (fuel : Nat) :
    PT (RQ L Wk id b) fuel (ForkX.splitSeq 4 «urcu_workqueue_queue_completion»).1
      (fun e l => e.vars "workqueue" = some (.ptr L.W) ∧ e.vars "completion" = some (.ptr L.C) ∧
        e.priv (.glob "CONFIG_RCU_EMIT_LEGACY_MB") = some (.int mbv) ∧ l = .alloc)
      (fun c e l => if c = .normal then (QE L Wk mbv e ∧ l = .get) else c = .blocked) := by
  intro env inp ls o ⟨hw, hc, hcfg, hl⟩ hE hok
  subst hl
  rcases inp with _ | ⟨r, r1⟩
  · cx_at hE [«urcu_workqueue_queue_completion», hw, hc]; subst hE; q_abs []
  · cases r with
    | ptr p =>
      by_cases hp : p = Wk
      · subst hp
        cx_at hE [«urcu_workqueue_queue_completion», hw, hc]; subst hE
        q_abs [QE, hw, hc, hcfg]
      · cx_at hE [«urcu_workqueue_queue_completion», hw, hc]; subst hE
        simp [RQ, evOkQ, hp] at hok
    | int n =>
      by_cases hn : n = 0
      · subst hn
        rcases r1 with _ | ⟨e1, r2⟩
        · cx_at hE [«urcu_workqueue_queue_completion», hw, hc]; subst hE; simp [RQ, evOkQ] at hok
        · rcases r2 with _ | ⟨d, r3⟩
          · cx_at hE [«urcu_workqueue_queue_completion», hw, hc]; subst hE; simp [RQ, evOkQ] at hok
          · cx_at hE [«urcu_workqueue_queue_completion», hw, hc]
      · cx_at hE [«urcu_workqueue_queue_completion», hw, hc, hn]

/-- `urcu_ref_get` with a predicate on the private view instead of a fixed one -/
theorem ref_get_PT' (L : Layout) (Wk : Loc) (id b : Nat) (PP : (Loc → Option Val) → Prop) (fuel : Nat) :
    PT (RQ L Wk id b) fuel «urcu_ref_get»
      (fun e l => e.vars "ref" = some (.ptr (.field L.C "ref")) ∧ PP e.priv ∧ l = .get)
      (fun c e l => (c = .normal ∧ (l = .inc ∨ l = .failed) ∧ PP e.priv) ∨ c = .blocked ∨ c = .fuel) := by
  intro env inp ls o ⟨hr, hp, hl⟩ hE hok
  obtain ⟨l1, h1, h2⟩ := ref_get_PT L Wk id b env.priv fuel env inp ls o ⟨hr, rfl, hl⟩ hE hok
  refine ⟨l1, h1, ?_⟩
  rcases h2 with ⟨hc, hl', hpv⟩ | h | h
  · exact .inl ⟨hc, hl', by rw [hpv]; exact hp⟩
  · exact .inr (.inl h)
  · exact .inr (.inr h)

/-- **`urcu_workqueue_queue_completion(workqueue, completion)`** ⊑ `qstepE` from `alloc`: a completed call is at `q idle`
(L2: the caller is back at `idle`, the completion work is enqueued, counted and the worker woken), or at `failed` (the
reference count was `LONG_MAX`: `abort()`) -/
theorem queue_completion_PT (L : Layout) (Wk : Loc) (id b : Nat) (mbv : Int) (fuel : Nat)
    (hid : L.wid (.field Wk "work") = some id) :
    PT (RQ L Wk id b) fuel «urcu_workqueue_queue_completion»
      (fun e l => e.vars "workqueue" = some (.ptr L.W) ∧ e.vars "completion" = some (.ptr L.C) ∧
        e.priv (.glob "CONFIG_RCU_EMIT_LEGACY_MB") = some (.int mbv) ∧ l = .alloc)
      (fun c e l => ((c = .normal ∧ l = .q .idle) ∨ c = .blocked ∨ c = .fuel) ∨ l = .failed) := by
  refine PT.split 4 (PT.seq (Mid := fun e l => QE L Wk mbv e ∧ l = .get)
    ((qc_head L Wk id b mbv fuel).conseq (fun _ _ h => h) ?_) ?_)
  · intro c e l h
    by_cases hc : c = .normal
    · simp_all
    · simp only [hc, if_false] at h ⊢; exact .inl (.inr (.inl h))
  · show PT (RQ L Wk id b) fuel (.seq (.call none ["ref"] [.fieldAddr (.var "completion") "ref"] «urcu_ref_get»)
      (.seq (.prim none .uinc [.fieldAddr (.var "completion") "barrier_count", .cst "CMM_RELAXED" 0])
        (.call none ["workqueue", "work", "func"]
          [.var "workqueue", .fieldAddr (.var "work") "work", .addrGlob "_urcu_workqueue_wait_complete"]
          «urcu_workqueue_queue_work»))) _ _
    refine PT.seq (Mid := fun e l => (QE L Wk mbv e ∧ l = .inc) ∨ l = .failed) ?_
      (PT.seq (Mid := fun e l => (QE L Wk mbv e ∧ l = .q (.enq id (.compl b))) ∨ l = .failed) ?_ ?_)
    · refine PT.call (ref_get_PT' L Wk id b
        (fun p => p (.glob "CONFIG_RCU_EMIT_LEGACY_MB") = some (.int mbv)) fuel) ?_
      intro env ls ⟨⟨hw, hc, hwk, hcfg⟩, hl⟩
      refine ⟨[.ptr (.field L.C "ref")], by simp [evalArgs, eval, hc, asLoc, bind, Except.bind], rfl,
        ⟨by simp [bindParams], hcfg, hl⟩, ?_⟩
      intro c e ls' h
      rcases h with ⟨hc', hl', hpv⟩ | hc' | hc'
      · subst hc'
        rcases hl' with rfl | rfl
        · simp [QE, hw, hc, hwk, hpv]
        · simp
      · subst hc'; simp
      · subst hc'; simp
    · refine (PT.orFailed (P := fun e l => QE L Wk mbv e ∧ l = .inc)
        (Q := fun c e l => if c = .normal then (QE L Wk mbv e ∧ l = .q (.enq id (.compl b)))
          else ((c = .normal ∧ l = .q .idle) ∨ c = .blocked ∨ c = .fuel)) ?_).conseq (fun _ _ h => h) ?_
      · intro env inp ls o ⟨⟨hw, hc, hwk, hcfg⟩, hl⟩ hE hok
        subst hl
        rcases inp with _ | ⟨u, r1⟩
        · cx_at hE [hc]; subst hE; q_abs []
        · cx_at hE [hc]; subst hE; q_abs [QE, hw, hc, hwk, hcfg]
      · intro c e l h
        by_cases hcn : c = .normal
        · subst hcn; simpa using h
        · simp only [hcn, if_false] at h ⊢
          rcases h with h | h
          · exact .inl h
          · exact .inr h
    · refine (PT.orFailed (P := fun e l => QE L Wk mbv e ∧ l = .q (.enq id (.compl b)))
        (Q := fun c e l => (c = .normal ∧ l = .q .idle) ∨ c = .blocked ∨ c = .fuel) ?_)
      refine PT.call (queue_work_Q L Wk id b (.compl b) (.field Wk "work") (.ptr (.glob "_urcu_workqueue_wait_complete"))
        mbv fuel hid) ?_
      intro env ls ⟨⟨hw, hc, hwk, hcfg⟩, hl⟩
      refine ⟨[.ptr L.W, .ptr (.field Wk "work"), .ptr (.glob "_urcu_workqueue_wait_complete")],
        by simp [evalArgs, eval, hw, hwk, asLoc, bind, Except.bind], rfl,
        ⟨by simp [bindParams], by simp [bindParams], by simp [bindParams], hcfg, hl⟩, ?_⟩
      intro c e ls' h
      rcases h with ⟨hc', h1⟩ | hc' <;> subst hc' <;> simp_all [K.cont]

-- ==========================================================================================================
/-! ## L2: `qcGet`, `qcInc` -/

/-- the successful `cmpxchg` of the reference count is L2's `qcGet t b` (the load and the failed attempts before it are
stutter steps: L2 takes the reference atomically) -/
theorem qcGet_lift (c : Cfg) (s : State) (t b : Nat)
    (hg : t ≠ 0 ∧ s.tpc t = .idle ∧ b < s.nextB ∧ s.cowner b = t ∧ s.orphan b = false ∧ s.cphase b = .created ∧
      s.stopper = none) :
    ∃ s', step c s (.qcGet t b) = some s' ∧ s'.tpc t = .qcInc b ∧ s'.cref b = s.cref b + 1 ∧ s'.ccnt = s.ccnt ∧
      s'.queue = s.queue := by
  simp [step, hg]

/-- `uatomic_inc(&completion->barrier_count)` is L2's `qcInc t w`: the count goes up by one and the thread is at
`enq w (compl b)`, the entry of `urcu_workqueue_queue_work` (`WqL.tstep`) -/
theorem qcInc_lift (c : Cfg) (s : State) (t b w : Nat) (hpc : s.tpc t = .qcInc b) (hreg : s.reg w = false) :
    ∃ s', step c s (.qcInc t w) = some s' ∧ s'.tpc t = .enq w (.compl b) ∧ s'.ccnt b = s.ccnt b + 1 ∧
      s'.cw w = some b ∧ s'.queue = s.queue := by
  simp [step, hpc, hreg]

-- ==========================================================================================================
/-! ## `urcu_workqueue_create_completion()` -/

/-- **`urcu_workqueue_create_completion()`** when `calloc` returns the object `C`: `urcu_ref_set(&completion->ref, 1)`
(the only shared access: L2 `ccCreate`, `ref := 1`), `barrier_count = 0` (plain store), returns `C` -/
theorem create_completion_exec (fuel : Nat) (env : Env) (rest : List Val) (C : Loc) :
    ∃ out, exec fuel «urcu_workqueue_create_completion» env (.ptr C :: rest) = .ok out ∧
      out.events = [.ext "calloc" [.int 1, .int 16] (.ptr C), .st (.field (.field C "ref") "refcount") (.int 1) 0] ∧
      out.inp = rest ∧ out.ctl = .ret (some (.ptr C)) ∧
      out.env.priv (.field C "barrier_count") = some (.int 0) ∧
      out.env.priv (.field (.field C "ref") "refcount") = some (.int 1) := by
  simp [«urcu_workqueue_create_completion», «urcu_ref_set», block, exec, eval, evalArgs, execPrim, asLoc, bind, Except.bind,
    Env.setVar, Env.setPriv, setDst, Val.truthy, evalUn, bindParams]

-- ==========================================================================================================
/-! ## every queued completion work was preceded by `barrier_count++` and a successful reference get -/

/-- the states before the reference has been taken -/
def early : QPc → Bool
  | .alloc | .get | .cas _ => true
  | _ => false

/-- an accepted event list that leads from the start of `urcu_workqueue_queue_completion` into
`urcu_workqueue_queue_work` (state `q pc'`: in particular every list that contains the enqueue `xchg` of the completion
work) has the form `pre ++ cmpxchg(&ref->refcount, o → o+1) = o :: uatomic_inc(&completion->barrier_count) :: post`
with `o ≠ LONG_MAX`, where `post` (the accesses of `queue_work`) is accepted from `q (enq id (compl b))` -/
theorem qrun_queued_after_get_inc (L : Layout) (Wk : Loc) (id b : Nat) : ∀ (evs : List Event) (pc0 : QPc) (pc' : TPc),
    early pc0 = true → qrun L Wk id b pc0 evs = some (.q pc') →
    ∃ pre o m1 m2 x r mo post,
      evs = pre ++ Event.cas (.field (.field L.C "ref") "refcount") (.int o) (.int (o + 1)) (.int o) m1 m2 ::
        Event.rmw .uinc (.field L.C "barrier_count") x r mo :: post ∧ o ≠ 9223372036854775807 ∧
      qrun L Wk id b (.q (.enq id (.compl b))) post = some (.q pc') := by
  intro evs
  induction evs with
  | nil => intro pc0 pc' he h; simp [qrun] at h; subst h; simp [early] at he
  | cons e es ih =>
    intro pc0 pc' he h
    simp only [qrun] at h
    cases hs : qstepE L Wk id b pc0 e with
    | none => simp [hs] at h
    | some pc1 =>
      simp only [hs] at h
      by_cases he1 : early pc1 = true
      · obtain ⟨pre, o, m1, m2, x, r, mo, post, rfl, h2, h3⟩ := ih pc1 pc' he1 h
        exact ⟨e :: pre, o, m1, m2, x, r, mo, post, rfl, h2, h3⟩
      · cases pc1 with
        | alloc => simp [early] at he1
        | get => simp [early] at he1
        | cas _ => simp [early] at he1
        | failed => rw [qrun_failed] at h; simp at h
        | q p1 =>
          exfalso
          cases pc0 <;> simp [early] at he <;> cases e <;> simp [qstepE] at hs <;>
            (try (obtain ⟨-, hs⟩ := hs)) <;> (try split at hs) <;> (try split at hs) <;> simp at hs
        | inc =>
          cases pc0 <;> simp [early] at he
          · cases e <;> simp [qstepE] at hs
          · cases e <;> simp [qstepE] at hs
            obtain ⟨-, hs⟩ := hs
            split at hs <;> simp at hs
          · rename_i old
            cases e <;> simp [qstepE] at hs
            rename_i l ex nw r m1 m2
            obtain ⟨⟨rfl, rfl, rfl, hne⟩, hs⟩ := hs
            cases r with
            | ptr p => simp at hs
            | int n =>
              simp at hs
              have hn : n = old := by
                by_cases hn : n = old
                · exact hn
                · simp [hn] at hs
              subst hn
              cases es with
              | nil => simp [qrun] at h
              | cons e2 es2 =>
                simp only [qrun] at h
                cases e2 <;> simp [qstepE] at h
                rename_i op l2 x r2 mo
                by_cases hc : op = .uinc ∧ l2 = .field L.C "barrier_count"
                · obtain ⟨rfl, rfl⟩ := hc
                  simp at h
                  exact ⟨[], n, m1, m2, x, r2, mo, es2, rfl, hne, h⟩
                · simp [hc] at h

end UrcuVerif.Src.Wq4
