import UrcuVerif.Src.Lfht4Walk
/-!
# `Lfht4Walk.lean` for an iterator at an arbitrary location

`_cds_lfht_add` passes the address of its local `d_iter` (`Loc.glob "&d_iter"` in the generated IR) to
`cds_lfht_next_duplicate`; `LfhtWR.dupA_exec` is stated for an iterator object `Loc.obj it`.  Same statements and proofs
with `it : Loc` (`dupG_*`; `OracleK`, `wcore`, `lwalkRet_inactive` are those of `Lfht4Walk.lean`).
-/
namespace UrcuVerif.Src.LfhtWR
open UrcuVerif UrcuVerif.Src UrcuVerif.Lfht.Conc UrcuVerif.Src.LfhtW UrcuVerif.Src.LfhtR

/-- invariant at the head of the loop: `node = n`, L2's thread is where `walkPos … n` put it; `xr` = the record at the
call (frame) -/
def WalkIG (K : LState → List Val → Prop) (rev : Nat → Nat) (priv0 : Loc → Option Val) (it : Loc) (xr : Thr) (rh ky : Nat)
    (env : Env) (inp : List Val) (ls : LState) : Prop :=
  env.priv = priv0 ∧ env.vars "iter" = some (.ptr it) ∧ env.vars "reverse_hash" = some (.int rh) ∧
    env.vars "key" = some (.int ky) ∧
    ∃ n x0, env.vars "node" = some (encP n) ∧ x0.wk = .dupAdd ∧ x0.rh = rh ∧ x0.ky = ky ∧ wcore x0 = wcore xr ∧
      ls = ofPair (lwalkPos rev x0 n) ∧ OracleK K rev ls inp

/-- how the loop ends: `break` with `node = next = NULL` (no duplicate: L2's `walkRet … 0` – the thread is at `aCas`),
`break` on a match (`node = cur`, `next` = the word loaded: L2 is at `wAssert`), or preempted -/
def WalkRG (K : LState → List Val → Prop) (rev : Nat → Nat) (priv0 : Loc → Option Val) (it : Loc) (xr : Thr)
    (c : Ctl) (env : Env) (inp : List Val) (ls : LState) : Prop :=
  match c with
  | .brk => env.priv = priv0 ∧ env.vars "iter" = some (.ptr it) ∧
      ((env.vars "node" = some (.int 0) ∧ env.vars "next" = some (.int 0) ∧
          ∃ x0 : Thr, x0.wk = .dupAdd ∧ wcore x0 = wcore xr ∧ ls = ofPair (lwalkRet x0 0 {}) ∧ K ls inp) ∨
       (∃ n, n ≠ 0 ∧ env.vars "node" = some (.ptr (.obj n)) ∧ env.vars "next" = some (encW ls.x.wnx) ∧
          ls.x.pc = .wAssert ∧ ls.x.cur = n ∧ ls.pend = .none ∧ ls.x.wk = .dupAdd ∧ wcore ls.x = wcore xr ∧
          ls.x.wnx.rem = false ∧ ls.x.wnx.bkt = false ∧ OracleK K rev ls inp))
  | .blocked => True
  | _ => False

/-- how the call ends: preempted, out of budget, or returned: `d_iter = (n, w)` in the private view (nothing else
changed), L2's thread is where `walkRet x1 n w` puts it (`x1` = the record at the call up to `cur`, `wnx`, `pc`), the
walk automaton is no longer active and the continuation holds -/
def DupGDone (K : LState → List Val → Prop) (priv0 : Loc → Option Val) (it : Loc) (xr : Thr) (out : Src.Out)
    (ls' : LState) : Prop :=
  out.ctl = .blocked ∨ out.ctl = .fuel ∨
    (out.ctl = .normal ∧ ∃ x1 n w, x1.wk = .dupAdd ∧ wcore x1 = wcore xr ∧ ls' = ofPair (lwalkRet x1 n w) ∧
      (n ≠ 0 → x1.cur = n ∧ x1.wnx = w ∧ w.rem = false ∧ w.bkt = false) ∧ (n = 0 → w = {}) ∧
      out.env.priv (.field it "node") = some (encP n) ∧ out.env.priv (.field it "next") = some (encW w) ∧
      (∀ l, l ≠ Loc.field it "node" → l ≠ Loc.field it "next" → out.env.priv l = priv0 l) ∧
      K ls' out.inp)

theorem dupG_post (K : LState → List Val → Prop) (fuel : Nat) (rev : Nat → Nat) (priv0 : Loc → Option Val) (it : Loc)
    (xr : Thr) (env : Env) (inp : List Val) (ls : LState) (r : Except String Src.Out)
    (hE : exec fuel dupPost env inp = r) (hR : WalkRG K rev priv0 it xr .brk env inp ls) :
    ∃ o, r = .ok o ∧ ∃ ls', lr rev ls o.events = some ls' ∧ DupGDone K priv0 it xr o ls' := by
  subst hE
  obtain ⟨hpr, hit, hA | ⟨n, hn0, hnode, hnext, hpc, hcur, hpend, hwk, hcore, hwr, hwb, hO⟩⟩ := hR
  · obtain ⟨hnode, hnext, x0, hwk, hcore, rfl, hK⟩ := hA
    lexec [dupPost, seqTail, Gen.Src.«lfht.cds_lfht_next_duplicate»]
    refine ⟨_, lr_nil _ _, .inr (.inr ⟨rfl, x0, 0, {}, hwk, hcore, rfl, by simp, by simp, ?_, ?_, ?_, hK⟩)⟩
    · simp
    · simp [encW, flagsOf]
    · intro l h1 h2; simp [h1, h2, hpr]
  · rcases ls with ⟨x, pend, out⟩
    dsimp only at hnext hpc hcur hpend hwk hcore hwr hwb; subst hpend; subst hcur
    cases inp with
    | nil =>
      lexec [dupPost, seqTail, Gen.Src.«lfht.cds_lfht_next_duplicate»]
      exact ⟨_, lr_nil _ _, .inl rfl⟩
    | cons v rest =>
      obtain ⟨l, hl, hrest⟩ := hO.2 (by simp [active, hpc])
      simp only [obsLabel, hpc] at hl
      cases hd : decW v with
      | none => simp [hd] at hl
      | some w =>
        have hv := encW_of_decW hd; subst hv
        simp only [decW_encW, Option.bind] at hl
        split at hl <;> cases hl
        rename_i hb
        have hs : lstep rev { x := x, pend := .none, out := out } (.ldNext x.cur w 0) =
            some (ofPair (lwalkRet x x.cur x.wnx)) := by simp [lstep, hpc]
        have hK := oracleK_done (hrest _ hs) (lwalkRet_inactive x x.cur x.wnx hwk)
        lexec [dupPost, seqTail, Gen.Src.«lfht.cds_lfht_next_duplicate», call_is_bucket, pureCall, bind1]
        refine ⟨ofPair (lwalkRet x x.cur x.wnx), by simp [lr, lrun, absEv, hs],
          .inr (.inr ⟨rfl, x, x.cur, x.wnx, hwk, hcore, rfl, ?_, ?_, ?_, ?_, ?_, hK⟩)⟩
        · intro _; exact ⟨rfl, rfl, hwr, hwb⟩
        · intro h; exact absurd h hn0
        · simp [encP_pos hn0]
        · simp
        · intro l h1 h2; simp [h1, h2, hpr]

theorem dupG_body (K : LState → List Val → Prop) (fuel : Nat) (rev : Nat → Nat) (priv0 : Loc → Option Val) (it : Loc)
    (xr : Thr) (rh ky : Nat) (hrev : RevView rev priv0) (env : Env) (inp : List Val) (ls : LState)
    (hI : WalkIG K rev priv0 it xr rh ky env inp ls) :
    ∃ o, exec fuel dupBody env inp = .ok o ∧ ∃ ls', lr rev ls o.events = some ls' ∧
      (if o.ctl.goesOn then WalkIG K rev priv0 it xr rh ky o.env o.inp ls'
       else WalkRG K rev priv0 it xr o.ctl o.env o.inp ls') := by
  obtain ⟨hpr, hit, hrh, hky, n, x0, hnode, hwk, hxrh, hxky, hcore, rfl, hO⟩ := hI
  by_cases hn : n = 0
  · subst hn
    have hls : lwalkPos rev x0 0 = lwalkRet x0 0 {} := by simp [lwalkPos]
    have hK : K (ofPair (lwalkRet x0 0 {})) inp :=
      oracleK_done (hls ▸ hO) (lwalkRet_inactive x0 0 {} hwk)
    clear hO
    lexec [dupBody, firstLoop, Gen.Src.«lfht.cds_lfht_next_duplicate», call_is_end, pureCall, bind1]
    refine ⟨_, lr_nil _ _, ?_⟩
    simp only [Ctl.goesOn, WalkRG]
    exact ⟨by simp [hpr], by simp [hit], .inl ⟨by simp, by simp, x0, hwk, hcore, rfl, hK⟩⟩
  · have hrn := hrev _ hn
    by_cases hgt : rh < rev n
    · have hls : lwalkPos rev x0 n = lwalkRet x0 0 {} := by simp [lwalkPos, hwk, hxrh, hgt]
      have hK : K (ofPair (lwalkRet x0 0 {})) inp :=
        oracleK_done (hls ▸ hO) (lwalkRet_inactive x0 0 {} hwk)
      clear hO
      lexec [dupBody, firstLoop, Gen.Src.«lfht.cds_lfht_next_duplicate», call_is_end, pureCall, bind1, encP_pos hn]
      refine ⟨_, lr_nil _ _, ?_⟩
      simp only [Ctl.goesOn, WalkRG]
      exact ⟨by simp [hpr], by simp [hit], .inl ⟨by simp, by simp, x0, hwk, hcore, rfl, hK⟩⟩
    · obtain ⟨x, hx⟩ : ∃ x : Thr, x = { x0 with cur := n, pc := .wNext } := ⟨_, rfl⟩
      have hpos : lwalkPos rev x0 n = (x, .unit) := by
        rw [hx]; simp [lwalkPos, hn, hxrh, hgt]
      have hxpc : x.pc = .wNext := by rw [hx]
      have hxcur : x.cur = n := by rw [hx]
      have hxwk : x.wk = .dupAdd := by rw [hx]; exact hwk
      have hxrh' : x.rh = rh := by rw [hx]; exact hxrh
      have hxky' : x.ky = ky := by rw [hx]; exact hxky
      have hxcore : wcore x = wcore xr := by rw [hx, ← hcore]; rfl
      rw [hpos] at hO ⊢
      clear hpos hx hwk hxrh hxky hcore x0
      cases inp with
      | nil =>
        lexec [dupBody, firstLoop, Gen.Src.«lfht.cds_lfht_next_duplicate», call_is_end, pureCall, bind1, encP_pos hn]
        exact ⟨_, lr_nil _ _, by simp [Ctl.goesOn, WalkRG]⟩
      | cons v rest =>
        obtain ⟨l, hl, hrest⟩ := hO.2 (by simp [active, ofPair, hxpc])
        clear hO
        simp only [obsLabel, ofPair, hxpc] at hl
        cases hd : decW v with
        | none => simp [hd] at hl
        | some w =>
          have hv := encW_of_decW hd; subst hv
          simp only [decW_encW, Option.map, hxcur] at hl
          cases hl
          -- the word is skipped without calling `match`
          have hskip : needsMatch rev x w = false →
              ∃ o, exec fuel dupBody env (encW w :: rest) = .ok o ∧ ∃ ls', lr rev (ofPair (x, .unit)) o.events = some ls' ∧
                (if o.ctl.goesOn then WalkIG K rev priv0 it xr rh ky o.env o.inp ls'
                 else WalkRG K rev priv0 it xr o.ctl o.env o.inp ls') := by
            intro hnm
            have hfn : foundNoMatch x w = false := by simp [foundNoMatch, hxwk]
            have hs1 : lstep rev (ofPair (x, .unit)) (.ldNext n w 1) =
                some (ofPair (lwalkPos rev { x with wnx := w } w.ptr)) := by
              simp [lstep, ofPair, hxpc, hxcur, hnm, hfn]
            have hO1 := hrest _ hs1
            have hfin : ∀ env' : Env, env'.priv = priv0 → env'.vars "iter" = some (.ptr it) →
                env'.vars "reverse_hash" = some (.int rh) → env'.vars "key" = some (.int ky) →
                env'.vars "node" = some (encP w.ptr) →
                ∃ ls', lr rev (ofPair (x, .unit)) [Event.ld ((Loc.obj n).field "next") (encW w) 1] = some ls' ∧
                  WalkIG K rev priv0 it xr rh ky env' rest ls' := by
              intro env' h1 h2 h3 h4 h5
              refine ⟨_, by simp [lr, lrun, absEv, hs1], h1, h2, h3, h4, w.ptr, { x with wnx := w }, h5, hxwk, hxrh', hxky',
                hxcore, rfl, hO1⟩
            simp only [needsMatch, hxwk, hxcur, hxrh'] at hnm
            by_cases hr : w.rem = true <;> by_cases hb : w.bkt = true <;>
              (try simp [hr, hb] at hnm) <;>
              lexec [dupBody, firstLoop, Gen.Src.«lfht.cds_lfht_next_duplicate», call_is_end, call_clear_flag, call_is_removed,
                call_is_bucket, pureCall, bind1, encP_pos hn, Int.natCast_inj] <;>
              (refine hfin _ ?_ ?_ ?_ ?_ ?_ <;> first | rfl | simp [hpr, hit, hrh, hky])
          by_cases hnm0 : needsMatch rev x w = false
          · exact hskip hnm0
          have hnm : needsMatch rev x w = true := by simpa using hnm0
          have hnm' := hnm
          simp [needsMatch, hxwk, hxcur, hxrh'] at hnm'
          obtain ⟨hr, hb⟩ := hnm'
          have hs1 : lstep rev (ofPair (x, .unit)) (.ldNext n w 1) = some { x := x, pend := .key w, out := .unit } := by
            simp [lstep, ofPair, hxpc, hxcur, hnm]
          have hO1 := hrest _ hs1
          cases rest with
          | nil =>
            lexec [dupBody, firstLoop, Gen.Src.«lfht.cds_lfht_next_duplicate», call_is_end, call_clear_flag, call_is_removed,
              call_is_bucket, pureCall, bind1, encP_pos hn, Int.natCast_inj]
            simp [lr, lrun, absEv, hs1, Ctl.goesOn, WalkRG]
          | cons v2 rest =>
            obtain ⟨l, hl, hrest2⟩ := hO1.2 (by simp [active])
            clear hO1
            simp only [obsLabel] at hl
            cases v2 with
            | ptr _ => simp at hl
            | int m =>
              simp only [Option.some.injEq, hxcur, hxky'] at hl
              subst hl
              by_cases hm0 : m = 0
              · subst hm0
                have hs2 : lstep rev { x := x, pend := .key w, out := .unit } (.matchKey n ky false) =
                    some (ofPair (lwalkPos rev { x with wnx := w } w.ptr)) := by
                  simp [lstep, hxcur, hxky']
                have hO2 := hrest2 _ hs2
                lexec [dupBody, firstLoop, Gen.Src.«lfht.cds_lfht_next_duplicate», call_is_end, call_clear_flag, call_is_removed,
                  call_is_bucket, pureCall, bind1, encP_pos hn, Int.natCast_inj]
                refine ⟨ofPair (lwalkPos rev { x with wnx := w } w.ptr), by simp [lr, lrun, absEv, hs1, hs2], ?_⟩
                simp only [Ctl.goesOn, if_true]
                exact ⟨by simp [hpr], by simp [hit], by simp [hrh], by simp [hky], w.ptr, { x with wnx := w }, by simp,
                  hxwk, hxrh', hxky', hxcore, rfl, hO2⟩
              · have hmb : (m != 0) = true := by simpa using hm0
                rw [hmb] at hrest2
                have hs2 : lstep rev { x := x, pend := .key w, out := .unit } (.matchKey n ky true) =
                    some { x := { x with wnx := w, pc := .wAssert }, pend := .none, out := .unit } := by
                  simp [lstep, hxcur, hxky']
                have hO2 := hrest2 _ hs2
                lexec [dupBody, firstLoop, Gen.Src.«lfht.cds_lfht_next_duplicate», call_is_end, call_clear_flag, call_is_removed,
                  call_is_bucket, pureCall, bind1, encP_pos hn, Int.natCast_inj]
                refine ⟨{ x := { x with wnx := w, pc := .wAssert }, pend := .none, out := .unit },
                  by simp [lr, lrun, absEv, hs1, hs2, hmb], ?_⟩
                simp only [Ctl.goesOn, WalkRG]
                refine ⟨by simp [hpr], by simp [hit], .inr ⟨n, hn, by simp [hnode, encP_pos hn], by simp, ?_, ?_, ?_, ?_, ?_,
                  ?_, ?_, hO2⟩⟩
                · trivial
                · exact hxcur
                · trivial
                · exact hxwk
                · exact hxcore
                · exact hr
                · exact hb

theorem dupG_loop (K : LState → List Val → Prop) (fuel : Nat) (rev : Nat → Nat) (priv0 : Loc → Option Val) (it : Loc)
    (xr : Thr) (rh ky : Nat) (hrev : RevView rev priv0) (env : Env) (inp : List Val) (ls : LState)
    (r : Except String Src.Out)
    (hE : iterate (exec fuel dupBody) fuel env inp [] = r) (hI : WalkIG K rev priv0 it xr rh ky env inp ls) :
    ∃ out, r = .ok out ∧ ∃ ls', lr rev ls out.events = some ls' ∧
      (out.ctl = .fuel ∨ ∃ c, c.goesOn = false ∧ WalkRG K rev priv0 it xr c out.env out.inp ls' ∧
        out.ctl = c.afterLoop) := by
  obtain ⟨out, hout, evs, ls', hev, hl, hfin⟩ :=
    iterate_inv (lr rev) (lr_nil rev) (lr_append rev) (exec fuel dupBody) (WalkIG K rev priv0 it xr rh ky)
      (WalkRG K rev priv0 it xr) (dupG_body K fuel rev priv0 it xr rh ky hrev) fuel env inp ls [] hI
  refine ⟨out, by rw [← hE, hout], ls', ?_, hfin⟩
  rw [hev]; simpa using hl

/-- **`cds_lfht_next_duplicate(ht, match, key, &d_iter)` as called by `_cds_lfht_add`** (`unique_ret ≠ NULL`):
`d_iter = (N, itx)` with `N` = the node being added (only its `reverse_hash` is read) and `itx` = `iter`;
`x0` = L2's record (`wk = dupAdd`, `ky = k`, `rh = rev N`); L2's thread is where `walkPos … itx.ptr` put it (for the
call site of `_cds_lfht_add`: `wNext` with `cur = iter.ptr`, what L2's `ldNextA` does).  Every run is accepted by
`LfhtW.lstep` (labels `ldWalk` – with the `match` call – and `ldAssertW`, addresses and values as L2 prescribes). -/
theorem dupG_exec (K : LState → List Val → Prop) (fuel : Nat) (rev : Nat → Nat) (env : Env) (inp : List Val)
    (x0 : Thr) (N : Nat) (itx : W) (it : Loc) (k : Nat)
    (hiter : env.vars "iter" = some (.ptr it)) (hkey : env.vars "key" = some (.int k))
    (hin : env.priv (.field it "node") = some (.ptr (.obj N))) (hN : N ≠ 0)
    (hix : env.priv (.field it "next") = some (encW itx)) (hrev : RevView rev env.priv)
    (hwk : x0.wk = .dupAdd) (hrh : x0.rh = rev N) (hky : x0.ky = k)
    (hO : OracleK K rev (ofPair (lwalkPos rev x0 itx.ptr)) inp) :
    ∃ out, exec fuel Gen.Src.«lfht.cds_lfht_next_duplicate» env inp = .ok out ∧
      ∃ ls', lr rev (ofPair (lwalkPos rev x0 itx.ptr)) out.events = some ls' ∧ DupGDone K env.priv it x0 out ls' := by
  have hshape : Gen.Src.«lfht.cds_lfht_next_duplicate» =
      .seq _ (.seq _ (.seq _ (.seq _ (.seq _ (.seq (.loop dupBody) dupPost))))) := rfl
  rw [hshape]
  have hrn := hrev _ hN
  lexec [call_clear_flag, pureCall, bind1]
  generalize hE : iterate (exec fuel dupBody) fuel _ inp [] = r
  obtain ⟨o1, rfl, ls1, hl1, hfin⟩ := dupG_loop K fuel rev env.priv it x0 (rev N) k hrev _ inp
    (ofPair (lwalkPos rev x0 itx.ptr)) r hE
    ⟨rfl, by simp [hiter], by simp, by simp [hkey], itx.ptr, x0, by simp, hwk, hrh, hky, rfl, rfl, hO⟩
  rcases o1 with ⟨ev1, env1, inp1, ctl1⟩
  rcases hfin with hf | ⟨c, hc, hR, hctl⟩
  · dsimp only at hf; subst hf
    exact ⟨_, rfl, ls1, hl1, .inr (.inl rfl)⟩
  · dsimp only at hctl hR hl1
    cases c <;> simp [Ctl.goesOn] at hc <;> simp only [Ctl.afterLoop] at hctl <;> subst hctl
    · dsimp only
      generalize hE2 : exec fuel dupPost env1 inp1 = r2
      obtain ⟨o2, rfl, ls2, hl2, hdone⟩ := dupG_post K fuel rev env.priv it x0 env1 inp1 ls1 r2 hE2 hR
      rcases o2 with ⟨ev2, env2, inp2, ctl2⟩
      refine ⟨_, rfl, ls2, ?_, by simpa [DupGDone] using hdone⟩
      rw [lr_append]
      exact (congrArg (fun o => o.bind fun m => lr rev m ev2) hl1).trans hl2
    · simp [WalkRG] at hR
    · exact ⟨_, rfl, ls1, hl1, .inl rfl⟩
    · simp [WalkRG] at hR

end UrcuVerif.Src.LfhtWR
