import UrcuVerif.Gp.Qsbr
import UrcuVerif.Handshake.QsbrTso
/-!
# Read side, QSBR: thread-local projections of `Gp/Qsbr.lean` and `Handshake/QsbrTso.lean`

Same pattern as `Src/ReadLocal.lean`.  Local part of `Qsbr.State` for reader `i`: `rpc i`, `reg i`, `lctr i` (its own view
of its word).  `mctr i` / `buf i` are moved by the environment label `flush i`; everything else is the updater's or ghost.
Decorations: `qLd g` = "loaded `rcu_gp.ctr`, saw `g`", `qSt w` = "stored `w` into the own word".

Local part of `QsbrHs.State` for waker `i`: `kpc i`, `r i`.  `k1 w` = "loaded `waiting[i]`, saw `w`" (L2's `k1Set` /
`k1Clear`), `k3 v` = "loaded `gp->futex`, saw `v`".
-/
namespace UrcuVerif.Src.ReadQsbr
open UrcuVerif

/-! ## grace period model -/

structure QState where
  rpc  : Qsbr.RPc
  reg  : Bool
  lctr : Nat
  deriving DecidableEq, Repr

def projQ (s : Qsbr.State) (i : Nat) : QState := { rpc := s.rpc i, reg := s.reg i, lctr := s.lctr i }

inductive QLabel
  | reg | unreg
  | qLd (g : Nat)
  | qSkip
  | qSt (w : Nat)
  | qOff
  | qFence
  | rRead
  deriving DecidableEq, Repr

def QLabel.toL2 (i : Nat) : QLabel → Qsbr.Label
  | .reg => .reg i | .unreg => .unreg i | .qLd _ => .qLd i | .qSkip => .qSkip i | .qSt _ => .qSt i
  | .qOff => .qOff i | .qFence => .qFence i | .rRead => .rRead i

def ownerQ : Qsbr.Label → Option Nat
  | .reg i | .unreg i | .qLd i | .qSkip i | .qSt i | .qOff i | .qFence i | .rRead i => some i
  | _ => none

def qstep (ls : QState) : QLabel → Option QState
  | .reg => if ls.reg = false ∧ ls.rpc = .out ∧ ls.lctr = 0 then some { ls with reg := true } else none
  | .unreg => if ls.reg = true ∧ ls.rpc = .out ∧ ls.lctr = 0 then some { ls with reg := false } else none
  | .qLd g => if ls.reg = true ∧ ls.rpc = .out then some { ls with rpc := .ld g } else none
  | .qSkip =>
    match ls.rpc with
    | .ld g => if g = ls.lctr ∧ ls.lctr ≠ 0 then some { ls with rpc := .out } else none
    | _ => none
  | .qSt w =>
    match ls.rpc with
    | .ld g => if g ≠ ls.lctr ∧ w = g then some { ls with lctr := g, rpc := .fence } else none
    | _ => none
  | .qOff => if ls.reg = true ∧ ls.rpc = .out then some { ls with lctr := 0, rpc := .fence } else none
  | .qFence => if ls.rpc = .fence then some { ls with rpc := .out } else none
  | .rRead => if ls.rpc = .out ∧ ls.lctr ≠ 0 then some ls else none

def qrun : QState → List QLabel → Option QState
  | ls, [] => some ls
  | ls, l :: ls' => match qstep ls l with
    | some n => qrun n ls'
    | none => none

def ObsQ (s s' : Qsbr.State) (i : Nat) : QLabel → Prop
  | .qLd g => g = s.gp
  | .qSt w => s'.buf i = s.buf i ++ [w]
  | .qOff => s'.buf i = s.buf i ++ [0]
  | _ => True

/-- non-local part of the guards: the value loaded; `qFence` waits for the store buffer to drain -/
def GuardQ (s : Qsbr.State) (i : Nat) : QLabel → Prop
  | .qLd g => g = s.gp
  | .qFence => s.buf i = []
  | _ => True

theorem projQ_step (c : Qsbr.Cfg) (s s' : Qsbr.State) (i : Nat) (l : QLabel)
    (st : Qsbr.step c s (l.toL2 i) = some s') (ho : ObsQ s s' i l) :
    qstep (projQ s i) l = some (projQ s' i) := by
  cases l <;> simp only [QLabel.toL2, Qsbr.step] at st <;> (repeat' split at st) <;>
    first
    | (simp at st; done)
    | (simp only [Option.some.injEq] at st; subst st
       simp_all [ObsQ, qstep, projQ, upd] <;> grind)

theorem projQ_enabled (c : Qsbr.Cfg) (s : Qsbr.State) (i : Nat) (l : QLabel) (ls' : QState)
    (hl : qstep (projQ s i) l = some ls') (hi : i < c.n) (hg : GuardQ s i l) :
    ∃ s', Qsbr.step c s (l.toL2 i) = some s' ∧ projQ s' i = ls' ∧ ObsQ s s' i l := by
  cases l <;> simp only [qstep] at hl <;> (repeat' split at hl) <;>
    first
    | (simp at hl; done)
    | (simp only [Option.some.injEq] at hl; subst hl
       simp_all [ObsQ, GuardQ, QLabel.toL2, Qsbr.step, projQ, upd])

/-- environment labels: other threads', the updater's, `flush j` for every `j` (also `j = i`), `setY` -/
theorem projQ_frame (c : Qsbr.Cfg) (s s' : Qsbr.State) (i : Nat) (l : Qsbr.Label)
    (st : Qsbr.step c s l = some s') (ho : ownerQ l ≠ some i) : projQ s' i = projQ s i := by
  cases l <;> simp only [Qsbr.step] at st <;> (repeat' split at st) <;>
    first
    | (simp at st; done)
    | (simp only [Option.some.injEq] at st; subst st
       simp_all [ownerQ, projQ, upd] <;> grind)

/-! ## futex handshake model: waker -/

structure KState where
  kpc : QsbrHs.KPc
  r   : Int
  deriving DecidableEq, Repr

def projK (s : QsbrHs.State) (i : Nat) : KState := { kpc := s.kpc i, r := s.r i }

inductive KLabel
  | k0               -- store own word (seq_cst)
  | k1 (w : Bool)    -- load `waiting[i]`, saw `w`
  | k2               -- store `waiting[i] := 0`
  | kf               -- `cmm_smp_mb()`
  | k3 (v : Int)     -- load `gp->futex`, saw `v`
  | k4Wake           -- (saw -1) store `gp->futex := 0`
  | k4Skip           -- (saw something else) return: no access
  | k5               -- FUTEX_WAKE
  deriving DecidableEq, Repr

def KLabel.toL2 (i : Nat) : KLabel → QsbrHs.Label
  | .k0 => .k0 i | .k1 true => .k1Set i | .k1 false => .k1Clear i | .k2 => .k2 i | .kf => .kf i
  | .k3 _ => .k3 i | .k4Wake => .k4Wake i | .k4Skip => .k4Skip i | .k5 => .k5 i

def ownerK : QsbrHs.Label → Option Nat
  | .k0 i | .k1Set i | .k1Clear i | .k2 i | .kf i | .k3 i | .k4Wake i | .k4Skip i | .k5 i => some i
  | _ => none

def kstep (ks : KState) : KLabel → Option KState
  | .k0 => if ks.kpc = .k0 then some { ks with kpc := .k1 } else none
  | .k1 w => if ks.kpc = .k1 then some { ks with kpc := if w then .k2 else .k9 } else none
  | .k2 => if ks.kpc = .k2 then some { ks with kpc := .kf } else none
  | .kf => if ks.kpc = .kf then some { ks with kpc := .k3 } else none
  | .k3 v => if ks.kpc = .k3 then some { ks with r := v, kpc := .k4 } else none
  | .k4Wake => if ks.kpc = .k4 ∧ ks.r = -1 then some { ks with kpc := .k5 } else none
  | .k4Skip => if ks.kpc = .k4 ∧ ks.r ≠ -1 then some { ks with kpc := .k9 } else none
  | .k5 => if ks.kpc = .k5 then some { ks with kpc := .k9 } else none

def krun : KState → List KLabel → Option KState
  | ks, [] => some ks
  | ks, l :: ls => match kstep ks l with
    | some n => krun n ls
    | none => none

def ObsK (s : QsbrHs.State) (i : Nat) : KLabel → Prop
  | .k1 w => w = s.waiting i
  | .k3 v => v = s.futex
  | _ => True

/-- non-local part of the guards: the values loaded; `kf` and `k5` (system call) wait for the store buffer to drain -/
def GuardK (s : QsbrHs.State) (i : Nat) : KLabel → Prop
  | .k1 w => w = s.waiting i
  | .k3 v => v = s.futex
  | .kf => s.bw0 i = false
  | .k5 => s.bf0 i = false ∧ s.bw0 i = false
  | _ => True

theorem projK_step (c : QsbrHs.Cfg) (s s' : QsbrHs.State) (i : Nat) (l : KLabel)
    (st : QsbrHs.step c s (l.toL2 i) = some s') (ho : ObsK s i l) :
    kstep (projK s i) l = some (projK s' i) := by
  cases l
  case k1 w => cases w <;> simp only [KLabel.toL2, QsbrHs.step] at st <;> split at st <;>
    first
    | (simp at st; done)
    | (simp only [Option.some.injEq] at st; subst st
       simp_all [ObsK, kstep, projK, upd])
  all_goals
    simp only [KLabel.toL2, QsbrHs.step] at st
    split at st
    · simp only [Option.some.injEq] at st; subst st
      simp_all [ObsK, kstep, projK, upd]
    · simp at st

theorem projK_enabled (c : QsbrHs.Cfg) (s : QsbrHs.State) (i : Nat) (l : KLabel) (ks' : KState)
    (hl : kstep (projK s i) l = some ks') (hi : i < c.n) (hg : GuardK s i l) :
    ∃ s', QsbrHs.step c s (l.toL2 i) = some s' ∧ projK s' i = ks' ∧ ObsK s i l := by
  cases l
  case k1 w =>
    simp only [kstep] at hl
    split at hl
    · simp only [Option.some.injEq] at hl; subst hl
      cases w <;> simp_all [ObsK, GuardK, KLabel.toL2, QsbrHs.step, projK, upd]
    · simp at hl
  all_goals
    simp only [kstep] at hl
    split at hl
    · simp only [Option.some.injEq] at hl; subst hl
      simp_all [ObsK, GuardK, KLabel.toL2, QsbrHs.step, projK, upd]
    · simp at hl

/-- environment labels: the waiter's (`w*`, `flushFutM1`, `flushWait j`), `flushW0 j` / `flushF0 j` for every `j`,
other wakers' -/
theorem projK_frame (c : QsbrHs.Cfg) (s s' : QsbrHs.State) (i : Nat) (l : QsbrHs.Label)
    (st : QsbrHs.step c s l = some s') (ho : ownerK l ≠ some i) : projK s' i = projK s i := by
  cases l <;> simp only [QsbrHs.step] at st <;> (repeat' split at st) <;>
    first
    | (simp at st; done)
    | (simp only [Option.some.injEq] at st; subst st
       simp_all [ownerK, projK, upd] <;> grind)

end UrcuVerif.Src.ReadQsbr
