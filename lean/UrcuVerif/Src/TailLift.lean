import UrcuVerif.Src.TailLocal
/-!
# The local automaton of `rcu_barrier()`'s caller against the real L2 step (`CallRcu.bstep`)

`lift_step`: a local step whose observed values agree with the global state (`Obs`) and whose global guard holds
(`Guard`) **is** the L2 run `toL2 t ls l` (one `bstep`, or none = stutter for the accesses L2 folds into a neighbouring
label), and the successor state agrees with the local successor (`Agree`).

`Guard` lists exactly what the local automaton cannot know: `t < c.n` (a user thread), the mutex is free (`lock`) /
held by `t` (`allocW`, `unlock`; L2's invariant `InvD.holds_mutex` provides it for a thread between `bLock` and `bUnlock`) /
not held by `t` (`put`), the marker id is fresh and the helper is on the list (`allocW`), C03's guard (`u`).
`Obs`: `allocB b` – `b = nextB`; `it x` in the counting loop – `x` is the next entry of `base.list`; `ldCnt v` – `v = cnt b`;
`w (bWaitLd v)` – `v = fut b`, `w (bWaitFx sleep/eagain)` – the kernel's comparison; `put r` – `r = ref b - 1`; `u l` – C03's `U.Obs`.
-/
set_option linter.unusedSimpArgs false
set_option linter.unusedVariables false
set_option maxRecDepth 4096
namespace UrcuVerif.Src.TailL
open UrcuVerif UrcuVerif.CallRcu UrcuVerif.Src.CallRcuL UrcuVerif.Src.Futex

/-- C03's pc of the thread at the local pcs where it is determined -/
def WF (ls : LState) : Prop :=
  match ls.pc with
  | .alloc => ls.u.pc = .idle ∧ ls.u.nest = 0
  | .lock _ | .count _ | .setRef _ | .first2 _ | .allocW _ | .bp _ => ls.u.pc = .ext
  | _ => True

/-- the local state agrees with thread `t`'s part of the global state -/
def Agree (ls : LState) (s : BState) (t : Nat) : Prop :=
  s.bpc t = ls.pc.abs ∧ U.proj s.base t = ls.u ∧ WF ls ∧
  (∀ b, ls.pc.abs = .loop b → s.todo b = ls.todo) ∧
  (∀ b, ls.pc = .count b → ls.seen = s.base.list.take ls.seen.length) ∧
  (∀ b, ls.pc = .setRef b → ls.seen = s.base.list)

/-- the values a label observes are these functions of the global state -/
def Obs (s : BState) (t : Nat) (ls : LState) : LLabel → Prop
  | .allocB b => b = s.nextB
  | .it x => (∀ b, ls.pc = .count b → x = s.base.list[ls.seen.length]?)
  | .u l => U.Obs s.base t l
  | .ldCnt v => ∀ b, ls.pc = .bp (.ldCnt b) → v = s.cnt b
  | .w l => Br.GuardW s t l
  | .put r => ∀ b, ls.pc = .bp (.put b) → r = s.ref b - 1
  | _ => True

/-- the part of the L2 guards that is not about the thread's own local state -/
def Guard (c : Cfg) (s : BState) (t : Nat) (ls : LState) : LLabel → Prop
  | .ongoing _ => ls.pc = .chk → t < c.n
  | .allocB _ => t < c.n
  | .lock => s.base.mutex = none
  | .allocW id => s.base.mutex = some t ∧ s.base.reg id = false ∧ (∀ h, ls.todo.head? = some h → h ∈ s.base.list)
  | .u l => U.Guard c s.base t l
  | .unlock => s.base.mutex = some t
  | .put _ => s.base.mutex ≠ some t
  | .bad => False
  | _ => True

theorem u_not_hook (t : Nat) (l : U.LLabel) (L : Label) (h : U.toL2 t l = some L) :
    L.isHook = false ∧ (∀ h cb, L ≠ .hRunBegin h cb) ∧ ∀ h, L ≠ .hRunEnd h := by
  cases l <;> simp only [U.toL2, Option.some.injEq, reduceCtorEq] at h <;> subst h <;> simp [Label.isHook]

theorem bstep_base (c : Cfg) (s : BState) (L : Label) (b' : State) (hk : L.isHook = false)
    (h1 : ∀ h cb, L ≠ .hRunBegin h cb) (h2 : ∀ h, L ≠ .hRunEnd h) (hs : step c s.base L = some b') :
    bstep c s (.base L) = some { s with base := b' } := by
  cases L <;> simp_all [bstep]

theorem lift_step (c : Cfg) (s : BState) (t : Nat) (ls ls' : LState) (l : LLabel)
    (ha : Agree ls s t) (ho : Obs s t ls l) (hg : Guard c s t ls l) (hs : lstep ls l = some ls') :
    ∃ s', brun c s (toL2 t ls l) = some s' ∧ Agree ls' s' t := by
  rcases ls with ⟨pc, wo, ⟨upc, un⟩, seen, td⟩
  obtain ⟨hbpc, hu, hwf, htd, hcnt, hset⟩ := ha
  have h1 : s.base.tpc t = upc := congrArg U.LState.pc hu
  have h2 : s.base.nest t = un := congrArg U.LState.nest hu
  clear hu
  subst h1 h2
  cases pc <;>
    (try simp only [Pc.abs, WF, reduceCtorEq, false_implies, implies_true, forall_const, Pc.count.injEq,
      Pc.setRef.injEq, BPc.loop.injEq, forall_eq'] at hbpc hwf htd hcnt hset)
  case start =>
    cases l <;> simp only [lstep, reduceCtorEq] at hs
    rename_i v
    simp only [Option.some.injEq] at hs; subst hs
    refine ⟨s, by simp [toL2, brun], ?_⟩
    cases v <;> simp [Agree, Pc.abs, WF, U.proj, hbpc]
  case off =>
    cases l <;> simp only [lstep, reduceCtorEq] at hs
    simp only [Option.some.injEq] at hs; subst hs
    exact ⟨s, by simp [toL2, brun], by simp [Agree, Pc.abs, WF, U.proj, hbpc]⟩
  case chk =>
    cases l <;> simp only [lstep, reduceCtorEq] at hs
    rename_i v
    simp only [Option.ite_none_right_eq_some, Option.some.injEq] at hs
    obtain ⟨⟨hv, hpc⟩, rfl⟩ := hs
    cases v with
    | false =>
      refine ⟨s, by simp [toL2, brun], ?_⟩
      have hn : s.base.nest t = 0 := by simpa using hv
      simp [Agree, Pc.abs, WF, U.proj, hbpc, hpc, hn]
    | true =>
      have hn : 0 < s.base.nest t := by simpa using hv.symm
      have ht : t < c.n := hg rfl
      refine ⟨{ s with refused := s.refused + 1 }, by simp [toL2, brun, bstep, ht, hpc, hn], ?_⟩
      simp [Agree, Pc.abs, WF, U.proj, hbpc]
  case warn =>
    cases l <;> simp only [lstep, reduceCtorEq] at hs
    simp only [Option.some.injEq] at hs; subst hs
    exact ⟨s, by simp [toL2, brun], by simp [Agree, Pc.abs, WF, U.proj, hbpc]⟩
  case alloc =>
    cases l <;> simp only [lstep, reduceCtorEq] at hs
    rename_i b
    simp only [Option.some.injEq] at hs; subst hs
    simp only [Obs] at ho
    simp only [Guard] at hg
    subst ho
    simp [toL2, brun, bstep, step, userCtx, hg, hwf.1, hwf.2, hbpc, Agree, Pc.abs, WF, U.proj, upd]
  case lock b =>
    cases l <;> simp only [lstep, reduceCtorEq] at hs
    simp only [Option.some.injEq] at hs; subst hs
    simp only [Guard] at hg
    simp [toL2, brun, bstep, step, hg, hwf, hbpc, Agree, Pc.abs, WF, U.proj, upd]
  case count b =>
    cases l <;> simp only [lstep, reduceCtorEq] at hs
    rename_i x
    simp only [Obs, Pc.count.injEq, forall_eq'] at ho
    cases x with
    | none =>
      simp only [Option.some.injEq] at hs; subst hs
      refine ⟨s, by simp [toL2, brun], ?_⟩
      have hlen : s.base.list.length ≤ seen.length := by
        rcases Nat.lt_or_ge seen.length s.base.list.length with h | h
        · rw [List.getElem?_eq_getElem h] at ho; cases ho
        · exact h
      have : seen = s.base.list := by rw [hcnt, List.take_of_length_le hlen]
      simp [Agree, Pc.abs, WF, U.proj, hbpc, hwf, this]
    | some h =>
      simp only [Option.some.injEq] at hs; subst hs
      refine ⟨s, by simp [toL2, brun], ?_⟩
      simp [Agree, Pc.abs, WF, U.proj, hbpc, hwf]
      rw [List.take_add_one, ← ho, ← hcnt]
      simp
  case setRef b =>
    cases l <;> simp only [lstep, reduceCtorEq] at hs
    rename_i m
    simp only [Option.ite_none_right_eq_some, Option.some.injEq] at hs
    obtain ⟨hm, rfl⟩ := hs
    simp [toL2, brun, bstep, hbpc, Agree, Pc.abs, WF, U.proj, upd, hwf, hset]
  case first2 b =>
    cases l <;> simp only [lstep, reduceCtorEq] at hs
    simp only [Option.ite_none_right_eq_some, Option.some.injEq] at hs
    obtain ⟨hx, rfl⟩ := hs
    exact ⟨s, by simp [toL2, brun], by simp [Agree, Pc.abs, WF, U.proj, hbpc, htd]⟩
  case loop2 b =>
    cases l <;> simp only [lstep, reduceCtorEq] at hs
    case it x =>
      simp only [Option.ite_none_right_eq_some, Option.some.injEq] at hs
      obtain ⟨⟨hpc, hne, hx⟩, rfl⟩ := hs
      exact ⟨s, by simp [toL2, brun], by simp [Agree, Pc.abs, WF, U.proj, hbpc, htd, hpc]⟩
    case unlock =>
      simp only [Option.ite_none_right_eq_some, Option.some.injEq] at hs
      obtain ⟨⟨hpc, hnil⟩, rfl⟩ := hs
      simp only [Guard] at hg
      subst hnil
      simp [toL2, brun, bstep, step, hbpc, htd, hpc, hg, Agree, Pc.abs, WF, U.proj, upd]
    case u ul =>
      split at hs
      · rename_i u' hu'
        simp only [Option.some.injEq] at hs; subst hs
        simp only [Obs] at ho
        simp only [Guard] at hg
        cases hL : U.toL2 t ul with
        | none => cases ul <;> simp [U.toL2] at hL; simp [U.lstep] at hu'
        | some L =>
          obtain ⟨hk, hr1, hr2⟩ := u_not_hook t ul L hL
          obtain ⟨b', hb', hp'⟩ := U.lift_step c s.base t ul L u' hL ho hg hu'
          refine ⟨{ s with base := b' }, by simp [toL2, hL, brun, bstep_base c s L b' hk hr1 hr2 hb'], ?_⟩
          simp [Agree, Pc.abs, WF, hbpc, htd, hp']
      · simp at hs
  case allocW b =>
    cases l <;> simp only [lstep, reduceCtorEq] at hs
    rename_i id
    cases td with
    | nil => simp at hs
    | cons h r =>
      simp only [Option.some.injEq] at hs; subst hs
      simp only [Guard] at hg
      obtain ⟨hm, hreg, hin⟩ := hg
      have hin' := hin h rfl
      simp [toL2, brun, bstep, step, hbpc, htd, hwf, hm, hreg, hin', Agree, Pc.abs, WF, U.proj, upd]
  case rel =>
    cases l <;> simp only [lstep, reduceCtorEq] at hs
    simp only [Option.some.injEq] at hs; subst hs
    exact ⟨s, by simp [toL2, brun], by simp [Agree, Pc.abs, WF, U.proj, hbpc]⟩
  case fin =>
    cases l <;> simp only [lstep, reduceCtorEq] at hs
    simp only [Option.ite_none_right_eq_some, Option.some.injEq] at hs
    obtain ⟨_, rfl⟩ := hs
    exact ⟨s, by simp [toL2, brun], by simp [Agree, Pc.abs, WF, U.proj, hbpc]⟩
  case bp p =>
    cases l <;> simp only [lstep, reduceCtorEq] at hs
    case dec =>
      cases p <;> simp only [reduceCtorEq, Option.some.injEq] at hs
      subst hs
      simp [toL2, brun, bstep, hbpc, Agree, Pc.abs, WF, U.proj, upd, hwf]
    case ldCnt v =>
      cases p <;> simp only [reduceCtorEq, Option.some.injEq] at hs
      subst hs
      rename_i b
      simp only [Obs, Pc.bp.injEq, BPc.ldCnt.injEq, forall_eq'] at ho
      subst ho
      by_cases h0 : s.cnt b = 0 <;> simp [toL2, brun, bstep, hbpc, Agree, Pc.abs, WF, U.proj, upd, hwf, h0]
    case put r =>
      cases p <;> simp only [reduceCtorEq, Option.some.injEq] at hs
      subst hs
      rename_i b
      simp only [Guard] at hg
      by_cases h0 : r = 0 <;>
        simp [toL2, brun, bstep, step, hbpc, Agree, Pc.abs, WF, U.proj, upd, hwf, h0, hg]
    case w wl =>
      split at hs
      · rename_i p' hp'
        simp only [Option.some.injEq] at hs; subst hs
        simp only [Obs] at ho
        rw [← hbpc] at hp'
        obtain ⟨s', hs', hpc'⟩ := Br.projW_enabled c s t wl p' hp' ho
        have hbase : s'.base = s.base ∧ ∀ b, s'.todo b = s.todo b := by
          cases wl with
          | bWaitFx o =>
            cases o <;> simp only [Br.WLabel.toL2, bstep] at hs' <;> (repeat' split at hs') <;>
              first
              | (simp at hs'; done)
              | (simp only [Option.some.injEq] at hs'; subst hs'; simp)
          | _ =>
            simp only [Br.WLabel.toL2, bstep] at hs' <;> (repeat' split at hs') <;>
              first
              | (simp at hs'; done)
              | (simp only [Option.some.injEq] at hs'; subst hs'; simp)
        refine ⟨s', by simp [toL2, brun, hs'], ?_⟩
        simp [Agree, Pc.abs, WF, U.proj, hbase.1, hpc', hwf]
        intro b hb
        subst hb
        exfalso
        cases wl <;> simp only [Br.lstep] at hp' <;> (repeat' split at hp') <;> simp at hp'
      · simp at hs

end UrcuVerif.Src.TailL
