import UrcuVerif.Fork.Model
import UrcuVerif.Src.IR
import UrcuVerif.Src.ForkLocal
/-!
# Thread-local projection of L2 (`Fork/Model.lean`) for `call_rcu_after_fork_child`, non-empty path

Local automaton `astep` of the forking thread `t` in the child.  Local state `ALState`: pc, `l` = `call_rcu_data_list` as
inherited from the parent (helper ids, list order), `d` = the id of the helper that `call_rcu_data_init` creates (L2's
`nextH`; at source level: the object `malloc` hands out).  Labels = accesses with the values observed.

Path covered: `cds_list_empty` answers false; `default_call_rcu_data = NULL`; `get_default_call_rcu_data()` = (load of the
default: NULL – the thread's own store, nobody else runs in the child) lock, `call_rcu_data_init` (malloc, memset, queue
init, `cds_list_add`, publication store, signals blocked around `pthread_create`), unlock; per-CPU array reset; then the
`cds_list_for_each_entry_safe` loop over the NEW list `d :: l` (**list-oracle discipline**: `first` / `next` enumerate it):
the new default is skipped (`continue`), every stale helper `h` gets `flags := STOPPED` and `_call_rcu_data_free(h, 0)`:
flags show STOPPED (own store: no STOP / wake / wait), lock, `cds_wfcq_empty` (**PARTIAL: only the answer "empty"** – the
splice of left-over callbacks onto the default helper's queue is not modelled here), `cds_list_del`, unlock, no join, free.

L2 labels (`aL2`): `unlock` at `acUnlock` ↦ `afcUnlock`; the `lock` of `get_default_call_rcu_data` ↦ `afcCreate` (L2's
creation is one atomic step guarded by "mutex free": it is taken when the lock is acquired; the other accesses of the
creation are stutter steps, nobody else runs in the child); the `lock` of `_call_rcu_data_free(h, 0)` ↦ `afcDispose`;
`afcDone` is the return (no event): `afcDone_enabled`.  The skip of the new default has no L2 label (L2's `afcLoop` runs
over the OLD list).
-/
set_option linter.unusedSimpArgs false
set_option linter.unusedVariables false
namespace UrcuVerif.Src.Fork2L
open UrcuVerif UrcuVerif.Fork UrcuVerif.Src.ForkL

inductive ALabel
  | unlock | lock
  | listEmpty (b : Bool)
  | ldDflt (v : Option Nat)         -- load of `default_call_rcu_data` saw helper / NULL
  | malloc (v : Option Nat)         -- `malloc(sizeof(struct call_rcu_data))` handed out object `v`
  | call (name : String)            -- an external call whose position is checked but that L2 does not see
  | listAdd (h : Nat)               -- `cds_list_add(&crd h->list, &call_rcu_data_list)`
  | stDflt (h : Nat)                -- `rcu_set_pointer(&default_call_rcu_data, crd h)`
  | create (h : Nat)                -- `pthread_create(&crd h->tid, NULL, call_rcu_thread, crd h)` returned 0
  | stPerCpu                        -- `rcu_set_pointer(&per_cpu_call_rcu_data, NULL)`
  | first (v : Option Nat) | next (h : Nat) (v : Option Nat)
  | stStopped (h : Nat)             -- `uatomic_store(&crd h->flags, URCU_CALL_RCU_STOPPED)`
  | ldFl (h f : Nat)
  | ldHead (h : Nat) (null : Bool)  -- load of `crd h->cbs_head.next`, compared with NULL
  | ldTail (h : Nat) (isHead : Bool) -- load of `crd h->cbs_tail.p`, compared with `&crd h->cbs_head`
  | listDel (h : Nat)               -- `cds_list_del(&crd h->list)`
  | free (h : Nat)                  -- `free(crd h)`
  | bad
  deriving DecidableEq, Repr

inductive APc
  | acUnlock | acEmpty
  | cr (k : Nat)                    -- position inside the creation sequence (see `astep`)
  | lpTop (rem : List Nat)          -- top of the dispose loop, `rem` = rest of the new list
  | lpSt (h : Nat) (rem : List Nat) | lpFl (h : Nat) (rem : List Nat) | lpLock (h : Nat) (rem : List Nat)
  | lpHead (h : Nat) (rem : List Nat) | lpTail (h : Nat) (rem : List Nat) | lpDel (h : Nat) (rem : List Nat)
  | lpUnl (h : Nat) (rem : List Nat) | lpFree (h : Nat) (rem : List Nat)
  deriving DecidableEq, Repr

structure ALState where
  pc : APc
  l : List Nat
  d : Nat
  deriving DecidableEq, Repr

/-- the creation sequence: what is expected at position `k` -/
def crExpect (d : Nat) : Nat → Option ALabel
  | 0 => some (.ldDflt none)
  | 1 => some .lock
  | 2 => some (.malloc (some d))
  | 3 => some (.call "memset")
  | 4 => some (.call "pthread_mutex_init")
  | 5 => some (.listAdd d)
  | 6 => some (.stDflt d)
  | 7 => some (.call "sigfillset")
  | 8 => some (.call "sigblock")
  | 9 => some (.create d)
  | 10 => some (.call "sigrestore")
  | 11 => some .unlock
  | 12 => some (.call "free_percpu")
  | 13 => some .stPerCpu
  | 14 => some (.first (some d))
  | _ => none

def astep (ls : ALState) (lab : ALabel) : Option ALState :=
  match ls.pc with
  | .acUnlock => (match lab with
    | .unlock => some { ls with pc := .acEmpty }
    | _ => none)
  | .acEmpty => (match lab with
    | .listEmpty b => if b = false then some { ls with pc := .cr 0 } else none
    | _ => none)
  | .cr k =>
    if crExpect ls.d k = some lab then some { ls with pc := if k = 14 then .lpTop (ls.d :: ls.l) else .cr (k + 1) } else none
  | .lpTop rem => (match rem with
    | h :: rem' => (match lab with
      | .next h' v => if h' = h ∧ v = rem'.head? then
          some { ls with pc := if h = ls.d then .lpTop rem' else .lpSt h rem' } else none
      | _ => none)
    | [] => none)
  | .lpSt h rem => (match lab with
    | .stStopped h' => if h' = h then some { ls with pc := .lpFl h rem } else none
    | _ => none)
  | .lpFl h rem => (match lab with
    | .ldFl h' f => if h' = h ∧ bit f 8 = true then some { ls with pc := .lpLock h rem } else none
    | _ => none)
  | .lpLock h rem => (match lab with
    | .lock => if h ≠ ls.d then some { ls with pc := .lpHead h rem } else none
    | _ => none)
  | .lpHead h rem => (match lab with
    | .ldHead h' nl => if h' = h ∧ nl = true then some { ls with pc := .lpTail h rem } else none
    | _ => none)
  | .lpTail h rem => (match lab with
    | .ldTail h' ih => if h' = h ∧ ih = true then some { ls with pc := .lpDel h rem } else none
    | _ => none)
  | .lpDel h rem => (match lab with
    | .listDel h' => if h' = h then some { ls with pc := .lpUnl h rem } else none
    | _ => none)
  | .lpUnl h rem => (match lab with
    | .unlock => some { ls with pc := .lpFree h rem }
    | _ => none)
  | .lpFree h rem => (match lab with
    | .free h' => if h' = h then some { ls with pc := .lpTop rem } else none
    | _ => none)

def arun : ALState → List ALabel → Option ALState
  | ls, [] => some ls
  | ls, l :: r => match astep ls l with
    | some ls' => arun ls' r
    | none => none

theorem arun_append (ls : ALState) (a b : List ALabel) :
    arun ls (a ++ b) = (arun ls a).bind (fun m => arun m b) := by
  induction a generalizing ls with
  | nil => rfl
  | cons x a ih =>
    simp only [List.cons_append, arun]
    cases astep ls x with
    | none => rfl
    | some p => exact ih p

/-- the stale helpers among `rem` -/
def stale (d : Nat) (rem : List Nat) : List Nat := rem.filter (· ≠ d)

/-- L2's `upc t` -/
def ALState.abs (ls : ALState) : UPc :=
  match ls.pc with
  | .acUnlock => .afcUnlock
  | .acEmpty => .afcCreate
  | .cr k => if k < 2 then .afcCreate else .afcLoop ls.l
  | .lpTop rem => .afcLoop (stale ls.d rem)
  | .lpSt h rem | .lpFl h rem | .lpLock h rem => .afcLoop (h :: stale ls.d rem)
  | .lpHead _ rem | .lpTail _ rem | .lpDel _ rem | .lpUnl _ rem | .lpFree _ rem => .afcLoop (stale ls.d rem)

/-- the new default helper exists -/
def ALState.created (ls : ALState) : Bool :=
  match ls.pc with
  | .acUnlock | .acEmpty => false
  | .cr k => decide (2 ≤ k)
  | _ => true

def aL2 (t : Nat) (ls : ALState) : ALabel → List Label
  | .unlock => (match ls.pc with
    | .acUnlock => [.afcUnlock t]
    | _ => [])
  | .lock => (match ls.pc with
    | .cr k => if k = 1 then [.afcCreate t] else []
    | .lpLock _ _ => [.afcDispose t]
    | _ => [])
  | _ => []

/-- the non-local part of L2's guards / the observed values: the thread owns the inherited mutex; when the lock of the
creation is acquired the mutex is free, the list is the inherited one (not empty) and the object handed out by `malloc` is
L2's next helper id; when the lock of a disposal is acquired the mutex is free -/
def aGuard (s : State) (t : Nat) (ls : ALState) : ALabel → Prop
  | .unlock => ls.pc = .acUnlock → s.mutex = some t
  | .lock => s.mutex = none ∧ (ls.pc = .cr 1 → s.list = ls.l ∧ s.list ≠ [] ∧ s.nextH = ls.d)
  | _ => True

def ARel (s : State) (t : Nat) (ls : ALState) : Prop :=
  s.upc t = ls.abs ∧ (ls.created = true → s.dflt = some ls.d)

theorem stale_self (d : Nat) (l : List Nat) (hd : d ∉ l) : stale d (d :: l) = l := by
  simp only [stale, List.filter_cons, ne_eq, not_true_eq_false, decide_false, Bool.false_eq_true, if_false]
  rw [List.filter_eq_self]
  intro a ha
  simp only [decide_eq_true_eq]
  intro h; subst h; exact hd ha

/-- **lift** -/
theorem aproj_lift (c : Cfg) (s : State) (t : Nat) (ls ls' : ALState) (lab : ALabel) (hd : ls.d ∉ ls.l)
    (hr : ARel s t ls) (hl : astep ls lab = some ls') (hg : aGuard s t ls lab) :
    ∃ s', Fork.run c s (aL2 t ls lab) = some s' ∧ ARel s' t ls' := by
  obtain ⟨pc, l, d⟩ := ls
  obtain ⟨hu, hc⟩ := hr
  cases pc with
  | cr k =>
    simp only [astep] at hl
    split at hl
    · rename_i hex
      simp only [Option.some.injEq] at hl; subst hl
      by_cases hk1 : k = 1
      · subst hk1
        simp only [crExpect, Option.some.injEq] at hex; subst hex
        obtain ⟨h1, h2⟩ := hg
        obtain ⟨h2, h3, h4⟩ := h2 rfl
        simp only at h2 h4
        have hu' : s.upc t = .afcCreate := by simpa [ALState.abs] using hu
        show ∃ s', Fork.run c s [.afcCreate t] = some s' ∧ ARel s' t _
        simp only [Fork.run, step]
        rw [if_pos ⟨hu', h3, h1⟩]
        refine ⟨_, rfl, ?_, ?_⟩
        · simp [ALState.abs, newHelper, h2]
        · intro _; simp [newHelper, h4]
      · have hnl : aL2 t ⟨.cr k, l, d⟩ lab = [] := by
          cases lab <;> simp [aL2, hk1]
        rw [hnl]
        refine ⟨s, rfl, ?_, ?_⟩
        · by_cases hk : k = 14
          · subst hk; simp_all [ALState.abs, stale_self]
          · simp only [hk, if_false, ALState.abs] at hu ⊢
            rw [hu]
            have : k ≠ 0 ∨ k = 0 := by omega
            by_cases h0 : k = 0
            · subst h0; simp
            · have h2 : ¬ k < 2 := by omega
              have h3 : ¬ k + 1 < 2 := by omega
              simp [h2, h3]
        · intro _
          apply hc
          by_cases hk : k = 14
          · subst hk; simp [ALState.created]
          · have : 2 ≤ k := by
              rcases Nat.lt_or_ge k 2 with h | h
              · exfalso
                have : k = 0 := by omega
                subst this
                simp only [crExpect, Option.some.injEq] at hex
                rename_i hcr
                simp [hk, ALState.created] at hcr
              · exact h
            simp [ALState.created, this]
    · simp at hl
  | lpTop rem =>
    cases rem with
    | nil => simp [astep] at hl
    | cons h rem' =>
      cases lab <;> simp only [astep] at hl <;> (try split at hl) <;>
        first
        | (simp at hl; done)
        | (simp only [Option.some.injEq] at hl; subst hl
           refine ⟨s, by simp [aL2, Fork.run], ?_, ?_⟩
           · by_cases hh : h = d <;> simp_all [ALState.abs, stale]
           · intro _; apply hc; simp [ALState.created])
  | lpLock h rem =>
    cases lab <;> simp only [astep] at hl <;> (try split at hl) <;>
      first
      | (simp at hl; done)
      | (simp only [Option.some.injEq] at hl; subst hl
         rename_i hne
         have hdf := hc (by simp [ALState.created])
         simp only [ALState.abs] at hu
         simp only [aGuard] at hg
         simp only at hdf
         show ∃ s', Fork.run c s [.afcDispose t] = some s' ∧ ARel s' t _
         simp only [Fork.run, step, hu, hdf]
         rw [if_pos ⟨Ne.symm hne, hg.1⟩]
         exact ⟨_, rfl, by simp [ALState.abs], fun _ => rfl⟩)
  | _ =>
    cases lab <;> simp only [astep] at hl <;> (try split at hl) <;> (try split at hl) <;>
      first
      | (simp at hl; done)
      | (simp only [Option.some.injEq] at hl; subst hl
         simp_all [aL2, Fork.run, step, aGuard, ARel, ALState.abs, ALState.created, stale]
         try (split <;> simp_all))

/-- L2's `afcDone t` is the return of the call: enabled at the local final state `lpTop []` -/
theorem afcDone_enabled (c : Cfg) (s : State) (t : Nat) (ls : ALState) (hr : ARel s t ls) (hp : ls.pc = .lpTop []) :
    ∃ s', step c s (.afcDone t) = some s' ∧ s'.upc t = .idle ∧ s'.child = false ∧ s'.win = none ∧ s'.list = s.list ∧
      s'.dflt = s.dflt := by
  obtain ⟨pc, l, d⟩ := ls
  obtain ⟨hu, hh⟩ := hr
  simp only at hp; subst hp
  simp [step, hu, ALState.abs, stale]

end UrcuVerif.Src.Fork2L
