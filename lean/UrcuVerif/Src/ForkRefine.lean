import UrcuVerif.Gen.Src
import UrcuVerif.Src.StackExec
import UrcuVerif.Src.ForkLocal
import UrcuVerif.Src.ForkExec
/-!
# Generated source IR of `call_rcu_before_fork` / `call_rcu_after_fork_parent` (`src/urcu-call-rcu-impl.h`) ⊑
thread-local projection of L2 (`Fork/Model.lean`, local automaton `ForkL.cstep`)

Addresses: the `struct call_rcu_data` of helper `h` is the object `Loc.obj h` (`&crdp->flags` = `Loc.field (.obj h) "flags"`,
`&crdp->futex` = `Loc.field (.obj h) "futex"`); NULL is `Val.int 0`.

Abstraction of events (`absEvC l`, `l` = L2's helper list when the mutex was taken), `some .bad` = rejected (no `cstep`
accepts it), `none` = silent:

* `_rcu_read_ongoing()` ↦ `ongoing b`, `rcu_thread_offline/online()` ↦ `offline` / `online` (the qsbr bracket around the wait);
* `pthread_mutex_lock/unlock(&call_rcu_mutex)` returning 0 ↦ `lock l` / `unlock` (any other result: `.bad` – the source
  calls `urcu_die`);
* `cds_list_for_each_entry.first(&call_rcu_data_list)` / `.next(&call_rcu_data_list, crd h)` ↦ `first v` / `next h v`, `v` the
  helper answered (`none` = NULL): the **list-oracle discipline** is enforced by `cstep` (the answers enumerate `l`);
* `uatomic_or(&crd h->flags, URCU_CALL_RCU_PAUSE)` ↦ `orPause h`, `uatomic_and(&crd h->flags, ~URCU_CALL_RCU_PAUSE)` ↦
  `clrPause h`; **every other write access to a `flags` word (store, exchange, cas, any other RMW or operand) is
  `.bad`**, as is any write to anything but `crd h->futex := 0`;
* loads of `crd h->flags` / `crd h->futex` ↦ `ldFl h f` / `ldFutex h v`; `store(&crd h->futex, 0)` ↦ `stFutex h`;
  `futex(&crd h->futex, FUTEX_WAKE, 1)` ↦ `wake h`;
* `cds_list_empty(&call_rcu_data_list)` ↦ `listEmpty b` (`call_rcu_after_fork_child`);
* silent: fences / compiler barriers (`cmm_smp_mb__after_uatomic_or()` stands next to the locked `or`, `cmm_smp_mb()` at the
  head of `call_rcu_wake_up` is folded into the futex load), `poll(NULL, 0, 1)` of the wait loops.
-/
set_option linter.unusedSimpArgs false
set_option linter.unusedVariables false
set_option maxRecDepth 8192
namespace UrcuVerif.Src.ForkR
open UrcuVerif UrcuVerif.Src UrcuVerif.Src.ForkL UrcuVerif.Src.ForkX

/-- the C value of a list answer -/
def encH : Option Nat → Val
  | none => .int 0
  | some h => .ptr (.obj h)

/-- decode a list answer: NULL or the `call_rcu_data` of a helper -/
def hval : Val → Option (Option Nat)
  | .int n => if n = 0 then some none else none
  | .ptr (.obj h) => some (some h)
  | _ => none

@[simp] theorem hval_encH (v : Option Nat) : hval (encH v) = some v := by cases v <;> simp [hval, encH]
@[simp] theorem encH_none : encH none = .int 0 := rfl
@[simp] theorem encH_some (h : Nat) : encH (some h) = .ptr (.obj h) := rfl

def listHead : Loc := .glob "call_rcu_data_list"
def mutexLoc : Loc := .glob "call_rcu_mutex"

def absEvC (l : List Nat) : Event → Option CLabel
  | .fence _ => none
  | .ext name args r =>
    if name = "_rcu_read_ongoing" then
      (match r with
        | .int n => some (.ongoing (n != 0))
        | _ => some .bad)
    else if name = "rcu_thread_offline" then some .offline
    else if name = "rcu_thread_online" then some .online
    else if name = "pthread_mutex_lock" then
      (if args = [.ptr mutexLoc] ∧ r = .int 0 then some (.lock l) else some .bad)
    else if name = "pthread_mutex_unlock" then
      (if args = [.ptr mutexLoc] ∧ r = .int 0 then some .unlock else some .bad)
    else if name = "cds_list_for_each_entry.first" then
      (if args = [.ptr listHead] then
        (match hval r with
          | some v => some (.first v)
          | none => some .bad)
       else some .bad)
    else if name = "cds_list_for_each_entry.next" then
      (match args with
        | [a, .ptr (.obj h)] => if a = .ptr listHead then
            (match hval r with
              | some v => some (.next h v)
              | none => some .bad)
          else some .bad
        | _ => some .bad)
    else if name = "futex_async" then
      (match args with
        | [.ptr (.field (.obj h) f), a1, a2, a3, a4, a5] =>
          if f = "futex" ∧ a1 = .int 1 ∧ a2 = .int 1 ∧ a3 = .int 0 ∧ a4 = .int 0 ∧ a5 = .int 0 then some (.wake h)
          else some .bad
        | _ => some .bad)
    else if name = "cds_list_empty" then
      (if args = [.ptr listHead] then
        (match r with
          | .int n => some (.listEmpty (n != 0))
          | _ => some .bad)
       else some .bad)
    else if name = "poll" then none
    else some .bad
  | .rmw op loc operand _ _ =>
    (match loc with
      | .field (.obj h) f =>
        if f = "flags" then
          (if op = .uor ∧ operand = .int 16 then some (.orPause h)
           else if op = .uand ∧ operand = .int 18446744073709551599 then some (.clrPause h)
           else some .bad)
        else some .bad
      | _ => some .bad)
  | .ld loc v _ =>
    (match loc with
      | .field (.obj h) f =>
        if f = "flags" then
          (match v with
            | .int n => if 0 ≤ n then some (.ldFl h n.toNat) else some .bad
            | _ => some .bad)
        else if f = "futex" then
          (match v with
            | .int n => some (.ldFutex h n)
            | _ => some .bad)
        else some .bad
      | _ => some .bad)
  | .st loc v _ =>
    (match loc with
      | .field (.obj h) f => if f = "futex" ∧ v = .int 0 then some (.stFutex h) else some .bad
      | _ => some .bad)
  | .xchg _ _ _ _ => some .bad
  | .cas _ _ _ _ _ _ => some .bad

/-- replay of the abstraction of an event list on the local automaton -/
def clr (l : List Nat) (ls : CLState) (evs : List Event) : Option CLState := crun ls (evs.filterMap (absEvC l))

theorem clr_nil (l : List Nat) (ls : CLState) : clr l ls [] = some ls := rfl
theorem clr_append (l : List Nat) (ls : CLState) (a b : List Event) :
    clr l ls (a ++ b) = (clr l ls a).bind (fun m => clr l m b) := by
  simp [clr, List.filterMap_append, crun_append]

def RC (l : List Nat) : Replay CLState := ⟨clr l, clr_nil l, clr_append l⟩

/-! ## oracles (well-typed, list-oracle discipline) -/

/-- one ignored value (the result of an RMW without return value, of `poll`, of a `void` external call), then `P` -/
def Skip1 (P : List Val → Prop) : List Val → Prop
  | [] => True
  | _ :: rest => P rest

/-- oracle of `wake_call_rcu_thread`: the flags word is a non-negative integer; (not RT:) the futex word an integer; (saw
-1:) FUTEX_WAKE does not fail (the source calls `urcu_die()` otherwise) -/
def WakeInp (P : List Val → Prop) : List Val → Prop
  | [] => True
  | f :: rest => ∃ n : Nat, f = .int n ∧
    (if bit n 1 = true then P rest else
      match rest with
      | [] => True
      | v :: rest2 => ∃ x : Int, v = .int x ∧
        if x = -1 then
          (match rest2 with
            | [] => True
            | r :: rest3 => (∃ k : Int, 0 ≤ k ∧ r = .int k) ∧ P rest3)
        else P rest2)

/-- oracle of a poll loop `while ((load(&crdp->flags) & PAUSED) ==/!= 0) poll(NULL, 0, 1)`: flags word (a non-negative
integer); if it does not show the awaited state of PAUSED (`want`): result of `poll` (ignored), again -/
def PollInp (want : Bool) (P : List Val → Prop) : List Val → Prop
  | [] => True
  | f :: rest => ∃ n : Nat, f = .int n ∧
    (if bit n 32 = want then P rest else
      match rest with
      | [] => True
      | _ :: rest2 => PollInp want P rest2)

/-- oracle of the first loop of `before_fork` from its top, `rem` = helpers still to come (the lookahead is already
loaded): the successor answered by `.next` is the head of the rest of L2's list; result of `uatomic_or` (ignored); the
wake path -/
def PauseLoopInp (P : List Val → Prop) : List Nat → List Val → Prop
  | [], inp => P inp
  | _ :: rem, inp =>
    match inp with
    | [] => True
    | nx :: rest => nx = encH rem.head? ∧ Skip1 (WakeInp (PauseLoopInp P rem)) rest

/-- oracle of the first loop of `after_fork_parent`: successor, result of `uatomic_and` (ignored) -/
def ClrLoopInp (P : List Val → Prop) : List Nat → List Val → Prop
  | [], inp => P inp
  | _ :: rem, inp =>
    match inp with
    | [] => True
    | nx :: rest => nx = encH rem.head? ∧ Skip1 (ClrLoopInp P rem) rest

/-- oracle of a wait loop: successor, the poll loop -/
def WaitLoopInp (want : Bool) (P : List Val → Prop) : List Nat → List Val → Prop
  | [], inp => P inp
  | _ :: rem, inp =>
    match inp with
    | [] => True
    | nx :: rest => nx = encH rem.head? ∧ PollInp want (WaitLoopInp want P rem) rest

/-- answer of `.first`, then `P` -/
def FirstInp (l : List Nat) (P : List Val → Prop) : List Val → Prop
  | [] => True
  | f :: rest => f = encH l.head? ∧ P rest

/-- result 0 of `pthread_mutex_lock/unlock`, then `P` -/
def ZeroInp (P : List Val → Prop) : List Val → Prop
  | [] => True
  | r :: rest => r = .int 0 ∧ P rest

/-- oracle of `call_rcu_before_fork` for the helper list `l`: answer of `_rcu_read_ongoing()` (an integer; non-zero: the
result of `rcu_thread_offline()` follows), `pthread_mutex_lock` returns 0, the two loops enumerate `l`, (was online:) the
result of `rcu_thread_online()` -/
def BfInp (l : List Nat) : List Val → Prop
  | [] => True
  | o :: rest => ∃ n : Int, o = .int n ∧
    let tl := ZeroInp (FirstInp l (PauseLoopInp (FirstInp l (WaitLoopInp true (fun _ => True) l)) l))
    if n = 0 then tl rest else Skip1 tl rest

/-- oracle of `call_rcu_after_fork_parent` for the helper list `l` -/
def AfpInp (l : List Nat) : List Val → Prop :=
  FirstInp l (ClrLoopInp (FirstInp l (WaitLoopInp false (ZeroInp (fun _ => True)) l)) l)

/-! ## `call_rcu_before_fork` -/

/-- statements 0..6: `_rcu_read_ongoing`, offline, lock, the rculfhash hook, `.first` -/
def bfPre : Stmt := (splitSeq 6 Gen.Src.«call_rcu_before_fork»).1
/-- the rest: loop 1; `.first`; loop 2; online -/
def bfRest : Stmt := (splitSeq 6 Gen.Src.«call_rcu_before_fork»).2
def bfBody1 : Stmt := (firstLoop (seqNth 0 bfRest)).getD .skip
def bfFirst2 : Stmt := seqNth 1 bfRest
def bfBody2 : Stmt := (firstLoop (seqNth 2 bfRest)).getD .skip
def bfPost : Stmt := seqNth 3 bfRest
/-- the poll loop inside loop 2 -/
def bfPollBody : Stmt := (firstLoop (seqNth 3 bfBody2)).getD .skip

theorem bfRest_eq : bfRest = .seq (.loop bfBody1) (.seq bfFirst2 (.seq (.loop bfBody2) bfPost)) := rfl
theorem bfBody2_eq : ∃ s0 s1 s2, bfBody2 = .seq s0 (.seq s1 (.seq s2 (.loop bfPollBody))) := ⟨_, _, _, rfl⟩

/-- precondition of the whole call: no rculfhash atfork hook registered (that hook is `Fork/Wq.lean`'s), well-typed
oracle obeying the list discipline for `l`, local automaton at `idle` -/
def BfPre0 (l : List Nat) : Pre CLState := fun env inp ls =>
  env.priv (.glob "registered_rculfhash_atfork") = some (.int 0) ∧ BfInp l inp ∧ ls.pc = .idle

/-- at the top of loop 1 -/
def BfI1 (l : List Nat) (w : Int) (P : List Val → Prop) : Pre CLState := fun env inp ls =>
  env.vars "was_online" = some (.int w) ∧
  ∃ rem, env.vars "_t2" = some (encH rem.head?) ∧ ls = ⟨.bfTop rem, l, w != 0⟩ ∧ PauseLoopInp P rem inp

theorem bfPre_tri (l : List Nat) (fuel : Nat) :
    Tri (RC l) fuel bfPre (BfPre0 l)
      (norm fun env inp ls => ∃ w, BfI1 l w (FirstInp l (WaitLoopInp true (fun _ => True) l)) env inp ls) := by
  intro env inp ls ⟨hh, hi, hpc⟩
  obtain ⟨pc, l0, on0⟩ := ls
  simp only at hpc; subst hpc
  cases inp with
  | nil => fexec [bfPre, Gen.Src.«call_rcu_before_fork», RC, clr, crun]
  | cons o rest =>
    obtain ⟨n, rfl, hi⟩ := hi
    by_cases hn : n = 0
    · subst hn
      simp only [if_true] at hi
      cases rest with
      | nil => fexec [bfPre, Gen.Src.«call_rcu_before_fork», Gen.Src.«call_rcu_lock», RC, clr, crun, absEvC, cstep]
      | cons r rest =>
        obtain ⟨rfl, hi⟩ := hi
        cases rest with
        | nil =>
          fexec [bfPre, Gen.Src.«call_rcu_before_fork», Gen.Src.«call_rcu_lock», RC, clr, crun, absEvC, cstep,
            mutexLoc]
        | cons f rest =>
          obtain ⟨rfl, hi⟩ := hi
          fexec [bfPre, Gen.Src.«call_rcu_before_fork», Gen.Src.«call_rcu_lock», RC, clr, crun, absEvC, cstep,
            mutexLoc, listHead, BfI1]
          exact ⟨l, rfl, rfl, hi⟩
    · simp only [if_neg hn] at hi
      cases rest with
      | nil => fexec [bfPre, Gen.Src.«call_rcu_before_fork», Gen.Src.«call_rcu_lock», RC, clr, crun, absEvC, cstep]
      | cons u rest =>
        simp only [Skip1] at hi
        cases rest with
        | nil => fexec [bfPre, Gen.Src.«call_rcu_before_fork», Gen.Src.«call_rcu_lock», RC, clr, crun, absEvC, cstep]
        | cons r rest =>
          obtain ⟨rfl, hi⟩ := hi
          cases rest with
          | nil =>
            fexec [bfPre, Gen.Src.«call_rcu_before_fork», Gen.Src.«call_rcu_lock», RC, clr, crun, absEvC, cstep,
              mutexLoc]
          | cons f rest =>
            obtain ⟨rfl, hi⟩ := hi
            fexec [bfPre, Gen.Src.«call_rcu_before_fork», Gen.Src.«call_rcu_lock», RC, clr, crun, absEvC, cstep,
              mutexLoc, listHead, BfI1]
            exact ⟨l, rfl, rfl, hi⟩

/-- loop 1 left: every helper of `l` has been sent PAUSE and woken -/
def BfQ1 (l : List Nat) (w : Int) (P : List Val → Prop) : Pre CLState := fun env inp ls =>
  env.vars "was_online" = some (.int w) ∧ ls = ⟨.bfTop [], l, w != 0⟩ ∧ P inp

theorem bfBody1_tri (l : List Nat) (w : Int) (P : List Val → Prop) (fuel : Nat) :
    Tri (RC l) fuel bfBody1 (BfI1 l w P)
      (fun c env inp ls => if c.goesOn then BfI1 l w P env inp ls else brkPost (BfQ1 l w P) c env inp ls) := by
  intro env inp ls ⟨hw, rem, ht, hls, hi⟩
  subst hls
  cases rem with
  | nil =>
    simp only [PauseLoopInp] at hi
    fexec [bfBody1, bfRest, Gen.Src.«call_rcu_before_fork», RC, clr, crun, brkPost, BfQ1]
  | cons h rem =>
    cases inp with
    | nil => fexec [bfBody1, bfRest, Gen.Src.«call_rcu_before_fork», RC, clr, crun, brkPost]
    | cons nx rest =>
      obtain ⟨rfl, hi⟩ := hi
      cases rest with
      | nil =>
        fexec [bfBody1, bfRest, Gen.Src.«call_rcu_before_fork», RC, clr, crun, brkPost, absEvC, cstep, listHead]
      | cons u rest =>
        simp only [Skip1] at hi
        cases rest with
        | nil =>
          fexec [bfBody1, bfRest, Gen.Src.«call_rcu_before_fork», Gen.Src.«wake_call_rcu_thread», RC, clr, crun, brkPost,
            absEvC, cstep, listHead]
        | cons f rest =>
          obtain ⟨n, rfl, hi⟩ := hi
          by_cases hrt : bit n 1 = true
          · rw [if_pos hrt] at hi
            fexec [bfBody1, bfRest, Gen.Src.«call_rcu_before_fork», Gen.Src.«wake_call_rcu_thread»,
              Gen.Src.«call_rcu_wake_up», RC, clr, crun, brkPost, absEvC, cstep, listHead, BfI1, hrt]
            exact ⟨rem, rfl, rfl, hi⟩
          · rw [if_neg hrt] at hi
            cases rest with
            | nil =>
              fexec [bfBody1, bfRest, Gen.Src.«call_rcu_before_fork», Gen.Src.«wake_call_rcu_thread»,
                Gen.Src.«call_rcu_wake_up», RC, clr, crun, brkPost, absEvC, cstep, listHead, BfI1, hrt]
            | cons v rest =>
              obtain ⟨x, rfl, hi⟩ := hi
              by_cases hx : x = -1
              · subst hx
                rw [if_pos rfl] at hi
                cases rest with
                | nil =>
                  fexec [bfBody1, bfRest, Gen.Src.«call_rcu_before_fork», Gen.Src.«wake_call_rcu_thread»,
                    Gen.Src.«call_rcu_wake_up», RC, clr, crun, brkPost, absEvC, cstep, listHead, BfI1, hrt]
                | cons r rest =>
                  obtain ⟨⟨k, hk, rfl⟩, hi⟩ := hi
                  have hk' : ¬ (k < 0) := by omega
                  fexec [bfBody1, bfRest, Gen.Src.«call_rcu_before_fork», Gen.Src.«wake_call_rcu_thread»,
                    Gen.Src.«call_rcu_wake_up», RC, clr, crun, brkPost, absEvC, cstep, listHead, BfI1, hrt]
                  exact ⟨rem, rfl, rfl, hi⟩
              · rw [if_neg hx] at hi
                fexec [bfBody1, bfRest, Gen.Src.«call_rcu_before_fork», Gen.Src.«wake_call_rcu_thread»,
                  Gen.Src.«call_rcu_wake_up», RC, clr, crun, brkPost, absEvC, cstep, listHead, BfI1, hrt]
                exact ⟨rem, rfl, rfl, hi⟩

/-- at the top of loop 2 -/
def BfI2 (l : List Nat) (w : Int) (P : List Val → Prop) : Pre CLState := fun env inp ls =>
  env.vars "was_online" = some (.int w) ∧
  ∃ rem, env.vars "_t3" = some (encH rem.head?) ∧ ls = ⟨.bwTop rem, l, w != 0⟩ ∧ WaitLoopInp true P rem inp
/-- at the top of the poll loop of loop 2 -/
def BfIP (l : List Nat) (w : Int) (P : List Val → Prop) : Pre CLState := fun env inp ls =>
  env.vars "was_online" = some (.int w) ∧
  ∃ h rem, env.vars "crdp" = some (.ptr (.obj h)) ∧ env.vars "_t3" = some (encH rem.head?) ∧
    ls = ⟨.bwPoll h rem, l, w != 0⟩ ∧ PollInp true (WaitLoopInp true P rem) inp
/-- loop 2 left: every helper of `l` has shown PAUSED -/
def BfQ2 (l : List Nat) (w : Int) (P : List Val → Prop) : Pre CLState := fun env inp ls =>
  env.vars "was_online" = some (.int w) ∧ ls = ⟨.bwTop [], l, w != 0⟩ ∧ P inp

theorem bfFirst2_tri (l : List Nat) (w : Int) (P : List Val → Prop) (fuel : Nat) :
    Tri (RC l) fuel bfFirst2 (BfQ1 l w (FirstInp l (WaitLoopInp true P l))) (norm (BfI2 l w P)) := by
  intro env inp ls ⟨hw, hls, hi⟩
  subst hls
  cases inp with
  | nil => fexec [bfFirst2, bfRest, Gen.Src.«call_rcu_before_fork», RC, clr, crun]
  | cons f rest =>
    obtain ⟨rfl, hi⟩ := hi
    fexec [bfFirst2, bfRest, Gen.Src.«call_rcu_before_fork», RC, clr, crun, absEvC, cstep, listHead, BfI2]
    exact ⟨l, rfl, rfl, hi⟩

def bfHead2 : Stmt := (splitSeq 2 bfBody2).1
theorem bfBody2_split : (splitSeq 2 bfBody2).2 = .loop bfPollBody := rfl

theorem bfHead2_tri (l : List Nat) (w : Int) (P : List Val → Prop) (fuel : Nat) :
    Tri (RC l) fuel bfHead2 (BfI2 l w P) (headPost (BfIP l w P) (BfQ2 l w P)) := by
  intro env inp ls ⟨hw, rem, ht, hls, hi⟩
  subst hls
  cases rem with
  | nil =>
    simp only [WaitLoopInp] at hi
    fexec [bfHead2, bfBody2, bfRest, Gen.Src.«call_rcu_before_fork», RC, clr, crun, headPost, brkPost, BfQ2]
  | cons h rem =>
    cases inp with
    | nil => fexec [bfHead2, bfBody2, bfRest, Gen.Src.«call_rcu_before_fork», RC, clr, crun, headPost, brkPost]
    | cons nx rest =>
      obtain ⟨rfl, hi⟩ := hi
      fexec [bfHead2, bfBody2, bfRest, Gen.Src.«call_rcu_before_fork», RC, clr, crun, headPost, brkPost, absEvC, cstep,
        listHead, BfIP]
      exact ⟨rem, rfl, rfl, hi⟩

theorem bfPoll_tri (l : List Nat) (w : Int) (P : List Val → Prop) (fuel : Nat) :
    Tri (RC l) fuel bfPollBody (BfIP l w P)
      (fun c env inp ls => if c.goesOn then BfIP l w P env inp ls else brkPost (BfI2 l w P) c env inp ls) := by
  intro env inp ls ⟨hw, h, rem, hc, ht, hls, hi⟩
  subst hls
  cases inp with
  | nil => fexec [bfPollBody, bfBody2, bfRest, Gen.Src.«call_rcu_before_fork», RC, clr, crun, brkPost]
  | cons f rest =>
    cases rest with
    | nil =>
      simp only [PollInp] at hi
      obtain ⟨n, rfl, hi⟩ := hi
      by_cases hb : bit n 32 = true
      · rw [if_pos hb] at hi
        fexec [bfPollBody, bfBody2, bfRest, Gen.Src.«call_rcu_before_fork», RC, clr, crun, brkPost, absEvC, cstep, BfI2, hb]
        exact ⟨rem, rfl, rfl, hi⟩
      · fexec [bfPollBody, bfBody2, bfRest, Gen.Src.«call_rcu_before_fork», RC, clr, crun, brkPost, absEvC, cstep, hb]
    | cons p rest =>
      simp only [PollInp] at hi
      obtain ⟨n, rfl, hi⟩ := hi
      by_cases hb : bit n 32 = true
      · rw [if_pos hb] at hi
        fexec [bfPollBody, bfBody2, bfRest, Gen.Src.«call_rcu_before_fork», RC, clr, crun, brkPost, absEvC, cstep, BfI2, hb]
        exact ⟨rem, rfl, rfl, hi⟩
      · rw [if_neg hb] at hi
        fexec [bfPollBody, bfBody2, bfRest, Gen.Src.«call_rcu_before_fork», RC, clr, crun, brkPost, absEvC, cstep,
          BfIP, hb]
        exact ⟨rem, rfl, rfl, hi⟩

theorem bfBody2_tri (l : List Nat) (w : Int) (P : List Val → Prop) (fuel : Nat) :
    Tri (RC l) fuel bfBody2 (BfI2 l w P)
      (fun c env inp ls => if c.goesOn then BfI2 l w P env inp ls else brkPost (BfQ2 l w P) c env inp ls) := by
  apply Tri.split 2
  rw [bfBody2_split]
  exact Tri.head_while (BfI2 l w P) (BfIP l w P) (BfQ2 l w P) (bfHead2_tri l w P fuel) (bfPoll_tri l w P fuel)

/-- the call returned: every helper of `l` was sent PAUSE, woken and has shown PAUSED; the mutex is held; the thread is
online again if it was -/
def BfDone (l : List Nat) : Pre CLState := fun _ _ ls => ls = ⟨.bwTop [], l, false⟩

theorem bfPost_tri (l : List Nat) (w : Int) (fuel : Nat) :
    Tri (RC l) fuel bfPost (BfQ2 l w (fun _ => True)) (norm (BfDone l)) := by
  intro env inp ls ⟨hw, hls, _⟩
  subst hls
  by_cases h0 : w = 0
  · subst h0
    fexec [bfPost, bfRest, Gen.Src.«call_rcu_before_fork», RC, clr, crun, BfDone]
  · cases inp with
    | nil => fexec [bfPost, bfRest, Gen.Src.«call_rcu_before_fork», RC, clr, crun, BfDone]
    | cons u rest =>
      fexec [bfPost, bfRest, Gen.Src.«call_rcu_before_fork», RC, clr, crun, BfDone, absEvC, cstep]

/-- `call_rcu_before_fork()` -/
theorem before_fork_tri (l : List Nat) (fuel : Nat) :
    Tri (RC l) fuel Gen.Src.«call_rcu_before_fork» (BfPre0 l) (norm (BfDone l)) := by
  apply Tri.split 6
  refine Tri.seq (bfPre_tri l fuel) ?_ (fun c env inp ls hc h => norm_of_ne _ _ c env inp ls hc h)
  show Tri (RC l) fuel bfRest _ _
  rw [bfRest_eq]
  apply Tri.exists
  intro w
  refine Tri.seq (Tri.while _ _ (bfBody1_tri l w _ fuel)) ?_ (fun c env inp ls hc h => norm_of_ne _ _ c env inp ls hc h)
  refine Tri.seq (bfFirst2_tri l w _ fuel) ?_ (fun c env inp ls hc h => norm_of_ne _ _ c env inp ls hc h)
  exact Tri.seq (Tri.while _ _ (bfBody2_tri l w _ fuel)) (bfPost_tri l w fuel)
    (fun c env inp ls hc h => norm_of_ne _ _ c env inp ls hc h)

/-! ## `call_rcu_after_fork_parent` -/

def apFirst1 : Stmt := seqNth 0 Gen.Src.«call_rcu_after_fork_parent»
def apBody1 : Stmt := (firstLoop (seqNth 1 Gen.Src.«call_rcu_after_fork_parent»)).getD .skip
def apFirst2 : Stmt := seqNth 2 Gen.Src.«call_rcu_after_fork_parent»
def apBody2 : Stmt := (firstLoop (seqNth 3 Gen.Src.«call_rcu_after_fork_parent»)).getD .skip
/-- the rculfhash hook and the unlock -/
def apPost : Stmt := (splitSeq 3 Gen.Src.«call_rcu_after_fork_parent»).2
def apHead2 : Stmt := (splitSeq 2 apBody2).1
def apPollBody : Stmt := (firstLoop (seqNth 3 apBody2)).getD .skip

theorem afp_eq : Gen.Src.«call_rcu_after_fork_parent» =
    .seq apFirst1 (.seq (.loop apBody1) (.seq apFirst2 (.seq (.loop apBody2) apPost))) := rfl
theorem apBody2_split : (splitSeq 2 apBody2).2 = .loop apPollBody := rfl

def hookLoc : Loc := .glob "registered_rculfhash_atfork"

/-- precondition: no rculfhash atfork hook registered, oracle obeying the list discipline for `l`, local automaton at the
entry of `after_fork_parent` (L2: `afpClr l`, set by `forkParent`) -/
def ApPre0 (l : List Nat) (on : Bool) : Pre CLState := fun env inp ls =>
  env.priv hookLoc = some (.int 0) ∧ AfpInp l inp ∧ ls = ⟨.apFirst, l, on⟩
def ApI1 (l : List Nat) (on : Bool) (P : List Val → Prop) : Pre CLState := fun env inp ls =>
  env.priv hookLoc = some (.int 0) ∧
  ∃ rem, env.vars "_t1" = some (encH rem.head?) ∧ ls = ⟨.apTop rem, l, on⟩ ∧ ClrLoopInp P rem inp
def ApQ1 (l : List Nat) (on : Bool) (P : List Val → Prop) : Pre CLState := fun env inp ls =>
  env.priv hookLoc = some (.int 0) ∧ ls = ⟨.apTop [], l, on⟩ ∧ P inp
def ApI2 (l : List Nat) (on : Bool) (P : List Val → Prop) : Pre CLState := fun env inp ls =>
  env.priv hookLoc = some (.int 0) ∧
  ∃ rem, env.vars "_t2" = some (encH rem.head?) ∧ ls = ⟨.awTop rem, l, on⟩ ∧ WaitLoopInp false P rem inp
def ApIP (l : List Nat) (on : Bool) (P : List Val → Prop) : Pre CLState := fun env inp ls =>
  env.priv hookLoc = some (.int 0) ∧
  ∃ h rem, env.vars "crdp" = some (.ptr (.obj h)) ∧ env.vars "_t2" = some (encH rem.head?) ∧
    ls = ⟨.awPoll h rem, l, on⟩ ∧ PollInp false (WaitLoopInp false P rem) inp
def ApQ2 (l : List Nat) (on : Bool) (P : List Val → Prop) : Pre CLState := fun env inp ls =>
  env.priv hookLoc = some (.int 0) ∧ ls = ⟨.awTop [], l, on⟩ ∧ P inp
/-- the call returned: PAUSE cleared for every helper of `l`, each has shown PAUSED clear, the mutex is released -/
def ApDone (l : List Nat) (on : Bool) : Pre CLState := fun _ _ ls => ls = ⟨.idle, l, on⟩

theorem apFirst1_tri (l : List Nat) (on : Bool) (fuel : Nat) :
    Tri (RC l) fuel apFirst1 (ApPre0 l on)
      (norm (ApI1 l on (FirstInp l (WaitLoopInp false (ZeroInp (fun _ => True)) l)))) := by
  intro env inp ls ⟨hh, hi, hls⟩
  subst hls
  cases inp with
  | nil => fexec [apFirst1, Gen.Src.«call_rcu_after_fork_parent», RC, clr, crun]
  | cons f rest =>
    obtain ⟨rfl, hi⟩ := hi
    fexec [apFirst1, Gen.Src.«call_rcu_after_fork_parent», RC, clr, crun, absEvC, cstep, listHead, ApI1]
    exact ⟨l, rfl, rfl, hi⟩

theorem apBody1_tri (l : List Nat) (on : Bool) (P : List Val → Prop) (fuel : Nat) :
    Tri (RC l) fuel apBody1 (ApI1 l on P)
      (fun c env inp ls => if c.goesOn then ApI1 l on P env inp ls else brkPost (ApQ1 l on P) c env inp ls) := by
  intro env inp ls ⟨hh, rem, ht, hls, hi⟩
  subst hls
  cases rem with
  | nil =>
    simp only [ClrLoopInp] at hi
    fexec [apBody1, Gen.Src.«call_rcu_after_fork_parent», RC, clr, crun, brkPost, ApQ1]
  | cons h rem =>
    cases inp with
    | nil => fexec [apBody1, Gen.Src.«call_rcu_after_fork_parent», RC, clr, crun, brkPost]
    | cons nx rest =>
      obtain ⟨rfl, hi⟩ := hi
      cases rest with
      | nil =>
        fexec [apBody1, Gen.Src.«call_rcu_after_fork_parent», RC, clr, crun, brkPost, absEvC, cstep, listHead]
      | cons u rest =>
        simp only [Skip1] at hi
        fexec [apBody1, Gen.Src.«call_rcu_after_fork_parent», RC, clr, crun, brkPost, absEvC, cstep, listHead, ApI1]
        exact ⟨rem, rfl, rfl, hi⟩

theorem apFirst2_tri (l : List Nat) (on : Bool) (P : List Val → Prop) (fuel : Nat) :
    Tri (RC l) fuel apFirst2 (ApQ1 l on (FirstInp l (WaitLoopInp false P l))) (norm (ApI2 l on P)) := by
  intro env inp ls ⟨hh, hls, hi⟩
  subst hls
  cases inp with
  | nil => fexec [apFirst2, Gen.Src.«call_rcu_after_fork_parent», RC, clr, crun]
  | cons f rest =>
    obtain ⟨rfl, hi⟩ := hi
    fexec [apFirst2, Gen.Src.«call_rcu_after_fork_parent», RC, clr, crun, absEvC, cstep, listHead, ApI2]
    exact ⟨l, rfl, rfl, hi⟩

theorem apHead2_tri (l : List Nat) (on : Bool) (P : List Val → Prop) (fuel : Nat) :
    Tri (RC l) fuel apHead2 (ApI2 l on P) (headPost (ApIP l on P) (ApQ2 l on P)) := by
  intro env inp ls ⟨hh, rem, ht, hls, hi⟩
  subst hls
  cases rem with
  | nil =>
    simp only [WaitLoopInp] at hi
    fexec [apHead2, apBody2, Gen.Src.«call_rcu_after_fork_parent», RC, clr, crun, headPost, brkPost, ApQ2]
  | cons h rem =>
    cases inp with
    | nil => fexec [apHead2, apBody2, Gen.Src.«call_rcu_after_fork_parent», RC, clr, crun, headPost, brkPost]
    | cons nx rest =>
      obtain ⟨rfl, hi⟩ := hi
      fexec [apHead2, apBody2, Gen.Src.«call_rcu_after_fork_parent», RC, clr, crun, headPost, brkPost, absEvC, cstep,
        listHead, ApIP]
      exact ⟨rem, rfl, rfl, hi⟩

theorem apPoll_tri (l : List Nat) (on : Bool) (P : List Val → Prop) (fuel : Nat) :
    Tri (RC l) fuel apPollBody (ApIP l on P)
      (fun c env inp ls => if c.goesOn then ApIP l on P env inp ls else brkPost (ApI2 l on P) c env inp ls) := by
  intro env inp ls ⟨hh, h, rem, hc, ht, hls, hi⟩
  subst hls
  cases inp with
  | nil => fexec [apPollBody, apBody2, Gen.Src.«call_rcu_after_fork_parent», RC, clr, crun, brkPost]
  | cons f rest =>
    cases rest with
    | nil =>
      simp only [PollInp] at hi
      obtain ⟨n, rfl, hi⟩ := hi
      by_cases hb : bit n 32 = true
      · fexec [apPollBody, apBody2, Gen.Src.«call_rcu_after_fork_parent», RC, clr, crun, brkPost, absEvC, cstep, hb]
      · have hb' : bit n 32 = false := by simpa using hb
        rw [if_pos hb'] at hi
        fexec [apPollBody, apBody2, Gen.Src.«call_rcu_after_fork_parent», RC, clr, crun, brkPost, absEvC, cstep, ApI2, hb']
        exact ⟨rem, rfl, rfl, hi⟩
    | cons p rest =>
      simp only [PollInp] at hi
      obtain ⟨n, rfl, hi⟩ := hi
      by_cases hb : bit n 32 = true
      · rw [if_neg (by simp [hb])] at hi
        fexec [apPollBody, apBody2, Gen.Src.«call_rcu_after_fork_parent», RC, clr, crun, brkPost, absEvC, cstep,
          ApIP, hb]
        exact ⟨rem, rfl, rfl, hi⟩
      · have hb' : bit n 32 = false := by simpa using hb
        rw [if_pos hb'] at hi
        fexec [apPollBody, apBody2, Gen.Src.«call_rcu_after_fork_parent», RC, clr, crun, brkPost, absEvC, cstep, ApI2, hb']
        exact ⟨rem, rfl, rfl, hi⟩

theorem apBody2_tri (l : List Nat) (on : Bool) (P : List Val → Prop) (fuel : Nat) :
    Tri (RC l) fuel apBody2 (ApI2 l on P)
      (fun c env inp ls => if c.goesOn then ApI2 l on P env inp ls else brkPost (ApQ2 l on P) c env inp ls) := by
  apply Tri.split 2
  rw [apBody2_split]
  exact Tri.head_while (ApI2 l on P) (ApIP l on P) (ApQ2 l on P) (apHead2_tri l on P fuel) (apPoll_tri l on P fuel)

theorem apPost_tri (l : List Nat) (on : Bool) (fuel : Nat) :
    Tri (RC l) fuel apPost (ApQ2 l on (ZeroInp (fun _ => True))) (norm (ApDone l on)) := by
  intro env inp ls ⟨hh, hls, hi⟩
  subst hls
  simp only [hookLoc] at hh
  cases inp with
  | nil =>
    fexec [apPost, Gen.Src.«call_rcu_after_fork_parent», Gen.Src.«call_rcu_unlock», RC, clr, crun, ApDone, hookLoc]
  | cons r rest =>
    obtain ⟨rfl, hi⟩ := hi
    fexec [apPost, Gen.Src.«call_rcu_after_fork_parent», Gen.Src.«call_rcu_unlock», RC, clr, crun, ApDone, hookLoc,
      absEvC, cstep, mutexLoc]

/-- `call_rcu_after_fork_parent()` -/
theorem after_fork_parent_tri (l : List Nat) (on : Bool) (fuel : Nat) :
    Tri (RC l) fuel Gen.Src.«call_rcu_after_fork_parent» (ApPre0 l on) (norm (ApDone l on)) := by
  rw [afp_eq]
  refine Tri.seq (apFirst1_tri l on fuel) ?_ (fun c env inp ls hc h => norm_of_ne _ _ c env inp ls hc h)
  refine Tri.seq (Tri.while _ _ (apBody1_tri l on _ fuel)) ?_ (fun c env inp ls hc h => norm_of_ne _ _ c env inp ls hc h)
  refine Tri.seq (apFirst2_tri l on _ fuel) ?_ (fun c env inp ls hc h => norm_of_ne _ _ c env inp ls hc h)
  exact Tri.seq (Tri.while _ _ (apBody2_tri l on _ fuel)) (apPost_tri l on fuel)
    (fun c env inp ls hc h => norm_of_ne _ _ c env inp ls hc h)

/-! ## `call_rcu_after_fork_child`, the path "call_rcu() has not been used" -/

/-- oracle: `pthread_mutex_unlock` returns 0, `cds_list_empty` answers non-zero -/
def AfcNoneInp : List Val → Prop :=
  ZeroInp (fun rest => match rest with
    | [] => True
    | e :: _ => ∃ n : Int, n ≠ 0 ∧ e = .int n)

/-- from the child's entry state (L2 `afcUnlock`, set by `forkChild`): `unlock ; listEmpty true` (L2 `afcUnlock ; afcNone`),
the call returns at `idle` without touching anything else -/
theorem after_fork_child_none_exec (l : List Nat) (on : Bool) (fuel : Nat) (env : Env) (inp : List Val)
    (hh : env.priv (.glob "registered_rculfhash_atfork") = some (.int 0)) (hi : AfcNoneInp inp) :
    ∃ out, exec fuel Gen.Src.«call_rcu_after_fork_child» env inp = .ok out ∧
      ∃ ls', clr l ⟨.acUnlock, l, on⟩ out.events = some ls' ∧
        (out.ctl = .blocked ∨ (out.ctl = .ret none ∧ ls' = ⟨.idle, l, on⟩ ∧ out.events.length = 2 ∧
          out.env.priv = env.priv)) := by
  cases inp with
  | nil => fexec [Gen.Src.«call_rcu_after_fork_child», Gen.Src.«call_rcu_unlock», clr, crun]
  | cons r rest =>
    obtain ⟨rfl, hi⟩ := hi
    cases rest with
    | nil =>
      fexec [Gen.Src.«call_rcu_after_fork_child», Gen.Src.«call_rcu_unlock», clr, crun, absEvC, cstep, mutexLoc]
    | cons e rest =>
      obtain ⟨n, hn, rfl⟩ := hi
      fexec [Gen.Src.«call_rcu_after_fork_child», Gen.Src.«call_rcu_unlock», clr, crun, absEvC, cstep, mutexLoc,
        listHead, hn]

end UrcuVerif.Src.ForkR
