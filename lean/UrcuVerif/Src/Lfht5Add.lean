import UrcuVerif.Src.Lfht5Local
/-!
# Generated source IR of `_cds_lfht_add`, unique / replace modes (`unique_ret ≠ NULL`, `bucket_flag = 0`) ⊑ union automaton
(`Lfht5Local.lean`)
-/
namespace UrcuVerif.Src.LfhtUR
open UrcuVerif UrcuVerif.Src UrcuVerif.Lfht.Conc UrcuVerif.Src.LfhtR UrcuVerif.Src.LfhtAR

abbrev US := LfhtU.LState
def mkU (x : Thr) (o : Lfht.Conc.Out := .unit) : US := ⟨x, .none, .none, o⟩

/-- the local `d_iter` of `_cds_lfht_add` -/
def dI : Loc := .glob "&d_iter"

theorem laddPos_nb (rev : Nat → Nat) (x : Thr) (h : x.mode ≠ .bkt) :
    LfhtA.laddPos rev x = { x with pc := apc rev x.node x.iter.ptr } := by
  unfold LfhtA.laddPos apc
  by_cases h1 : x.iter.ptr = 0
  · simp [h1]
  · by_cases h2 : rev x.node < rev x.iter.ptr <;> simp [h1, h2, h]

theorem revView_set (rev : Nat → Nat) (p : Loc → Option Val) (l : Loc) (v : Val)
    (hl : ∀ n, Loc.field (.obj n) "reverse_hash" ≠ l) (h : RevView rev p) :
    RevView rev (fun m => if m = l then some v else p m) := by
  intro n hn
  simp only [hl n, if_false]; exact h n hn

theorem rh_ne_field (n : Nat) (b : Loc) (f : String) (hf : f ≠ "reverse_hash") :
    Loc.field (.obj n) "reverse_hash" ≠ Loc.field b f := by
  intro he; injection he with _ h2; exact hf h2.symm

/-- `dupG_exec` in the form used at the call site -/
theorem dupG_exec' (K : LfhtW.LState → List Val → Prop) (fuel : Nat) (rev : Nat → Nat) (env : Env) (inp : List Val)
    (x0 : Thr) (N : Nat) (itx : W) (it : Loc) (k : Nat) (r : Except String Src.Out)
    (hE : exec fuel Gen.Src.«lfht.cds_lfht_next_duplicate» env inp = r)
    (hiter : env.vars "iter" = some (.ptr it)) (hkey : env.vars "key" = some (.int k))
    (hin : env.priv (.field it "node") = some (.ptr (.obj N))) (hN : N ≠ 0)
    (hix : env.priv (.field it "next") = some (encW itx)) (hrev : RevView rev env.priv)
    (hwk : x0.wk = .dupAdd) (hrh : x0.rh = rev N) (hky : x0.ky = k)
    (hO : LfhtWR.OracleK K rev (LfhtW.ofPair (LfhtW.lwalkPos rev x0 itx.ptr)) inp) :
    ∃ out, r = .ok out ∧
      ∃ ls', LfhtWR.lr rev (LfhtW.ofPair (LfhtW.lwalkPos rev x0 itx.ptr)) out.events = some ls' ∧
        LfhtWR.DupGDone K env.priv it x0 out ls' := by
  subst hE
  exact LfhtWR.dupG_exec K fuel rev env inp x0 N itx it k hiter hkey hin hN hix hrev hwk hrh hky hO

/-- environment ~ thread record inside the loops of `_cds_lfht_add` (`M` = L2's mode: `uniq` or `repl`; `U` = the
iterator `unique_ret` points to) -/
def AddRelU (rev : Nat → Nat) (B N U ky : Nat) (M : Mode) (htv szv mv : Val) (gi gg : Int) (env : Env) (x : Thr) : Prop :=
  env.vars "bucket" = some (.ptr (.obj B)) ∧ env.vars "node" = some (.ptr (.obj N)) ∧
  env.vars "iter_prev" = some (.ptr (.obj x.prev)) ∧ env.vars "iter" = some (encW x.iter) ∧
  env.vars "bucket_flag" = some (.int 0) ∧ env.vars "unique_ret" = some (.ptr (.obj U)) ∧
  env.vars "_goto_insert" = some (.int gi) ∧ env.vars "_goto_gc_node" = some (.int gg) ∧
  env.vars "_goto_end" = some (.int 0) ∧ env.vars "ht" = some htv ∧ env.vars "size" = some szv ∧
  env.vars "key" = some (.int ky) ∧ env.vars "match" = some mv ∧
  (∃ k : Int, env.vars "chain_len" = some (.int k)) ∧ RevView rev env.priv ∧
  x.bkt = B ∧ x.node = N ∧ x.mode = M ∧ x.ky = ky ∧ x.prev ≠ 0 ∧ x.iter.rem = false ∧ x.iter.own = false ∧ x.iter.ptr ≠ N

def notW (x : Thr) : Prop := x.pc ≠ .lSize ∧ x.pc ≠ .lHead ∧ x.pc ≠ .fHead ∧ x.pc ≠ .wNext ∧ x.pc ≠ .wAssert

/-- invariant at the head of the inner loop -/
def AddIU (rev : Nat → Nat) (B N U ky : Nat) (M : Mode) (htv szv mv : Val) (env : Env) (inp : List Val) (ls : US) : Prop :=
  AddRelU rev B N U ky M htv szv mv 0 0 env ls.x ∧ ls.pa = .none ∧ ls.pw = .none ∧
    ls.x.pc = apc rev ls.x.node ls.x.iter.ptr ∧ LfhtU.OracleU rev ls inp

/-- the duplicate `n` was found: `*unique_ret = (n, w)`, L2's thread is where `walkRet` puts the `dupAdd` walk -/
def DupFound (rev : Nat → Nat) (N U : Nat) (M : Mode) (env : Env) (ls : US) : Prop :=
  ∃ (x2 : Thr) (n : Nat) (w : W), n ≠ 0 ∧ x2.wk = .dupAdd ∧ x2.mode = M ∧ x2.node = N ∧ x2.cur = n ∧ x2.wnx = w ∧
    ls = LfhtU.ofW (LfhtW.ofPair (LfhtW.lwalkRet x2 n w)) ∧
    env.priv (.field (.obj U) "node") = some (.ptr (.obj n)) ∧ env.priv (.field (.obj U) "next") = some (encW w) ∧
    RevView rev env.priv

/-- how the inner loop ends -/
def AddRU (rev : Nat → Nat) (B N U ky : Nat) (M : Mode) (htv szv mv : Val)
    (c : Ctl) (env : Env) (inp : List Val) (ls : US) : Prop :=
  match c with
  | .brk => (AddRelU rev B N U ky M htv szv mv 1 0 env ls.x ∧ ls.pa = .none ∧ ls.pw = .none ∧ ls.x.pc = .aCas ∧
        LfhtU.OracleU rev ls inp) ∨
      (AddRelU rev B N U ky M htv szv mv 0 1 env ls.x ∧ env.vars "next" = some (encW ls.x.nx) ∧ ls.pa = .none ∧
        ls.pw = .none ∧ ls.x.pc = .aGc ∧ LfhtU.OracleU rev ls inp)
  | .ret v => v = none ∧ DupFound rev N U M env ls
  | .blocked => True
  | .fuel => True
  | _ => False

theorem runA {rev : Nat → Nat} {a a' : LfhtA.LState} {e : Event}
    (h : LfhtA.lstep rev a (LfhtAR.absEv e) = some a') (evs : List Event) :
    LfhtU.lrun rev (LfhtU.ofA a) (e :: evs) = LfhtU.lrun rev (LfhtU.ofA a') evs := by
  simp only [LfhtU.lrun, LfhtU.lstep_ofA h]

theorem addU_inner_body (fuel : Nat) (rev : Nat → Nat) (B N U ky : Nat) (M : Mode) (htv szv mv : Val)
    (hM : M = .uniq ∨ M = .repl) (hN : N ≠ 0)
    (env : Env) (inp : List Val) (ls : US) (hI : AddIU rev B N U ky M htv szv mv env inp ls) :
    ∃ o, exec fuel addInner env inp = .ok o ∧ ∃ ls', LfhtU.lrun rev ls o.events = some ls' ∧
      (if o.ctl.goesOn then AddIU rev B N U ky M htv szv mv o.env o.inp ls'
       else AddRU rev B N U ky M htv szv mv o.ctl o.env o.inp ls') := by
  rcases ls with ⟨x, pa, pw, out⟩
  obtain ⟨hrel, hpa, hpw, hpc, hO⟩ := hI
  dsimp only at hpa hpw hpc hrel; subst hpa; subst hpw
  obtain ⟨hb, hn, hp, hi, hbf, hur, hgi, hgg, hge, hht, hsz, hkey, hmt, ⟨k, hk⟩, hrev, hxb, hxn, hmode, hxky, hp0,
    hcr, hco, hcn⟩ := hrel
  have hMb : M ≠ .bkt := by rcases hM with rfl | rfl <;> decide
  by_cases h0 : x.iter.ptr = 0
  · lexec [addInner, addOuter, firstLoop, Gen.Src.«lfht._cds_lfht_add», call_is_end, call_clear_flag,
      call_is_removed, call_is_bucket, pureCall, bind1]
    refine ⟨_, LfhtU.lrun_nil _ _, ?_⟩
    have h0N : ¬ 0 = N := fun h => hN h.symm
    simp [Ctl.goesOn, AddRU, AddRelU, apc, *]
  · have hri := hrev _ h0
    have hrn := hrev _ hN
    have hrp := hrev _ hp0
    by_cases hgt : rev N < rev x.iter.ptr
    · lexec [addInner, addOuter, firstLoop, Gen.Src.«lfht._cds_lfht_add», call_is_end, call_clear_flag,
        call_is_removed, call_is_bucket, pureCall, bind1, encP_pos h0]
      refine ⟨_, LfhtU.lrun_nil _ _, ?_⟩
      simp [Ctl.goesOn, AddRU, AddRelU, apc, *]
    · have hpcN : x.pc = .aNext := by simp [hpc, apc, h0, hxn, hgt]
      clear hpc
      cases inp with
      | nil =>
        lexec [addInner, addOuter, firstLoop, Gen.Src.«lfht._cds_lfht_add», call_is_end, call_clear_flag,
          call_is_removed, call_is_bucket, pureCall, bind1, encP_pos h0]
        exact ⟨_, LfhtU.lrun_nil _ _, by simp [Ctl.goesOn, AddRU]⟩
      | cons v rest =>
        obtain ⟨l, hl, hrest⟩ := LfhtU.oracleU_A hO (by simp [hpcN]) (by simp [LfhtAR.active, hpcN])
        clear hO
        simp only [LfhtAR.obsLabel, hpcN] at hl
        cases hd : decW v with
        | none => simp [hd] at hl
        | some w =>
          have hv := encW_of_decW hd; subst hv
          simp only [decW_encW, Option.bind] at hl
          split at hl <;> cases hl
          rename_i hw
          obtain ⟨hown, hwn⟩ := hw
          have hev : LfhtAR.absEv (Event.ld ((Loc.obj x.iter.ptr).field "next") (encW w) 1) =
              .ldNext x.iter.ptr w 1 := by simp [LfhtAR.absEv]
          by_cases hr : w.rem
          · have hs1 : LfhtA.lstep rev ⟨x, .none, out⟩ (.ldNext x.iter.ptr w 1) =
                some (LfhtA.mk { x with nx := w, pc := .aGc }) := by simp [LfhtA.lstep, hpcN, hr]
            have hO1 := hrest _ hs1
            lexec [addInner, addOuter, firstLoop, Gen.Src.«lfht._cds_lfht_add», call_is_end, call_clear_flag,
              call_is_removed, call_is_bucket, pureCall, bind1, encP_pos h0]
            refine ⟨LfhtU.ofA (LfhtA.mk { x with nx := w, pc := .aGc }), (runA (a := ⟨x, .none, out⟩) (hev ▸ hs1) _).trans rfl, ?_⟩
            simp only [Ctl.goesOn, AddRU]
            exact .inr ⟨by simp [AddRelU, LfhtU.ofA, LfhtA.mk, *], by simp [LfhtU.ofA, LfhtA.mk], rfl, rfl, rfl, hO1⟩
          · have hwo : w.own = false := by
              cases ho : w.own
              · rfl
              · exact absurd (hown ho) hr
            have hwn' : w.ptr ≠ N := by rw [← hxn]; exact hwn (by simpa using hr)
            by_cases hu : w.bkt = false ∧ rev x.iter.ptr = rev N
            · obtain ⟨hwb, hrq⟩ := hu
              have hmu : x.mode = .uniq ∨ x.mode = .repl := hmode ▸ hM
              obtain ⟨x0, hx0⟩ : ∃ x0 : Thr, x0 = { x with nx := w, wk := .dupAdd, rh := rev x.node } := ⟨_, rfl⟩
              obtain ⟨x1, hx1⟩ : ∃ x1 : Thr, x1 = { x0 with cur := x.iter.ptr, pc := .wNext } := ⟨_, rfl⟩
              have hs1 : LfhtA.lstep rev ⟨x, .none, out⟩ (.ldNext x.iter.ptr w 1) = some (LfhtA.mk x1) := by
                rw [hx1, hx0]; simp [LfhtA.lstep, hpcN, hr, hmu, hwb, hrq, hxn, LfhtA.mk]
              have hO1 := hrest _ hs1
              have hpos : LfhtW.lwalkPos rev x0 x.iter.ptr = (x1, .unit) := by
                rw [hx1]; simp [LfhtW.lwalkPos, h0, hx0, hrq, hxn]
              have hOK : LfhtWR.OracleK (LfhtU.KU rev) rev (LfhtW.ofPair (LfhtW.lwalkPos rev x0 x.iter.ptr)) rest := by
                rw [hpos]; exact LfhtU.oracleK_of_U rev rest _ hO1
              have hx0wk : x0.wk = .dupAdd := by rw [hx0]
              have hx0rh : x0.rh = rev N := by rw [hx0, hxn]
              have hx0ky : x0.ky = ky := by rw [hx0]; exact hxky
              clear hrest
              lexec [addInner, addOuter, firstLoop, Gen.Src.«lfht._cds_lfht_add», call_is_end, call_clear_flag,
                call_is_removed, call_is_bucket, pureCall, bind1, encP_pos h0, Int.natCast_inj]
              simp only [exec_call]
              lexec
              generalize hE : exec fuel Gen.Src.«lfht.cds_lfht_next_duplicate» _ rest = r
              have hrv' : RevView rev (fun m => if m = (Loc.glob "&d_iter").field "next" then some (encW x.iter)
                  else if m = (Loc.glob "&d_iter").field "node" then some (Val.ptr (Loc.obj N)) else env.priv m) :=
                revView_set rev _ _ _ (fun n => rh_ne_field n _ _ (by decide))
                  (revView_set rev _ _ _ (fun n => rh_ne_field n _ _ (by decide)) hrev)
              obtain ⟨o1, rfl, ls2, hl2, hdone⟩ := dupG_exec' (LfhtU.KU rev) fuel rev _ rest x0 N x.iter
                (.glob "&d_iter") ky r hE (by simp) (by simp) (by simp) hN (by simp) hrv' hx0wk hx0rh hx0ky hOK
              rw [hpos] at hl2
              rcases o1 with ⟨ev1, env1, inp1, ctl1⟩
              dsimp only at hl2
              have hrunW := LfhtU.lrun_ofW hl2
              clear hl2
              have hrun : Unit → LfhtU.lrun rev ⟨x, .none, .none, out⟩
                  (Event.ld ((Loc.obj x.iter.ptr).field "next") (encW w) 1 :: ev1) = some (LfhtU.ofW ls2) := fun _ =>
                (runA (a := ⟨x, .none, out⟩) (a' := LfhtA.mk x1) (hev ▸ hs1) _).trans hrunW
              rcases hdone with hbl | hfu | ⟨hc, x2, n, w2, hwk2, hcore2, hls2, hn2, hn0', hpn, hpx, hfr, hK⟩
              · dsimp only at hbl; subst hbl
                lexec
                first | done | trivial | exact ⟨LfhtU.ofW ls2, hrun (), by simp [Ctl.goesOn, AddRU]⟩
              · dsimp only at hfu; subst hfu
                lexec
                first | done | trivial | exact ⟨LfhtU.ofW ls2, hrun (), by simp [Ctl.goesOn, AddRU]⟩
              · dsimp only at hc hpn hpx hfr hK; subst hc
                have hrv1 : RevView rev env1.priv := by
                  intro k hk
                  rw [hfr _ (rh_ne_field k _ _ (by decide)) (rh_ne_field k _ _ (by decide))]
                  exact hrv' k hk
                have e1 : x2.prev = x.prev := by have := congrArg Thr.prev hcore2; rw [hx0] at this; exact this
                have e2 : x2.iter = x.iter := by have := congrArg Thr.iter hcore2; rw [hx0] at this; exact this
                have e3 : x2.bkt = x.bkt := by have := congrArg Thr.bkt hcore2; rw [hx0] at this; exact this
                have e4 : x2.node = x.node := by have := congrArg Thr.node hcore2; rw [hx0] at this; exact this
                have e5 : x2.mode = x.mode := by have := congrArg Thr.mode hcore2; rw [hx0] at this; exact this
                have e6 : x2.ky = x.ky := by have := congrArg Thr.ky hcore2; rw [hx0] at this; exact this
                by_cases hn : n = 0
                · subst hn
                  have hret : LfhtW.lwalkRet x2 0 w2 = ({ x2 with pc := .aCas }, .unit) := by
                    simp [LfhtW.lwalkRet, hwk2]
                  rw [hret] at hls2
                  have hpn' : env1.priv ((Loc.glob "&d_iter").field "node") = some (.int 0) := by simpa using hpn
                  clear hpn
                  lexec
                  refine ⟨LfhtU.ofW ls2, hrun (), ?_⟩
                  simp only [Ctl.goesOn, AddRU]
                  subst hls2
                  refine .inl ⟨?_, rfl, rfl, rfl, hK⟩
                  simp [AddRelU, LfhtU.ofW, LfhtW.ofPair, e1, e2, e3, e4, e5, e6, *]
                · have hpn' : env1.priv ((Loc.glob "&d_iter").field "node") = some (.ptr (.obj n)) := by
                    rw [hpn, encP_pos hn]
                  clear hpn
                  obtain ⟨hc2, hw2, -, -⟩ := hn2 hn
                  lexec
                  refine ⟨LfhtU.ofW ls2, hrun (), ?_⟩
                  simp only [Ctl.goesOn, AddRU]
                  refine ⟨by first | rfl | trivial, x2, n, w2, hn, hwk2, e5.trans hmode, e4.trans hxn, hc2, hw2, hls2 ▸ rfl, by simp, by simp, ?_⟩
                  exact revView_set rev _ _ _ (fun k => rh_ne_field k _ _ (by decide))
                    (revView_set rev _ _ _ (fun k => rh_ne_field k _ _ (by decide)) hrv1)
            · have hmu : x.mode = .uniq ∨ x.mode = .repl := hmode ▸ hM
              have hu2 : ¬((x.mode = .uniq ∨ x.mode = .repl) ∧ w.bkt = false ∧ rev x.iter.ptr = rev x.node) := by
                rw [hxn]; exact fun h => hu h.2
              obtain ⟨ls1, hls1⟩ : ∃ ls1 : LfhtA.LState, ls1 =
                  { x := { x with nx := w, prev := x.iter.ptr, iter := w, pc := apc rev x.node w.ptr },
                    pend := if LfhtA.needsChk rev x w then .chk else .none, out := .unit } := ⟨_, rfl⟩
              have hs1 : LfhtA.lstep rev ⟨x, .none, out⟩ (.ldNext x.iter.ptr w 1) = some ls1 := by
                rw [hls1]
                simp only [LfhtA.lstep, hpcN, hr, hu2, true_and, if_true, if_false, Bool.false_eq_true,
                  show (1 : Int) ≤ 1 from by decide]
                rw [laddPos_nb rev _ (by dsimp only; exact hmode ▸ hMb)]
              have hO1 := hrest _ hs1
              have hfin : ∀ (env' : Env) (inp' : List Val) (ls' : US), ls' = LfhtU.ofA ⟨ls1.x, .none, .unit⟩ →
                  AddRelU rev B N U ky M htv szv mv 0 0 env' ls1.x → LfhtU.OracleU rev ls' inp' →
                  AddIU rev B N U ky M htv szv mv env' inp' ls' := by
                intro env' inp' ls' h1 h2 h3
                subst h1; subst hls1
                exact ⟨h2, rfl, rfl, rfl, h3⟩
              by_cases hwb : w.bkt = true
              · have hk0 : LfhtA.needsChk rev x w = false := by simp [LfhtA.needsChk, hwb]
                rw [hk0] at hls1
                by_cases heq : rev x.prev = rev x.iter.ptr <;>
                lexec [addInner, addOuter, firstLoop, Gen.Src.«lfht._cds_lfht_add», call_is_end, call_clear_flag,
                  call_is_removed, call_is_bucket, pureCall, bind1, encP_pos h0, Int.natCast_inj] <;>
                (refine ⟨LfhtU.ofA ls1, (runA (a := ⟨x, .none, out⟩) (hev ▸ hs1) _).trans rfl, ?_⟩
                 simp only [Ctl.goesOn, if_true]
                 refine hfin _ _ _ (by subst hls1; rfl) ?_ hO1
                 subst hls1; simp [AddRelU, *])
              · have hwb' : w.bkt = false := by simpa using hwb
                have hne' : ¬ rev x.iter.ptr = rev N := fun h => hu ⟨hwb', h⟩
                by_cases heq : rev x.prev = rev x.iter.ptr
                · have hk0 : LfhtA.needsChk rev x w = false := by simp [LfhtA.needsChk, heq]
                  rw [hk0] at hls1
                  lexec [addInner, addOuter, firstLoop, Gen.Src.«lfht._cds_lfht_add», call_is_end, call_clear_flag,
                  call_is_removed, call_is_bucket, pureCall, bind1, encP_pos h0, Int.natCast_inj]
                  refine ⟨LfhtU.ofA ls1, (runA (a := ⟨x, .none, out⟩) (hev ▸ hs1) _).trans rfl, ?_⟩
                  simp only [Ctl.goesOn, if_true]
                  refine hfin _ _ _ (by subst hls1; rfl) ?_ hO1
                  subst hls1; simp [AddRelU, *]
                · have hk1 : LfhtA.needsChk rev x w = true := by simp [LfhtA.needsChk, heq, hwb']
                  rw [hk1] at hls1
                  cases rest with
                  | nil =>
                    lexec [addInner, addOuter, firstLoop, Gen.Src.«lfht._cds_lfht_add», call_is_end, call_clear_flag,
                  call_is_removed, call_is_bucket, pureCall, bind1, encP_pos h0, Int.natCast_inj]
                    exact ⟨_, (runA (a := ⟨x, .none, out⟩) (hev ▸ hs1) _).trans rfl, by simp [Ctl.goesOn, AddRU]⟩
                  | cons v2 rest =>
                    have hO1' : LfhtU.OracleU rev ⟨ls1.x, .chk, .none, .unit⟩ (v2 :: rest) := by
                      subst hls1; exact hO1
                    obtain ⟨l2, hl2, hrest2⟩ := LfhtU.oracleU_A hO1'
                      (by subst hls1; dsimp only [apc]; split <;> simp) (by simp [LfhtAR.active])
                    have hl2' : l2 = .chkResize := by simpa [LfhtAR.obsLabel] using hl2.symm
                    subst hl2'
                    have hs2 : LfhtA.lstep rev ⟨ls1.x, .chk, .unit⟩ .chkResize = some ⟨ls1.x, .none, .unit⟩ := by
                      simp [LfhtA.lstep]
                    have hO2 := hrest2 _ hs2
                    lexec [addInner, addOuter, firstLoop, Gen.Src.«lfht._cds_lfht_add», call_is_end, call_clear_flag,
                  call_is_removed, call_is_bucket, pureCall, bind1, encP_pos h0, Int.natCast_inj]
                    refine ⟨LfhtU.ofA ⟨ls1.x, .none, .unit⟩, ?_, ?_⟩
                    · refine (runA (a := ⟨x, .none, out⟩) (hev ▸ hs1) _).trans ?_
                      subst hls1
                      exact (runA (a := ⟨_, .chk, .unit⟩) (by simpa [LfhtAR.absEv] using hs2) _).trans rfl
                    · simp only [Ctl.goesOn, if_true]
                      refine hfin _ _ _ rfl ?_ hO2
                      subst hls1; simp [AddRelU, *]

/-- **the inner `for (;;)` of `_cds_lfht_add` in the unique / replace modes** -/
theorem addU_inner_loop (fuel : Nat) (rev : Nat → Nat) (B N U ky : Nat) (M : Mode) (htv szv mv : Val)
    (hM : M = .uniq ∨ M = .repl) (hN : N ≠ 0)
    (env : Env) (inp : List Val) (ls : US) (r : Except String Src.Out)
    (hE : iterate (exec fuel addInner) fuel env inp [] = r) (hI : AddIU rev B N U ky M htv szv mv env inp ls) :
    ∃ out, r = .ok out ∧ ∃ ls', LfhtU.lrun rev ls out.events = some ls' ∧
      (out.ctl = .fuel ∨ ∃ c, c.goesOn = false ∧ AddRU rev B N U ky M htv szv mv c out.env out.inp ls' ∧
        out.ctl = c.afterLoop) := by
  obtain ⟨out, hout, evs, ls', hev, hl, hfin⟩ :=
    iterate_inv (LfhtU.lrun rev) (LfhtU.lrun_nil rev) (LfhtU.lrun_append rev) (exec fuel addInner)
      (AddIU rev B N U ky M htv szv mv) (AddRU rev B N U ky M htv szv mv)
      (addU_inner_body fuel rev B N U ky M htv szv mv hM hN) fuel env inp ls [] hI
  refine ⟨out, by rw [← hE, hout], ls', ?_, hfin⟩
  rw [hev]; simpa using hl

end UrcuVerif.Src.LfhtUR
