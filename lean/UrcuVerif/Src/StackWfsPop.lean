import UrcuVerif.Src.StackRefine
/-!
# `___cds_wfs_node_sync_next` and `___cds_wfs_pop(state, blocking)` ⊑ local projection of `Wfs`

`sync_next_spec`: the adaptive busy-wait – induction on the loop budget; every load of `node->next` that reads NULL
is L2's `popSync` stutter step (blocking) / the WOULDBLOCK exit (non-blocking); `caa_cpu_relax()` and `poll()` have no
label.  `pop_refines`: the outer retry loop, both values of `blocking`, `state` NULL or a pointer.

The source dereferences the head it loaded (`&head->node`, `head->node.next`): if the oracle hands NULL for `s->head`
the IR run ends in `.error` (the C code would fault).  L2's invariant excludes a NULL head; thread-locally the
theorem says: the run is `.ok` and refines L2, **or** it failed in a state where the local automaton – after an
accepted event sequence – stood at the head load (`popLd`) and the oracle's next value was NULL (`NullHead`).
-/
namespace UrcuVerif.Src.WfsR
open UrcuVerif UrcuVerif.Src WfsL

def lr (op : Op) (s : Nat) (ls : LState) (evs : List Event) : Option LState := lrun ls (evs.flatMap (absEv op s))

theorem lr_nil (op s ls) : lr op s ls [] = some ls := rfl
theorem lr_fence (op s ls p evs) : lr op s ls (Event.fence p :: evs) = lr op s ls evs := by
  simp [lr, absEv]
theorem lr_append (op s ls a b) : lr op s ls (a ++ b) = (lr op s ls a).bind (fun m => lr op s m b) := by
  simp [lr, List.flatMap_append, lrun_append]

-- ----------------------------------------------------------------------------------------------------------
-- ___cds_wfs_node_sync_next
-- ----------------------------------------------------------------------------------------------------------
def SyncI (P : Val → Prop) (h : Nat) (bl : Int) (p0 : Loc → Option Val) (ls : LState)
    (e : Env) (i : List Val) (l : LState) : Prop :=
  e.vars "node" = some (.ptr (.obj h)) ∧ e.vars "blocking" = some (.int bl) ∧
  (∃ a, e.vars "attempt" = some (.int a)) ∧ e.priv = p0 ∧ (∀ v ∈ i, P v) ∧ l = ls

def SyncR (P : Val → Prop) (h : Nat) (bl : Int) (p0 : Loc → Option Val) (ls : LState)
    (c : Ctl) (e : Env) (i : List Val) (l : LState) : Prop :=
  c = .blocked ∨
  (e.priv = p0 ∧ (∀ v ∈ i, P v) ∧
    ((c = .ret (some (.int (-1))) ∧ bl = 0 ∧ l = ⟨.idle, .wouldblock⟩) ∨
     (c = .brk ∧ ∃ k, k ≠ 0 ∧ e.vars "next" = some (enc k) ∧ l = ⟨.popCas (bl != 0) h k, ls.ret⟩)))

theorem sync_body (P : Val → Prop) (hP : ∀ v, P v → (dec v).isSome) (fuel s h : Nat) (bl : Int)
    (p0 : Loc → Option Val) (ls : LState) (hnode : Wfs.isNode h) (hpc : ls.pc = .popSync (bl != 0) h)
    (body : Stmt) (hb : firstLoop Gen.Src.«___cds_wfs_node_sync_next» = some body)
    (e : Env) (i : List Val) (l : LState) (hI : SyncI P h bl p0 ls e i l) :
    ∃ o, exec fuel body e i = .ok o ∧ ∃ ls', lr .pop s l o.events = some ls' ∧
      (if o.ctl.goesOn then SyncI P h bl p0 ls o.env o.inp ls' else SyncR P h bl p0 ls o.ctl o.env o.inp ls') := by
  simp only [Gen.Src.«___cds_wfs_node_sync_next», block, firstLoop, Option.some.injEq] at hb
  subst hb
  obtain ⟨h1, h2, ⟨a, h3⟩, h4, h5, rfl⟩ := hI
  cases i with
  | nil => sexec; simp [lr, lrun, Ctl.goesOn, SyncR]
  | cons v rest =>
    obtain ⟨k, hk⟩ := Option.isSome_iff_exists.mp (hP v (h5 v (by simp)))
    have hv := enc_dec hk; subst hv
    have h5' : ∀ v ∈ rest, P v := fun v hv => h5 v (by simp [hv])
    by_cases hk0 : k = 0
    · subst hk0
      by_cases hbl : bl = 0
      · subst hbl
        sexec
        simp [lr, lrun, lstep, absEv, Ctl.goesOn, SyncR, hpc, hnode]
        exact h5'
      · by_cases ha : a + 1 ≥ 10
        · cases rest with
          | nil =>
            sexec
            simp [lr, lrun, lstep, absEv, Ctl.goesOn, SyncR, hpc, hnode, hbl]
          | cons w rest =>
            have h5'' : ∀ v ∈ rest, P v := fun v hv => h5 v (by simp [hv])
            sexec
            simp [lr, lrun, lstep, absEv, Ctl.goesOn, SyncI, hpc, hnode, hbl, h1, h2]
            exact h5''
        · sexec
          simp [lr, lrun, lstep, absEv, Ctl.goesOn, SyncI, hpc, hnode, hbl, h1, h2]
          exact h5'
    · sexec
      simp [lr, lrun, lstep, absEv, Ctl.goesOn, SyncR, hpc, hnode, hk0]
      exact ⟨h5', Nat.pos_of_ne_zero hk0⟩

/-- `___cds_wfs_node_sync_next(node = h, blocking = bl)` from L2's `popSync (bl ≠ 0) h`.  `P` = any property of the
oracle values that implies well-typedness; it is handed on to the remaining oracle. -/
theorem sync_next_spec (P : Val → Prop) (hP : ∀ v, P v → (dec v).isSome)
    (fuel : Nat) (env : Env) (inp : List Val) (s h : Nat) (bl : Int) (ls : LState)
    (hn : env.vars "node" = some (.ptr (.obj h))) (hbv : env.vars "blocking" = some (.int bl))
    (hnode : Wfs.isNode h) (hpc : ls.pc = .popSync (bl != 0) h) (hinp : ∀ v ∈ inp, P v) :
    ∃ o, exec fuel Gen.Src.«___cds_wfs_node_sync_next» env inp = .ok o ∧
      ∃ ls', lr .pop s ls o.events = some ls' ∧
        (o.ctl = .fuel ∨ o.ctl = .blocked ∨
         (o.env.priv = env.priv ∧ (∀ v ∈ o.inp, P v) ∧
           ((o.ctl = .ret (some (.int (-1))) ∧ bl = 0 ∧ ls' = ⟨.idle, .wouldblock⟩) ∨
            (∃ k, k ≠ 0 ∧ o.ctl = .ret (some (enc k)) ∧ ls' = ⟨.popCas (bl != 0) h k, ls.ret⟩)))) := by
  sexec [Gen.Src.«___cds_wfs_node_sync_next»]
  generalize hE : iterate _ _ _ _ _ = r
  obtain ⟨o, rfl, evs, ls', hev, hl, hfin⟩ : ∃ o, r = .ok o ∧ ∃ evs ls', o.events = [] ++ evs ∧
      lr .pop s ls evs = some ls' ∧ (o.ctl = .fuel ∨ ∃ c, c.goesOn = false ∧
        SyncR P h bl env.priv ls c o.env o.inp ls' ∧ o.ctl = c.afterLoop) := by
    rw [← hE]
    refine iterate_inv (lr .pop s) (lr_nil _ _) (lr_append _ _) _ (SyncI P h bl env.priv ls)
      (SyncR P h bl env.priv ls) ?_ fuel _ _ ls [] ?_
    · exact sync_body P hP fuel s h bl env.priv ls hnode hpc _
        (by simp [Gen.Src.«___cds_wfs_node_sync_next», block, firstLoop])
    · sexec [SyncI]; exact hinp
  simp only [List.nil_append] at hev
  rcases hfin with hf | ⟨c, -, rfl | ⟨hp, hi, ⟨rfl, hb0, rfl⟩ | ⟨rfl, k, hk0, hnx, rfl⟩⟩, hc⟩
  · sexec
  · simp only [Ctl.afterLoop] at hc; sexec
  · simp only [Ctl.afterLoop] at hc; sexec; exact hi
  · simp only [Ctl.afterLoop] at hc; sexec; exact ⟨hi, Nat.pos_of_ne_zero hk0⟩

/-- NULL node: the first load dereferences it – the run fails (or, with an empty budget, stops before it) -/
theorem sync_next_null (fuel : Nat) (env : Env) (inp : List Val)
    (hn : env.vars "node" = some (.int 0)) :
    (∃ o, exec fuel Gen.Src.«___cds_wfs_node_sync_next» env inp = .ok o ∧ o.ctl = .fuel ∧ o.events = []) ∨
    ∃ err, exec fuel Gen.Src.«___cds_wfs_node_sync_next» env inp = .error err := by
  cases fuel with
  | zero => left; sexec [Gen.Src.«___cds_wfs_node_sync_next», iterate]
  | succ n => right; sexec [Gen.Src.«___cds_wfs_node_sync_next», iterate]

-- ----------------------------------------------------------------------------------------------------------
-- ___cds_wfs_pop
-- ----------------------------------------------------------------------------------------------------------
/-- `*state` after a completed pop: `CDS_WFS_STATE_LAST` iff L2 returned `node _ true` -/
def lastFlag : Wfs.Ret → Int
  | .node _ true => 1
  | _ => 0

def cfgLoc : Loc := .glob "CONFIG_RCU_EMIT_LEGACY_MB"

def PopI (P : Val → Prop) (s : Nat) (stv : Val) (bl cfg : Int) (e : Env) (i : List Val) (l : LState) : Prop :=
  e.vars "s" = some (.ptr (.obj s)) ∧ e.vars "state" = some stv ∧ e.vars "blocking" = some (.int bl) ∧
  e.priv cfgLoc = some (.int cfg) ∧ (∀ st, stv = .ptr st → e.priv st = some (.int 0)) ∧
  (∀ v ∈ i, P v) ∧ l.pc = .popLd (bl != 0)

def PopR (stv : Val) (c : Ctl) (e : Env) (_ : List Val) (l : LState) : Prop :=
  c = .blocked ∨ c = .fuel ∨ (c = .ret (some (retV l.ret)) ∧ l.pc = .idle ∧
    ∀ st, stv = .ptr st → e.priv st = some (.int (lastFlag l.ret)))

/-- the state in which the IR run fails: at the head load, the oracle hands NULL -/
def PopBad (P : Val → Prop) (_ : Env) (i : List Val) (l : LState) : Prop :=
  (∃ b, l.pc = .popLd b) ∧ (∃ rest, i = .int 0 :: rest) ∧ P (.int 0)

theorem pop_body (P : Val → Prop) (hP : ∀ v, P v → (dec v).isSome) (fuel s : Nat) (stv : Val) (bl cfg : Int)
    (hst : stv = .int 0 ∨ ∃ st, stv = .ptr st ∧ st ≠ cfgLoc)
    (body : Stmt) (hb : firstLoop Gen.Src.«___cds_wfs_pop» = some body)
    (e : Env) (i : List Val) (l : LState) (hI : PopI P s stv bl cfg e i l) :
    Outcome (exec fuel body e i)
      (fun o => ∃ ls', lr .pop s l o.events = some ls' ∧
        (if o.ctl.goesOn then PopI P s stv bl cfg o.env o.inp ls' else PopR stv o.ctl o.env o.inp ls'))
      (PopBad P e i l) := by
  simp only [Gen.Src.«___cds_wfs_pop», block, firstLoop, Option.some.injEq] at hb
  subst hb
  obtain ⟨h1, h2, h3, h4, h5, h6, h7⟩ := hI
  simp only [cfgLoc] at h4
  cases i with
  | nil => sexec; simp [lr, lrun, Ctl.goesOn, PopR]
  | cons v rest =>
    obtain ⟨k, hk⟩ := Option.isSome_iff_exists.mp (hP v (h6 v (by simp)))
    have hv := enc_dec hk; subst hv
    have h6' : ∀ v ∈ rest, P v := fun v hv => h6 v (by simp [hv])
    by_cases hkE : k = Wfs.END
    · subst hkE
      sexec [Gen.Src.«___cds_wfs_end»]
      simp [lr, lrun, lstep, absEv, Ctl.goesOn, PopR, h7, retV, lastFlag]
      exact h5
    · by_cases hk0 : k = 0
      · subst hk0
        sexec [Gen.Src.«___cds_wfs_end»]
        generalize hE : exec fuel Gen.Src.«___cds_wfs_node_sync_next» _ _ = r
        rcases (by rw [← hE]; exact sync_next_null fuel _ _ (by simp [enc]) :
          (∃ o, r = .ok o ∧ o.ctl = .fuel ∧ o.events = []) ∨ ∃ err, r = .error err) with ⟨o, rfl, hf, hev⟩ | ⟨err, rfl⟩
        · sexec
          simp [lr, lrun, lstep, absEv, Ctl.goesOn, PopR, h7, hkE]
        · sexec
          exact ⟨⟨_, h7⟩, ⟨rest, rfl⟩, h6 _ (by simp [enc])⟩
      · have hnode : Wfs.isNode k := ⟨hk0, hkE⟩
        have hek := enc_node hnode
        sexec [Gen.Src.«___cds_wfs_end»]
        generalize hE : exec fuel Gen.Src.«___cds_wfs_node_sync_next» _ _ = r
        obtain ⟨o, rfl, ls1, hl1, hcase⟩ : ∃ o, r = .ok o ∧
            ∃ ls', lr .pop s ⟨.popSync (bl != 0) k, l.ret⟩ o.events = some ls' ∧
              (o.ctl = .fuel ∨ o.ctl = .blocked ∨
               (o.env.priv = e.priv ∧ (∀ v ∈ o.inp, P v) ∧
                 ((o.ctl = .ret (some (.int (-1))) ∧ bl = 0 ∧ ls' = ⟨.idle, .wouldblock⟩) ∨
                  (∃ nx, nx ≠ 0 ∧ o.ctl = .ret (some (enc nx)) ∧
                    ls' = ⟨.popCas (bl != 0) k nx, l.ret⟩)))) := by
          rw [← hE]
          exact sync_next_spec P hP fuel _ _ s k bl
            ⟨.popSync (bl != 0) k, l.ret⟩ (by simp) (by simp) hnode rfl h6'
        rcases o with ⟨oev, ⟨ovars, opriv⟩, oinp, octl⟩
        simp only at hcase
        have hpre : ∀ evs, lr .pop s l (Event.ld ((Loc.obj s).field "head") (.ptr (.obj k)) 1 :: evs) =
            lr .pop s ⟨.popSync (bl != 0) k, l.ret⟩ evs := by
          intro evs; simp [lr, lrun, lstep, absEv, h7, dec_node hnode, hkE]
        rcases hcase with rfl | rfl | ⟨rfl, hoi, ⟨rfl, hbl, rfl⟩ | ⟨nx, hnx0, rfl, rfl⟩⟩
        · sexec; simp [Ctl.goesOn, PopR]
        · sexec; simp [Ctl.goesOn, PopR]
        · subst hbl
          simp only [bne_self_eq_false] at hl1 hpre
          sexec; simp [Ctl.goesOn, PopR, retV, lastFlag]
          exact h5
        · have hcas : ∀ (x : Val) (cur : Nat) (evs : List Event), dec x = some cur →
              lr .pop s ⟨.popSync (bl != 0) k, l.ret⟩
                (oev ++ Event.cas ((Loc.obj s).field "head") (.ptr (.obj k)) (enc nx) x 5 5 :: evs) =
              (lstep ⟨.popCas (bl != 0) k nx, l.ret⟩ (.popCas k nx cur)).bind (fun m => lr .pop s m evs) := by
            intro x cur evs hx
            rw [lr_append, hl1]
            simp [lr, lrun, absEv, headLoc, dec_node hnode, hx]
            cases lstep ⟨.popCas (bl != 0) k nx, l.ret⟩ (.popCas k nx cur) <;> rfl
          cases oinp with
          | nil => sexec; simp [Ctl.goesOn, PopR]
          | cons x rest3 =>
            obtain ⟨cur, hcur⟩ := Option.isSome_iff_exists.mp (hP x (hoi x (by simp)))
            have hx := enc_dec hcur; subst hx
            have hoi' : ∀ v ∈ rest3, P v := fun v hv => hoi v (by simp [hv])
            have hcmp : (enc cur = .ptr (.obj k)) ↔ cur = k := by rw [← hek]; simp
            by_cases hch : cur = k
            · subst hch
              rcases hst with rfl | ⟨st, rfl, hstne⟩
              · by_cases hnE : nx = Wfs.END
                · subst hnE
                  by_cases hc : cfg = 0 <;> sexec <;>
                    simp [Ctl.goesOn, PopR, hcas _ cur _ (dec_node hnode), lstep, retV, lastFlag, lr_nil, lr_fence, hek]
                · by_cases hc : cfg = 0 <;> sexec <;>
                    simp [Ctl.goesOn, PopR, hcas _ cur _ (dec_node hnode), lstep, retV, lastFlag, lr_nil, lr_fence, hek]
              · have hstne' : ¬ Loc.glob "CONFIG_RCU_EMIT_LEGACY_MB" = st := fun h => hstne (by simp [cfgLoc, h])
                have h5s := h5 st rfl
                by_cases hnE : nx = Wfs.END
                · subst hnE
                  by_cases hc : cfg = 0 <;> sexec [Gen.Src.«___cds_wfs_end»] <;>
                    simp [Ctl.goesOn, PopR, hcas _ cur _ (dec_node hnode), lstep, retV, lastFlag, lr_nil, lr_fence, hek]
                · by_cases hc : cfg = 0 <;> sexec [Gen.Src.«___cds_wfs_end»] <;>
                    simp [Ctl.goesOn, PopR, hcas _ cur _ (dec_node hnode), lstep, retV, lastFlag, lr_nil, lr_fence, hek,
                      hnE, h5s]
            · by_cases hbl : bl = 0
              · subst hbl
                simp only [bne_self_eq_false] at hl1 hpre hcas
                sexec; simp [Ctl.goesOn, PopR, lstep, hch, retV, lastFlag, lr_nil]
                exact h5
              · sexec; simp [Ctl.goesOn, PopI, lstep, hch, hbl, lr_nil, h1, h2, h3, cfgLoc, h4]
                exact ⟨h5, hoi'⟩

def PopOK (s : Nat) (stv : Val) (ls : LState) (out : Out) : Prop :=
  ∃ evs ls', out.events = [] ++ evs ∧ lr .pop s ls evs = some ls' ∧
    (out.ctl = .fuel ∨ ∃ c, c.goesOn = false ∧ PopR stv c out.env out.inp ls' ∧ out.ctl = c.afterLoop)

def PopErr (P : Val → Prop) (s : Nat) (ls : LState) : Prop :=
  ∃ evs ls' env' inp', lr .pop s ls evs = some ls' ∧ PopBad P env' inp' ls'

theorem pop_loop (P : Val → Prop) (hP : ∀ v, P v → (dec v).isSome) (fuel s : Nat) (stv : Val) (bl cfg : Int)
    (hst : stv = .int 0 ∨ ∃ st, stv = .ptr st ∧ st ≠ cfgLoc)
    (body : Stmt) (hb : firstLoop Gen.Src.«___cds_wfs_pop» = some body)
    (n : Nat) (e : Env) (i : List Val) (l : LState) (hI : PopI P s stv bl cfg e i l) :
    Outcome (iterate (exec fuel body) n e i []) (PopOK s stv l) (PopErr P s l) :=
  iterate_inv_gen (lr .pop s) (lr_nil _ _) (lr_append _ _) _ (PopI P s stv bl cfg) (PopR stv) (PopBad P)
    (fun e i l => pop_body P hP fuel s stv bl cfg hst body hb e i l) n e i l [] hI

/-- `___cds_wfs_pop(u_stack = s, state = stv, blocking = bl)` from L2's `popLd (bl ≠ 0)` (i.e. after `popBegin`).
`.ok`: the events are accepted by the local automaton, a returned value is L2's `ret`, and `*state` (if `state` is
non-NULL) is `CDS_WFS_STATE_LAST` iff L2 reports `last`.  `.error` only if the oracle handed NULL for a load of
`s->head` (see the file header); in particular never when NULL does not occur in the oracle at such a position. -/
theorem pop_refines (fuel : Nat) (env : Env) (inp : List Val) (s : Nat) (stv : Val) (bl cfg : Int) (ls : LState)
    (hs : env.vars "u_stack" = some (.ptr (.obj s))) (hstv : env.vars "state" = some stv)
    (hblv : env.vars "blocking" = some (.int bl))
    (hst : stv = .int 0 ∨ ∃ st, stv = .ptr st ∧ st ≠ cfgLoc)
    (hcfg : env.priv cfgLoc = some (.int cfg))
    (hpc : ls.pc = .popLd (bl != 0)) (hinp : ∀ v ∈ inp, (dec v).isSome) :
    Outcome (exec fuel Gen.Src.«___cds_wfs_pop» env inp)
      (fun out => ∃ ls', lr .pop s ls out.events = some ls' ∧ Done out ls' ∧
        (∀ st r, stv = .ptr st → out.ctl = .ret r → out.env.priv st = some (.int (lastFlag ls'.ret))))
      (Val.int 0 ∈ inp ∧ ∃ evs ls' b, lr .pop s ls evs = some ls' ∧ ls'.pc = .popLd b) := by
  have hP : ∀ v, ((dec v).isSome ∧ v ∈ inp) → (dec v).isSome := fun _ h => h.1
  have hinp' : ∀ v ∈ inp, ((dec v).isSome ∧ v ∈ inp) := fun v hv => ⟨hinp v hv, hv⟩
  have hcfg' := hcfg
  simp only [cfgLoc] at hcfg'
  rcases hst with rfl | ⟨st, rfl, hstne⟩
  · sexec [Gen.Src.«___cds_wfs_pop»]
    generalize hE : iterate _ _ _ _ _ = r
    have key : Outcome r (PopOK s (.int 0) ls) (PopErr (fun v => (dec v).isSome ∧ v ∈ inp) s ls) := by
      rw [← hE]
      exact pop_loop _ hP fuel s (.int 0) bl cfg (.inl rfl) _
        (by simp [Gen.Src.«___cds_wfs_pop», block, firstLoop]) fuel _ _ ls
        (by sexec [PopI, cfgLoc]; exact hinp')
    cases r with
    | error err =>
      rw [Outcome_error] at key ⊢
      unfold PopErr PopBad at key
      obtain ⟨evs, ls', _, _, hl, ⟨b, hb⟩, _, _, hmem⟩ := key
      refine ⟨hmem, evs, ls', hl, ?_⟩
      cases b
      · exact .inl hb
      · exact .inr hb
    | ok o =>
      simp only [Outcome_ok, PopOK, List.nil_append] at key
      obtain ⟨evs, ls', hev, hl, hfin⟩ := key
      rcases hfin with hf | ⟨c, -, rfl | rfl | ⟨rfl, hidle, hstw⟩, hc⟩
      · sexec; simp [Done]
      · simp only [Ctl.afterLoop] at hc; sexec; simp [Done]
      · simp only [Ctl.afterLoop] at hc; sexec; simp [Done]
      · simp only [Ctl.afterLoop] at hc; sexec; simp [Done, hidle]
  · have hstne' : ¬ Loc.glob "CONFIG_RCU_EMIT_LEGACY_MB" = st := fun h => hstne (by simp [cfgLoc, h])
    sexec [Gen.Src.«___cds_wfs_pop»]
    generalize hE : iterate _ _ _ _ _ = r
    have key : Outcome r (PopOK s (.ptr st) ls) (PopErr (fun v => (dec v).isSome ∧ v ∈ inp) s ls) := by
      rw [← hE]
      exact pop_loop _ hP fuel s (.ptr st) bl cfg (.inr ⟨st, rfl, hstne⟩) _
        (by simp [Gen.Src.«___cds_wfs_pop», block, firstLoop]) fuel _ _ ls
        (by sexec [PopI, cfgLoc]; exact hinp')
    cases r with
    | error err =>
      rw [Outcome_error] at key ⊢
      unfold PopErr PopBad at key
      obtain ⟨evs, ls', _, _, hl, ⟨b, hb⟩, _, _, hmem⟩ := key
      refine ⟨hmem, evs, ls', hl, ?_⟩
      cases b
      · exact .inl hb
      · exact .inr hb
    | ok o =>
      simp only [Outcome_ok, PopOK, List.nil_append] at key
      obtain ⟨evs, ls', hev, hl, hfin⟩ := key
      rcases hfin with hf | ⟨c, -, rfl | rfl | ⟨rfl, hidle, hstw⟩, hc⟩
      · sexec; simp [Done]
      · simp only [Ctl.afterLoop] at hc; sexec; simp [Done]
      · simp only [Ctl.afterLoop] at hc; sexec; simp [Done]
      · simp only [Ctl.afterLoop] at hc; sexec; simp [Done, hidle]

/-- no failure for oracles without NULL at all (no busy-waiting is exercised then); the general case is `pop_refines` -/
theorem pop_refines_total (fuel : Nat) (env : Env) (inp : List Val) (s : Nat) (stv : Val) (bl cfg : Int) (ls : LState)
    (hs : env.vars "u_stack" = some (.ptr (.obj s))) (hstv : env.vars "state" = some stv)
    (hblv : env.vars "blocking" = some (.int bl))
    (hst : stv = .int 0 ∨ ∃ st, stv = .ptr st ∧ st ≠ cfgLoc)
    (hcfg : env.priv cfgLoc = some (.int cfg))
    (hpc : ls.pc = .popLd (bl != 0)) (hinp : ∀ v ∈ inp, (dec v).isSome) (hnn : Val.int 0 ∉ inp) :
    ∃ out, exec fuel Gen.Src.«___cds_wfs_pop» env inp = .ok out ∧
      ∃ ls', lr .pop s ls out.events = some ls' ∧ Done out ls' := by
  have h := pop_refines fuel env inp s stv bl cfg ls hs hstv hblv hst hcfg hpc hinp
  cases hr : exec fuel Gen.Src.«___cds_wfs_pop» env inp with
  | error err => rw [hr, Outcome_error] at h; exact absurd h.1 hnn
  | ok out =>
    rw [hr, Outcome_ok] at h
    obtain ⟨ls', h1, h2, -⟩ := h
    exact ⟨out, rfl, ls', h1, h2⟩

end UrcuVerif.Src.WfsR
