import UrcuVerif.CallRcu.Model
/-!
# Thread-local projections of the L2 model of `call_rcu` (`CallRcu/Model.lean`)

Two automata:

* `U` – a **user thread** `t` inside `call_rcu()` / `_call_rcu()` / `wake_call_rcu_thread()`.  Local part of L2's state:
  `(tpc t, nest t)`.  `LLabel` = the thread's accesses with the values written / observed
  (`ldFutex h v` = "loaded `crdp->futex` of helper `h` and saw `v`").
* `H` – the **helper thread** of helper `h` (`call_rcu_thread`).  Local part: `(hpc h, batch h, cur h, cnt h)` – the fields
  only the helper's own labels write – refined by a *sub-pc* where L2 folds several source accesses into one label
  (see `H.LPc`).

Proved against the real L2 `step`:

* `U.lift_step` / `H.lift_step`: a local step whose observed values agree with the global state (`Obs`) and whose global
  guard holds (`Guard`) *is* an enabled L2 step (resp. a short L2 run `toL2 l`, possibly empty = stutter) and the
  successor projects to the local successor;
* `U.proj_step`: conversely every L2 step of thread `t` with one of these labels is a local step carrying the values of
  the global state;
* `U.frame` / `H.frame`: L2 steps of other threads leave the projection unchanged.
-/
namespace UrcuVerif.Src.CallRcuL
open UrcuVerif UrcuVerif.CallRcu

-- ==========================================================================================================
namespace U

structure LState where
  pc : TPc
  nest : Nat
  deriving DecidableEq, Repr

inductive LLabel
  | call (id : Nat)                  -- entry of `call_rcu(head, func)`: its `_rcu_read_lock()`
  | sel (h : Nat)                    -- `get_call_rcu_data()` returned helper `h`
  | enq (h id : Nat)                 -- `uatomic_xchg(&crdp->cbs_tail.p, &head->next)` on helper `h`, callback `id`
  | inc (h : Nat)                    -- `uatomic_inc(&crdp->qlen)`
  | ldFlags (h : Nat) (rt : Bool)    -- load of `crdp->flags` saw `URCU_CALL_RCU_RT` = `rt`
  | ldFutex (h : Nat) (v : Int)      -- load of `crdp->futex` saw `v`
  | stFutex (h : Nat)                -- store `crdp->futex := 0`
  | wake (h : Nat)                   -- `futex(&crdp->futex, FUTEX_WAKE, 1)`
  | ret                              -- `_rcu_read_unlock()` at the end of `call_rcu`
  | bad                              -- an event that is no access of the protocol / an ill-typed value
  deriving DecidableEq, Repr

def lstep (ls : LState) (l : LLabel) : Option LState :=
  match l with
  | .call id => if ls.pc = .idle then some { pc := .sel id, nest := ls.nest + 1 } else none
  | .sel h =>
    match ls.pc with
    | .sel id => some { ls with pc := .enq id h .user }
    | _ => none
  | .enq h id =>
    match ls.pc with
    | .enq id' h' k => if h' = h ∧ id' = id then some { ls with pc := .inc h k } else none
    | _ => none
  | .inc h =>
    match ls.pc with
    | .inc h' k => if h' = h then some { ls with pc := .ldFlags h k } else none
    | _ => none
  | .ldFlags h rt =>
    match ls.pc with
    | .ldFlags h' k => if h' = h then some { ls with pc := if rt then k.cont h else .ldFutex h k } else none
    | _ => none
  | .ldFutex h v =>
    match ls.pc with
    | .ldFutex h' k => if h' = h then some { ls with pc := if v = -1 then .stFutex h k else k.cont h } else none
    | _ => none
  | .stFutex h =>
    match ls.pc with
    | .stFutex h' k => if h' = h then some { ls with pc := .wake h k } else none
    | _ => none
  | .wake h =>
    match ls.pc with
    | .wake h' k => if h' = h then some { ls with pc := k.cont h } else none
    | _ => none
  | .ret => if ls.pc = .crRet then some { pc := .idle, nest := ls.nest - 1 } else none
  | .bad => none

def lrun : LState → List LLabel → Option LState
  | ls, [] => some ls
  | ls, l :: r => match lstep ls l with
    | some ls' => lrun ls' r
    | none => none

theorem lrun_append (ls : LState) (a b : List LLabel) :
    lrun ls (a ++ b) = (lrun ls a).bind (fun m => lrun m b) := by
  induction a generalizing ls with
  | nil => rfl
  | cons l r ih => simp only [List.cons_append, lrun]; cases lstep ls l <;> simp [ih]

/-- projection of the L2 state to thread `t` -/
def proj (s : State) (t : Nat) : LState := { pc := s.tpc t, nest := s.nest t }

/-- the L2 label of a local label of thread `t`.  `sel h` is L2's `crSelThr t` (the thread has a per-thread helper);
the other outcomes of `get_call_rcu_data()` (per-CPU helper, default helper with lazy creation under the mutex) run
through further L2 pcs `gd*` of that function, which is an `ext` of the translated unit: they end at the same pc
`enq id h .user` (`CallRcu.step`, labels `crSelCpu`, `gdLd`, `gdUnlock`). -/
def toL2 (t : Nat) : LLabel → Option Label
  | .call id => some (.crCall t id)
  | .sel _ => some (.crSelThr t)
  | .enq _ _ => some (.enq t)
  | .inc _ => some (.inc t)
  | .ldFlags _ _ => some (.ldFlags t)
  | .ldFutex _ _ => some (.ldFutex t)
  | .stFutex _ => some (.stFutex t)
  | .wake _ => some (.wake t)
  | .ret => some (.crRet t)
  | .bad => none

/-- the values a label *observes* are these functions of the global state -/
def Obs (s : State) (t : Nat) : LLabel → Prop
  | .sel h => s.thr t = some h
  | .ldFlags h rt => rt = s.rt h
  | .ldFutex h v => v = s.futex h
  | _ => True

/-- the part of the L2 guard that is not a condition on the thread's own pc -/
def Guard (c : Cfg) (s : State) (t : Nat) : LLabel → Prop
  | .call id => userCtx c s t = true ∧ s.reg id = false
  | .bad => False
  | _ => True

theorem lift_step (c : Cfg) (s : State) (t : Nat) (l : LLabel) (L : Label) (ls' : LState)
    (hL : toL2 t l = some L) (ho : Obs s t l) (hg : Guard c s t l) (h : lstep (proj s t) l = some ls') :
    ∃ s', step c s L = some s' ∧ proj s' t = ls' := by
  cases l <;> simp only [toL2, Option.some.injEq, reduceCtorEq] at hL <;> subst hL <;>
    simp only [Obs] at ho <;> simp only [Guard] at hg <;> unfold proj at h <;> simp only [lstep] at h
  case call id =>
    simp only [Option.ite_none_right_eq_some, Option.some.injEq] at h; obtain ⟨hpc, rfl⟩ := h
    simp [step, proj, lockS, hpc, hg.1, hg.2]
  case sel hh =>
    split at h <;> simp only [Option.some.injEq, reduceCtorEq] at h
    subst h; rename_i id hpc
    simp [step, proj, hpc, ho]
  case enq hh id =>
    split at h <;> try simp only [reduceCtorEq] at h
    rename_i id' h' k hpc
    simp only [Option.ite_none_right_eq_some, Option.some.injEq] at h; obtain ⟨⟨rfl, rfl⟩, rfl⟩ := h
    simp [step, proj, hpc]
  case inc hh =>
    split at h <;> try simp only [reduceCtorEq] at h
    rename_i h' k hpc
    simp only [Option.ite_none_right_eq_some, Option.some.injEq] at h; obtain ⟨rfl, rfl⟩ := h
    simp [step, proj, hpc]
  case ldFlags hh rt =>
    split at h <;> try simp only [reduceCtorEq] at h
    rename_i h' k hpc
    simp only [Option.ite_none_right_eq_some, Option.some.injEq] at h; obtain ⟨rfl, rfl⟩ := h
    subst ho
    simp [step, proj, hpc]
  case ldFutex hh v =>
    split at h <;> try simp only [reduceCtorEq] at h
    rename_i h' k hpc
    simp only [Option.ite_none_right_eq_some, Option.some.injEq] at h; obtain ⟨rfl, rfl⟩ := h
    subst ho
    simp [step, proj, hpc]
  case stFutex hh =>
    split at h <;> try simp only [reduceCtorEq] at h
    rename_i h' k hpc
    simp only [Option.ite_none_right_eq_some, Option.some.injEq] at h; obtain ⟨rfl, rfl⟩ := h
    simp [step, proj, hpc]
  case wake hh =>
    split at h <;> try simp only [reduceCtorEq] at h
    rename_i h' k hpc
    simp only [Option.ite_none_right_eq_some, Option.some.injEq] at h; obtain ⟨rfl, rfl⟩ := h
    simp [step, proj, hpc]
  case ret =>
    simp only [Option.ite_none_right_eq_some, Option.some.injEq] at h; obtain ⟨hpc, rfl⟩ := h
    simp [step, proj, unlockS, hpc]

/-- every L2 step of thread `t` with one of the labels above is a local step; the label's values are functions of the
global state (`Obs`) and the global guard holds -/
theorem proj_step (c : Cfg) (s s' : State) (t : Nat) (L : Label)
    (hL : ∃ l0, toL2 t l0 = some L) (h : step c s L = some s') :
    ∃ l, toL2 t l = some L ∧ Obs s t l ∧ Guard c s t l ∧ lstep (proj s t) l = some (proj s' t) := by
  obtain ⟨l0, hl0⟩ := hL
  cases l0 <;> simp only [toL2, Option.some.injEq, reduceCtorEq] at hl0 <;> subst hl0 <;>
    simp only [step] at h
  case call id =>
    split at h <;> simp only [Option.some.injEq, reduceCtorEq] at h; subst h
    rename_i hg
    exact ⟨.call id, rfl, trivial, ⟨hg.1, hg.2.2⟩, by simp [lstep, proj, lockS, hg.2.1]⟩
  case sel =>
    split at h <;> simp only [Option.some.injEq, reduceCtorEq] at h; subst h
    rename_i id hh hpc hthr
    exact ⟨.sel hh, rfl, hthr, trivial, by simp [lstep, proj, hpc]⟩
  case enq =>
    split at h <;> simp only [Option.some.injEq, reduceCtorEq] at h; subst h
    rename_i id hh k hpc
    exact ⟨.enq hh id, rfl, trivial, trivial, by simp [lstep, proj, hpc]⟩
  case inc =>
    split at h <;> simp only [Option.some.injEq, reduceCtorEq] at h; subst h
    rename_i hh k hpc
    exact ⟨.inc hh, rfl, trivial, trivial, by simp [lstep, proj, hpc]⟩
  case ldFlags =>
    split at h <;> simp only [Option.some.injEq, reduceCtorEq] at h; subst h
    rename_i hh k hpc
    exact ⟨.ldFlags hh (s.rt hh), rfl, rfl, trivial, by simp [lstep, proj, hpc]⟩
  case ldFutex =>
    split at h <;> simp only [Option.some.injEq, reduceCtorEq] at h; subst h
    rename_i hh k hpc
    exact ⟨.ldFutex hh (s.futex hh), rfl, rfl, trivial, by simp [lstep, proj, hpc]⟩
  case stFutex =>
    split at h <;> simp only [Option.some.injEq, reduceCtorEq] at h; subst h
    rename_i hh k hpc
    exact ⟨.stFutex hh, rfl, trivial, trivial, by simp [lstep, proj, hpc]⟩
  case wake =>
    split at h <;> simp only [Option.some.injEq, reduceCtorEq] at h; subst h
    rename_i hh k hpc
    exact ⟨.wake hh, rfl, trivial, trivial, by simp [lstep, proj, hpc]⟩
  case ret =>
    split at h <;> simp only [Option.some.injEq, reduceCtorEq] at h; subst h
    rename_i hpc
    exact ⟨.ret, rfl, trivial, trivial, by simp [lstep, proj, unlockS, hpc]⟩

/-- L2 step of thread `t` enabled ⟺ the decoration of the label with the global state's values is enabled in the local
automaton and the global guard holds -/
theorem enabled_iff (c : Cfg) (s : State) (t : Nat) (L : Label) (hL : ∃ l0, toL2 t l0 = some L) :
    (∃ s', step c s L = some s') ↔
      ∃ l ls', toL2 t l = some L ∧ Obs s t l ∧ Guard c s t l ∧ lstep (proj s t) l = some ls' := by
  constructor
  · rintro ⟨s', h⟩
    obtain ⟨l, h1, h2, h3, h4⟩ := proj_step c s s' t L hL h
    exact ⟨l, _, h1, h2, h3, h4⟩
  · rintro ⟨l, ls', h1, h2, h3, h4⟩
    obtain ⟨s', h5, _⟩ := lift_step c s t l L ls' h1 h2 h3 h4
    exact ⟨s', h5⟩

/-- the thread whose `(tpc, nest)` a label may write: `t` for the labels of thread `t`, the helper's thread `c.n + h`
for the labels of helper `h` (qsbr: online / offline), none for `envPause` -/
def tidOf (c : Cfg) : Label → Option Nat
  | .rlock t | .runlock t | .syncStart t | .syncEnd t
  | .crCall t _ | .crSelThr t | .crSelCpu t _ | .crSelNoCpu t _
  | .gdCall t | .gdLd t | .gdLock t | .gdCreate t | .gdUnlock t
  | .enq t | .inc t | .ldFlags t | .ldFutex t | .stFutex t | .wake t | .crRet t
  | .opCall t _ | .opLock t | .opDo t | .opUnlock t | .setThr t _
  | .fCall t _ | .fLdFlags t | .fOrStop t | .fSeeStopped t | .fLock t
  | .fChk t | .fUnlock1 t | .fLock2 t | .fSplice t | .fAddQ t | .fDel t | .fJoin t | .fFree t
  | .extBegin t | .extEnd t | .extLock t | .extUnlock t | .extCall t _ _ _ => some t
  | .hStart h | .hDec0 h | .hTop h | .hPause h | .hUnpause h
  | .hSplice h | .hGpEnd h | .hRunBegin h _ | .hRunEnd h | .hInvDone h
  | .hSub h | .hStopChk h | .hEmptyChk h | .hWaitLd h | .hWaitFx h _
  | .hSpurious h | .hPollW h | .hDec h | .hPollN h | .hExitSt h | .hExitOr h => some (c.n + h)
  | .envPause _ _ => none

/-- frame: steps of other threads (incl. the helpers' threads) and of the environment leave the projection of `t`
unchanged -/
theorem frame (c : Cfg) (s s' : State) (t : Nat) (L : Label)
    (ht : tidOf c L ≠ some t) (h : step c s L = some s') : proj s' t = proj s t := by
  cases L <;> simp only [tidOf, ne_eq, Option.some.injEq, reduceCtorEq, not_false_eq_true] at ht <;>
    simp only [step] at h <;> (repeat' split at h) <;>
    simp only [Option.some.injEq, reduceCtorEq] at h <;> subst h <;>
    first | rfl | (have ht' := Ne.symm ht; simp [proj, upd, ht', lockS, unlockS, newHelper, nestOn, nestOff])

end U

end UrcuVerif.Src.CallRcuL
