import UrcuVerif.CallRcu.Model
/-!
# Thread-local projections of the L2 model of `call_rcu` (`CallRcu/Model.lean`)

Two automata:

* `U` – a **user thread** `t` inside `call_rcu()` / `_call_rcu()` / `wake_call_rcu_thread()`.  Local part of L2's state:
  `(tpc t, nest t)`.  `LLabel` = the thread's accesses with the values written / observed
  (`ldFutex h v` = "loaded `crdp->futex` of helper `h` and saw `v`").
* `H` – the **helper thread** of helper `h` (`call_rcu_thread`).  Local part: `(hpc h, batch h, cur h, cnt h)` – the fields
  only the helper's own labels write – refined by a *sub-pc* where L2 folds several source accesses into one label
  (see `H.LPc`).

Proved against the real L2 `step`:

* `U.lift_step` / `H.lift_step`: a local step whose observed values agree with the global state (`Obs`) and whose global
  guard holds (`Guard`) *is* an enabled L2 step (resp. a short L2 run `toL2 l`, possibly empty = stutter) and the
  successor projects to the local successor;
* `U.proj_step`: conversely every L2 step of thread `t` with one of these labels is a local step carrying the values of
  the global state;
* `U.frame` / `H.frame`: L2 steps of other threads leave the projection unchanged.
-/
set_option linter.unusedSimpArgs false
namespace UrcuVerif.Src.CallRcuL
open UrcuVerif UrcuVerif.CallRcu

-- ==========================================================================================================
namespace U

structure LState where
  pc : TPc
  nest : Nat
  deriving DecidableEq, Repr

inductive LLabel
  | call (id : Nat)                  -- entry of `call_rcu(head, func)`: its `_rcu_read_lock()`
  | sel (h : Nat)                    -- `get_call_rcu_data()` returned helper `h`
  | enq (h id : Nat)                 -- `uatomic_xchg(&crdp->cbs_tail.p, &head->next)` on helper `h`, callback `id`
  | inc (h : Nat)                    -- `uatomic_inc(&crdp->qlen)`
  | ldFlags (h : Nat) (rt : Bool)    -- load of `crdp->flags` saw `URCU_CALL_RCU_RT` = `rt`
  | ldFutex (h : Nat) (v : Int)      -- load of `crdp->futex` saw `v`
  | stFutex (h : Nat)                -- store `crdp->futex := 0`
  | wake (h : Nat)                   -- `futex(&crdp->futex, FUTEX_WAKE, 1)`
  | ret                              -- `_rcu_read_unlock()` at the end of `call_rcu`
  | bad                              -- an event that is no access of the protocol / an ill-typed value
  deriving DecidableEq, Repr

def lstep (ls : LState) (l : LLabel) : Option LState :=
  match l with
  | .call id => if ls.pc = .idle then some { pc := .sel id, nest := ls.nest + 1 } else none
  | .sel h =>
    match ls.pc with
    | .sel id => some { ls with pc := .enq id h .user }
    | _ => none
  | .enq h id =>
    match ls.pc with
    | .enq id' h' k => if h' = h ∧ id' = id then some { ls with pc := .inc h k } else none
    | _ => none
  | .inc h =>
    match ls.pc with
    | .inc h' k => if h' = h then some { ls with pc := .ldFlags h k } else none
    | _ => none
  | .ldFlags h rt =>
    match ls.pc with
    | .ldFlags h' k => if h' = h then some { ls with pc := if rt then k.cont h else .ldFutex h k } else none
    | _ => none
  | .ldFutex h v =>
    match ls.pc with
    | .ldFutex h' k => if h' = h then some { ls with pc := if v = -1 then .stFutex h k else k.cont h } else none
    | _ => none
  | .stFutex h =>
    match ls.pc with
    | .stFutex h' k => if h' = h then some { ls with pc := .wake h k } else none
    | _ => none
  | .wake h =>
    match ls.pc with
    | .wake h' k => if h' = h then some { ls with pc := k.cont h } else none
    | _ => none
  | .ret => if ls.pc = .crRet then some { pc := .idle, nest := ls.nest - 1 } else none
  | .bad => none

def lrun : LState → List LLabel → Option LState
  | ls, [] => some ls
  | ls, l :: r => match lstep ls l with
    | some ls' => lrun ls' r
    | none => none

theorem lrun_append (ls : LState) (a b : List LLabel) :
    lrun ls (a ++ b) = (lrun ls a).bind (fun m => lrun m b) := by
  induction a generalizing ls with
  | nil => rfl
  | cons l r ih => simp only [List.cons_append, lrun]; cases lstep ls l <;> simp [ih]

/-- projection of the L2 state to thread `t` -/
def proj (s : State) (t : Nat) : LState := { pc := s.tpc t, nest := s.nest t }

/-- the L2 label of a local label of thread `t`.  `sel h` is L2's `crSelThr t` (the thread has a per-thread helper);
the other outcomes of `get_call_rcu_data()` (per-CPU helper, default helper with lazy creation under the mutex) run
through further L2 pcs `gd*` of that function, which is an `ext` of the translated unit: they end at the same pc
`enq id h .user` (`CallRcu.step`, labels `crSelCpu`, `gdLd`, `gdUnlock`). -/
def toL2 (t : Nat) : LLabel → Option Label
  | .call id => some (.crCall t id)
  | .sel _ => some (.crSelThr t)
  | .enq _ _ => some (.enq t)
  | .inc _ => some (.inc t)
  | .ldFlags _ _ => some (.ldFlags t)
  | .ldFutex _ _ => some (.ldFutex t)
  | .stFutex _ => some (.stFutex t)
  | .wake _ => some (.wake t)
  | .ret => some (.crRet t)
  | .bad => none

/-- the values a label *observes* are these functions of the global state -/
def Obs (s : State) (t : Nat) : LLabel → Prop
  | .sel h => s.thr t = some h
  | .ldFlags h rt => rt = s.rt h
  | .ldFutex h v => v = s.futex h
  | _ => True

/-- the part of the L2 guard that is not a condition on the thread's own pc -/
def Guard (c : Cfg) (s : State) (t : Nat) : LLabel → Prop
  | .call id => userCtx c s t = true ∧ s.reg id = false
  | .bad => False
  | _ => True

theorem lift_step (c : Cfg) (s : State) (t : Nat) (l : LLabel) (L : Label) (ls' : LState)
    (hL : toL2 t l = some L) (ho : Obs s t l) (hg : Guard c s t l) (h : lstep (proj s t) l = some ls') :
    ∃ s', step c s L = some s' ∧ proj s' t = ls' := by
  cases l <;> simp only [toL2, Option.some.injEq, reduceCtorEq] at hL <;> subst hL <;>
    simp only [Obs] at ho <;> simp only [Guard] at hg <;> unfold proj at h <;> simp only [lstep] at h
  case call id =>
    simp only [Option.ite_none_right_eq_some, Option.some.injEq] at h; obtain ⟨hpc, rfl⟩ := h
    simp [step, proj, lockS, hpc, hg.1, hg.2]
  case sel hh =>
    split at h <;> simp only [Option.some.injEq, reduceCtorEq] at h
    subst h; rename_i id hpc
    simp [step, proj, hpc, ho]
  case enq hh id =>
    split at h <;> try simp only [reduceCtorEq] at h
    rename_i id' h' k hpc
    simp only [Option.ite_none_right_eq_some, Option.some.injEq] at h; obtain ⟨⟨rfl, rfl⟩, rfl⟩ := h
    simp [step, proj, hpc]
  case inc hh =>
    split at h <;> try simp only [reduceCtorEq] at h
    rename_i h' k hpc
    simp only [Option.ite_none_right_eq_some, Option.some.injEq] at h; obtain ⟨rfl, rfl⟩ := h
    simp [step, proj, hpc]
  case ldFlags hh rt =>
    split at h <;> try simp only [reduceCtorEq] at h
    rename_i h' k hpc
    simp only [Option.ite_none_right_eq_some, Option.some.injEq] at h; obtain ⟨rfl, rfl⟩ := h
    subst ho
    simp [step, proj, hpc]
  case ldFutex hh v =>
    split at h <;> try simp only [reduceCtorEq] at h
    rename_i h' k hpc
    simp only [Option.ite_none_right_eq_some, Option.some.injEq] at h; obtain ⟨rfl, rfl⟩ := h
    subst ho
    simp [step, proj, hpc]
  case stFutex hh =>
    split at h <;> try simp only [reduceCtorEq] at h
    rename_i h' k hpc
    simp only [Option.ite_none_right_eq_some, Option.some.injEq] at h; obtain ⟨rfl, rfl⟩ := h
    simp [step, proj, hpc]
  case wake hh =>
    split at h <;> try simp only [reduceCtorEq] at h
    rename_i h' k hpc
    simp only [Option.ite_none_right_eq_some, Option.some.injEq] at h; obtain ⟨rfl, rfl⟩ := h
    simp [step, proj, hpc]
  case ret =>
    simp only [Option.ite_none_right_eq_some, Option.some.injEq] at h; obtain ⟨hpc, rfl⟩ := h
    simp [step, proj, unlockS, hpc]

/-- every L2 step of thread `t` with one of the labels above is a local step; the label's values are functions of the
global state (`Obs`) and the global guard holds -/
theorem proj_step (c : Cfg) (s s' : State) (t : Nat) (L : Label)
    (hL : ∃ l0, toL2 t l0 = some L) (h : step c s L = some s') :
    ∃ l, toL2 t l = some L ∧ Obs s t l ∧ Guard c s t l ∧ lstep (proj s t) l = some (proj s' t) := by
  obtain ⟨l0, hl0⟩ := hL
  cases l0 <;> simp only [toL2, Option.some.injEq, reduceCtorEq] at hl0 <;> subst hl0 <;>
    simp only [step] at h
  case call id =>
    split at h <;> simp only [Option.some.injEq, reduceCtorEq] at h; subst h
    rename_i hg
    exact ⟨.call id, rfl, trivial, ⟨hg.1, hg.2.2⟩, by simp [lstep, proj, lockS, hg.2.1]⟩
  case sel =>
    split at h <;> simp only [Option.some.injEq, reduceCtorEq] at h; subst h
    rename_i id hh hpc hthr
    exact ⟨.sel hh, rfl, hthr, trivial, by simp [lstep, proj, hpc]⟩
  case enq =>
    split at h <;> simp only [Option.some.injEq, reduceCtorEq] at h; subst h
    rename_i id hh k hpc
    exact ⟨.enq hh id, rfl, trivial, trivial, by simp [lstep, proj, hpc]⟩
  case inc =>
    split at h <;> simp only [Option.some.injEq, reduceCtorEq] at h; subst h
    rename_i hh k hpc
    exact ⟨.inc hh, rfl, trivial, trivial, by simp [lstep, proj, hpc]⟩
  case ldFlags =>
    split at h <;> simp only [Option.some.injEq, reduceCtorEq] at h; subst h
    rename_i hh k hpc
    exact ⟨.ldFlags hh (s.rt hh), rfl, rfl, trivial, by simp [lstep, proj, hpc]⟩
  case ldFutex =>
    split at h <;> simp only [Option.some.injEq, reduceCtorEq] at h; subst h
    rename_i hh k hpc
    exact ⟨.ldFutex hh (s.futex hh), rfl, rfl, trivial, by simp [lstep, proj, hpc]⟩
  case stFutex =>
    split at h <;> simp only [Option.some.injEq, reduceCtorEq] at h; subst h
    rename_i hh k hpc
    exact ⟨.stFutex hh, rfl, trivial, trivial, by simp [lstep, proj, hpc]⟩
  case wake =>
    split at h <;> simp only [Option.some.injEq, reduceCtorEq] at h; subst h
    rename_i hh k hpc
    exact ⟨.wake hh, rfl, trivial, trivial, by simp [lstep, proj, hpc]⟩
  case ret =>
    split at h <;> simp only [Option.some.injEq, reduceCtorEq] at h; subst h
    rename_i hpc
    exact ⟨.ret, rfl, trivial, trivial, by simp [lstep, proj, unlockS, hpc]⟩

/-- L2 step of thread `t` enabled ⟺ the decoration of the label with the global state's values is enabled in the local
automaton and the global guard holds -/
theorem enabled_iff (c : Cfg) (s : State) (t : Nat) (L : Label) (hL : ∃ l0, toL2 t l0 = some L) :
    (∃ s', step c s L = some s') ↔
      ∃ l ls', toL2 t l = some L ∧ Obs s t l ∧ Guard c s t l ∧ lstep (proj s t) l = some ls' := by
  constructor
  · rintro ⟨s', h⟩
    obtain ⟨l, h1, h2, h3, h4⟩ := proj_step c s s' t L hL h
    exact ⟨l, _, h1, h2, h3, h4⟩
  · rintro ⟨l, ls', h1, h2, h3, h4⟩
    obtain ⟨s', h5, _⟩ := lift_step c s t l L ls' h1 h2 h3 h4
    exact ⟨s', h5⟩

/-- the thread whose `(tpc, nest)` a label may write: `t` for the labels of thread `t`, the helper's thread `c.n + h`
for the labels of helper `h` (qsbr: online / offline), none for `envPause` -/
def tidOf (c : Cfg) : Label → Option Nat
  | .rlock t | .runlock t | .syncStart t | .syncEnd t
  | .crCall t _ | .crSelThr t | .crSelCpu t _ | .crSelNoCpu t _
  | .gdCall t | .gdLd t | .gdLock t | .gdCreate t | .gdUnlock t
  | .enq t | .inc t | .ldFlags t | .ldFutex t | .stFutex t | .wake t | .crRet t
  | .opCall t _ | .opLock t | .opDo t | .opUnlock t | .setThr t _
  | .fCall t _ | .fLdFlags t | .fOrStop t | .fSeeStopped t | .fLock t
  | .fChk t | .fUnlock1 t | .fLock2 t | .fSplice t | .fAddQ t | .fDel t | .fJoin t | .fFree t
  | .extBegin t | .extEnd t | .extLock t | .extUnlock t | .extCall t _ _ _ => some t
  | .hStart h | .hDec0 h | .hTop h | .hPause h | .hUnpause h
  | .hSplice h | .hGpEnd h | .hRunBegin h _ | .hRunEnd h | .hInvDone h
  | .hSub h | .hStopChk h | .hEmptyChk h | .hWaitLd h | .hWaitFx h _
  | .hSpurious h | .hPollW h | .hDec h | .hPollN h | .hExitSt h | .hExitOr h => some (c.n + h)
  | .envPause _ _ => none

/-- frame: steps of other threads (incl. the helpers' threads) and of the environment leave the projection of `t`
unchanged -/
theorem frame (c : Cfg) (s s' : State) (t : Nat) (L : Label)
    (ht : tidOf c L ≠ some t) (h : step c s L = some s') : proj s' t = proj s t := by
  cases L <;> simp only [tidOf, ne_eq, Option.some.injEq, reduceCtorEq, not_false_eq_true] at ht <;>
    simp only [step] at h <;> (repeat' split at h) <;>
    simp only [Option.some.injEq, reduceCtorEq] at h <;> subst h <;>
    first | rfl | (have ht' := Ne.symm ht; simp [proj, upd, ht', lockS, unlockS, newHelper, nestOn, nestOff])

end U

-- ==========================================================================================================
namespace H

/-- bits of `crdp->flags` -/
def F_RT : Nat := 1
def F_STOP : Nat := 4
def F_STOPPED : Nat := 8
def F_PAUSE : Nat := 16
def F_PAUSED : Nat := 32

/-- local state of the helper thread of helper `h`: L2's `hpc h`, `batch h`, `cnt h`, the constant `rt h` (the thread's
local copy `rt`, read once from the flags), and `sub` = position *inside* an L2 pc that spans several source accesses
(`0` = at its first access):

* `splice`: 0 = at the load of `cbs_head.next` of `_cds_wfcq_empty`, 1 = at its load of `cbs_tail.p`, 2 = at the exchange
  of `cbs_head.next`, 3 = at the load of `cbs_tail.p` after an exchange that returned NULL, 4 = at the exchange of
  `cbs_tail.p` (L2's `hSplice`), 9 = after the poll loop of the PAUSE handshake, at `uatomic_and(&flags, ~PAUSED)`;
* `emptychk`: 0 / 1 = the two loads of `_cds_wfcq_empty`;
* `waitFx`: 0 = at the `futex` call, 1 = at the read of `errno` after it failed. -/
structure LState where
  pc : HPc
  sub : Nat
  batch : List Nat
  cnt : Nat
  rt : Bool
  deriving DecidableEq, Repr

inductive LLabel
  | ldFlags (f : Nat)               -- load of `crdp->flags` saw `f`
  | decFutex                        -- `uatomic_dec(&crdp->futex)`
  | stFutex0                        -- store `crdp->futex := 0`
  | orFlags (m : Nat)               -- `uatomic_or(&crdp->flags, m)`
  | andFlags (m : Nat)              -- `uatomic_and(&crdp->flags, m)`
  | ldHead (nonnull : Bool)         -- load of `crdp->cbs_head.next` saw a non-NULL value?
  | ldTail (isHead : Bool)          -- load of `crdp->cbs_tail.p` saw `&crdp->cbs_head`?
  | xchgHead (first : Option Nat)   -- `xchg(&crdp->cbs_head.next, NULL)` returned NULL / the node of callback `first`
  | splice (b : List Nat) (last : Nat)
                                    -- `xchg(&crdp->cbs_tail.p, &crdp->cbs_head)` returned the node of callback `last`;
                                    -- `b` = the batch taken (the queue content: not in the event, see `CallRcuHelper`)
  | gp                              -- `synchronize_rcu()` (call and return)
  | run (id : Nat)                  -- `rhp->func(rhp)` for callback `id` (call and return)
  | sub (n : Int)                   -- `uatomic_sub(&crdp->qlen, n)`
  | ldFutex (v : Int)               -- load of `crdp->futex`
  | futexWait (r : Int)             -- `futex(&crdp->futex, FUTEX_WAIT, -1)` returned `r`
  | errno (e : Int)
  | poll                            -- `poll(NULL, 0, _)`
  | bad
  deriving DecidableEq, Repr

def bit (f m : Nat) : Bool := f &&& m != 0

def lstepAt (ls : LState) (pc : HPc) (l : LLabel) : Option LState :=
  match pc with
  | .start =>
    match l with
    | .ldFlags f => some { ls with pc := if bit f F_RT then .top else .dec0, rt := bit f F_RT, sub := 0 }
    | _ => none
  | .dec0 =>
    match l with
    | .decFutex => some { ls with pc := .top, sub := 0 }
    | _ => none
  | .top =>
    match l with
    | .ldFlags f => some { ls with pc := if bit f F_PAUSE then .pausing else .splice, sub := 0 }
    | _ => none
  | .pausing =>
    match l with
    | .orFlags m => if m = F_PAUSED then some { ls with pc := .paused, sub := 0 } else none
    | _ => none
  | .paused =>
    match l with
    | .ldFlags f => if bit f F_PAUSE then some ls else some { ls with pc := .splice, sub := 9 }
    | .poll => some ls
    | _ => none
  | .splice =>
    match l with
    | .andFlags _ => if ls.sub = 9 then some { ls with sub := 0 } else none
    | .ldHead nn => if ls.sub = 0 then some { ls with sub := if nn then 2 else 1 } else none
    | .ldTail ih =>
      if ls.sub = 1 ∨ ls.sub = 3 then
        (if ih then some { ls with pc := .stopchk, sub := 0 } else some { ls with sub := 2 })
      else none
    | .xchgHead first =>
      if ls.sub = 2 then
        (match first with
         | none => some { ls with sub := 3 }
         | some _ => some { ls with sub := 4 })
      else none
    | .splice b _ =>
      if ls.sub = 4 ∧ b ≠ [] then some { ls with pc := .gp, sub := 0, batch := b, cnt := 0 } else none
    | _ => none
  | .gp =>
    match l with
    | .gp => some { ls with pc := .inv, sub := 0 }
    | _ => none
  | .inv =>
    match l with
    | .run id => if ls.batch.head? = some id then some { ls with batch := ls.batch.tail, cnt := ls.cnt + 1 } else none
    | .sub n => if ls.batch = [] ∧ n = ls.cnt then some { ls with pc := .stopchk, sub := 0 } else none
    | _ => none
  | .stopchk =>
    match l with
    | .ldFlags f =>
      some { ls with pc := if bit f F_STOP then (if ls.rt then .exitOr else .exitSt)
                           else (if ls.rt then .pollN else .emptychk), sub := 0 }
    | _ => none
  | .emptychk =>
    match l with
    | .ldHead nn => if ls.sub = 0 then (if nn then some { ls with pc := .pollN, sub := 0 } else some { ls with sub := 1 }) else none
    | .ldTail ih => if ls.sub = 1 then some { ls with pc := if ih then .waitLd else .pollN, sub := 0 } else none
    | _ => none
  | .waitLd =>
    match l with
    | .ldFutex v => some { ls with pc := if v = -1 then .waitFx else .pollW, sub := 0 }
    | _ => none
  | .waitFx =>
    match l with
    | .futexWait r => if ls.sub = 0 then (if r = 0 then some { ls with pc := .waitLd, sub := 0 } else some { ls with sub := 1 }) else none
    | .errno e =>
      if ls.sub = 1 then
        (if e = 11 then some { ls with pc := .pollW, sub := 0 }
         else if e = 4 then some { ls with pc := .waitLd, sub := 0 } else none)
      else none
    | _ => none
  | .pollW =>
    match l with
    | .poll => some { ls with pc := .dec, sub := 0 }
    | _ => none
  | .dec =>
    match l with
    | .decFutex => some { ls with pc := .top, sub := 0 }
    | _ => none
  | .pollN =>
    match l with
    | .poll => some { ls with pc := .top, sub := 0 }
    | _ => none
  | .exitSt =>
    match l with
    | .stFutex0 => some { ls with pc := .exitOr, sub := 0 }
    | _ => none
  | .exitOr =>
    match l with
    | .orFlags m => if m = F_STOPPED then some { ls with pc := .dead, sub := 0 } else none
    | _ => none
  | _ => none

def lstep (ls : LState) (l : LLabel) : Option LState := lstepAt ls ls.pc l

def lrun : LState → List LLabel → Option LState
  | ls, [] => some ls
  | ls, l :: r => match lstep ls l with
    | some ls' => lrun ls' r
    | none => none

theorem lrun_append (ls : LState) (a b : List LLabel) :
    lrun ls (a ++ b) = (lrun ls a).bind (fun m => lrun m b) := by
  induction a generalizing ls with
  | nil => rfl
  | cons l r ih => simp only [List.cons_append, lrun]; cases lstep ls l <;> simp [ih]

/-- the local state agrees with the L2 state on the fields helper `h` owns -/
def Agree (ls : LState) (s : State) (h : Nat) : Prop :=
  ls.pc = s.hpc h ∧ ls.batch = s.batch h ∧ ls.cnt = s.cnt h ∧ ls.rt = s.rt h

/-- projection of the L2 state to helper `h` (at the first access of its pc) -/
def proj (s : State) (h : Nat) : LState := { pc := s.hpc h, sub := 0, batch := s.batch h, cnt := s.cnt h, rt := s.rt h }

theorem agree_proj (s : State) (h : Nat) : Agree (proj s h) s h := ⟨rfl, rfl, rfl, rfl⟩

/-- the L2 labels of a local step taken in local state `ls`: `[]` = the access is internal to an L2 pc (stutter).
`run id` = `hRunBegin h id` then `hRunEnd h` (the callback's own accesses are not events of this function: `ext`);
`sub` = `hInvDone h` (the loop's exit test, no access) then `hSub h`;
`futexWait 0` is stated as L2's `hWaitFx h .spurious`; the other L2 behaviour with the same source event is
`hWaitFx h .sleep` followed by a waker's `wake` (or the environment's `hSpurious h`), which ends at the same pc `waitLd`. -/
def toL2 (h : Nat) (ls : LState) : LLabel → List Label
  | .ldFlags f =>
    match ls.pc with
    | .start => [.hStart h]
    | .top => [.hTop h]
    | .paused => if bit f F_PAUSE then [] else [.hUnpause h]
    | .stopchk => [.hStopChk h]
    | _ => []
  | .decFutex => (match ls.pc with | .dec0 => [.hDec0 h] | _ => [.hDec h])
  | .stFutex0 => [.hExitSt h]
  | .orFlags _ => (match ls.pc with | .pausing => [.hPause h] | _ => [.hExitOr h])
  | .andFlags _ => []
  | .ldHead nn => (match ls.pc with | .emptychk => if nn then [.hEmptyChk h] else [] | _ => [])
  | .ldTail ih => (match ls.pc with | .emptychk => [.hEmptyChk h] | _ => if ih then [.hSplice h] else [])
  | .xchgHead _ => []
  | .splice _ _ => [.hSplice h]
  | .gp => [.hGpEnd h]
  | .run id => [.hRunBegin h id, .hRunEnd h]
  | .sub _ => [.hInvDone h, .hSub h]
  | .ldFutex _ => [.hWaitLd h]
  | .futexWait r => if r = 0 then [.hWaitFx h .spurious] else []
  | .errno e => if e = 11 then [.hWaitFx h .eagain] else [.hWaitFx h .eintr]
  | .poll => (match ls.pc with | .pollW => [.hPollW h] | .pollN => [.hPollN h] | _ => [])
  | .bad => []

/-- the values a label observes, as functions of the global state -/
def Obs (s : State) (h : Nat) (ls : LState) : LLabel → Prop
  | .ldFlags f =>
    match ls.pc with
    | .start => bit f F_RT = s.rt h
    | .top => bit f F_PAUSE = s.pause h
    | .paused => bit f F_PAUSE = s.pause h
    | .stopchk => bit f F_STOP = s.stop h
    | _ => True
  | .ldHead nn => nn = true → s.queue h ≠ []
  | .ldTail ih => ih = decide (s.queue h = [])
  | .xchgHead first => ∀ id, first = some id → (s.queue h).head? = some id
  | .splice b last => b = s.queue h ∧ b.getLast? = some last
  | .sub n => n = s.cnt h
  | .ldFutex v => v = s.futex h
  | _ => True

/-- the part of the L2 guards that is not a condition on the helper's own fields -/
def Guard (c : Cfg) (s : State) (h : Nat) (_ls : LState) : LLabel → Prop
  | .gp => gpMayEnd c s (s.hgp h)
  | .run _ => s.tpc (c.n + h) = .idle
  | .errno e => e = 11 → s.futex h ≠ -1
  | .bad => False
  | _ => True

set_option hygiene false in
macro "lift_case" : tactic => `(tactic| (
  cases l <;> simp only [lstepAt, reduceCtorEq] at hs <;>
  simp only [Obs, Guard] at ho hg <;>
  (repeat' split at hs) <;> simp only [Option.some.injEq, reduceCtorEq] at hs <;> subst hs <;>
  simp_all [toL2, run, step, Agree, bit, F_PAUSED, F_STOPPED]))

/-- a local step whose observed values agree with the global state and whose global guard holds is the L2 run `toL2`
(possibly empty: stutter) and the successor agrees with the local successor -/
theorem lift_step (c : Cfg) (s : State) (h : Nat) (ls ls' : LState) (l : LLabel) (ha : Agree ls s h)
    (ho : Obs s h ls l) (hg : Guard c s h ls l) (hs : lstep ls l = some ls') :
    ∃ s', run c s (toL2 h ls l) = some s' ∧ Agree ls' s' h := by
  rcases ls with ⟨pc, sub, batch, cnt, rt⟩
  obtain ⟨hpc, hb, hc, hr⟩ := ha
  simp only [] at hpc hb hc hr
  subst hb hc hr
  have hpc := hpc.symm
  unfold lstep at hs
  simp only [] at hs
  cases pc
  case none => simp [lstepAt] at hs
  case dead => simp [lstepAt] at hs
  case run => simp [lstepAt] at hs
  case sub => simp [lstepAt] at hs
  case asleep => simp [lstepAt] at hs
  case start => lift_case
  case dec0 => lift_case
  case top => lift_case
  case pausing => lift_case
  case paused => lift_case
  case splice => lift_case
  case gp => lift_case
  case inv => lift_case
  case stopchk => lift_case
  case emptychk => lift_case
  case waitLd => lift_case
  case waitFx => lift_case
  case pollW => lift_case
  case dec => lift_case
  case pollN => lift_case
  case exitSt => lift_case
  case exitOr => lift_case


/-- the helper whose thread executes a label -/
def hidOf : Label → Option Nat
  | .hStart h | .hDec0 h | .hTop h | .hPause h | .hUnpause h
  | .hSplice h | .hGpEnd h | .hRunBegin h _ | .hRunEnd h | .hInvDone h
  | .hSub h | .hStopChk h | .hEmptyChk h | .hWaitLd h | .hWaitFx h _
  | .hSpurious h | .hPollW h | .hDec h | .hPollN h | .hExitSt h | .hExitOr h => some h
  | _ => none

/-- frame: labels that are not helper `h`'s own leave its projection unchanged – provided the helper exists
(`h < nextH`: creation writes the fields of the *new* helper) and is not asleep in `futex_wait` (a waker's `wake` moves
an `asleep` helper to `waitLd`; the local automaton fuses the sleep and the wake-up into the return of the `futex` call) -/
theorem frame (c : Cfg) (s s' : State) (h : Nat) (L : Label)
    (hh : hidOf L ≠ some h) (hlt : h < s.nextH) (hna : s.hpc h ≠ .asleep)
    (hstep : step c s L = some s') : proj s' h = proj s h := by
  have hne : h ≠ s.nextH := Nat.ne_of_lt hlt
  cases L <;> simp only [hidOf, ne_eq, Option.some.injEq, reduceCtorEq, not_false_eq_true] at hh <;>
    simp only [step] at hstep <;> (repeat' split at hstep) <;>
    simp only [Option.some.injEq, reduceCtorEq] at hstep <;> subst hstep <;>
    first | rfl | (have hh' := Ne.symm hh; simp [proj, upd, hh', hne, lockS, unlockS, newHelper, nestOn, nestOff]; done) |
      (simp [proj, upd, hne, newHelper]; done) | (simp only [proj, upd]; split <;> simp_all)

end H

end UrcuVerif.Src.CallRcuL
