import UrcuVerif.Src.Lfht3Repl
/-!
# The tail of `_cds_lfht_replace` after the cmpxchg retry loop (`LfhtP.repl_loop`), and `cds_lfht_replace`'s
argument checks

After the successful cmpxchg L2's thread is at `LfhtP.handover y` (`gHead`, `gcont = repl`, `pend = hash old`).  The
source goes on with

    bucket = lookup_bucket(ht, size, bit_reverse_ulong(old_node->reverse_hash));      -- part A
    _cds_lfht_gc_bucket(bucket, new_node);                                            -- part A
    urcu_posix_assert(is_removed(CMM_LOAD_SHARED(old_node->next)));  return 0;        -- part B

* `repl_tailA`: part A (`replTailA`, the four statements of the generated value) is accepted by `LfhtP.lstepR`
  (`hashOf`, `bktAt`, then the gc pass – `LfhtR.gc_bucket_exec` through `LfhtP.lrun_lift`) and ends with L2's thread at
  `rAssert`, same `old` / `node`, private view unchanged.
* `repl_tailB`: part B (`replTailB`) from `rAssert`, **under the hypothesis that the assertion load delivers a REMOVED
  word** (`AssertOk`: `LfhtR.OracleOk`, the post-condition of the gc pass, is vacuous at `rAssert`; in L2 this is the
  invariant "a node replaced stays REMOVED"): the load is L2's `ldAssertR`, the function returns `0`, L2's thread is
  `idle` with `Out.ret 0` (`cds_lfht_replace`) resp. `Out.node old` (`cds_lfht_add_replace`).
* `repl_tail`: both, for `replTail = seqTail 14` of the generated function (`exec_seq_assoc`), the hypothesis on the
  assertion load being stated on the oracle left over by part A.
-/
namespace UrcuVerif.Src.LfhtP
open UrcuVerif UrcuVerif.Src UrcuVerif.Lfht.Conc UrcuVerif.Src.LfhtL UrcuVerif.Src.LfhtR

/-- the first `k` statements of a `seq` chain -/
def seqInit : Nat → Stmt → Stmt
  | 0, _ => .skip
  | 1, .seq a _ => a
  | k+2, .seq a b => .seq a (seqInit (k+1) b)
  | _, s => s

def replTail : Stmt := seqTail 14 Gen.Src.«lfht._cds_lfht_replace»
def replTailA : Stmt := seqInit 4 replTail
def replTailB : Stmt := seqTail 4 replTail

theorem replTail_shape : replTail = .seq (seqInit 1 replTail) (.seq (seqInit 1 (seqTail 1 replTail))
    (.seq (seqInit 1 (seqTail 2 replTail)) (.seq (seqInit 1 (seqTail 3 replTail)) replTailB))) := rfl
theorem replTailA_shape : replTailA = .seq (seqInit 1 replTail) (.seq (seqInit 1 (seqTail 1 replTail))
    (.seq (seqInit 1 (seqTail 2 replTail)) (seqInit 1 (seqTail 3 replTail)))) := rfl

/-- `;` is associative for `exec` -/
theorem exec_seq_assoc (fuel : Nat) (a b c : Stmt) (env : Env) (inp : List Val) :
    exec fuel (.seq a (.seq b c)) env inp = exec fuel (.seq (.seq a b) c) env inp := by
  rw [exec_seq, exec_seq (a := .seq a b), exec_seq (a := a)]
  cases ha : exec fuel a env inp with
  | error e => rfl
  | ok o =>
    rcases o with ⟨ev, en, ip, ctl⟩
    cases ctl <;> simp only [seqPost]
    rw [exec_seq]
    cases hb : exec fuel b en ip with
    | error e => rfl
    | ok o2 =>
      rcases o2 with ⟨ev2, en2, ip2, ctl2⟩
      cases ctl2 <;> simp only [seqPost]
      cases hc : exec fuel c en2 ip2 with
      | error e => rfl
      | ok o3 => simp [List.append_assoc]

theorem exec_seq_congr (fuel : Nat) (a x y : Stmt) (h : ∀ env inp, exec fuel x env inp = exec fuel y env inp)
    (env : Env) (inp : List Val) : exec fuel (.seq a x) env inp = exec fuel (.seq a y) env inp := by
  rw [exec_seq, exec_seq]
  cases exec fuel a env inp with
  | error e => rfl
  | ok o => rcases o with ⟨ev, en, ip, ctl⟩; cases ctl <;> simp only [seqPost, h]

theorem exec_seq_assoc4 (fuel : Nat) (a b c d e : Stmt) (env : Env) (inp : List Val) :
    exec fuel (.seq a (.seq b (.seq c (.seq d e)))) env inp = exec fuel (.seq (.seq a (.seq b (.seq c d))) e) env inp := by
  rw [exec_seq_congr fuel a _ _ (fun env inp => exec_seq_congr fuel b _ _ (exec_seq_assoc fuel c d e) env inp),
    exec_seq_congr fuel a _ _ (exec_seq_assoc fuel b (.seq c d) e), exec_seq_assoc]


-- ----------------------------------------------------------------------------------------------------------
-- frame: the gc pass keeps `old`
-- ----------------------------------------------------------------------------------------------------------
theorem lgcPos_old {rev : Nat → Nat} {x y : Thr} (h : lgcPos rev x = some y) : y.old = x.old := by
  unfold lgcPos at h; split at h
  · cases hr : retPc x.gcont <;> simp [hr] at h; subst h; rfl
  · cases h; rfl
theorem lstep_old {rev : Nat → Nat} {ls ls' : LState} {l : LLabel} (h : LfhtL.lstep rev ls l = some ls') :
    ls'.x.old = ls.x.old := by
  rcases ls with ⟨x, pend, out⟩
  cases pend with
  | hash n => cases l <;> simp [LfhtL.lstep] at h; obtain ⟨_, rfl⟩ := h; rfl
  | bkt hh => cases l <;> simp [LfhtL.lstep] at h; obtain ⟨_, rfl⟩ := h; rfl
  | none =>
    cases hpc : x.pc <;> cases l <;> simp [LfhtL.lstep, hpc, mk] at h
    all_goals first
      | (obtain ⟨_, rfl⟩ := h; rfl)
      | (obtain ⟨_, y, hy, rfl⟩ := h; simpa using lgcPos_old hy)
      | (obtain ⟨_, h⟩ := h; split at h <;> first | (simp at h; subst h; rfl) | (simp at h; obtain ⟨y, hy, rfl⟩ := h; simpa using lgcPos_old hy))
      | (split at h <;> first | (obtain ⟨_, rfl⟩ := h; rfl) | (cases h; rfl) | (simp at h; subst h; rfl))
theorem lrun_old {rev : Nat → Nat} : ∀ {ll : List LLabel} {ls ls' : LState}, LfhtL.lrun rev ls ll = some ls' →
    ls'.x.old = ls.x.old := by
  intro ll
  induction ll with
  | nil => intro ls ls' h; cases h; rfl
  | cons l r ih =>
    intro ls ls' h; simp only [LfhtL.lrun] at h
    cases hs : LfhtL.lstep rev ls l with
    | none => simp [hs] at h
    | some m => rw [hs] at h; rw [ih h, lstep_old hs]

-- ----------------------------------------------------------------------------------------------------------
-- part B: the assertion load and `return 0`
-- ----------------------------------------------------------------------------------------------------------
/-- the value the assertion load `CMM_LOAD_SHARED(old_node->next)` gets is a REMOVED word (`urcu_posix_assert`) -/
def AssertOk : List Val → Prop
  | [] => True
  | v :: _ => ∃ w, decW v = some w ∧ w.rem = true

/-- L2's `ldAssertR` on the thread record -/
def lassertR (x : Thr) : LState :=
  match x.op with
  | .replace => mk { x with pc := .idle, op := .none } (.ret 0)
  | _ => mk { x with pc := .idle, op := .none } (.node x.old)

theorem repl_tailB (fuel : Nat) (rev : Nat → Nat) (env : Env) (inp : List Val) (x : Thr) (o0 : Lfht.Conc.Out)
    (hold : env.vars "old_node" = some (.ptr (.obj x.old))) (hpc : x.pc = .rAssert) (hA : AssertOk inp) :
    ∃ out, exec fuel replTailB env inp = .ok out ∧
      ∃ ls', lrR rev { x := x, pend := .none, out := o0 } out.events = some ls' ∧
        (out.ctl = .blocked ∨
          (out.ctl = .ret (some (.int 0)) ∧ out.env.priv = env.priv ∧ out.events.length = 1 ∧ ls' = lassertR x)) := by
  cases inp with
  | nil =>
    lexec [replTailB, replTail, seqTail, Gen.Src.«lfht._cds_lfht_replace»]
    exact ⟨_, lrR_nil _ _⟩
  | cons v rest =>
    obtain ⟨w, hd, hwr⟩ := hA
    have hv := encW_of_decW hd; subst hv
    lexec [replTailB, replTail, seqTail, Gen.Src.«lfht._cds_lfht_replace», call_is_removed, pureCall, bind1]
    cases hop : x.op <;> simp [lrR, LfhtR.absEv, lrunR, lstepR, LfhtL.lstep, hpc, lassertR, hop]

-- ----------------------------------------------------------------------------------------------------------
-- part A: `bit_reverse_ulong`, `lookup_bucket`, the gc pass
-- ----------------------------------------------------------------------------------------------------------
theorem repl_tailA (fuel : Nat) (rev : Nat → Nat) (env : Env) (inp : List Val) (y : Thr) (ht : Nat) (fp : Val)
    (hold : env.vars "old_node" = some (.ptr (.obj y.old))) (hnew : env.vars "new_node" = some (.ptr (.obj y.node)))
    (hht : env.vars "ht" = some (.ptr (.obj ht))) (hsz : env.vars "size" = some (.int y.sz))
    (ho0 : y.old ≠ 0) (hn0 : y.node ≠ 0) (hsz1 : 1 ≤ y.sz)
    (hfp : env.priv (.field (.obj ht) "bucket_at") = some fp) (hrev : RevView rev env.priv)
    (hO : LfhtR.OracleOk rev (handover y) inp) :
    ∃ out, exec fuel replTailA env inp = .ok out ∧ ∃ ls', lrR rev (handover y) out.events = some ls' ∧
      (out.ctl = .blocked ∨ out.ctl = .fuel ∨
        (out.ctl = .normal ∧ out.env.priv = env.priv ∧ out.env.vars "old_node" = some (.ptr (.obj y.old)) ∧
          ls'.pend = .none ∧ ls'.x.pc = .rAssert ∧ ls'.x.old = y.old ∧ ls'.x.node = y.node)) := by
  have hro := hrev _ ho0
  have hszi : (1 : Int) ≤ (y.sz : Int) := by omega
  have hcast : ((y.sz : Int) - 1).toNat = y.sz - 1 := by omega
  cases inp with
  | nil =>
    lexec [replTailA, replTail, seqInit, seqTail, Gen.Src.«lfht._cds_lfht_replace»]
    exact ⟨_, lrR_nil _ _⟩
  | cons v3 rest =>
    obtain ⟨l, hl, hrest⟩ := hO (by simp [active, handover])
    simp only [obsLabel, handover] at hl
    cases v3 with
    | ptr _ => simp at hl
    | int h =>
      simp only [Option.ite_none_right_eq_some, Option.some.injEq] at hl
      obtain ⟨hh0, rfl⟩ := hl
      obtain ⟨ls3, hls3⟩ : ∃ ls3 : LState, ls3 =
          { x := { y with gnode := y.node, gcont := .repl, pc := .gHead }, pend := .bkt h.toNat, out := .unit } :=
        ⟨_, rfl⟩
      have hs3 : LfhtL.lstep rev (handover y) (.hashOf (rev y.old) h.toNat) = some ls3 := by
        rw [hls3]; simp [LfhtL.lstep, handover]
      have hO3 := hrest _ hs3
      cases rest with
      | nil =>
        lexec [replTailA, replTail, seqInit, seqTail, Gen.Src.«lfht._cds_lfht_replace», exec_call,
          Gen.Src.«lfht.lookup_bucket», Gen.Src.«lfht.bucket_at»]
        simp [lrR, lrunR, LfhtR.absEv, lstep_lift hs3, hh0]
      | cons v4 rest =>
        obtain ⟨l, hl, hrest⟩ := hO3 (by subst hls3; simp [active])
        rw [hls3] at hl; simp only [obsLabel] at hl
        cases v4 with
        | int _ => simp at hl
        | ptr lo =>
          cases lo with
          | obj b =>
            simp only [Option.ite_none_right_eq_some, Option.some.injEq] at hl
            obtain ⟨hb0, rfl⟩ := hl
            obtain ⟨x4, hx4⟩ : ∃ x4 : Thr, x4 =
                { y with gnode := y.node, gcont := .repl, pc := .gHead, gbkt := b } := ⟨_, rfl⟩
            have hs4 : LfhtL.lstep rev ls3 (.bktAt (h.toNat &&& (y.sz - 1)) b) = some (mk x4) := by
              rw [hls3, hx4]; simp [LfhtL.lstep, mk]
            have hO4 := hrest _ hs4
            lexec [replTailA, replTail, seqInit, seqTail, Gen.Src.«lfht._cds_lfht_replace», exec_call,
              Gen.Src.«lfht.lookup_bucket», Gen.Src.«lfht.bucket_at»]
            generalize hE : exec fuel Gen.Src.«lfht._cds_lfht_gc_bucket» _ rest = r
            obtain ⟨o1, rfl, ls5, hl5, hfin⟩ := gc_bucket_exec fuel rev _ rest x4 .unit .rAssert r hE
              (by subst hx4; simp) (by subst hx4; simp [hnew])
              (by subst hx4; exact hb0) (by subst hx4; exact hn0) hrev (by subst hx4; rfl)
              (by subst hx4; rfl) hO4
            have hnd5 : ls5.x.node = y.node := by
              have := LfhtL.lrun_node hl5; subst hx4; simpa [mk] using this
            have hold5 : ls5.x.old = y.old := by
              have := lrun_old hl5; subst hx4; simpa [mk] using this
            have hlr4 : ∀ evs, lrR rev (handover y)
                (Event.ext "bit_reverse_ulong" [Val.int (rev y.old)] (Val.int h) ::
                  Event.ext "(*bucket_at)" [fp, Val.ptr (Loc.obj ht), Val.int ((h.toNat &&& (y.sz - 1) : Nat) : Int)]
                    (Val.ptr (Loc.obj b)) :: evs) = lrR rev (mk x4) evs := by
              intro evs
              simp [lrR, lrunR, LfhtR.absEv, lstep_lift hs3, lstep_lift hs4, hh0]
            rcases o1 with ⟨ev1, env1, inp1, ctl1⟩
            have hl5' : lrR rev (mk x4) ev1 = some ls5 := lrun_lift hl5
            rcases hfin with hb | hf | ⟨hret, hpriv, hpend5, hpc5, hgc5, hO5⟩
            · dsimp only at hb; subst hb
              simp [hlr4]; exact ⟨ls5, hl5'⟩
            · dsimp only at hf; subst hf
              simp [hlr4]; exact ⟨ls5, hl5'⟩
            · dsimp only at hret hpriv; subst hret
              simp [hlr4, hpriv, hold]
              exact ⟨ls5, hl5', hpend5, hpc5, hold5, hnd5⟩
          | _ => simp at hl

theorem replTail_eq (fuel : Nat) (env : Env) (inp : List Val) :
    exec fuel replTail env inp = exec fuel (.seq replTailA replTailB) env inp := by
  rw [replTail_shape, replTailA_shape, exec_seq_assoc4]

/-- **the tail of `_cds_lfht_replace` after the cmpxchg loop** (`replTail` = the generated function from its 15th
statement on; `LfhtP.repl_shape`: the loop is the 14th), from L2's `handover y`: the run does not fail, every event is
accepted by `LfhtP.lstepR` (`hashOf`, `bktAt`, the gc pass, `ldAssertR`), and when the function returns (`0`) L2's
thread is `idle` with L2's `Out` of `ldAssertR`.  `hA`: the value delivered to the assertion load – the first value of
the oracle part A leaves over – is a REMOVED word. -/
theorem repl_tail (fuel : Nat) (rev : Nat → Nat) (env : Env) (inp : List Val) (y : Thr) (ht : Nat) (fp : Val)
    (hold : env.vars "old_node" = some (.ptr (.obj y.old))) (hnew : env.vars "new_node" = some (.ptr (.obj y.node)))
    (hht : env.vars "ht" = some (.ptr (.obj ht))) (hsz : env.vars "size" = some (.int y.sz))
    (ho0 : y.old ≠ 0) (hn0 : y.node ≠ 0) (hsz1 : 1 ≤ y.sz)
    (hfp : env.priv (.field (.obj ht) "bucket_at") = some fp) (hrev : RevView rev env.priv)
    (hO : LfhtR.OracleOk rev (handover y) inp)
    (hA : ∀ o, exec fuel replTailA env inp = .ok o → o.ctl = .normal → AssertOk o.inp) :
    ∃ out, exec fuel replTail env inp = .ok out ∧ ∃ ls', lrR rev (handover y) out.events = some ls' ∧
      (out.ctl = .blocked ∨ out.ctl = .fuel ∨
        (out.ctl = .ret (some (.int 0)) ∧ out.env.priv = env.priv ∧
          ∃ x : Thr, x.pc = .rAssert ∧ x.old = y.old ∧ x.node = y.node ∧ ls' = lassertR x)) := by
  rw [replTail_eq, exec_seq]
  obtain ⟨o1, h1, ls1, hl1, hfin⟩ := repl_tailA fuel rev env inp y ht fp hold hnew hht hsz ho0 hn0 hsz1 hfp hrev hO
  have hA1 := hA _ h1
  simp only [h1]
  rcases o1 with ⟨ev1, env1, inp1, ctl1⟩
  rcases hfin with hb | hf | ⟨hc, hpriv, hold1, hpend, hpc, ho, hn⟩
  · dsimp only at hb; subst hb
    exact ⟨_, rfl, ls1, hl1, .inl rfl⟩
  · dsimp only at hf; subst hf
    exact ⟨_, rfl, ls1, hl1, .inr (.inl rfl)⟩
  · dsimp only at hc hpriv hold1 hA1; subst hc
    rcases ls1 with ⟨x1, p1, out1⟩
    dsimp only at hpend hpc ho hn; subst hpend
    obtain ⟨o2, h2, ls2, hl2, hfin2⟩ := repl_tailB fuel rev env1 inp1 x1 out1 (ho ▸ hold1) hpc (hA1 rfl)
    simp only [seqPost, h2]
    refine ⟨_, rfl, ls2, ?_, ?_⟩
    · dsimp only; rw [lrR_append, hl1]; exact hl2
    · rcases hfin2 with hb | ⟨hc, hp, _, hls⟩
      · exact .inl hb
      · exact .inr (.inr ⟨hc, hp.trans hpriv, x1, hpc, ho, hn, hls⟩)

-- ----------------------------------------------------------------------------------------------------------
-- `cds_lfht_replace`: the argument checks (no shared access)
-- ----------------------------------------------------------------------------------------------------------
/-- **`cds_lfht_replace`, hash mismatch**: `new_node->reverse_hash = bit_reverse_ulong(hash)` differs from the old
node's: the function returns `-EINVAL`; its only event is the (pure, external) call of `bit_reverse_ulong` – no shared
access, L2's thread does not move -/
theorem replace_wrapper_einval_hash (fuel : Nat) (env : Env) (rest : List Val) (hs h ro : Int) (N it O : Nat)
    (hhash : env.vars "hash" = some (.int hs)) (hnn : env.vars "new_node" = some (.ptr (.obj N)))
    (hoi : env.vars "old_iter" = some (.ptr (.obj it)))
    (hin : env.priv (.field (.obj it) "node") = some (.ptr (.obj O)))
    (hro : env.priv (.field (.obj O) "reverse_hash") = some (.int ro)) (hne : ro ≠ h) (hON : O ≠ N) :
    ∃ out, exec fuel Gen.Src.«lfht.cds_lfht_replace» env (.int h :: rest) = .ok out ∧
      out.events = [.ext "bit_reverse_ulong" [.int hs] (.int h)] ∧ out.ctl = .ret (some (.int (-22))) ∧
      out.inp = rest := by
  lexec [Gen.Src.«lfht.cds_lfht_replace»]

/-- **`cds_lfht_replace`, key mismatch** (`match(old_iter->node, key)` returns 0): `-EINVAL`, the only events are the
two external calls – no shared access -/
theorem replace_wrapper_einval_key (fuel : Nat) (env : Env) (rest : List Val) (hs h : Int) (N it O : Nat) (kv : Val)
    (hhash : env.vars "hash" = some (.int hs)) (hnn : env.vars "new_node" = some (.ptr (.obj N)))
    (hoi : env.vars "old_iter" = some (.ptr (.obj it))) (hkey : env.vars "key" = some kv)
    (hin : env.priv (.field (.obj it) "node") = some (.ptr (.obj O)))
    (hro : env.priv (.field (.obj O) "reverse_hash") = some (.int h)) (hON : O ≠ N) :
    ∃ out, exec fuel Gen.Src.«lfht.cds_lfht_replace» env (.int h :: .int 0 :: rest) = .ok out ∧
      out.events = [.ext "bit_reverse_ulong" [.int hs] (.int h), .ext "match" [.ptr (.obj O), kv] (.int 0)] ∧
      out.ctl = .ret (some (.int (-22))) ∧ out.inp = rest := by
  lexec [Gen.Src.«lfht.cds_lfht_replace»]

/-- **`cds_lfht_replace`, NULL iterator**: `-ENOENT` -/
theorem replace_wrapper_enoent (fuel : Nat) (env : Env) (rest : List Val) (hs h : Int) (N it : Nat)
    (hhash : env.vars "hash" = some (.int hs)) (hnn : env.vars "new_node" = some (.ptr (.obj N)))
    (hoi : env.vars "old_iter" = some (.ptr (.obj it)))
    (hin : env.priv (.field (.obj it) "node") = some (.int 0)) :
    ∃ out, exec fuel Gen.Src.«lfht.cds_lfht_replace» env (.int h :: rest) = .ok out ∧
      out.events = [.ext "bit_reverse_ulong" [.int hs] (.int h)] ∧ out.ctl = .ret (some (.int (-2))) ∧
      out.inp = rest := by
  lexec [Gen.Src.«lfht.cds_lfht_replace»]

end UrcuVerif.Src.LfhtP
