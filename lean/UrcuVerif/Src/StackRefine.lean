import UrcuVerif.Src.IR
import UrcuVerif.Gen.Src
import UrcuVerif.Src.StackLocal
/-!
# Generated source IR of the stack primitives ⊑ thread-local projection of L2 (`Wfs`), proved for every oracle

Encoding of values (`dec`): NULL = `Val.int 0` ↦ 0, `CDS_WFS_END` = `Val.int 1` ↦ `Wfs.END`, node pointer
`Val.ptr (Loc.obj k)` ↦ `k` (a node: `k ≠ 0`, `k ≠ END`).  The stack is the heap object `Loc.obj s`; `s->head` is
`Loc.field (Loc.obj s) "head"`, `k->next` is `Loc.field (Loc.obj k) "next"` (`struct cds_wfs_head` / `cds_lfs_head`
have `node` as first member: the translator identifies `&head->node` with `head`).

Abstraction of events (`absEv op s`, `op` = which API function runs – the same access of `s->head` is a different
L2 label in `pop` and in `empty`):

* `xchg s->head` ↦ `pushX` (in push) / `popAll` (in pop_all, the new value must be `CDS_WFS_END`);
  `st k->next` ↦ `pushSt`; `ld s->head` ↦ `popLd` (pop) / `empty`; `ld k->next` ↦ `popSync`; `cas s->head` ↦ `popCas`;
  each with the values written / observed; required memory orders are checked (`xchg`/`cas`: seq_cst, `st`: ≥ release,
  `ld` in pop: ≥ consume) – anything else, and any ill-typed value, is `LLabel.bad`, which `lstep` never accepts.
* mapped to no label: `fence _` – `cmm_emit_legacy_smp_mb()` (config `CONFIG_RCU_EMIT_LEGACY_MB`) stands directly
  before a locked RMW (L2's `pushX`/`pushCas` already require the store buffer to be empty) or directly after a
  successful one with no store in between (buffer still empty): no effect on the L2 state; `caa_cpu_relax()` in the
  busy-wait; and `ext "poll"` (the 10 ms sleep of the adaptive busy-wait): L2's blocking `popSync` that reads NULL is
  a stutter step, the pause between two polls is not modelled.
-/
namespace UrcuVerif.Src

/-- symbolic execution of the generated terms -/
syntax "sexec" (" [" Lean.Parser.Tactic.simpLemma,* "]")? : tactic
macro_rules
  | `(tactic| sexec) =>
    `(tactic| simp [block, exec, eval, evalArgs, execPrim, asLoc, Env.setVar, Env.setPriv, setDst, bind, Except.bind,
        Val.truthy, bindParams, evalBin, evalUn, boolV, *])
  | `(tactic| sexec [$ls,*]) =>
    `(tactic| simp [block, exec, eval, evalArgs, execPrim, asLoc, Env.setVar, Env.setPriv, setDst, bind, Except.bind,
        Val.truthy, bindParams, evalBin, evalUn, boolV, *, $ls,*])

namespace WfsR
open UrcuVerif UrcuVerif.Src WfsL

def dec : Val → Option Nat
  | .int i => if i = 0 then some 0 else if i = 1 then some Wfs.END else none
  | .ptr (.obj k) => if Wfs.isNode k then some k else none
  | _ => none

def enc (k : Nat) : Val := if k = 0 then .int 0 else if k = Wfs.END then .int 1 else .ptr (.obj k)

theorem dec_enc (k : Nat) : dec (enc k) = some k := by
  unfold enc; split
  · subst_vars; rfl
  · split
    · subst_vars; rfl
    · simp [dec, Wfs.isNode, *]

theorem enc_dec {v : Val} {k : Nat} (h : dec v = some k) : v = enc k := by
  unfold dec at h; split at h
  · split at h
    · cases h; subst_vars; rfl
    · split at h <;> cases h; subst_vars; rfl
  · split at h <;> cases h
    rename_i hk; simp [enc, hk.1, hk.2]
  · cases h

theorem dec_inj {v w : Val} {k : Nat} (hv : dec v = some k) (hw : dec w = some k) : v = w := by
  rw [enc_dec hv, enc_dec hw]

theorem dec_end {v : Val} {k : Nat} (h : dec v = some k) : v = .int 1 ↔ k = Wfs.END := by
  constructor
  · intro e; subst e; simpa [dec] using h.symm
  · intro e; subst e; exact dec_inj h (by decide)

theorem dec_null {v : Val} {k : Nat} (h : dec v = some k) : v = .int 0 ↔ k = 0 := by
  constructor
  · intro e; subst e; simpa [dec] using h.symm
  · intro e; subst e; exact dec_inj h (by decide)

theorem dec_node {k : Nat} (h : Wfs.isNode k) : dec (.ptr (.obj k)) = some k := by simp [dec, h]

/-- which API function is running -/
inductive Op | push | pop | popAll | empty
  deriving DecidableEq, Repr

def headLoc (s : Nat) : Loc := .field (.obj s) "head"
def nextLoc (k : Nat) : Loc := .field (.obj k) "next"

def absEv (op : Op) (s : Nat) : Event → List LLabel
  | .fence _ => []
  | .ext name _ _ => if name = "poll" then [] else [.bad]
  | .xchg l new old mo =>
    if l = headLoc s ∧ 5 ≤ mo then
      match op, dec new, dec old with
      | .push, some n, some o => if Wfs.isNode n then [.pushX n o] else [.bad]
      | .popAll, some n, some o => if n = Wfs.END then [.popAll o] else [.bad]
      | _, _, _ => [.bad]
    else [.bad]
  | .st (.field (.obj k) f) v mo =>
    if op = .push ∧ f = "next" ∧ Wfs.isNode k ∧ 3 ≤ mo then
      match dec v with
      | some o => [.pushSt k o]
      | none => [.bad]
    else [.bad]
  | .ld (.field (.obj k) f) v mo =>
    if f = "head" ∧ k = s then
      match op, dec v with
      | .pop, some h => if 1 ≤ mo then [.popLd h] else [.bad]
      | .empty, some h => [.empty h]
      | _, _ => [.bad]
    else if op = .pop ∧ f = "next" ∧ Wfs.isNode k ∧ 1 ≤ mo then
      match dec v with
      | some x => [.popSync k x]
      | none => [.bad]
    else [.bad]
  | .cas l e n old mos mof =>
    if op = .pop ∧ l = headLoc s ∧ 5 ≤ mos ∧ 5 ≤ mof then
      match dec e, dec n, dec old with
      | some h, some nx, some cur => [.popCas h nx cur]
      | _, _, _ => [.bad]
    else [.bad]
  | _ => [.bad]

/-- the C value a completed operation returns, from L2's `ret` -/
def retV : Wfs.Ret → Val
  | .void => .int 0
  | .flag b => .int (if b then 1 else 0)
  | .node n _ => .ptr (.obj n)
  | .null => .int 0
  | .wouldblock => .int (-1)
  | .head h => .ptr (.obj h)

/-- how a run of an API function ended, against the local L2 state reached: preempted (a proper prefix), out of
loop budget (also a prefix), or returned – then L2's thread is back at `idle` and the C return value is L2's `ret` -/
def Done (out : Out) (ls' : LState) : Prop :=
  out.ctl = .blocked ∨ out.ctl = .fuel ∨ (out.ctl = .ret (some (retV ls'.ret)) ∧ ls'.pc = .idle)

-- ----------------------------------------------------------------------------------------------------------
-- _cds_wfs_push
-- ----------------------------------------------------------------------------------------------------------
theorem push_refines (fuel : Nat) (env : Env) (inp : List Val) (s n : Nat) (cfg : Int) (ls : LState)
    (hs : env.vars "u_stack" = some (.ptr (.obj s))) (hn : env.vars "node" = some (.ptr (.obj n)))
    (hcfg : env.priv (.glob "CONFIG_RCU_EMIT_LEGACY_MB") = some (.int cfg))
    (hnode : Wfs.isNode n) (hpc : ls.pc = .pushX n)
    (hinp : ∀ v ∈ inp, (dec v).isSome) :
    ∃ out, exec fuel Gen.Src.«_cds_wfs_push» env inp = .ok out ∧
      ∃ ls', lrun ls (out.events.flatMap (absEv .push s)) = some ls' ∧ Done out ls' := by
  cases inp with
  | nil =>
    by_cases hc : cfg = 0 <;>
      sexec [Gen.Src.«_cds_wfs_push», Gen.Src.«___cds_wfs_end»] <;> simp [absEv, lrun, Done]
  | cons v rest =>
    obtain ⟨o, ho⟩ := Option.isSome_iff_exists.mp (hinp v (by simp))
    have he := dec_end ho
    by_cases hc : cfg = 0 <;> by_cases hoe : o = Wfs.END <;>
      sexec [Gen.Src.«_cds_wfs_push», Gen.Src.«___cds_wfs_end»] <;>
      simp [absEv, lrun, lstep, Done, headLoc, dec_node hnode, ho, hnode, hpc, retV, he, hoe]

end WfsR
end UrcuVerif.Src
