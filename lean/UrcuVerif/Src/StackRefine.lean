import UrcuVerif.Src.IR
import UrcuVerif.Gen.Src
import UrcuVerif.Src.StackLocal
import UrcuVerif.Src.StackExec
/-!
# Generated source IR of the stack primitives ⊑ thread-local projection of L2 (`Wfs`), proved for every oracle

Encoding of values (`dec`): NULL = `Val.int 0` ↦ 0, `CDS_WFS_END` = `Val.int 1` ↦ `Wfs.END`, node pointer
`Val.ptr (Loc.obj k)` ↦ `k` (a node: `k ≠ 0`, `k ≠ END`).  The stack is the heap object `Loc.obj s`; `s->head` is
`Loc.field (Loc.obj s) "head"`, `k->next` is `Loc.field (Loc.obj k) "next"` (`struct cds_wfs_head` / `cds_lfs_head`
have `node` as first member: the translator identifies `&head->node` with `head`).

Abstraction of events (`absEv op s`, `op` = which API function runs – the same access of `s->head` is a different
L2 label in `pop` and in `empty`):

* `xchg s->head` ↦ `pushX` (in push) / `popAll` (in pop_all, the new value must be `CDS_WFS_END`);
  `st k->next` ↦ `pushSt`; `ld s->head` ↦ `popLd` (pop) / `empty`; `ld k->next` ↦ `popSync`; `cas s->head` ↦ `popCas`;
  each with the values written / observed; required memory orders are checked (`xchg`/`cas`: seq_cst, `st`: ≥ release,
  `ld` in pop: ≥ consume) – anything else, and any ill-typed value, is `LLabel.bad`, which `lstep` never accepts.
* mapped to no label: `fence _` – `cmm_emit_legacy_smp_mb()` (config `CONFIG_RCU_EMIT_LEGACY_MB`) stands directly
  before a locked RMW (L2's `pushX`/`pushCas` already require the store buffer to be empty) or directly after a
  successful one with no store in between (buffer still empty): no effect on the L2 state; `caa_cpu_relax()` in the
  busy-wait; and `ext "poll"` (the 10 ms sleep of the adaptive busy-wait): L2's blocking `popSync` that reads NULL is
  a stutter step, the pause between two polls is not modelled.
-/
namespace UrcuVerif.Src

namespace WfsR
open UrcuVerif UrcuVerif.Src WfsL

def dec : Val → Option Nat
  | .int i => if i = 0 then some 0 else if i = 1 then some Wfs.END else none
  | .ptr (.obj k) => if Wfs.isNode k then some k else none
  | _ => none

def enc (k : Nat) : Val := if k = 0 then .int 0 else if k = Wfs.END then .int 1 else .ptr (.obj k)

@[simp] theorem dec_enc (k : Nat) : dec (enc k) = some k := by
  unfold enc; split
  · subst_vars; rfl
  · split
    · subst_vars; rfl
    · simp [dec, Wfs.isNode, *]

theorem enc_dec {v : Val} {k : Nat} (h : dec v = some k) : v = enc k := by
  unfold dec at h; split at h
  · split at h
    · cases h; subst_vars; rfl
    · split at h <;> cases h; subst_vars; rfl
  · split at h <;> cases h
    rename_i hk; simp [enc, hk.1, hk.2]
  · cases h

theorem dec_inj {v w : Val} {k : Nat} (hv : dec v = some k) (hw : dec w = some k) : v = w := by
  rw [enc_dec hv, enc_dec hw]

theorem dec_end {v : Val} {k : Nat} (h : dec v = some k) : v = .int 1 ↔ k = Wfs.END := by
  constructor
  · intro e; subst e; simpa [dec] using h.symm
  · intro e; subst e; exact dec_inj h (by decide)

theorem dec_null {v : Val} {k : Nat} (h : dec v = some k) : v = .int 0 ↔ k = 0 := by
  constructor
  · intro e; subst e; simpa [dec] using h.symm
  · intro e; subst e; exact dec_inj h (by decide)

theorem dec_node {k : Nat} (h : Wfs.isNode k) : dec (.ptr (.obj k)) = some k := by simp [dec, h]

@[simp] theorem enc_inj (a b : Nat) : enc a = enc b ↔ a = b := by
  constructor
  · intro h; have := congrArg dec h; simpa using this
  · rintro rfl; rfl

@[simp] theorem enc_eq_null (a : Nat) : enc a = .int 0 ↔ a = 0 := by
  rw [show (Val.int 0) = enc 0 from rfl, enc_inj]

@[simp] theorem enc_eq_end (a : Nat) : enc a = .int 1 ↔ a = Wfs.END := by
  rw [show (Val.int 1) = enc Wfs.END from rfl, enc_inj]

@[simp] theorem enc_ne_wouldblock (a : Nat) : enc a ≠ .int (-1) := by
  intro h; have := congrArg dec h; rw [dec_enc] at this; simp [dec] at this

theorem enc_node {k : Nat} (h : Wfs.isNode k) : enc k = .ptr (.obj k) := by simp [enc, h.1, h.2]

/-- which API function is running -/
inductive Op | push | pop | popAll | empty
  deriving DecidableEq, Repr

def headLoc (s : Nat) : Loc := .field (.obj s) "head"
def nextLoc (k : Nat) : Loc := .field (.obj k) "next"

def absEv (op : Op) (s : Nat) : Event → List LLabel
  | .fence _ => []
  | .ext name _ _ => if name = "poll" then [] else [.bad]
  | .xchg l new old mo =>
    if l = headLoc s ∧ 5 ≤ mo then
      match op, dec new, dec old with
      | .push, some n, some o => if Wfs.isNode n then [.pushX n o] else [.bad]
      | .popAll, some n, some o => if n = Wfs.END then [.popAll o] else [.bad]
      | _, _, _ => [.bad]
    else [.bad]
  | .st (.field (.obj k) f) v mo =>
    if op = .push ∧ f = "next" ∧ Wfs.isNode k ∧ 3 ≤ mo then
      match dec v with
      | some o => [.pushSt k o]
      | none => [.bad]
    else [.bad]
  | .ld (.field (.obj k) f) v mo =>
    if f = "head" ∧ k = s then
      match op, dec v with
      | .pop, some h => if 1 ≤ mo then [.popLd h] else [.bad]
      | .empty, some h => [.empty h]
      | _, _ => [.bad]
    else if op = .pop ∧ f = "next" ∧ Wfs.isNode k ∧ 1 ≤ mo then
      match dec v with
      | some x => [.popSync k x]
      | none => [.bad]
    else [.bad]
  | .cas l e n old mos mof =>
    if op = .pop ∧ l = headLoc s ∧ 5 ≤ mos ∧ 5 ≤ mof then
      match dec e, dec n, dec old with
      | some h, some nx, some cur => [.popCas h nx cur]
      | _, _, _ => [.bad]
    else [.bad]
  | _ => [.bad]

/-- the C value a completed operation returns, from L2's `ret` -/
def retV : Wfs.Ret → Val
  | .void => .int 0
  | .flag b => .int (if b then 1 else 0)
  | .node n _ => enc n
  | .null => .int 0
  | .wouldblock => .int (-1)
  | .head h => enc h

/-- how a run of an API function ended, against the local L2 state reached: preempted (a proper prefix), out of
loop budget (also a prefix), or returned – then L2's thread is back at `idle` and the C return value is L2's `ret` -/
def Done (out : Out) (ls' : LState) : Prop :=
  out.ctl = .blocked ∨ out.ctl = .fuel ∨ (out.ctl = .ret (some (retV ls'.ret)) ∧ ls'.pc = .idle)

-- ----------------------------------------------------------------------------------------------------------
-- _cds_wfs_push
-- ----------------------------------------------------------------------------------------------------------
theorem push_refines (fuel : Nat) (env : Env) (inp : List Val) (s n : Nat) (cfg : Int) (ls : LState)
    (hs : env.vars "u_stack" = some (.ptr (.obj s))) (hn : env.vars "node" = some (.ptr (.obj n)))
    (hcfg : env.priv (.glob "CONFIG_RCU_EMIT_LEGACY_MB") = some (.int cfg))
    (hnode : Wfs.isNode n) (hpc : ls.pc = .pushX n)
    (hinp : ∀ v ∈ inp, (dec v).isSome) :
    ∃ out, exec fuel Gen.Src.«_cds_wfs_push» env inp = .ok out ∧
      ∃ ls', lrun ls (out.events.flatMap (absEv .push s)) = some ls' ∧ Done out ls' := by
  cases inp with
  | nil =>
    by_cases hc : cfg = 0 <;>
      sexec [Gen.Src.«_cds_wfs_push», Gen.Src.«___cds_wfs_end»] <;> simp [absEv, lrun, Done]
  | cons v rest =>
    obtain ⟨o, ho⟩ := Option.isSome_iff_exists.mp (hinp v (by simp))
    have he := dec_end ho
    by_cases hc : cfg = 0 <;> by_cases hoe : o = Wfs.END <;>
      sexec [Gen.Src.«_cds_wfs_push», Gen.Src.«___cds_wfs_end»] <;>
      simp [absEv, lrun, lstep, Done, headLoc, dec_node hnode, ho, hnode, hpc, retV, hoe]

-- ----------------------------------------------------------------------------------------------------------
-- ___cds_wfs_pop_all, _cds_wfs_empty
-- ----------------------------------------------------------------------------------------------------------
theorem pop_all_refines (fuel : Nat) (env : Env) (inp : List Val) (s : Nat) (cfg : Int) (ls : LState)
    (hs : env.vars "u_stack" = some (.ptr (.obj s)))
    (hcfg : env.priv (.glob "CONFIG_RCU_EMIT_LEGACY_MB") = some (.int cfg))
    (hpc : ls.pc = .idle) (hinp : ∀ v ∈ inp, (dec v).isSome) :
    ∃ out, exec fuel Gen.Src.«___cds_wfs_pop_all» env inp = .ok out ∧
      ∃ ls', lrun ls (out.events.flatMap (absEv .popAll s)) = some ls' ∧ Done out ls' := by
  cases inp with
  | nil => sexec [Gen.Src.«___cds_wfs_pop_all», Gen.Src.«___cds_wfs_end»]; simp [lrun, Done]
  | cons v rest =>
    obtain ⟨o, ho⟩ := Option.isSome_iff_exists.mp (hinp v (by simp))
    have hv := enc_dec ho; subst hv
    by_cases hc : cfg = 0 <;> by_cases hoe : o = Wfs.END <;>
      sexec [Gen.Src.«___cds_wfs_pop_all», Gen.Src.«___cds_wfs_end»] <;>
      simp [absEv, lrun, lstep, Done, headLoc, hpc, retV, hoe, show dec (.int 1) = some Wfs.END from rfl]

theorem empty_refines (fuel : Nat) (env : Env) (inp : List Val) (s : Nat) (ls : LState)
    (hs : env.vars "u_stack" = some (.ptr (.obj s)))
    (hpc : ls.pc = .idle) (hinp : ∀ v ∈ inp, (dec v).isSome) :
    ∃ out, exec fuel Gen.Src.«_cds_wfs_empty» env inp = .ok out ∧
      ∃ ls', lrun ls (out.events.flatMap (absEv .empty s)) = some ls' ∧ Done out ls' := by
  cases inp with
  | nil => sexec [Gen.Src.«_cds_wfs_empty», Gen.Src.«___cds_wfs_end»]; simp [lrun, Done]
  | cons v rest =>
    obtain ⟨o, ho⟩ := Option.isSome_iff_exists.mp (hinp v (by simp))
    have hv := enc_dec ho; subst hv
    by_cases hoe : o = Wfs.END <;>
      sexec [Gen.Src.«_cds_wfs_empty», Gen.Src.«___cds_wfs_end»] <;>
      simp [absEv, lrun, lstep, Done, hpc, retV, hoe]

end WfsR
-- ==========================================================================================================
namespace LfsR
open UrcuVerif UrcuVerif.Src LfsL

/-- NULL = `Val.int 0` ↦ 0, node pointer `Val.ptr (Loc.obj k)` ↦ `k` (`k ≠ 0`) -/
def dec : Val → Option Nat
  | .int i => if i = 0 then some 0 else none
  | .ptr (.obj k) => if k ≠ 0 then some k else none
  | _ => none

def enc (k : Nat) : Val := if k = 0 then .int 0 else .ptr (.obj k)

@[simp] theorem dec_enc (k : Nat) : dec (enc k) = some k := by
  unfold enc; split
  · subst_vars; rfl
  · simp [dec, *]

theorem enc_dec {v : Val} {k : Nat} (h : dec v = some k) : v = enc k := by
  unfold dec at h; split at h
  · split at h <;> cases h; subst_vars; rfl
  · split at h <;> cases h
    rename_i hk; simp [enc, hk]
  · cases h

@[simp] theorem enc_inj (a b : Nat) : enc a = enc b ↔ a = b := by
  constructor
  · intro h; have := congrArg dec h; simpa using this
  · rintro rfl; rfl

@[simp] theorem enc_eq_null (a : Nat) : enc a = .int 0 ↔ a = 0 := by
  rw [show (Val.int 0) = enc 0 from rfl, enc_inj]

theorem enc_node {k : Nat} (h : k ≠ 0) : enc k = .ptr (.obj k) := by simp [enc, h]

inductive Op | push | pop | popAll | empty
  deriving DecidableEq, Repr

def headLoc (s : Nat) : Loc := .field (.obj s) "head"
def nextLoc (k : Nat) : Loc := .field (.obj k) "next"

/-- Abstraction of events.  In `push` the `cas` stands for TWO L2 labels: the plain store `node->next = head` that
precedes it is an access to the still thread-private node – no shared-memory event; it is visible in the private
view (`push_refines` states `priv (node->next)` at return) – and L2's `pushSt` is that store. -/
def absEv (op : Op) (s : Nat) : Event → List LLabel
  | .fence _ => []
  | .xchg l new old mo =>
    if op = .popAll ∧ l = headLoc s ∧ 5 ≤ mo ∧ new = .int 0 then
      match dec old with
      | some o => [.popAll o]
      | none => [.bad]
    else [.bad]
  | .ld (.field (.obj k) f) v mo =>
    if f = "head" ∧ k = s then
      match op, dec v with
      | .pop, some h => if 1 ≤ mo then [.popLd h] else [.bad]
      | .empty, some h => [.empty h]
      | _, _ => [.bad]
    else if op = .pop ∧ f = "next" ∧ k ≠ 0 then
      match dec v with
      | some x => [.popLdN k x]
      | none => [.bad]
    else [.bad]
  | .cas l e n old mos mof =>
    if l = headLoc s ∧ 5 ≤ mos ∧ 5 ≤ mof then
      match op, dec e, dec n, dec old with
      | .push, some h, some nd, some cur => if nd ≠ 0 then [.pushSt nd h, .pushCas nd h cur] else [.bad]
      | .pop, some h, some nx, some cur => [.popCas h nx cur]
      | _, _, _, _ => [.bad]
    else [.bad]
  | _ => [.bad]

def lr (op : Op) (s : Nat) (ls : LState) (evs : List Event) : Option LState := lrun ls (evs.flatMap (absEv op s))

theorem lr_nil (op s ls) : lr op s ls [] = some ls := rfl
theorem lr_append (op s ls a b) : lr op s ls (a ++ b) = (lr op s ls a).bind (fun m => lr op s m b) := by
  simp [lr, List.flatMap_append, lrun_append]

def retV : Lfs.Ret → Val
  | .void => .int 0
  | .flag b => .int (if b then 1 else 0)
  | .node n => enc n
  | .null => .int 0
  | .head h => enc h

def Done (out : Out) (ls' : LState) : Prop :=
  out.ctl = .blocked ∨ out.ctl = .fuel ∨ (out.ctl = .ret (some (retV ls'.ret)) ∧ ls'.pc = .idle)

-- ----------------------------------------------------------------------------------------------------------
-- _cds_lfs_push
-- ----------------------------------------------------------------------------------------------------------
/-- loop invariant of the CAS retry loop: `head` holds the current guess `h`, L2 is at `pushSt n h` -/
def PushI (s n : Nat) (cfg : Int) (e : Env) (i : List Val) (l : LState) : Prop :=
  e.vars "s" = some (.ptr (.obj s)) ∧ e.vars "node" = some (.ptr (.obj n)) ∧
  e.vars "new_head" = some (.ptr (.obj n)) ∧ e.priv (.glob "CONFIG_RCU_EMIT_LEGACY_MB") = some (.int cfg) ∧
  (∀ v ∈ i, (dec v).isSome) ∧ ∃ h, e.vars "head" = some (enc h) ∧ l.pc = .pushSt n h

/-- terminal outcomes of the loop body: preempted, or `break` after the successful CAS -/
def PushR (n : Nat) (c : Ctl) (e : Env) (_ : List Val) (l : LState) : Prop :=
  c = .blocked ∨ (c = .brk ∧ ∃ h, e.vars "head" = some (enc h) ∧ l = ⟨.idle, .flag (h != 0)⟩ ∧
    e.priv (nextLoc n) = some (enc h))

theorem push_refines (fuel : Nat) (env : Env) (inp : List Val) (s n : Nat) (cfg : Int) (ls : LState)
    (hs : env.vars "u_s" = some (.ptr (.obj s))) (hn : env.vars "node" = some (.ptr (.obj n)))
    (hcfg : env.priv (.glob "CONFIG_RCU_EMIT_LEGACY_MB") = some (.int cfg))
    (hnode : n ≠ 0) (hpc : ls.pc = .pushSt n 0)
    (hinp : ∀ v ∈ inp, (dec v).isSome) :
    ∃ out, exec fuel Gen.Src.«_cds_lfs_push» env inp = .ok out ∧
      ∃ ls', lr .push s ls out.events = some ls' ∧ Done out ls' ∧
        (∀ r, out.ctl = .ret r → ∃ h, out.env.priv (nextLoc n) = some (enc h) ∧ ls'.ret = .flag (h != 0)) := by
  sexec [Gen.Src.«_cds_lfs_push», Gen.Src.«___cds_lfs_empty_head»]
  generalize hE : iterate _ _ _ _ _ = r
  obtain ⟨o, rfl, evs, ls', hev, hl, hfin⟩ : ∃ o, r = .ok o ∧ ∃ evs ls', o.events = [] ++ evs ∧
      lr .push s ls evs = some ls' ∧ (o.ctl = .fuel ∨ ∃ c, c.goesOn = false ∧
        PushR n c o.env o.inp ls' ∧ o.ctl = c.afterLoop) := by
    rw [← hE]
    refine iterate_inv (lr .push s) (lr_nil _ _) (lr_append _ _) _ (PushI s n cfg) (PushR n) ?_ fuel _ _ ls [] ?_
    · rintro e i l ⟨h1, h2, h3, h4, h5, h, h6, h7⟩
      cases i with
      | nil => by_cases hc : cfg = 0 <;> sexec <;> simp [lr, lrun, absEv, Ctl.goesOn, PushR]
      | cons v rest =>
        obtain ⟨cur, hcur⟩ := Option.isSome_iff_exists.mp (h5 v (by simp))
        have hv := enc_dec hcur; subst hv
        have h5' : ∀ v ∈ rest, (dec v).isSome := fun v hv => h5 v (by simp [hv])
        have hdn : dec (.ptr (.obj n)) = some n := by simp [dec, hnode]
        by_cases hch : h = cur
        · subst hch
          by_cases hc : cfg = 0 <;> sexec <;>
            simp [lr, lrun, lstep, absEv, headLoc, nextLoc, Ctl.goesOn, PushR, hdn, hnode, h7]
        · have hch' : ¬ cur = h := fun e => hch e.symm
          by_cases hc : cfg = 0 <;> sexec <;>
            simp [lr, lrun, lstep, absEv, headLoc, Ctl.goesOn, PushI, hdn, hnode, h7, hch', h1, h2, h3, h4, hc] <;>
            exact h5'
    · sexec [PushI]; exact ⟨hinp, rfl⟩
  simp only [List.nil_append] at hev
  rcases hfin with hf | ⟨c, -, hR | ⟨rfl, h, hh, rfl, hp⟩, hc⟩
  · sexec; simp [Done]
  · subst hR; simp only [Ctl.afterLoop] at hc; sexec; simp [Done]
  · simp only [Ctl.afterLoop] at hc
    by_cases h0 : h = 0 <;> sexec <;> simp [Done, retV, h0]

-- ----------------------------------------------------------------------------------------------------------
-- ___cds_lfs_pop_all, _cds_lfs_empty
-- ----------------------------------------------------------------------------------------------------------
theorem pop_all_refines (fuel : Nat) (env : Env) (inp : List Val) (s : Nat) (cfg : Int) (ls : LState)
    (hs : env.vars "u_s" = some (.ptr (.obj s)))
    (hcfg : env.priv (.glob "CONFIG_RCU_EMIT_LEGACY_MB") = some (.int cfg))
    (hpc : ls.pc = .idle) (hinp : ∀ v ∈ inp, (dec v).isSome) :
    ∃ out, exec fuel Gen.Src.«___cds_lfs_pop_all» env inp = .ok out ∧
      ∃ ls', lr .popAll s ls out.events = some ls' ∧ Done out ls' := by
  cases inp with
  | nil => sexec [Gen.Src.«___cds_lfs_pop_all»]; simp [lr, lrun, Done]
  | cons v rest =>
    obtain ⟨o, ho⟩ := Option.isSome_iff_exists.mp (hinp v (by simp))
    have hv := enc_dec ho; subst hv
    by_cases hc : cfg = 0 <;> by_cases hoe : o = 0 <;>
      sexec [Gen.Src.«___cds_lfs_pop_all»] <;>
      simp [lr, absEv, lrun, lstep, Done, headLoc, hpc, retV, hoe]

theorem empty_refines (fuel : Nat) (env : Env) (inp : List Val) (s : Nat) (ls : LState)
    (hs : env.vars "s" = some (.ptr (.obj s)))
    (hpc : ls.pc = .idle) (hinp : ∀ v ∈ inp, (dec v).isSome) :
    ∃ out, exec fuel Gen.Src.«_cds_lfs_empty» env inp = .ok out ∧
      ∃ ls', lr .empty s ls out.events = some ls' ∧ Done out ls' := by
  cases inp with
  | nil => sexec [Gen.Src.«_cds_lfs_empty», Gen.Src.«___cds_lfs_empty_head»]; simp [lr, lrun, Done]
  | cons v rest =>
    obtain ⟨o, ho⟩ := Option.isSome_iff_exists.mp (hinp v (by simp))
    have hv := enc_dec ho; subst hv
    by_cases hoe : o = 0 <;>
      sexec [Gen.Src.«_cds_lfs_empty», Gen.Src.«___cds_lfs_empty_head»] <;>
      simp [lr, absEv, lrun, lstep, Done, hpc, retV, hoe]

-- ----------------------------------------------------------------------------------------------------------
-- ___cds_lfs_pop
-- ----------------------------------------------------------------------------------------------------------
def PopI (s : Nat) (cfg : Int) (e : Env) (i : List Val) (l : LState) : Prop :=
  e.vars "s" = some (.ptr (.obj s)) ∧ e.priv (.glob "CONFIG_RCU_EMIT_LEGACY_MB") = some (.int cfg) ∧
  (∀ v ∈ i, (dec v).isSome) ∧ l.pc = .popLd

def PopR (c : Ctl) (_ : Env) (_ : List Val) (l : LState) : Prop :=
  c = .blocked ∨ (c = .ret (some (retV l.ret)) ∧ l.pc = .idle)

theorem pop_body (fuel : Nat) (s : Nat) (cfg : Int) (body : Stmt)
    (hb : firstLoop Gen.Src.«___cds_lfs_pop» = some body)
    (e : Env) (i : List Val) (l : LState) (hI : PopI s cfg e i l) :
    ∃ o, exec fuel body e i = .ok o ∧ ∃ ls', lr .pop s l o.events = some ls' ∧
      (if o.ctl.goesOn then PopI s cfg o.env o.inp ls' else PopR o.ctl o.env o.inp ls') := by
  simp only [Gen.Src.«___cds_lfs_pop», block, firstLoop, Option.some.injEq] at hb
  subst hb
  obtain ⟨h1, h4, h5, h7⟩ := hI
  cases i with
  | nil => sexec; simp [lr, lrun, Ctl.goesOn, PopR]
  | cons v rest =>
    obtain ⟨k, hk⟩ := Option.isSome_iff_exists.mp (h5 v (by simp))
    have hv := enc_dec hk; subst hv
    by_cases hk0 : k = 0
    · subst hk0
      sexec [Gen.Src.«___cds_lfs_empty_head»]
      simp [lr, lrun, lstep, absEv, Ctl.goesOn, PopR, h7, retV]
    · have hek := enc_node hk0
      cases rest with
      | nil =>
        sexec [Gen.Src.«___cds_lfs_empty_head»]
        simp [lr, lrun, lstep, absEv, Ctl.goesOn, PopR, h7, hk0, ← hek]
      | cons w rest =>
        obtain ⟨nx, hnx⟩ := Option.isSome_iff_exists.mp (h5 w (by simp))
        have hw := enc_dec hnx; subst hw
        cases rest with
        | nil =>
          sexec [Gen.Src.«___cds_lfs_empty_head»]
          simp [lr, lrun, lstep, absEv, Ctl.goesOn, PopR, h7, hk0, ← hek]
        | cons x rest =>
          obtain ⟨cur, hcur⟩ := Option.isSome_iff_exists.mp (h5 x (by simp))
          have hx := enc_dec hcur; subst hx
          have h5' : ∀ v ∈ rest, (dec v).isSome := fun v hv => h5 v (by simp [hv])
          by_cases hch : cur = k
          · subst hch
            by_cases hc : cfg = 0 <;> sexec [Gen.Src.«___cds_lfs_empty_head»] <;>
              simp [lr, lrun, lstep, absEv, headLoc, Ctl.goesOn, PopR, h7, hk0, ← hek, retV]
          · have hch' : ¬ enc cur = .ptr (.obj k) := by rw [← hek]; simpa using hch
            sexec [Gen.Src.«___cds_lfs_empty_head»]
            simp [lr, lrun, lstep, absEv, headLoc, Ctl.goesOn, PopI, h7, hk0, ← hek, hch, h1, h4]
            exact h5'

theorem pop_refines (fuel : Nat) (env : Env) (inp : List Val) (s : Nat) (cfg : Int) (ls : LState)
    (hs : env.vars "u_s" = some (.ptr (.obj s)))
    (hcfg : env.priv (.glob "CONFIG_RCU_EMIT_LEGACY_MB") = some (.int cfg))
    (hpc : ls.pc = .popLd) (hinp : ∀ v ∈ inp, (dec v).isSome) :
    ∃ out, exec fuel Gen.Src.«___cds_lfs_pop» env inp = .ok out ∧
      ∃ ls', lr .pop s ls out.events = some ls' ∧ Done out ls' := by
  sexec [Gen.Src.«___cds_lfs_pop»]
  generalize hE : iterate _ _ _ _ _ = r
  obtain ⟨o, rfl, evs, ls', hev, hl, hfin⟩ : ∃ o, r = .ok o ∧ ∃ evs ls', o.events = [] ++ evs ∧
      lr .pop s ls evs = some ls' ∧ (o.ctl = .fuel ∨ ∃ c, c.goesOn = false ∧
        PopR c o.env o.inp ls' ∧ o.ctl = c.afterLoop) := by
    rw [← hE]
    refine iterate_inv (lr .pop s) (lr_nil _ _) (lr_append _ _) _ (PopI s cfg) PopR ?_ fuel _ _ ls [] ?_
    · exact pop_body fuel s cfg _ (by simp [Gen.Src.«___cds_lfs_pop», block, firstLoop])
    · sexec [PopI]; exact hinp
  simp only [List.nil_append] at hev
  rcases hfin with hf | ⟨c, -, rfl | ⟨rfl, hidle⟩, hc⟩
  · sexec; simp [Done]
  · simp only [Ctl.afterLoop] at hc; sexec; simp [Done]
  · simp only [Ctl.afterLoop] at hc; sexec; simp [Done, hidle]

end LfsR

end UrcuVerif.Src
