import UrcuVerif.Gp.Flip
/-!
# Grace-period updater (`synchronize_rcu`, `wait_for_readers` of memb / mb): thread-local projection of `Gp/Flip.lean`

The *local part* of `Gp.State` for the updater (the thread that holds `rcu_gp_lock`): its pc `upc`, the phase `gp` (only
`uFlip` changes it) and the registry lists.  The C code keeps the registered readers in three `cds_list`s
(`registry` = input of pass 1, `cur_snap_readers` = input of pass 2, `qsreaders`); L2 keeps them as the sets
`reg` / `inp` / `snap` / `qs : Nat → Bool`.  The local state keeps them as **lists of reader ids used as sets**
(`List Nat`, membership only – this is the *abstract list state* the list-oracle discipline of `Src/SyncRefine.lean`
refers to; being lists makes emptiness and membership decidable for the local automaton).  `Proj s ls` says that `ls` is
a projection of `s`: same `upc`, same `gp`, and each list has exactly the members of the L2 set.

`LLabel` = the updater's labels of `Gp.Label`, decorated with the values observed (`uScan… j w`: the word `w = (nest, phase)`
loaded from reader `j`'s `ctr`; `uFlip g`: the phase stored to `rcu_gp.ctr`; `uMbarRet sys / uEnd sys`: the master barrier
was a `sys_membarrier` call rather than a plain fence), **plus** the two environment labels that change the lists from
outside (`envReg i` = L2's `reg i`, `envUnreg i` = L2's `unreg i`: `rcu_register_thread` / `rcu_unregister_thread` of
reader `i`, which take `rcu_registry_lock`).

* `proj_enabled`  a move of the local automaton whose decoration is what the global state dictates (`Guard`: the word
                  loaded is `(mnest j, mph j)`, `j < c.n`, membarrier: every reader was force-fenced, …) is a step of the
                  real `Gp.step` between projections;
* `proj_step`     conversely every L2 step with an updater / reg / unreg label, decorated by the observation `Obs`, moves
                  every projection by `lstep`;
* `proj_frame`    every other L2 label (all reader labels `rLd … rRead`, `flush`, `forced`, `setY`, `sigPush/Pop`) leaves
                  every projection a projection.
-/
namespace UrcuVerif.Src.Sync
open UrcuVerif

structure LState where
  upc  : Gp.UPc
  gp   : Bool
  reg  : List Nat        -- all registered readers (L2 `reg`)
  inp  : List Nat        -- pass 1 input list (`registry` while the grace period runs)
  snap : List Nat        -- `cur_snap_readers`
  qs   : List Nat        -- `qsreaders`
  deriving DecidableEq, Repr

inductive LLabel
  | envReg (i : Nat) | envUnreg (i : Nat)
  | uStart (trk : Bool) | uStartEmpty (trk : Bool)
  | uMbarRet (sys : Bool)
  | uScan1Inactive (j : Nat) (w : Nat × Bool)
  | uScan1Current (j : Nat) (w : Nat × Bool)
  | uFlip (g : Bool)
  | uScan2 (j : Nat) (w : Nat × Bool)
  | uP2Done
  | uEnd (sys : Bool)
  deriving DecidableEq, Repr

def LLabel.toL2 : LLabel → Gp.Label
  | .envReg i => .reg i | .envUnreg i => .unreg i
  | .uStart t => .uStart t | .uStartEmpty t => .uStartEmpty t
  | .uMbarRet _ => .uMbarRet
  | .uScan1Inactive j _ => .uScan1Inactive j | .uScan1Current j _ => .uScan1Current j
  | .uFlip _ => .uFlip | .uScan2 j _ => .uScan2 j | .uP2Done => .uP2Done | .uEnd _ => .uEnd

/-- labels of L2 that touch the updater's projection -/
def owned : Gp.Label → Bool
  | .reg _ | .unreg _ | .uStart _ | .uStartEmpty _ | .uMbarRet | .uScan1Inactive _ | .uScan1Current _
  | .uFlip | .uScan2 _ | .uP2Done | .uEnd => true
  | _ => false

def rm (i : Nat) (l : List Nat) : List Nat := l.filter (· != i)

theorem mem_rm (i j : Nat) (l : List Nat) : j ∈ rm i l ↔ j ∈ l ∧ j ≠ i := by simp [rm]

def lstep (ls : LState) : LLabel → Option LState
  | .envReg i =>
    some { ls with reg := i :: ls.reg, inp := if ls.upc = .mbar1 ∨ ls.upc = .p1 then i :: ls.inp else ls.inp }
  | .envUnreg i =>
    some { ls with reg := rm i ls.reg, inp := rm i ls.inp, snap := rm i ls.snap, qs := rm i ls.qs }
  | .uStart _ =>
    if ls.upc = .idle ∧ ls.reg ≠ [] then some { ls with upc := .mbar1, inp := ls.reg, snap := [], qs := [] } else none
  | .uStartEmpty _ => if ls.upc = .idle ∧ ls.reg = [] then some ls else none
  | .uMbarRet _ => if ls.upc = .mbar1 then some { ls with upc := .p1 } else none
  | .uScan1Inactive j w =>
    if ls.upc = .p1 ∧ j ∈ ls.inp ∧ w.1 = 0 then some { ls with inp := rm j ls.inp, qs := j :: ls.qs } else none
  | .uScan1Current j w =>
    if ls.upc = .p1 ∧ j ∈ ls.inp ∧ 0 < w.1 ∧ w.2 = ls.gp then some { ls with inp := rm j ls.inp, snap := j :: ls.snap }
    else none
  | .uFlip g => if ls.upc = .p1 ∧ ls.inp = [] ∧ g = !ls.gp then some { ls with gp := g, upc := .p2 } else none
  | .uScan2 j w =>
    if ls.upc = .p2 ∧ j ∈ ls.snap ∧ (w.1 = 0 ∨ w.2 = ls.gp) then some { ls with snap := rm j ls.snap, qs := j :: ls.qs }
    else none
  | .uP2Done => if ls.upc = .p2 ∧ ls.snap = [] then some { ls with upc := .mbar2 } else none
  | .uEnd _ => if ls.upc = .mbar2 then some { ls with upc := .idle } else none

def lrun : LState → List LLabel → Option LState
  | ls, [] => some ls
  | ls, l :: rest => match lstep ls l with
    | some n => lrun n rest
    | none => none

theorem lrun_append : ∀ (a b : List LLabel) (ls ls1 ls2), lrun ls a = some ls1 → lrun ls1 b = some ls2 →
    lrun ls (a ++ b) = some ls2 := by
  intro a
  induction a with
  | nil => intro b ls ls1 ls2 h1 h2; simp [lrun] at h1; subst h1; simpa using h2
  | cons x a ih =>
    intro b ls ls1 ls2 h1 h2
    simp only [lrun, List.cons_append] at h1 ⊢
    split at h1
    · exact ih _ _ _ _ h1 h2
    · simp at h1

/-- `ls` is a projection of `s` -/
def Proj (s : Gp.State) (ls : LState) : Prop :=
  ls.upc = s.upc ∧ ls.gp = s.gp ∧ (∀ j, s.reg j = decide (j ∈ ls.reg)) ∧ (∀ j, s.inp j = decide (j ∈ ls.inp)) ∧
    (∀ j, s.snap j = decide (j ∈ ls.snap)) ∧ (∀ j, s.qs j = decide (j ∈ ls.qs))

/-- the part of an L2 guard that is not local to the updater: the values observed are those of the global state, reader
ids are valid, the ghost / membarrier conditions -/
def Guard (c : Gp.Cfg) (s : Gp.State) : LLabel → Prop
  | .envReg i => i < c.n ∧ s.reg i = false ∧ s.rpc i = .out
  | .envUnreg i => i < c.n ∧ s.reg i = true ∧ s.rpc i = .out ∧ s.held i = []
  | .uStart t => (t = true → s.xset = false) ∧ (∀ j, s.reg j = true → j < c.n)
  | .uStartEmpty t => t = true → s.xset = false
  | .uMbarRet sys | .uEnd sys => c.membarrier = true → (sys = true ∧ ∀ i, i < c.n → s.pend i = false)
  | .uScan1Inactive j w | .uScan1Current j w | .uScan2 j w => j < c.n ∧ w = (s.mnest j, s.mph j)
  | _ => True

/-- the decoration of a label is what the global state dictates -/
def Obs (s : Gp.State) : LLabel → Prop
  | .uScan1Inactive j w | .uScan1Current j w | .uScan2 j w => w = (s.mnest j, s.mph j)
  | .uFlip g => g = !s.gp
  | _ => True

theorem exists_mem_of_ne_nil (l : List Nat) (h : l ≠ []) : ∃ k, k ∈ l := by
  cases l with
  | nil => exact absurd rfl h
  | cons a t => exact ⟨a, by simp⟩

theorem proj_enabled (c : Gp.Cfg) (s : Gp.State) (ls ls' : LState) (l : LLabel)
    (hp : Proj s ls) (hl : lstep ls l = some ls') (hg : Guard c s l) :
    ∃ s', Gp.step c s l.toL2 = some s' ∧ Proj s' ls' := by
  obtain ⟨h1, h2, h3, h4, h5, h6⟩ := hp
  cases l <;> simp only [lstep] at hl <;> (try split at hl) <;>
    first
    | (simp at hl; done)
    | (simp only [Option.some.injEq] at hl; subst hl
       simp only [Guard] at hg
       simp only [LLabel.toL2, Gp.step]
       split
       · refine ⟨_, rfl, ?_⟩
         simp only [Proj]
         refine ⟨by simp_all, by simp_all, ?_, ?_, ?_, ?_⟩ <;> intro k <;> (try simp only [upd]) <;>
            (try split) <;> (try simp_all [mem_rm]) <;> (try grind) <;>
            (try (simp only [upd]; split <;> simp_all))
       · rename_i hn; exfalso; apply hn; clear hn
         first
         | (rename_i hh; obtain ⟨k, hk⟩ := exists_mem_of_ne_nil _ hh.2
            exact ⟨by simp_all, hg.1, k, hg.2 k (by simp_all), by simp_all⟩)
         | (simp_all; done)
         | (simp_all; grind))

theorem proj_frame (c : Gp.Cfg) (s s' : Gp.State) (ls : LState) (l : Gp.Label)
    (hp : Proj s ls) (st : Gp.step c s l = some s') (ho : owned l = false) : Proj s' ls := by
  cases l <;> simp only [owned] at ho <;> (try (exact absurd ho (by decide))) <;>
    simp only [Gp.step] at st <;> (repeat' split at st) <;>
    first
    | (simp at st; done)
    | (simp only [Option.some.injEq] at st; subst st; exact hp)

theorem eq_nil_of_forall (l : List Nat) (f : Nat → Bool) (n : Nat) (h : ∀ j, f j = decide (j ∈ l))
    (hb : ∀ j, f j = true → j < n) (h0 : ∀ j, j < n → f j = false) : l = [] := by
  cases l with
  | nil => rfl
  | cons a t =>
    have h1 : f a = true := by rw [h a]; simp
    have := h0 a (hb a h1)
    simp_all

macro "proj_tac" : tactic =>
  `(tactic| (simp only [Proj]
             refine ⟨by simp_all, by simp_all, ?_, ?_, ?_, ?_⟩ <;> intro k <;> (try simp only [upd]) <;>
               (try split) <;> (try simp_all [mem_rm]) <;> (try grind) <;>
               (try (simp only [upd]; split <;> simp_all))))

/-- `hwf` (only reader ids `< c.n` are ever in a list) is an invariant of L2: `reg i` requires `i < c.n` -/
theorem proj_step (c : Gp.Cfg) (s s' : Gp.State) (ls : LState) (l : LLabel)
    (hp : Proj s ls) (st : Gp.step c s l.toL2 = some s') (ho : Obs s l)
    (hwf : ∀ j, (s.reg j = true ∨ s.inp j = true ∨ s.snap j = true) → j < c.n) :
    ∃ ls', lstep ls l = some ls' ∧ Proj s' ls' := by
  obtain ⟨h1, h2, h3, h4, h5, h6⟩ := hp
  cases l <;> simp only [LLabel.toL2, Gp.step] at st <;> (try split at st) <;>
    first
    | (simp at st; done)
    | (simp only [Option.some.injEq] at st; subst st
       simp only [Obs] at ho
       simp only [lstep])
  case envReg => exact ⟨_, rfl, by proj_tac⟩
  case envUnreg => exact ⟨_, rfl, by proj_tac⟩
  case uStart hh =>
    obtain ⟨hh1, hh2, i, hh3, hh4⟩ := hh
    rw [if_pos ⟨by simp_all, by intro hnil; simp_all⟩]
    exact ⟨_, rfl, by proj_tac⟩
  case uStartEmpty hh =>
    rw [if_pos ⟨by simp_all, eq_nil_of_forall _ _ c.n h3 (fun j hj => hwf j (by simp [hj])) hh.2.2⟩]
    exact ⟨_, rfl, by proj_tac⟩
  case uFlip hh =>
    rw [if_pos ⟨by simp_all, eq_nil_of_forall _ _ c.n h4 (fun j hj => hwf j (by simp [hj])) hh.2, by simp_all⟩]
    exact ⟨_, rfl, by proj_tac⟩
  case uP2Done hh =>
    rw [if_pos ⟨by simp_all, eq_nil_of_forall _ _ c.n h5 (fun j hj => hwf j (by simp [hj])) hh.2⟩]
    exact ⟨_, rfl, by proj_tac⟩
  all_goals
    (rw [if_pos (by first | (simp_all; done) | (simp_all; grind))]
     exact ⟨_, rfl, by proj_tac⟩)

end UrcuVerif.Src.Sync
