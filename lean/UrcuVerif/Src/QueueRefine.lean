import UrcuVerif.Src.IR
import UrcuVerif.Gen.Src
import UrcuVerif.Src.QueueLocal
/-!
# Generated source IR of the wfcqueue primitives ⊑ thread-local projection of `Wfcq/Model.lean`

Address convention (`Layout`): heap object `k` (`Val.ptr (.obj k)`) is the L2 address `addr k` – the two
`struct __cds_wfcq_head` objects map to the queue addresses `1`, `2`, `struct cds_wfcq_node`s to addresses `≥ 3`
(L2 identifies a queue with its head node; the translator does too: `&head->node` is `head`, first member);
the `struct cds_wfcq_tail` object `k` belongs to queue `tailOf k`.  NULL is `Val.int 0` ↦ address `0`.

Abstraction of events (`absEv`): `ld/st/xchg/cas` on `&obj->next` / `&tailobj->p` with pointer values ↦ the access
label with decoded addresses; every other `ld/st/xchg/cas/rmw` ↦ `other` (never accepted by `lstep`, so a run with
an unexpected shared access is *not* a refinement); `fence _` (the `cmm_smp_mb()` of `cmm_emit_legacy_smp_mb`: L2's
locked operations already act on memory with an empty store buffer – a fence is L2's environment label `fence t`,
not a local step; `caa_cpu_relax()`) and `ext _` (`CDS_WFCQ_WAIT_SLEEP` = `poll(NULL,0,10)`: no shared access) ↦ none.
-/
set_option linter.unusedSimpArgs false
set_option linter.unusedVariables false
namespace UrcuVerif.Src.Queue
open UrcuVerif.Src

/-! ## generic facts about `exec` -/

/-- "the run is ok and has these events / remaining oracle / control / private view" -/
def IsOut (r : Except String Out) (evs : List Event) (inp' : List Val) (ctl : Ctl) (priv' : Loc → Option Val) : Prop :=
  ∃ vars, r = .ok { events := evs, env := { vars := vars, priv := priv' }, inp := inp', ctl := ctl }

namespace WfcqR
open UrcuVerif.Wfcq WfcqL

structure Layout where
  addr : Nat → Option Nat
  tailOf : Nat → Option Nat
  addr_ne0 : ∀ k, addr k ≠ some 0
  addr_inj : ∀ k k' a, addr k = some a → addr k' = some a → k = k'

variable (L : Layout)

/-- pointer value ↦ L2 address -/
def dec : Val → Option Nat
  | .int n => if n = 0 then some 0 else none
  | .ptr (.obj k) => L.addr k
  | _ => none

/-- `&obj->next` ↦ the L2 address whose `next` word it is -/
def decNext : Loc → Option Nat
  | .field (.obj k) f => if f = "next" then L.addr k else none
  | _ => none

/-- `&tailobj->p` ↦ the queue whose `tail` word it is -/
def decTail : Loc → Option Nat
  | .field (.obj k) f => if f = "p" then L.tailOf k else none
  | _ => none

def absEv : Event → Option LLabel
  | .ld l v _ =>
    match decNext L l, decTail L l, dec L v with
    | some a, _, some x => some (.ldNext a x)
    | none, some q, some x => some (.ldTail q x)
    | _, _, _ => some .other
  | .st l v _ =>
    match decNext L l, dec L v with
    | some a, some x => some (.stNext a x)
    | _, _ => some .other
  | .xchg l new old _ =>
    match decNext L l, decTail L l, dec L new, dec L old with
    | some a, _, some n, some o => some (.xchgNext a n o)
    | none, some q, some n, some o => some (.xchgTail q n o)
    | _, _, _, _ => some .other
  | .cas l e n old _ _ =>
    match decTail L l, dec L e, dec L n, dec L old with
    | some q, some e, some n, some o => some (.casTail q e n o)
    | _, _, _, _ => some .other
  | .rmw .. => some .other
  | .fence _ => none
  | .ext .. => none

/-- the value is a non-NULL pointer to an object of the layout -/
def IsObj (v : Val) : Prop := ∃ k a, v = .ptr (.obj k) ∧ L.addr k = some a

theorem dec_inj {v w : Val} {a : Nat} (hv : dec L v = some a) (hw : dec L w = some a) : v = w := by
  unfold dec at hv hw
  split at hv <;> split at hw <;> simp_all
  · exact L.addr_ne0 _ (hv.2 ▸ hw)
  · exact L.addr_ne0 _ (hw.2 ▸ hv)
  · exact L.addr_inj _ _ a hv hw

/-! ## `___cds_wfcq_append` -/

theorem append_exec {fuel : Nat} {env : Env} {inp : List Val} {r : Except String Out}
    (hE : exec fuel Gen.Src.«___cds_wfcq_append» env inp = r) (hk tk : Nat) (nh nt : Val)
    (h1 : env.vars "u_head" = some (.ptr (.obj hk))) (h2 : env.vars "tail" = some (.ptr (.obj tk)))
    (h3 : env.vars "new_head" = some nh) (h4 : env.vars "new_tail" = some nt) :
    (inp = [] ∧ IsOut r [] [] .blocked env.priv) ∨
    (∃ v rest, inp = v :: rest ∧ ∀ l, v = .ptr l →
      IsOut r [.xchg (.field (.obj tk) "p") nt v 5, .st (.field l "next") nh 3] rest
        (.ret (some (boolV (v ≠ .ptr (.obj hk))))) (fun m => if m = .field l "next" then some nh else env.priv m)) := by
  subst hE
  cases inp with
  | nil =>
    left
    simp [IsOut, Gen.Src.«___cds_wfcq_append», block, exec, eval, evalArgs, execPrim,
      Env.setVar, asLoc, bind, Except.bind, h1, h2, h4]
  | cons v rest =>
    right
    refine ⟨v, rest, rfl, ?_⟩
    rintro l rfl
    simp [IsOut, Gen.Src.«___cds_wfcq_append», block, exec, eval, evalArgs, execPrim,
      Env.setVar, Env.setPriv, setDst, asLoc, bind, Except.bind, evalBin, h1, h2, h3, h4]

/-! ## `_cds_wfcq_enqueue` -/

theorem enqueue_refines_env (fuel : Nat) (env : Env) (hk tk nk q n : Nat) (mbv : Int) (inp : List Val)
    (h1 : env.vars "head" = some (.ptr (.obj hk))) (h2 : env.vars "tail" = some (.ptr (.obj tk)))
    (h3 : env.vars "new_tail" = some (.ptr (.obj nk)))
    (hq : L.addr hk = some q) (hisq : isQ q) (ht : L.tailOf tk = some q) (hn : L.addr nk = some n) (hn3 : 3 ≤ n)
    (hcfg : env.priv (.glob "CONFIG_RCU_EMIT_LEGACY_MB") = some (.int mbv))
    (hwt : ∀ v ∈ inp, IsObj L v) :
    ∃ out, exec fuel Gen.Src.«_cds_wfcq_enqueue» env inp = .ok out ∧
      ∃ p', lrun .idle (out.events.filterMap (absEv L)) = some p' ∧
        ((out.ctl = .blocked ∧ p' = .idle) ∨ (∃ b, out.ctl = .ret (some (boolV b)) ∧ p' = .done (.bool b))) := by
  by_cases hmb : mbv = 0 <;>
  · simp only [Gen.Src.«_cds_wfcq_enqueue», block, exec, eval, evalArgs, asLoc, bind, Except.bind, hcfg, h1, h2, h3,
      execPrim, Val.truthy, hmb, bne_self_eq_false, Bool.false_eq_true, if_false, List.length_cons, List.length_nil,
      ne_eq, not_true_eq_false, bne_iff_ne, not_false_eq_true, if_true, decide_true, decide_false]
    generalize hE : exec fuel Gen.Src.«___cds_wfcq_append» _ _ = r
    rcases append_exec hE hk tk (.ptr (.obj nk)) (.ptr (.obj nk)) (by simp [bindParams]) (by simp [bindParams]) (by simp [bindParams])
      (by simp [bindParams]) with ⟨rfl, vars, h⟩ | ⟨v, rest, rfl, h⟩
    · subst h
      simp [lrun, absEv, List.filterMap_cons]
    · obtain ⟨k, a, rfl, hk'⟩ := hwt v (by simp)
      obtain ⟨vars, h⟩ := h _ rfl
      clear hE; subst h
      have hb : decide (k = hk) = decide (a = q) := by
        by_cases e : k = hk
        · subst e; simp_all
        · have : a ≠ q := fun e' => e (L.addr_inj _ _ _ hk' (e' ▸ hq))
          simp [e, this]
      simp [setDst, Env.setVar, absEv, decNext, decTail, dec, ht, hn, hk', lrun, lstep, hisq, hn3, boolV, hb,
        List.filterMap_cons]
      exact Decidable.em _

/-! ## `_cds_wfcq_empty` -/

/-- NULL or a pointer to an object of the layout -/
def Typed (v : Val) : Prop := ∃ x, dec L v = some x

theorem IsObj.typed {v : Val} (h : IsObj L v) : Typed L v := by
  obtain ⟨k, a, rfl, h⟩ := h; exact ⟨a, by simp [dec, h]⟩

theorem dec_eq_zero {v : Val} (h : dec L v = some 0) : v = .int 0 := dec_inj L h (by simp [dec])

/-- events / rest of the oracle / control of `_cds_wfcq_empty(head = obj hk, tail = obj tk)` as a function of the oracle -/
def emptySpec (hk tk : Nat) : List Val → List Event × List Val × Ctl
  | [] => ([], [], .blocked)
  | v1 :: rest =>
    if v1 = .int 0 then
      match rest with
      | [] => ([.ld (.field (.obj hk) "next") v1 1], [], .blocked)
      | v2 :: rest' =>
        ([.ld (.field (.obj hk) "next") v1 1, .ld (.field (.obj tk) "p") v2 1], rest',
          .ret (some (.int (if v2 = .ptr (.obj hk) then 1 else 0))))
    else ([.ld (.field (.obj hk) "next") v1 1], rest, .ret (some (.int 0)))

theorem empty_exec {fuel : Nat} {env : Env} {inp : List Val} {r : Except String Out}
    (hE : exec fuel Gen.Src.«_cds_wfcq_empty» env inp = r) (hk tk : Nat)
    (h1 : env.vars "u_head" = some (.ptr (.obj hk))) (h2 : env.vars "tail" = some (.ptr (.obj tk))) :
    IsOut r (emptySpec hk tk inp).1 (emptySpec hk tk inp).2.1 (emptySpec hk tk inp).2.2 env.priv := by
  subst hE
  rcases inp with _ | ⟨v1, _ | ⟨v2, rest⟩⟩ <;> (try by_cases e1 : v1 = .int 0) <;> (try by_cases e2 : v2 = .ptr (.obj hk)) <;>
    simp [IsOut, emptySpec, Gen.Src.«_cds_wfcq_empty», block, exec, eval, evalArgs, execPrim, Env.setVar, Env.setPriv,
      setDst, asLoc, bind, Except.bind, evalBin, evalUn, Val.truthy, boolV, h1, h2, *]

/-- the events of `_cds_wfcq_empty` are L2's `ld1` (+ `ld2`) of the operation `k` that runs it -/
theorem empty_lrun (hk tk q : Nat) (k : K) (inp : List Val) (hq : L.addr hk = some q) (ht : L.tailOf tk = some q)
    (hwt : ∀ v ∈ inp, Typed L v) :
    ∃ p', lrun (.e1 k q) ((emptySpec hk tk inp).1.filterMap (absEv L)) = some p' ∧
      match (emptySpec hk tk inp).2.2 with
      | .blocked => p' = .e1 k q ∨ p' = .e2 k q
      | .ret (some v) => (v = .int 1 ∧ p' = .done (emptyRes k)) ∨ (v = .int 0 ∧ p' = nonEmptyPc k q)
      | _ => False := by
  rcases inp with _ | ⟨v1, _ | ⟨v2, rest⟩⟩
  · simp [emptySpec, lrun]
  · by_cases e1 : v1 = .int 0
    · simp [emptySpec, lrun, lstep, e1, absEv, decNext, decTail, dec, hq, List.filterMap_cons]
    · obtain ⟨x, hx⟩ := hwt v1 (by simp)
      have : x ≠ 0 := fun e => e1 (dec_eq_zero L (e ▸ hx))
      simp [emptySpec, lrun, lstep, e1, absEv, decNext, decTail, hx, hq, List.filterMap_cons, this]
  · by_cases e1 : v1 = .int 0
    · obtain ⟨y, hy⟩ := hwt v2 (by simp)
      have hdq : dec L (.ptr (.obj hk)) = some q := by simp [dec, hq]
      by_cases e2 : v2 = .ptr (.obj hk)
      · subst e2; cases hy.symm.trans hdq
        simp [emptySpec, lrun, lstep, e1, absEv, decNext, decTail, dec, hq, ht, List.filterMap_cons]
      · have : y ≠ q := fun e => e2 (dec_inj L (e ▸ hy) hdq)
        simp [emptySpec, lrun, lstep, e1, e2, absEv, decNext, decTail, hq, ht, hy, List.filterMap_cons, this]
        simp [dec, lrun, lstep, this]
    · obtain ⟨x, hx⟩ := hwt v1 (by simp)
      have : x ≠ 0 := fun e => e1 (dec_eq_zero L (e ▸ hx))
      simp [emptySpec, lrun, lstep, e1, absEv, decNext, decTail, hx, hq, List.filterMap_cons, this]

/-! ## `___cds_wfcq_busy_wait` -/

theorem busy_exec {fuel : Nat} {env : Env} {inp : List Val} {r : Except String Out}
    (hE : exec fuel Gen.Src.«___cds_wfcq_busy_wait» env inp = r) (al : Loc) (b c : Int)
    (h1 : env.vars "attempt" = some (.ptr al)) (h2 : env.vars "blocking" = some (.int b))
    (hp : env.priv al = some (.int c)) :
    (b = 0 ∧ IsOut r [] inp (.ret (some (.int 1))) env.priv) ∨
    (b ≠ 0 ∧ ∃ evs inp' ctl c', IsOut r evs inp' ctl (fun m => if m = al then some (.int c') else env.priv m) ∧
      evs.filterMap (absEv L) = [] ∧ (∀ v ∈ inp', v ∈ inp) ∧ (ctl = .blocked ∨ ctl = .ret (some (.int 0)))) := by
  subst hE
  by_cases hb : b = 0
  · left
    simp [IsOut, Gen.Src.«___cds_wfcq_busy_wait», block, exec, eval, evalArgs, execPrim, Env.setVar, Env.setPriv,
      setDst, asLoc, bind, Except.bind, evalBin, evalUn, Val.truthy, boolV, h1, h2, hp, hb]
    exact ⟨env.vars, rfl⟩
  · right
    refine ⟨hb, ?_⟩
    by_cases hc : c + 1 ≥ 10
    · cases inp with
      | nil =>
        refine ⟨[], [], .blocked, c + 1, ?_, rfl, by simp, Or.inl rfl⟩
        simp [IsOut, Gen.Src.«___cds_wfcq_busy_wait», block, exec, eval, evalArgs, execPrim, Env.setVar, Env.setPriv,
          setDst, asLoc, bind, Except.bind, evalBin, evalUn, Val.truthy, boolV, h1, h2, hp, hb, hc]
      | cons v rest =>
        refine ⟨[.ext "CDS_WFCQ_WAIT_SLEEP" [.int 10] v], rest, .ret (some (.int 0)), 0, ?_, by simp [absEv, List.filterMap_cons],
          by simp +contextual, Or.inr rfl⟩
        simp [IsOut, Gen.Src.«___cds_wfcq_busy_wait», block, exec, eval, evalArgs, execPrim, Env.setVar, Env.setPriv,
          setDst, asLoc, bind, Except.bind, evalBin, evalUn, Val.truthy, boolV, h1, h2, hp, hb, hc]
        funext m; by_cases e : m = al <;> simp [e]
    · refine ⟨[.fence .relax], inp, .ret (some (.int 0)), c + 1, ?_, by simp [absEv, List.filterMap_cons], by simp, Or.inr rfl⟩
      simp [IsOut, Gen.Src.«___cds_wfcq_busy_wait», block, exec, eval, evalArgs, execPrim, Env.setVar, Env.setPriv,
        setDst, asLoc, bind, Except.bind, evalBin, evalUn, Val.truthy, boolV, h1, h2, hp, hb, hc]

/-! ## `___cds_wfcq_node_sync_next` -/

/-- the body of the busy-wait loop of the generated `___cds_wfcq_node_sync_next` (extracted, not copied) -/
def syncBody : Stmt :=
  match Gen.Src.«___cds_wfcq_node_sync_next» with
  | .seq _ (.seq _ (.seq (.loop b) _)) => b
  | _ => .skip

/-- "the labels of `evs` take `.sync k q a` to `f k q a`", for every operation `k` (of the right blocking mode) -/
def SyncRun (nk : Nat) (b : Int) (evs : List Event) (f : K → Nat → Nat → Pc) : Prop :=
  ∀ k q a, L.addr nk = some a → k.blocking = decide (b ≠ 0) →
    lrun (.sync k q a) (evs.filterMap (absEv L)) = some (f k q a)

/-- result of the loop: what the caller of `sync_next` needs (no typing assumption on the oracle: the code never
dereferences what it loads; the decoding `x` of the value found is universally quantified) -/
def SyncPost (nk : Nat) (b : Int) (env : Env) (inp : List Val) (out : Out) (evs : List Event) : Prop :=
  (∀ v ∈ out.inp, v ∈ inp) ∧ (∀ m, m ≠ .glob "&attempt" → out.env.priv m = env.priv m) ∧
  (∃ c', out.env.priv (.glob "&attempt") = some (.int c')) ∧
  (((out.ctl = .blocked ∨ out.ctl = .fuel) ∧ SyncRun L nk b evs fun k q a => .sync k q a) ∨
   (out.ctl = .ret (some (.int (-1))) ∧ b = 0 ∧ SyncRun L nk b evs syncWbPc) ∨
   (∃ v, out.ctl = .normal ∧ out.env.vars "next" = some v ∧ v ≠ .int 0 ∧ v ∈ inp ∧
      .ld (.field (.obj nk) "next") v 1 ∈ evs ∧
      ∀ x, dec L v = some x → SyncRun L nk b evs fun k q a => syncGotPc k q a x))

/-- one iteration of the loop body -/
theorem syncBody_exec (fuel nk : Nat) (b c : Int) (env : Env) (inp : List Val)
    (h1 : env.vars "node" = some (.ptr (.obj nk))) (h2 : env.vars "blocking" = some (.int b))
    (hp : env.priv (.glob "&attempt") = some (.int c)) :
    ∃ o, exec fuel syncBody env inp = .ok o ∧ (∀ m, m ≠ .glob "&attempt" → o.env.priv m = env.priv m) ∧
      (∃ c', o.env.priv (.glob "&attempt") = some (.int c')) ∧ (∀ v ∈ o.inp, v ∈ inp) ∧
      ((inp = [] ∧ o.events = [] ∧ o.ctl = .blocked) ∨
       (∃ v, inp.head? = some v ∧ v ≠ .int 0 ∧ o.events = [.ld (.field (.obj nk) "next") v 1] ∧ o.ctl = .brk ∧
          o.env.vars "next" = some v) ∨
       (∃ evs, inp.head? = some (.int 0) ∧ o.events = .ld (.field (.obj nk) "next") (.int 0) 1 :: evs ∧
          evs.filterMap (absEv L) = [] ∧
          ((b = 0 ∧ o.ctl = .ret (some (.int (-1)))) ∨
           (b ≠ 0 ∧ (o.ctl = .blocked ∨ (o.ctl = .normal ∧ o.env.vars "node" = some (.ptr (.obj nk)) ∧
              o.env.vars "blocking" = some (.int b))))))) := by
  cases inp with
  | nil =>
    refine ⟨{ events := [], env := env, inp := [], ctl := .blocked }, ?_, fun _ _ => rfl, ⟨c, hp⟩, by simp,
      Or.inl ⟨rfl, rfl, rfl⟩⟩
    simp [syncBody, Gen.Src.«___cds_wfcq_node_sync_next», block, exec, eval, evalArgs, execPrim, asLoc, bind,
      Except.bind, h1]
  | cons v rest =>
    by_cases hv : v = .int 0
    · subst hv
      simp only [syncBody, Gen.Src.«___cds_wfcq_node_sync_next», block, exec, eval, evalArgs, execPrim, asLoc, bind,
        Except.bind, h1, h2, Env.setVar, setDst, evalBin, boolV, Val.truthy, List.length_cons, List.length_nil]
      simp only [String.reduceEq, if_true, if_false, decide_true, bne_iff_ne, ne_eq, Int.reduceEq, not_false_eq_true,
        not_true_eq_false, Int.one_ne_zero, h1, h2]
      generalize hE : exec fuel Gen.Src.«___cds_wfcq_busy_wait» _ _ = r
      rcases busy_exec L hE (.glob "&attempt") b c (by simp [bindParams]) (by simp [bindParams]) hp with
        ⟨hb, vars, rfl⟩ | ⟨hb, evs, inp', ctl, c', ⟨vars, rfl⟩, hf, hsub, hctl⟩
      · simp [hb, h1, h2, hp]
        exact fun v hv => Or.inr hv
      · rcases hctl with rfl | rfl
        · simp [hb, h1, h2, hp]
          exact ⟨fun m h h' => absurd h' h, fun v hv => Or.inr (hsub v hv), by simpa using hf⟩
        · simp [hb, h1, h2, hp]
          exact ⟨fun m h h' => absurd h' h, fun v hv => Or.inr (hsub v hv), by simpa using hf⟩
    · refine ⟨⟨[.ld (.field (.obj nk) "next") v 1], (env.setVar "_t2" v).setVar "next" v, rest, .brk⟩,
          ?_, fun _ _ => rfl, ⟨c, hp⟩,
          by simp +contextual, Or.inr (Or.inl ⟨v, rfl, hv, rfl, rfl, by simp [Env.setVar]⟩)⟩
      simp [syncBody, Gen.Src.«___cds_wfcq_node_sync_next», block, exec, eval, evalArgs, execPrim, asLoc, bind,
        Except.bind, h1, Env.setVar, setDst, evalBin, boolV, Val.truthy, hv]

theorem sync_loop (fuel nk : Nat) (b : Int) (n : Nat) :
    ∀ (env : Env) (inp : List Val) (acc : List Event) (c : Int),
      env.vars "node" = some (.ptr (.obj nk)) → env.vars "blocking" = some (.int b) →
      env.priv (.glob "&attempt") = some (.int c) →
      ∃ out evs, iterate (fun e i => exec fuel syncBody e i) n env inp acc = .ok out ∧ out.events = acc ++ evs ∧
        SyncPost L nk b env inp out evs := by
  induction n with
  | zero =>
    intro env inp acc c h1 h2 hp
    exact ⟨_, [], rfl, by simp, fun _ h => h, fun _ _ => rfl, ⟨c, hp⟩, Or.inl ⟨Or.inr rfl, fun k q a ha hk => rfl⟩⟩
  | succ n ih =>
    intro env inp acc c h1 h2 hp
    obtain ⟨o, ho, hpriv, ⟨c', hc'⟩, hsub, hcase⟩ := syncBody_exec L fuel nk b c env inp h1 h2 hp
    simp only [iterate, ho, bind, Except.bind]
    rcases hcase with ⟨rfl, hev, hctl⟩ | ⟨v, hhd, hv, hev, hctl, hnext⟩ | ⟨evs, hhd, hev, hf, hb⟩
    · simp only [hctl]
      exact ⟨_, [], rfl, by simp [hev], hsub, hpriv, ⟨c', hc'⟩, Or.inl ⟨Or.inl rfl, fun k q a ha hk => rfl⟩⟩
    · simp only [hctl]
      have hmem : v ∈ inp := by cases inp <;> simp_all
      refine ⟨_, o.events, rfl, rfl, hsub, hpriv, ⟨c', hc'⟩,
        Or.inr (Or.inr ⟨v, rfl, hnext, hv, hmem, by simp [hev], ?_⟩)⟩
      intro x hx k q a ha hk
      have hx0 : x ≠ 0 := fun e => hv (dec_eq_zero L (e ▸ hx))
      simp [hev, absEv, decNext, decTail, hx, ha, List.filterMap_cons, lrun, lstep, hx0]
    · have hstay : ∀ a : Nat, L.addr nk = some a → ∀ rest : List Event,
          (.ld (.field (.obj nk) "next") (.int 0) 1 :: (evs ++ rest)).filterMap (absEv L) =
            .ldNext a 0 :: rest.filterMap (absEv L) := by
        intro a ha rest
        simp [absEv, decNext, decTail, dec, ha, List.filterMap_cons, List.filterMap_append, hf]
      rcases hb with ⟨hb0, hctl⟩ | ⟨hb0, hctl | ⟨hctl, h1', h2'⟩⟩
      · simp only [hctl]
        refine ⟨_, o.events, rfl, rfl, hsub, hpriv, ⟨c', hc'⟩, Or.inr (Or.inl ⟨rfl, hb0, ?_⟩)⟩
        intro k q a ha hk
        have := hstay a ha []
        simp only [List.append_nil] at this
        simp [hev, this, lrun, lstep, hk, hb0]
      · simp only [hctl]
        refine ⟨_, o.events, rfl, rfl, hsub, hpriv, ⟨c', hc'⟩, Or.inl ⟨Or.inl rfl, ?_⟩⟩
        intro k q a ha hk
        have := hstay a ha []
        simp only [List.append_nil] at this
        simp [hev, this, lrun, lstep, hk, hb0]
      · simp only [hctl]
        obtain ⟨out, evs', hit, hevs, hsub2, hpriv2, hc2, hpost⟩ := ih o.env o.inp (acc ++ o.events) c' h1' h2' hc'
        have hpre : ∀ f, SyncRun L nk b evs' f → SyncRun L nk b (o.events ++ evs') f := by
          intro f hf' k q a ha hk
          rw [hev, List.cons_append, hstay a ha evs']
          simp [lrun, lstep, hk, hb0, hf' k q a ha hk]
        refine ⟨out, o.events ++ evs', hit, by simp [hevs], fun v hv => hsub v (hsub2 v hv), ?_, hc2, ?_⟩
        · intro m hm; rw [hpriv2 m hm, hpriv m hm]
        · rcases hpost with ⟨hc, hr⟩ | ⟨hc, hb', hr⟩ | ⟨v, hc, hn, hv0, hmem, hld, hr⟩
          · exact Or.inl ⟨hc, hpre _ hr⟩
          · exact Or.inr (Or.inl ⟨hc, hb', hpre _ hr⟩)
          · exact Or.inr (Or.inr ⟨v, hc, hn, hv0, hsub v hmem, by simp [hld], fun x hx => hpre _ (hr x hx)⟩)

/-- what a caller of `___cds_wfcq_node_sync_next(node = obj nk, blocking = b)` gets -/
def SyncRes (nk : Nat) (b : Int) (env : Env) (inp : List Val) (out : Out) : Prop :=
  (∀ v ∈ out.inp, v ∈ inp) ∧ (∀ m, m ≠ .glob "&attempt" → out.env.priv m = env.priv m) ∧
  (((out.ctl = .blocked ∨ out.ctl = .fuel) ∧ SyncRun L nk b out.events fun k q a => .sync k q a) ∨
   (out.ctl = .ret (some (.int (-1))) ∧ b = 0 ∧ SyncRun L nk b out.events syncWbPc) ∨
   (∃ v, out.ctl = .ret (some v) ∧ v ≠ .int 0 ∧ v ∈ inp ∧ .ld (.field (.obj nk) "next") v 1 ∈ out.events ∧
      ∀ x, dec L v = some x → SyncRun L nk b out.events fun k q a => syncGotPc k q a x))

theorem sync_next_run {fuel : Nat} {env : Env} {inp : List Val} {r : Except String Out}
    (hE : exec fuel Gen.Src.«___cds_wfcq_node_sync_next» env inp = r) (nk : Nat) (b : Int)
    (h1 : env.vars "node" = some (.ptr (.obj nk))) (h2 : env.vars "blocking" = some (.int b)) :
    ∃ out, r = .ok out ∧ SyncRes L nk b env inp out := by
  subst hE
  rw [show Gen.Src.«___cds_wfcq_node_sync_next» = Stmt.seq _ (.seq _ (.seq (.loop syncBody) _)) from rfl]
  simp only [exec, eval, asLoc, bind, Except.bind, Env.setVar, Env.setPriv, if_true, block]
  obtain ⟨out, evs, hit, hevs, hwt2, hpriv2, hc2, hpost⟩ := sync_loop L fuel nk b fuel
    { vars := fun y => if y = "_t1" then some (Val.int 0) else env.vars y,
      priv := fun m => if m = Loc.glob "&attempt" then some (.int 0) else env.priv m } inp [] 0
    (by simp [h1]) (by simp [h2]) (by simp)
  simp only [hit]
  have hpriv : ∀ m, m ≠ .glob "&attempt" → out.env.priv m = env.priv m := by
    intro m hm; rw [hpriv2 m hm]; simp [hm]
  simp only [List.nil_append] at hevs
  rcases hpost with ⟨hc, hr⟩ | ⟨hc, hb', hr⟩ | ⟨v, hc, hn, hv0, hmem, hld, hr⟩
  · rcases hc with hc | hc <;> simp only [hc] <;>
      exact ⟨_, rfl, hwt2, hpriv, Or.inl ⟨by simp [hc], by simpa [hevs] using hr⟩⟩
  · simp only [hc]
    exact ⟨_, rfl, hwt2, hpriv, Or.inr (Or.inl ⟨rfl, hb', by simpa [hevs] using hr⟩)⟩
  · simp only [hc, hn]
    exact ⟨_, rfl, hwt2, hpriv, Or.inr (Or.inr ⟨v, rfl, hv0, hmem, by simpa [hevs] using hld,
      fun x hx => by simpa [hevs] using hr x hx⟩)⟩

/-! ## statements in refinement form for the functions used on their own -/

/-- `___cds_wfcq_append` from any pc `p` whose `xchgTail q nt _` step leads to `.enq q _ nh spl`
(L2: `idle` with `enqXchg`, `s6` of a splice) -/
theorem append_refines_env (fuel : Nat) (env : Env) (hk tk q nhA ntA : Nat) (nh nt : Val) (inp : List Val) (p : Pc)
    (spl : Bool) (h1 : env.vars "u_head" = some (.ptr (.obj hk))) (h2 : env.vars "tail" = some (.ptr (.obj tk)))
    (h3 : env.vars "new_head" = some nh) (h4 : env.vars "new_tail" = some nt)
    (hq : L.addr hk = some q) (ht : L.tailOf tk = some q) (hnh : dec L nh = some nhA) (hnt : dec L nt = some ntA)
    (hstep : ∀ old, lstep p (.xchgTail q ntA old) = some (.enq q old nhA spl))
    (hwt : ∀ v ∈ inp, IsObj L v) :
    ∃ out, exec fuel Gen.Src.«___cds_wfcq_append» env inp = .ok out ∧
      ∃ p', lrun p (out.events.filterMap (absEv L)) = some p' ∧
        ((out.ctl = .blocked ∧ p' = p) ∨
         (∃ b, out.ctl = .ret (some (boolV b)) ∧ p' = .done (if spl then .dest b else .bool b))) := by
  rcases append_exec (fuel := fuel) (inp := inp) rfl hk tk nh nt h1 h2 h3 h4 with ⟨rfl, vars, h⟩ | ⟨v, rest, rfl, h⟩
  · exact ⟨_, h, p, by simp [lrun], Or.inl ⟨rfl, rfl⟩⟩
  · obtain ⟨k, a, rfl, hk'⟩ := hwt v (by simp)
    obtain ⟨vars, h⟩ := h _ rfl
    refine ⟨_, h, ?_⟩
    have hb : decide (k = hk) = decide (a = q) := by
      by_cases e : k = hk
      · subst e; simp_all
      · have : a ≠ q := fun e' => e (L.addr_inj _ _ _ hk' (e' ▸ hq))
        simp [e, this]
    have hdk : dec L (.ptr (.obj k)) = some a := by simp [dec, hk']
    refine ⟨_, ?_, Or.inr ⟨decide (a ≠ q), ?_, rfl⟩⟩
    · have hev : List.filterMap (absEv L) [Event.xchg ((Loc.obj tk).field "p") nt (Val.ptr (Loc.obj k)) 5,
          Event.st ((Loc.obj k).field "next") nh 3] = [.xchgTail q ntA a, .stNext a nhA] := by
        simp [absEv, decNext, decTail, ht, hk', hnh, hnt, hdk, List.filterMap_cons]
      simp only [hev, lrun, hstep]
      cases spl <;> simp [lstep]
    · simp [boolV, hb]

theorem empty_refines_env (fuel : Nat) (env : Env) (hk tk q : Nat) (k : K) (inp : List Val)
    (h1 : env.vars "u_head" = some (.ptr (.obj hk))) (h2 : env.vars "tail" = some (.ptr (.obj tk)))
    (hq : L.addr hk = some q) (ht : L.tailOf tk = some q) (hwt : ∀ v ∈ inp, Typed L v) :
    ∃ out, exec fuel Gen.Src.«_cds_wfcq_empty» env inp = .ok out ∧
      ∃ p', lrun (.e1 k q) (out.events.filterMap (absEv L)) = some p' ∧
        ((out.ctl = .blocked ∧ (p' = .e1 k q ∨ p' = .e2 k q)) ∨
         (out.ctl = .ret (some (.int 1)) ∧ p' = .done (emptyRes k)) ∨
         (out.ctl = .ret (some (.int 0)) ∧ p' = nonEmptyPc k q)) := by
  obtain ⟨vars, h⟩ := empty_exec (fuel := fuel) (inp := inp) rfl hk tk h1 h2
  obtain ⟨p', hrun, hp'⟩ := empty_lrun L hk tk q k inp hq ht hwt
  refine ⟨_, h, p', hrun, ?_⟩
  simp only
  generalize (emptySpec hk tk inp).2.2 = c at hp'
  cases c <;> simp at hp' ⊢
  · rename_i v; cases v <;> simp at hp' ⊢
    rcases hp' with ⟨rfl, h⟩ | ⟨rfl, h⟩ <;> simp [h]
  · exact hp'

/-- event-typed form: `sync_next` never fails; if every value it *loaded* is NULL or an object pointer, its labels are
L2's.  (No assumption on the oracle value consumed by the void `CDS_WFCQ_WAIT_SLEEP`.) -/
theorem sync_next_refines_env' (fuel : Nat) (env : Env) (nk a q : Nat) (k : K) (b : Int) (inp : List Val)
    (h1 : env.vars "node" = some (.ptr (.obj nk))) (h2 : env.vars "blocking" = some (.int b))
    (ha : L.addr nk = some a) (hk : k.blocking = decide (b ≠ 0)) :
    ∃ out, exec fuel Gen.Src.«___cds_wfcq_node_sync_next» env inp = .ok out ∧
      ((∀ l v mo, Event.ld l v mo ∈ out.events → Typed L v) →
        ∃ p', lrun (.sync k q a) (out.events.filterMap (absEv L)) = some p' ∧
          (((out.ctl = .blocked ∨ out.ctl = .fuel) ∧ p' = .sync k q a) ∨
           (out.ctl = .ret (some (.int (-1))) ∧ b = 0 ∧ p' = syncWbPc k q a) ∨
           (∃ v x, out.ctl = .ret (some v) ∧ dec L v = some x ∧ x ≠ 0 ∧ p' = syncGotPc k q a x))) := by
  obtain ⟨out, h, -, -, hres⟩ := sync_next_run L (fuel := fuel) (inp := inp) rfl nk b h1 h2
  refine ⟨out, h, fun hty => ?_⟩
  rcases hres with ⟨hc, hr⟩ | ⟨hc, hb, hr⟩ | ⟨v, hc, hv0, -, hld, hr⟩
  · exact ⟨_, hr k q a ha hk, Or.inl ⟨hc, rfl⟩⟩
  · exact ⟨_, hr k q a ha hk, Or.inr (Or.inl ⟨hc, hb, rfl⟩)⟩
  · obtain ⟨x, hx⟩ := hty _ _ _ hld
    have hx0 : x ≠ 0 := fun e => hv0 (dec_eq_zero L (e ▸ hx))
    exact ⟨_, hr x hx k q a ha hk, Or.inr (Or.inr ⟨v, x, hc, hx, hx0, rfl⟩)⟩

theorem sync_next_refines_env (fuel : Nat) (env : Env) (nk a q : Nat) (k : K) (b : Int) (inp : List Val)
    (h1 : env.vars "node" = some (.ptr (.obj nk))) (h2 : env.vars "blocking" = some (.int b))
    (ha : L.addr nk = some a) (hk : k.blocking = decide (b ≠ 0)) (hwt : ∀ v ∈ inp, Typed L v) :
    ∃ out, exec fuel Gen.Src.«___cds_wfcq_node_sync_next» env inp = .ok out ∧
      ∃ p', lrun (.sync k q a) (out.events.filterMap (absEv L)) = some p' ∧
        (((out.ctl = .blocked ∨ out.ctl = .fuel) ∧ p' = .sync k q a) ∨
         (out.ctl = .ret (some (.int (-1))) ∧ b = 0 ∧ p' = syncWbPc k q a) ∨
         (∃ v x, out.ctl = .ret (some v) ∧ dec L v = some x ∧ x ≠ 0 ∧ p' = syncGotPc k q a x)) := by
  obtain ⟨out, h, -, -, hres⟩ := sync_next_run L (fuel := fuel) (inp := inp) rfl nk b h1 h2
  refine ⟨out, h, ?_⟩
  rcases hres with ⟨hc, hr⟩ | ⟨hc, hb, hr⟩ | ⟨v, hc, hv0, hmem, -, hr⟩
  · exact ⟨_, hr k q a ha hk, Or.inl ⟨hc, rfl⟩⟩
  · exact ⟨_, hr k q a ha hk, Or.inr (Or.inl ⟨hc, hb, rfl⟩)⟩
  · obtain ⟨x, hx⟩ := hwt v hmem
    have hx0 : x ≠ 0 := fun e => hv0 (dec_eq_zero L (e ▸ hx))
    exact ⟨_, hr x hx k q a ha hk, Or.inr (Or.inr ⟨v, x, hc, hx, hx0, rfl⟩)⟩

/-- `_cds_wfcq_node_init_atomic(&head->node)` inside a dequeue: L2's `d3` (store `head.next := NULL`) -/
theorem node_init_atomic_refines_env (fuel : Nat) (env : Env) (hk q nd : Nat) (b : Bool) (inp : List Val)
    (h1 : env.vars "node" = some (.ptr (.obj hk))) (hq : L.addr hk = some q) :
    ∃ out, exec fuel Gen.Src.«_cds_wfcq_node_init_atomic» env inp = .ok out ∧
      out.events = [.st (.field (.obj hk) "next") (.int 0) 0] ∧ out.ctl = .normal ∧ out.inp = inp ∧
      lrun (.d3 q nd b) (out.events.filterMap (absEv L)) = some (.d4 q nd b) := by
  simp [Gen.Src.«_cds_wfcq_node_init_atomic», exec, eval, evalArgs, execPrim, asLoc, bind, Except.bind, h1,
    absEv, decNext, dec, hq, List.filterMap_cons, lrun, lstep]

end WfcqR

/-! # rculfqueue: `_cds_lfq_enqueue_rcu` ⊑ thread-local projection of `Lfq/Model.lean`

Layout: the queue is the location `L.q` (`q->head`, `q->tail` its fields); a node pointer `Val.ptr l` is the L2 node
`addr l` (`l` = `Loc.obj k` for a user node, `&dummy->parent` for a dummy); NULL = `Val.int 0` ↦ `0`.
`absEv`: load of `q->tail` ↦ `ldTail`, cmpxchg on `l->next` ↦ `casNext`, cmpxchg on `q->tail` ↦ `casTail`,
load of `q->head` ↦ `ldHead`; the `cmm_smp_mb()` of `cmm_emit_legacy_smp_mb` (no L2 label: every L2 step is an SC
access, `Lfq/Model.lean` header) ↦ none; everything else ↦ `other` (never accepted). -/
namespace LfqR
open UrcuVerif.Lfq LfqL

structure Layout where
  q : Loc
  addr : Loc → Option Nat
  addr_ne0 : ∀ l, addr l ≠ some 0
  addr_inj : ∀ l l' a, addr l = some a → addr l' = some a → l = l'

variable (L : Layout)

def dec : Val → Option Nat
  | .int n => if n = 0 then some 0 else none
  | .ptr l => L.addr l

def absEv : Event → Option LLabel
  | .ld l v _ =>
    if l = .field L.q "tail" then
      match dec L v with
      | some x => some (.ldTail x)
      | none => some .other
    else if l = .field L.q "head" then
      match dec L v with
      | some x => some (.ldHead x)
      | none => some .other
    else some .other
  | .cas l e n old _ _ =>
    if l = .field L.q "tail" then
      match dec L e, dec L n, dec L old with
      | some e, some n, some o => some (.casTail e n o)
      | _, _, _ => some .other
    else
      match l with
      | .field l' f =>
        if f = "next" then
          match L.addr l', dec L e, dec L n, dec L old with
          | some a, some 0, some n, some o => some (.casNext a n o)
          | _, _, _, _ => some .other
        else some .other
      | _ => some .other
  | .st .. | .xchg .. | .rmw .. => some .other
  | .fence _ => none
  | .ext .. => none

def Typed (v : Val) : Prop := ∃ x, dec L v = some x
def IsObj (v : Val) : Prop := ∃ l a, v = .ptr l ∧ L.addr l = some a

theorem dec_int0 : dec L (.int 0) = some 0 := by simp [dec]
theorem dec_ptr (l : Loc) : dec L (.ptr l) = L.addr l := rfl

theorem dec_eq_zero {v : Val} (h : dec L v = some 0) : v = .int 0 := by
  unfold dec at h
  split at h
  · split at h <;> simp_all
  · exact absurd h (L.addr_ne0 _)

/-- typing of the oracle of `_cds_lfq_enqueue_rcu`: per iteration, the value of `q->tail` (a node pointer, it is
dereferenced), the value `cmpxchg(&tail->next)` returns, the value `cmpxchg(&q->tail)` returns (NULL or node pointers) -/
def EnqInp : List Val → Prop
  | [] => True
  | [t] => IsObj L t
  | [t, n] => IsObj L t ∧ Typed L n
  | t :: n :: a :: rest => IsObj L t ∧ Typed L n ∧ Typed L a ∧ EnqInp rest

/-- the body of the retry loop of the generated `_cds_lfq_enqueue_rcu` (extracted, not copied) -/
def enqBody : Stmt :=
  match Gen.Src.«_cds_lfq_enqueue_rcu» with
  | .loop b => b
  | _ => .skip

def mbEv (mbv : Int) : List Event := if mbv = 0 then [] else [.fence .mb]

theorem enqBody_exec (fuel : Nat) (env : Env) (inp : List Val) (nl : Loc) (mbv : Int)
    (h1 : env.vars "q" = some (.ptr L.q)) (h2 : env.vars "node" = some (.ptr nl))
    (hcfg : env.priv (.glob "CONFIG_RCU_EMIT_LEGACY_MB") = some (.int mbv))
    (hwt : ∀ t, inp.head? = some t → ∃ tl, t = .ptr tl) :
    ∃ o, exec fuel enqBody env inp = .ok o ∧ o.env.priv = env.priv ∧ (∀ v ∈ o.inp, v ∈ inp) ∧
      ((inp = [] ∧ o.events = [] ∧ o.ctl = .blocked) ∨
       (∃ tl, inp = [.ptr tl] ∧ o.events = .ld (.field L.q "tail") (.ptr tl) 1 :: mbEv mbv ∧ o.ctl = .blocked) ∨
       (∃ tl nv, inp = [.ptr tl, nv] ∧ o.ctl = .blocked ∧
          o.events = .ld (.field L.q "tail") (.ptr tl) 1 :: (mbEv mbv ++ [.cas (.field tl "next") (.int 0) (.ptr nl) nv 5 5])) ∨
       (∃ tl a rest, inp = .ptr tl :: .int 0 :: a :: rest ∧ o.ctl = .ret none ∧ o.inp = rest ∧
          o.events = .ld (.field L.q "tail") (.ptr tl) 1 :: (mbEv mbv ++ [.cas (.field tl "next") (.int 0) (.ptr nl) (.int 0) 5 5,
            .cas (.field L.q "tail") (.ptr tl) (.ptr nl) a 5 5])) ∨
       (∃ tl nv a rest, inp = .ptr tl :: nv :: a :: rest ∧ nv ≠ .int 0 ∧ o.ctl = .cont ∧ o.inp = rest ∧
          o.env.vars "q" = some (.ptr L.q) ∧ o.env.vars "node" = some (.ptr nl) ∧
          o.events = .ld (.field L.q "tail") (.ptr tl) 1 :: (mbEv mbv ++ [.cas (.field tl "next") (.int 0) (.ptr nl) nv 5 5,
            .cas (.field L.q "tail") (.ptr tl) nv a 5 5]))) := by
  rcases inp with _ | ⟨t, _ | ⟨nv, _ | ⟨a, rest⟩⟩⟩
  · exact ⟨⟨[], env, [], .blocked⟩, by simp [enqBody, Gen.Src.«_cds_lfq_enqueue_rcu», block, exec, eval, evalArgs,
      execPrim, asLoc, bind, Except.bind, h1], rfl, by simp, Or.inl ⟨rfl, rfl, rfl⟩⟩
  · obtain ⟨tl, rfl⟩ := hwt t rfl
    by_cases hmb : mbv = 0 <;>
      simp [enqBody, Gen.Src.«_cds_lfq_enqueue_rcu», block, exec, eval, evalArgs, execPrim, asLoc, bind, Except.bind,
        h1, h2, hcfg, Env.setVar, setDst, Val.truthy, evalBin, boolV, mbEv, hmb]
  · obtain ⟨tl, rfl⟩ := hwt t rfl
    by_cases hmb : mbv = 0 <;>
      simp [enqBody, Gen.Src.«_cds_lfq_enqueue_rcu», block, exec, eval, evalArgs, execPrim, asLoc, bind, Except.bind,
        h1, h2, hcfg, Env.setVar, setDst, Val.truthy, evalBin, boolV, mbEv, hmb]
  · obtain ⟨tl, rfl⟩ := hwt t rfl
    by_cases hnv : nv = .int 0
    · subst hnv
      by_cases hmb : mbv = 0 <;>
        simp [enqBody, Gen.Src.«_cds_lfq_enqueue_rcu», block, exec, eval, evalArgs, execPrim, asLoc, bind, Except.bind,
        h1, h2, hcfg, Env.setVar, setDst, Val.truthy, evalBin, boolV, mbEv, hmb] <;>
        exact ⟨fun v hv => by simp [hv], _, _, _, ⟨rfl, rfl, rfl⟩, rfl, rfl, rfl⟩
    · by_cases hmb : mbv = 0 <;>
        simp [enqBody, Gen.Src.«_cds_lfq_enqueue_rcu», block, exec, eval, evalArgs, execPrim, asLoc, bind, Except.bind,
        h1, h2, hcfg, Env.setVar, setDst, Val.truthy, evalBin, boolV, mbEv, hmb, hnv] <;>
        exact ⟨fun v hv => by simp [hv], _, _, _, _, ⟨rfl, rfl, rfl, rfl⟩, hnv, rfl, rfl, ⟨rfl, rfl⟩, rfl, rfl, rfl⟩

/-- the local automaton follows the labels of `evs` from `ls`; where it ends, by how the run ended -/
def EnqPost (c : Cfg) (ls : LState) (out : Out) (evs : List Event) : Prop :=
  ∃ ls', lrun c ls (evs.filterMap (absEv L)) = some ls' ∧ ls'.inDeq = ls.inDeq ∧ ls'.node = ls.node ∧ ls'.hd = ls.hd ∧
    ((out.ctl = .ret none ∧ ls'.pc = (if ls.inDeq then .dLdN2 else .idle)) ∨
     (out.ctl = .blocked ∧ (ls'.pc = .eLd ∨ ls'.pc = .eCas ∨ ls'.pc = .eAdv ∨ ls'.pc = .eHelp)) ∨
     (out.ctl = .fuel ∧ ls'.pc = .eLd))

theorem filterMap_mbEv (mbv : Int) (rest : List Event) :
    (mbEv mbv ++ rest).filterMap (absEv L) = rest.filterMap (absEv L) := by
  unfold mbEv; split <;> simp [absEv, List.filterMap_cons]

theorem enq_loop (c : Cfg) (fuel : Nat) (nl : Loc) (n : Nat) (mbv : Int) (hn : L.addr nl = some n) (iters : Nat) :
    ∀ (env : Env) (inp : List Val) (acc : List Event) (ls : LState),
      env.vars "q" = some (.ptr L.q) → env.vars "node" = some (.ptr nl) →
      env.priv (.glob "CONFIG_RCU_EMIT_LEGACY_MB") = some (.int mbv) → EnqInp L inp → ls.pc = .eLd → ls.node = n →
      ∃ out evs, iterate (fun e i => exec fuel enqBody e i) iters env inp acc = .ok out ∧ out.events = acc ++ evs ∧
        EnqPost L c ls out evs := by
  induction iters with
  | zero =>
    intro env inp acc ls h1 h2 hcfg hwt hpc hnode
    exact ⟨_, [], rfl, by simp, ls, rfl, rfl, rfl, rfl, Or.inr (Or.inr ⟨rfl, hpc⟩)⟩
  | succ iters ih =>
    intro env inp acc ls h1 h2 hcfg hwt hpc hnode
    obtain ⟨o, ho, hpriv, -, hcase⟩ := enqBody_exec L fuel env inp nl mbv h1 h2 hcfg (by
      intro t ht
      rcases inp with _ | ⟨t', _ | ⟨n', _ | ⟨a', r'⟩⟩⟩ <;> simp at ht <;> subst ht
      · obtain ⟨l, _, rfl, _⟩ := hwt; exact ⟨l, rfl⟩
      · obtain ⟨l, _, rfl, _⟩ := hwt.1; exact ⟨l, rfl⟩
      · obtain ⟨l, _, rfl, _⟩ := hwt.1; exact ⟨l, rfl⟩)
    simp only [iterate, ho, bind, Except.bind]
    have hne : ∀ l : Loc, (Loc.field l "next" = .field L.q "tail") = False := by intro l; simp
    rcases hcase with ⟨rfl, hev, hctl⟩ | ⟨tl, rfl, hev, hctl⟩ | ⟨tl, nv, rfl, hctl, hev⟩ |
      ⟨tl, a, rest, rfl, hctl, hinp, hev⟩ | ⟨tl, nv, a, rest, rfl, hnv, hctl, hinp, h1', h2', hev⟩
    · simp only [hctl]
      exact ⟨_, o.events, rfl, rfl, ls, by simp [hev, lrun], rfl, rfl, rfl, Or.inr (Or.inl ⟨rfl, Or.inl hpc⟩)⟩
    · simp only [hctl]
      obtain ⟨tl', ta, e, hta⟩ := hwt; cases e
      refine ⟨_, o.events, rfl, rfl, { ls with tl := ta, pc := .eCas }, ?_, rfl, rfl, rfl,
        Or.inr (Or.inl ⟨rfl, Or.inr (Or.inl rfl)⟩)⟩
      rw [hev, List.filterMap_cons]
      have := filterMap_mbEv L mbv []
      simp only [List.append_nil] at this
      simp [this, absEv, dec_ptr, hta, lrun, lstep, hpc]
    · simp only [hctl]
      obtain ⟨⟨tl', ta, e, hta⟩, ⟨nx, hnx⟩⟩ := hwt; cases e
      by_cases h0 : nx = 0
      · refine ⟨_, o.events, rfl, rfl, { ls with tl := ta, pc := .eAdv }, ?_, rfl, rfl, rfl,
          Or.inr (Or.inl ⟨rfl, Or.inr (Or.inr (Or.inl rfl))⟩)⟩
        rw [hev, List.filterMap_cons, filterMap_mbEv]
        simp [absEv, dec_ptr, dec_int0, hta, hn, lrun, lstep, hpc, hne, hnx, h0, hnode, List.filterMap_cons]
      · refine ⟨_, o.events, rfl, rfl, { ls with tl := ta, nx := nx, pc := .eHelp }, ?_, rfl, rfl, rfl,
          Or.inr (Or.inl ⟨rfl, Or.inr (Or.inr (Or.inr rfl))⟩)⟩
        rw [hev, List.filterMap_cons, filterMap_mbEv]
        simp [absEv, dec_ptr, dec_int0, hta, hn, lrun, lstep, hpc, hne, hnx, h0, hnode, List.filterMap_cons]
    · simp only [hctl]
      obtain ⟨⟨tl', ta, e, hta⟩, -, ⟨ax, hax⟩, -⟩ := hwt; cases e
      refine ⟨_, o.events, rfl, rfl, { ls with tl := ta, pc := if ls.inDeq then .dLdN2 else .idle }, ?_, rfl, rfl, rfl,
        Or.inl ⟨rfl, rfl⟩⟩
      rw [hev, List.filterMap_cons, filterMap_mbEv]
      simp [absEv, dec_ptr, dec_int0, hta, hn, lrun, lstep, hpc, hne, hax, hnode, List.filterMap_cons]
    · simp only [hctl]
      obtain ⟨⟨tl', ta, e, hta⟩, ⟨nx, hnx⟩, ⟨ax, hax⟩, hrest⟩ := hwt; cases e
      have h0 : nx ≠ 0 := fun e => hnv (dec_eq_zero L (e ▸ hnx))
      obtain ⟨out, evs', hit, hevs, ls', hrun, hd1, hd2, hd3, hfin⟩ :=
        ih o.env o.inp (acc ++ o.events) { ls with tl := ta, nx := nx, pc := .eLd } h1' h2' (hpriv ▸ hcfg)
          (hinp ▸ hrest) rfl hnode
      refine ⟨out, o.events ++ evs', hit, by simp [hevs], ls', ?_, hd1, hd2, hd3, hfin⟩
      rw [hev, List.cons_append, List.filterMap_cons, List.append_assoc, filterMap_mbEv]
      simp [absEv, dec_ptr, dec_int0, hta, hn, lrun, lstep, hpc, hne, hnx, hax, h0, hnode, List.filterMap_cons]
      rw [← hnode]; exact hrun

/-- `_cds_lfq_enqueue_rcu(q, node)` from L2's `eLd` (after `enqCall n`, or `enqueue_dummy` inside dequeue: `inDeq`) -/
theorem enqueue_refines_env (c : Cfg) (fuel : Nat) (env : Env) (inp : List Val) (nl : Loc) (n : Nat) (mbv : Int)
    (ls : LState) (h1 : env.vars "q" = some (.ptr L.q)) (h2 : env.vars "node" = some (.ptr nl))
    (hn : L.addr nl = some n) (hcfg : env.priv (.glob "CONFIG_RCU_EMIT_LEGACY_MB") = some (.int mbv))
    (hwt : EnqInp L inp) (hpc : ls.pc = .eLd) (hnode : ls.node = n) :
    ∃ out, exec fuel Gen.Src.«_cds_lfq_enqueue_rcu» env inp = .ok out ∧ EnqPost L c ls out out.events := by
  rw [show Gen.Src.«_cds_lfq_enqueue_rcu» = .loop enqBody from rfl]
  simp only [exec]
  obtain ⟨out, evs, hit, hevs, hpost⟩ := enq_loop L c fuel nl n mbv hn fuel env inp [] ls h1 h2 hcfg hwt hpc hnode
  exact ⟨out, hit, by simpa [hevs] using hpost⟩

end LfqR
end UrcuVerif.Src.Queue
