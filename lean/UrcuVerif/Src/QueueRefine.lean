import UrcuVerif.Src.IR
import UrcuVerif.Gen.Src
import UrcuVerif.Src.QueueLocal
/-!
# Generated source IR of the wfcqueue primitives ⊑ thread-local projection of `Wfcq/Model.lean`

Address convention (`Layout`): heap object `k` (`Val.ptr (.obj k)`) is the L2 address `addr k` – the two
`struct __cds_wfcq_head` objects map to the queue addresses `1`, `2`, `struct cds_wfcq_node`s to addresses `≥ 3`
(L2 identifies a queue with its head node; the translator does too: `&head->node` is `head`, first member);
the `struct cds_wfcq_tail` object `k` belongs to queue `tailOf k`.  NULL is `Val.int 0` ↦ address `0`.

Abstraction of events (`absEv`): `ld/st/xchg/cas` on `&obj->next` / `&tailobj->p` with pointer values ↦ the access
label with decoded addresses; every other `ld/st/xchg/cas/rmw` ↦ `other` (never accepted by `lstep`, so a run with
an unexpected shared access is *not* a refinement); `fence _` (the `cmm_smp_mb()` of `cmm_emit_legacy_smp_mb`: L2's
locked operations already act on memory with an empty store buffer – a fence is L2's environment label `fence t`,
not a local step; `caa_cpu_relax()`) and `ext _` (`CDS_WFCQ_WAIT_SLEEP` = `poll(NULL,0,10)`: no shared access) ↦ none.
-/
set_option linter.unusedSimpArgs false
set_option linter.unusedVariables false
namespace UrcuVerif.Src.Queue
open UrcuVerif.Src

/-! ## generic facts about `exec` -/

/-- "the run is ok and has these events / remaining oracle / control / private view" -/
def IsOut (r : Except String Out) (evs : List Event) (inp' : List Val) (ctl : Ctl) (priv' : Loc → Option Val) : Prop :=
  ∃ vars, r = .ok { events := evs, env := { vars := vars, priv := priv' }, inp := inp', ctl := ctl }

namespace WfcqR
open UrcuVerif.Wfcq WfcqL

structure Layout where
  addr : Nat → Option Nat
  tailOf : Nat → Option Nat
  addr_ne0 : ∀ k, addr k ≠ some 0
  addr_inj : ∀ k k' a, addr k = some a → addr k' = some a → k = k'

variable (L : Layout)

/-- pointer value ↦ L2 address -/
def dec : Val → Option Nat
  | .int n => if n = 0 then some 0 else none
  | .ptr (.obj k) => L.addr k
  | _ => none

/-- `&obj->next` ↦ the L2 address whose `next` word it is -/
def decNext : Loc → Option Nat
  | .field (.obj k) f => if f = "next" then L.addr k else none
  | _ => none

/-- `&tailobj->p` ↦ the queue whose `tail` word it is -/
def decTail : Loc → Option Nat
  | .field (.obj k) f => if f = "p" then L.tailOf k else none
  | _ => none

def absEv : Event → Option LLabel
  | .ld l v _ =>
    match decNext L l, decTail L l, dec L v with
    | some a, _, some x => some (.ldNext a x)
    | none, some q, some x => some (.ldTail q x)
    | _, _, _ => some .other
  | .st l v _ =>
    match decNext L l, dec L v with
    | some a, some x => some (.stNext a x)
    | _, _ => some .other
  | .xchg l new old _ =>
    match decNext L l, decTail L l, dec L new, dec L old with
    | some a, _, some n, some o => some (.xchgNext a n o)
    | none, some q, some n, some o => some (.xchgTail q n o)
    | _, _, _, _ => some .other
  | .cas l e n old _ _ =>
    match decTail L l, dec L e, dec L n, dec L old with
    | some q, some e, some n, some o => some (.casTail q e n o)
    | _, _, _, _ => some .other
  | .rmw .. => some .other
  | .fence _ => none
  | .ext .. => none

/-- the value is a non-NULL pointer to an object of the layout -/
def IsObj (v : Val) : Prop := ∃ k a, v = .ptr (.obj k) ∧ L.addr k = some a

theorem dec_inj {v w : Val} {a : Nat} (hv : dec L v = some a) (hw : dec L w = some a) : v = w := by
  unfold dec at hv hw
  split at hv <;> split at hw <;> simp_all
  · exact L.addr_ne0 _ (hv.2 ▸ hw)
  · exact L.addr_ne0 _ (hw.2 ▸ hv)
  · exact L.addr_inj _ _ a hv hw

/-! ## `___cds_wfcq_append` -/

theorem append_exec {fuel : Nat} {env : Env} {inp : List Val} {r : Except String Out}
    (hE : exec fuel Gen.Src.«___cds_wfcq_append» env inp = r) (hk tk : Nat) (nh nt : Val)
    (h1 : env.vars "u_head" = some (.ptr (.obj hk))) (h2 : env.vars "tail" = some (.ptr (.obj tk)))
    (h3 : env.vars "new_head" = some nh) (h4 : env.vars "new_tail" = some nt) :
    (inp = [] ∧ IsOut r [] [] .blocked env.priv) ∨
    (∃ v rest, inp = v :: rest ∧ ∀ l, v = .ptr l →
      IsOut r [.xchg (.field (.obj tk) "p") nt v 5, .st (.field l "next") nh 3] rest
        (.ret (some (boolV (v ≠ .ptr (.obj hk))))) (fun m => if m = .field l "next" then some nh else env.priv m)) := by
  subst hE
  cases inp with
  | nil =>
    left
    simp [IsOut, Gen.Src.«___cds_wfcq_append», block, exec, eval, evalArgs, execPrim,
      Env.setVar, asLoc, bind, Except.bind, h1, h2, h4]
  | cons v rest =>
    right
    refine ⟨v, rest, rfl, ?_⟩
    rintro l rfl
    simp [IsOut, Gen.Src.«___cds_wfcq_append», block, exec, eval, evalArgs, execPrim,
      Env.setVar, Env.setPriv, setDst, asLoc, bind, Except.bind, evalBin, h1, h2, h3, h4]

/-! ## `_cds_wfcq_enqueue` -/

theorem enqueue_refines_env (fuel : Nat) (env : Env) (hk tk nk q n : Nat) (mbv : Int) (inp : List Val)
    (h1 : env.vars "head" = some (.ptr (.obj hk))) (h2 : env.vars "tail" = some (.ptr (.obj tk)))
    (h3 : env.vars "new_tail" = some (.ptr (.obj nk)))
    (hq : L.addr hk = some q) (hisq : isQ q) (ht : L.tailOf tk = some q) (hn : L.addr nk = some n) (hn3 : 3 ≤ n)
    (hcfg : env.priv (.glob "CONFIG_RCU_EMIT_LEGACY_MB") = some (.int mbv))
    (hwt : ∀ v ∈ inp, IsObj L v) :
    ∃ out, exec fuel Gen.Src.«_cds_wfcq_enqueue» env inp = .ok out ∧
      ∃ p', lrun .idle (out.events.filterMap (absEv L)) = some p' ∧
        ((out.ctl = .blocked ∧ p' = .idle) ∨ (∃ b, out.ctl = .ret (some (boolV b)) ∧ p' = .done (.bool b))) := by
  by_cases hmb : mbv = 0 <;>
  · simp only [Gen.Src.«_cds_wfcq_enqueue», block, exec, eval, evalArgs, asLoc, bind, Except.bind, hcfg, h1, h2, h3,
      execPrim, Val.truthy, hmb, bne_self_eq_false, Bool.false_eq_true, if_false, List.length_cons, List.length_nil,
      ne_eq, not_true_eq_false, bne_iff_ne, not_false_eq_true, if_true, decide_true, decide_false]
    generalize hE : exec fuel Gen.Src.«___cds_wfcq_append» _ _ = r
    rcases append_exec hE hk tk (.ptr (.obj nk)) (.ptr (.obj nk)) (by simp [bindParams]) (by simp [bindParams]) (by simp [bindParams])
      (by simp [bindParams]) with ⟨rfl, vars, h⟩ | ⟨v, rest, rfl, h⟩
    · subst h
      simp [lrun, absEv, List.filterMap_cons]
    · obtain ⟨k, a, rfl, hk'⟩ := hwt v (by simp)
      obtain ⟨vars, h⟩ := h _ rfl
      clear hE; subst h
      have hb : decide (k = hk) = decide (a = q) := by
        by_cases e : k = hk
        · subst e; simp_all
        · have : a ≠ q := fun e' => e (L.addr_inj _ _ _ hk' (e' ▸ hq))
          simp [e, this]
      simp [setDst, Env.setVar, absEv, decNext, decTail, dec, ht, hn, hk', lrun, lstep, hisq, hn3, boolV, hb,
        List.filterMap_cons]
      exact Decidable.em _

/-! ## `_cds_wfcq_empty` -/

/-- NULL or a pointer to an object of the layout -/
def Typed (v : Val) : Prop := ∃ x, dec L v = some x

theorem IsObj.typed {v : Val} (h : IsObj L v) : Typed L v := by
  obtain ⟨k, a, rfl, h⟩ := h; exact ⟨a, by simp [dec, h]⟩

theorem dec_eq_zero {v : Val} (h : dec L v = some 0) : v = .int 0 := dec_inj L h (by simp [dec])

/-- events / rest of the oracle / control of `_cds_wfcq_empty(head = obj hk, tail = obj tk)` as a function of the oracle -/
def emptySpec (hk tk : Nat) : List Val → List Event × List Val × Ctl
  | [] => ([], [], .blocked)
  | v1 :: rest =>
    if v1 = .int 0 then
      match rest with
      | [] => ([.ld (.field (.obj hk) "next") v1 1], [], .blocked)
      | v2 :: rest' =>
        ([.ld (.field (.obj hk) "next") v1 1, .ld (.field (.obj tk) "p") v2 1], rest',
          .ret (some (.int (if v2 = .ptr (.obj hk) then 1 else 0))))
    else ([.ld (.field (.obj hk) "next") v1 1], rest, .ret (some (.int 0)))

theorem empty_exec {fuel : Nat} {env : Env} {inp : List Val} {r : Except String Out}
    (hE : exec fuel Gen.Src.«_cds_wfcq_empty» env inp = r) (hk tk : Nat)
    (h1 : env.vars "u_head" = some (.ptr (.obj hk))) (h2 : env.vars "tail" = some (.ptr (.obj tk))) :
    IsOut r (emptySpec hk tk inp).1 (emptySpec hk tk inp).2.1 (emptySpec hk tk inp).2.2 env.priv := by
  subst hE
  rcases inp with _ | ⟨v1, _ | ⟨v2, rest⟩⟩ <;> (try by_cases e1 : v1 = .int 0) <;> (try by_cases e2 : v2 = .ptr (.obj hk)) <;>
    simp [IsOut, emptySpec, Gen.Src.«_cds_wfcq_empty», block, exec, eval, evalArgs, execPrim, Env.setVar, Env.setPriv,
      setDst, asLoc, bind, Except.bind, evalBin, evalUn, Val.truthy, boolV, h1, h2, *]

/-- the events of `_cds_wfcq_empty` are L2's `ld1` (+ `ld2`) of the operation `k` that runs it -/
theorem empty_lrun (hk tk q : Nat) (k : K) (inp : List Val) (hq : L.addr hk = some q) (ht : L.tailOf tk = some q)
    (hwt : ∀ v ∈ inp, Typed L v) :
    ∃ p', lrun (.e1 k q) ((emptySpec hk tk inp).1.filterMap (absEv L)) = some p' ∧
      match (emptySpec hk tk inp).2.2 with
      | .blocked => p' = .e1 k q ∨ p' = .e2 k q
      | .ret (some v) => (v = .int 1 ∧ p' = .done (emptyRes k)) ∨ (v = .int 0 ∧ p' = nonEmptyPc k q)
      | _ => False := by
  rcases inp with _ | ⟨v1, _ | ⟨v2, rest⟩⟩
  · simp [emptySpec, lrun]
  · by_cases e1 : v1 = .int 0
    · simp [emptySpec, lrun, lstep, e1, absEv, decNext, decTail, dec, hq, List.filterMap_cons]
    · obtain ⟨x, hx⟩ := hwt v1 (by simp)
      have : x ≠ 0 := fun e => e1 (dec_eq_zero L (e ▸ hx))
      simp [emptySpec, lrun, lstep, e1, absEv, decNext, decTail, hx, hq, List.filterMap_cons, this]
  · by_cases e1 : v1 = .int 0
    · obtain ⟨y, hy⟩ := hwt v2 (by simp)
      have hdq : dec L (.ptr (.obj hk)) = some q := by simp [dec, hq]
      by_cases e2 : v2 = .ptr (.obj hk)
      · subst e2; cases hy.symm.trans hdq
        simp [emptySpec, lrun, lstep, e1, absEv, decNext, decTail, dec, hq, ht, List.filterMap_cons]
      · have : y ≠ q := fun e => e2 (dec_inj L (e ▸ hy) hdq)
        simp [emptySpec, lrun, lstep, e1, e2, absEv, decNext, decTail, hq, ht, hy, List.filterMap_cons, this]
        simp [dec, lrun, lstep, this]
    · obtain ⟨x, hx⟩ := hwt v1 (by simp)
      have : x ≠ 0 := fun e => e1 (dec_eq_zero L (e ▸ hx))
      simp [emptySpec, lrun, lstep, e1, absEv, decNext, decTail, hx, hq, List.filterMap_cons, this]

/-! ## `___cds_wfcq_busy_wait` -/

theorem busy_exec {fuel : Nat} {env : Env} {inp : List Val} {r : Except String Out}
    (hE : exec fuel Gen.Src.«___cds_wfcq_busy_wait» env inp = r) (al : Loc) (b c : Int)
    (h1 : env.vars "attempt" = some (.ptr al)) (h2 : env.vars "blocking" = some (.int b))
    (hp : env.priv al = some (.int c)) :
    (b = 0 ∧ IsOut r [] inp (.ret (some (.int 1))) env.priv) ∨
    (b ≠ 0 ∧ ∃ evs inp' ctl c', IsOut r evs inp' ctl (fun m => if m = al then some (.int c') else env.priv m) ∧
      evs.filterMap (absEv L) = [] ∧ (∀ v ∈ inp', v ∈ inp) ∧ (ctl = .blocked ∨ ctl = .ret (some (.int 0)))) := by
  subst hE
  by_cases hb : b = 0
  · left
    simp [IsOut, Gen.Src.«___cds_wfcq_busy_wait», block, exec, eval, evalArgs, execPrim, Env.setVar, Env.setPriv,
      setDst, asLoc, bind, Except.bind, evalBin, evalUn, Val.truthy, boolV, h1, h2, hp, hb]
    exact ⟨env.vars, rfl⟩
  · right
    refine ⟨hb, ?_⟩
    by_cases hc : c + 1 ≥ 10
    · cases inp with
      | nil =>
        refine ⟨[], [], .blocked, c + 1, ?_, rfl, by simp, Or.inl rfl⟩
        simp [IsOut, Gen.Src.«___cds_wfcq_busy_wait», block, exec, eval, evalArgs, execPrim, Env.setVar, Env.setPriv,
          setDst, asLoc, bind, Except.bind, evalBin, evalUn, Val.truthy, boolV, h1, h2, hp, hb, hc]
      | cons v rest =>
        refine ⟨[.ext "CDS_WFCQ_WAIT_SLEEP" [.int 10] v], rest, .ret (some (.int 0)), 0, ?_, by simp [absEv, List.filterMap_cons],
          by simp +contextual, Or.inr rfl⟩
        simp [IsOut, Gen.Src.«___cds_wfcq_busy_wait», block, exec, eval, evalArgs, execPrim, Env.setVar, Env.setPriv,
          setDst, asLoc, bind, Except.bind, evalBin, evalUn, Val.truthy, boolV, h1, h2, hp, hb, hc]
        funext m; by_cases e : m = al <;> simp [e]
    · refine ⟨[.fence .relax], inp, .ret (some (.int 0)), c + 1, ?_, by simp [absEv, List.filterMap_cons], by simp, Or.inr rfl⟩
      simp [IsOut, Gen.Src.«___cds_wfcq_busy_wait», block, exec, eval, evalArgs, execPrim, Env.setVar, Env.setPriv,
        setDst, asLoc, bind, Except.bind, evalBin, evalUn, Val.truthy, boolV, h1, h2, hp, hb, hc]

/-! ## `___cds_wfcq_node_sync_next` -/

/-- the body of the busy-wait loop of the generated `___cds_wfcq_node_sync_next` (extracted, not copied) -/
def syncBody : Stmt :=
  match Gen.Src.«___cds_wfcq_node_sync_next» with
  | .seq _ (.seq _ (.seq (.loop b) _)) => b
  | _ => .skip

/-- result of the loop: what the caller of `sync_next` needs -/
def SyncPost (nk : Nat) (b : Int) (env : Env) (out : Out) (evs : List Event) : Prop :=
  (∀ v ∈ out.inp, Typed L v) ∧ (∀ m, m ≠ .glob "&attempt" → out.env.priv m = env.priv m) ∧
  (∃ c', out.env.priv (.glob "&attempt") = some (.int c')) ∧
  ∀ k q a, L.addr nk = some a → k.blocking = decide (b ≠ 0) →
    ∃ p', lrun (.sync k q a) (evs.filterMap (absEv L)) = some p' ∧
      (((out.ctl = .blocked ∨ out.ctl = .fuel) ∧ p' = .sync k q a) ∨
       (out.ctl = .ret (some (.int (-1))) ∧ b = 0 ∧ p' = syncWbPc k q a) ∨
       (∃ v x, out.ctl = .normal ∧ out.env.vars "next" = some v ∧ dec L v = some x ∧ x ≠ 0 ∧ p' = syncGotPc k q a x))

/-- one iteration of the loop body -/
theorem syncBody_exec (fuel nk : Nat) (b c : Int) (env : Env) (inp : List Val)
    (h1 : env.vars "node" = some (.ptr (.obj nk))) (h2 : env.vars "blocking" = some (.int b))
    (hp : env.priv (.glob "&attempt") = some (.int c)) :
    ∃ o, exec fuel syncBody env inp = .ok o ∧ (∀ m, m ≠ .glob "&attempt" → o.env.priv m = env.priv m) ∧
      (∃ c', o.env.priv (.glob "&attempt") = some (.int c')) ∧ (∀ v ∈ o.inp, v ∈ inp) ∧
      ((inp = [] ∧ o.events = [] ∧ o.ctl = .blocked) ∨
       (∃ v, inp.head? = some v ∧ v ≠ .int 0 ∧ o.events = [.ld (.field (.obj nk) "next") v 1] ∧ o.ctl = .brk ∧
          o.env.vars "next" = some v) ∨
       (∃ evs, inp.head? = some (.int 0) ∧ o.events = .ld (.field (.obj nk) "next") (.int 0) 1 :: evs ∧
          evs.filterMap (absEv L) = [] ∧
          ((b = 0 ∧ o.ctl = .ret (some (.int (-1)))) ∨
           (b ≠ 0 ∧ (o.ctl = .blocked ∨ (o.ctl = .normal ∧ o.env.vars "node" = some (.ptr (.obj nk)) ∧
              o.env.vars "blocking" = some (.int b))))))) := by
  cases inp with
  | nil =>
    refine ⟨{ events := [], env := env, inp := [], ctl := .blocked }, ?_, fun _ _ => rfl, ⟨c, hp⟩, by simp,
      Or.inl ⟨rfl, rfl, rfl⟩⟩
    simp [syncBody, Gen.Src.«___cds_wfcq_node_sync_next», block, exec, eval, evalArgs, execPrim, asLoc, bind,
      Except.bind, h1]
  | cons v rest =>
    by_cases hv : v = .int 0
    · subst hv
      simp only [syncBody, Gen.Src.«___cds_wfcq_node_sync_next», block, exec, eval, evalArgs, execPrim, asLoc, bind,
        Except.bind, h1, h2, Env.setVar, setDst, evalBin, boolV, Val.truthy, List.length_cons, List.length_nil]
      simp only [String.reduceEq, if_true, if_false, decide_true, bne_iff_ne, ne_eq, Int.reduceEq, not_false_eq_true,
        not_true_eq_false, Int.one_ne_zero, h1, h2]
      generalize hE : exec fuel Gen.Src.«___cds_wfcq_busy_wait» _ _ = r
      rcases busy_exec L hE (.glob "&attempt") b c (by simp [bindParams]) (by simp [bindParams]) hp with
        ⟨hb, vars, rfl⟩ | ⟨hb, evs, inp', ctl, c', ⟨vars, rfl⟩, hf, hsub, hctl⟩
      · simp [hb, h1, h2, hp]
        exact fun v hv => Or.inr hv
      · rcases hctl with rfl | rfl
        · simp [hb, h1, h2, hp]
          trace_state
          sorry
        · simp [hb, h1, h2, hp]
          trace_state
          sorry
    · refine ⟨⟨[.ld (.field (.obj nk) "next") v 1], (env.setVar "_t2" v).setVar "next" v, rest, .brk⟩,
          ?_, fun _ _ => rfl, ⟨c, hp⟩,
          by simp +contextual, Or.inr (Or.inl ⟨v, rfl, hv, rfl, rfl, by simp [Env.setVar]⟩)⟩
      simp [syncBody, Gen.Src.«___cds_wfcq_node_sync_next», block, exec, eval, evalArgs, execPrim, asLoc, bind,
        Except.bind, h1, Env.setVar, setDst, evalBin, boolV, Val.truthy, hv]

end WfcqR
end UrcuVerif.Src.Queue
