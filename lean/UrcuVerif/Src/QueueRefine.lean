import UrcuVerif.Src.IR
import UrcuVerif.Gen.Src
import UrcuVerif.Src.QueueLocal
/-!
# Generated source IR of the wfcqueue primitives ⊑ thread-local projection of `Wfcq/Model.lean`

Address convention (`Layout`): heap object `k` (`Val.ptr (.obj k)`) is the L2 address `addr k` – the two
`struct __cds_wfcq_head` objects map to the queue addresses `1`, `2`, `struct cds_wfcq_node`s to addresses `≥ 3`
(L2 identifies a queue with its head node; the translator does too: `&head->node` is `head`, first member);
the `struct cds_wfcq_tail` object `k` belongs to queue `tailOf k`.  NULL is `Val.int 0` ↦ address `0`.

Abstraction of events (`absEv`): `ld/st/xchg/cas` on `&obj->next` / `&tailobj->p` with pointer values ↦ the access
label with decoded addresses; every other `ld/st/xchg/cas/rmw` ↦ `other` (never accepted by `lstep`, so a run with
an unexpected shared access is *not* a refinement); `fence _` (the `cmm_smp_mb()` of `cmm_emit_legacy_smp_mb`: L2's
locked operations already act on memory with an empty store buffer – a fence is L2's environment label `fence t`,
not a local step; `caa_cpu_relax()`) and `ext _` (`CDS_WFCQ_WAIT_SLEEP` = `poll(NULL,0,10)`: no shared access) ↦ none.
-/
namespace UrcuVerif.Src.Queue
open UrcuVerif.Src

/-! ## generic facts about `exec` -/

/-- "the run is ok and has these events / remaining oracle / control / private view" -/
def IsOut (r : Except String Out) (evs : List Event) (inp' : List Val) (ctl : Ctl) (priv' : Loc → Option Val) : Prop :=
  ∃ out, r = .ok out ∧ out.events = evs ∧ out.inp = inp' ∧ out.ctl = ctl ∧ out.env.priv = priv'

namespace WfcqR
open UrcuVerif.Wfcq WfcqL

structure Layout where
  addr : Nat → Option Nat
  tailOf : Nat → Option Nat
  addr_ne0 : ∀ k, addr k ≠ some 0
  addr_inj : ∀ k k' a, addr k = some a → addr k' = some a → k = k'

variable (L : Layout)

/-- pointer value ↦ L2 address -/
def dec : Val → Option Nat
  | .int n => if n = 0 then some 0 else none
  | .ptr (.obj k) => L.addr k
  | _ => none

/-- `&obj->next` ↦ the L2 address whose `next` word it is -/
def decNext : Loc → Option Nat
  | .field (.obj k) f => if f = "next" then L.addr k else none
  | _ => none

/-- `&tailobj->p` ↦ the queue whose `tail` word it is -/
def decTail : Loc → Option Nat
  | .field (.obj k) f => if f = "p" then L.tailOf k else none
  | _ => none

def absEv : Event → Option LLabel
  | .ld l v _ =>
    match decNext L l, decTail L l, dec L v with
    | some a, _, some x => some (.ldNext a x)
    | none, some q, some x => some (.ldTail q x)
    | _, _, _ => some .other
  | .st l v _ =>
    match decNext L l, dec L v with
    | some a, some x => some (.stNext a x)
    | _, _ => some .other
  | .xchg l new old _ =>
    match decNext L l, decTail L l, dec L new, dec L old with
    | some a, _, some n, some o => some (.xchgNext a n o)
    | none, some q, some n, some o => some (.xchgTail q n o)
    | _, _, _, _ => some .other
  | .cas l e n old _ _ =>
    match decTail L l, dec L e, dec L n, dec L old with
    | some q, some e, some n, some o => some (.casTail q e n o)
    | _, _, _, _ => some .other
  | .rmw .. => some .other
  | .fence _ => none
  | .ext .. => none

/-- the value is a non-NULL pointer to an object of the layout -/
def IsObj (v : Val) : Prop := ∃ k a, v = .ptr (.obj k) ∧ L.addr k = some a

theorem dec_inj {v w : Val} {a : Nat} (hv : dec L v = some a) (hw : dec L w = some a) : v = w := by
  unfold dec at hv hw
  split at hv <;> split at hw <;> simp_all
  · exact L.addr_ne0 _ (hv.2 ▸ hw)
  · exact L.addr_ne0 _ (hw.2 ▸ hv)
  · exact L.addr_inj _ _ a hv hw

/-! ## `___cds_wfcq_append` -/

theorem append_exec (fuel : Nat) (env : Env) (hk tk : Nat) (nh nt : Val) (inp : List Val)
    (h1 : env.vars "u_head" = some (.ptr (.obj hk))) (h2 : env.vars "tail" = some (.ptr (.obj tk)))
    (h3 : env.vars "new_head" = some nh) (h4 : env.vars "new_tail" = some nt) :
    (inp = [] ∧ IsOut (exec fuel Gen.Src.«___cds_wfcq_append» env inp) [] [] .blocked env.priv) ∨
    (∃ v rest, inp = v :: rest ∧ ∀ l, v = .ptr l →
      IsOut (exec fuel Gen.Src.«___cds_wfcq_append» env inp)
        [.xchg (.field (.obj tk) "p") nt v 5, .st (.field l "next") nh 3] rest
        (.ret (some (boolV (v ≠ .ptr (.obj hk))))) (fun m => if m = .field l "next" then some nh else env.priv m)) := by
  cases inp with
  | nil =>
    left
    simp [IsOut, Gen.Src.«___cds_wfcq_append», block, exec, eval, evalArgs, execPrim,
      Env.setVar, asLoc, bind, Except.bind, h1, h2, h3, h4]
  | cons v rest =>
    right
    refine ⟨v, rest, rfl, ?_⟩
    rintro l rfl
    simp [IsOut, Gen.Src.«___cds_wfcq_append», block, exec, eval, evalArgs, execPrim,
      Env.setVar, Env.setPriv, setDst, asLoc, bind, Except.bind, evalBin, h1, h2, h3, h4]

/-! ## `_cds_wfcq_enqueue` -/

theorem enqueue_refines_env (fuel : Nat) (env : Env) (hk tk nk q n : Nat) (mbv : Int) (inp : List Val)
    (h1 : env.vars "head" = some (.ptr (.obj hk))) (h2 : env.vars "tail" = some (.ptr (.obj tk)))
    (h3 : env.vars "new_tail" = some (.ptr (.obj nk)))
    (hq : L.addr hk = some q) (hisq : isQ q) (ht : L.tailOf tk = some q) (hn : L.addr nk = some n) (hn3 : 3 ≤ n)
    (hcfg : env.priv (.glob "CONFIG_RCU_EMIT_LEGACY_MB") = some (.int mbv))
    (hwt : ∀ v ∈ inp, IsObj L v) :
    ∃ out, exec fuel Gen.Src.«_cds_wfcq_enqueue» env inp = .ok out ∧
      ∃ p', lrun .idle (out.events.filterMap (absEv L)) = some p' ∧
        ((out.ctl = .blocked ∧ p' = .idle) ∨ (∃ b, out.ctl = .ret (some (boolV b)) ∧ p' = .done (.bool b))) := by
  by_cases hmb : mbv = 0 <;>
  · simp only [Gen.Src.«_cds_wfcq_enqueue», block, exec, eval, evalArgs, asLoc, bind, Except.bind, hcfg, h1, h2, h3,
      execPrim, Val.truthy, hmb, bne_self_eq_false, Bool.false_eq_true, if_false, List.length_cons, List.length_nil,
      ne_eq, not_true_eq_false, bne_iff_ne, not_false_eq_true, if_true, decide_true, decide_false]
    generalize hE : exec fuel Gen.Src.«___cds_wfcq_append» _ _ = r
    trace_state
    sorry

end WfcqR
end UrcuVerif.Src.Queue
