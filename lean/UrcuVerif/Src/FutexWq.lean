import UrcuVerif.Src.FutexCallRcu
/-!
# work queue futex (`src/workqueue.c`): `futex_wait(futex)`, `futex_wake_up(futex)`, `wake_worker_thread(workqueue)`

Same text as the call_rcu helper functions, on a futex word passed by address (`&workqueue->futex`, `&completion->futex`):
`futex_wait` ⊑ generic waiter (`WaitPost`), `futex_wake_up` ⊑ generic waker (`WakePost`); `wake_worker_thread` = load of
`workqueue->flags` (L2 `Wq` label `ldFlags`) + `futex_wake_up(&workqueue->futex)` unless `URCU_WORKQUEUE_RT`.
In `Wq/Model.lean` the worker's `wWaitLd / wWaitFx o / wSpurious` (and `wcWaitLd / wcWaitFx / wcSpurious` of
`urcu_workqueue_wait_completion`) and the wakers' `ldFutex / stFutex / wake` are the generic labels one for one, exactly as
in `CallRcu/Wake.lean` (`Cr.gw2l`, `Cr.gk2l`).
-/
set_option maxRecDepth 8192
set_option linter.unusedSimpArgs false
set_option linter.unusedVariables false
namespace UrcuVerif.Src.Futex
open UrcuVerif UrcuVerif.Src UrcuVerif.Gen.Src

theorem src_futex_wait (fuel : Nat) (env : Env) (inp : List Val) (F : Loc)
    (hc : env.vars "futex" = some (.ptr F)) :
    ∃ out, exec fuel «futex_wait» env inp = .ok out ∧ WaitPost F (-1) "futex_async" env out := by
  fx_exec [«futex_wait», WaitPost]
  generalize hL : exec fuel (Stmt.loop _) _ _ = X
  obtain ⟨out, rfl, hE, -, h⟩ := wait_loop F (-1) "futex_async"
    (fun e => e.priv = env.priv ∧ e.vars "futex" = some (.ptr F)) hL
    (by intro env1 inp1 hE1; obtain ⟨hp1, hc1⟩ := hE1; wait_body) ⟨rfl, hc⟩
  clear hL
  refine ⟨_, rfl, hE.1, ?_⟩
  unfold LoopPost at h
  loop_post h []

theorem src_futex_wake_up (fuel : Nat) (env : Env) (inp : List Val) (F : Loc)
    (hc : env.vars "futex" = some (.ptr F)) (hr : WakeRetOk inp) :
    ∃ out, exec fuel «futex_wake_up» env inp = .ok out ∧ WakePost F "futex_async" env out := by
  unfold WakeRetOk at hr
  wake_cases (wake_leaf [«futex_wake_up»])

/-- `wake_worker_thread(workqueue)`: `n` = the value of `workqueue->flags` -/
theorem src_wake_worker_thread (fuel : Nat) (env : Env) (inp : List Val) (W : Loc) (n : Nat)
    (hc : env.vars "workqueue" = some (.ptr W))
    (hf : ∀ f rest, inp = f :: rest → f = .int n)
    (hr : ∀ f rest, inp = f :: rest → WakeRetOk rest) :
    ∃ out, exec fuel «wake_worker_thread» env inp = .ok out ∧
      (n &&& 1 = 0 → WakePost (.field W "futex") "futex_async" env out) ∧
      (n &&& 1 ≠ 0 → inp ≠ [] →
        out.events = [.ld (.field W "flags") (.int n) 0] ∧ out.ctl = .normal ∧ out.env.priv = env.priv) := by
  cases inp with
  | nil => fx_exec [«wake_worker_thread», WakePost] <;> fx_abs []
  | cons f inp =>
    obtain rfl := hf _ _ rfl
    have hr := hr _ _ rfl
    unfold WakeRetOk at hr
    clear hf
    by_cases hn : n &&& 1 = 0
    · wake_cases (wake_leaf [«wake_worker_thread», «futex_wake_up», band_nat_one])
    · have hn2 : ¬ ((n : Int) % 2 = 0) := by have := Nat.and_one_is_mod n; omega
      have hn3 : ¬ (n % 2 = 0) := by have := Nat.and_one_is_mod n; omega
      fx_exec [«wake_worker_thread», «futex_wake_up», band_nat_one, WakePost]

end UrcuVerif.Src.Futex
