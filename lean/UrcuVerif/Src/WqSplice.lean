import UrcuVerif.Src.WqWorker2
/-!
# `workqueue_thread()`: the splice `__cds_wfcq_splice_blocking(&cbs_tmp, &workqueue->cbs)`

`___cds_wfcq_splice(dest = cbs_tmp, src = workqueue->cbs, blocking = 1)` against the worker's automaton, from L2's `splice`:
emptiness test (`ldHead`, `ldTail`), the loop `xchgHead` / `ldTail` (busy-wait silent), then `spliceX` (the exchange of the
public tail = L2's `wSplice`) and the silent append to the private list.  Returns `CDS_WFCQ_RET_SRC_EMPTY` at L2's `stopchk`
(empty queue), another value at `first0` (L2's `inv`, `cbcount` reset).
-/
set_option linter.unusedSimpArgs false
set_option linter.unusedVariables false
set_option maxRecDepth 8192
namespace UrcuVerif.Src.WqR
open UrcuVerif UrcuVerif.Src UrcuVerif.Wq WqL

def pubHead (L : Layout) : Loc := .field L.W "cbs_head"
def pubTail (L : Layout) : Loc := .field L.W "cbs_tail"

/-- the statements of `___cds_wfcq_splice` from the loop on -/
def spliceRest : Stmt :=
  match Gen.Src.«___cds_wfcq_splice» with
  | .seq _ (.seq _ (.seq _ (.seq _ (.seq _ (.seq _ r))))) => r
  | _ => .skip

def spliceBody : Stmt := (firstLoop Gen.Src.«___cds_wfcq_splice»).getD .skip

def spliceSuffix : Stmt :=
  match spliceRest with
  | .seq _ r => r
  | _ => .skip

def SpVars (L : Layout) (e : Env) : Prop :=
  e.vars "src_q_head" = some (.ptr (pubHead L)) ∧ e.vars "src_q_tail" = some (.ptr (pubTail L)) ∧
    e.vars "dest_q_head" = some (.ptr tmpHead) ∧ e.vars "dest_q_tail" = some (.ptr tmpTail) ∧
    e.vars "blocking" = some (.int 1)

/-- how the splice ends -/
def SplicePost (cnt : Nat) (rt : Bool) (c : Ctl) (_e : Env) (l : WLState) : Prop :=
  (c = .ret (some (.int 2)) ∧ l = ⟨.at .stopchk, cnt, rt⟩) ∨
  (∃ v : Int, c = .ret (some (.int v)) ∧ v ≠ 2 ∧ l = ⟨.first0, 0, rt⟩) ∨
  ((c = .blocked ∨ c = .fuel) ∧ ∃ p k, l = ⟨p, k, rt⟩ ∧ (p.abs = .splice ∨ p = .first0))

theorem splice_body_triple (L : Layout) (fuel : Nat) (cnt : Nat) (rt : Bool) :
    Triple L fuel spliceBody (fun e l => SpVars L e ∧ l = ⟨.spl2, cnt, rt⟩)
      (fun c e l => if c.goesOn then SpVars L e ∧ l = ⟨.spl2, cnt, rt⟩ else
        (c = .brk ∧ SpVars L e ∧ (∃ x, e.vars "head" = some (.ptr x)) ∧ l = ⟨.spl3, cnt, rt⟩) ∨
        (c = .ret (some (.int 2)) ∧ l = ⟨.at .stopchk, cnt, rt⟩) ∨
        (c = .blocked ∧ (l = ⟨.spl2, cnt, rt⟩ ∨ l = ⟨.spl2a, cnt, rt⟩))) := by
  intro env inp ls o ⟨⟨h1, h2, h3, h4, h5⟩, hl⟩ hE hok
  subst hl
  cases inp with
  | nil =>
    wexec_at hE [spliceBody, firstLoop, Gen.Src.«___cds_wfcq_splice», h1, h2, h3, h4, h5]
    subst hE
    simp [wlr, wrun, Ctl.goesOn]
  | cons hv rest =>
    cases hv with
    | ptr x =>
      wexec_at hE [spliceBody, firstLoop, Gen.Src.«___cds_wfcq_splice», h1, h2, h3, h4, h5]
      subst hE
      simp [wlr_cons, wlr_nil, absEvW, wstep, Ctl.goesOn, pubHead, pubTail, SpVars, h1, h2, h3, h4, h5]
    | int n =>
      by_cases h0 : n = 0
      · subst h0
        cases rest with
        | nil =>
          wexec_at hE [spliceBody, firstLoop, Gen.Src.«___cds_wfcq_splice», h1, h2, h3, h4, h5]
          subst hE
          simp [wlr_cons, wlr_nil, absEvW, wstep, Ctl.goesOn, pubHead, pubTail]
        | cons tv rest2 =>
          by_cases ht : tv = .ptr (pubHead L)
          · subst ht
            wexec_at hE [spliceBody, firstLoop, Gen.Src.«___cds_wfcq_splice», h1, h2, h3, h4, h5]
            subst hE
            simp [wlr_cons, wlr_nil, absEvW, wstep, Ctl.goesOn, pubHead, pubTail]
          · have ht' : ¬ tv = Val.ptr (Loc.field L.W "cbs_head") := ht
            cases hp : env.priv (.glob "&attempt") with
            | none =>
              wexec_at hE [spliceBody, firstLoop, Gen.Src.«___cds_wfcq_splice», Gen.Src.«___cds_wfcq_busy_wait», h1, h2, h3, h4,
                h5, hp, ht]
            | some av =>
              cases av with
              | ptr y =>
                wexec_at hE [spliceBody, firstLoop, Gen.Src.«___cds_wfcq_splice», Gen.Src.«___cds_wfcq_busy_wait», h1, h2, h3,
                  h4, h5, hp, ht, evalBin]
              | int k =>
                by_cases hk : k + 1 ≥ 10
                · cases rest2 with
                  | nil =>
                    wexec_at hE [spliceBody, firstLoop, Gen.Src.«___cds_wfcq_splice», Gen.Src.«___cds_wfcq_busy_wait», h1, h2,
                      h3, h4, h5, hp, ht, evalBin, hk]
                    subst hE
                    simp [wlr_cons, wlr_nil, absEvW, wstep, Ctl.goesOn, pubHead, pubTail, ht']
                  | cons r rest3 =>
                    wexec_at hE [spliceBody, firstLoop, Gen.Src.«___cds_wfcq_splice», Gen.Src.«___cds_wfcq_busy_wait», h1, h2,
                      h3, h4, h5, hp, ht, evalBin, hk]
                    subst hE
                    simp [wlr_cons, wlr_nil, absEvW, wstep, Ctl.goesOn, pubHead, pubTail, ht', SpVars, h1, h2, h3, h4, h5,
                      hookNames]
                · wexec_at hE [spliceBody, firstLoop, Gen.Src.«___cds_wfcq_splice», Gen.Src.«___cds_wfcq_busy_wait», h1, h2, h3,
                    h4, h5, hp, ht, evalBin, hk]
                  subst hE
                  simp [wlr_cons, wlr_nil, absEvW, wstep, Ctl.goesOn, pubHead, pubTail, ht', SpVars, h1, h2, h3, h4, h5]
      · wexec_at hE [spliceBody, firstLoop, Gen.Src.«___cds_wfcq_splice», h1, h2, h3, h4, h5, h0]
        subst hE
        simp [evOkW, IsNode, h0, pubHead] at hok

theorem splice_suffix_triple (L : Layout) (fuel : Nat) (cnt : Nat) (rt : Bool) :
    Triple L fuel spliceSuffix
      (fun e l => SpVars L e ∧ (∃ x, e.vars "head" = some (.ptr x)) ∧ l = ⟨.spl3, cnt, rt⟩) (SplicePost cnt rt) := by
  intro env inp ls o ⟨⟨h1, h2, h3, h4, h5⟩, ⟨x, hx⟩, hl⟩ hE hok
  subst hl
  cases hp : env.priv (.glob "CONFIG_RCU_EMIT_LEGACY_MB") with
  | none =>
    wexec_at hE [spliceSuffix, spliceRest, Gen.Src.«___cds_wfcq_splice», Gen.Src.«___cds_wfcq_append», h1, h2, h3, h4, h5, hx, hp]
  | some mv =>
    by_cases hm : mv.truthy = true <;>
    (cases inp with
      | nil =>
        wexec_at hE [spliceSuffix, spliceRest, Gen.Src.«___cds_wfcq_splice», Gen.Src.«___cds_wfcq_append», h1, h2, h3, h4, h5,
          hx, hp, hm]
        subst hE
        exact ⟨⟨.spl3, cnt, rt⟩, by simp [wlr_cons, wlr_nil, absEvW], .inr (.inr ⟨.inl rfl, _, _, rfl, .inl rfl⟩)⟩
      | cons tl rest =>
        cases rest with
        | nil =>
          wexec_at hE [spliceSuffix, spliceRest, Gen.Src.«___cds_wfcq_splice», Gen.Src.«___cds_wfcq_append», h1, h2, h3, h4,
            h5, hx, hp, hm]
          subst hE
          simp [wlr_cons, wlr_nil, absEvW, wstep, SplicePost, WLPc.abs, pubHead, pubTail]
        | cons old rest2 =>
          cases old with
          | int n =>
            wexec_at hE [spliceSuffix, spliceRest, Gen.Src.«___cds_wfcq_splice», Gen.Src.«___cds_wfcq_append», h1, h2, h3, h4,
              h5, hx, hp, hm]
          | ptr ol =>
            by_cases hd : Val.ptr ol = Val.ptr tmpHead <;>
            (wexec_at hE [spliceSuffix, spliceRest, Gen.Src.«___cds_wfcq_splice», Gen.Src.«___cds_wfcq_append», h1, h2, h3,
                h4, h5, hx, hp, hm, hd]
             subst hE
             simp [wlr_cons, wlr_nil, absEvW, wstep, SplicePost, WLPc.abs, pubHead, pubTail, tmpTail, tmpHead]))

def RestPre (L : Layout) (cnt : Nat) (rt : Bool) (e : Env) (l : WLState) : Prop := SpVars L e ∧ l = ⟨.spl2, cnt, rt⟩

/-- the loop and what follows it -/
theorem splice_rest_triple (L : Layout) (fuel : Nat) (cnt : Nat) (rt : Bool) :
    Triple L fuel spliceRest (RestPre L cnt rt) (SplicePost cnt rt) := by
  rw [show spliceRest = Stmt.seq (.loop spliceBody) spliceSuffix from rfl]
  refine Triple.seq' (Triple.loop (splice_body_triple L fuel cnt rt)) (splice_suffix_triple L fuel cnt rt) ?_ ?_
  · intro e l h
    rcases h with ⟨h, -⟩ | ⟨c0, -, hR, hc⟩
    · simp at h
    · rcases hR with ⟨rfl, hv, hx, hl⟩ | ⟨rfl, -⟩ | ⟨rfl, -⟩
      · exact ⟨hv, hx, hl⟩
      · simp [Ctl.afterLoop] at hc
      · simp [Ctl.afterLoop] at hc
  · intro c e l hc h
    rcases h with ⟨rfl, -, hl⟩ | ⟨c0, -, hR, rfl⟩
    · exact .inr (.inr ⟨.inr rfl, _, _, hl, .inl rfl⟩)
    · rcases hR with ⟨rfl, -⟩ | ⟨rfl, hl⟩ | ⟨rfl, hl⟩
      · simp [Ctl.afterLoop] at hc
      · exact .inl ⟨rfl, hl⟩
      · refine .inr (.inr ⟨.inl rfl, l.pc, cnt, ?_⟩)
        rcases hl with rfl | rfl <;> simp [WLPc.abs]

def SplicePre (L : Layout) (cnt : Nat) (rt : Bool) (e : Env) (l : WLState) : Prop :=
  e.vars "u_src_q_head" = some (.ptr (pubHead L)) ∧ e.vars "src_q_tail" = some (.ptr (pubTail L)) ∧
    e.vars "u_dest_q_head" = some (.ptr tmpHead) ∧ e.vars "dest_q_tail" = some (.ptr tmpTail) ∧
    e.vars "blocking" = some (.int 1) ∧ l = ⟨.at .splice, cnt, rt⟩

/-- **`___cds_wfcq_splice(&cbs_tmp_head, &cbs_tmp_tail, &workqueue->cbs_head, &workqueue->cbs_tail, 1)`** from L2's `splice` -/
theorem splice_triple (L : Layout) (fuel : Nat) (cnt : Nat) (rt : Bool) :
    Triple L fuel Gen.Src.«___cds_wfcq_splice» (SplicePre L cnt rt) (SplicePost cnt rt) := by
  intro env inp ls o ⟨h1, h2, h3, h4, h5, hl⟩ hE hok
  subst hl
  rw [show Gen.Src.«___cds_wfcq_splice» = Stmt.seq (.assign _ _) (.seq (.assign _ _) (.seq (.assign _ _) (.seq (.pstore _ _)
    (.seq (.call _ _ _ Gen.Src.«_cds_wfcq_empty») (.seq (.ifte _ _ _) spliceRest))))) from rfl] at hE
  have restK : ∀ (e : Env) (i : List Val) (oR : Out), SpVars L e → exec fuel spliceRest e i = .ok oR →
      oR.events.all (evOkW L) = true → ∃ ls', wlr L ⟨.spl2, cnt, rt⟩ oR.events = some ls' ∧ SplicePost cnt rt oR.ctl oR.env ls' :=
    fun e i oR hv hR hk => splice_rest_triple L fuel cnt rt e i _ oR ⟨hv, rfl⟩ hR hk
  cases inp with
  | nil =>
    wexec_at hE [Gen.Src.«_cds_wfcq_empty», h1, h2, h3, h4, h5]
    subst hE
    exact ⟨_, wlr_nil L _, .inr (.inr ⟨.inl rfl, _, _, rfl, .inl rfl⟩)⟩
  | cons v1 rest =>
    by_cases hv1 : v1 = .int 0
    · subst hv1
      cases rest with
      | nil =>
        wexec_at hE [Gen.Src.«_cds_wfcq_empty», h1, h2, h3, h4, h5]
        subst hE
        exact ⟨⟨.spl1, cnt, rt⟩, by simp [wlr_cons, wlr_nil, absEvW, wstep, pubHead],
          .inr (.inr ⟨.inl rfl, _, _, rfl, .inl rfl⟩)⟩
      | cons v2 rest2 =>
        by_cases hv2 : v2 = .ptr (pubHead L)
        · subst hv2
          wexec_at hE [Gen.Src.«_cds_wfcq_empty», h1, h2, h3, h4, h5]
          subst hE
          exact ⟨⟨.at .stopchk, cnt, rt⟩, by simp [wlr_cons, wlr_nil, absEvW, wstep, pubHead, pubTail], .inl ⟨rfl, rfl⟩⟩
        · have hv2' : ¬ v2 = Val.ptr (Loc.field L.W "cbs_head") := hv2
          wexec_at hE [Gen.Src.«_cds_wfcq_empty», h1, h2, h3, h4, h5, hv2]
          generalize hR : exec fuel spliceRest _ _ = r at hE
          cases r with
          | error e => simp at hE
          | ok oR =>
            simp at hE; subst hE
            simp only [List.all_cons, Bool.and_eq_true] at hok
            obtain ⟨ls', hw, hp⟩ := restK _ _ _ (by simp [SpVars, h2, h4, h5, pubHead, tmpHead]) hR hok.2.2
            exact ⟨ls', by simp [wlr_cons, absEvW, wstep, pubHead, pubTail, hv2', hw], hp⟩
    · wexec_at hE [Gen.Src.«_cds_wfcq_empty», h1, h2, h3, h4, h5, hv1]
      generalize hR : exec fuel spliceRest _ _ = r at hE
      cases r with
      | error e => simp at hE
      | ok oR =>
        simp at hE; subst hE
        simp only [List.all_cons, Bool.and_eq_true] at hok
        obtain ⟨ls', hw, hp⟩ := restK _ _ _ (by simp [SpVars, h2, h4, h5, pubHead, tmpHead]) hR hok.2
        exact ⟨ls', by simp [wlr_cons, absEvW, wstep, pubHead, pubTail, hv1, hw], hp⟩

/-! ## one iteration of the main loop, from the splice to the STOP test -/

/-- statements 4–7 of the loop body: `cds_wfcq_init(&cbs_tmp); splice_ret = __cds_wfcq_splice_blocking(…);
if (splice_ret != CDS_WFCQ_RET_SRC_EMPTY) { … }` -/
def wIter : Stmt := .seq (seqNth 4 wBody) (.seq (seqNth 5 wBody) (.seq (seqNth 6 wBody) wBatch))

def IterPost (L : Layout) (rtv : Val) (rt : Bool) (c : Ctl) (e : Env) (l : WLState) : Prop :=
  (c = .normal ∧ e.vars "workqueue" = some (.ptr L.W) ∧ e.vars "rt" = some rtv ∧ ∃ k : Nat, l = ⟨.at .stopchk, k, rt⟩) ∨
  ((c = .blocked ∨ c = .fuel) ∧ ∃ p, ∃ k : Nat, l = ⟨p, k, rt⟩ ∧ (p.abs = .splice ∨ p.abs = .inv ∨ p = .at .sub))

theorem iter_triple (L : Layout) (fuel : Nat) (rtv : Val) (cnt : Nat) (rt : Bool) :
    Triple L fuel wIter
      (fun e l => e.vars "workqueue" = some (.ptr L.W) ∧ e.vars "rt" = some rtv ∧ l = ⟨.at .splice, cnt, rt⟩)
      (IterPost L rtv rt) := by
  intro env inp ls o ⟨hw, hr, hl⟩ hE hok
  subst hl
  rw [show wIter = Stmt.seq (.call none _ _ Gen.Src.«_cds_wfcq_init») (.seq (.call (some "_t8") _ _ Gen.Src.«___cds_wfcq_splice_blocking»)
    (.seq (.assign _ _) wBatch)) from rfl] at hE
  cases inp with
  | nil =>
    wexec_at hE [Gen.Src.«_cds_wfcq_init», Gen.Src.«_cds_wfcq_node_init», hw]
    subst hE
    exact ⟨_, wlr_nil L _, .inr ⟨.inl rfl, _, _, rfl, .inl rfl⟩⟩
  | cons m rest =>
    wexec_at hE [Gen.Src.«_cds_wfcq_init», Gen.Src.«_cds_wfcq_node_init», Gen.Src.«___cds_wfcq_splice_blocking», hw]
    generalize hS : exec fuel Gen.Src.«___cds_wfcq_splice» _ _ = r at hE
    cases r with
    | error e => simp at hE
    | ok oS =>
      rcases oS with ⟨ev, en, ip, ctl⟩
      have key : ev.all (evOkW L) = true →
          ∃ ls', wlr L ⟨.at .splice, cnt, rt⟩ ev = some ls' ∧ SplicePost cnt rt ctl en ls' := fun hk =>
        splice_triple L fuel cnt rt _ _ _ _
          (by exact ⟨by simp [pubHead], by simp [pubTail], by simp [tmpHead], by simp [tmpTail], by simp, rfl⟩) hS hk
      have hm : absEvW L (Event.ext "pthread_mutex_init" [Val.ptr ((Loc.glob "&cbs_tmp_head").field "lock"), Val.int 0] m) = none := by
        simp [absEvW, hookNames]
      cases ctl with
      | normal => simp at hE
      | brk => simp at hE
      | cont => simp at hE
      | blocked =>
        simp at hE; subst hE
        simp only [List.all_cons, Bool.and_eq_true] at hok
        obtain ⟨ls', h1, h2⟩ := key hok.2
        refine ⟨ls', by simp [wlr_cons, hm, h1], ?_⟩
        rcases h2 with ⟨h, -⟩ | ⟨_, h, -⟩ | ⟨-, p, k, hl, hp⟩
        · simp at h
        · simp at h
        · exact .inr ⟨.inl rfl, p, k, hl, by rcases hp with h | h; exact .inl h; subst h; exact .inr (.inl rfl)⟩
      | fuel =>
        simp at hE; subst hE
        simp only [List.all_cons, Bool.and_eq_true] at hok
        obtain ⟨ls', h1, h2⟩ := key hok.2
        refine ⟨ls', by simp [wlr_cons, hm, h1], ?_⟩
        rcases h2 with ⟨h, -⟩ | ⟨_, h, -⟩ | ⟨-, p, k, hl, hp⟩
        · simp at h
        · simp at h
        · exact .inr ⟨.inr rfl, p, k, hl, by rcases hp with h | h; exact .inl h; subst h; exact .inr (.inl rfl)⟩
      | ret rv =>
        cases rv with
        | none => simp at hE
        | some v =>
          simp at hE
          generalize hB : exec fuel wBatch _ _ = rb at hE
          cases rb with
          | error e => simp at hE
          | ok oB =>
            simp at hE; subst hE
            simp only [List.all_cons, List.all_append, Bool.and_eq_true] at hok
            obtain ⟨ls1, h1, h2⟩ := key hok.2.1
            have fin : ∀ (sr : Int), v = .int sr →
                ((sr = 2 ∧ ∃ cnt0, ls1 = ⟨.at .stopchk, cnt0, rt⟩) ∨ (sr ≠ 2 ∧ ls1 = ⟨.first0, 0, rt⟩)) →
                ∃ ls', wlr L ls1 oB.events = some ls' ∧ IterPost L rtv rt oB.ctl oB.env ls' := by
              intro sr hv hcase
              subst hv
              obtain ⟨ls', h3, hf, h4⟩ := batch_triple L fuel rtv rt _ sr (by simp [hw]) (by simp [hr]) (by simp) _ _ _ _
                ⟨rfl, hcase⟩ hB hok.2.2
              refine ⟨ls', h3, ?_⟩
              rcases h4 with ⟨hc, hw', hr', k, hl⟩ | ⟨hc, k, p, hl, hp⟩
              · exact .inl ⟨hc, hw', hr', k, hl⟩
              · exact .inr ⟨hc, p, k, hl, .inr hp⟩
            rcases h2 with ⟨h, hl⟩ | ⟨sv, h, hne, hl⟩ | ⟨h, -⟩
            · simp only [Ctl.ret.injEq, Option.some.injEq] at h
              obtain ⟨ls', h3, h4⟩ := fin 2 h (.inl ⟨rfl, cnt, hl⟩)
              exact ⟨ls', by simp [wlr_cons, wlr_append, hm, h1, h3], h4⟩
            · simp only [Ctl.ret.injEq, Option.some.injEq] at h
              obtain ⟨ls', h3, h4⟩ := fin sv h (.inr ⟨hne, hl⟩)
              exact ⟨ls', by simp [wlr_cons, wlr_append, hm, h1, h3], h4⟩
            · rcases h with h | h <;> simp at h

end UrcuVerif.Src.WqR
