import UrcuVerif.Gen.Src
import UrcuVerif.Src.StackExec
import UrcuVerif.Src.ForkLocal
import UrcuVerif.Src.ForkExec
import UrcuVerif.Src.ForkBpRefine
/-!
# `urcu_bp_prune_registry()` and `urcu_bp_after_fork_child()` (`src/urcu-bp.c`)

The registry arena lives in the thread's private view (in the child of a fork nobody else runs, and the caller holds
`rcu_registry_lock`): `chunk->capacity`, `chunk->used`, `reader->alloc`, `reader->tid`, `reader->ctr` are plain accesses;
`reader = &chunk->readers[spot_idx]`.  The chunk list, `pthread_self()` and `cds_list_del` are external events.
-/
set_option linter.unusedSimpArgs false
set_option linter.unusedVariables false
set_option maxRecDepth 8192
namespace UrcuVerif.Src.ForkB
open UrcuVerif UrcuVerif.Src UrcuVerif.Src.ForkL UrcuVerif.Src.ForkX

/-- oracle class: every value is NULL or a pointer (chunk-list answers; `pthread_t` values are opaque: they are modelled
as NULL or symbolic pointers, only compared for equality) -/
def Good (v : Val) : Prop := v = .int 0 ∨ ∃ c, v = .ptr c
def AllGood (inp : List Val) : Prop := ∀ v ∈ inp, Good v

theorem AllGood_cons (v : Val) (rest : List Val) (h : AllGood (v :: rest)) : Good v ∧ AllGood rest :=
  ⟨h v (List.mem_cons_self), fun w hw => h w (List.mem_cons_of_mem _ hw)⟩

/-- the fields `cleanup_thread` writes -/
def arenaField : Loc → Bool
  | .field _ f => f == "ctr" || f == "tid" || f == "alloc" || f == "used"
  | _ => false

/-- everything but those fields is as in `p0` -/
def Frame (p0 p : Loc → Option Val) : Prop := ∀ m, arenaField m = false → p m = p0 m

/-- the private view has a value of the right type for the arena fields of every object: `capacity`, `used` integers,
`alloc`, `tid` anything (Skolemised, so that the loads can be rewritten) -/
def WFall (p : Loc → Option Val) : Prop :=
  ∃ (capf uf : Loc → Int) (allocf tidf : Loc → Val), ∀ c,
    p (.field c "capacity") = some (.int (capf c)) ∧ p (.field c "used") = some (.int (uf c)) ∧
    p (.field c "alloc") = some (allocf c) ∧ p (.field c "tid") = some (tidf c)

def prFirst : Stmt := seqNth 0 Gen.Src.«bp.urcu_bp_prune_registry»
def prOuter : Stmt := (firstLoop (seqNth 1 Gen.Src.«bp.urcu_bp_prune_registry»)).getD .skip
def prHead : Stmt := (splitSeq 4 prOuter).1
def prMid : Stmt := (firstLoop (splitSeq 4 prOuter).2).getD .skip
theorem prune_eq : Gen.Src.«bp.urcu_bp_prune_registry» = .seq prFirst (.loop prOuter) := rfl
theorem prOuter_split : (splitSeq 4 prOuter).2 = .loop prMid := rfl

def prCond : Expr := match prMid with | .ifte c _ _ => c | _ => .null
def prThen : Stmt := match prMid with | .ifte _ a _ => a | _ => .skip
theorem prMid_eq : prMid = .ifte prCond prThen .brk := rfl
def prInner : Stmt := (firstLoop (seqNth 0 prThen)).getD .skip
def prStep : Stmt := (splitSeq 0 prThen).2
theorem prThen_eq : prThen = .seq (.loop prInner) prStep := rfl
def prReader : Stmt := seqNth 0 prInner
def prSlot : Stmt := (splitSeq 0 prInner).2
theorem prInner_eq : prInner = .seq prReader prSlot := rfl

/-- common part of the invariants: arena well-typed, frame, oracle class, automaton at `ac1` -/
def PrBase (p0 : Loc → Option Val) : Pre BPc := fun env inp ls =>
  WFall env.priv ∧ Frame p0 env.priv ∧ AllGood inp ∧ ls = .at .ac1

/-- top of the outer loop: the lookahead `_t1` is NULL or a pointer -/
def PrI (p0 : Loc → Option Val) : Pre BPc := fun env inp ls =>
  PrBase p0 env inp ls ∧ ∃ v, env.vars "_t1" = some v ∧ Good v
/-- top of the slot loop -/
def PrJ (p0 : Loc → Option Val) : Pre BPc := fun env inp ls =>
  PrBase p0 env inp ls ∧ (∃ v, env.vars "_t1" = some v ∧ Good v) ∧ (∃ c, env.vars "chunk" = some (.ptr c)) ∧
    (∃ k : Int, env.vars "spot_idx" = some (.int k)) ∧ env.vars "_forbrk1" = some (.int 0)
/-- inside the `continue` wrapper, `reader` computed -/
def PrK (p0 : Loc → Option Val) : Pre BPc := fun env inp ls =>
  PrJ p0 env inp ls ∧ ∃ r, env.vars "reader" = some (.ptr r)

theorem prFirst_tri (p0 : Loc → Option Val) (fuel : Nat) :
    Tri RB fuel prFirst (fun env inp ls => WFall env.priv ∧ Frame p0 env.priv ∧ AllGood inp ∧ ls = .at .ac0)
      (norm (PrI p0)) := by
  intro env inp ls ⟨hwf, hfr, hg, hls⟩
  subst hls
  cases inp with
  | nil => fexec [prFirst, Gen.Src.«bp.urcu_bp_prune_registry», RB, blr, brun]
  | cons v rest =>
    obtain ⟨hv, hg⟩ := AllGood_cons v rest hg
    fexec [prFirst, Gen.Src.«bp.urcu_bp_prune_registry», RB, blr, brun, absEvB, bstep, chunkList, PrI, PrBase]

theorem prHead_tri (p0 : Loc → Option Val) (fuel : Nat) :
    Tri RB fuel prHead (PrI p0) (headPost (PrJ p0) (PrBase p0)) := by
  intro env inp ls ⟨⟨hwf, hfr, hg, hls⟩, v, hv, hgv⟩
  subst hls
  rcases hgv with rfl | ⟨c, rfl⟩
  · fexec [prHead, prOuter, Gen.Src.«bp.urcu_bp_prune_registry», RB, blr, brun, headPost, brkPost, PrBase]
  · cases inp with
    | nil => fexec [prHead, prOuter, Gen.Src.«bp.urcu_bp_prune_registry», RB, blr, brun, headPost, brkPost]
    | cons nx rest =>
      obtain ⟨hnx, hg⟩ := AllGood_cons nx rest hg
      fexec [prHead, prOuter, Gen.Src.«bp.urcu_bp_prune_registry», RB, blr, brun, headPost, brkPost, absEvB, bstep,
        chunkList, PrJ, PrBase]

theorem WFall_clean (p : Loc → Option Val) (c r : Loc) (u : Int) (h : WFall p) :
    WFall (fun m => if m = c.field "used" then some (.int u) else if m = r.field "alloc" then some (.int 0)
      else if m = r.field "tid" then some (.int 0) else if m = r.field "ctr" then some (.int 0) else p m) := by
  obtain ⟨capf, uf, allocf, tidf, hall⟩ := h
  refine ⟨capf, fun x => if x = c then u else uf x, fun x => if x = r then .int 0 else allocf x,
    fun x => if x = r then .int 0 else tidf x, ?_⟩
  intro x
  obtain ⟨h1, h2, h3, h4⟩ := hall x
  refine ⟨?_, ?_, ?_, ?_⟩ <;> simp [h1, h2, h3, h4] <;> split <;> simp_all

theorem Frame_clean (p0 p : Loc → Option Val) (c r : Loc) (u : Int) (h : Frame p0 p) :
    Frame p0 (fun m => if m = c.field "used" then some (.int u) else if m = r.field "alloc" then some (.int 0)
      else if m = r.field "tid" then some (.int 0) else if m = r.field "ctr" then some (.int 0) else p m) := by
  intro m hm
  have := h m hm
  simp only
  repeat' split
  all_goals (first | (rename_i heq; subst heq; simp [arenaField] at hm) | exact this)

theorem prReader_tri (p0 : Loc → Option Val) (fuel : Nat) :
    Tri RB fuel prReader (PrJ p0) (norm (PrK p0)) := by
  intro env inp ls ⟨⟨hwf, hfr, hg, hls⟩, ⟨v, hv, hgv⟩, ⟨c, hc⟩, ⟨k, hk⟩, hfb⟩
  subst hls
  fexec [prReader, prInner, prThen, prMid, prOuter, Gen.Src.«bp.urcu_bp_prune_registry», RB, blr, brun, PrK, PrJ, PrBase]

theorem prSlot_tri (p0 : Loc → Option Val) (fuel : Nat) :
    Tri RB fuel prSlot (PrK p0) (fun c env inp ls => if c.goesOn then PrJ p0 env inp ls else brkPost (PrJ p0) c env inp ls) := by
  intro env inp ls ⟨⟨⟨hwf, hfr, hg, hls⟩, ⟨v, hv, hgv⟩, ⟨c, hc⟩, ⟨k, hk⟩, hfb⟩, r, hr⟩
  subst hls
  obtain ⟨capf, uf, allocf, tidf, hall⟩ := hwf
  obtain ⟨-, hcu, -, -⟩ := hall c
  obtain ⟨-, -, hra, hrt⟩ := hall r
  by_cases ha : (allocf r).truthy = true
  · cases inp with
    | nil =>
      fexec [prSlot, prInner, prThen, prMid, prOuter, Gen.Src.«bp.urcu_bp_prune_registry», RB, blr, brun, brkPost]
    | cons sv rest =>
      obtain ⟨hsv, hg⟩ := AllGood_cons sv rest hg
      by_cases ht : tidf r = sv
      · fexec [prSlot, prInner, prThen, prMid, prOuter, Gen.Src.«bp.urcu_bp_prune_registry», RB, blr, brun, brkPost,
          absEvB, bstep, PrJ, PrBase]
        exact ⟨capf, uf, allocf, tidf, hall⟩
      · cases rest with
        | nil =>
          fexec [prSlot, prInner, prThen, prMid, prOuter, Gen.Src.«bp.urcu_bp_prune_registry», Gen.Src.«bp.cleanup_thread»,
            RB, blr, brun, brkPost, absEvB, bstep]
        | cons d rest =>
          obtain ⟨hd, hg⟩ := AllGood_cons d rest hg
          fexec [prSlot, prInner, prThen, prMid, prOuter, Gen.Src.«bp.urcu_bp_prune_registry», Gen.Src.«bp.cleanup_thread»,
            RB, blr, brun, brkPost, absEvB, bstep, PrJ, PrBase]
          exact ⟨WFall_clean _ _ _ _ ⟨capf, uf, allocf, tidf, hall⟩, Frame_clean _ _ _ _ _ hfr⟩
  · fexec [prSlot, prInner, prThen, prMid, prOuter, Gen.Src.«bp.urcu_bp_prune_registry», RB, blr, brun, brkPost,
      PrJ, PrBase]
    exact ⟨capf, uf, allocf, tidf, hall⟩

theorem prInner_tri (p0 : Loc → Option Val) (fuel : Nat) :
    Tri RB fuel prInner (PrJ p0)
      (fun c env inp ls => if c.goesOn then PrJ p0 env inp ls else brkPost (PrJ p0) c env inp ls) := by
  rw [prInner_eq]
  refine Tri.seq (prReader_tri p0 fuel) (prSlot_tri p0 fuel) ?_
  intro c env inp ls hc h
  cases c <;> simp_all [norm, Ctl.goesOn, brkPost]

theorem prStep_tri (p0 : Loc → Option Val) (fuel : Nat) : Tri RB fuel prStep (PrJ p0) (norm (PrJ p0)) := by
  intro env inp ls ⟨⟨hwf, hfr, hg, hls⟩, ⟨v, hv, hgv⟩, ⟨c, hc⟩, ⟨k, hk⟩, hfb⟩
  subst hls
  fexec [prStep, prThen, prMid, prOuter, Gen.Src.«bp.urcu_bp_prune_registry», RB, blr, brun, PrJ, PrBase]

theorem prThen_tri (p0 : Loc → Option Val) (fuel : Nat) :
    Tri RB fuel prThen (PrJ p0)
      (fun c env inp ls => if c.goesOn then PrJ p0 env inp ls else brkPost (PrI p0) c env inp ls) := by
  rw [prThen_eq]
  refine Tri.seq (Tri.while _ _ (prInner_tri p0 fuel)) ((prStep_tri p0 fuel).conseq (fun _ _ _ h => h) ?_) ?_
  · intro c env inp ls h
    cases c <;> simp_all [norm, Ctl.goesOn, brkPost]
  · intro c env inp ls hc h
    cases c <;> simp_all [norm, Ctl.goesOn, brkPost]

theorem prMid_tri (p0 : Loc → Option Val) (fuel : Nat) :
    Tri RB fuel prMid (PrJ p0)
      (fun c env inp ls => if c.goesOn then PrJ p0 env inp ls else brkPost (PrI p0) c env inp ls) := by
  rw [prMid_eq]
  refine Tri.ifte (PA := PrJ p0) (PB := PrJ p0) ?_ (prThen_tri p0 fuel) ?_
  · intro env inp ls h
    obtain ⟨⟨hwf, hfr, hg, hls⟩, ⟨v, hv, hgv⟩, ⟨c, hc⟩, ⟨k, hk⟩, hfb⟩ := h
    obtain ⟨capf, uf, allocf, tidf, hall⟩ := hwf
    obtain ⟨hcap, -⟩ := hall c
    refine ⟨boolV (k < capf c), ?_, ?_⟩
    · simp [prCond, prMid, prOuter, Gen.Src.«bp.urcu_bp_prune_registry», firstLoop, splitSeq, seqNth, block, eval, asLoc,
        bind, Except.bind, hc, hk, hcap, evalBin_lt]
    · split <;> exact ⟨⟨⟨capf, uf, allocf, tidf, hall⟩, hfr, hg, hls⟩, ⟨v, hv, hgv⟩, ⟨c, hc⟩, ⟨k, hk⟩, hfb⟩
  · intro env inp ls h
    obtain ⟨hb, hv, -⟩ := h
    obtain ⟨hwf, hfr, hg, hls⟩ := hb
    subst hls
    fexec [RB, blr, brun, brkPost, PrI, PrBase]

theorem prOuter_tri (p0 : Loc → Option Val) (fuel : Nat) :
    Tri RB fuel prOuter (PrI p0)
      (fun c env inp ls => if c.goesOn then PrI p0 env inp ls else brkPost (PrBase p0) c env inp ls) := by
  apply Tri.split 4
  rw [prOuter_split]
  exact Tri.head_while (PrI p0) (PrJ p0) (PrBase p0) (prHead_tri p0 fuel) (prMid_tri p0 fuel)

/-- precondition of the prune: the arena fields are well-typed, oracle of the class `AllGood`, automaton at `ac0` -/
def PrPre (p0 : Loc → Option Val) : Pre BPc := fun env inp ls =>
  WFall env.priv ∧ Frame p0 env.priv ∧ AllGood inp ∧ ls = .at .ac0

/-- **`urcu_bp_prune_registry()`**: never fails; the events are `pruneFirst ; prune*` (L2's atomic `acPrune`, taken at the
first event); only `ctr` / `tid` / `alloc` / `used` fields are written (`Frame`) -/
theorem prune_tri (p0 : Loc → Option Val) (fuel : Nat) :
    Tri RB fuel Gen.Src.«bp.urcu_bp_prune_registry» (PrPre p0) (norm (PrBase p0)) := by
  rw [prune_eq]
  exact Tri.seq (prFirst_tri p0 fuel) (Tri.while _ _ (prOuter_tri p0 fuel))
    (fun c env inp ls hc h => norm_of_ne _ _ c env inp ls hc h)

/-- what a visit of one slot does (`prSlot` = the body of the `for` over `spot_idx` after `reader = &chunk->readers[spot_idx]`),
for a reader record `r` of chunk `c` with `alloc = av`, `tid = tv`, when `pthread_self()` answers `sv`:
the slot is **pruned** (`ctr = tid = alloc = 0`, `cds_list_del(&r->node)`, `c->used` decremented) **iff it is allocated and
its `tid` is not the caller's**; otherwise nothing is written and no list operation is performed -/
theorem prSlot_effect (fuel : Nat) (env : Env) (c r : Loc) (av tv sv d : Val) (u : Int) (rest : List Val)
    (hc : env.vars "chunk" = some (.ptr c)) (hr : env.vars "reader" = some (.ptr r))
    (ha : env.priv (.field r "alloc") = some av) (ht : env.priv (.field r "tid") = some tv)
    (hu : env.priv (.field c "used") = some (.int u)) :
    ∃ out, exec fuel prSlot env (sv :: d :: rest) = .ok out ∧ out.ctl = .brk ∧
      (if av.truthy = true ∧ tv ≠ sv then
        out.events = [.ext "pthread_self" [] sv, .ext "cds_list_del" [.ptr (.field r "node")] d] ∧
        out.env.priv (.field r "alloc") = some (.int 0) ∧ out.env.priv (.field r "tid") = some (.int 0) ∧
        out.env.priv (.field r "ctr") = some (.int 0) ∧ out.env.priv (.field c "used") = some (.int (u - 1))
       else
        out.env.priv = env.priv ∧
          out.events = if av.truthy = true then [.ext "pthread_self" [] sv] else []) := by
  by_cases h1 : av.truthy = true
  · by_cases h2 : tv = sv
    · fexec [prSlot, prInner, prThen, prMid, prOuter, Gen.Src.«bp.urcu_bp_prune_registry», h1, h2]
    · fexec [prSlot, prInner, prThen, prMid, prOuter, Gen.Src.«bp.urcu_bp_prune_registry», Gen.Src.«bp.cleanup_thread»,
        h1, h2]
  · fexec [prSlot, prInner, prThen, prMid, prOuter, Gen.Src.«bp.urcu_bp_prune_registry», h1]

/-- **`urcu_bp_after_fork_child()`** from L2's `ac0`, `m` = the content of `saved_fork_signal_mask`: never fails; events
`pruneFirst ; prune* ; unlockRg ; unlockGp ; sigSet` (L2 `acPrune ; acRg ; acGp`); a completed call is at `idle`, `&oldmask`
holds the saved mask when the final `pthread_sigmask(SIG_SETMASK, &oldmask, NULL)` is issued -/
theorem bp_after_fork_child_exec (fuel : Nat) (env : Env) (inp : List Val) (m : Val)
    (hwf : WFall env.priv) (hg : AllGood inp) (hm : env.priv savedMask = some m) :
    ∃ out, exec fuel Gen.Src.«bp.urcu_bp_after_fork_child» env inp = .ok out ∧
      ∃ pc', blr (.at .ac0) out.events = some pc' ∧ (out.ctl = .normal ∨ out.ctl = .blocked ∨ out.ctl = .fuel) ∧
        (out.ctl = .normal → pc' = .at .idle ∧ out.env.priv oldmask = some m ∧
          out.events.getLast? = some (.ext "pthread_sigmask" [.int 2, .ptr oldmask, .int 0] (out.env.vars "ret").get!)) := by
  rw [after_fork_child_eq, exec_seq]
  have hcall := Tri.call0 (R := RB) (fuel := fuel) (body := Gen.Src.«bp.urcu_bp_prune_registry»)
    (P := fun pr i s => WFall pr ∧ Frame env.priv pr ∧ AllGood i ∧ s = .at .ac0)
    (Q := fun pr i s => WFall pr ∧ Frame env.priv pr ∧ AllGood i ∧ s = .at .ac1) (prune_tri env.priv fuel)
  obtain ⟨o1, ho1, pc1, hl1, hq1⟩ := hcall env inp (.at .ac0) ⟨hwf, fun _ _ => rfl, hg, rfl⟩
  rw [ho1]
  rcases o1 with ⟨ev1, en1, ip1, c1⟩
  cases c1 with
  | normal =>
    obtain ⟨-, hfr, -, hpc⟩ := hq1
    simp only at hpc hl1 hfr; subst hpc
    have hm1 : en1.priv savedMask = some m := by rw [hfr savedMask rfl]; exact hm
    obtain ⟨o2, ho2, pc2, hl2, hm2, hcase⟩ := bp_after_fork_child_tail_exec fuel en1 ip1 m hm1
    simp only [seqPost, ho2]
    refine ⟨_, rfl, pc2, ?_, ?_, ?_⟩
    · show blr _ (ev1 ++ o2.events) = _
      rw [blr_append]
      change RB.lr _ _ = _ at hl1
      simp only [RB] at hl1
      rw [hl1]; exact hl2
    · rcases hcase with ⟨h, -⟩ | ⟨h, -⟩ <;> simp [h]
    · intro hn
      simp only at hn
      rcases hcase with ⟨h, -⟩ | ⟨-, hpc2, hlast⟩
      · rw [hn] at h; cases h
      · refine ⟨hpc2, hm2, ?_⟩
        simp [List.getLast?_append, hlast]
  | blocked =>
    simp only [seqPost]
    exact ⟨_, rfl, pc1, hl1, by simp, by simp⟩
  | fuel =>
    simp only [seqPost]
    exact ⟨_, rfl, pc1, hl1, by simp, by simp⟩
  | brk => simp [norm] at hq1
  | cont => simp [norm] at hq1
  | ret v => simp [norm] at hq1

end UrcuVerif.Src.ForkB
