import UrcuVerif.Src.IR
import UrcuVerif.Gen.Src
/-!
# `urcu_ref_get_safe`, `urcu_ref_get_unless_zero`, `urcu_ref_put` (include/urcu/ref.h): exact event shapes

No L2 model: the statements are about the generated IR directly.  For every loop budget and every oracle of integer
values (`refcount` is a `long`), the run of the generated function is **exactly** the run of the small specification
functions below (`getSpec`, `putSpec`): same events, same remaining oracle, same control.  Corollaries:
`get_safe` / `get_unless_zero` never attempt a store (`cmpxchg`) from a count that is `LONG_MAX` (resp. `0` or
`LONG_MAX`), every `cmpxchg` is `old → old + 1` from the last value observed; `put` calls `release` iff the decremented
value is `0`.
-/
set_option linter.unusedSimpArgs false
set_option linter.unusedVariables false
namespace UrcuVerif.Src.Queue.RefR
open UrcuVerif.Src

def IntInp (inp : List Val) : Prop := ∀ v ∈ inp, ∃ n : Int, v = .int n

/-- the `for (;;)` of `urcu_ref_get_safe` (`stop old` = `old == LONG_MAX`) and of `urcu_ref_get_unless_zero`
(`stop old` = `old == 0 || old == LONG_MAX`) as a function of the last value observed and the oracle -/
def loopSpec (rl : Loc) (stop : Int → Bool) : Nat → Int → List Val → List Event × List Val × Ctl
  | 0, _, inp => ([], inp, .fuel)
  | n+1, old, inp =>
    if stop old then ([], inp, .ret (some (.int 0)))
    else match inp with
      | [] => ([], [], .blocked)
      | r :: rest =>
        let e := Event.cas (.field rl "refcount") (.int old) (.int (old + 1)) r 6 0
        if r = .int old then ([e], rest, .ret (some (.int 1)))
        else match r with
          | .int r' => let x := loopSpec rl stop n r' rest; (e :: x.1, x.2.1, x.2.2)
          | _ => ([e], rest, .fuel)   -- not reached for integer oracles

/-- whole function: the initial relaxed load, then the loop -/
def getSpec (rl : Loc) (stop : Int → Bool) (fuel : Nat) : List Val → List Event × List Val × Ctl
  | [] => ([], [], .blocked)
  | .int v :: rest => let x := loopSpec rl stop fuel v rest; (.ld (.field rl "refcount") (.int v) 0 :: x.1, x.2.1, x.2.2)
  | v :: rest => ([.ld (.field rl "refcount") v 0], rest, .fuel)   -- not reached for integer oracles

def stopSafe (old : Int) : Bool := old = 9223372036854775807            -- LONG_MAX
def stopUnlessZero (old : Int) : Bool := old = 0 || old = 9223372036854775807

/-! ### shape facts about the specification -/

/-- every event of the loop is a `cmpxchg(&ref->refcount, o, o + 1)` from a count `o` at which the loop does not stop -/
theorem loopSpec_shape (rl : Loc) (stop : Int → Bool) (n : Nat) : ∀ (old : Int) (inp : List Val), IntInp inp →
    ∀ e ∈ (loopSpec rl stop n old inp).1, ∃ o r : Int,
      e = .cas (.field rl "refcount") (.int o) (.int (o + 1)) (.int r) 6 0 ∧ stop o = false := by
  induction n with
  | zero => intro old inp _ e he; simp [loopSpec] at he
  | succ n ih =>
    intro old inp hint e he
    unfold loopSpec at he
    by_cases hs : stop old = true
    · simp [hs] at he
    · simp only [hs] at he
      cases inp with
      | nil => simp at he
      | cons r rest =>
        obtain ⟨r', rfl⟩ := hint r (by simp)
        have hrest : IntInp rest := fun v hv => hint v (by simp [hv])
        by_cases hr : r' = old
        · simp [hr] at he; exact ⟨old, old, by simp [he], by simpa using hs⟩
        · simp [hr] at he
          rcases he with rfl | he
          · exact ⟨old, r', rfl, by simpa using hs⟩
          · exact ih r' rest hrest e he

/-- the loop answers `0` only at a count where it stops, without any further event; it answers `1` only after a
`cmpxchg` that returned the expected value -/
theorem loopSpec_ret (rl : Loc) (stop : Int → Bool) (n : Nat) : ∀ (old : Int) (inp : List Val), IntInp inp →
    ((loopSpec rl stop n old inp).2.2 = .ret (some (.int 0)) →
      ∃ o, stop o = true ∧ (o = old ∧ (loopSpec rl stop n old inp).1 = [] ∨
        ∃ pre o', (loopSpec rl stop n old inp).1 = pre ++ [.cas (.field rl "refcount") (.int o') (.int (o' + 1)) (.int o) 6 0])) ∧
    ((loopSpec rl stop n old inp).2.2 = .ret (some (.int 1)) →
      ∃ pre o, (loopSpec rl stop n old inp).1 = pre ++ [.cas (.field rl "refcount") (.int o) (.int (o + 1)) (.int o) 6 0]) := by
  induction n with
  | zero => intro old inp _; simp [loopSpec]
  | succ n ih =>
    intro old inp hint
    unfold loopSpec
    by_cases hs : stop old = true
    · simp [hs]
    · simp only [hs]
      cases inp with
      | nil => simp
      | cons r rest =>
        obtain ⟨r', rfl⟩ := hint r (by simp)
        have hrest : IntInp rest := fun v hv => hint v (by simp [hv])
        by_cases hr : r' = old
        · subst hr; simp; exact ⟨[], r', rfl⟩
        · simp only [Val.int.injEq, hr, if_false, Bool.false_eq_true]
          obtain ⟨ih0, ih1⟩ := ih r' rest hrest
          constructor
          · intro h
            obtain ⟨o, hso, ho⟩ := ih0 h
            refine ⟨o, hso, Or.inr ?_⟩
            rcases ho with ⟨rfl, hnil⟩ | ⟨pre, o', hpre⟩
            · exact ⟨[], old, by simp [hnil]⟩
            · exact ⟨Event.cas (.field rl "refcount") (.int old) (.int (old + 1)) (.int r') 6 0 :: pre, o', by simp [hpre]⟩
          · intro h
            obtain ⟨pre, o, hpre⟩ := ih1 h
            exact ⟨Event.cas (.field rl "refcount") (.int old) (.int (old + 1)) (.int r') 6 0 :: pre, o, by simp [hpre]⟩


/-! ### `urcu_ref_get_safe` -/

/-- the body of the `for (;;)` of the generated `urcu_ref_get_safe` (extracted, not copied) -/
def safeBody : Stmt :=
  match Gen.Src.«urcu_ref_get_safe» with
  | .seq _ (.seq _ (.loop b)) => b
  | _ => .skip

theorem safeBody_exec (fuel : Nat) (env : Env) (inp : List Val) (rl : Loc) (old : Int)
    (h1 : env.vars "ref" = some (.ptr rl)) (h2 : env.vars "old" = some (.int old)) (hint : IntInp inp) :
    ∃ o, exec fuel safeBody env inp = .ok o ∧
      ((stopSafe old = true ∧ o.events = [] ∧ o.inp = inp ∧ o.ctl = .ret (some (.int 0))) ∨
       (stopSafe old = false ∧ inp = [] ∧ o.events = [] ∧ o.inp = [] ∧ o.ctl = .blocked) ∨
       (stopSafe old = false ∧ ∃ rest, inp = .int old :: rest ∧ o.inp = rest ∧ o.ctl = .ret (some (.int 1)) ∧
          o.events = [.cas (.field rl "refcount") (.int old) (.int (old + 1)) (.int old) 6 0]) ∨
       (stopSafe old = false ∧ ∃ r rest, inp = .int r :: rest ∧ r ≠ old ∧ o.inp = rest ∧ o.ctl = .normal ∧
          o.env.vars "ref" = some (.ptr rl) ∧ o.env.vars "old" = some (.int r) ∧
          o.events = [.cas (.field rl "refcount") (.int old) (.int (old + 1)) (.int r) 6 0])) := by
  by_cases hs : stopSafe old = true
  · have hs' := hs
    simp [stopSafe] at hs'
    simp [safeBody, Gen.Src.«urcu_ref_get_safe», block, exec, eval, evalArgs, execPrim, asLoc, bind, Except.bind, h1, h2,
      Env.setVar, setDst, Val.truthy, evalBin, boolV, hs, hs'] <;> simp [stopSafe]
  · have hs' := hs
    simp [stopSafe] at hs'
    cases inp with
    | nil =>
      simp [safeBody, Gen.Src.«urcu_ref_get_safe», block, exec, eval, evalArgs, execPrim, asLoc, bind, Except.bind, h1, h2,
        Env.setVar, setDst, Val.truthy, evalBin, boolV, hs, hs']
    | cons r rest =>
      obtain ⟨r', rfl⟩ := hint r (by simp)
      by_cases hr : r' = old
      · subst hr
        simp [safeBody, Gen.Src.«urcu_ref_get_safe», block, exec, eval, evalArgs, execPrim, asLoc, bind, Except.bind, h1, h2,
          Env.setVar, setDst, Val.truthy, evalBin, boolV, hs, hs']
      · simp [safeBody, Gen.Src.«urcu_ref_get_safe», block, exec, eval, evalArgs, execPrim, asLoc, bind, Except.bind, h1, h2,
          Env.setVar, setDst, Val.truthy, evalBin, boolV, hs, hs', hr]
        exact ⟨_, _, ⟨rfl, rfl⟩, hr, rfl, rfl⟩

theorem safe_loop_run (fuel : Nat) (rl : Loc) (n : Nat) : ∀ (env : Env) (inp : List Val) (acc : List Event) (old : Int),
    env.vars "ref" = some (.ptr rl) → env.vars "old" = some (.int old) → IntInp inp →
    ∃ out, iterate (fun e i => exec fuel safeBody e i) n env inp acc = .ok out ∧
      out.events = acc ++ (loopSpec rl stopSafe n old inp).1 ∧ out.inp = (loopSpec rl stopSafe n old inp).2.1 ∧
      out.ctl = (loopSpec rl stopSafe n old inp).2.2 := by
  induction n with
  | zero => intro env inp acc old _ _ _; exact ⟨_, rfl, by simp [loopSpec], rfl, rfl⟩
  | succ n ih =>
    intro env inp acc old h1 h2 hint
    obtain ⟨o, ho, hcase⟩ := safeBody_exec fuel env inp rl old h1 h2 hint
    simp only [iterate, ho, bind, Except.bind]
    rcases hcase with ⟨hs, hev, hinp, hctl⟩ | ⟨hs, rfl, hev, hinp, hctl⟩ | ⟨hs, rest, rfl, hinp, hctl, hev⟩ |
      ⟨hs, r, rest, rfl, hr, hinp, hctl, h1', h2', hev⟩
    · simp only [hctl]; exact ⟨_, rfl, by simp [loopSpec, hs, hev], by simp [loopSpec, hs, hinp], by simp [loopSpec, hs]⟩
    · simp only [hctl]; exact ⟨_, rfl, by simp [loopSpec, hs, hev], by simp [loopSpec, hs, hinp], by simp [loopSpec, hs]⟩
    · simp only [hctl]; exact ⟨_, rfl, by simp [loopSpec, hs, hev], by simp [loopSpec, hs, hinp], by simp [loopSpec, hs]⟩
    · simp only [hctl]
      obtain ⟨out, hit, he, hi, hc⟩ := ih o.env o.inp (acc ++ o.events) r h1' h2'
        (hinp ▸ fun v hv => hint v (by simp [hv]))
      refine ⟨out, hit, ?_, ?_, ?_⟩
      · simp [he, hev, hinp, loopSpec, hs, hr]
      · simp [hi, hinp, loopSpec, hs, hr]
      · simp [hc, hinp, loopSpec, hs, hr]

/-- **`urcu_ref_get_safe(ref)`**: for every loop budget and every oracle of integers the run is exactly `getSpec … stopSafe` -/
theorem urcu_ref_get_safe_exec (fuel : Nat) (env : Env) (inp : List Val) (rl : Loc)
    (h1 : env.vars "ref" = some (.ptr rl)) (hint : IntInp inp) :
    ∃ out, exec fuel Gen.Src.«urcu_ref_get_safe» env inp = .ok out ∧ out.events = (getSpec rl stopSafe fuel inp).1 ∧
      out.inp = (getSpec rl stopSafe fuel inp).2.1 ∧ out.ctl = (getSpec rl stopSafe fuel inp).2.2 := by
  rw [show Gen.Src.«urcu_ref_get_safe» = Stmt.seq _ (.seq _ (.loop safeBody)) from rfl]
  cases inp with
  | nil => simp [exec, eval, evalArgs, execPrim, asLoc, bind, Except.bind, h1, getSpec]
  | cons v rest =>
    obtain ⟨v', rfl⟩ := hint v (by simp)
    simp only [exec, eval, evalArgs, execPrim, asLoc, bind, Except.bind, h1, setDst, Env.setVar, if_true]
    obtain ⟨out, hit, he, hi, hc⟩ := safe_loop_run fuel rl fuel
      { vars := fun y => if y = "old" then some (Val.int v') else if y = "_t1" then some (Val.int v') else env.vars y,
        priv := env.priv } rest [] v' (by simp [h1]) (by simp) (fun w hw => hint w (by simp [hw]))
    simp only [hit]
    exact ⟨_, rfl, by simp [getSpec, he], by simp [getSpec, hi], by simp [getSpec, hc]⟩

/-! ### `urcu_ref_get_unless_zero` -/

/-- the body of the `for (;;)` of the generated `urcu_ref_get_unless_zero` (extracted, not copied) -/
def unlessZeroBody : Stmt :=
  match Gen.Src.«urcu_ref_get_unless_zero» with
  | .seq _ (.seq _ (.loop b)) => b
  | _ => .skip

theorem unlessZeroBody_exec (fuel : Nat) (env : Env) (inp : List Val) (rl : Loc) (old : Int)
    (h1 : env.vars "ref" = some (.ptr rl)) (h2 : env.vars "old" = some (.int old)) (hint : IntInp inp) :
    ∃ o, exec fuel unlessZeroBody env inp = .ok o ∧
      ((stopUnlessZero old = true ∧ o.events = [] ∧ o.inp = inp ∧ o.ctl = .ret (some (.int 0))) ∨
       (stopUnlessZero old = false ∧ inp = [] ∧ o.events = [] ∧ o.inp = [] ∧ o.ctl = .blocked) ∨
       (stopUnlessZero old = false ∧ ∃ rest, inp = .int old :: rest ∧ o.inp = rest ∧ o.ctl = .ret (some (.int 1)) ∧
          o.events = [.cas (.field rl "refcount") (.int old) (.int (old + 1)) (.int old) 6 0]) ∨
       (stopUnlessZero old = false ∧ ∃ r rest, inp = .int r :: rest ∧ r ≠ old ∧ o.inp = rest ∧ o.ctl = .normal ∧
          o.env.vars "ref" = some (.ptr rl) ∧ o.env.vars "old" = some (.int r) ∧
          o.events = [.cas (.field rl "refcount") (.int old) (.int (old + 1)) (.int r) 6 0])) := by
  by_cases hs : stopUnlessZero old = true
  · have hs' := hs
    simp [stopUnlessZero] at hs'
    simp [unlessZeroBody, Gen.Src.«urcu_ref_get_unless_zero», block, exec, eval, evalArgs, execPrim, asLoc, bind, Except.bind, h1, h2,
      Env.setVar, setDst, Val.truthy, evalBin, boolV, hs, hs'] <;> simp [stopUnlessZero]
  · have hs' := hs
    simp [stopUnlessZero] at hs'
    cases inp with
    | nil =>
      simp [unlessZeroBody, Gen.Src.«urcu_ref_get_unless_zero», block, exec, eval, evalArgs, execPrim, asLoc, bind, Except.bind, h1, h2,
        Env.setVar, setDst, Val.truthy, evalBin, boolV, hs, hs']
    | cons r rest =>
      obtain ⟨r', rfl⟩ := hint r (by simp)
      by_cases hr : r' = old
      · subst hr
        simp [unlessZeroBody, Gen.Src.«urcu_ref_get_unless_zero», block, exec, eval, evalArgs, execPrim, asLoc, bind, Except.bind, h1, h2,
          Env.setVar, setDst, Val.truthy, evalBin, boolV, hs, hs']
      · simp [unlessZeroBody, Gen.Src.«urcu_ref_get_unless_zero», block, exec, eval, evalArgs, execPrim, asLoc, bind, Except.bind, h1, h2,
          Env.setVar, setDst, Val.truthy, evalBin, boolV, hs, hs', hr]
        exact ⟨_, _, ⟨rfl, rfl⟩, hr, rfl, rfl⟩

theorem unlessZero_loop_run (fuel : Nat) (rl : Loc) (n : Nat) : ∀ (env : Env) (inp : List Val) (acc : List Event) (old : Int),
    env.vars "ref" = some (.ptr rl) → env.vars "old" = some (.int old) → IntInp inp →
    ∃ out, iterate (fun e i => exec fuel unlessZeroBody e i) n env inp acc = .ok out ∧
      out.events = acc ++ (loopSpec rl stopUnlessZero n old inp).1 ∧ out.inp = (loopSpec rl stopUnlessZero n old inp).2.1 ∧
      out.ctl = (loopSpec rl stopUnlessZero n old inp).2.2 := by
  induction n with
  | zero => intro env inp acc old _ _ _; exact ⟨_, rfl, by simp [loopSpec], rfl, rfl⟩
  | succ n ih =>
    intro env inp acc old h1 h2 hint
    obtain ⟨o, ho, hcase⟩ := unlessZeroBody_exec fuel env inp rl old h1 h2 hint
    simp only [iterate, ho, bind, Except.bind]
    rcases hcase with ⟨hs, hev, hinp, hctl⟩ | ⟨hs, rfl, hev, hinp, hctl⟩ | ⟨hs, rest, rfl, hinp, hctl, hev⟩ |
      ⟨hs, r, rest, rfl, hr, hinp, hctl, h1', h2', hev⟩
    · simp only [hctl]; exact ⟨_, rfl, by simp [loopSpec, hs, hev], by simp [loopSpec, hs, hinp], by simp [loopSpec, hs]⟩
    · simp only [hctl]; exact ⟨_, rfl, by simp [loopSpec, hs, hev], by simp [loopSpec, hs, hinp], by simp [loopSpec, hs]⟩
    · simp only [hctl]; exact ⟨_, rfl, by simp [loopSpec, hs, hev], by simp [loopSpec, hs, hinp], by simp [loopSpec, hs]⟩
    · simp only [hctl]
      obtain ⟨out, hit, he, hi, hc⟩ := ih o.env o.inp (acc ++ o.events) r h1' h2'
        (hinp ▸ fun v hv => hint v (by simp [hv]))
      refine ⟨out, hit, ?_, ?_, ?_⟩
      · simp [he, hev, hinp, loopSpec, hs, hr]
      · simp [hi, hinp, loopSpec, hs, hr]
      · simp [hc, hinp, loopSpec, hs, hr]

/-- **`urcu_ref_get_unless_zero(ref)`**: for every loop budget and every oracle of integers the run is exactly `getSpec … stopUnlessZero` -/
theorem urcu_ref_get_unless_zero_exec (fuel : Nat) (env : Env) (inp : List Val) (rl : Loc)
    (h1 : env.vars "ref" = some (.ptr rl)) (hint : IntInp inp) :
    ∃ out, exec fuel Gen.Src.«urcu_ref_get_unless_zero» env inp = .ok out ∧ out.events = (getSpec rl stopUnlessZero fuel inp).1 ∧
      out.inp = (getSpec rl stopUnlessZero fuel inp).2.1 ∧ out.ctl = (getSpec rl stopUnlessZero fuel inp).2.2 := by
  rw [show Gen.Src.«urcu_ref_get_unless_zero» = Stmt.seq _ (.seq _ (.loop unlessZeroBody)) from rfl]
  cases inp with
  | nil => simp [exec, eval, evalArgs, execPrim, asLoc, bind, Except.bind, h1, getSpec]
  | cons v rest =>
    obtain ⟨v', rfl⟩ := hint v (by simp)
    simp only [exec, eval, evalArgs, execPrim, asLoc, bind, Except.bind, h1, setDst, Env.setVar, if_true]
    obtain ⟨out, hit, he, hi, hc⟩ := unlessZero_loop_run fuel rl fuel
      { vars := fun y => if y = "old" then some (Val.int v') else if y = "_t1" then some (Val.int v') else env.vars y,
        priv := env.priv } rest [] v' (by simp [h1]) (by simp) (fun w hw => hint w (by simp [hw]))
    simp only [hit]
    exact ⟨_, rfl, by simp [getSpec, he], by simp [getSpec, hi], by simp [getSpec, hc]⟩


/-- events of the whole `get` function: the relaxed load, then only `cmpxchg(o → o + 1)` from counts where the loop
does not stop (for `get_safe`: `o ≠ LONG_MAX`; for `get_unless_zero`: `o ≠ 0 ∧ o ≠ LONG_MAX`) -/
theorem getSpec_shape (rl : Loc) (stop : Int → Bool) (fuel : Nat) (inp : List Val) (hint : IntInp inp) :
    ∀ e ∈ (getSpec rl stop fuel inp).1, (∃ v : Int, e = .ld (.field rl "refcount") (.int v) 0) ∨
      ∃ o r : Int, e = .cas (.field rl "refcount") (.int o) (.int (o + 1)) (.int r) 6 0 ∧ stop o = false := by
  intro e he
  cases inp with
  | nil => simp [getSpec] at he
  | cons v rest =>
    obtain ⟨v', rfl⟩ := hint v (by simp)
    simp only [getSpec, List.mem_cons] at he
    rcases he with rfl | he
    · exact Or.inl ⟨v', rfl⟩
    · exact Or.inr (loopSpec_shape rl stop fuel v' rest (fun w hw => hint w (by simp [hw])) e he)

/-- a run that loads a count at which the loop stops performs no other access and answers `0` -/
theorem getSpec_stop (rl : Loc) (stop : Int → Bool) (fuel : Nat) (v : Int) (rest : List Val) (hs : stop v = true) :
    getSpec rl stop (fuel + 1) (.int v :: rest) = ([.ld (.field rl "refcount") (.int v) 0], rest, .ret (some (.int 0))) := by
  simp [getSpec, loopSpec, hs]

/-! ### `urcu_ref_put` -/

def putSpec (rl : Loc) : List Val → List Event × List Val × Ctl
  | [] => ([], [], .blocked)
  | r :: rest =>
    let e := Event.rmw .usubret (.field rl "refcount") (.int 1) r 6
    if r = .int 0 then
      match rest with
      | [] => ([e], [], .blocked)
      | x :: rest' => ([e, .ext "release" [.ptr rl] x], rest', .normal)
    else ([e], rest, .normal)

/-- **`urcu_ref_put(ref, release)`**: for every oracle (no typing needed) the run is exactly `putSpec` -/
theorem urcu_ref_put_exec (fuel : Nat) (env : Env) (inp : List Val) (rl : Loc) (h1 : env.vars "ref" = some (.ptr rl)) :
    ∃ out, exec fuel Gen.Src.«urcu_ref_put» env inp = .ok out ∧ out.events = (putSpec rl inp).1 ∧
      out.inp = (putSpec rl inp).2.1 ∧ out.ctl = (putSpec rl inp).2.2 := by
  rcases inp with _ | ⟨r, _ | ⟨x, rest⟩⟩ <;> (try by_cases hr : r = .int 0) <;>
    simp [putSpec, Gen.Src.«urcu_ref_put», block, exec, eval, evalArgs, execPrim, asLoc, bind, Except.bind, h1,
      Env.setVar, setDst, Val.truthy, evalBin, boolV, *]

/-- `release` is called iff the decremented value is `0` (and the call is reached: the run is not cut before it) -/
theorem putSpec_release (rl : Loc) (inp : List Val) :
    (∃ args x, Event.ext "release" args x ∈ (putSpec rl inp).1) ↔
      (inp.head? = some (.int 0) ∧ (putSpec rl inp).2.2 = .normal) := by
  rcases inp with _ | ⟨r, _ | ⟨x, rest⟩⟩ <;> (try by_cases hr : r = .int 0) <;> simp [putSpec, *]

/-- the only events of `put` are the `uatomic_sub_return(&ref->refcount, 1)` and, after it, at most one `release(ref)` -/
theorem putSpec_shape (rl : Loc) (inp : List Val) :
    (putSpec rl inp).1 = [] ∨ (∃ r, (putSpec rl inp).1 = [.rmw .usubret (.field rl "refcount") (.int 1) r 6]) ∨
      ∃ x, (putSpec rl inp).1 = [.rmw .usubret (.field rl "refcount") (.int 1) (.int 0) 6, .ext "release" [.ptr rl] x] := by
  rcases inp with _ | ⟨r, _ | ⟨x, rest⟩⟩ <;> (try by_cases hr : r = .int 0) <;> simp [putSpec, *]

end UrcuVerif.Src.Queue.RefR
