import UrcuVerif.Gen.Src
import UrcuVerif.Src.StackExec
import UrcuVerif.Src.ForkLocal
import UrcuVerif.Src.ForkExec
import UrcuVerif.Src.ForkRefine
import UrcuVerif.Src.Fork2Local
/-!
# Generated source IR of `call_rcu_after_fork_child` (`src/urcu-call-rcu-impl.h`), non-empty path ⊑ `Fork2L.astep`

Helper `h`'s `struct call_rcu_data` is `Loc.obj h`; the object `malloc` hands out for the new default helper is `Loc.obj d`.
Abstraction of events `absEvA` (`some .bad` = rejected, `none` = silent: fences only); see `Src/Fork2Local.lean` for the
path covered and the L2 labels.
-/
set_option linter.unusedSimpArgs false
set_option linter.unusedVariables false
set_option maxRecDepth 8192
namespace UrcuVerif.Src.Fork2R
open UrcuVerif UrcuVerif.Src UrcuVerif.Src.ForkL UrcuVerif.Src.ForkX UrcuVerif.Src.ForkR UrcuVerif.Src.Fork2L

def dfltLoc : Loc := .glob "default_call_rcu_data"
def percpuLoc : Loc := .glob "per_cpu_call_rcu_data"

def absEvA : Event → Option ALabel
  | .fence _ => none
  | .ext name args r =>
    if name = "pthread_mutex_unlock" then (if args = [.ptr mutexLoc] ∧ r = .int 0 then some .unlock else some .bad)
    else if name = "pthread_mutex_lock" then (if args = [.ptr mutexLoc] ∧ r = .int 0 then some .lock else some .bad)
    else if name = "cds_list_empty" then
      (if args = [.ptr listHead] then
        (match r with
          | .int n => some (.listEmpty (n != 0))
          | _ => some .bad)
       else some .bad)
    else if name = "malloc" then
      (match hval r with
        | some v => some (.malloc v)
        | none => some .bad)
    else if name = "memset" then some (.call "memset")
    else if name = "pthread_mutex_init" then some (.call "pthread_mutex_init")
    else if name = "sigfillset" then some (.call "sigfillset")
    else if name = "pthread_sigmask" then
      (match args with
        | [a, _, _] => if a = .int 0 then some (.call "sigblock") else if a = .int 2 then some (.call "sigrestore") else some .bad
        | _ => some .bad)
    else if name = "pthread_create" then
      (match args with
        | [.ptr (.field (.obj h) f), a1, a2, a3] =>
          if f = "tid" ∧ a1 = .int 0 ∧ a2 = .ptr (.glob "call_rcu_thread") ∧ a3 = .ptr (.obj h) ∧ r = .int 0 then some (.create h)
          else some .bad
        | _ => some .bad)
    else if name = "cds_list_add" then
      (match args with
        | [.ptr (.field (.obj h) f), a] => if f = "list" ∧ a = .ptr listHead then some (.listAdd h) else some .bad
        | _ => some .bad)
    else if name = "cds_list_del" then
      (match args with
        | [.ptr (.field (.obj h) f)] => if f = "list" then some (.listDel h) else some .bad
        | _ => some .bad)
    else if name = "free" then
      (match args with
        | [.ptr (.obj h)] => some (.free h)
        | [.int _] => some (.call "free_percpu")
        | _ => some .bad)
    else if name = "cds_list_for_each_entry_safe.first" then
      (if args = [.ptr listHead] then
        (match hval r with
          | some v => some (.first v)
          | none => some .bad)
       else some .bad)
    else if name = "cds_list_for_each_entry_safe.next" then
      (match args with
        | [a, .ptr (.obj h)] => if a = .ptr listHead then
            (match hval r with
              | some v => some (.next h v)
              | none => some .bad)
          else some .bad
        | _ => some .bad)
    else some .bad
  | .st loc v _ =>
    if loc = dfltLoc then
      (match v with
        | .ptr (.obj h) => some (.stDflt h)
        | _ => some .bad)
    else if loc = percpuLoc then (if v = .int 0 then some .stPerCpu else some .bad)
    else (match loc with
      | .field (.obj h) f => if f = "flags" ∧ v = .int 8 then some (.stStopped h) else some .bad
      | _ => some .bad)
  | .ld loc v _ =>
    if loc = dfltLoc then
      (match hval v with
        | some x => some (.ldDflt x)
        | none => some .bad)
    else (match loc with
      | .field (.obj h) f =>
        if f = "flags" then
          (match v with
            | .int n => if 0 ≤ n then some (.ldFl h n.toNat) else some .bad
            | _ => some .bad)
        else some .bad
      | .field (.field (.obj h) g) f =>
        if g = "cbs_head" ∧ f = "next" then some (.ldHead h (v == .int 0))
        else if g = "cbs_tail" ∧ f = "p" then some (.ldTail h (v == .ptr (.field (.obj h) "cbs_head")))
        else some .bad
      | _ => some .bad)
  | _ => some .bad

def alr (ls : ALState) (evs : List Event) : Option ALState := arun ls (evs.filterMap absEvA)
theorem alr_nil (ls : ALState) : alr ls [] = some ls := rfl
theorem alr_append (ls : ALState) (a b : List Event) : alr ls (a ++ b) = (alr ls a).bind (fun m => alr m b) := by
  simp [alr, List.filterMap_append, arun_append]
def RA : Replay ALState := ⟨alr, alr_nil, alr_append⟩

/-- oracle given as a chain of conditions on the successive values, then `P` -/
def Chain : List (Val → Prop) → (List Val → Prop) → List Val → Prop
  | [], P, inp => P inp
  | _ :: _, _, [] => True
  | c :: cs, P, v :: rest => c v ∧ Chain cs P rest

def isZero (v : Val) : Prop := v = .int 0
def isAny (_ : Val) : Prop := True
def isObj (d : Nat) (v : Val) : Prop := v = .ptr (.obj d)
def isAns (x : Option Nat) (v : Val) : Prop := v = encH x
def isStopped (v : Val) : Prop := ∃ n : Nat, v = .int n ∧ bit n 8 = true
def isHeadOf (h : Nat) (v : Val) : Prop := v = .ptr (.field (.obj h) "cbs_head")

/-- oracle of the straight-line part: `pthread_mutex_unlock` 0; `cds_list_empty` false; the load of the default sees NULL;
lock 0; `malloc` hands out object `d`; memset, mutex_init, list_add, sigfillset, sigmask (ignored); `pthread_create` 0;
sigmask; unlock 0; free; `.first` answers the new helper (head of the new list) -/
def preConds (d : Nat) : List (Val → Prop) :=
  [isZero, isZero, isZero, isZero, isObj d, isAny, isAny, isAny, isAny, isAny, isZero, isAny, isZero, isAny, isObj d]

theorem evalBin_lor (a b : Val) : evalBin .lor a b = .ok (boolV (a.truthy || b.truthy)) := by
  cases a <;> cases b <;> rfl
theorem band_0_1 : evalBin .band (.int 0) (.int 1) = .ok (.int 0) := by simp [evalBin]

def afcPre : Stmt := (splitSeq 13 Gen.Src.«call_rcu_after_fork_child»).1
def afcBody : Stmt := (firstLoop (splitSeq 13 Gen.Src.«call_rcu_after_fork_child»).2).getD .skip
theorem afc_split : (splitSeq 13 Gen.Src.«call_rcu_after_fork_child»).2 = .loop afcBody := rfl

/-- top of the dispose loop -/
def AfcI (l : List Nat) (d : Nat) (LI : List Nat → List Val → Prop) : Pre ALState := fun env inp ls =>
  env.priv dfltLoc = some (.ptr (.obj d)) ∧
  ∃ rem, env.vars "_t4" = some (encH rem.head?) ∧ ls = ⟨.lpTop rem, l, d⟩ ∧ (∀ h ∈ rem, h ≠ d → h ∈ l) ∧ LI rem inp

def AfcPre0 (l : List Nat) (d : Nat) (P : List Val → Prop) : Pre ALState := fun env inp ls =>
  env.priv (.glob "registered_rculfhash_atfork") = some (.int 0) ∧ (∃ n : Int, env.priv percpuLoc = some (.int n)) ∧
  Chain (preConds d) P inp ∧ ls = ⟨.acUnlock, l, d⟩

theorem afcPre_tri (l : List Nat) (d : Nat) (LI : List Nat → List Val → Prop) (fuel : Nat) :
    Tri RA fuel afcPre (AfcPre0 l d (LI (d :: l))) (norm (AfcI l d LI)) := by
  intro env inp ls ⟨hh, ⟨pn, hpc⟩, hi, hls⟩
  subst hls
  simp only [percpuLoc] at hpc
  cases inp with
  | nil => fexec [afcPre, Gen.Src.«call_rcu_after_fork_child», Gen.Src.«call_rcu_unlock», Gen.Src.«call_rcu_lock», Gen.Src.«get_default_call_rcu_data», Gen.Src.«call_rcu_data_init», Gen.Src.«_cds_wfcq_init», Gen.Src.«_cds_wfcq_node_init», Gen.Src.«cpus_array_len_reset», RA, alr, arun, absEvA, astep, crExpect, mutexLoc, listHead, dfltLoc, percpuLoc, hval]
  | cons v0 inp =>
    have h0 := hi.1
    replace hi := hi.2
    simp only [isZero] at h0; subst h0
    cases inp with
    | nil => fexec [afcPre, Gen.Src.«call_rcu_after_fork_child», Gen.Src.«call_rcu_unlock», Gen.Src.«call_rcu_lock», Gen.Src.«get_default_call_rcu_data», Gen.Src.«call_rcu_data_init», Gen.Src.«_cds_wfcq_init», Gen.Src.«_cds_wfcq_node_init», Gen.Src.«cpus_array_len_reset», RA, alr, arun, absEvA, astep, crExpect, mutexLoc, listHead, dfltLoc, percpuLoc, hval]
    | cons v1 inp =>
      have h1 := hi.1
      replace hi := hi.2
      simp only [isZero] at h1; subst h1
      cases inp with
      | nil => fexec [afcPre, Gen.Src.«call_rcu_after_fork_child», Gen.Src.«call_rcu_unlock», Gen.Src.«call_rcu_lock», Gen.Src.«get_default_call_rcu_data», Gen.Src.«call_rcu_data_init», Gen.Src.«_cds_wfcq_init», Gen.Src.«_cds_wfcq_node_init», Gen.Src.«cpus_array_len_reset», RA, alr, arun, absEvA, astep, crExpect, mutexLoc, listHead, dfltLoc, percpuLoc, hval]
      | cons v2 inp =>
        have h2 := hi.1
        replace hi := hi.2
        simp only [isZero] at h2; subst h2
        cases inp with
        | nil => fexec [afcPre, Gen.Src.«call_rcu_after_fork_child», Gen.Src.«call_rcu_unlock», Gen.Src.«call_rcu_lock», Gen.Src.«get_default_call_rcu_data», Gen.Src.«call_rcu_data_init», Gen.Src.«_cds_wfcq_init», Gen.Src.«_cds_wfcq_node_init», Gen.Src.«cpus_array_len_reset», RA, alr, arun, absEvA, astep, crExpect, mutexLoc, listHead, dfltLoc, percpuLoc, hval]
        | cons v3 inp =>
          have h3 := hi.1
          replace hi := hi.2
          simp only [isZero] at h3; subst h3
          cases inp with
          | nil => fexec [afcPre, Gen.Src.«call_rcu_after_fork_child», Gen.Src.«call_rcu_unlock», Gen.Src.«call_rcu_lock», Gen.Src.«get_default_call_rcu_data», Gen.Src.«call_rcu_data_init», Gen.Src.«_cds_wfcq_init», Gen.Src.«_cds_wfcq_node_init», Gen.Src.«cpus_array_len_reset», RA, alr, arun, absEvA, astep, crExpect, mutexLoc, listHead, dfltLoc, percpuLoc, hval]
          | cons v4 inp =>
            have h4 := hi.1
            replace hi := hi.2
            simp only [isObj] at h4; subst h4
            cases inp with
            | nil => fexec [afcPre, Gen.Src.«call_rcu_after_fork_child», Gen.Src.«call_rcu_unlock», Gen.Src.«call_rcu_lock», Gen.Src.«get_default_call_rcu_data», Gen.Src.«call_rcu_data_init», Gen.Src.«_cds_wfcq_init», Gen.Src.«_cds_wfcq_node_init», Gen.Src.«cpus_array_len_reset», RA, alr, arun, absEvA, astep, crExpect, mutexLoc, listHead, dfltLoc, percpuLoc, hval]
            | cons v5 inp =>
              have h5 := hi.1
              replace hi := hi.2
              cases inp with
              | nil => fexec [afcPre, Gen.Src.«call_rcu_after_fork_child», Gen.Src.«call_rcu_unlock», Gen.Src.«call_rcu_lock», Gen.Src.«get_default_call_rcu_data», Gen.Src.«call_rcu_data_init», Gen.Src.«_cds_wfcq_init», Gen.Src.«_cds_wfcq_node_init», Gen.Src.«cpus_array_len_reset», RA, alr, arun, absEvA, astep, crExpect, mutexLoc, listHead, dfltLoc, percpuLoc, hval]
              | cons v6 inp =>
                have h6 := hi.1
                replace hi := hi.2
                cases inp with
                | nil => fexec [afcPre, Gen.Src.«call_rcu_after_fork_child», Gen.Src.«call_rcu_unlock», Gen.Src.«call_rcu_lock», Gen.Src.«get_default_call_rcu_data», Gen.Src.«call_rcu_data_init», Gen.Src.«_cds_wfcq_init», Gen.Src.«_cds_wfcq_node_init», Gen.Src.«cpus_array_len_reset», RA, alr, arun, absEvA, astep, crExpect, mutexLoc, listHead, dfltLoc, percpuLoc, hval]
                | cons v7 inp =>
                  have h7 := hi.1
                  replace hi := hi.2
                  cases inp with
                  | nil => fexec [afcPre, Gen.Src.«call_rcu_after_fork_child», Gen.Src.«call_rcu_unlock», Gen.Src.«call_rcu_lock», Gen.Src.«get_default_call_rcu_data», Gen.Src.«call_rcu_data_init», Gen.Src.«_cds_wfcq_init», Gen.Src.«_cds_wfcq_node_init», Gen.Src.«cpus_array_len_reset», RA, alr, arun, absEvA, astep, crExpect, mutexLoc, listHead, dfltLoc, percpuLoc, hval]
                  | cons v8 inp =>
                    have h8 := hi.1
                    replace hi := hi.2
                    cases inp with
                    | nil => fexec [afcPre, Gen.Src.«call_rcu_after_fork_child», Gen.Src.«call_rcu_unlock», Gen.Src.«call_rcu_lock», Gen.Src.«get_default_call_rcu_data», Gen.Src.«call_rcu_data_init», Gen.Src.«_cds_wfcq_init», Gen.Src.«_cds_wfcq_node_init», Gen.Src.«cpus_array_len_reset», RA, alr, arun, absEvA, astep, crExpect, mutexLoc, listHead, dfltLoc, percpuLoc, hval]
                    | cons v9 inp =>
                      have h9 := hi.1
                      replace hi := hi.2
                      cases inp with
                      | nil => fexec [afcPre, Gen.Src.«call_rcu_after_fork_child», Gen.Src.«call_rcu_unlock», Gen.Src.«call_rcu_lock», Gen.Src.«get_default_call_rcu_data», Gen.Src.«call_rcu_data_init», Gen.Src.«_cds_wfcq_init», Gen.Src.«_cds_wfcq_node_init», Gen.Src.«cpus_array_len_reset», RA, alr, arun, absEvA, astep, crExpect, mutexLoc, listHead, dfltLoc, percpuLoc, hval]
                      | cons v10 inp =>
                        have h10 := hi.1
                        replace hi := hi.2
                        simp only [isZero] at h10; subst h10
                        cases inp with
                        | nil => fexec [afcPre, Gen.Src.«call_rcu_after_fork_child», Gen.Src.«call_rcu_unlock», Gen.Src.«call_rcu_lock», Gen.Src.«get_default_call_rcu_data», Gen.Src.«call_rcu_data_init», Gen.Src.«_cds_wfcq_init», Gen.Src.«_cds_wfcq_node_init», Gen.Src.«cpus_array_len_reset», RA, alr, arun, absEvA, astep, crExpect, mutexLoc, listHead, dfltLoc, percpuLoc, hval]
                        | cons v11 inp =>
                          have h11 := hi.1
                          replace hi := hi.2
                          cases inp with
                          | nil => fexec [afcPre, Gen.Src.«call_rcu_after_fork_child», Gen.Src.«call_rcu_unlock», Gen.Src.«call_rcu_lock», Gen.Src.«get_default_call_rcu_data», Gen.Src.«call_rcu_data_init», Gen.Src.«_cds_wfcq_init», Gen.Src.«_cds_wfcq_node_init», Gen.Src.«cpus_array_len_reset», RA, alr, arun, absEvA, astep, crExpect, mutexLoc, listHead, dfltLoc, percpuLoc, hval]
                          | cons v12 inp =>
                            have h12 := hi.1
                            replace hi := hi.2
                            simp only [isZero] at h12; subst h12
                            cases inp with
                            | nil => fexec [afcPre, Gen.Src.«call_rcu_after_fork_child», Gen.Src.«call_rcu_unlock», Gen.Src.«call_rcu_lock», Gen.Src.«get_default_call_rcu_data», Gen.Src.«call_rcu_data_init», Gen.Src.«_cds_wfcq_init», Gen.Src.«_cds_wfcq_node_init», Gen.Src.«cpus_array_len_reset», RA, alr, arun, absEvA, astep, crExpect, mutexLoc, listHead, dfltLoc, percpuLoc, hval]
                            | cons v13 inp =>
                              have h13 := hi.1
                              replace hi := hi.2
                              cases inp with
                              | nil => fexec [afcPre, Gen.Src.«call_rcu_after_fork_child», Gen.Src.«call_rcu_unlock», Gen.Src.«call_rcu_lock», Gen.Src.«get_default_call_rcu_data», Gen.Src.«call_rcu_data_init», Gen.Src.«_cds_wfcq_init», Gen.Src.«_cds_wfcq_node_init», Gen.Src.«cpus_array_len_reset», RA, alr, arun, absEvA, astep, crExpect, mutexLoc, listHead, dfltLoc, percpuLoc, hval]
                              | cons v14 inp =>
                                have h14 := hi.1
                                replace hi := hi.2
                                simp only [isObj] at h14; subst h14
                                fexec [afcPre, Gen.Src.«call_rcu_after_fork_child», Gen.Src.«call_rcu_unlock», Gen.Src.«call_rcu_lock», Gen.Src.«get_default_call_rcu_data», Gen.Src.«call_rcu_data_init», Gen.Src.«_cds_wfcq_init», Gen.Src.«_cds_wfcq_node_init», Gen.Src.«cpus_array_len_reset», RA, alr, arun, absEvA, astep, crExpect, mutexLoc, listHead, dfltLoc, percpuLoc, hval, AfcI]
                                exact ⟨d :: l, rfl, rfl, fun h hh hne => by simpa [hne] using hh, hi⟩

/-- oracle of the dispose loop from its top, `rem` = rest of the new list: `.next` answers the head of what follows; for a
stale helper: its flags show STOPPED (the thread's own store), lock 0, `cbs_head.next == NULL`, `cbs_tail.p == &cbs_head`
(**queue found empty**), `cds_list_del` (ignored), unlock 0, `free` (ignored) -/
def LoopInp (d : Nat) : List Nat → List Val → Prop
  | [], _ => True
  | h :: rem, inp =>
    Chain (if h = d then [isAns rem.head?]
      else [isAns rem.head?, isStopped, isZero, isZero, isHeadOf h, isAny, isZero, isAny]) (LoopInp d rem) inp

/-- the loop is left: every element of the new list has been visited -/
def AfcQ (l : List Nat) (d : Nat) : Pre ALState := fun _ _ ls => ls = ⟨.lpTop [], l, d⟩

theorem afcBody_tri (l : List Nat) (d : Nat) (fuel : Nat) :
    Tri RA fuel afcBody (AfcI l d (LoopInp d))
      (fun c env inp ls => if c.goesOn then AfcI l d (LoopInp d) env inp ls else brkPost (AfcQ l d) c env inp ls) := by
  intro env inp ls ⟨hdf, rem, ht, hls, hmem, hi⟩
  subst hls
  simp only [dfltLoc] at hdf
  cases rem with
  | nil => fexec [afcBody, Gen.Src.«call_rcu_after_fork_child», RA, alr, arun, brkPost, AfcQ]
  | cons h rem =>
    by_cases hd : h = d
    · subst hd
      simp only [LoopInp, if_true] at hi
      cases inp with
      | nil => fexec [afcBody, Gen.Src.«call_rcu_after_fork_child», RA, alr, arun, brkPost]
      | cons nx inp =>
        have h0 := hi.1
        replace hi := hi.2
        simp only [isAns] at h0; subst h0
        fexec [afcBody, Gen.Src.«call_rcu_after_fork_child», RA, alr, arun, absEvA, astep, listHead, dfltLoc, brkPost,
          AfcI]
        exact ⟨rem, rfl, rfl, fun x hx => hmem x (List.mem_cons_of_mem _ hx), hi⟩
    · simp only [LoopInp, if_neg hd] at hi
      cases inp with
      | nil => fexec [afcBody, Gen.Src.«call_rcu_after_fork_child», Gen.Src.«_call_rcu_data_free», Gen.Src.«call_rcu_unlock», Gen.Src.«call_rcu_lock», Gen.Src.«_cds_wfcq_empty», RA, alr, arun, absEvA, astep, mutexLoc, listHead, dfltLoc, percpuLoc, brkPost, band_0_1, evalBin_lor, hd]
      | cons v0 inp =>
        have h0 := hi.1
        replace hi := hi.2
        simp only [isAns] at h0; subst h0
        cases inp with
        | nil => fexec [afcBody, Gen.Src.«call_rcu_after_fork_child», Gen.Src.«_call_rcu_data_free», Gen.Src.«call_rcu_unlock», Gen.Src.«call_rcu_lock», Gen.Src.«_cds_wfcq_empty», RA, alr, arun, absEvA, astep, mutexLoc, listHead, dfltLoc, percpuLoc, brkPost, band_0_1, evalBin_lor, hd]
        | cons v1 inp =>
          have h1 := hi.1
          replace hi := hi.2
          obtain ⟨n, rfl, hb⟩ := h1
          cases inp with
          | nil => fexec [afcBody, Gen.Src.«call_rcu_after_fork_child», Gen.Src.«_call_rcu_data_free», Gen.Src.«call_rcu_unlock», Gen.Src.«call_rcu_lock», Gen.Src.«_cds_wfcq_empty», RA, alr, arun, absEvA, astep, mutexLoc, listHead, dfltLoc, percpuLoc, brkPost, band_0_1, evalBin_lor, hd, hb]
          | cons v2 inp =>
            have h2 := hi.1
            replace hi := hi.2
            simp only [isZero] at h2; subst h2
            cases inp with
            | nil => fexec [afcBody, Gen.Src.«call_rcu_after_fork_child», Gen.Src.«_call_rcu_data_free», Gen.Src.«call_rcu_unlock», Gen.Src.«call_rcu_lock», Gen.Src.«_cds_wfcq_empty», RA, alr, arun, absEvA, astep, mutexLoc, listHead, dfltLoc, percpuLoc, brkPost, band_0_1, evalBin_lor, hd, hb]
            | cons v3 inp =>
              have h3 := hi.1
              replace hi := hi.2
              simp only [isZero] at h3; subst h3
              cases inp with
              | nil => fexec [afcBody, Gen.Src.«call_rcu_after_fork_child», Gen.Src.«_call_rcu_data_free», Gen.Src.«call_rcu_unlock», Gen.Src.«call_rcu_lock», Gen.Src.«_cds_wfcq_empty», RA, alr, arun, absEvA, astep, mutexLoc, listHead, dfltLoc, percpuLoc, brkPost, band_0_1, evalBin_lor, hd, hb]
              | cons v4 inp =>
                have h4 := hi.1
                replace hi := hi.2
                simp only [isHeadOf] at h4; subst h4
                cases inp with
                | nil => fexec [afcBody, Gen.Src.«call_rcu_after_fork_child», Gen.Src.«_call_rcu_data_free», Gen.Src.«call_rcu_unlock», Gen.Src.«call_rcu_lock», Gen.Src.«_cds_wfcq_empty», RA, alr, arun, absEvA, astep, mutexLoc, listHead, dfltLoc, percpuLoc, brkPost, band_0_1, evalBin_lor, hd, hb]
                | cons v5 inp =>
                  have h5 := hi.1
                  replace hi := hi.2
                  cases inp with
                  | nil => fexec [afcBody, Gen.Src.«call_rcu_after_fork_child», Gen.Src.«_call_rcu_data_free», Gen.Src.«call_rcu_unlock», Gen.Src.«call_rcu_lock», Gen.Src.«_cds_wfcq_empty», RA, alr, arun, absEvA, astep, mutexLoc, listHead, dfltLoc, percpuLoc, brkPost, band_0_1, evalBin_lor, hd, hb]
                  | cons v6 inp =>
                    have h6 := hi.1
                    replace hi := hi.2
                    simp only [isZero] at h6; subst h6
                    cases inp with
                    | nil => fexec [afcBody, Gen.Src.«call_rcu_after_fork_child», Gen.Src.«_call_rcu_data_free», Gen.Src.«call_rcu_unlock», Gen.Src.«call_rcu_lock», Gen.Src.«_cds_wfcq_empty», RA, alr, arun, absEvA, astep, mutexLoc, listHead, dfltLoc, percpuLoc, brkPost, band_0_1, evalBin_lor, hd, hb]
                    | cons v7 inp =>
                      have h7 := hi.1
                      replace hi := hi.2
                      fexec [afcBody, Gen.Src.«call_rcu_after_fork_child», Gen.Src.«_call_rcu_data_free», Gen.Src.«call_rcu_unlock», Gen.Src.«call_rcu_lock», Gen.Src.«_cds_wfcq_empty», RA, alr, arun, absEvA, astep, mutexLoc, listHead, dfltLoc, percpuLoc, brkPost, band_0_1, evalBin_lor, AfcI, hd, hb]
                      exact ⟨rem, rfl, rfl, fun x hx => hmem x (List.mem_cons_of_mem _ hx), hi⟩

/-- `call_rcu_after_fork_child()`, non-empty path -/
theorem after_fork_child_tri (l : List Nat) (d : Nat) (fuel : Nat) :
    Tri RA fuel Gen.Src.«call_rcu_after_fork_child» (AfcPre0 l d (LoopInp d (d :: l))) (norm (AfcQ l d)) := by
  apply Tri.split 13
  rw [afc_split]
  exact Tri.seq (afcPre_tri l d (LoopInp d) fuel) (Tri.while _ _ (afcBody_tri l d fuel))
    (fun c env inp ls hc h => norm_of_ne _ _ c env inp ls hc h)

end UrcuVerif.Src.Fork2R
