import UrcuVerif.Src.FutexRefine
/-!
# Grace-period futex (`src/urcu.c`, `src/urcu-qsbr.c`, `urcu-common.h`, `urcu-qsbr.h`): waiters and wakers

* waiters `wait_gp()` of memb / mb / qsbr: `«memb.wait_gp»`, `«mb.wait_gp»`, `«qsbr.wait_gp»` ⊑ generic waiter
  (`WaitPost`), hence ⊑ the waiter of `Handshake/Tso.lean` resp. `Handshake/QsbrTso.lean` from pc `w2`
  (`Hs.sim` / `Qs.sim`);
* wakers `urcu_common_wake_up_gp(gp)` ⊑ generic waker from pc `k1`, hence ⊑ waker `i` of `Handshake/Tso.lean` from `k1`
  (`Hs.simK`); `urcu_qsbr_wake_up_gp()` ⊑ reader `i` of `Handshake/QsbrTso.lean` from pc `k1` (`Qs.kstep`, directly).

Location names: the translator keeps the name `rcu_gp` of `src/urcu.c` (a macro for `urcu_memb_gp` / `urcu_mb_gp`,
`include/urcu/map/*.h`) in `wait_gp()`, whereas the read side is handed `&urcu_memb_gp` by its caller: `gpF` below is
`&rcu_gp.futex`.
-/
set_option maxRecDepth 8192
set_option linter.unusedSimpArgs false
set_option linter.unusedVariables false
namespace UrcuVerif.Src.Futex
open UrcuVerif UrcuVerif.Src UrcuVerif.Gen.Src

/-- `&rcu_gp.futex` (memb / mb, as named in `src/urcu.c`) and `&urcu_qsbr_gp.futex` -/
@[simp] def gpF : Loc := .field (.glob "rcu_gp") "futex"
@[simp] def qsF : Loc := .field (.glob "urcu_qsbr_gp") "futex"

/-! ## qsbr -/

theorem qsbr_wait_gp (fuel : Nat) (env : Env) (inp : List Val) :
    ∃ out, exec fuel «qsbr.wait_gp» env inp = .ok out ∧ WaitPost qsF (-1) "futex_noasync" env out := by
  fx_exec [«qsbr.wait_gp», WaitPost]
  generalize hL : exec fuel (Stmt.loop _) _ _ = X
  obtain ⟨out, rfl, hE, -, h⟩ := wait_loop qsF (-1) "futex_noasync" (fun e => e.priv = env.priv) hL
    (by intro env1 inp1 hE1; wait_body) rfl
  clear hL
  refine ⟨_, rfl, hE, ?_⟩
  intro hok
  simp only [List.all_cons, Bool.and_eq_true] at hok
  obtain ⟨g', hg, hpost⟩ := h hok.2
  simp only [qsF] at hg
  exact ⟨g', by fx_abs [], hpost⟩

/-! ## mb -/

theorem mb_wait_gp (fuel : Nat) (env : Env) (inp : List Val) :
    ∃ out, exec fuel «mb.wait_gp» env inp = .ok out ∧ WaitPost gpF (-1) "futex_async" env out := by
  simp only [«mb.wait_gp», block]
  generalize hT : Stmt.seq (Stmt.loop _) _ = T
  have htail : ∀ env1 inp1 X, exec fuel T env1 inp1 = X → env1.priv = env.priv →
      ∃ out, X = .ok out ∧ out.env.priv = env.priv ∧ LoopPost gpF (-1) "futex_async" out := by
    subst hT
    intro env1 inp1 X hX hE1
    rw [exec.eq_2] at hX
    generalize hL : exec fuel (Stmt.loop _) _ _ = Y at hX
    obtain ⟨o, rfl, hE, hC, h⟩ := wait_loop gpF (-1) "futex_async" (fun e => e.priv = env.priv) hL
      (by intro env1 inp1 hE1; wait_body) hE1
    clear hL
    subst hX
    obtain ⟨evs, e2, i2, ctl⟩ := o
    simp only [LoopPost] at h
    simp only at hC hE
    rcases hC with rfl | rfl | rfl | rfl <;> (try cases i2) <;> fx_exec0 [] <;> refine ⟨hE, ?_⟩ <;> loop_post h [gpF, qsF]
  cases inp with
  | nil => fx_exec0 [«mb.smp_mb_master», WaitPost, LoopPost]; fx_abs []
  | cons u rest =>
    fx_exec0 [«mb.smp_mb_master», WaitPost]
    generalize hX : exec fuel T _ _ = X
    obtain ⟨out, rfl, hE, h⟩ := htail _ _ _ hX rfl
    refine ⟨_, rfl, hE, ?_⟩
    unfold LoopPost at h
    loop_post h [gpF, qsF]

/-! ## memb -/

set_option hygiene false in
macro "memb_pre_leaf" : tactic => `(tactic| (
  fx_exec [«memb.smp_mb_master», WaitPost]
  first
  | done
  | (generalize hX : exec fuel U _ _ = X
     obtain ⟨out, rfl, hE, h⟩ := hutail _ _ _ hX rfl
     refine ⟨_, rfl, hE, ?_⟩
     unfold LoopPost at h
     loop_post h [gpF, qsF])
  | (unfold LoopPost; fx_abs [])))

/-- `b`, `b2`: the configuration words `urcu_memb_has_sys_membarrier`, `…_private_expedited` in the private view -/
theorem memb_wait_gp (fuel : Nat) (env : Env) (inp : List Val) (b b2 : Int)
    (hb : env.priv (.glob "urcu_memb_has_sys_membarrier") = some (.int b))
    (hb2 : env.priv (.glob "urcu_memb_has_sys_membarrier_private_expedited") = some (.int b2)) :
    ∃ out, exec fuel «memb.wait_gp» env inp = .ok out ∧ WaitPost gpF (-1) "futex_async" env out := by
  simp only [«memb.wait_gp», block]
  generalize hT : Stmt.seq (Stmt.loop _) _ = T
  have htail : ∀ env1 inp1 X, exec fuel T env1 inp1 = X → env1.priv = env.priv →
      ∃ out, X = .ok out ∧ out.env.priv = env.priv ∧ LoopPost gpF (-1) "futex_async" out := by
    subst hT
    intro env1 inp1 X hX hE1
    rw [exec.eq_2] at hX
    generalize hL : exec fuel (Stmt.loop _) _ _ = Y at hX
    obtain ⟨o, rfl, hE, hC, h⟩ := wait_loop gpF (-1) "futex_async" (fun e => e.priv = env.priv) hL
      (by intro env1 inp1 hE1; wait_body) hE1
    clear hL
    subst hX
    obtain ⟨evs, e2, i2, ctl⟩ := o
    simp only [LoopPost] at h
    simp only at hC hE
    rcases hC with rfl | rfl | rfl | rfl <;> (try cases i2) <;> fx_exec0 [] <;> refine ⟨hE, ?_⟩ <;> loop_post h [gpF, qsF]
  clear hT
  generalize hU : Stmt.seq (Stmt.prim none (Prim.ext "mutex_unlock") _) T = U
  have hutail : ∀ env1 inp1 X, exec fuel U env1 inp1 = X → env1.priv = env.priv →
      ∃ out, X = .ok out ∧ out.env.priv = env.priv ∧ LoopPost gpF (-1) "futex_async" out := by
    subst hU
    intro env1 inp1 X hX hE1
    subst hX
    cases inp1 with
    | nil => fx_exec0 [LoopPost, hE1]; fx_abs []
    | cons u rest =>
      fx_exec0 []
      generalize hX : exec fuel T _ _ = X
      obtain ⟨out, rfl, hE, h⟩ := htail _ _ _ hX hE1
      refine ⟨_, rfl, hE, ?_⟩
      unfold LoopPost at h
      loop_post h [gpF, qsF]
  clear hU htail
  by_cases hb0 : b = 0
  · subst hb0; memb_pre_leaf
  · by_cases hb20 : b2 = 0
    all_goals
      cases inp with
      | nil => memb_pre_leaf
      | cons r r1 =>
        by_cases hr : r = .int 0
        · subst hr; memb_pre_leaf
        · have hrt := truthy_of_ne hr
          cases r1 with
          | nil => memb_pre_leaf
          | cons e r2 =>
            cases r2 with
            | nil => memb_pre_leaf
            | cons d r3 => memb_pre_leaf

/-! ## wakers -/

/-- `urcu_common_wake_up_gp(gp)`, `gp = G` -/
theorem common_wake_up_gp (fuel : Nat) (env : Env) (inp : List Val) (G : Loc)
    (hg : env.vars "gp" = some (.ptr G)) :
    ∃ out, exec fuel «urcu_common_wake_up_gp» env inp = .ok out ∧ WakePost (.field G "futex") "futex_async" env out := by
  wake_cases (fx_exec [«urcu_common_wake_up_gp», WakePost] <;> fx_abs [] <;> (try (intros; simp_all; done)))

/-! ### `urcu_qsbr_wake_up_gp()` against reader `i` of `Handshake/QsbrTso.lean`, from L2 pc `k1` -/

/-- `&URCU_TLS(urcu_qsbr_reader).waiting` -/
@[simp] def qsW : Loc := .field (.tls "urcu_qsbr_reader") "waiting"

/-- `ld waiting w` ↦ `k1 (w ≠ 0)`; `st waiting 0` ↦ `k2`; `cmm_smp_mb()` ↦ `kf`; `ld gp.futex v` ↦ `k3 v` (then the
silent branch `k4Skip` if `v ≠ -1`); `st gp.futex 0` ↦ `k4Wake`; `futex_noasync(&gp.futex, FUTEX_WAKE, 1, …)` ↦ `k5`;
other accesses to the two words: rejected; the rest silent -/
def absEvQK : Event → Option (List Qs.KLabel)
  | .ld l v _ =>
    if l = qsW then some [.k1 v.truthy]
    else if l = qsF then
      match v with
      | .int n => some (if n = -1 then [.k3 n] else [.k3 n, .k4Skip])
      | _ => none
    else some []
  | .st l v _ =>
    if l = qsW then (if v = .int 0 then some [.k2] else none)
    else if l = qsF then (if v = .int 0 then some [.k4Wake] else none)
    else some []
  | .fence p => if p = .mb then some [.kf] else some []
  | .ext name args _ =>
    if name = "futex_noasync" then (if args = wakeArgs qsF then some [.k5] else none) else some []
  | e =>
    match Event.loc? e with
    | some l => if l = qsW ∨ l = qsF then none else some []
    | none => some []

def QsWakePost (env : Env) (out : Out) : Prop :=
  (∀ l, l ≠ qsF → l ≠ qsW → out.env.priv l = env.priv l) ∧
  (out.ctl = .normal ∨ out.ctl = .ret none ∨ out.ctl = .blocked) ∧
  (out.events.all (evOk qsF) = true →
    ∀ r0, ∃ k', accept absEvQK Qs.kstep { kpc := .k1, r := r0 } out.events = some k' ∧
      (out.ctl = .normal ∨ out.ctl = .ret none → k'.kpc = .k9))

open Lean.Parser.Tactic in
macro "qs_abs" "[" ts:simpLemma,* "]" : tactic =>
  `(tactic| simp [accept_nil, accept_cons, absEvQK, evOk, runA, Qs.kstep, wakeArgs, Event.loc?, truthy_int, truthy_ptr,
      *, $ts,*])

theorem qsbr_wake_up_gp (fuel : Nat) (env : Env) (inp : List Val) :
    ∃ out, exec fuel «urcu_qsbr_wake_up_gp» env inp = .ok out ∧ QsWakePost env out := by
  cases inp with
  | nil => fx_exec [«urcu_qsbr_wake_up_gp», QsWakePost] <;> qs_abs []
  | cons w inp =>
    by_cases hw : w = .int 0
    · subst hw; fx_exec [«urcu_qsbr_wake_up_gp», QsWakePost] <;> qs_abs []
    · have hwt := truthy_of_ne hw
      wake_cases (fx_exec [«urcu_qsbr_wake_up_gp», QsWakePost] <;> qs_abs [] <;> (try (intros; simp_all; done)))

end UrcuVerif.Src.Futex
