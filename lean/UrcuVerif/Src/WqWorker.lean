import UrcuVerif.Src.WqRefine
/-!
# Generated source IR of `workqueue_thread()` ⊑ the worker's local automaton (`WqL.wstep`)

Partial-correctness form (the form of `notes/SRC_BRIEF.md`): `exec … = .ok out → (events well typed) → wlr ls out.events = some ls' ∧ …`,
for every loop budget and every oracle, i.e. every prefix of every event sequence of the source text.

Abstraction of events `absEvW L` (`some .bad` = rejected, `none` = silent):

* flags / futex / qlen accesses ↦ the labels of `WqL.WLabel` with the values observed / written;
* **queue oracle discipline**: of the accesses inside the wfcqueue only the *observations* are labels –
  `ldHead v`, `ldTail isHead` (emptiness tests of `cds_wfcq_empty` / splice), `xchgHead v`, `spliceX` (the exchange of the
  public tail with `&cbs_head`: L2's `wSplice`, which takes `batch := queue` – justified by C10), and the loads of the
  traversal of the private list `ldNext a v`, `ldTTail v`; the stores / exchange of the append to the *private* list
  `cbs_tmp` (a stack object) are silent;
* `ext "(*func)" [f, uwp]` ↦ `run (&uwp->next)`: the work function call;
* silent: fences, `poll`, `CDS_WFCQ_WAIT_SLEEP`, `pthread_mutex_init` (of `cds_wfcq_init(&cbs_tmp)`), the seven user hooks
  `(*…_fct)`, `FUTEX_WAIT` returning non-zero (outcome = the following `errno`);
* rejected: `urcu_die`, any other access.

Well-typedness of events `evOkW` (hypothesis on the oracle, stated on the events): a loaded flags word is a non-negative
integer, a loaded futex word an integer, loaded / exchanged `next` pointers are NULL or pointers, `errno` after a failed
`FUTEX_WAIT` is EAGAIN or EINTR.
-/
set_option linter.unusedSimpArgs false
set_option linter.unusedVariables false
set_option maxRecDepth 8192
namespace UrcuVerif.Src.WqR
open UrcuVerif UrcuVerif.Src UrcuVerif.Wq WqL

def hookNames : List String :=
  ["(*initialize_worker_fct)", "(*finalize_worker_fct)", "(*grace_period_fct)", "(*worker_before_wait_fct)",
   "(*worker_after_wake_up_fct)", "(*worker_before_pause_fct)", "(*worker_after_resume_fct)"]

def absEvW (L : Layout) : Event → Option WLabel
  | .fence _ => none
  | .ld l v _ =>
    if l = .field L.W "flags" then
      (match v with
        | .int n => if 0 ≤ n then some (.ldFl n.toNat) else some .bad
        | _ => some .bad)
    else if l = .field L.W "futex" then
      (match v with
        | .int n => some (.ldFutex n)
        | _ => some .bad)
    else if l = .field (.field L.W "cbs_head") "next" then some (.ldHead v)
    else if l = .field (.field L.W "cbs_tail") "p" then some (.ldTail (decide (v = .ptr (.field L.W "cbs_head"))))
    else if l = .field (.glob "&cbs_tmp_tail") "p" then some (.ldTTail v)
    else (match l with
      | .field a f => if f = "next" then some (.ldNext a v) else some .bad
      | _ => some .bad)
  | .xchg l new old _ =>
    if l = .field (.field L.W "cbs_head") "next" then (if new = .int 0 then some (.xchgHead old) else some .bad)
    else if l = .field (.field L.W "cbs_tail") "p" then
      (if new = .ptr (.field L.W "cbs_head") then some .spliceX else some .bad)
    else if l = .field (.glob "&cbs_tmp_tail") "p" then none
    else some .bad
  | .st l v _ =>
    if l = .field L.W "futex" then (if v = .int 0 then some .stFutex else some .bad)
    else (match l with
      | .field _ f => if f = "next" then none else some .bad
      | _ => some .bad)
  | .rmw op l operand _ _ =>
    if l = .field L.W "futex" then (if op = .udec then some .decFutex else some .bad)
    else if l = .field L.W "flags" then
      (if op = .uor ∧ operand = .int 8 then some .setPaused
       else if op = .uand ∧ operand = .int 18446744073709551607 then some .clrPaused
       else some .bad)
    else if l = .field L.W "qlen" then
      (if op = .usub then
        (match operand with
          | .int n => some (.subQlen n)
          | _ => some .bad)
       else some .bad)
    else some .bad
  | .ext name args r =>
    if name = "(*func)" then
      (match args with
        | [_, .ptr uwp] => some (.run (.field uwp "next"))
        | _ => some .bad)
    else if name = "futex_async" then
      (if args = [.ptr (.field L.W "futex"), .int 0, .int (-1), .int 0, .int 0, .int 0] then
         (if r = .int 0 then some .waitSleep else none)
       else some .bad)
    else if name = "errno" then
      (if r = .int 11 then some .waitEagain else if r = .int 4 then some .waitEintr else some .bad)
    else if name = "poll" ∨ name = "CDS_WFCQ_WAIT_SLEEP" ∨ name = "pthread_mutex_init" ∨ name ∈ hookNames then none
    else some .bad
  | .cas _ _ _ _ _ _ => some .bad

def wlr (L : Layout) (ls : WLState) (evs : List Event) : Option WLState := wrun ls (evs.filterMap (absEvW L))

theorem wlr_nil (L : Layout) (ls : WLState) : wlr L ls [] = some ls := rfl
theorem wlr_append (L : Layout) (ls : WLState) (a b : List Event) :
    wlr L ls (a ++ b) = (wlr L ls a).bind (fun m => wlr L m b) := by
  simp [wlr, List.filterMap_append, wrun_append]
theorem wlr_cons (L : Layout) (ls : WLState) (e : Event) (evs : List Event) :
    wlr L ls (e :: evs) = (match absEvW L e with
      | none => wlr L ls evs
      | some l => (wstep ls l).bind (fun m => wlr L m evs)) := by
  unfold wlr
  rw [List.filterMap_cons]
  cases absEvW L e with
  | none => rfl
  | some l =>
    simp only [wrun]
    cases wstep ls l <;> rfl

def IsNode (v : Val) : Bool :=
  match v with
  | .int n => n == 0
  | .ptr _ => true

/-- well-typed oracle values, stated on the events -/
def evOkW (L : Layout) : Event → Bool
  | .ld l v _ =>
    if l = .field L.W "flags" then (match v with | .int n => decide (0 ≤ n) | _ => false)
    else if l = .field L.W "futex" then (match v with | .int _ => true | _ => false)
    else (match l with
      | .field _ f => if f = "next" then IsNode v else true
      | _ => true)
  | .xchg l _ old _ =>
    (match l with
      | .field _ f => if f = "next" then IsNode old else true
      | _ => true)
  | .ext name _ r => if name = "errno" then decide (r = .int 11 ∨ r = .int 4) else true
  | _ => true

/-! ## a small program logic over `exec` (partial correctness, events accepted by the worker's automaton) -/

/-- `{Pre} s {Post}`: every run of `s` from an environment / local state satisfying `Pre` that returns `.ok` with
well-typed events is accepted by the local automaton and ends in `Post ctl env ls'` -/
def Triple (L : Layout) (fuel : Nat) (s : Stmt) (Pre : Env → WLState → Prop) (Post : Ctl → Env → WLState → Prop) : Prop :=
  ∀ env inp ls o, Pre env ls → exec fuel s env inp = .ok o → o.events.all (evOkW L) = true →
    ∃ ls', wlr L ls o.events = some ls' ∧ Post o.ctl o.env ls'

theorem Triple.conseq {L : Layout} {fuel : Nat} {s : Stmt} {Pre Pre' : Env → WLState → Prop}
    {Post Post' : Ctl → Env → WLState → Prop} (h : Triple L fuel s Pre Post)
    (hpre : ∀ e l, Pre' e l → Pre e l) (hpost : ∀ c e l, Post c e l → Post' c e l) : Triple L fuel s Pre' Post' := by
  intro env inp ls o hp hE hok
  obtain ⟨ls', h1, h2⟩ := h env inp ls o (hpre _ _ hp) hE hok
  exact ⟨ls', h1, hpost _ _ _ h2⟩

/-- `a; b`: `Mid` holds between the two when `a` ends normally; any other end of `a` is the end of the sequence -/
theorem Triple.seq {L : Layout} {fuel : Nat} {a b : Stmt} {Pre Mid : Env → WLState → Prop}
    {Post : Ctl → Env → WLState → Prop}
    (ha : Triple L fuel a Pre (fun c e l => if c = .normal then Mid e l else Post c e l))
    (hb : Triple L fuel b Mid Post) : Triple L fuel (.seq a b) Pre Post := by
  intro env inp ls o hp hE hok
  rw [exec_seq] at hE
  cases hA : exec fuel a env inp with
  | error e => rw [hA] at hE; simp at hE
  | ok oa =>
    rw [hA] at hE
    simp only [seqPost] at hE
    by_cases hc : oa.ctl = .normal
    · rw [hc] at hE
      simp only at hE
      cases hB : exec fuel b oa.env oa.inp with
      | error e => rw [hB] at hE; simp at hE
      | ok ob =>
        rw [hB] at hE
        simp only [Except.ok.injEq] at hE
        subst hE
        simp only [List.all_append, Bool.and_eq_true] at hok
        obtain ⟨l1, h1, h2⟩ := ha env inp ls oa hp hA hok.1
        rw [if_pos hc] at h2
        obtain ⟨l2, h3, h4⟩ := hb oa.env oa.inp l1 ob h2 hB hok.2
        exact ⟨l2, by simp [wlr_append, h1, h3], h4⟩
    · have : o = oa := by
        cases hctl : oa.ctl <;> simp_all
      subst this
      obtain ⟨l1, h1, h2⟩ := ha env inp ls o hp hA hok
      rw [if_neg hc] at h2
      exact ⟨l1, h1, h2⟩

theorem iterate_suffix (body : Env → List Val → Except String Out) :
    ∀ n env inp acc o, iterate body n env inp acc = .ok o → ∃ suf, o.events = acc ++ suf := by
  intro n
  induction n with
  | zero => intro env inp acc o h; simp [iterate] at h; subst h; exact ⟨[], by simp⟩
  | succ n ih =>
    intro env inp acc o h
    simp only [iterate, bind, Except.bind] at h
    split at h
    · simp at h
    · rename_i ob _
      split at h
      · obtain ⟨suf, hs⟩ := ih _ _ _ _ h; exact ⟨ob.events ++ suf, by rw [hs, List.append_assoc]⟩
      · obtain ⟨suf, hs⟩ := ih _ _ _ _ h; exact ⟨ob.events ++ suf, by rw [hs, List.append_assoc]⟩
      · simp at h; subst h; exact ⟨ob.events, rfl⟩
      · simp at h; subst h; exact ⟨ob.events, rfl⟩

/-- `for (;;) body`, every budget -/
theorem Triple.loop {L : Layout} {fuel : Nat} {body : Stmt} {I : Env → WLState → Prop}
    {R : Ctl → Env → WLState → Prop}
    (hb : Triple L fuel body I (fun c e l => if c.goesOn then I e l else R c e l)) :
    Triple L fuel (.loop body) I
      (fun c e l => (c = .fuel ∧ I e l) ∨ ∃ c0 : Ctl, c0.goesOn = false ∧ R c0 e l ∧ c = c0.afterLoop) := by
  have key : ∀ n env inp ls acc o, I env ls → iterate (exec fuel body) n env inp acc = .ok o →
      ∀ evs, o.events = acc ++ evs → evs.all (evOkW L) = true → ∃ ls', wlr L ls evs = some ls' ∧
        ((o.ctl = .fuel ∧ I o.env ls') ∨ ∃ c0 : Ctl, c0.goesOn = false ∧ R c0 o.env ls' ∧ o.ctl = c0.afterLoop) := by
    intro n
    induction n with
    | zero =>
      intro env inp ls acc o hI hE evs he hok
      simp only [iterate, Except.ok.injEq] at hE
      subst hE
      have : evs = [] := by simpa using he
      subst this
      exact ⟨ls, wlr_nil L ls, .inl ⟨rfl, hI⟩⟩
    | succ n ih =>
      intro env inp ls acc o hI hE evs he hok
      simp only [iterate, bind, Except.bind] at hE
      cases hB : exec fuel body env inp with
      | error e => rw [hB] at hE; simp at hE
      | ok ob =>
        rw [hB] at hE
        simp only at hE
        have hbb := hb env inp ls ob hI hB
        rcases ob with ⟨oev, oenv, oinp, octl⟩
        have goOn : octl.goesOn = true → iterate (exec fuel body) n oenv oinp (acc ++ oev) = .ok o →
            ∃ ls', wlr L ls evs = some ls' ∧
              ((o.ctl = .fuel ∧ I o.env ls') ∨ ∃ c0 : Ctl, c0.goesOn = false ∧ R c0 o.env ls' ∧ o.ctl = c0.afterLoop) := by
          intro hgo hE
          obtain ⟨suf, hs⟩ := iterate_suffix _ _ _ _ _ _ hE
          have hev : evs = oev ++ suf := by
            rw [he, List.append_assoc] at hs
            exact List.append_cancel_left hs
          subst hev
          simp only [List.all_append, Bool.and_eq_true] at hok
          obtain ⟨l1, h1, h2⟩ := hbb hok.1
          simp only [hgo, if_true] at h2
          obtain ⟨l2, h3, h4⟩ := ih oenv oinp l1 (acc ++ oev) o h2 hE suf (by rw [hs]) hok.2
          exact ⟨l2, by simp [wlr_append, h1, h3], h4⟩
        have stop : octl.goesOn = false → o = ⟨acc ++ oev, oenv, oinp, octl.afterLoop⟩ →
            ∃ ls', wlr L ls evs = some ls' ∧
              ((o.ctl = .fuel ∧ I o.env ls') ∨ ∃ c0 : Ctl, c0.goesOn = false ∧ R c0 o.env ls' ∧ o.ctl = c0.afterLoop) := by
          intro hgo ho
          subst ho
          have hev : evs = oev := (List.append_cancel_left he).symm
          subst hev
          obtain ⟨l1, h1, h2⟩ := hbb hok
          simp only [hgo] at h2
          exact ⟨l1, h1, .inr ⟨octl, hgo, by simpa using h2, rfl⟩⟩
        cases octl with
        | normal => exact goOn rfl hE
        | cont => exact goOn rfl hE
        | brk => exact stop rfl (by simpa [Ctl.afterLoop] using hE.symm)
        | ret v => exact stop rfl (by simpa [Ctl.afterLoop] using hE.symm)
        | blocked => exact stop rfl (by simpa [Ctl.afterLoop] using hE.symm)
        | fuel => exact stop rfl (by simpa [Ctl.afterLoop] using hE.symm)
  intro env inp ls o hp hE hok
  rw [exec_loop] at hE
  exact key fuel env inp ls [] o hp hE o.events (by simp) hok

/-! ## pieces of the generated `workqueue_thread` -/

/-- `i`-th statement of a block -/
def seqNth : Nat → Stmt → Stmt
  | 0, .seq a _ => a
  | 0, s => s
  | n+1, .seq _ b => seqNth n b
  | _+1, _ => .skip

/-- first loop body, looking into `if` branches too -/
def innerLoop : Stmt → Option Stmt
  | .loop b => some b
  | .seq a b => (match innerLoop a with
    | some x => some x
    | none => innerLoop b)
  | .ifte _ a b => (match innerLoop a with
    | some x => some x
    | none => innerLoop b)
  | _ => none

/-- body of the worker's main loop `for (;;) { … }` -/
def wBody : Stmt := (firstLoop Gen.Src.«workqueue_thread»).getD .skip

/-- `if (uatomic_read(&workqueue->flags) & URCU_WORKQUEUE_PAUSE) { … }` at the top of the main loop: the load and the `if` -/
def wTop : Stmt := .seq (seqNth 2 wBody) (seqNth 3 wBody)

/-- body of `while ((uatomic_read(&workqueue->flags) & URCU_WORKQUEUE_PAUSE) != 0) poll(NULL, 0, 1)` -/
def wPausedBody : Stmt := (innerLoop (seqNth 3 wBody)).getD .skip

/-! ## the PAUSE branch: quiescence of the paused worker (C16) -/

/-- the events a quiescent worker may perform: fences, accesses to `workqueue->flags`, `poll` -/
def quietEv (L : Layout) : Event → Bool
  | .fence _ => true
  | .ld l _ _ => decide (l = .field L.W "flags")
  | .rmw _ l _ _ _ => decide (l = .field L.W "flags")
  | .ext name _ _ => decide (name = "poll")
  | _ => false

/-- acceptance by the local automaton of an event list made of quiescent events only -/
def qlr (L : Layout) (ls : WLState) (evs : List Event) : Option WLState :=
  if evs.all (quietEv L) = true then wlr L ls evs else none

theorem qlr_nil (L : Layout) (ls : WLState) : qlr L ls [] = some ls := rfl
theorem qlr_append (L : Layout) (ls : WLState) (a b : List Event) :
    qlr L ls (a ++ b) = (qlr L ls a).bind (fun m => qlr L m b) := by
  unfold qlr
  by_cases ha : a.all (quietEv L) = true <;> by_cases hb : b.all (quietEv L) = true <;>
    simp [ha, hb, wlr_append]
  cases wlr L ls a <;> simp
theorem qlr_some {L : Layout} {ls ls' : WLState} {evs : List Event} (h : qlr L ls evs = some ls') :
    evs.all (quietEv L) = true ∧ wlr L ls evs = some ls' := by
  unfold qlr at h
  split at h
  · exact ⟨by assumption, h⟩
  · simp at h

theorem paused_body (L : Layout) (fuel : Nat) (env : Env) (inp : List Val) (ls : WLState) (cnt : Nat) (rt : Bool)
    (hI : env.vars "workqueue" = some (.ptr L.W) ∧ FlagLoopInp inp ∧ ls = ⟨.at .paused, cnt, rt⟩) :
    ∃ o, exec fuel wPausedBody env inp = .ok o ∧ ∃ ls', qlr L ls o.events = some ls' ∧
      (if o.ctl.goesOn then o.env.vars "workqueue" = some (.ptr L.W) ∧ FlagLoopInp o.inp ∧ ls' = ⟨.at .paused, cnt, rt⟩
       else o.env.vars = env.vars ∧ o.env.priv = env.priv ∧
        ((o.ctl = .brk ∧ ls' = ⟨.at .unpausing, cnt, rt⟩) ∨ (o.ctl = .blocked ∧ ls' = ⟨.at .paused, cnt, rt⟩))) := by
  obtain ⟨hw, hi, rfl⟩ := hI
  cases inp with
  | nil =>
    wexec [wPausedBody, innerLoop, seqNth, wBody, firstLoop, Gen.Src.«workqueue_thread», qlr, wlr, wrun, Ctl.goesOn]
  | cons f rest =>
    cases rest with
    | nil =>
      obtain ⟨n, rfl⟩ := hi
      by_cases hb : bit n 4 = true <;>
        wexec [wPausedBody, innerLoop, seqNth, wBody, firstLoop, Gen.Src.«workqueue_thread», qlr, wlr, wrun, Ctl.goesOn,
          absEvW, wstep, quietEv, hb]
    | cons p rest =>
      obtain ⟨⟨n, rfl⟩, hi⟩ := hi
      by_cases hb : bit n 4 = true <;>
        wexec [wPausedBody, innerLoop, seqNth, wBody, firstLoop, Gen.Src.«workqueue_thread», qlr, wlr, wrun, Ctl.goesOn,
          absEvW, wstep, quietEv, hb]

end UrcuVerif.Src.WqR
