import UrcuVerif.Src.WqRefine
/-!
# Generated source IR of `workqueue_thread()` ⊑ the worker's local automaton (`WqL.wstep`)

Partial-correctness form (the form of `notes/SRC_BRIEF.md`): `exec … = .ok out → (events well typed) → wlr ls out.events = some ls' ∧ …`,
for every loop budget and every oracle, i.e. every prefix of every event sequence of the source text.

Abstraction of events `absEvW L` (`some .bad` = rejected, `none` = silent):

* flags / futex / qlen accesses ↦ the labels of `WqL.WLabel` with the values observed / written;
* **queue oracle discipline**: of the accesses inside the wfcqueue only the *observations* are labels –
  `ldHead v`, `ldTail isHead` (emptiness tests of `cds_wfcq_empty` / splice), `xchgHead v`, `spliceX` (the exchange of the
  public tail with `&cbs_head`: L2's `wSplice`, which takes `batch := queue` – justified by C10), and the loads of the
  traversal of the private list `ldNext a v`, `ldTTail v`; the stores / exchange of the append to the *private* list
  `cbs_tmp` (a stack object) are silent;
* `ext "(*func)" [f, uwp]` ↦ `run (&uwp->next)`: the work function call;
* silent: fences, `poll`, `CDS_WFCQ_WAIT_SLEEP`, `pthread_mutex_init` (of `cds_wfcq_init(&cbs_tmp)`), the seven user hooks
  `(*…_fct)`, `FUTEX_WAIT` returning non-zero (outcome = the following `errno`);
* rejected: `urcu_die`, any other access.

Well-typedness of events `evOkW` (hypothesis on the oracle, stated on the events): a loaded flags word is a non-negative
integer, a loaded futex word an integer, loaded / exchanged `next` pointers are NULL or node addresses `&x->next`, `errno` after a failed
`FUTEX_WAIT` is EAGAIN or EINTR.
-/
set_option linter.unusedSimpArgs false
set_option linter.unusedVariables false
set_option maxRecDepth 8192
namespace UrcuVerif.Src.WqR
open UrcuVerif UrcuVerif.Src UrcuVerif.Wq WqL

def hookNames : List String :=
  ["(*initialize_worker_fct)", "(*finalize_worker_fct)", "(*grace_period_fct)", "(*worker_before_wait_fct)",
   "(*worker_after_wake_up_fct)", "(*worker_before_pause_fct)", "(*worker_after_resume_fct)"]

def absEvW (L : Layout) : Event → Option WLabel
  | .fence _ => none
  | .ld l v _ =>
    if l = .field L.W "flags" then
      (match v with
        | .int n => if 0 ≤ n then some (.ldFl n.toNat) else some .bad
        | _ => some .bad)
    else if l = .field L.W "futex" then
      (match v with
        | .int n => some (.ldFutex n)
        | _ => some .bad)
    else if l = .field (.field L.W "cbs_head") "next" then some (.ldHead v)
    else if l = .field (.field L.W "cbs_tail") "p" then some (.ldTail (decide (v = .ptr (.field L.W "cbs_head"))))
    else if l = .field (.glob "&cbs_tmp_tail") "p" then some (.ldTTail v)
    else (match l with
      | .field a f => if f = "next" then some (.ldNext a v) else some .bad
      | _ => some .bad)
  | .xchg l new old _ =>
    if l = .field (.field L.W "cbs_head") "next" then (if new = .int 0 then some (.xchgHead old) else some .bad)
    else if l = .field (.field L.W "cbs_tail") "p" then
      (if new = .ptr (.field L.W "cbs_head") then some .spliceX else some .bad)
    else if l = .field (.glob "&cbs_tmp_tail") "p" then none
    else some .bad
  | .st l v _ =>
    if l = .field L.W "futex" then (if v = .int 0 then some .stFutex else some .bad)
    else (match l with
      | .field _ f => if f = "next" then none else some .bad
      | _ => some .bad)
  | .rmw op l operand _ _ =>
    if l = .field L.W "futex" then (if op = .udec then some .decFutex else some .bad)
    else if l = .field L.W "flags" then
      (if op = .uor ∧ operand = .int 8 then some .setPaused
       else if op = .uand ∧ operand = .int 18446744073709551607 then some .clrPaused
       else some .bad)
    else if l = .field L.W "qlen" then
      (if op = .usub then
        (match operand with
          | .int n => some (.subQlen n)
          | _ => some .bad)
       else some .bad)
    else some .bad
  | .ext name args r =>
    if name = "(*func)" then
      (match args with
        | [_, .ptr uwp] => some (.run (.field uwp "next"))
        | _ => some .bad)
    else if name = "futex_async" then
      (if args = [.ptr (.field L.W "futex"), .int 0, .int (-1), .int 0, .int 0, .int 0] then
         (if r = .int 0 then some .waitSleep else none)
       else some .bad)
    else if name = "errno" then
      (if r = .int 11 then some .waitEagain else if r = .int 4 then some .waitEintr else some .bad)
    else if name = "poll" ∨ name = "CDS_WFCQ_WAIT_SLEEP" ∨ name = "pthread_mutex_init" ∨ name ∈ hookNames then none
    else some .bad
  | .cas _ _ _ _ _ _ => some .bad

def wlr (L : Layout) (ls : WLState) (evs : List Event) : Option WLState := wrun ls (evs.filterMap (absEvW L))

theorem wlr_nil (L : Layout) (ls : WLState) : wlr L ls [] = some ls := rfl
theorem wlr_append (L : Layout) (ls : WLState) (a b : List Event) :
    wlr L ls (a ++ b) = (wlr L ls a).bind (fun m => wlr L m b) := by
  simp [wlr, List.filterMap_append, wrun_append]
theorem wlr_cons (L : Layout) (ls : WLState) (e : Event) (evs : List Event) :
    wlr L ls (e :: evs) = (match absEvW L e with
      | none => wlr L ls evs
      | some l => (wstep ls l).bind (fun m => wlr L m evs)) := by
  unfold wlr
  rw [List.filterMap_cons]
  cases absEvW L e with
  | none => rfl
  | some l =>
    simp only [wrun]
    cases wstep ls l <;> rfl

/-- NULL or the address of a queue node `&x->next` (every `struct cds_wfcq_node` the work queue handles is the member
`next` of a `struct urcu_work`) -/
def IsNode (v : Val) : Bool :=
  match v with
  | .int n => n == 0
  | .ptr (.field _ f) => f == "next"
  | .ptr _ => false

/-- well-typed oracle values, stated on the events -/
def evOkW (L : Layout) : Event → Bool
  | .ld l v _ =>
    if l = .field L.W "flags" then (match v with | .int n => decide (0 ≤ n) | _ => false)
    else if l = .field L.W "futex" then (match v with | .int _ => true | _ => false)
    else (match l with
      | .field _ f => if f = "next" then IsNode v else true
      | _ => true)
  | .xchg l _ old _ =>
    (match l with
      | .field _ f => if f = "next" then IsNode old else true
      | _ => true)
  | .ext name _ r => if name = "errno" then decide (r = .int 11 ∨ r = .int 4) else true
  | _ => true

/-! ## a small program logic over `exec` (partial correctness, events accepted by the worker's automaton) -/

/-- `{Pre} s {Post}`: every run of `s` from an environment / local state satisfying `Pre` that returns `.ok` with
well-typed events is accepted by the local automaton and ends in `Post ctl env ls'` -/
def Triple (L : Layout) (fuel : Nat) (s : Stmt) (Pre : Env → WLState → Prop) (Post : Ctl → Env → WLState → Prop) : Prop :=
  ∀ env inp ls o, Pre env ls → exec fuel s env inp = .ok o → o.events.all (evOkW L) = true →
    ∃ ls', wlr L ls o.events = some ls' ∧ Post o.ctl o.env ls'

theorem Triple.conseq {L : Layout} {fuel : Nat} {s : Stmt} {Pre Pre' : Env → WLState → Prop}
    {Post Post' : Ctl → Env → WLState → Prop} (h : Triple L fuel s Pre Post)
    (hpre : ∀ e l, Pre' e l → Pre e l) (hpost : ∀ c e l, Post c e l → Post' c e l) : Triple L fuel s Pre' Post' := by
  intro env inp ls o hp hE hok
  obtain ⟨ls', h1, h2⟩ := h env inp ls o (hpre _ _ hp) hE hok
  exact ⟨ls', h1, hpost _ _ _ h2⟩

/-- `a; b`: `Mid` holds between the two when `a` ends normally; any other end of `a` is the end of the sequence -/
theorem Triple.seq {L : Layout} {fuel : Nat} {a b : Stmt} {Pre Mid : Env → WLState → Prop}
    {Post : Ctl → Env → WLState → Prop}
    (ha : Triple L fuel a Pre (fun c e l => if c = .normal then Mid e l else Post c e l))
    (hb : Triple L fuel b Mid Post) : Triple L fuel (.seq a b) Pre Post := by
  intro env inp ls o hp hE hok
  rw [exec_seq] at hE
  cases hA : exec fuel a env inp with
  | error e => rw [hA] at hE; simp at hE
  | ok oa =>
    rw [hA] at hE
    simp only [seqPost] at hE
    by_cases hc : oa.ctl = .normal
    · rw [hc] at hE
      simp only at hE
      cases hB : exec fuel b oa.env oa.inp with
      | error e => rw [hB] at hE; simp at hE
      | ok ob =>
        rw [hB] at hE
        simp only [Except.ok.injEq] at hE
        subst hE
        simp only [List.all_append, Bool.and_eq_true] at hok
        obtain ⟨l1, h1, h2⟩ := ha env inp ls oa hp hA hok.1
        rw [if_pos hc] at h2
        obtain ⟨l2, h3, h4⟩ := hb oa.env oa.inp l1 ob h2 hB hok.2
        exact ⟨l2, by simp [wlr_append, h1, h3], h4⟩
    · have : o = oa := by
        cases hctl : oa.ctl <;> simp_all
      subst this
      obtain ⟨l1, h1, h2⟩ := ha env inp ls o hp hA hok
      rw [if_neg hc] at h2
      exact ⟨l1, h1, h2⟩

theorem iterate_suffix (body : Env → List Val → Except String Out) :
    ∀ n env inp acc o, iterate body n env inp acc = .ok o → ∃ suf, o.events = acc ++ suf := by
  intro n
  induction n with
  | zero => intro env inp acc o h; simp [iterate] at h; subst h; exact ⟨[], by simp⟩
  | succ n ih =>
    intro env inp acc o h
    simp only [iterate, bind, Except.bind] at h
    split at h
    · simp at h
    · rename_i ob _
      split at h
      · obtain ⟨suf, hs⟩ := ih _ _ _ _ h; exact ⟨ob.events ++ suf, by rw [hs, List.append_assoc]⟩
      · obtain ⟨suf, hs⟩ := ih _ _ _ _ h; exact ⟨ob.events ++ suf, by rw [hs, List.append_assoc]⟩
      · simp at h; subst h; exact ⟨ob.events, rfl⟩
      · simp at h; subst h; exact ⟨ob.events, rfl⟩

/-- `for (;;) body`, every budget -/
theorem Triple.loop {L : Layout} {fuel : Nat} {body : Stmt} {I : Env → WLState → Prop}
    {R : Ctl → Env → WLState → Prop}
    (hb : Triple L fuel body I (fun c e l => if c.goesOn then I e l else R c e l)) :
    Triple L fuel (.loop body) I
      (fun c e l => (c = .fuel ∧ I e l) ∨ ∃ c0 : Ctl, c0.goesOn = false ∧ R c0 e l ∧ c = c0.afterLoop) := by
  have key : ∀ n env inp ls acc o, I env ls → iterate (exec fuel body) n env inp acc = .ok o →
      ∀ evs, o.events = acc ++ evs → evs.all (evOkW L) = true → ∃ ls', wlr L ls evs = some ls' ∧
        ((o.ctl = .fuel ∧ I o.env ls') ∨ ∃ c0 : Ctl, c0.goesOn = false ∧ R c0 o.env ls' ∧ o.ctl = c0.afterLoop) := by
    intro n
    induction n with
    | zero =>
      intro env inp ls acc o hI hE evs he hok
      simp only [iterate, Except.ok.injEq] at hE
      subst hE
      have : evs = [] := by simpa using he
      subst this
      exact ⟨ls, wlr_nil L ls, .inl ⟨rfl, hI⟩⟩
    | succ n ih =>
      intro env inp ls acc o hI hE evs he hok
      simp only [iterate, bind, Except.bind] at hE
      cases hB : exec fuel body env inp with
      | error e => rw [hB] at hE; simp at hE
      | ok ob =>
        rw [hB] at hE
        simp only at hE
        have hbb := hb env inp ls ob hI hB
        rcases ob with ⟨oev, oenv, oinp, octl⟩
        have goOn : octl.goesOn = true → iterate (exec fuel body) n oenv oinp (acc ++ oev) = .ok o →
            ∃ ls', wlr L ls evs = some ls' ∧
              ((o.ctl = .fuel ∧ I o.env ls') ∨ ∃ c0 : Ctl, c0.goesOn = false ∧ R c0 o.env ls' ∧ o.ctl = c0.afterLoop) := by
          intro hgo hE
          obtain ⟨suf, hs⟩ := iterate_suffix _ _ _ _ _ _ hE
          have hev : evs = oev ++ suf := by
            rw [he, List.append_assoc] at hs
            exact List.append_cancel_left hs
          subst hev
          simp only [List.all_append, Bool.and_eq_true] at hok
          obtain ⟨l1, h1, h2⟩ := hbb hok.1
          simp only [hgo, if_true] at h2
          obtain ⟨l2, h3, h4⟩ := ih oenv oinp l1 (acc ++ oev) o h2 hE suf (by rw [hs]) hok.2
          exact ⟨l2, by simp [wlr_append, h1, h3], h4⟩
        have stop : octl.goesOn = false → o = ⟨acc ++ oev, oenv, oinp, octl.afterLoop⟩ →
            ∃ ls', wlr L ls evs = some ls' ∧
              ((o.ctl = .fuel ∧ I o.env ls') ∨ ∃ c0 : Ctl, c0.goesOn = false ∧ R c0 o.env ls' ∧ o.ctl = c0.afterLoop) := by
          intro hgo ho
          subst ho
          have hev : evs = oev := (List.append_cancel_left he).symm
          subst hev
          obtain ⟨l1, h1, h2⟩ := hbb hok
          simp only [hgo] at h2
          exact ⟨l1, h1, .inr ⟨octl, hgo, by simpa using h2, rfl⟩⟩
        cases octl with
        | normal => exact goOn rfl hE
        | cont => exact goOn rfl hE
        | brk => exact stop rfl (by simpa [Ctl.afterLoop] using hE.symm)
        | ret v => exact stop rfl (by simpa [Ctl.afterLoop] using hE.symm)
        | blocked => exact stop rfl (by simpa [Ctl.afterLoop] using hE.symm)
        | fuel => exact stop rfl (by simpa [Ctl.afterLoop] using hE.symm)
  intro env inp ls o hp hE hok
  rw [exec_loop] at hE
  exact key fuel env inp ls [] o hp hE o.events (by simp) hok

/-! ## pieces of the generated `workqueue_thread` -/

/-- `i`-th statement of a block -/
def seqNth : Nat → Stmt → Stmt
  | 0, .seq a _ => a
  | 0, s => s
  | n+1, .seq _ b => seqNth n b
  | _+1, _ => .skip

/-- first loop body, looking into `if` branches too -/
def innerLoop : Stmt → Option Stmt
  | .loop b => some b
  | .seq a b => (match innerLoop a with
    | some x => some x
    | none => innerLoop b)
  | .ifte _ a b => (match innerLoop a with
    | some x => some x
    | none => innerLoop b)
  | _ => none

/-- body of the worker's main loop `for (;;) { … }` -/
def wBody : Stmt := (firstLoop Gen.Src.«workqueue_thread»).getD .skip

/-- `if (uatomic_read(&workqueue->flags) & URCU_WORKQUEUE_PAUSE) { … }` at the top of the main loop: the load and the `if` -/
def wTop : Stmt := .seq (seqNth 2 wBody) (seqNth 3 wBody)

/-- body of `while ((uatomic_read(&workqueue->flags) & URCU_WORKQUEUE_PAUSE) != 0) poll(NULL, 0, 1)` -/
def wPausedBody : Stmt := (innerLoop (seqNth 3 wBody)).getD .skip

/-! ## the PAUSE branch: quiescence of the paused worker (C16) -/

/-- the events a quiescent worker may perform: fences, accesses to `workqueue->flags`, `poll` -/
def quietEv (L : Layout) : Event → Bool
  | .fence _ => true
  | .ld l _ _ => decide (l = .field L.W "flags")
  | .rmw _ l _ _ _ => decide (l = .field L.W "flags")
  | .ext name _ _ => decide (name = "poll")
  | _ => false

/-- acceptance by the local automaton of an event list made of quiescent events only -/
def qlr (L : Layout) (ls : WLState) (evs : List Event) : Option WLState :=
  if evs.all (quietEv L) = true then wlr L ls evs else none

theorem qlr_nil (L : Layout) (ls : WLState) : qlr L ls [] = some ls := rfl
theorem qlr_append (L : Layout) (ls : WLState) (a b : List Event) :
    qlr L ls (a ++ b) = (qlr L ls a).bind (fun m => qlr L m b) := by
  unfold qlr
  by_cases ha : a.all (quietEv L) = true <;> by_cases hb : b.all (quietEv L) = true <;>
    simp [ha, hb, wlr_append]
  all_goals (cases wlr L ls a <;> simp)
theorem qlr_some {L : Layout} {ls ls' : WLState} {evs : List Event} (h : qlr L ls evs = some ls') :
    evs.all (quietEv L) = true ∧ wlr L ls evs = some ls' := by
  unfold qlr at h
  split at h
  · exact ⟨by assumption, h⟩
  · simp at h

theorem qlr_cons (L : Layout) (ls : WLState) (e : Event) (evs : List Event) :
    qlr L ls (e :: evs) = (if quietEv L e = true then
      (match absEvW L e with
        | none => qlr L ls evs
        | some l => (wstep ls l).bind (fun m => qlr L m evs))
      else none) := by
  unfold qlr
  by_cases he : quietEv L e = true <;> by_cases ha : evs.all (quietEv L) = true <;> simp [he, ha, wlr_cons]
  cases absEvW L e with
  | none => rfl
  | some l => cases wstep ls l <;> rfl

theorem paused_body (L : Layout) (fuel : Nat) (env : Env) (inp : List Val) (ls : WLState) (cnt : Nat) (rt : Bool)
    (priv0 : Loc → Option Val)
    (hI : (env.vars "workqueue" = some (.ptr L.W) ∧ env.priv = priv0) ∧ FlagLoopInp inp ∧ ls = ⟨.at .paused, cnt, rt⟩) :
    ∃ o, exec fuel wPausedBody env inp = .ok o ∧ ∃ ls', qlr L ls o.events = some ls' ∧
      (if o.ctl.goesOn then (o.env.vars "workqueue" = some (.ptr L.W) ∧ o.env.priv = priv0) ∧ FlagLoopInp o.inp ∧
          ls' = ⟨.at .paused, cnt, rt⟩
       else (o.env.vars "workqueue" = some (.ptr L.W) ∧ o.env.priv = priv0) ∧
        ((o.ctl = .brk ∧ ls' = ⟨.at .unpausing, cnt, rt⟩) ∨ (o.ctl = .blocked ∧ ls' = ⟨.at .paused, cnt, rt⟩))) := by
  obtain ⟨⟨hw, hp0⟩, hi, rfl⟩ := hI
  cases inp with
  | nil =>
    wexec [wPausedBody, innerLoop, seqNth, wBody, firstLoop, Gen.Src.«workqueue_thread», qlr, wlr, wrun, Ctl.goesOn]
  | cons f rest =>
    cases rest with
    | nil =>
      obtain ⟨n, rfl⟩ := hi
      by_cases hb : bit n 4 = true <;>
        wexec [wPausedBody, innerLoop, seqNth, wBody, firstLoop, Gen.Src.«workqueue_thread», qlr, wlr, wrun, Ctl.goesOn,
          absEvW, wstep, quietEv, hb]
    | cons p rest =>
      obtain ⟨⟨n, rfl⟩, hi⟩ := hi
      by_cases hb : bit n 4 = true <;>
        wexec [wPausedBody, innerLoop, seqNth, wBody, firstLoop, Gen.Src.«workqueue_thread», qlr, wlr, wrun, Ctl.goesOn,
          absEvW, wstep, quietEv, hb]

/-- oracle of the top of the loop: the flags word; if PAUSE is set: result of `uatomic_or` (ignored), the poll loop -/
def TopInp : List Val → Prop
  | [] => True
  | f :: rest => ∃ n : Nat, f = .int n ∧ (bit n 4 = true →
      match rest with
      | [] => True
      | _ :: r => FlagLoopInp r)

/-- **the PAUSE branch** (`wTop`, from L2's `top`; hooks `worker_before_pause_fct` / `worker_after_resume_fct` unset, as
for the hash table's work queue): the events are `wTop ; [wPause ;` stutter loads `; wSeeResume ; wUnpause]`, **all of them
quiescent** (`quietEv`: fences, accesses to the flags word, `poll`) – no splice, no traversal of a work list, no work
function call between the load that sees PAUSE and the `uatomic_and` that clears PAUSED; `cbcount` and `rt` are untouched. -/
def TopPost (L : Layout) (ls : WLState) (out : Out) : Prop :=
  ∃ ls', qlr L ls out.events = some ls' ∧ ls'.cnt = ls.cnt ∧ ls'.rt = ls.rt ∧
    ((out.ctl = .normal ∧ ls'.pc = .at .splice) ∨
     (out.ctl = .blocked ∧ (ls'.pc = .at .top ∨ ls'.pc = .at .pausing ∨ ls'.pc = .at .paused ∨ ls'.pc = .at .unpausing)) ∨
     (out.ctl = .fuel ∧ ls'.pc = .at .paused))

theorem worker_top_exec (L : Layout) (fuel : Nat) (env : Env) (inp : List Val) (ls : WLState)
    (hpc : ls.pc = .at .top) (hw : env.vars "workqueue" = some (.ptr L.W))
    (hh1 : env.priv (.field L.W "worker_before_pause_fct") = some (.int 0))
    (hh2 : env.priv (.field L.W "worker_after_resume_fct") = some (.int 0)) (hi : TopInp inp) :
    ∃ out, exec fuel wTop env inp = .ok out ∧ TopPost L ls out := by
  obtain ⟨pc, cnt, rt⟩ := ls
  simp only at hpc
  subst hpc
  rw [show wTop = Stmt.seq (.prim _ _ _) (.ifte _ (.seq _ (.seq _ (.seq _ (.seq (.loop wPausedBody) (.seq _ (.seq _ _)))))) .skip)
    from rfl]
  cases inp with
  | nil => wexec [TopPost, qlr, wlr, wrun]
  | cons f rest =>
    obtain ⟨n, rfl, hi⟩ := hi
    by_cases hb : bit n 4 = true
    · have hi := hi hb
      cases rest with
      | nil => wexec [TopPost, qlr_cons, qlr_nil, quietEv, absEvW, wstep, hb]
      | cons u r =>
        simp only at hi
        wexec [hb]
        obtain ⟨out, ho, evs, ls2, hev, hl, hfin⟩ :=
          iterate_inv' (qlr L) (qlr_nil L) (qlr_append L) (exec fuel wPausedBody)
            (fun e i l => (e.vars "workqueue" = some (.ptr L.W) ∧ e.priv = env.priv) ∧ FlagLoopInp i ∧
              l = ⟨.at .paused, cnt, rt⟩)
            (fun c e _ l => (e.vars "workqueue" = some (.ptr L.W) ∧ e.priv = env.priv) ∧
              ((c = .brk ∧ l = ⟨.at .unpausing, cnt, rt⟩) ∨ (c = .blocked ∧ l = ⟨.at .paused, cnt, rt⟩)))
            (fun e i l h => paused_body L fuel e i l cnt rt env.priv h) fuel
            ⟨fun y => if y = "_t6" then some (Val.int ↑n) else env.vars y, env.priv⟩ r ⟨.at .paused, cnt, rt⟩ []
            ⟨⟨by simpa using hw, rfl⟩, hi, rfl⟩
        rcases out with ⟨oev, oen, oip, octl⟩
        simp only [List.nil_append] at hev
        subst hev
        simp only [ho]
        rcases hfin with ⟨rfl, -, -, rfl⟩ | ⟨c, -, ⟨⟨hw2, hp2⟩, hR⟩, rfl⟩
        · simp_all [TopPost, qlr_cons, qlr_append, quietEv, absEvW, wstep]
        · simp only at hw2 hp2
          rcases hR with ⟨rfl, rfl⟩ | ⟨rfl, rfl⟩
          · cases oip with
            | nil =>
              wexec [TopPost, qlr_cons, qlr_append, qlr_nil, quietEv, absEvW, wstep, Ctl.afterLoop, hb, hw2, hp2, hl]
            | cons a oip =>
              wexec [TopPost, qlr_cons, qlr_append, qlr_nil, quietEv, absEvW, wstep, Ctl.afterLoop, hb, hw2, hp2, hl]
          · simp_all [TopPost, qlr_cons, qlr_append, quietEv, absEvW, wstep, Ctl.afterLoop]
    · wexec [TopPost, qlr_cons, qlr_nil, quietEv, absEvW, wstep, hb]

/-! ## one batch: the traversal `__cds_wfcq_for_each_blocking_safe(&cbs_tmp_head, &cbs_tmp_tail, cbs, cbs_tmp_n)` and
`uatomic_sub(&workqueue->qlen, cbcount)`

PARTIAL: proved for the oracles `FeInp` under which the traversal never has to busy-wait for a `next` pointer (every
enqueuer's delayed store `old_tail->next = node` has been committed before the worker loads it): a load of `cbs->next`
returns either a node, or NULL and then the load of `cbs_tmp_tail.p` returns `cbs` (end of the list).  The busy-wait path
(`___cds_wfcq_node_sync_next`, accepted by the automaton at `fetchS`) is not covered by the theorem. -/

def thenOf : Stmt → Stmt
  | .ifte _ a _ => a
  | s => s

/-- `if (splice_ret != CDS_WFCQ_RET_SRC_EMPTY) { … }`: statement 7 of the loop body -/
def wBatch : Stmt := seqNth 7 wBody
/-- the traversal loop followed by `uatomic_sub(&workqueue->qlen, cbcount)` -/
def wForEach : Stmt := .seq (seqNth 4 (thenOf wBatch)) (seqNth 5 (thenOf wBatch))
/-- body of the traversal loop -/
def wFEBody : Stmt := (innerLoop wBatch).getD .skip

/-- oracle of the traversal from the work `u` (node `&u->next`) without busy-waiting: value of `cbs->next`; if NULL: value of
`cbs_tmp_tail.p`, which is `cbs`; then the result of the work function (ignored) -/
def FeInp : List Val → Loc → Prop
  | [], _ => True
  | [v1], _ => v1 = .int 0 ∨ ∃ u2, v1 = .ptr (.field u2 "next")
  | v1 :: v2 :: rest2, u =>
    (v1 = .int 0 ∧ v2 = .ptr (.field u "next")) ∨ (∃ u2, v1 = .ptr (.field u2 "next") ∧ FeInp rest2 u2)

/-- loop invariant: `_t9` = the node to run next (`fetch0`), or NULL when the list is exhausted (`sub`); `cbcount` = the
automaton's count -/
def FeInv (L : Layout) (rt : Bool) (priv0 : Loc → Option Val) (env : Env) (inp : List Val) (ls : WLState) : Prop :=
  env.vars "workqueue" = some (.ptr L.W) ∧ env.priv = priv0 ∧ ∃ cnt : Nat, env.vars "cbcount" = some (.int cnt) ∧
    ((∃ u, env.vars "_t9" = some (.ptr (.field u "next")) ∧ ls = ⟨.fetch0 (.field u "next"), cnt, rt⟩ ∧ FeInp inp u) ∨
     (env.vars "_t9" = some (.int 0) ∧ ls = ⟨.at .sub, cnt, rt⟩))

def FeEnd (L : Layout) (rt : Bool) (priv0 : Loc → Option Val) (c : Ctl) (env : Env) (_inp : List Val) (ls : WLState) : Prop :=
  (c = .brk ∧ env.vars "workqueue" = some (.ptr L.W) ∧ env.priv = priv0 ∧
      ∃ cnt : Nat, env.vars "cbcount" = some (.int cnt) ∧ ls = ⟨.at .sub, cnt, rt⟩) ∨
  (c = .blocked ∧ ∃ cnt : Nat, ∃ p, ls = ⟨p, cnt, rt⟩ ∧ p.abs = .inv)

theorem fe_body (L : Layout) (fuel : Nat) (rt : Bool) (priv0 : Loc → Option Val)
    (hfunc : ∀ u, ∃ fv, priv0 (.field u "func") = some fv) (env : Env) (inp : List Val) (ls : WLState)
    (hI : FeInv L rt priv0 env inp ls) :
    ∃ o, exec fuel wFEBody env inp = .ok o ∧ ∃ ls', wlr L ls o.events = some ls' ∧
      (if o.ctl.goesOn then FeInv L rt priv0 o.env o.inp ls' else FeEnd L rt priv0 o.ctl o.env o.inp ls') := by
  obtain ⟨hw, hp, cnt, hc, hcase⟩ := hI
  rcases hcase with ⟨u, h9, rfl, hi⟩ | ⟨h9, rfl⟩
  · obtain ⟨fv, hfv⟩ := hfunc u
    cases inp with
    | nil =>
      wexec [wFEBody, innerLoop, wBatch, seqNth, wBody, firstLoop, Gen.Src.«workqueue_thread»,
        Gen.Src.«___cds_wfcq_next_blocking», Gen.Src.«___cds_wfcq_next», wlr, wrun, Ctl.goesOn, FeEnd, WLPc.abs]
      exact ⟨_, _, ⟨rfl, rfl⟩, rfl⟩
    | cons v1 rest =>
      cases rest with
      | nil =>
        rcases hi with rfl | ⟨u2, rfl⟩ <;>
          wexec [wFEBody, innerLoop, wBatch, seqNth, wBody, firstLoop, Gen.Src.«workqueue_thread»,
            Gen.Src.«___cds_wfcq_next_blocking», Gen.Src.«___cds_wfcq_next», wlr, wrun, Ctl.goesOn, FeEnd, WLPc.abs,
            absEvW, wstep] <;> exact ⟨_, _, ⟨rfl, rfl⟩, rfl⟩
      | cons v2 rest2 =>
        rcases hi with ⟨rfl, rfl⟩ | ⟨u2, rfl, hi⟩
        · cases rest2 with
          | nil =>
            wexec [wFEBody, innerLoop, wBatch, seqNth, wBody, firstLoop, Gen.Src.«workqueue_thread»,
              Gen.Src.«___cds_wfcq_next_blocking», Gen.Src.«___cds_wfcq_next», wlr, wrun, Ctl.goesOn, FeEnd, WLPc.abs,
              absEvW, wstep]
            exact ⟨_, _, ⟨rfl, rfl⟩, rfl⟩
          | cons v3 rest3 =>
            wexec [wFEBody, innerLoop, wBatch, seqNth, wBody, firstLoop, Gen.Src.«workqueue_thread»,
              Gen.Src.«___cds_wfcq_next_blocking», Gen.Src.«___cds_wfcq_next», wlr, wrun, Ctl.goesOn, FeEnd, FeInv,
              WLPc.abs, absEvW, wstep]
        · wexec [wFEBody, innerLoop, wBatch, seqNth, wBody, firstLoop, Gen.Src.«workqueue_thread»,
            Gen.Src.«___cds_wfcq_next_blocking», Gen.Src.«___cds_wfcq_next», wlr, wrun, Ctl.goesOn, FeEnd, FeInv,
            WLPc.abs, absEvW, wstep]
  · wexec [wFEBody, innerLoop, wBatch, seqNth, wBody, firstLoop, Gen.Src.«workqueue_thread», wlr, wrun, Ctl.goesOn,
      FeEnd]

/-- **one batch** (`wForEach`, from the state in which `_t9` holds the first node of the private list, L2's `inv`; no
busy-waiting: `FeInp`): never fails; the accepted label sequence is `(next(cᵢ) = cᵢ₊₁ ; run cᵢ)* ; subQlen n` – by the shape of
`WqL.wstep` every node the traversal returns is run exactly once, at once, in traversal order (`wq_worker_run`), with
`uwp = caa_container_of(cbs, struct urcu_work, next)`, and `qlen` is decremented by exactly the number `n` of works run
(`subQlen n` is accepted only for `n = cnt`); a completed batch is at L2's `stopchk`. -/
def FePost (L : Layout) (rt : Bool) (ls : WLState) (out : Out) : Prop :=
  ∃ ls', wlr L ls out.events = some ls' ∧ ls'.rt = rt ∧
    ((out.ctl = .normal ∧ ls'.pc = .at .stopchk) ∨
     ((out.ctl = .blocked ∨ out.ctl = .fuel) ∧ (ls'.pc.abs = .inv ∨ ls'.pc = .at .sub)))

theorem worker_foreach_exec (L : Layout) (fuel : Nat) (rt : Bool) (priv0 : Loc → Option Val)
    (hfunc : ∀ u, ∃ fv, priv0 (.field u "func") = some fv) (env : Env) (inp : List Val) (ls : WLState)
    (hI : FeInv L rt priv0 env inp ls) :
    ∃ out, exec fuel wForEach env inp = .ok out ∧ FePost L rt ls out := by
  rw [show wForEach = Stmt.seq (.loop wFEBody) (.prim _ _ _) from rfl]
  obtain ⟨out, ho, evs, ls2, hev, hl, hfin⟩ :=
    iterate_inv' (wlr L) (wlr_nil L) (wlr_append L) (exec fuel wFEBody) (FeInv L rt priv0) (FeEnd L rt priv0)
      (fe_body L fuel rt priv0 hfunc) fuel env inp ls [] hI
  rcases out with ⟨oev, oen, oip, octl⟩
  simp only [List.nil_append] at hev
  subst hev
  rw [exec_seq, exec_loop, ho]
  rcases hfin with ⟨rfl, -, -, cnt, -, hcase⟩ | ⟨c, -, hR, rfl⟩
  · rcases hcase with ⟨u, -, rfl, -⟩ | ⟨-, rfl⟩ <;>
      simp_all [seqPost, FePost, WLPc.abs]
  · rcases hR with ⟨rfl, hw2, hp2, cnt, hc2, rfl⟩ | ⟨rfl, cnt, p, rfl, hp⟩
    · simp only at hw2 hp2 hc2
      cases oip with
      | nil => wexec [FePost, Ctl.afterLoop, wlr_append, hl, hw2, hc2, wlr_nil]
      | cons a oip =>
        wexec [FePost, Ctl.afterLoop, wlr_append, hl, hw2, hc2, wlr_cons, wlr_nil, absEvW, wstep]
    · simp_all [seqPost, FePost, Ctl.afterLoop]

end UrcuVerif.Src.WqR
