import UrcuVerif.Src.LfhtWalk
import UrcuVerif.Src.Lfht3Local
/-!
# Generated source IR of `_cds_lfht_add` (mode `add`: `unique_ret = NULL`, `bucket_flag = 0`) ⊑ thread-local projection
of L2 (`Lfht3Local.lean`)
-/
namespace UrcuVerif.Src.LfhtAR
open UrcuVerif UrcuVerif.Src UrcuVerif.Lfht.Conc UrcuVerif.Src.LfhtA UrcuVerif.Src.LfhtR

/-- abstraction of the events of the insertion to local labels (one label per event; anything else is `bad`) -/
def absEv : Event → LLabel
  | .ld (.field (.obj p) f) v mo =>
    if f = "next" then (match decW v with | some w => .ldNext p w mo | none => .bad)
    else if f = "size" then (match v with | .int n => if 0 ≤ n then .ldSize n.toNat mo else .bad | _ => .bad)
    else .bad
  | .cas (.field (.obj p) f) e n old mos _ =>
    if f = "next" ∧ 5 ≤ mos then
      (match decW e, decW n, decW old with
       | some e, some n, some o => .casNext p e n o
       | _, _, _ => .bad)
    else .bad
  | .ext name args r =>
    if name = "bit_reverse_ulong" then
      (match args, r with
       | [.int a], .int h => if 0 ≤ a ∧ 0 ≤ h then .hashOf a.toNat h.toNat else .bad
       | _, _ => .bad)
    else if name = "(*bucket_at)" then
      (match args, r with
       | [_, _, .int idx], .ptr (.obj b) => if 0 ≤ idx then .bktAt idx.toNat b else .bad
       | _, _ => .bad)
    else if name = "check_resize" then .chkResize
    else if name = "ht_count_add" then .count
    else .bad
  | _ => .bad

/-- the access the thread performs next at `ls`, as the label it is when the oracle delivers `v` – `none` when `v` is
ill-typed **or fails an assertion of the source** (`urcu_posix_assert`) **or the API contract**:
`aHead`: `!is_removed(iter)`, `!is_removal_owner(iter)` (asserted at `insert:` / `gc_node:`); `aNext`: a non-removed
word has no REMOVAL_OWNER bit (same assertions, on the next `iter`); at both: `clear_flag(iter) != node` (asserted at
`insert:`; the node being added is still private: no `next` word points to it); `aSize`: `bit_reverse_ulong` is a
function: its result is L2's `rev node`. -/
def obsLabel (rev : Nat → Nat) (ls : LState) (v : Val) : Option LLabel :=
  let x := ls.x
  match ls.pend with
  | .size => (match v with
    | .int n => if 1 ≤ n then some (.ldSize n.toNat 2) else none
    | _ => none)
  | .bkt => (match v with
    | .ptr (.obj b) => if b ≠ 0 then some (.bktAt (x.hs &&& (x.sz - 1)) b) else none
    | _ => none)
  | .chk => some .chkResize
  | .none =>
    match x.pc with
    | .aSize => (match v with
      | .int h => if h = rev x.node then some (.hashOf x.hs (rev x.node)) else none
      | _ => none)
    | .aHead => (decW v).bind fun w =>
      if w.rem = false ∧ w.own = false ∧ w.ptr ≠ x.node then some (.ldNext x.bkt w 1) else none
    | .aNext => (decW v).bind fun w =>
      if (w.own = true → w.rem = true) ∧ (w.rem = false → w.ptr ≠ x.node) then some (.ldNext x.iter.ptr w 1) else none
    | .aCas => (decW v).map fun w => .casNext x.prev x.iter { ptr := x.node, bkt := x.iter.bkt } w
    | .aGc => (decW v).map fun w => .casNext x.prev x.iter { ptr := x.nx.ptr, bkt := x.iter.bkt } w
    | _ => none

/-- the thread is inside `cds_lfht_add` / `_cds_lfht_add` -/
def active (ls : LState) : Prop :=
  ls.pend ≠ .none ∨ ls.x.pc = .aSize ∨ ls.x.pc = .aHead ∨ ls.x.pc = .aNext ∨ ls.x.pc = .aCas ∨ ls.x.pc = .aGc

def OracleOk (rev : Nat → Nat) : LState → List Val → Prop
  | _, [] => True
  | ls, v :: rest => active ls → ∃ l, obsLabel rev ls v = some l ∧ ∀ ls', lstep rev ls l = some ls' → OracleOk rev ls' rest

def lr (rev : Nat → Nat) (ls : LState) (evs : List Event) : Option LState := lrun rev ls (evs.map absEv)
theorem lr_nil (rev ls) : lr rev ls [] = some ls := rfl
theorem lr_append (rev ls a b) : lr rev ls (a ++ b) = (lr rev ls a).bind (fun m => lr rev m b) := by
  simp [lr, lrun_append]

/-- body of the outer / inner `for (;;)` of the generated `_cds_lfht_add` -/
def addOuter : Stmt := match firstLoop Gen.Src.«lfht._cds_lfht_add» with | some b => b | none => .skip
def addInner : Stmt := match firstLoop addOuter with | some b => b | none => .skip
/-- the part of the outer loop body after the inner loop: `insert:` … `gc_node:` … -/
def addPost : Stmt := seqTail 5 addOuter

/-- the pc of L2 at the head of the inner loop (mode ≠ `bkt`): L2 has already decided the two loop tests -/
def apc (rev : Nat → Nat) (n i : Nat) : Pc :=
  if i = 0 ∨ rev n < rev i then .aCas else .aNext

theorem laddPos_plain (rev : Nat → Nat) (x : Thr) (h : x.mode = .plain) :
    laddPos rev x = { x with pc := apc rev x.node x.iter.ptr } := by
  unfold laddPos apc
  by_cases h1 : x.iter.ptr = 0
  · simp [h1]
  · by_cases h2 : rev x.node < rev x.iter.ptr <;> simp [h1, h2, h]

@[simp] theorem tagor_obj2 (p : Nat) (hp : p ≠ 0) :
    evalBin .tagor (.ptr (.obj p)) (.int 2) = .ok (encW { ptr := p, bkt := true }) := by
  rw [← encP_pos hp, tagor_bkt_P]

theorem obj_eq_encP (n p : Nat) (hn : n ≠ 0) : (Val.ptr (.obj n) = encP p) = (n = p) := by
  unfold encP; by_cases hp : p = 0
  · subst hp; simp [hn]
  · simp [hp]

theorem decW_obj (n : Nat) (hn : n ≠ 0) : decW (.ptr (.obj n)) = some { ptr := n } := by simp [decW, hn]

/-- environment ~ thread record inside the loops of `_cds_lfht_add`; `gi`, `gg` = the values of the flag variables
`_goto_insert`, `_goto_gc_node` (the translator's rendering of the forward `goto`s) -/
structure AddRel (priv0 : Loc → Option Val) (B N : Nat) (htv szv : Val) (gi gg : Int) (env : Env) (x : Thr) : Prop where
  bucket : env.vars "bucket" = some (.ptr (.obj B))
  node : env.vars "node" = some (.ptr (.obj N))
  prev : env.vars "iter_prev" = some (.ptr (.obj x.prev))
  iter : env.vars "iter" = some (encW x.iter)
  bf : env.vars "bucket_flag" = some (.int 0)
  ur : env.vars "unique_ret" = some (.int 0)
  gi : env.vars "_goto_insert" = some (.int gi)
  gg : env.vars "_goto_gc_node" = some (.int gg)
  ge : env.vars "_goto_end" = some (.int 0)
  ht : env.vars "ht" = some htv
  size : env.vars "size" = some szv
  cl : ∃ k : Int, env.vars "chain_len" = some (.int k)
  priv : env.priv = priv0
  xbkt : x.bkt = B
  xnode : x.node = N
  mode : x.mode = .plain
  prev0 : x.prev ≠ 0
  clean : x.iter.rem = false ∧ x.iter.own = false ∧ x.iter.ptr ≠ N

theorem addRel_iff (priv0 B N htv szv gi gg env x) : AddRel priv0 B N htv szv gi gg env x ↔
    (env.vars "bucket" = some (.ptr (.obj B)) ∧ env.vars "node" = some (.ptr (.obj N)) ∧
     env.vars "iter_prev" = some (.ptr (.obj x.prev)) ∧ env.vars "iter" = some (encW x.iter) ∧
     env.vars "bucket_flag" = some (.int 0) ∧ env.vars "unique_ret" = some (.int 0) ∧
     env.vars "_goto_insert" = some (.int gi) ∧ env.vars "_goto_gc_node" = some (.int gg) ∧
     env.vars "_goto_end" = some (.int 0) ∧ env.vars "ht" = some htv ∧ env.vars "size" = some szv ∧
     (∃ k : Int, env.vars "chain_len" = some (.int k)) ∧ env.priv = priv0 ∧
     x.bkt = B ∧ x.node = N ∧ x.mode = .plain ∧ x.prev ≠ 0 ∧ x.iter.rem = false ∧ x.iter.own = false ∧ x.iter.ptr ≠ N) :=
  ⟨fun h => ⟨h.1, h.2, h.3, h.4, h.5, h.6, h.7, h.8, h.9, h.10, h.11, h.12, h.13, h.14, h.15, h.16, h.17,
    h.18.1, h.18.2.1, h.18.2.2⟩,
   fun ⟨a, b, c, d, e, f, g, h, i, j, k, l, m, n, o, p, q, r, s, t⟩ =>
    ⟨a, b, c, d, e, f, g, h, i, j, k, l, m, n, o, p, q, ⟨r, s, t⟩⟩⟩

/-- invariant at the head of the inner loop -/
def AddI (rev : Nat → Nat) (priv0 : Loc → Option Val) (B N : Nat) (htv szv : Val)
    (env : Env) (inp : List Val) (ls : LState) : Prop :=
  AddRel priv0 B N htv szv 0 0 env ls.x ∧ ls.pend = .none ∧ ls.x.pc = apc rev ls.x.node ls.x.iter.ptr ∧ OracleOk rev ls inp

/-- how the inner loop ends: `break` with `_goto_insert` (L2 is at `aCas`), `break` with `_goto_gc_node` (the successor
of `iter` is logically removed: L2 is at `aGc`, `next` = the word loaded), or preempted -/
def AddR (rev : Nat → Nat) (priv0 : Loc → Option Val) (B N : Nat) (htv szv : Val)
    (c : Ctl) (env : Env) (inp : List Val) (ls : LState) : Prop :=
  match c with
  | .brk => (AddRel priv0 B N htv szv 1 0 env ls.x ∧ ls.pend = .none ∧ ls.x.pc = .aCas ∧ OracleOk rev ls inp) ∨
      (AddRel priv0 B N htv szv 0 1 env ls.x ∧ env.vars "next" = some (encW ls.x.nx) ∧ ls.pend = .none ∧
        ls.x.pc = .aGc ∧ OracleOk rev ls inp)
  | .blocked => True
  | _ => False

theorem add_inner_body (fuel : Nat) (rev : Nat → Nat) (priv0 : Loc → Option Val) (B N : Nat) (htv szv : Val)
    (hrev : RevView rev priv0) (hN : N ≠ 0)
    (env : Env) (inp : List Val) (ls : LState) (hI : AddI rev priv0 B N htv szv env inp ls) :
    ∃ o, exec fuel addInner env inp = .ok o ∧ ∃ ls', lr rev ls o.events = some ls' ∧
      (if o.ctl.goesOn then AddI rev priv0 B N htv szv o.env o.inp ls'
       else AddR rev priv0 B N htv szv o.ctl o.env o.inp ls') := by
  rcases ls with ⟨x, pend, out⟩
  obtain ⟨hrel, hpend, hpc, hO⟩ := hI
  dsimp only at hpend hpc hrel; subst hpend
  have hb := hrel.bucket; have hn := hrel.node; have hp := hrel.prev; have hi := hrel.iter; have hpr := hrel.priv
  have hbf := hrel.bf; have hur := hrel.ur; have hgi := hrel.gi; have hgg := hrel.gg; have hge := hrel.ge
  have hht := hrel.ht; have hsz := hrel.size
  obtain ⟨k, hk⟩ := hrel.cl
  have hxb := hrel.xbkt; have hxn := hrel.xnode; have hmode := hrel.mode; have hp0 := hrel.prev0
  obtain ⟨hcr, hco, hcn⟩ := hrel.clean
  by_cases h0 : x.iter.ptr = 0
  · lexec [addInner, addOuter, firstLoop, Gen.Src.«lfht._cds_lfht_add», call_is_end, call_clear_flag,
      call_is_removed, call_is_bucket, pureCall, bind1]
    refine ⟨_, lr_nil _ _, ?_⟩
    have h0N : ¬ 0 = N := fun h => hN h.symm
    simp [Ctl.goesOn, AddR, addRel_iff, apc, *]
  · have hri := hrev _ h0
    have hrn := hrev _ hN
    have hrp := hrev _ hp0
    by_cases hgt : rev N < rev x.iter.ptr
    · lexec [addInner, addOuter, firstLoop, Gen.Src.«lfht._cds_lfht_add», call_is_end, call_clear_flag,
        call_is_removed, call_is_bucket, pureCall, bind1, encP_pos h0]
      refine ⟨_, lr_nil _ _, ?_⟩
      simp [Ctl.goesOn, AddR, addRel_iff, apc, *]
    · have hpcN : x.pc = .aNext := by simp [hpc, apc, h0, hxn, hgt]
      clear hpc
      cases inp with
      | nil =>
        lexec [addInner, addOuter, firstLoop, Gen.Src.«lfht._cds_lfht_add», call_is_end, call_clear_flag,
          call_is_removed, call_is_bucket, pureCall, bind1, encP_pos h0]
        exact ⟨_, lr_nil _ _, by simp [Ctl.goesOn, AddR]⟩
      | cons v rest =>
        obtain ⟨l, hl, hrest⟩ := hO (by simp [active, hpcN])
        simp only [obsLabel, hpcN] at hl
        cases hd : decW v with
        | none => simp [hd] at hl
        | some w =>
          have hv := encW_of_decW hd; subst hv
          simp only [decW_encW, Option.bind] at hl
          split at hl <;> cases hl
          rename_i hw
          obtain ⟨hown, hwn⟩ := hw
          by_cases hr : w.rem
          · lexec [addInner, addOuter, firstLoop, Gen.Src.«lfht._cds_lfht_add», call_is_end, call_clear_flag,
              call_is_removed, call_is_bucket, pureCall, bind1, encP_pos h0]
            simp [lr, absEv, lrun, lstep, mk, Ctl.goesOn, AddR, addRel_iff, *]
          · have hwo : w.own = false := by
              cases ho : w.own
              · rfl
              · exact absurd (hown ho) hr
            have hwn' : w.ptr ≠ N := by rw [← hxn]; exact hwn (by simpa using hr)
            obtain ⟨ls1, hls1⟩ : ∃ ls1 : LState, ls1 =
                { x := { x with nx := w, prev := x.iter.ptr, iter := w,
                                pc := apc rev x.node w.ptr },
                  pend := if needsChk rev x w then .chk else .none, out := .unit } := ⟨_, rfl⟩
            have hs1 : lstep rev { x := x, pend := .none, out := out } (.ldNext x.iter.ptr w 1) = some ls1 := by
              rw [hls1]; simp [lstep, hpcN, hr, hmode, laddPos_plain]
            have hO1 := hrest _ hs1
            by_cases hk1 : needsChk rev x w = true
            · have hk1' := hk1
              simp only [needsChk, Bool.and_eq_true, decide_eq_true_eq, Bool.not_eq_true'] at hk1'
              obtain ⟨hne, hwb⟩ := hk1'
              rw [hk1] at hls1
              cases rest with
              | nil =>
                lexec [addInner, addOuter, firstLoop, Gen.Src.«lfht._cds_lfht_add», call_is_end, call_clear_flag,
                  call_is_removed, call_is_bucket, pureCall, bind1, encP_pos h0, Int.natCast_inj]
                simp [lr, absEv, lrun, hs1, Ctl.goesOn, AddR]
              | cons v2 rest =>
                obtain ⟨l2, hl2, hrest2⟩ := hO1 (by subst hls1; simp [active])
                have hl2' : l2 = .chkResize := by subst hls1; simpa [obsLabel] using hl2.symm
                subst hl2'
                have hs2 : lstep rev ls1 .chkResize = some (mk ls1.x) := by subst hls1; simp [lstep, mk]
                have hO2 := hrest2 _ hs2
                lexec [addInner, addOuter, firstLoop, Gen.Src.«lfht._cds_lfht_add», call_is_end, call_clear_flag,
                  call_is_removed, call_is_bucket, pureCall, bind1, encP_pos h0, Int.natCast_inj]
                refine ⟨mk ls1.x, by simp [lr, absEv, lrun, hs1, hs2], ?_⟩
                subst hls1
                simp only [Ctl.goesOn, if_true]
                exact ⟨by simp [addRel_iff, mk, *], rfl, rfl, hO2⟩
            · have hk0 : needsChk rev x w = false := by simpa using hk1
              rw [hk0] at hls1
              have hk0' := hk0
              simp only [needsChk, Bool.and_eq_false_iff, decide_eq_false_iff_not, Decidable.not_not,
                Bool.not_eq_false'] at hk0'
              rcases hk0' with heq | hwb
              · by_cases hwb : w.bkt = true <;>
                lexec [addInner, addOuter, firstLoop, Gen.Src.«lfht._cds_lfht_add», call_is_end, call_clear_flag,
                  call_is_removed, call_is_bucket, pureCall, bind1, encP_pos h0, Int.natCast_inj] <;>
                (refine ⟨ls1, by simp [lr, absEv, lrun, hs1], ?_⟩; subst hls1;
                 simp only [Ctl.goesOn, if_true];
                 exact ⟨by simp [addRel_iff, *], rfl, rfl, hO1⟩)
              · by_cases heq : rev x.prev = rev x.iter.ptr <;>
                lexec [addInner, addOuter, firstLoop, Gen.Src.«lfht._cds_lfht_add», call_is_end, call_clear_flag,
                  call_is_removed, call_is_bucket, pureCall, bind1, encP_pos h0, Int.natCast_inj] <;>
                (refine ⟨ls1, by simp [lr, absEv, lrun, hs1], ?_⟩; subst hls1;
                 simp only [Ctl.goesOn, if_true];
                 exact ⟨by simp [addRel_iff, *], rfl, rfl, hO1⟩)

theorem add_inner_loop (fuel : Nat) (rev : Nat → Nat) (priv0 : Loc → Option Val) (B N : Nat) (htv szv : Val)
    (hrev : RevView rev priv0) (hN : N ≠ 0)
    (env : Env) (inp : List Val) (ls : LState) (r : Except String Out)
    (hE : iterate (exec fuel addInner) fuel env inp [] = r) (hI : AddI rev priv0 B N htv szv env inp ls) :
    ∃ out, r = .ok out ∧ ∃ ls', lr rev ls out.events = some ls' ∧
      (out.ctl = .fuel ∨ ∃ c, c.goesOn = false ∧ AddR rev priv0 B N htv szv c out.env out.inp ls' ∧
        out.ctl = c.afterLoop) := by
  obtain ⟨out, hout, evs, ls', hev, hl, hfin⟩ :=
    iterate_inv (lr rev) (lr_nil rev) (lr_append rev) (exec fuel addInner) (AddI rev priv0 B N htv szv)
      (AddR rev priv0 B N htv szv) (add_inner_body fuel rev priv0 B N htv szv hrev hN) fuel env inp ls [] hI
  refine ⟨out, by rw [← hE, hout], ls', ?_, hfin⟩
  rw [hev]; simpa using hl

theorem revView_setNext (rev : Nat → Nat) (p : Loc → Option Val) (N : Nat) (v : Val) (h : RevView rev p) :
    RevView rev (fun m => if m = Loc.field (.obj N) "next" then some v else p m) := by
  intro n hn
  have : ¬ (Loc.field (.obj n) "reverse_hash" = Loc.field (.obj N) "next") := by
    intro he; injection he with _ h2; exact absurd h2 (by decide)
  simp only [this, if_false]; exact h n hn

/-- invariant at the head of the outer loop (L2 at `aHead`: first pass and every retry) -/
def AddO (rev : Nat → Nat) (B N : Nat) (htv szv : Val) (env : Env) (inp : List Val) (ls : LState) : Prop :=
  env.vars "bucket" = some (.ptr (.obj B)) ∧ env.vars "node" = some (.ptr (.obj N)) ∧
    env.vars "bucket_flag" = some (.int 0) ∧ env.vars "unique_ret" = some (.int 0) ∧
    env.vars "_goto_insert" = some (.int 0) ∧ env.vars "_goto_gc_node" = some (.int 0) ∧
    env.vars "_goto_end" = some (.int 0) ∧ env.vars "ht" = some htv ∧ env.vars "size" = some szv ∧
    RevView rev env.priv ∧ ls.pend = .none ∧ ls.x.pc = .aHead ∧ ls.x.bkt = B ∧ ls.x.node = N ∧ ls.x.mode = .plain ∧
    OracleOk rev ls inp

/-- the insertion cmpxchg succeeded: L2's thread has returned (`addDone`, mode `plain`), and the private store
`node->next = clear_flag(iter)` that precedes the cmpxchg wrote the word L2's `casIns` gives the node -/
def AddFin (rev : Nat → Nat) (N : Nat) (env : Env) (ls : LState) : Prop :=
  env.vars "unique_ret" = some (.int 0) ∧ RevView rev env.priv ∧ ls.pend = .none ∧ ls.x.pc = .idle ∧ ls.x.op = .none ∧
    ls.out = .unit ∧ ls.x.node = N ∧ env.priv (.field (.obj N) "next") = some (encP ls.x.iter.ptr)

/-- `insert:` – the assertions, the private store `node->next`, the insertion cmpxchg and its test -/
theorem add_post_ins (fuel : Nat) (rev : Nat → Nat) (priv0 : Loc → Option Val) (B N : Nat) (htv szv : Val)
    (hrev : RevView rev priv0) (hN : N ≠ 0)
    (env : Env) (inp : List Val) (ls : LState) (r : Except String Out)
    (hE : exec fuel addPost env inp = r)
    (hrel : AddRel priv0 B N htv szv 1 0 env ls.x) (hpend : ls.pend = .none)
    (hpc : ls.x.pc = .aCas) (hO : OracleOk rev ls inp) :
    ∃ o, r = .ok o ∧ ∃ ls', lr rev ls o.events = some ls' ∧
      (o.ctl = .blocked ∨ (o.ctl = .cont ∧ AddO rev B N htv szv o.env o.inp ls') ∨
        (o.ctl = .brk ∧ AddFin rev N o.env ls')) := by
  rcases ls with ⟨x, pend, out⟩
  dsimp only at hrel hpend hpc; subst hpend; subst hE
  have hb := hrel.bucket; have hn := hrel.node; have hp := hrel.prev; have hi := hrel.iter; have hpr := hrel.priv
  have hbf := hrel.bf; have hur := hrel.ur; have hgi := hrel.gi; have hgg := hrel.gg; have hge := hrel.ge
  have hht := hrel.ht; have hsz := hrel.size
  have hxb := hrel.xbkt; have hxn := hrel.xnode; have hmode := hrel.mode; have hp0 := hrel.prev0
  obtain ⟨hcr, hco, hcn⟩ := hrel.clean
  have hcn' : ¬ N = x.iter.ptr := fun h => hcn h.symm
  have hdn : decW (.ptr (.obj x.node)) = some { ptr := x.node } := by rw [hxn]; exact decW_obj N hN
  have hrv1 : ∀ v, RevView rev (fun m => if m = Loc.field (.obj N) "next" then some v else priv0 m) :=
    fun v => revView_setNext rev priv0 N v hrev
  cases inp with
  | nil =>
    by_cases hbk : x.iter.bkt <;>
    lexec [addPost, seqTail, addOuter, firstLoop, Gen.Src.«lfht._cds_lfht_add», call_is_removed,
      call_is_removal_owner, call_is_bucket, call_clear_flag, call_flag_bucket, pureCall, bind1, obj_eq_encP] <;>
    exact ⟨_, lr_nil _ _⟩
  | cons v rest =>
    obtain ⟨l, hl, hrest⟩ := hO (by simp [active, hpc])
    simp only [obsLabel, hpc] at hl
    cases hd : decW v with
    | none => simp [hd] at hl
    | some w =>
      have hv := encW_of_decW hd; subst hv
      simp only [decW_encW, Option.map] at hl
      cases hl
      by_cases hs : w = x.iter
      · subst hs
        have hst : lstep rev { x := x, pend := .none, out := out }
            (.casNext x.prev x.iter { ptr := x.node, bkt := x.iter.bkt } x.iter) =
            some (mk { x with pc := .idle, op := .none } .unit) := by
          simp [lstep, hpc, laddDone, hmode]
        cases hbk : x.iter.bkt <;> rw [hbk] at hst <;>
        lexec [addPost, seqTail, addOuter, firstLoop, Gen.Src.«lfht._cds_lfht_add», call_is_removed,
          call_is_removal_owner, call_is_bucket, call_clear_flag, call_flag_bucket, pureCall, bind1, obj_eq_encP] <;>
        (refine ⟨mk { x with pc := .idle, op := .none } .unit, ?_, ?_⟩
         · simp [lr, absEv, lrun, ← hxn, hdn, hst]
         · simp [AddFin, mk, *])
      · have hst : lstep rev { x := x, pend := .none, out := out }
            (.casNext x.prev x.iter { ptr := x.node, bkt := x.iter.bkt } w) =
            some (mk { x with pc := .aHead }) := by
          simp [lstep, hpc, hs]
        have hO1 := hrest _ hst
        cases hbk : x.iter.bkt <;> rw [hbk] at hst <;>
        lexec [addPost, seqTail, addOuter, firstLoop, Gen.Src.«lfht._cds_lfht_add», call_is_removed,
          call_is_removal_owner, call_is_bucket, call_clear_flag, call_flag_bucket, pureCall, bind1, obj_eq_encP] <;>
        (refine ⟨mk { x with pc := .aHead }, ?_, ?_⟩
         · simp [lr, absEv, lrun, ← hxn, hdn, hst]
         · exact ⟨by simp [*], by simp [*], by simp [*], by simp [*], by simp [*], by simp [*], by simp [*],
             by simp [*], by simp [*], by simp [*], rfl, rfl, hxb, hxn, hmode, hO1⟩)

/-- `gc_node:` – the assertions, `new_next`, the helping cmpxchg (its result is not looked at), then `goto retry` -/
theorem add_post_gc (fuel : Nat) (rev : Nat → Nat) (priv0 : Loc → Option Val) (B N : Nat) (htv szv : Val)
    (hrev : RevView rev priv0)
    (env : Env) (inp : List Val) (ls : LState) (r : Except String Out)
    (hE : exec fuel addPost env inp = r)
    (hrel : AddRel priv0 B N htv szv 0 1 env ls.x) (hnx : env.vars "next" = some (encW ls.x.nx))
    (hpend : ls.pend = .none) (hpc : ls.x.pc = .aGc) (hO : OracleOk rev ls inp) :
    ∃ o, r = .ok o ∧ ∃ ls', lr rev ls o.events = some ls' ∧
      (o.ctl = .blocked ∨ (o.ctl = .normal ∧ AddO rev B N htv szv o.env o.inp ls')) := by
  rcases ls with ⟨x, pend, out⟩
  dsimp only at hrel hpend hpc hnx; subst hpend; subst hE
  have hb := hrel.bucket; have hn := hrel.node; have hp := hrel.prev; have hi := hrel.iter; have hpr := hrel.priv
  have hbf := hrel.bf; have hur := hrel.ur; have hgi := hrel.gi; have hgg := hrel.gg; have hge := hrel.ge
  have hht := hrel.ht; have hsz := hrel.size
  have hxb := hrel.xbkt; have hxn := hrel.xnode; have hmode := hrel.mode; have hp0 := hrel.prev0
  obtain ⟨hcr, hco, hcn⟩ := hrel.clean
  cases inp with
  | nil =>
    by_cases hbk : x.iter.bkt <;>
    lexec [addPost, seqTail, addOuter, firstLoop, Gen.Src.«lfht._cds_lfht_add», call_is_removed,
      call_is_removal_owner, call_is_bucket, call_clear_flag, call_flag_bucket, pureCall, bind1] <;>
    exact ⟨_, lr_nil _ _⟩
  | cons v rest =>
    obtain ⟨l, hl, hrest⟩ := hO (by simp [active, hpc])
    simp only [obsLabel, hpc] at hl
    cases hd : decW v with
    | none => simp [hd] at hl
    | some w =>
      have hv := encW_of_decW hd; subst hv
      simp only [decW_encW, Option.map] at hl
      cases hl
      have hst : lstep rev { x := x, pend := .none, out := out }
          (.casNext x.prev x.iter { ptr := x.nx.ptr, bkt := x.iter.bkt } w) = some (mk { x with pc := .aHead }) := by
        simp [lstep, hpc]
      have hO1 := hrest _ hst
      cases hbk : x.iter.bkt <;> rw [hbk] at hst <;>
      lexec [addPost, seqTail, addOuter, firstLoop, Gen.Src.«lfht._cds_lfht_add», call_is_removed,
        call_is_removal_owner, call_is_bucket, call_clear_flag, call_flag_bucket, pureCall, bind1] <;>
      (refine ⟨mk { x with pc := .aHead }, ?_, ?_⟩
       · simp [lr, absEv, lrun, hst]
       · exact ⟨by simp [*], by simp [*], by simp [*], by simp [*], by simp [*], by simp [*], by simp [*],
           by simp [*], by simp [*], by simp [*], rfl, rfl, hxb, hxn, hmode, hO1⟩)

/-- how `_cds_lfht_add`'s outer loop ends: `break` after the successful insertion, preempted, or out of budget -/
def AddRO (rev : Nat → Nat) (N : Nat) (c : Ctl) (env : Env) (_inp : List Val) (ls : LState) : Prop :=
  match c with
  | .brk => AddFin rev N env ls
  | .blocked => True
  | .fuel => True
  | _ => False

theorem add_outer_body (fuel : Nat) (rev : Nat → Nat) (B N : Nat) (htv szv : Val) (hB : B ≠ 0) (hN : N ≠ 0)
    (env : Env) (inp : List Val) (ls : LState) (hI : AddO rev B N htv szv env inp ls) :
    ∃ o, exec fuel addOuter env inp = .ok o ∧ ∃ ls', lr rev ls o.events = some ls' ∧
      (if o.ctl.goesOn then AddO rev B N htv szv o.env o.inp ls' else AddRO rev N o.ctl o.env o.inp ls') := by
  rcases ls with ⟨x, pend, out⟩
  obtain ⟨hb, hn, hbf, hur, hgi, hgg, hge, hht, hsz, hrev, hpend, hpc, hxb, hxn, hmode, hO⟩ := hI
  dsimp only at hpend hpc hxb hxn hmode; subst hpend
  have hshape : addOuter = .seq _ (.seq _ (.seq _ (.seq _ (.seq (.loop addInner) addPost)))) := rfl
  cases inp with
  | nil =>
    lexec [addOuter, firstLoop, Gen.Src.«lfht._cds_lfht_add»]
    exact ⟨_, lr_nil _ _, by simp [Ctl.goesOn, AddRO]⟩
  | cons v rest =>
    obtain ⟨l, hl, hrest⟩ := hO (by simp [active, hpc])
    simp only [obsLabel, hpc] at hl
    cases hd : decW v with
    | none => simp [hd] at hl
    | some w =>
      have hv := encW_of_decW hd; subst hv
      simp only [decW_encW, Option.bind] at hl
      split at hl <;> cases hl
      rename_i hcl
      obtain ⟨hwr, hwo, hwn⟩ := hcl
      obtain ⟨ls0, hls0⟩ : ∃ ls0, ls0 =
          mk { x with prev := x.bkt, iter := w, pc := apc rev x.node w.ptr } := ⟨_, rfl⟩
      have hstep : lstep rev { x := x, pend := .none, out := out } (.ldNext x.bkt w 1) = some ls0 := by
        rw [hls0]; simp [lstep, hpc, laddPos_plain, hmode]
      have hO1 := hrest _ hstep
      have hlr0 : ∀ evs, lr rev { x := x, pend := .none, out := out }
          (Event.ld ((Loc.obj B).field "next") (encW w) 1 :: evs) = lr rev ls0 evs := by
        intro evs; simp only [lr, List.map_cons, lrun, absEv, decW_encW, if_true, ← hxb, hstep]
      rw [hshape]
      lexec
      generalize hE : iterate (exec fuel addInner) fuel _ rest [] = r
      obtain ⟨o1, rfl, ls1, hl1, hfin⟩ := add_inner_loop fuel rev env.priv B N htv szv hrev hN _ _ _ _ hE
        (show AddI rev env.priv B N htv szv _ rest ls0 from by
          subst hls0; exact ⟨by simp [addRel_iff, mk, *]; exact hxn ▸ hwn, rfl, rfl, hO1⟩)
      rcases o1 with ⟨ev1, env1, inp1, ctl1⟩
      rcases hfin with hf | ⟨c, hc, hR, hctl⟩
      · dsimp only at hf; subst hf
        simp [hlr0, hl1, Ctl.goesOn, AddRO]
      · dsimp only at hctl hR hl1
        cases c <;> simp [Ctl.goesOn] at hc <;> simp only [AddR] at hR <;> simp only [Ctl.afterLoop] at hctl <;> subst hctl
        · -- the inner loop broke out: `insert:` or `gc_node:`
          dsimp only
          generalize hE2 : exec fuel addPost env1 inp1 = r2
          rcases hR with ⟨hrel1, hpend1, hpc1, hO1'⟩ | ⟨hrel1, hnx1, hpend1, hpc1, hO1'⟩
          · obtain ⟨o2, rfl, ls2, hl2, hfin2⟩ := add_post_ins fuel rev env.priv B N htv szv hrev hN env1 inp1 ls1 r2 hE2
              hrel1 hpend1 hpc1 hO1'
            rcases o2 with ⟨ev2, env2, inp2, ctl2⟩
            rcases hfin2 with hb2 | ⟨hn2, hI2⟩ | ⟨hn2, hI2⟩
            · dsimp only at hb2; subst hb2
              simp [hlr0, lr_append, hl1, hl2, Ctl.goesOn, AddRO]
            · dsimp only at hn2 hI2; subst hn2
              simp [hlr0, lr_append, hl1, hl2, Ctl.goesOn, hI2]
            · dsimp only at hn2 hI2; subst hn2
              simp [hlr0, lr_append, hl1, hl2, Ctl.goesOn, AddRO, hI2]
          · obtain ⟨o2, rfl, ls2, hl2, hfin2⟩ := add_post_gc fuel rev env.priv B N htv szv hrev env1 inp1 ls1 r2 hE2
              hrel1 hnx1 hpend1 hpc1 hO1'
            rcases o2 with ⟨ev2, env2, inp2, ctl2⟩
            rcases hfin2 with hb2 | ⟨hn2, hI2⟩
            · dsimp only at hb2; subst hb2
              simp [hlr0, lr_append, hl1, hl2, Ctl.goesOn, AddRO]
            · dsimp only at hn2 hI2; subst hn2
              simp [hlr0, lr_append, hl1, hl2, Ctl.goesOn, hI2]
        · simp [hlr0, hl1, Ctl.goesOn, AddRO]

theorem add_outer_loop (fuel : Nat) (rev : Nat → Nat) (B N : Nat) (htv szv : Val) (hB : B ≠ 0) (hN : N ≠ 0)
    (env : Env) (inp : List Val) (ls : LState) (r : Except String Out)
    (hE : iterate (exec fuel addOuter) fuel env inp [] = r) (hI : AddO rev B N htv szv env inp ls) :
    ∃ out, r = .ok out ∧ ∃ ls', lr rev ls out.events = some ls' ∧
      (out.ctl = .fuel ∨ ∃ c, c.goesOn = false ∧ AddRO rev N c out.env out.inp ls' ∧ out.ctl = c.afterLoop) := by
  obtain ⟨out, hout, evs, ls', hev, hl, hfin⟩ :=
    iterate_inv (lr rev) (lr_nil rev) (lr_append rev) (exec fuel addOuter) (AddO rev B N htv szv)
      (AddRO rev N) (add_outer_body fuel rev B N htv szv hB hN) fuel env inp ls [] hI
  refine ⟨out, by rw [← hE, hout], ls', ?_, hfin⟩
  rw [hev]; simpa using hl

/-- the part of `_cds_lfht_add` after the outer loop (`end:`) -/
def addTail : Stmt := seqTail 12 Gen.Src.«lfht._cds_lfht_add»

/-- how `_cds_lfht_add` (mode `add`) ends: preempted, out of budget, or returned – then L2's thread is back at `idle`
(`Out.unit`), and the node's private `next` word (stored before the successful cmpxchg, published by it) is the word
L2's `casIns` gives the node: `(iter.ptr, no flag)` -/
def AddDone (rev : Nat → Nat) (out : Out) (ls' : LState) : Prop :=
  out.ctl = .blocked ∨ out.ctl = .fuel ∨
    (out.ctl = .normal ∧ ls'.out = .unit ∧ ls'.x.pc = .idle ∧ ls'.x.op = .none ∧ ls'.pend = .none ∧
      out.env.priv (.field (.obj ls'.x.node) "next") = some (encW { ptr := ls'.x.iter.ptr }) ∧
      RevView rev out.env.priv)

/-- **`_cds_lfht_add(ht, hash, match, key, size, node, NULL, 0)`** (what `cds_lfht_add` calls) from L2's state after the
load of `ht->size` (pc `aHead`, the call of `bucket_at` pending) -/
theorem add_exec (fuel : Nat) (rev : Nat → Nat) (env : Env) (inp : List Val) (x : Thr) (o0 : Lfht.Conc.Out)
    (ht : Nat) (fp : Val)
    (hht : env.vars "ht" = some (.ptr (.obj ht))) (hhash : env.vars "hash" = some (.int x.hs))
    (hsz : env.vars "size" = some (.int x.sz)) (hnode : env.vars "node" = some (.ptr (.obj x.node)))
    (hur : env.vars "unique_ret" = some (.int 0)) (hbf : env.vars "bucket_flag" = some (.int 0))
    (hn0 : x.node ≠ 0) (hsz1 : 1 ≤ x.sz)
    (hfp : env.priv (.field (.obj ht) "bucket_at") = some fp) (hrev : RevView rev env.priv)
    (hpc : x.pc = .aHead) (hmode : x.mode = .plain)
    (hO : OracleOk rev { x := x, pend := .bkt, out := o0 } inp) :
    ∃ out, exec fuel Gen.Src.«lfht._cds_lfht_add» env inp = .ok out ∧
      ∃ ls', lr rev { x := x, pend := .bkt, out := o0 } out.events = some ls' ∧ AddDone rev out ls' := by
  have hshape : Gen.Src.«lfht._cds_lfht_add» =
      .seq _ (.seq _ (.seq _ (.seq _ (.seq _ (.seq _ (.seq _ (.seq _ (.seq _ (.seq _ (.seq _
        (.seq (.loop addOuter) addTail))))))))))) := rfl
  rw [hshape]
  have hszi : (1 : Int) ≤ (x.sz : Int) := by omega
  have hcast : ((x.sz : Int) - 1).toNat = x.sz - 1 := by omega
  cases inp with
  | nil =>
    lexec [exec_call, Gen.Src.«lfht.is_bucket», Gen.Src.«lfht.is_removed», Gen.Src.«lfht.is_removal_owner»,
      Gen.Src.«lfht.lookup_bucket», Gen.Src.«lfht.bucket_at»]
    exact ⟨_, lr_nil _ _, .inl rfl⟩
  | cons v1 rest =>
    obtain ⟨l, hl, hrest⟩ := hO (by simp [active])
    simp only [obsLabel] at hl
    cases v1 with
    | int _ => simp at hl
    | ptr lo =>
      cases lo with
      | obj b =>
        simp only [Option.ite_none_right_eq_some, Option.some.injEq] at hl
        obtain ⟨hb0, rfl⟩ := hl
        obtain ⟨x1, hx1⟩ : ∃ x1 : Thr, x1 = { x with bkt := b } := ⟨_, rfl⟩
        have hs1 : lstep rev { x := x, pend := .bkt, out := o0 } (.bktAt (x.hs &&& (x.sz - 1)) b) = some (mk x1) := by
          rw [hx1]; simp [lstep, mk]
        have hO1 := hrest _ hs1
        have hlr1 : ∀ evs, lr rev { x := x, pend := .bkt, out := o0 }
            (Event.ext "(*bucket_at)" [fp, Val.ptr (Loc.obj ht), Val.int ((x.hs &&& (x.sz - 1) : Nat) : Int)]
              (Val.ptr (Loc.obj b)) :: evs) = lr rev (mk x1) evs := by
          intro evs; simp [lr, lrun, absEv, hs1]
        lexec [exec_call, Gen.Src.«lfht.is_bucket», Gen.Src.«lfht.is_removed», Gen.Src.«lfht.is_removal_owner»,
          Gen.Src.«lfht.lookup_bucket», Gen.Src.«lfht.bucket_at»]
        generalize hE : iterate (exec fuel addOuter) fuel _ rest [] = r
        obtain ⟨o1, rfl, ls1, hl1, hfin⟩ := add_outer_loop fuel rev b x.node (.ptr (.obj ht)) (.int x.sz) hb0 hn0 _ rest
          (mk x1) r hE
          ⟨by simp, by simp [hnode], by simp [hbf], by simp [hur], by simp, by simp, by simp, by simp [hht],
            by simp [hsz], hrev, rfl, by subst hx1; exact hpc, by subst hx1; rfl, by subst hx1; rfl,
            by subst hx1; exact hmode, hO1⟩
        rcases o1 with ⟨ev1, env1, inp1, ctl1⟩
        have hl1 : lr rev (mk x1) ev1 = some ls1 := hl1
        rcases hfin with hf | ⟨c, hc, hR, hctl⟩
        · dsimp only at hf; subst hf
          simp [hlr1, AddDone]; exact ⟨ls1, hl1⟩
        · dsimp only at hctl hR
          cases c <;> simp [Ctl.goesOn] at hc <;> simp only [AddRO] at hR <;> simp only [Ctl.afterLoop] at hctl <;>
            subst hctl
          · obtain ⟨hur1, hrv1, hpend1, hpc1, hop1, hout1, hnd1, hnx1⟩ := hR
            lexec [addTail, seqTail, Gen.Src.«lfht._cds_lfht_add»]
            refine ⟨ls1, by rw [hx1, hpc, hmode] at hl1; exact hl1, .inr (.inr ⟨rfl, hout1, hpc1, hop1, hpend1, ?_, hrv1⟩)⟩
            dsimp only
            rw [hnd1, hnx1, encP_eq_encW]
          · simp [hlr1, AddDone]; exact ⟨ls1, hl1⟩
          · simp [hlr1, AddDone]; exact ⟨ls1, hl1⟩
      | _ => simp at hl

/-- `add_exec` in the form used at a call site -/
theorem add_exec' (fuel : Nat) (rev : Nat → Nat) (env : Env) (inp : List Val) (x : Thr) (o0 : Lfht.Conc.Out)
    (ht : Nat) (fp : Val) (r : Except String Out) (hE : exec fuel Gen.Src.«lfht._cds_lfht_add» env inp = r)
    (hht : env.vars "ht" = some (.ptr (.obj ht))) (hhash : env.vars "hash" = some (.int x.hs))
    (hsz : env.vars "size" = some (.int x.sz)) (hnode : env.vars "node" = some (.ptr (.obj x.node)))
    (hur : env.vars "unique_ret" = some (.int 0)) (hbf : env.vars "bucket_flag" = some (.int 0))
    (hn0 : x.node ≠ 0) (hsz1 : 1 ≤ x.sz)
    (hfp : env.priv (.field (.obj ht) "bucket_at") = some fp) (hrev : RevView rev env.priv)
    (hpc : x.pc = .aHead) (hmode : x.mode = .plain)
    (hO : OracleOk rev { x := x, pend := .bkt, out := o0 } inp) :
    ∃ out, r = .ok out ∧
      ∃ ls', lr rev { x := x, pend := .bkt, out := o0 } out.events = some ls' ∧ AddDone rev out ls' := by
  subst hE
  exact add_exec fuel rev env inp x o0 ht fp hht hhash hsz hnode hur hbf hn0 hsz1 hfp hrev hpc hmode hO

/-- how `cds_lfht_add` ends -/
def AddWDone (out : Out) (ls' : LState) : Prop :=
  out.ctl = .blocked ∨ out.ctl = .fuel ∨
    (out.ctl = .normal ∧ ls'.out = .unit ∧ ls'.x.pc = .idle ∧ ls'.x.op = .none ∧ ls'.pend = .none ∧
      out.env.priv (.field (.obj ls'.x.node) "next") = some (encW { ptr := ls'.x.iter.ptr }))

/-- no step of the local automaton changes the `node` argument -/
theorem lstep_node {rev : Nat → Nat} {ls ls' : LState} {l : LLabel} (h : lstep rev ls l = some ls') :
    ls'.x.node = ls.x.node := by
  rcases ls with ⟨x, pend, out⟩
  cases pend with
  | size => cases l <;> simp [lstep] at h; obtain ⟨_, rfl⟩ := h; rfl
  | bkt => cases l <;> simp [lstep] at h; obtain ⟨_, rfl⟩ := h; rfl
  | chk => cases l <;> simp [lstep] at h; subst h; rfl
  | none =>
    cases hpc : x.pc <;> cases l <;> simp [lstep, hpc, mk] at h
    case aSize.hashOf => obtain ⟨_, rfl⟩ := h; rfl
    case aHead.ldNext => obtain ⟨_, rfl⟩ := h; exact (laddPos_args rev _).1
    case aNext.ldNext =>
      obtain ⟨_, h⟩ := h
      split at h
      · cases h; rfl
      · split at h <;> cases h
        · rfl
        · exact (laddPos_args rev _).1
    case aCas.casNext =>
      obtain ⟨_, h⟩ := h
      split at h
      · unfold laddDone at h
        cases hm : x.mode <;> simp [hm] at h <;> subst h <;> rfl
      · cases h; rfl
    case aGc.casNext => obtain ⟨_, rfl⟩ := h; rfl
    case idle.count => subst h; rfl

theorem lrun_node {rev : Nat → Nat} : ∀ {ll : List LLabel} {ls ls' : LState}, lrun rev ls ll = some ls' →
    ls'.x.node = ls.x.node := by
  intro ll
  induction ll with
  | nil => intro ls ls' h; cases h; rfl
  | cons l r ih =>
    intro ls ls' h; simp only [lrun] at h
    cases hs : lstep rev ls l with
    | none => simp [hs] at h
    | some m => rw [hs] at h; rw [ih h, lstep_node hs]

/-- **`cds_lfht_add(ht, hash, node)`** from L2's state after `callAdd .plain node hash key` (pc `aSize`).  The private view
holds the `reverse_hash` of every node but the new one (the function stores it: `node->reverse_hash =
bit_reverse_ulong(hash)`, which L2 does at `callAdd`). -/
theorem add_wrapper_exec (fuel : Nat) (rev : Nat → Nat) (env : Env) (inp : List Val) (x : Thr) (o0 : Lfht.Conc.Out)
    (ht : Nat) (fp : Val)
    (hht : env.vars "ht" = some (.ptr (.obj ht))) (hhash : env.vars "hash" = some (.int x.hs))
    (hnode : env.vars "node" = some (.ptr (.obj x.node))) (hn0 : x.node ≠ 0)
    (hfp : env.priv (.field (.obj ht) "bucket_at") = some fp)
    (hrev : ∀ n, n ≠ 0 → n ≠ x.node → env.priv (.field (.obj n) "reverse_hash") = some (.int (rev n)))
    (hpc : x.pc = .aSize) (hmode : x.mode = .plain)
    (hO : OracleOk rev { x := x, pend := .none, out := o0 } inp) :
    ∃ out, exec fuel Gen.Src.«lfht.cds_lfht_add» env inp = .ok out ∧
      ∃ ls', lr rev { x := x, pend := .none, out := o0 } out.events = some ls' ∧ AddWDone out ls' := by
  cases inp with
  | nil =>
    lexec [Gen.Src.«lfht.cds_lfht_add»]
    exact ⟨_, lr_nil _ _, .inl rfl⟩
  | cons v1 rest =>
    obtain ⟨l, hl, hrest⟩ := hO (by simp [active, hpc])
    simp only [obsLabel, hpc] at hl
    cases v1 with
    | ptr _ => simp at hl
    | int h =>
      simp only [Option.ite_none_right_eq_some, Option.some.injEq] at hl
      obtain ⟨rfl, rfl⟩ := hl
      have hs1 : lstep rev { x := x, pend := .none, out := o0 } (.hashOf x.hs (rev x.node)) =
          some { x := x, pend := .size, out := o0 } := by simp [lstep, hpc]
      have hO1 := hrest _ hs1
      cases rest with
      | nil =>
        lexec [Gen.Src.«lfht.cds_lfht_add»]
        simp [lr, lrun, absEv, hs1, AddWDone]
      | cons v2 rest =>
        obtain ⟨l, hl, hrest⟩ := hO1 (by simp [active])
        simp only [obsLabel] at hl
        cases v2 with
        | ptr _ => simp at hl
        | int n =>
          simp only [Option.ite_none_right_eq_some, Option.some.injEq] at hl
          obtain ⟨hn1, rfl⟩ := hl
          obtain ⟨m, rfl⟩ := Int.eq_ofNat_of_zero_le (show 0 ≤ n by omega)
          have hm1 : 1 ≤ m := by omega
          obtain ⟨x2, hx2⟩ : ∃ x2 : Thr, x2 = { x with sz := m, pc := .aHead } := ⟨_, rfl⟩
          have hs2 : lstep rev { x := x, pend := .size, out := o0 } (.ldSize m 2) =
              some { x := x2, pend := .bkt, out := .unit } := by rw [hx2]; simp [lstep]
          have hO2 := hrest _ (by simpa using hs2)
          have hlr2 : ∀ evs, lr rev { x := x, pend := .none, out := o0 }
              (Event.ext "bit_reverse_ulong" [Val.int x.hs] (Val.int (rev x.node)) ::
                Event.ld ((Loc.obj ht).field "size") (Val.int m) 2 :: evs) =
              lr rev { x := x2, pend := .bkt, out := .unit } evs := by
            intro evs; simp [lr, lrun, absEv, hs1, hs2]
          have hrv : RevView rev (fun l => if l = Loc.field (.obj x.node) "reverse_hash" then some (.int (rev x.node))
              else env.priv l) := by
            intro k hk
            by_cases hkn : k = x.node
            · subst hkn; simp
            · have : ¬ (Loc.field (.obj k) "reverse_hash" = Loc.field (.obj x.node) "reverse_hash") := by
                intro he; injection he with h1 _; injection h1 with h1; exact hkn h1
              simp only [this, if_false]; exact hrev k hk hkn
          have hfp' : (Loc.field (.obj ht) "bucket_at" = Loc.field (.obj x.node) "reverse_hash") = False := by
            simp
          lexec [Gen.Src.«lfht.cds_lfht_add», exec_call]
          generalize hE : exec fuel Gen.Src.«lfht._cds_lfht_add» _ rest = r
          obtain ⟨o1, rfl, ls1, hl1, hd⟩ := add_exec' fuel rev _ rest x2 .unit ht fp r hE
            (by simp) (by subst hx2; simp) (by subst hx2; simp)
            (by subst hx2; simp) (by simp) (by simp)
            (by subst hx2; exact hn0) (by subst hx2; exact hm1) (by simp [hfp]) (by simpa using hrv)
            (by subst hx2; rfl) (by subst hx2; exact hmode) hO2
          rcases o1 with ⟨ev1, env1, inp1, ctl1⟩
          have hl1' : lr rev { x := x2, pend := .bkt, out := .unit } ev1 = some ls1 := hl1
          have hl1o := hl1'
          rw [hx2, hmode] at hl1'
          clear hl1
          rcases hd with hb | hf | ⟨hc, hout1, hpc1, hop1, hpend1, hnx1, -⟩
          · dsimp only at hb; subst hb
            simp [hlr2, AddWDone]; exact ⟨ls1, hl1o⟩
          · dsimp only at hf; subst hf
            simp [hlr2, AddWDone]; exact ⟨ls1, hl1o⟩
          · dsimp only at hc hnx1; subst hc
            have hs3 : lstep rev ls1 .count = some ls1 := by
              rcases ls1 with ⟨y, pend, out⟩
              dsimp only at hpend1 hpc1; subst hpend1
              simp [lstep, hpc1]
            cases inp1 with
            | nil =>
              lexec
              simp [AddWDone]
            | cons v3 rest3 =>
              lexec
              refine ⟨ls1, ?_, .inr (.inr ⟨rfl, hout1, hpc1, hop1, hpend1, hnx1⟩)⟩
              rw [lr_append, hl1']
              simp [lr, lrun, absEv, hs3]

end UrcuVerif.Src.LfhtAR
