import UrcuVerif.Src.LfhtWalk
/-!
# `_cds_lfht_replace`: thread-local projection of L2 (labels `casRepl`, `ldAssertR`) and the retry loop of the source

The local automaton `lstepR` **extends** `LfhtL.lstep` (deletion protocol + `_cds_lfht_gc_bucket`, frozen) by the two pcs
of `_cds_lfht_replace` (same state and label types): at `rCas` the cmpxchg on `old_node->next` (expects `old_next`, writes
`new_node | REMOVED | REMOVAL_OWNER`); on success the thread goes to `gHead` with `gcont = repl`, and – as for `orRem` –
`pend = hash old` records that `bit_reverse_ulong(old_node->reverse_hash)` and `bucket_at` are still to come (L2 folds
them into `casRepl`: `gbkt := tbl (hsh old % sz)`); on failure L2's `replTest` (`LfhtW.lreplTest`): REMOVED ⇒ the call
returns `-ENOENT` (`cds_lfht_replace`) resp. goes back to `aHead` (`cds_lfht_add_replace`), else retry with the word read.
At `rAssert` the load of `old_node->next` (return `0` resp. the old node).  Since `LfhtL.lstep` is `none` at these pcs,
every run of `LfhtL.lrun` is a run of `lrunR` (`lrun_lift`): `LfhtR.gc_bucket_exec` is reused for the gc pass.
-/
namespace UrcuVerif.Src.LfhtP
open UrcuVerif UrcuVerif.Src UrcuVerif.Lfht.Conc UrcuVerif.Src.LfhtL UrcuVerif.Src.LfhtR

def lstepR (rev : Nat → Nat) (ls : LState) (l : LLabel) : Option LState :=
  match LfhtL.lstep rev ls l with
  | some ls' => some ls'
  | none =>
    let x := ls.x
    match ls.pend with
    | .none =>
      match x.pc with
      | .rCas =>
        match l with
        | .casNext p e n old =>
          if p = x.old ∧ e = x.oldnx ∧ n = { ptr := x.node, rem := true, own := true } then
            if old = x.oldnx then
              some { x := { x with gnode := x.node, gcont := .repl, pc := .gHead }, pend := .hash x.old, out := .unit }
            else some (mk (LfhtW.lreplTest x old).1 (LfhtW.lreplTest x old).2)
          else none
        | _ => none
      | .rAssert =>
        match l with
        | .ldNext p _ _ =>
          if p = x.old then
            match x.op with
            | .replace => some (mk { x with pc := .idle, op := .none } (.ret 0))
            | _ => some (mk { x with pc := .idle, op := .none } (.node x.old))
          else none
        | _ => none
      | _ => none
    | _ => none

def lrunR (rev : Nat → Nat) : LState → List LLabel → Option LState
  | ls, [] => some ls
  | ls, l :: r => match lstepR rev ls l with
    | some ls' => lrunR rev ls' r
    | none => none

theorem lrunR_append (rev : Nat → Nat) (ls : LState) (a b : List LLabel) :
    lrunR rev ls (a ++ b) = (lrunR rev ls a).bind (fun m => lrunR rev m b) := by
  induction a generalizing ls with
  | nil => rfl
  | cons l r ih => simp only [List.cons_append, lrunR]; cases lstepR rev ls l <;> simp [ih]

theorem lstep_lift {rev : Nat → Nat} {ls ls' : LState} {l : LLabel} (h : LfhtL.lstep rev ls l = some ls') :
    lstepR rev ls l = some ls' := by simp [lstepR, h]

/-- every run of the frozen automaton of `LfhtLocal.lean` is a run of the extended one -/
theorem lrun_lift {rev : Nat → Nat} : ∀ {ll : List LLabel} {ls ls' : LState}, LfhtL.lrun rev ls ll = some ls' →
    lrunR rev ls ll = some ls' := by
  intro ll
  induction ll with
  | nil => intro ls ls' h; exact h
  | cons l r ih =>
    intro ls ls' h; simp only [LfhtL.lrun] at h
    cases hs : LfhtL.lstep rev ls l with
    | none => simp [hs] at h
    | some m => rw [hs] at h; simp only [lrunR, lstep_lift hs]; exact ih h

/-- the local labels of the two L2 steps of `_cds_lfht_replace`, with the values the global state determines -/
def decorR (s : State) (t : Nat) : Label → List LLabel :=
  let x := s.th t
  fun
  | .casRepl => .casNext x.old x.oldnx { ptr := x.node, rem := true, own := true } (s.nxt x.old) ::
      (if s.nxt x.old = x.oldnx then
        [.hashOf (s.rev x.old) (s.hsh x.old), .bktAt (s.hsh x.old &&& (x.sz - 1)) (s.tbl (s.hsh x.old % x.sz))]
       else [])
  | .ldAssertR => [.ldNext x.old (s.nxt x.old) 0]
  | _ => []

/-- every non-crashing L2 step `casRepl` / `ldAssertR` of thread `t` is the local run `decorR s t L`, same `Out` -/
theorem proj_stepR (c : Cfg) (s s' : State) (t : Nat) (L : Label) (o o0 : Lfht.Conc.Out)
    (hL : L = .casRepl ∨ L = .ldAssertR)
    (h : step c s t L = some (s', o)) (hnc : o ≠ .crash) :
    lrunR s.rev (proj s t o0) (decorR s t L) = some (proj s' t o) := by
  unfold step at h
  split at h
  · cases h
  · rcases hL with rfl | rfl <;> simp only [stepRepl, crash] at h
    · split at h <;> try cases h
      rename_i hpc
      split at h
      · cases h; exact absurd rfl hnc
      · split at h
        · rename_i heq
          cases h
          simp [decorR, lrunR, lstepR, LfhtL.lstep, proj, mk, hpc, heq, setTh]
        · rename_i hne
          rw [LfhtW.replTest_eq] at h
          cases h
          simp [decorR, lrunR, lstepR, LfhtL.lstep, proj, mk, hpc, hne]
    · split at h <;> try cases h
      rename_i hpc
      split at h
      · cases h; exact absurd rfl hnc
      · cases hop : (s.th t).op <;> simp only [hop] at h <;> cases h <;>
          simp [decorR, lrunR, lstepR, LfhtL.lstep, proj, mk, hpc, hop, setTh]

-- ----------------------------------------------------------------------------------------------------------
-- the retry loop of the generated `_cds_lfht_replace`
-- ----------------------------------------------------------------------------------------------------------
def lrR (rev : Nat → Nat) (ls : LState) (evs : List Event) : Option LState := lrunR rev ls (evs.map LfhtR.absEv)
theorem lrR_nil (rev ls) : lrR rev ls [] = some ls := rfl
theorem lrR_append (rev ls a b) : lrR rev ls (a ++ b) = (lrR rev ls a).bind (fun m => lrR rev m b) := by
  simp [lrR, lrunR_append]

/-- L2's thread right after a successful `casRepl`, before the two opaque calls that compute the bucket -/
def handover (x : Thr) : LState :=
  { x := { x with gnode := x.node, gcont := .repl, pc := .gHead }, pend := .hash x.old, out := .unit }

/-- the oracle of a thread at `rCas`: every value delivered to the cmpxchg is a well-typed word; a word that is not
the expected one and not REMOVED passes the assertions of the next iteration (`old_next == clear_flag(old_next)`,
`!is_removal_owner(old_next)`); after the successful cmpxchg the oracle is one of the gc pass (`LfhtR.OracleOk`) -/
def ROracle (rev : Nat → Nat) : Thr → List Val → Prop
  | _, [] => True
  | x, v :: rest => ∃ w, decW v = some w ∧
      (if w = x.oldnx then LfhtR.OracleOk rev (handover x) rest
       else if w.rem = true then True
       else w.bkt = false ∧ w.own = false ∧ ROracle rev { x with oldnx := w } rest)

def replBody : Stmt := match firstLoop Gen.Src.«lfht._cds_lfht_replace» with | some b => b | none => .skip

/-- the private view differs from `priv0` at most at `new_node->next` -/
def PrivExc (priv0 : Loc → Option Val) (N : Nat) (p : Loc → Option Val) : Prop :=
  ∀ l, l ≠ Loc.field (.obj N) "next" → p l = priv0 l

@[simp] theorem tagor_obj1 (p : Nat) (hp : p ≠ 0) :
    evalBin .tagor (.ptr (.obj p)) (.int 1) = .ok (encW { ptr := p, rem := true }) := by
  rw [← encP_pos hp, encP_eq_encW, tagor_rem]

/-- `flag_removed_or_removal_owner(a)`: one pure rewriting step -/
theorem call_flag_ror (fuel d a env inp) :
    exec fuel (.call (some d) ["node"] [a] Gen.Src.«lfht.flag_removed_or_removal_owner») env inp =
      pureCall env inp d (bind1 (eval env a) fun v =>
        bind1 (evalBin .tagor v (.int 1)) fun c => evalBin .tagor c (.int 4)) := by
  cases h : eval env a with
  | error e => lexec [exec_call, Gen.Src.«lfht.flag_removed_or_removal_owner», pureCall, bind1]
  | ok v =>
    cases h2 : evalBin .tagor v (.int 1) with
    | error e => lexec [exec_call, Gen.Src.«lfht.flag_removed_or_removal_owner», pureCall, bind1]
    | ok c =>
      cases h3 : evalBin .tagor c (.int 4) <;>
        lexec [exec_call, Gen.Src.«lfht.flag_removed_or_removal_owner», pureCall, bind1]

/-- invariant at the head of the retry loop: at `rCas` with a flag-free `old_next`, or (L2 folds the REMOVED test of
the next iteration into the failed cmpxchg) `old_next` is REMOVED and L2's thread is where `replTest` put it -/
def RI (rev : Nat → Nat) (priv0 : Loc → Option Val) (O N : Nat) (htv szv : Val)
    (env : Env) (inp : List Val) (ls : LState) : Prop :=
  env.vars "old_node" = some (.ptr (.obj O)) ∧ env.vars "new_node" = some (.ptr (.obj N)) ∧
  env.vars "ht" = some htv ∧ env.vars "size" = some szv ∧ PrivExc priv0 N env.priv ∧
  ((env.vars "old_next" = some (encW ls.x.oldnx) ∧ ls.pend = .none ∧ ls.x.pc = .rCas ∧ ls.x.old = O ∧ ls.x.node = N ∧
      ls.x.oldnx.rem = false ∧ ls.x.oldnx.bkt = false ∧ ls.x.oldnx.own = false ∧ ROracle rev ls.x inp) ∨
   (∃ x w, env.vars "old_next" = some (encW w) ∧ w.rem = true ∧ x.old = O ∧ x.node = N ∧
      ls = mk (LfhtW.lreplTest x w).1 (LfhtW.lreplTest x w).2))

/-- how the retry loop ends: `break` (the cmpxchg succeeded: `handover`, and the private store `new_node->next =
old_next` wrote the word L2's `casRepl` gives the new node), `return -ENOENT` (L2: `replTest` on a REMOVED word),
or preempted -/
def RR (rev : Nat → Nat) (priv0 : Loc → Option Val) (O N : Nat) (htv szv : Val)
    (c : Ctl) (env : Env) (inp : List Val) (ls : LState) : Prop :=
  match c with
  | .brk => env.vars "old_node" = some (.ptr (.obj O)) ∧ env.vars "new_node" = some (.ptr (.obj N)) ∧
      env.vars "ht" = some htv ∧ env.vars "size" = some szv ∧ PrivExc priv0 N env.priv ∧
      ∃ x, ls = handover x ∧ x.old = O ∧ x.node = N ∧
        env.priv (.field (.obj N) "next") = some (encW { ptr := x.oldnx.ptr }) ∧ LfhtR.OracleOk rev ls inp
  | .ret v => v = some (.int (-2)) ∧ ∃ x w, w.rem = true ∧ x.old = O ∧ x.node = N ∧
      ls = mk (LfhtW.lreplTest x w).1 (LfhtW.lreplTest x w).2
  | .blocked => True
  | _ => False

theorem clean_word (w : W) (h1 : w.rem = false) (h2 : w.bkt = false) (h3 : w.own = false) : w = { ptr := w.ptr } := by
  rcases w with ⟨p, r, b, o⟩; simp_all

theorem repl_body (fuel : Nat) (rev : Nat → Nat) (priv0 : Loc → Option Val) (O N : Nat) (htv szv : Val)
    (hO0 : O ≠ 0) (hN : N ≠ 0)
    (env : Env) (inp : List Val) (ls : LState) (hI : RI rev priv0 O N htv szv env inp ls) :
    ∃ o, exec fuel replBody env inp = .ok o ∧ ∃ ls', lrR rev ls o.events = some ls' ∧
      (if o.ctl.goesOn then RI rev priv0 O N htv szv o.env o.inp ls' else RR rev priv0 O N htv szv o.ctl o.env o.inp ls') := by
  obtain ⟨ho, hn, hht, hsz, hpe, hA | ⟨x, w, hon, hwr, hxo, hxn, rfl⟩⟩ := hI
  · rcases ls with ⟨x, pend, out⟩
    obtain ⟨hon, hpend, hpc, hxo, hxn, hr, hb, hw, hO⟩ := hA
    dsimp only at hon hpend hpc hxo hxn hr hb hw hO; subst hpend
    have hcw := (clean_word _ hr hb hw).symm
    have hce : (encW x.oldnx = encP x.oldnx.ptr) = True := by rw [encP_eq_encW, hcw]; simp
    have hdn : decW (encW { ptr := x.node, rem := true, own := true }) =
        some { ptr := x.node, rem := true, own := true } := decW_encW _
    have hpe' : ∀ v, PrivExc priv0 N (fun m => if m = Loc.field (.obj N) "next" then some v else env.priv m) := by
      intro v l hl; simp [hl]; exact hpe l hl
    cases inp with
    | nil =>
      lexec [replBody, firstLoop, Gen.Src.«lfht._cds_lfht_replace», call_is_removed, call_clear_flag,
        call_is_removal_owner, call_flag_ror, pureCall, bind1]
      exact ⟨_, lrR_nil _ _, by simp [Ctl.goesOn, RR]⟩
    | cons v rest =>
      obtain ⟨w, hd, hcase⟩ := hO
      have hv := encW_of_decW hd; subst hv
      by_cases hs : w = x.oldnx
      · subst hs
        simp only [if_true] at hcase
        have hst : lstepR rev { x := x, pend := .none, out := out }
            (.casNext x.old x.oldnx { ptr := x.node, rem := true, own := true } x.oldnx) = some (handover x) := by
          simp [lstepR, LfhtL.lstep, hpc, handover]
        lexec [replBody, firstLoop, Gen.Src.«lfht._cds_lfht_replace», call_is_removed, call_clear_flag,
          call_is_removal_owner, call_flag_ror, pureCall, bind1]
        refine ⟨handover x, ?_, ?_⟩
        · simp [lrR, LfhtR.absEv, lrunR, ← hxo, ← hxn, hdn, hst]
        · simp only [Ctl.goesOn, RR]
          refine ⟨by simp [*], by simp [*], by simp [*], by simp [*], hpe' _, x, rfl, hxo, hxn, ?_, hcase⟩
          simp [hcw]
      · simp only [hs, if_false] at hcase
        have hst : lstepR rev { x := x, pend := .none, out := out }
            (.casNext x.old x.oldnx { ptr := x.node, rem := true, own := true } w) =
            some (mk (LfhtW.lreplTest x w).1 (LfhtW.lreplTest x w).2) := by
          simp [lstepR, LfhtL.lstep, hpc, hs]
        lexec [replBody, firstLoop, Gen.Src.«lfht._cds_lfht_replace», call_is_removed, call_clear_flag,
          call_is_removal_owner, call_flag_ror, pureCall, bind1]
        refine ⟨mk (LfhtW.lreplTest x w).1 (LfhtW.lreplTest x w).2, ?_, ?_⟩
        · simp [lrR, LfhtR.absEv, lrunR, ← hxo, ← hxn, hdn, hst]
        · simp only [Ctl.goesOn, if_true]
          refine ⟨by simp [*], by simp [*], by simp [*], by simp [*], hpe' _, ?_⟩
          by_cases hwr : w.rem = true
          · exact .inr ⟨x, w, by simp, hwr, hxo, hxn, rfl⟩
          · simp only [hwr] at hcase
            obtain ⟨hwb, hwo, hOr⟩ := hcase
            have hwr' : w.rem = false := by simpa using hwr
            refine .inl ⟨by simp [LfhtW.lreplTest, hwr', mk], ?_, ?_, ?_, ?_, ?_, ?_, ?_, ?_⟩ <;>
              simp [LfhtW.lreplTest, mk, *]
            subst hxo; subst hxn; rw [← hpc]; exact hOr
  · lexec [replBody, firstLoop, Gen.Src.«lfht._cds_lfht_replace», call_is_removed, pureCall, bind1]
    refine ⟨_, lrR_nil _ _, ?_⟩
    simp only [Ctl.goesOn, RR]
    exact ⟨by simp, x, w, hwr, hxo, hxn, rfl⟩

/-- **the cmpxchg retry loop of `_cds_lfht_replace`**: every run is accepted by the extended local automaton (each
`casRepl` on `old_node->next` with the expected / new words L2 prescribes); it ends with `break` after the successful
cmpxchg, with `return -ENOENT` on a REMOVED word, preempted, or out of budget -/
theorem repl_loop (fuel : Nat) (rev : Nat → Nat) (priv0 : Loc → Option Val) (O N : Nat) (htv szv : Val)
    (hO0 : O ≠ 0) (hN : N ≠ 0)
    (env : Env) (inp : List Val) (ls : LState) (r : Except String Out)
    (hE : iterate (exec fuel replBody) fuel env inp [] = r) (hI : RI rev priv0 O N htv szv env inp ls) :
    ∃ out, r = .ok out ∧ ∃ ls', lrR rev ls out.events = some ls' ∧
      (out.ctl = .fuel ∨ ∃ c, c.goesOn = false ∧ RR rev priv0 O N htv szv c out.env out.inp ls' ∧
        out.ctl = c.afterLoop) := by
  obtain ⟨out, hout, evs, ls', hev, hl, hfin⟩ :=
    iterate_inv (lrR rev) (lrR_nil rev) (lrR_append rev) (exec fuel replBody) (RI rev priv0 O N htv szv)
      (RR rev priv0 O N htv szv) (repl_body fuel rev priv0 O N htv szv hO0 hN) fuel env inp ls [] hI
  refine ⟨out, by rw [← hE, hout], ls', ?_, hfin⟩
  rw [hev]; simpa using hl

/-- `replBody` is the body of the `for (;;)` of the generated function: 13 statements (the NULL test and the six
assertions on `old_node` / `new_node`) precede it -/
theorem repl_shape : seqTail 13 Gen.Src.«lfht._cds_lfht_replace» =
    .seq (.loop replBody) (seqTail 14 Gen.Src.«lfht._cds_lfht_replace») := rfl

end UrcuVerif.Src.LfhtP
