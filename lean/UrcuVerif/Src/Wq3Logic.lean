import UrcuVerif.Src.StackExec
/-!
# A small partial-correctness logic over `Src.exec`, generic in the acceptor

`PT R fuel s Pre Post`: every run of `s` from an environment / local state satisfying `Pre` that returns `.ok` and whose
events satisfy the typing contract `R.ok` is accepted by the replay `R.lr` and ends in `Post ctl env ls'`.  (The same
logic as `WqR.Triple` of `Src/WqWorker.lean`, which is the instance for the worker's automaton; here the acceptor is a
parameter so that the completion automata of `Src/Wq3Compl.lean` can use it.)  Rules: `conseq`, `seq`, `ifte`, `call`,
`loop` (every budget).
-/
set_option linter.unusedSimpArgs false
set_option linter.unusedVariables false
namespace UrcuVerif.Src.Wq3
open UrcuVerif UrcuVerif.Src

structure Rp (σ : Type) where
  lr : σ → List Event → Option σ
  nil : ∀ s, lr s [] = some s
  app : ∀ s a b, lr s (a ++ b) = (lr s a).bind (fun m => lr m b)
  ok : Event → Bool

def PT {σ : Type} (R : Rp σ) (fuel : Nat) (s : Stmt) (Pre : Env → σ → Prop) (Post : Ctl → Env → σ → Prop) : Prop :=
  ∀ env inp ls o, Pre env ls → exec fuel s env inp = .ok o → o.events.all R.ok = true →
    ∃ ls', R.lr ls o.events = some ls' ∧ Post o.ctl o.env ls'

theorem PT.conseq {σ : Type} {R : Rp σ} {fuel : Nat} {s : Stmt} {Pre Pre' : Env → σ → Prop}
    {Post Post' : Ctl → Env → σ → Prop} (h : PT R fuel s Pre Post)
    (hpre : ∀ e l, Pre' e l → Pre e l) (hpost : ∀ c e l, Post c e l → Post' c e l) : PT R fuel s Pre' Post' := by
  intro env inp ls o hp hE hok
  obtain ⟨ls', h1, h2⟩ := h env inp ls o (hpre _ _ hp) hE hok
  exact ⟨ls', h1, hpost _ _ _ h2⟩

/-- `a; b`: `Mid` holds between the two when `a` ends normally; any other end of `a` is the end of the sequence -/
theorem PT.seq {σ : Type} {R : Rp σ} {fuel : Nat} {a b : Stmt} {Pre Mid : Env → σ → Prop}
    {Post : Ctl → Env → σ → Prop}
    (ha : PT R fuel a Pre (fun c e l => if c = .normal then Mid e l else Post c e l))
    (hb : PT R fuel b Mid Post) : PT R fuel (.seq a b) Pre Post := by
  intro env inp ls o hp hE hok
  rw [exec_seq] at hE
  cases hA : exec fuel a env inp with
  | error e => rw [hA] at hE; simp at hE
  | ok oa =>
    rw [hA] at hE
    simp only [seqPost] at hE
    by_cases hc : oa.ctl = .normal
    · rw [hc] at hE
      simp only at hE
      cases hB : exec fuel b oa.env oa.inp with
      | error e => rw [hB] at hE; simp at hE
      | ok ob =>
        rw [hB] at hE
        simp only [Except.ok.injEq] at hE
        subst hE
        simp only [List.all_append, Bool.and_eq_true] at hok
        obtain ⟨l1, h1, h2⟩ := ha env inp ls oa hp hA hok.1
        rw [if_pos hc] at h2
        obtain ⟨l2, h3, h4⟩ := hb oa.env oa.inp l1 ob h2 hB hok.2
        exact ⟨l2, by simp [R.app, h1, h3], h4⟩
    · have : o = oa := by
        cases hctl : oa.ctl <;> simp_all
      subst this
      obtain ⟨l1, h1, h2⟩ := ha env inp ls o hp hA hok
      rw [if_neg hc] at h2
      exact ⟨l1, h1, h2⟩

theorem PT.ifte {σ : Type} {R : Rp σ} {fuel : Nat} {c : Expr} {a b : Stmt} {Pre : Env → σ → Prop}
    {Post : Ctl → Env → σ → Prop}
    (ha : PT R fuel a (fun e l => Pre e l ∧ ∃ v, eval e c = .ok v ∧ v.truthy = true) Post)
    (hb : PT R fuel b (fun e l => Pre e l ∧ ∃ v, eval e c = .ok v ∧ v.truthy = false) Post) :
    PT R fuel (.ifte c a b) Pre Post := by
  intro env inp ls o hp hE hok
  rw [exec_ifte] at hE
  cases hv : eval env c with
  | error e => rw [hv] at hE; simp [bind, Except.bind] at hE
  | ok v =>
    rw [hv] at hE
    simp only [bind, Except.bind] at hE
    by_cases ht : v.truthy = true
    · rw [if_pos ht] at hE
      exact ha env inp ls o ⟨hp, v, hv, ht⟩ hE hok
    · rw [if_neg ht] at hE
      exact hb env inp ls o ⟨hp, v, hv, by simpa using ht⟩ hE hok

/-- call of a translated function: `hargs` evaluates the arguments and establishes the callee's precondition in the
callee's frame; `hpost` transports the callee's postcondition back into the caller's frame (caller's locals restored,
the callee's private view kept, the returned value assigned) – a prefix (`blocked` / `fuel`) keeps the callee's frame -/
theorem PT.call {σ : Type} {R : Rp σ} {fuel : Nat} {dst : Option String} {params : List String} {args : List Expr}
    {body : Stmt} {Pre PreB : Env → σ → Prop} {PostB Post : Ctl → Env → σ → Prop}
    (hb : PT R fuel body PreB PostB)
    (hargs : ∀ env ls, Pre env ls → ∃ vs, evalArgs env args = .ok vs ∧ params.length = vs.length ∧
      PreB ⟨bindParams params vs, env.priv⟩ ls ∧
      ∀ c e ls', PostB c e ls' →
        (match c with
          | .normal | .ret none => Post .normal ⟨env.vars, e.priv⟩ ls'
          | .ret (some v) => Post .normal (setDst ⟨env.vars, e.priv⟩ dst v) ls'
          | .brk | .cont => True
          | c => Post c e ls')) :
    PT R fuel (.call dst params args body) Pre Post := by
  intro env inp ls o hp hE hok
  obtain ⟨vs, hvs, hlen, hpb, hback⟩ := hargs env ls hp
  rw [exec_call, hvs] at hE
  simp only [hlen, ne_eq, not_true_eq_false, if_false] at hE
  cases hB : exec fuel body { vars := bindParams params vs, priv := env.priv } inp with
  | error e => rw [hB] at hE; simp at hE
  | ok ob =>
    rw [hB] at hE
    rcases ob with ⟨ev, en, ip, ctl⟩
    cases ctl with
    | normal =>
      simp only [callPost, Except.ok.injEq] at hE; subst hE
      obtain ⟨l1, h1, h2⟩ := hb _ _ ls _ hpb hB hok
      exact ⟨l1, h1, hback _ _ _ h2⟩
    | ret v =>
      cases v with
      | none =>
        simp only [callPost, Except.ok.injEq] at hE; subst hE
        obtain ⟨l1, h1, h2⟩ := hb _ _ ls _ hpb hB hok
        exact ⟨l1, h1, hback _ _ _ h2⟩
      | some v =>
        simp only [callPost, Except.ok.injEq] at hE; subst hE
        obtain ⟨l1, h1, h2⟩ := hb _ _ ls _ hpb hB hok
        exact ⟨l1, h1, hback _ _ _ h2⟩
    | brk => simp [callPost] at hE
    | cont => simp [callPost] at hE
    | blocked =>
      simp only [callPost, Except.ok.injEq] at hE; subst hE
      obtain ⟨l1, h1, h2⟩ := hb _ _ ls _ hpb hB hok
      exact ⟨l1, h1, hback _ _ _ h2⟩
    | fuel =>
      simp only [callPost, Except.ok.injEq] at hE; subst hE
      obtain ⟨l1, h1, h2⟩ := hb _ _ ls _ hpb hB hok
      exact ⟨l1, h1, hback _ _ _ h2⟩

theorem iterate_suffix3 (body : Env → List Val → Except String Out) :
    ∀ n env inp acc o, iterate body n env inp acc = .ok o → ∃ suf, o.events = acc ++ suf := by
  intro n
  induction n with
  | zero => intro env inp acc o h; simp [iterate] at h; subst h; exact ⟨[], by simp⟩
  | succ n ih =>
    intro env inp acc o h
    simp only [iterate, bind, Except.bind] at h
    split at h
    · simp at h
    · rename_i ob _
      split at h
      · obtain ⟨suf, hs⟩ := ih _ _ _ _ h; exact ⟨ob.events ++ suf, by rw [hs, List.append_assoc]⟩
      · obtain ⟨suf, hs⟩ := ih _ _ _ _ h; exact ⟨ob.events ++ suf, by rw [hs, List.append_assoc]⟩
      · simp at h; subst h; exact ⟨ob.events, rfl⟩
      · simp at h; subst h; exact ⟨ob.events, rfl⟩

/-- `for (;;) body`, every budget -/
theorem PT.loop {σ : Type} {R : Rp σ} {fuel : Nat} {body : Stmt} {I : Env → σ → Prop}
    {T : Ctl → Env → σ → Prop}
    (hb : PT R fuel body I (fun c e l => if c.goesOn then I e l else T c e l)) :
    PT R fuel (.loop body) I
      (fun c e l => (c = .fuel ∧ I e l) ∨ ∃ c0 : Ctl, c0.goesOn = false ∧ T c0 e l ∧ c = c0.afterLoop) := by
  have key : ∀ n env inp ls acc o, I env ls → iterate (exec fuel body) n env inp acc = .ok o →
      ∀ evs, o.events = acc ++ evs → evs.all R.ok = true → ∃ ls', R.lr ls evs = some ls' ∧
        ((o.ctl = .fuel ∧ I o.env ls') ∨ ∃ c0 : Ctl, c0.goesOn = false ∧ T c0 o.env ls' ∧ o.ctl = c0.afterLoop) := by
    intro n
    induction n with
    | zero =>
      intro env inp ls acc o hI hE evs he hok
      simp only [iterate, Except.ok.injEq] at hE
      subst hE
      have : evs = [] := by simpa using he
      subst this
      exact ⟨ls, R.nil ls, .inl ⟨rfl, hI⟩⟩
    | succ n ih =>
      intro env inp ls acc o hI hE evs he hok
      simp only [iterate, bind, Except.bind] at hE
      cases hB : exec fuel body env inp with
      | error e => rw [hB] at hE; simp at hE
      | ok ob =>
        rw [hB] at hE
        simp only at hE
        have hbb := hb env inp ls ob hI hB
        rcases ob with ⟨oev, oenv, oinp, octl⟩
        have goOn : octl.goesOn = true → iterate (exec fuel body) n oenv oinp (acc ++ oev) = .ok o →
            ∃ ls', R.lr ls evs = some ls' ∧
              ((o.ctl = .fuel ∧ I o.env ls') ∨ ∃ c0 : Ctl, c0.goesOn = false ∧ T c0 o.env ls' ∧ o.ctl = c0.afterLoop) := by
          intro hgo hE
          obtain ⟨suf, hs⟩ := iterate_suffix3 _ _ _ _ _ _ hE
          have hev : evs = oev ++ suf := by
            rw [he, List.append_assoc] at hs
            exact List.append_cancel_left hs
          subst hev
          simp only [List.all_append, Bool.and_eq_true] at hok
          obtain ⟨l1, h1, h2⟩ := hbb hok.1
          simp only [hgo, if_true] at h2
          obtain ⟨l2, h3, h4⟩ := ih oenv oinp l1 (acc ++ oev) o h2 hE suf (by rw [hs]) hok.2
          exact ⟨l2, by simp [R.app, h1, h3], h4⟩
        have stop : octl.goesOn = false → o = ⟨acc ++ oev, oenv, oinp, octl.afterLoop⟩ →
            ∃ ls', R.lr ls evs = some ls' ∧
              ((o.ctl = .fuel ∧ I o.env ls') ∨ ∃ c0 : Ctl, c0.goesOn = false ∧ T c0 o.env ls' ∧ o.ctl = c0.afterLoop) := by
          intro hgo ho
          subst ho
          have hev : evs = oev := (List.append_cancel_left he).symm
          subst hev
          obtain ⟨l1, h1, h2⟩ := hbb hok
          simp only [hgo] at h2
          exact ⟨l1, h1, .inr ⟨octl, hgo, by simpa using h2, rfl⟩⟩
        cases octl with
        | normal => exact goOn rfl hE
        | cont => exact goOn rfl hE
        | brk => exact stop rfl (by simpa [Ctl.afterLoop] using hE.symm)
        | ret v => exact stop rfl (by simpa [Ctl.afterLoop] using hE.symm)
        | blocked => exact stop rfl (by simpa [Ctl.afterLoop] using hE.symm)
        | fuel => exact stop rfl (by simpa [Ctl.afterLoop] using hE.symm)
  intro env inp ls o hp hE hok
  rw [exec_loop] at hE
  exact key fuel env inp ls [] o hp hE o.events (by simp) hok

/-- leaf rule: a statement whose run is computed by the caller -/
theorem PT.leaf {σ : Type} {R : Rp σ} {fuel : Nat} {s : Stmt} {Pre : Env → σ → Prop} {Post : Ctl → Env → σ → Prop}
    (h : ∀ env inp ls o, Pre env ls → exec fuel s env inp = .ok o → o.events.all R.ok = true →
      ∃ ls', R.lr ls o.events = some ls' ∧ Post o.ctl o.env ls') : PT R fuel s Pre Post := h

end UrcuVerif.Src.Wq3
