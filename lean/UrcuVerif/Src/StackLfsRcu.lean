import UrcuVerif.Src.StackRefine
/-!
# Legacy RCU lock-free stack (`include/urcu/static/rculfstack.h`) ⊑ local projection of `Lfs`

`_cds_lfs_push_rcu` / `_cds_lfs_pop_rcu`: the same algorithm as `lfstack.h` (`Lfs/Model.lean` covers both); the loads
of pop are `rcu_dereference` (= `uload` with `CMM_CONSUME`), the return of push is `!!head`.  Same abstraction `absEv`,
same encoding of values as `LfsR`.
-/
namespace UrcuVerif.Src.LfsR
open UrcuVerif UrcuVerif.Src LfsL

-- ----------------------------------------------------------------------------------------------------------
-- _cds_lfs_push_rcu
-- ----------------------------------------------------------------------------------------------------------
def PushRcuI (s n : Nat) (cfg : Int) (e : Env) (i : List Val) (l : LState) : Prop :=
  e.vars "s" = some (.ptr (.obj s)) ∧ e.vars "node" = some (.ptr (.obj n)) ∧
  e.priv (.glob "CONFIG_RCU_EMIT_LEGACY_MB") = some (.int cfg) ∧
  (∀ v ∈ i, (dec v).isSome) ∧ ∃ h, e.vars "head" = some (enc h) ∧ l.pc = .pushSt n h

theorem push_rcu_body (fuel s n : Nat) (cfg : Int) (hnode : n ≠ 0)
    (body : Stmt) (hb : firstLoop Gen.Src.«_cds_lfs_push_rcu» = some body)
    (e : Env) (i : List Val) (l : LState) (hI : PushRcuI s n cfg e i l) :
    ∃ o, exec fuel body e i = .ok o ∧ ∃ ls', lr .push s l o.events = some ls' ∧
      (if o.ctl.goesOn then PushRcuI s n cfg o.env o.inp ls' else PushR n o.ctl o.env o.inp ls') := by
  simp only [Gen.Src.«_cds_lfs_push_rcu», block, firstLoop, Option.some.injEq] at hb
  subst hb
  obtain ⟨h1, h2, h4, h5, h, h6, h7⟩ := hI
  cases i with
  | nil => by_cases hc : cfg = 0 <;> sexec <;> simp [lr, lrun, absEv, Ctl.goesOn, PushR]
  | cons v rest =>
    obtain ⟨cur, hcur⟩ := Option.isSome_iff_exists.mp (h5 v (by simp))
    have hv := enc_dec hcur; subst hv
    have h5' : ∀ v ∈ rest, (dec v).isSome := fun v hv => h5 v (by simp [hv])
    have hdn : dec (.ptr (.obj n)) = some n := by simp [dec, hnode]
    by_cases hch : h = cur
    · subst hch
      by_cases hc : cfg = 0 <;> sexec <;>
        simp [lr, lrun, lstep, absEv, headLoc, nextLoc, Ctl.goesOn, PushR, hdn, hnode, h7]
    · have hch' : ¬ cur = h := fun e => hch e.symm
      by_cases hc : cfg = 0 <;> sexec <;>
        simp [lr, lrun, lstep, absEv, headLoc, Ctl.goesOn, PushRcuI, hdn, hnode, h7, hch', h1, h2, h4, hc] <;>
        exact h5'

theorem push_rcu_refines (fuel : Nat) (env : Env) (inp : List Val) (s n : Nat) (cfg : Int) (ls : LState)
    (hs : env.vars "s" = some (.ptr (.obj s))) (hn : env.vars "node" = some (.ptr (.obj n)))
    (hcfg : env.priv (.glob "CONFIG_RCU_EMIT_LEGACY_MB") = some (.int cfg))
    (hnode : n ≠ 0) (hpc : ls.pc = .pushSt n 0)
    (hinp : ∀ v ∈ inp, (dec v).isSome) :
    ∃ out, exec fuel Gen.Src.«_cds_lfs_push_rcu» env inp = .ok out ∧
      ∃ ls', lr .push s ls out.events = some ls' ∧ Done out ls' ∧
        (∀ r, out.ctl = .ret r → ∃ h, out.env.priv (nextLoc n) = some (enc h) ∧ ls'.ret = .flag (h != 0)) := by
  sexec [Gen.Src.«_cds_lfs_push_rcu»]
  generalize hE : iterate _ _ _ _ _ = r
  obtain ⟨o, rfl, evs, ls', hev, hl, hfin⟩ : ∃ o, r = .ok o ∧ ∃ evs ls', o.events = [] ++ evs ∧
      lr .push s ls evs = some ls' ∧ (o.ctl = .fuel ∨ ∃ c, c.goesOn = false ∧
        PushR n c o.env o.inp ls' ∧ o.ctl = c.afterLoop) := by
    rw [← hE]
    refine iterate_inv (lr .push s) (lr_nil _ _) (lr_append _ _) _ (PushRcuI s n cfg) (PushR n) ?_ fuel _ _ ls [] ?_
    · exact push_rcu_body fuel s n cfg hnode _ (by simp [Gen.Src.«_cds_lfs_push_rcu», block, firstLoop])
    · sexec [PushRcuI]; exact ⟨hinp, rfl⟩
  simp only [List.nil_append] at hev
  rcases hfin with hf | ⟨c, -, hR | ⟨rfl, h, hh, rfl, hp⟩, hc⟩
  · sexec; simp [Done]
  · subst hR; simp only [Ctl.afterLoop] at hc; sexec; simp [Done]
  · simp only [Ctl.afterLoop] at hc
    by_cases h0 : h = 0
    · subst h0; sexec [show enc 0 = Val.int 0 from rfl]; simp [Done, retV]
    · have hek := enc_node h0
      sexec; simp [Done, retV, h0, ← hek]

-- ----------------------------------------------------------------------------------------------------------
-- _cds_lfs_pop_rcu
-- ----------------------------------------------------------------------------------------------------------
theorem pop_rcu_body (fuel : Nat) (s : Nat) (cfg : Int) (body : Stmt)
    (hb : firstLoop Gen.Src.«_cds_lfs_pop_rcu» = some body)
    (e : Env) (i : List Val) (l : LState) (hI : PopI s cfg e i l) :
    ∃ o, exec fuel body e i = .ok o ∧ ∃ ls', lr .pop s l o.events = some ls' ∧
      (if o.ctl.goesOn then PopI s cfg o.env o.inp ls' else PopR o.ctl o.env o.inp ls') := by
  simp only [Gen.Src.«_cds_lfs_pop_rcu», block, firstLoop, Option.some.injEq] at hb
  subst hb
  obtain ⟨h1, h4, h5, h7⟩ := hI
  cases i with
  | nil => sexec; simp [lr, lrun, Ctl.goesOn, PopR]
  | cons v rest =>
    obtain ⟨k, hk⟩ := Option.isSome_iff_exists.mp (h5 v (by simp))
    have hv := enc_dec hk; subst hv
    by_cases hk0 : k = 0
    · subst hk0
      sexec [show enc 0 = Val.int 0 from rfl]
      simp [lr, lrun, lstep, absEv, Ctl.goesOn, PopR, h7, retV, show dec (.int 0) = some 0 from rfl]
    · have hek := enc_node hk0
      cases rest with
      | nil =>
        sexec
        simp [lr, lrun, lstep, absEv, Ctl.goesOn, PopR, h7, hk0, ← hek]
      | cons w rest =>
        obtain ⟨nx, hnx⟩ := Option.isSome_iff_exists.mp (h5 w (by simp))
        have hw := enc_dec hnx; subst hw
        cases rest with
        | nil =>
          sexec
          simp [lr, lrun, lstep, absEv, Ctl.goesOn, PopR, h7, hk0, ← hek]
        | cons x rest =>
          obtain ⟨cur, hcur⟩ := Option.isSome_iff_exists.mp (h5 x (by simp))
          have hx := enc_dec hcur; subst hx
          have h5' : ∀ v ∈ rest, (dec v).isSome := fun v hv => h5 v (by simp [hv])
          by_cases hch : cur = k
          · subst hch
            by_cases hc : cfg = 0 <;> sexec <;>
              simp [lr, lrun, lstep, absEv, headLoc, Ctl.goesOn, PopR, h7, hk0, ← hek, retV]
          · have hch' : ¬ enc cur = .ptr (.obj k) := by rw [← hek]; simpa using hch
            sexec
            simp [lr, lrun, lstep, absEv, headLoc, Ctl.goesOn, PopI, h7, hk0, ← hek, hch, h1, h4]
            exact h5'

theorem pop_rcu_refines (fuel : Nat) (env : Env) (inp : List Val) (s : Nat) (cfg : Int) (ls : LState)
    (hs : env.vars "s" = some (.ptr (.obj s)))
    (hcfg : env.priv (.glob "CONFIG_RCU_EMIT_LEGACY_MB") = some (.int cfg))
    (hpc : ls.pc = .popLd) (hinp : ∀ v ∈ inp, (dec v).isSome) :
    ∃ out, exec fuel Gen.Src.«_cds_lfs_pop_rcu» env inp = .ok out ∧
      ∃ ls', lr .pop s ls out.events = some ls' ∧ Done out ls' := by
  sexec [Gen.Src.«_cds_lfs_pop_rcu»]
  generalize hE : iterate _ _ _ _ _ = r
  obtain ⟨o, rfl, evs, ls', hev, hl, hfin⟩ : ∃ o, r = .ok o ∧ ∃ evs ls', o.events = [] ++ evs ∧
      lr .pop s ls evs = some ls' ∧ (o.ctl = .fuel ∨ ∃ c, c.goesOn = false ∧
        PopR c o.env o.inp ls' ∧ o.ctl = c.afterLoop) := by
    rw [← hE]
    refine iterate_inv (lr .pop s) (lr_nil _ _) (lr_append _ _) _ (PopI s cfg) PopR ?_ fuel _ _ ls [] ?_
    · exact pop_rcu_body fuel s cfg _ (by simp [Gen.Src.«_cds_lfs_pop_rcu», block, firstLoop])
    · exact ⟨hs, hcfg, hinp, hpc⟩
  simp only [List.nil_append] at hev
  rcases hfin with hf | ⟨c, -, rfl | ⟨rfl, hidle⟩, hc⟩
  · exact ⟨o, rfl, ls', by rw [hev]; exact hl, .inr (.inl hf)⟩
  · exact ⟨o, rfl, ls', by rw [hev]; exact hl, .inl hc⟩
  · exact ⟨o, rfl, ls', by rw [hev]; exact hl, .inr (.inr ⟨hc, hidle⟩)⟩

end UrcuVerif.Src.LfsR
