import UrcuVerif.Gen.Src
import UrcuVerif.Src.StackExec
import UrcuVerif.Src.WqLocal
/-!
# Generated source IR of `src/workqueue.c` ⊑ thread-local projection of L2 (`Wq`): application-thread side

`urcu_workqueue_queue_work`, `wake_worker_thread` (+ `futex_wake_up`), `urcu_workqueue_pause_worker`,
`urcu_workqueue_resume_worker`, `urcu_workqueue_wait_completion`.

Addresses: the work queue is the object `L.W` (`&workqueue->flags` = `Loc.field L.W "flags"`, …,
`&workqueue->cbs_tail.p` = `Loc.field (Loc.field L.W "cbs_tail") "p"`); a `struct urcu_work` object `w` is L2's work item
`L.wid w`, its queue node `&w->next` is `Loc.field w "next"`; `L.C` is the completion a waiter waits for.

Abstraction of events (`absEvT L`), `some .bad` = rejected (no `tstep` accepts it), `none` = silent:

* `xchg &cbs_tail.p, &w->next` ↦ `xchgTail (wid w)` – L2's `enq`: the enqueue is atomic at the exchange of the tail
  (**queue oracle discipline**: L2 abstracts the wfcqueue as a list, justified by C10 / `Props/SrcQueue.lean`).
  The delayed store `old_tail->next = &w->next` is *silent* (L2 checks it at L1 only); it needs the exchanged value to
  be a pointer (`QwInp`, L2/C10 invariant "the tail is never NULL");
* `uatomic_inc(&qlen)` ↦ `incQlen`; loads of `flags` / `futex` ↦ `ldFl f` / `ldFutex v`; `store(&futex, 0)` ↦ `stFutex`;
  `futex(&futex, FUTEX_WAKE, 1)` ↦ `wake`; `or PAUSE` / `and ~PAUSE` / `or STOP` on `flags` ↦ `setPause` / `clrPause` /
  `setStop`; the completion's `uatomic_dec(&futex)`, loads of `barrier_count` / `futex`, `FUTEX_WAIT` and `errno` ↦ `c…`;
* silent: every fence / compiler barrier (`cmm_smp_mb()` at the head of `futex_wake_up` is folded by L2 into
  `ldFutex`, the one after `uatomic_dec` into `wcDec`, the legacy `mb` of the enqueue and
  `cmm_smp_mb__after_uatomic_or()` stand next to a locked RMW), `poll(NULL, 0, 1)` of the wait loops (L2 does not model
  the pause between two polls), `FUTEX_WAIT` returning non-zero (its outcome is the following `errno`);
* everything else (`urcu_die`, any other access) is rejected.
-/
set_option linter.unusedSimpArgs false
set_option linter.unusedVariables false
set_option maxRecDepth 4096
namespace UrcuVerif.Src.WqR
open UrcuVerif UrcuVerif.Src UrcuVerif.Wq WqL

structure Layout where
  /-- the `struct urcu_workqueue` -/
  W : Loc
  /-- `struct urcu_work` objects ↦ L2 work items -/
  wid : Loc → Option Nat
  /-- the `struct urcu_workqueue_completion` of `urcu_workqueue_wait_completion` / `_urcu_workqueue_wait_complete` -/
  C : Loc

def IsNat (v : Val) : Prop := ∃ n : Nat, v = .int n
def IsPtr (v : Val) : Prop := ∃ l : Loc, v = .ptr l
/-- a system call that did not fail -/
def IsRetOk (v : Val) : Prop := ∃ n : Int, 0 ≤ n ∧ v = .int n

def absEvT (L : Layout) : Event → Option TLabel
  | .fence _ => none
  | .xchg l new _ _ =>
    if l = .field (.field L.W "cbs_tail") "p" then
      (match new with
        | .ptr (.field w f) => if f = "next" then
            (match L.wid w with
              | some id => some (.xchgTail id)
              | none => some .bad)
          else some .bad
        | _ => some .bad)
    else some .bad
  | .st l v _ =>
    if l = .field L.W "futex" then (if v = .int 0 then some .stFutex else some .bad)
    else (match l with
      | .field _ f => if f = "next" then none else some .bad
      | _ => some .bad)
  | .ld l v _ =>
    if l = .field L.W "flags" then
      (match v with
        | .int n => if 0 ≤ n then some (.ldFl n.toNat) else some .bad
        | _ => some .bad)
    else if l = .field L.W "futex" then
      (match v with
        | .int n => some (.ldFutex n)
        | _ => some .bad)
    else if l = .field L.C "barrier_count" then
      (match v with
        | .int n => some (.cLdCount n)
        | _ => some .bad)
    else if l = .field L.C "futex" then
      (match v with
        | .int n => some (.cLdFutex n)
        | _ => some .bad)
    else some .bad
  | .rmw op l operand _ _ =>
    if l = .field L.W "qlen" then (if op = .uinc then some .incQlen else some .bad)
    else if l = .field L.W "flags" then
      (if op = .uor ∧ operand = .int 4 then some .setPause
       else if op = .uor ∧ operand = .int 2 then some .setStop
       else if op = .uand ∧ operand = .int 18446744073709551611 then some .clrPause
       else some .bad)
    else if l = .field L.C "futex" then (if op = .udec then some .cDecFutex else some .bad)
    else some .bad
  | .ext name args r =>
    if name = "futex_async" then
      (if args = [.ptr (.field L.W "futex"), .int 1, .int 1, .int 0, .int 0, .int 0] then some .wake
       else if args = [.ptr (.field L.C "futex"), .int 0, .int (-1), .int 0, .int 0, .int 0] then
         (if r = .int 0 then some .cWaitSleep else none)
       else some .bad)
    else if name = "errno" then
      (if r = .int 11 then some .cWaitEagain else if r = .int 4 then some .cWaitEintr else some .bad)
    else if name = "poll" then none
    else some .bad
  | .cas _ _ _ _ _ _ => some .bad

/-- replay of the abstraction of an event list on the local automaton -/
def tlr (L : Layout) (pc : TPc) (evs : List Event) : Option TPc := trun pc (evs.filterMap (absEvT L))

theorem tlr_nil (L : Layout) (pc : TPc) : tlr L pc [] = some pc := rfl
theorem tlr_append (L : Layout) (pc : TPc) (a b : List Event) :
    tlr L pc (a ++ b) = (tlr L pc a).bind (fun m => tlr L m b) := by
  simp [tlr, List.filterMap_append, trun_append]

/-! ## arithmetic of the flag tests -/

theorem band_nat (n m : Nat) : evalBin .band (.int (n : Int)) (.int (m : Int)) = .ok (.int ((n &&& m : Nat) : Int)) := by
  simp [evalBin]
theorem band_1 (n : Nat) : evalBin .band (.int (n : Int)) (.int 1) = .ok (.int ((n &&& 1 : Nat) : Int)) := band_nat n 1
theorem band_2 (n : Nat) : evalBin .band (.int (n : Int)) (.int 2) = .ok (.int ((n &&& 2 : Nat) : Int)) := band_nat n 2
theorem band_4 (n : Nat) : evalBin .band (.int (n : Int)) (.int 4) = .ok (.int ((n &&& 4 : Nat) : Int)) := band_nat n 4
theorem band_8 (n : Nat) : evalBin .band (.int (n : Int)) (.int 8) = .ok (.int ((n &&& 8 : Nat) : Int)) := band_nat n 8

theorem truthy_nat (n : Nat) : (Val.int (n : Int)).truthy = (n != 0) := by
  simp [Val.truthy]
theorem bit_def (f m : Nat) : bit f m = (f &&& m != 0) := rfl

/-! ## `wake_worker_thread(workqueue)` (with `futex_wake_up(&workqueue->futex)` inlined by the translator)

Oracle: the flags word; (not RT:) the futex word; (saw -1:) the result of FUTEX_WAKE. -/

/-- well-typed oracle of the wake path, `P` = what is required of the rest: the flags word is a non-negative integer,
FUTEX_WAKE does not fail (the source calls `urcu_die()` otherwise) -/
def WakeInp (P : List Val → Prop) : List Val → Prop
  | [] => True
  | f :: rest => ∃ n : Nat, f = .int n ∧
    (if bit n 1 = true then P rest else
      match rest with
      | [] => True
      | v :: rest2 =>
        if v = .int (-1) then
          (match rest2 with
            | [] => True
            | r :: rest3 => IsRetOk r ∧ P rest3)
        else P rest2)

/-- what a call of `wake_worker_thread` guarantees, from L2's `ldFlags k` -/
def WakePost (L : Layout) (k : K) (P : List Val → Prop) (priv : Loc → Option Val) (out : Out) : Prop :=
  (∀ l, l ≠ .field L.W "futex" → out.env.priv l = priv l) ∧
  ∃ pc', tlr L (.ldFlags k) out.events = some pc' ∧
    ((out.ctl = .blocked ∧ (pc' = .ldFlags k ∨ pc' = .ldFutex k ∨ pc' = .wake k)) ∨
     (out.ctl = .normal ∧ pc' = k.cont ∧ P out.inp))

theorem wake_worker_exec (L : Layout) (k : K) (P : List Val → Prop) {fuel : Nat} {env : Env} {inp : List Val}
    {r : Except String Out} (hE : exec fuel Gen.Src.«wake_worker_thread» env inp = r)
    (hw : env.vars "workqueue" = some (.ptr L.W)) (hi : WakeInp P inp) :
    ∃ out, r = .ok out ∧ WakePost L k P env.priv out := by
  subst hE
  cases inp with
  | nil =>
    sexec [Gen.Src.«wake_worker_thread», Gen.Src.«futex_wake_up», WakePost, tlr, trun]
  | cons f rest =>
    obtain ⟨n, rfl, hi⟩ := hi
    by_cases hrt : bit n 1 = true
    · rw [if_pos hrt] at hi
      have hrt' : ¬ (n &&& 1 = 0) := by simpa [bit_def] using hrt
      sexec [Gen.Src.«wake_worker_thread», Gen.Src.«futex_wake_up», WakePost, tlr, trun, band_1, truthy_nat,
        absEvT, tstep, hrt, List.filterMap_cons]
      exact hi
    · rw [if_neg hrt] at hi
      have hrt' : n &&& 1 = 0 := by simpa [bit_def] using hrt
      cases rest with
      | nil =>
        sexec [Gen.Src.«wake_worker_thread», Gen.Src.«futex_wake_up», WakePost, tlr, trun, band_1, truthy_nat,
          absEvT, tstep, hrt, List.filterMap_cons]
      | cons v rest2 =>
        simp only at hi
        by_cases hv : v = .int (-1)
        · subst hv
          rw [if_pos rfl] at hi
          cases rest2 with
          | nil =>
            sexec [Gen.Src.«wake_worker_thread», Gen.Src.«futex_wake_up», WakePost, tlr, trun, band_1, truthy_nat,
              absEvT, tstep, hrt, List.filterMap_cons]
          | cons r rest3 =>
            obtain ⟨⟨m, hm, rfl⟩, hi⟩ := hi
            have hm' : ¬ (m < 0) := by omega
            sexec [Gen.Src.«wake_worker_thread», Gen.Src.«futex_wake_up», WakePost, tlr, trun, band_1, truthy_nat,
              absEvT, tstep, hrt, List.filterMap_cons]
            exact hi
        · rw [if_neg hv] at hi
          cases v with
          | int x =>
            have hx : x ≠ -1 := fun h => hv (by rw [h])
            sexec [Gen.Src.«wake_worker_thread», Gen.Src.«futex_wake_up», WakePost, tlr, trun, band_1, truthy_nat,
              absEvT, tstep, hrt, List.filterMap_cons]
            exact hi
          | ptr x =>
            sexec [Gen.Src.«wake_worker_thread», Gen.Src.«futex_wake_up», WakePost, tlr, trun, band_1, truthy_nat,
              absEvT, tstep, hrt, List.filterMap_cons]

end UrcuVerif.Src.WqR
