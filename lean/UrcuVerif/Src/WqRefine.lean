import UrcuVerif.Gen.Src
import UrcuVerif.Src.StackExec
import UrcuVerif.Src.WqLocal
/-!
# Generated source IR of `src/workqueue.c` ⊑ thread-local projection of L2 (`Wq`): application-thread side

`urcu_workqueue_queue_work`, `wake_worker_thread` (+ `futex_wake_up`), `urcu_workqueue_pause_worker`,
`urcu_workqueue_resume_worker`.  (`absEvT` / `WqL.tstep` already carry the labels of `urcu_workqueue_wait_completion`;
its refinement theorem is not proved yet.)

Addresses: the work queue is the object `L.W` (`&workqueue->flags` = `Loc.field L.W "flags"`, …,
`&workqueue->cbs_tail.p` = `Loc.field (Loc.field L.W "cbs_tail") "p"`); a `struct urcu_work` object `w` is L2's work item
`L.wid w`, its queue node `&w->next` is `Loc.field w "next"`; `L.C` is the completion a waiter waits for.

Abstraction of events (`absEvT L`), `some .bad` = rejected (no `tstep` accepts it), `none` = silent:

* `xchg &cbs_tail.p, &w->next` ↦ `xchgTail (wid w)` – L2's `enq`: the enqueue is atomic at the exchange of the tail
  (**queue oracle discipline**: L2 abstracts the wfcqueue as a list, justified by C10 / `Props/SrcQueue.lean`).
  The delayed store `old_tail->next = &w->next` is *silent* (L2 checks it at L1 only); it needs the exchanged value to
  be a pointer (`QwInp`, L2/C10 invariant "the tail is never NULL");
* `uatomic_inc(&qlen)` ↦ `incQlen`; loads of `flags` / `futex` ↦ `ldFl f` / `ldFutex v`; `store(&futex, 0)` ↦ `stFutex`;
  `futex(&futex, FUTEX_WAKE, 1)` ↦ `wake`; `or PAUSE` / `and ~PAUSE` / `or STOP` on `flags` ↦ `setPause` / `clrPause` /
  `setStop`; the completion's `uatomic_dec(&futex)`, loads of `barrier_count` / `futex`, `FUTEX_WAIT` and `errno` ↦ `c…`;
* silent: every fence / compiler barrier (`cmm_smp_mb()` at the head of `futex_wake_up` is folded by L2 into
  `ldFutex`, the one after `uatomic_dec` into `wcDec`, the legacy `mb` of the enqueue and
  `cmm_smp_mb__after_uatomic_or()` stand next to a locked RMW), `poll(NULL, 0, 1)` of the wait loops (L2 does not model
  the pause between two polls), `FUTEX_WAIT` returning non-zero (its outcome is the following `errno`);
* everything else (`urcu_die`, any other access) is rejected.
-/
set_option linter.unusedSimpArgs false
set_option linter.unusedVariables false
set_option maxRecDepth 4096
namespace UrcuVerif.Src.WqR
open UrcuVerif UrcuVerif.Src UrcuVerif.Wq WqL

structure Layout where
  /-- the `struct urcu_workqueue` -/
  W : Loc
  /-- `struct urcu_work` objects ↦ L2 work items -/
  wid : Loc → Option Nat
  /-- the `struct urcu_workqueue_completion` of `urcu_workqueue_wait_completion` / `_urcu_workqueue_wait_complete` -/
  C : Loc

def IsNat (v : Val) : Prop := ∃ n : Nat, v = .int n
def IsPtr (v : Val) : Prop := ∃ l : Loc, v = .ptr l
/-- a system call that did not fail -/
def IsRetOk (v : Val) : Prop := ∃ n : Int, 0 ≤ n ∧ v = .int n

def absEvT (L : Layout) : Event → Option TLabel
  | .fence _ => none
  | .xchg l new _ _ =>
    if l = .field (.field L.W "cbs_tail") "p" then
      (match new with
        | .ptr (.field w f) => if f = "next" then
            (match L.wid w with
              | some id => some (.xchgTail id)
              | none => some .bad)
          else some .bad
        | _ => some .bad)
    else some .bad
  | .st l v _ =>
    if l = .field L.W "futex" then (if v = .int 0 then some .stFutex else some .bad)
    else (match l with
      | .field _ f => if f = "next" then none else some .bad
      | _ => some .bad)
  | .ld l v _ =>
    if l = .field L.W "flags" then
      (match v with
        | .int n => if 0 ≤ n then some (.ldFl n.toNat) else some .bad
        | _ => some .bad)
    else if l = .field L.W "futex" then
      (match v with
        | .int n => some (.ldFutex n)
        | _ => some .bad)
    else if l = .field L.C "barrier_count" then
      (match v with
        | .int n => some (.cLdCount n)
        | _ => some .bad)
    else if l = .field L.C "futex" then
      (match v with
        | .int n => some (.cLdFutex n)
        | _ => some .bad)
    else some .bad
  | .rmw op l operand _ _ =>
    if l = .field L.W "qlen" then (if op = .uinc then some .incQlen else some .bad)
    else if l = .field L.W "flags" then
      (if op = .uor ∧ operand = .int 4 then some .setPause
       else if op = .uor ∧ operand = .int 2 then some .setStop
       else if op = .uand ∧ operand = .int 18446744073709551611 then some .clrPause
       else some .bad)
    else if l = .field L.C "futex" then (if op = .udec then some .cDecFutex else some .bad)
    else some .bad
  | .ext name args r =>
    if name = "futex_async" then
      (if args = [.ptr (.field L.W "futex"), .int 1, .int 1, .int 0, .int 0, .int 0] then some .wake
       else if args = [.ptr (.field L.C "futex"), .int 0, .int (-1), .int 0, .int 0, .int 0] then
         (if r = .int 0 then some .cWaitSleep else none)
       else some .bad)
    else if name = "errno" then
      (if r = .int 11 then some .cWaitEagain else if r = .int 4 then some .cWaitEintr else some .bad)
    else if name = "poll" then none
    else some .bad
  | .cas _ _ _ _ _ _ => some .bad

/-- replay of the abstraction of an event list on the local automaton -/
def tlr (L : Layout) (pc : TPc) (evs : List Event) : Option TPc := trun pc (evs.filterMap (absEvT L))

theorem tlr_nil (L : Layout) (pc : TPc) : tlr L pc [] = some pc := rfl
theorem tlr_append (L : Layout) (pc : TPc) (a b : List Event) :
    tlr L pc (a ++ b) = (tlr L pc a).bind (fun m => tlr L m b) := by
  simp [tlr, List.filterMap_append, trun_append]

theorem tlr_cons (L : Layout) (pc : TPc) (e : Event) (evs : List Event) :
    tlr L pc (e :: evs) = (match absEvT L e with
      | none => tlr L pc evs
      | some l => (tstep pc l).bind (fun m => tlr L m evs)) := by
  unfold tlr
  rw [List.filterMap_cons]
  cases absEvT L e with
  | none => rfl
  | some l =>
    simp only [trun]
    cases tstep pc l <;> rfl

/-! ## arithmetic of the flag tests -/

/-- the value of `f & m` (kept folded: `simp` must not normalise `n &&& 1` to `n % 2`) -/
def bandV (n m : Nat) : Val := .int ((n &&& m : Nat) : Int)

theorem band_nat (n m : Nat) : evalBin .band (.int (n : Int)) (.int (m : Int)) = .ok (bandV n m) := by
  simp [evalBin, bandV]
theorem band_1 (n : Nat) : evalBin .band (.int (n : Int)) (.int 1) = .ok (bandV n 1) := band_nat n 1
theorem band_2 (n : Nat) : evalBin .band (.int (n : Int)) (.int 2) = .ok (bandV n 2) := band_nat n 2
theorem band_4 (n : Nat) : evalBin .band (.int (n : Int)) (.int 4) = .ok (bandV n 4) := band_nat n 4
theorem band_8 (n : Nat) : evalBin .band (.int (n : Int)) (.int 8) = .ok (bandV n 8) := band_nat n 8

theorem bandV_truthy (n m : Nat) : (bandV n m).truthy = bit n m := by
  unfold bandV bit Val.truthy
  generalize n &&& m = k
  cases k with
  | zero => rfl
  | succ j => simp; omega
theorem bandV_eq_zero (n m : Nat) : (bandV n m = Val.int 0) = (bit n m = false) := by
  unfold bandV bit
  generalize n &&& m = k
  cases k with
  | zero => simp
  | succ j => simp; omega

theorem evalBin_eq (a b : Val) : evalBin .eq a b = .ok (boolV (a = b)) := by cases a <;> cases b <;> rfl
theorem evalBin_ne (a b : Val) : evalBin .ne a b = .ok (boolV (a ≠ b)) := by cases a <;> cases b <;> rfl
theorem evalBin_lt (a b : Int) : evalBin .lt (.int a) (.int b) = .ok (boolV (a < b)) := rfl
theorem evalBin_add (a b : Int) : evalBin .add (.int a) (.int b) = .ok (.int (a + b)) := rfl

theorem truthy_int (n : Int) : (Val.int n).truthy = (n != 0) := rfl
theorem truthy_ptr (l : Loc) : (Val.ptr l).truthy = true := rfl

/-- symbolic execution as `sexec`, but `evalBin` stays folded (`band_*`, `evalBin_*` are used instead) -/
syntax "wexec" " [" Lean.Parser.Tactic.simpLemma,* "]" : tactic
macro_rules
  | `(tactic| wexec [$ls,*]) =>
    `(tactic| simp [block, exec_skip, exec_seq, exec_assign, exec_pstore, exec_ifte, exec_loop, exec_brk, exec_cont,
        exec_prim, exec_assertDbg, exec_ret_none, exec_ret_some, exec_call, seqPost, callPost,
        eval, evalArgs, execPrim, asLoc, Env.setVar, Env.setPriv, setDst, bind, Except.bind,
        truthy_int, truthy_ptr, bindParams, evalUn, boolV, evalBin_eq, evalBin_ne, evalBin_lt, evalBin_add,
        band_1, band_2, band_4, band_8, bandV_truthy, bandV_eq_zero, List.filterMap_cons, *, $ls,*])

/-! ## `wake_worker_thread(workqueue)` (with `futex_wake_up(&workqueue->futex)` inlined by the translator)

Oracle: the flags word; (not RT:) the futex word; (saw -1:) the result of FUTEX_WAKE. -/

/-- well-typed oracle of the wake path, `P` = what is required of the rest: the flags word is a non-negative integer,
FUTEX_WAKE does not fail (the source calls `urcu_die()` otherwise) -/
def WakeInp (P : List Val → Prop) : List Val → Prop
  | [] => True
  | f :: rest => ∃ n : Nat, f = .int n ∧
    (if bit n 1 = true then P rest else
      match rest with
      | [] => True
      | v :: rest2 => ∃ x : Int, v = .int x ∧
        if x = -1 then
          (match rest2 with
            | [] => True
            | r :: rest3 => IsRetOk r ∧ P rest3)
        else P rest2)

/-- what a call of `wake_worker_thread` guarantees, from L2's `ldFlags k` -/
def WakePost (L : Layout) (k : K) (P : List Val → Prop) (priv : Loc → Option Val) (out : Out) : Prop :=
  (∀ l, l ≠ .field L.W "futex" → out.env.priv l = priv l) ∧
  ∃ pc', tlr L (.ldFlags k) out.events = some pc' ∧
    ((out.ctl = .blocked ∧ (pc' = .ldFlags k ∨ pc' = .ldFutex k ∨ pc' = .wake k)) ∨
     (out.ctl = .normal ∧ pc' = k.cont ∧ P out.inp))

theorem wake_worker_exec (L : Layout) (k : K) (P : List Val → Prop) {fuel : Nat} {env : Env} {inp : List Val}
    {r : Except String Out} (hE : exec fuel Gen.Src.«wake_worker_thread» env inp = r)
    (hw : env.vars "workqueue" = some (.ptr L.W)) (hi : WakeInp P inp) :
    ∃ out, r = .ok out ∧ WakePost L k P env.priv out := by
  subst hE
  cases inp with
  | nil =>
    wexec [Gen.Src.«wake_worker_thread», Gen.Src.«futex_wake_up», WakePost, tlr, trun]
  | cons f rest =>
    obtain ⟨n, rfl, hi⟩ := hi
    by_cases hrt : bit n 1 = true
    · rw [if_pos hrt] at hi
      wexec [Gen.Src.«wake_worker_thread», Gen.Src.«futex_wake_up», WakePost, tlr, trun,
        absEvT, tstep, hrt] <;>
              try (intro l h1 h2; exact absurd h2 h1)
    · rw [if_neg hrt] at hi
      cases rest with
      | nil =>
        wexec [Gen.Src.«wake_worker_thread», Gen.Src.«futex_wake_up», WakePost, tlr, trun,
          absEvT, tstep, hrt] <;>
              try (intro l h1 h2; exact absurd h2 h1)
      | cons v rest2 =>
        obtain ⟨x, rfl, hi⟩ := hi
        by_cases hx : x = -1
        · subst hx
          rw [if_pos rfl] at hi
          cases rest2 with
          | nil =>
            wexec [Gen.Src.«wake_worker_thread», Gen.Src.«futex_wake_up», WakePost, tlr, trun,
              absEvT, tstep, hrt] <;>
              try (intro l h1 h2; exact absurd h2 h1)
          | cons r rest3 =>
            obtain ⟨⟨m, hm, rfl⟩, hi⟩ := hi
            have hm' : ¬ (m < 0) := by omega
            wexec [Gen.Src.«wake_worker_thread», Gen.Src.«futex_wake_up», WakePost, tlr, trun,
              absEvT, tstep, hrt] <;>
              try (intro l h1 h2; exact absurd h2 h1)
        · rw [if_neg hx] at hi
          wexec [Gen.Src.«wake_worker_thread», Gen.Src.«futex_wake_up», WakePost, tlr, trun,
            absEvT, tstep, hrt] <;>
              try (intro l h1 h2; exact absurd h2 h1)

/-! ## `urcu_workqueue_queue_work(workqueue, work, func)` -/

/-- well-typed oracle: the old tail returned by the exchange (a pointer – `old_tail->next` is stored to; L2 / C10
invariant "the tail is never NULL": **queue oracle discipline**), the result of `uatomic_inc` (ignored), the wake path -/
def QwInp (P : List Val → Prop) : List Val → Prop
  | [] => True
  | o :: rest => IsPtr o ∧
    match rest with
    | [] => True
    | _ :: rest2 => WakeInp P rest2

/-- what a call of `urcu_workqueue_queue_work` guarantees, from L2's `enq id k` (i.e. after the entry label `qCall` /
`qcInc`): `work->func` holds `func` (private until the enqueue), the events are `enq ; inc ; ldFlags ; [ldFutex ;
[stFutex ; wake]]`, a completed call is at the continuation of the wake path -/
def QwPost (L : Layout) (id : Nat) (k : K) (P : List Val → Prop) (w : Loc) (fv : Val) (out : Out) : Prop :=
  (out.ctl = .normal → out.env.priv (.field w "func") = some fv) ∧
  ∃ pc', tlr L (.enq id k) out.events = some pc' ∧
    ((out.ctl = .blocked ∧ (pc' = .enq id k ∨ pc' = .inc k ∨ pc' = .ldFlags k ∨ pc' = .ldFutex k ∨ pc' = .wake k)) ∨
     (out.ctl = .normal ∧ pc' = k.cont ∧ P out.inp))

theorem queue_work_exec (L : Layout) (k : K) (P : List Val → Prop) {fuel : Nat} {env : Env} {inp : List Val}
    {r : Except String Out} (w : Loc) (id : Nat) (fv : Val) (mbv : Int)
    (hE : exec fuel Gen.Src.«urcu_workqueue_queue_work» env inp = r)
    (hw : env.vars "workqueue" = some (.ptr L.W)) (hwk : env.vars "work" = some (.ptr w)) (hid : L.wid w = some id)
    (hf : env.vars "func" = some fv) (hcfg : env.priv (.glob "CONFIG_RCU_EMIT_LEGACY_MB") = some (.int mbv))
    (hi : QwInp P inp) :
    ∃ out, r = .ok out ∧ QwPost L id k P w fv out := by
  subst hE
  cases inp with
  | nil =>
    by_cases hm : mbv = 0 <;>
      wexec [Gen.Src.«urcu_workqueue_queue_work», Gen.Src.«_cds_wfcq_node_init», Gen.Src.«_cds_wfcq_enqueue»,
        Gen.Src.«___cds_wfcq_append», QwPost, tlr, trun, absEvT]
  | cons o rest =>
    obtain ⟨⟨ol, rfl⟩, hi⟩ := hi
    cases rest with
    | nil =>
      by_cases hm : mbv = 0 <;>
        wexec [Gen.Src.«urcu_workqueue_queue_work», Gen.Src.«_cds_wfcq_node_init», Gen.Src.«_cds_wfcq_enqueue»,
          Gen.Src.«___cds_wfcq_append», QwPost, tlr, trun, absEvT, tstep]
    | cons u rest2 =>
      simp only at hi
      by_cases hm : mbv = 0 <;>
        wexec [Gen.Src.«urcu_workqueue_queue_work», Gen.Src.«_cds_wfcq_node_init», Gen.Src.«_cds_wfcq_enqueue»,
          Gen.Src.«___cds_wfcq_append»]
      all_goals
        generalize hE : exec fuel Gen.Src.«wake_worker_thread» _ _ = r
        obtain ⟨out, rfl, hp1, pc', hpc', hcase⟩ := wake_worker_exec L k P hE (by simp) hi
        rcases out with ⟨ev, en, ip, ctl⟩
        rcases hcase with ⟨rfl, hb⟩ | ⟨rfl, rfl, hP⟩ <;>
          simp_all [QwPost, tlr_cons, absEvT, tstep]

/-! ## loops -/

/-- `iterate_inv` (`Src/StackExec.lean`) that also returns the invariant when the loop budget runs out -/
theorem iterate_inv' {σ : Type} (lr : σ → List Event → Option σ)
    (lr_nil : ∀ s, lr s [] = some s)
    (lr_append : ∀ s a b, lr s (a ++ b) = (lr s a).bind (fun m => lr m b))
    (body : Env → List Val → Except String Out)
    (I : Env → List Val → σ → Prop) (R : Ctl → Env → List Val → σ → Prop)
    (hbody : ∀ env inp ls, I env inp ls → ∃ o, body env inp = .ok o ∧ ∃ ls', lr ls o.events = some ls' ∧
      (if o.ctl.goesOn then I o.env o.inp ls' else R o.ctl o.env o.inp ls')) :
    ∀ n env inp ls acc, I env inp ls → ∃ out, iterate body n env inp acc = .ok out ∧
      ∃ evs ls', out.events = acc ++ evs ∧ lr ls evs = some ls' ∧
        ((out.ctl = .fuel ∧ I out.env out.inp ls') ∨
          ∃ c, c.goesOn = false ∧ R c out.env out.inp ls' ∧ out.ctl = c.afterLoop) := by
  intro n
  induction n with
  | zero =>
    intro env inp ls acc hI
    exact ⟨_, rfl, [], ls, by simp, lr_nil ls, .inl ⟨rfl, hI⟩⟩
  | succ n ih =>
    intro env inp ls acc hI
    obtain ⟨o, ho, ls1, hl1, hpost⟩ := hbody env inp ls hI
    rcases o with ⟨oev, oenv, oinp, octl⟩
    simp only [iterate, ho, bind, Except.bind]
    cases octl with
    | normal =>
      simp only [Ctl.goesOn, if_true] at hpost
      obtain ⟨out, hout, evs, ls2, hev, hl2, hfin⟩ := ih oenv oinp ls1 (acc ++ oev) hpost
      refine ⟨out, hout, oev ++ evs, ls2, by simp [hev], ?_, hfin⟩
      simp [lr_append, hl1, hl2]
    | cont =>
      simp only [Ctl.goesOn, if_true] at hpost
      obtain ⟨out, hout, evs, ls2, hev, hl2, hfin⟩ := ih oenv oinp ls1 (acc ++ oev) hpost
      refine ⟨out, hout, oev ++ evs, ls2, by simp [hev], ?_, hfin⟩
      simp [lr_append, hl1, hl2]
    | brk =>
      simp only [Ctl.goesOn] at hpost
      exact ⟨_, rfl, oev, ls1, rfl, hl1, .inr ⟨.brk, rfl, by simpa using hpost, rfl⟩⟩
    | ret v =>
      simp only [Ctl.goesOn] at hpost
      exact ⟨_, rfl, oev, ls1, rfl, hl1, .inr ⟨.ret v, rfl, by simpa using hpost, rfl⟩⟩
    | blocked =>
      simp only [Ctl.goesOn] at hpost
      exact ⟨_, rfl, oev, ls1, rfl, hl1, .inr ⟨.blocked, rfl, by simpa using hpost, rfl⟩⟩
    | fuel =>
      simp only [Ctl.goesOn] at hpost
      exact ⟨_, rfl, oev, ls1, rfl, hl1, .inr ⟨.fuel, rfl, by simpa using hpost, rfl⟩⟩

/-- oracle of a poll loop on the flags: flags word (a non-negative integer), result of `poll` (ignored), … -/
def FlagLoopInp : List Val → Prop
  | [] => True
  | [f] => IsNat f
  | f :: _ :: rest => IsNat f ∧ FlagLoopInp rest

/-! ## `urcu_workqueue_pause_worker(workqueue)` -/

/-- body of the loop `while ((uatomic_read(&workqueue->flags) & URCU_WORKQUEUE_PAUSED) == 0) poll(NULL, 0, 1)` -/
def pauseBody : Stmt := (firstLoop Gen.Src.«urcu_workqueue_pause_worker»).getD .skip

theorem pause_body (L : Layout) (fuel : Nat) (env : Env) (inp : List Val) (pc : TPc)
    (hI : env.vars "workqueue" = some (.ptr L.W) ∧ FlagLoopInp inp ∧ pc = .pWait) :
    ∃ o, exec fuel pauseBody env inp = .ok o ∧ ∃ pc', tlr L pc o.events = some pc' ∧
      (if o.ctl.goesOn then o.env.vars "workqueue" = some (.ptr L.W) ∧ FlagLoopInp o.inp ∧ pc' = .pWait
       else (o.ctl = .brk ∧ pc' = .holding) ∨ (o.ctl = .blocked ∧ pc' = .pWait)) := by
  obtain ⟨hw, hi, rfl⟩ := hI
  cases inp with
  | nil =>
    wexec [pauseBody, firstLoop, Gen.Src.«urcu_workqueue_pause_worker», tlr, trun, Ctl.goesOn]
  | cons f rest =>
    cases rest with
    | nil =>
      obtain ⟨n, rfl⟩ := hi
      by_cases hb : bit n 8 = true <;>
        wexec [pauseBody, firstLoop, Gen.Src.«urcu_workqueue_pause_worker», tlr, trun, Ctl.goesOn, absEvT, tstep, hb]
    | cons p rest =>
      obtain ⟨⟨n, rfl⟩, hi⟩ := hi
      by_cases hb : bit n 8 = true <;>
        wexec [pauseBody, firstLoop, Gen.Src.«urcu_workqueue_pause_worker», tlr, trun, Ctl.goesOn, absEvT, tstep, hb]

/-- well-typed oracle: result of `uatomic_or` (ignored), the wake path, the poll loop -/
def PauseInp : List Val → Prop
  | [] => True
  | _ :: rest => WakeInp FlagLoopInp rest

/-- from L2's `idle` (the API contract of `pOr` is a global guard, `WqL.tGuard`): `pOr ; ldFlags ; [ldFutex ; [stFutex ;
wake]] ;` stutter loads `; pSee`.  A completed call is at `holding`: the worker's PAUSED flag was seen. -/
def PausePost (L : Layout) (out : Out) : Prop :=
  ∃ pc', tlr L .idle out.events = some pc' ∧
    ((out.ctl = .blocked ∧ (pc' = .idle ∨ pc' = .ldFlags .pause ∨ pc' = .ldFutex .pause ∨ pc' = .wake .pause ∨ pc' = .pWait)) ∨
     (out.ctl = .fuel ∧ pc' = .pWait) ∨
     (out.ctl = .normal ∧ pc' = .holding))

theorem pause_worker_exec (L : Layout) (fuel : Nat) (env : Env) (inp : List Val)
    (hw : env.vars "workqueue" = some (.ptr L.W)) (hi : PauseInp inp) :
    ∃ out, exec fuel Gen.Src.«urcu_workqueue_pause_worker» env inp = .ok out ∧ PausePost L out := by
  rw [show Gen.Src.«urcu_workqueue_pause_worker» = Stmt.seq _ (.seq _ (.seq _ (.loop pauseBody))) from rfl]
  cases inp with
  | nil => wexec [PausePost, tlr, trun]
  | cons u rest =>
    simp only [PauseInp] at hi
    wexec []
    generalize hE : exec fuel Gen.Src.«wake_worker_thread» _ _ = r
    obtain ⟨out, rfl, hp1, pc', hpc', hcase⟩ := wake_worker_exec L .pause FlagLoopInp hE (by simp) hi
    rcases out with ⟨ev, en, ip, ctl⟩
    rcases hcase with ⟨rfl, hb⟩ | ⟨rfl, rfl, hP⟩
    · simp_all [PausePost, tlr_cons, absEvT, tstep]
      rcases hb with rfl | rfl | rfl <;> simp
    · simp only at hP hpc' ⊢
      obtain ⟨out, ho, evs, pc2, hev, hl, hfin⟩ :=
        iterate_inv' (tlr L) (tlr_nil L) (tlr_append L) (exec fuel pauseBody)
          (fun env inp pc => env.vars "workqueue" = some (.ptr L.W) ∧ FlagLoopInp inp ∧ pc = .pWait)
          (fun c _ _ pc => (c = .brk ∧ pc = .holding) ∨ (c = .blocked ∧ pc = .pWait))
          (pause_body L fuel) fuel ⟨env.vars, en.priv⟩ ip .pWait [] ⟨hw, hP, rfl⟩
      rcases out with ⟨oev, oen, oip, octl⟩
      simp only [List.nil_append] at hev
      subst hev
      simp only [ho]
      rcases hfin with ⟨rfl, -, -, rfl⟩ | ⟨c, -, hR, rfl⟩
      · simp_all [PausePost, tlr_cons, tlr_append, absEvT, tstep, K.cont]
      · rcases hR with ⟨rfl, rfl⟩ | ⟨rfl, rfl⟩ <;>
          simp_all [PausePost, tlr_cons, tlr_append, absEvT, tstep, K.cont, Ctl.afterLoop]

/-! ## `urcu_workqueue_resume_worker(workqueue)` -/

/-- body of the loop `while ((uatomic_read(&workqueue->flags) & URCU_WORKQUEUE_PAUSED) != 0) poll(NULL, 0, 1)` -/
def resumeBody : Stmt := (firstLoop Gen.Src.«urcu_workqueue_resume_worker»).getD .skip

theorem resume_body (L : Layout) (fuel : Nat) (env : Env) (inp : List Val) (pc : TPc)
    (hI : env.vars "workqueue" = some (.ptr L.W) ∧ FlagLoopInp inp ∧ pc = .rWait) :
    ∃ o, exec fuel resumeBody env inp = .ok o ∧ ∃ pc', tlr L pc o.events = some pc' ∧
      (if o.ctl.goesOn then o.env.vars "workqueue" = some (.ptr L.W) ∧ FlagLoopInp o.inp ∧ pc' = .rWait
       else (o.ctl = .brk ∧ pc' = .idle) ∨ (o.ctl = .blocked ∧ pc' = .rWait)) := by
  obtain ⟨hw, hi, rfl⟩ := hI
  cases inp with
  | nil =>
    wexec [resumeBody, firstLoop, Gen.Src.«urcu_workqueue_resume_worker», tlr, trun, Ctl.goesOn]
  | cons f rest =>
    cases rest with
    | nil =>
      obtain ⟨n, rfl⟩ := hi
      by_cases hb : bit n 8 = true <;>
        wexec [resumeBody, firstLoop, Gen.Src.«urcu_workqueue_resume_worker», tlr, trun, Ctl.goesOn, absEvT, tstep, hb]
    | cons p rest =>
      obtain ⟨⟨n, rfl⟩, hi⟩ := hi
      by_cases hb : bit n 8 = true <;>
        wexec [resumeBody, firstLoop, Gen.Src.«urcu_workqueue_resume_worker», tlr, trun, Ctl.goesOn, absEvT, tstep, hb]

/-- well-typed oracle: result of `uatomic_and` (ignored), the poll loop -/
def ResumeInp : List Val → Prop
  | [] => True
  | _ :: rest => FlagLoopInp rest

/-- from L2's `holding`: `rAnd ;` stutter loads `; rSee`.  A completed call is at `idle`: PAUSED was seen clear. -/
def ResumePost (L : Layout) (out : Out) : Prop :=
  ∃ pc', tlr L .holding out.events = some pc' ∧
    ((out.ctl = .blocked ∧ (pc' = .holding ∨ pc' = .rWait)) ∨ (out.ctl = .fuel ∧ pc' = .rWait) ∨
     (out.ctl = .normal ∧ pc' = .idle))

theorem resume_worker_exec (L : Layout) (fuel : Nat) (env : Env) (inp : List Val)
    (hw : env.vars "workqueue" = some (.ptr L.W)) (hi : ResumeInp inp) :
    ∃ out, exec fuel Gen.Src.«urcu_workqueue_resume_worker» env inp = .ok out ∧ ResumePost L out := by
  rw [show Gen.Src.«urcu_workqueue_resume_worker» = Stmt.seq _ (.loop resumeBody) from rfl]
  cases inp with
  | nil => wexec [ResumePost, tlr, trun]
  | cons u rest =>
    simp only [ResumeInp] at hi
    wexec []
    obtain ⟨out, ho, evs, pc2, hev, hl, hfin⟩ :=
      iterate_inv' (tlr L) (tlr_nil L) (tlr_append L) (exec fuel resumeBody)
        (fun env inp pc => env.vars "workqueue" = some (.ptr L.W) ∧ FlagLoopInp inp ∧ pc = .rWait)
        (fun c _ _ pc => (c = .brk ∧ pc = .idle) ∨ (c = .blocked ∧ pc = .rWait))
        (resume_body L fuel) fuel env rest .rWait [] ⟨hw, hi, rfl⟩
    rcases out with ⟨oev, oen, oip, octl⟩
    simp only [List.nil_append] at hev
    subst hev
    simp only [ho]
    rcases hfin with ⟨rfl, -, -, rfl⟩ | ⟨c, -, hR, rfl⟩
    · simp_all [ResumePost, tlr_cons, tlr_append, absEvT, tstep]
    · rcases hR with ⟨rfl, rfl⟩ | ⟨rfl, rfl⟩ <;>
        simp_all [ResumePost, tlr_cons, tlr_append, absEvT, tstep, Ctl.afterLoop]

end UrcuVerif.Src.WqR
