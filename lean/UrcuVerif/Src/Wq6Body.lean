import UrcuVerif.Src.Wq5Body
/-!
# `workqueue_thread()`: one whole loop body (statements 0–12) in the `Triple` / `PT` logic

* statements 0–1: the inlined `set_thread_cpu_affinity(workqueue)` under the side condition `workqueue->cpu_affinity < 0`
  (returns 0 at once, no event) and the `if (ret) urcu_die(errno)` after it (`affinity_PT`);
* statements 2–3: the PAUSE branch as a triple (`pause_PT`): load of the flags (L2 `wTop`); if PAUSE: `worker_before_pause`
  hook, `uatomic_or(PAUSED)` (`wPause`), the poll loop (`wSeeResume` when PAUSE is seen clear), `uatomic_and(~PAUSED)`
  (`wUnpause`), `worker_after_resume` hook; from `top` to `splice`;
* `body_PT`: statements 0–12 = the whole generated loop body `wBody`, from L2's `top`: a completed body is back at `top`, a
  `break` is at `exitSt` (`dead` if real-time).
-/
set_option linter.unusedSimpArgs false
set_option linter.unusedVariables false
set_option maxRecDepth 8192
namespace UrcuVerif.Src.WqR
open UrcuVerif UrcuVerif.Src UrcuVerif.Wq WqL
open UrcuVerif.Src.Wq3 (PT Rp)

/-- statements 0–1 under `cpu_affinity < 0` -/
theorem affinity_PT (L : Layout) (a : Int) (ha : a < 0) (rtv : Val) (ls0 : WLState) (fuel : Nat) :
    PT (wRp L) fuel (.seq (seqNth 0 wBody) (seqNth 1 wBody))
      (fun e l => e.vars "workqueue" = some (.ptr L.W) ∧ e.vars "rt" = some rtv ∧
        e.priv (.field L.W "cpu_affinity") = some (.int a) ∧ l = ls0)
      (fun c e l => c = .normal ∧ e.vars "workqueue" = some (.ptr L.W) ∧ e.vars "rt" = some rtv ∧ l = ls0) := by
  intro env inp ls o ⟨hw, hr, hp, hl⟩ hE hok
  subst hl
  rw [show seqNth 0 wBody = Stmt.call (some "_t4") ["crdp"] [.var "workqueue"]
      (.seq (.ifte (.bin .lt (.pload (.fieldAddr (.var "crdp") "cpu_affinity")) (.lit 0)) (.ret (some (.lit 0))) .skip) _)
    from rfl, show seqNth 1 wBody = Stmt.ifte (.var "_t4") _ .skip from rfl] at hE
  wexec_at hE [hw, hp, ha]
  subst hE
  exact ⟨_, wlr_nil L _, rfl, by simp [hw], by simp [hr], rfl⟩

/-- one iteration of `while (uatomic_read(&workqueue->flags) & URCU_WORKQUEUE_PAUSE) poll(NULL, 0, 1)` -/
theorem paused_body_PT (L : Layout) (cnt : Nat) (rt : Bool) (rtv : Val) (fuel : Nat) :
    PT (wRp L) fuel wPausedBody
      (fun e l => e.vars "workqueue" = some (.ptr L.W) ∧ e.vars "rt" = some rtv ∧ l = ⟨.at .paused, cnt, rt⟩)
      (fun c e l => if c.goesOn then
          (e.vars "workqueue" = some (.ptr L.W) ∧ e.vars "rt" = some rtv ∧ l = ⟨.at .paused, cnt, rt⟩)
        else ((c = .brk ∧ e.vars "workqueue" = some (.ptr L.W) ∧ e.vars "rt" = some rtv ∧ l = ⟨.at .unpausing, cnt, rt⟩) ∨
          c = .blocked)) := by
  intro env inp ls o ⟨hw, hr, hl⟩ hE hok
  subst hl
  rw [show wPausedBody = Stmt.seq (.prim (some "_t7") .uload [.fieldAddr (.var "workqueue") "flags", .cst "CMM_RELAXED" 0])
    (.ifte (.bin .ne (.bin .band (.var "_t7") (.cst "URCU_WORKQUEUE_PAUSE" 4)) (.lit 0))
      (.prim none (.ext "poll") [.null, .lit 0, .lit 1]) .brk) from rfl] at hE
  rcases inp with _ | ⟨v, r1⟩
  · wexec_at hE [hw]; subst hE; w5_abs []
  · cases v with
    | ptr p => wexec_at hE [hw, evalBin]
    | int n =>
      by_cases hn : 0 ≤ n
      · obtain ⟨f, rfl⟩ : ∃ f : Nat, n = (f : Int) := ⟨n.toNat, by omega⟩
        by_cases hb : bit f 4 = true
        · rcases r1 with _ | ⟨u, r2⟩
          · wexec_at hE [hw, hb]; subst hE; w5_abs [hb]
          · wexec_at hE [hw, hb]; subst hE; w5_abs [hb, hw, hr]
        · wexec_at hE [hw, hb]; subst hE; w5_abs [hb, hw, hr]
      · wexec_at hE [hw, evalBin, hn]

/-- statements 2–3: the PAUSE branch, from `top` to `splice` -/
theorem pause_PT (L : Layout) (cnt : Nat) (rt : Bool) (rtv : Val) (fuel : Nat) :
    PT (wRp L) fuel (.seq (seqNth 2 wBody) (seqNth 3 wBody))
      (fun e l => e.vars "workqueue" = some (.ptr L.W) ∧ e.vars "rt" = some rtv ∧ l = ⟨.at .top, cnt, rt⟩)
      (fun c e l => (c = .normal ∧ e.vars "workqueue" = some (.ptr L.W) ∧ e.vars "rt" = some rtv ∧
        l = ⟨.at .splice, cnt, rt⟩) ∨ c = .blocked ∨ c = .fuel) := by
  rw [show seqNth 2 wBody = Stmt.prim (some "_t6") .uload [.fieldAddr (.var "workqueue") "flags", .cst "CMM_RELAXED" 0]
    from rfl,
    show seqNth 3 wBody = Stmt.ifte (.bin .band (.var "_t6") (.cst "URCU_WORKQUEUE_PAUSE" 4))
      (.seq (hookS "worker_before_pause_fct" "(*worker_before_pause_fct)")
        (.seq (.prim none .barrier [])
          (.seq (.prim none .uor [.fieldAddr (.var "workqueue") "flags", .cst "URCU_WORKQUEUE_PAUSED" 8, .cst "CMM_RELAXED" 0])
            (.seq (.loop wPausedBody)
              (.seq (.prim none .uand [.fieldAddr (.var "workqueue") "flags",
                  .cst "NOT_URCU_WORKQUEUE_PAUSED" 18446744073709551607, .cst "CMM_SEQ_CST" 5])
                (.seq (.prim none .barrier []) (hookS "worker_after_resume_fct" "(*worker_after_resume_fct)")))))))
      .skip from rfl]
  refine PT.seq (Mid := fun e l => e.vars "workqueue" = some (.ptr L.W) ∧ e.vars "rt" = some rtv ∧
      ∃ f : Nat, e.vars "_t6" = some (.int f) ∧ l = ⟨.at (if bit f 4 = true then .pausing else .splice), cnt, rt⟩) ?_
    (PT.ifte ?_ ?_)
  · intro env inp ls o ⟨hw, hr, hl⟩ hE hok
    subst hl
    rcases inp with _ | ⟨v, r1⟩
    · wexec_at hE [hw]; subst hE; w5_abs []
    · cases v with
      | ptr p => wexec_at hE [hw]; subst hE; simp [wRp, evOkW] at hok
      | int n =>
        by_cases hn : 0 ≤ n
        · obtain ⟨f, rfl⟩ : ∃ f : Nat, n = (f : Int) := ⟨n.toNat, by omega⟩
          wexec_at hE [hw]; subst hE
          w5_abs [hw, hr]
          exact ⟨f, rfl, rfl⟩
        · wexec_at hE [hw]; subst hE; simp [wRp, evOkW, hn] at hok
  · -- PAUSE is set
    refine PT.conseq (Pre := fun e l => e.vars "workqueue" = some (.ptr L.W) ∧ e.vars "rt" = some rtv ∧
      l = ⟨.at .pausing, cnt, rt⟩) ?_ ?_ (fun _ _ _ h => h)
    · refine PT.seq (Mid := fun e l => e.vars "workqueue" = some (.ptr L.W) ∧ e.vars "rt" = some rtv ∧
          l = ⟨.at .pausing, cnt, rt⟩)
        ((hook' L fuel _ _ (by intro a r; simp [absEvW, hookNames]) (fun e l => e.vars "rt" = some rtv ∧
          l = ⟨.at .pausing, cnt, rt⟩)).conseq (fun _ _ h => h) ?_) ?_
      · intro c e l ⟨hc, hw, hp⟩
        rcases hc with rfl | rfl
        · simpa using ⟨hw, hp⟩
        · simp
      · refine Wq3.PT.split 1 (PT.seq (Mid := fun e l => e.vars "workqueue" = some (.ptr L.W) ∧ e.vars "rt" = some rtv ∧
          l = ⟨.at .paused, cnt, rt⟩) ?_ (PT.seq (Mid := fun e l => e.vars "workqueue" = some (.ptr L.W) ∧
            e.vars "rt" = some rtv ∧ l = ⟨.at .unpausing, cnt, rt⟩) ?_ ?_))
        · -- barrier; uatomic_or(PAUSED)
          intro env inp ls o ⟨hw, hr, hl⟩ hE hok
          subst hl
          rcases inp with _ | ⟨u, r1⟩
          · wexec_at hE [hw, ForkX.splitSeq]; subst hE; w5_abs []
          · wexec_at hE [hw, ForkX.splitSeq]; subst hE; w5_abs [hw, hr]
        · -- the poll loop
          refine (PT.loop (paused_body_PT L cnt rt rtv fuel)).conseq (fun _ _ h => h) ?_
          intro c e l h
          rcases h with ⟨rfl, h⟩ | ⟨c0, hgo, h, rfl⟩
          · simp
          · rcases h with ⟨hc, h1⟩ | hc <;> subst hc <;> simp_all [Ctl.afterLoop]
        · refine Wq3.PT.split 1 (PT.seq (Mid := fun e l => e.vars "workqueue" = some (.ptr L.W) ∧
            e.vars "rt" = some rtv ∧ l = ⟨.at .splice, cnt, rt⟩) ?_
            ((hook' L fuel _ _ (by intro a r; simp [absEvW, hookNames]) (fun e l => e.vars "rt" = some rtv ∧
              l = ⟨.at .splice, cnt, rt⟩)).conseq (fun _ _ h => h) ?_))
          · -- uatomic_and(~PAUSED); barrier
            intro env inp ls o ⟨hw, hr, hl⟩ hE hok
            subst hl
            rcases inp with _ | ⟨u, r1⟩
            · wexec_at hE [hw, ForkX.splitSeq]; subst hE; w5_abs []
            · wexec_at hE [hw, ForkX.splitSeq]; subst hE; w5_abs [hw, hr]
          · intro c e l ⟨hc, hw, hr, hl⟩
            rcases hc with rfl | rfl
            · exact .inl ⟨rfl, hw, hr, hl⟩
            · exact .inr (.inl rfl)
    · intro e l ⟨⟨hw, hr, f, ht, hl⟩, v, hv, htr⟩
      have hb : bit f 4 = true := by
        simp [eval, ht, band_4, bind, Except.bind] at hv
        subst hv
        simpa [bandV_truthy] using htr
      exact ⟨hw, hr, by simpa [hb] using hl⟩
  · -- PAUSE is clear
    intro env inp ls o ⟨⟨hw, hr, f, ht, hl⟩, v, hv, htr⟩ hE hok
    have hb : bit f 4 = false := by
      simp [eval, ht, band_4, bind, Except.bind] at hv
      subst hv
      simpa [bandV_truthy] using htr
    wexec_at hE []; subst hE
    exact ⟨_, wlr_nil L _, .inl ⟨rfl, hw, hr, by simpa [hb] using hl⟩⟩

/-- **one whole loop body of `workqueue_thread`** (statements 0–12 = `wBody`) from L2's `top` -/
theorem body_PT (L : Layout) (a : Int) (ha : a < 0) (cnt : Nat) (rt : Bool) (rtv : Val) (hrt : rtv.truthy = rt)
    (fuel : Nat) :
    PT (wRp L) fuel wBody
      (fun e l => e.vars "workqueue" = some (.ptr L.W) ∧ e.vars "rt" = some rtv ∧
        e.priv (.field L.W "cpu_affinity") = some (.int a) ∧ l = ⟨.at .top, cnt, rt⟩)
      (BodyPost L rtv rt) := by
  refine Wq3.PT.split 1 (PT.seq (Mid := fun e l => e.vars "workqueue" = some (.ptr L.W) ∧ e.vars "rt" = some rtv ∧
    l = ⟨.at .top, cnt, rt⟩) ?_ ?_)
  · show PT (wRp L) fuel (.seq (seqNth 0 wBody) (seqNth 1 wBody)) _ _
    refine (affinity_PT L a ha rtv ⟨.at .top, cnt, rt⟩ fuel).conseq (fun _ _ h => h) ?_
    intro c e l ⟨hc, h⟩
    subst hc
    simpa using h
  · show PT (wRp L) fuel (dropSeq 2 wBody) _ _
    refine Wq3.PT.split 1 (PT.seq (Mid := fun e l => e.vars "workqueue" = some (.ptr L.W) ∧ e.vars "rt" = some rtv ∧
      l = ⟨.at .splice, cnt, rt⟩) ?_ ?_)
    · show PT (wRp L) fuel (.seq (seqNth 2 wBody) (seqNth 3 wBody)) _ _
      refine (pause_PT L cnt rt rtv fuel).conseq (fun _ _ h => h) ?_
      intro c e l h
      rcases h with ⟨rfl, h⟩ | rfl | rfl
      · simpa using h
      · simp [BodyPost]
      · simp [BodyPost]
    · show PT (wRp L) fuel (dropSeq 4 wBody) _ _
      exact body_from_splice_PT L cnt rt rtv hrt fuel

end UrcuVerif.Src.WqR
