import UrcuVerif.Handshake.Tso
import UrcuVerif.Handshake.QsbrTso
import UrcuVerif.Handshake.WaitNode
import UrcuVerif.Src.ReadLocal
import UrcuVerif.CallRcu.Wake
import UrcuVerif.CallRcu.Barrier
import UrcuVerif.Defer.ConcWake
/-!
# Futex wait / wake handshakes: thread-local automata (generic layer + grace-period models)

All the futex waiters of /repo have the same shape

    while (load(futex) == A) { if (!futex(FUTEX_WAIT, A)) continue; switch (errno) { EAGAIN: leave; EINTR: again; default: die } }

and all the wakers the shape `if (load(futex) == -1) { store(futex, 0); futex(FUTEX_WAKE, 1) }`.  The L2 models
(`Handshake/Tso.lean` = `Hs`, `Handshake/QsbrTso.lean` = `Qs`, `CallRcu/Wake.lean` = `Cr`, `CallRcu/Barrier.lean` = `Br`,
`Defer/ConcWake.lean` = `Df`, `Handshake/WaitNode.lean` = `Wn`; `Wq/…`: see `Src/WqRefine.lean`) cut this loop into labels at different granularities.  This file therefore has two layers:

* the **generic** waiter automaton `gwstep` (pcs `chk → call → asleep → chk`, `done`) and waker automaton `gkstep`
  (pcs `k1 → k2 → k3 → k4`) whose labels are one per source access *with the values observed* – the finest common
  refinement of the L2 models' views of that loop;
* for every L2 model `M`: the **thread-local projection** of `M.step` for the waiter (its pc; `lstep`) and for waker `i`
  (its pc and register; `kstep`) with decorated labels, the projection lemmas `proj_step` / `proj_enabled` /
  `proj_frame` against the real `M.step`, and the **simulation** `sim` : every generic step is a (possibly empty)
  sequence of steps of the model's local automaton (`GWLabel → List M.WLabel`), lifted to runs by `runA_sim`.

`Src/FutexRefine.lean` proves that the generated source IR refines the generic automata; composing with `sim` and the
projection lemmas gives "source ⊑ L2, thread-locally".

## The one non-local move: being woken

A waiter asleep in `FUTEX_WAIT` is moved back to its re-check pc by the **waker's** `FUTEX_WAKE` label (`k3 j`, `k5 j`,
`kWake j`, `lWake`) – that is the only label of another thread that changes the waiter's pc (`projW_frame` /
`projW_env_wake`).  The source event "FUTEX_WAIT returned 0" is the generic label `woken` (`asleep → chk`); in L2 it is
EITHER the waiter's own label `wSpurious` (local label `woken`, `toL2 = wSpurious`) OR no label of the waiter at all,
the move having been made by the environment's wake label: `projW_env_wake` states that this environment step acts on
the projection exactly like the local label `woken` (when the waiter is asleep) or not at all (otherwise).
-/
set_option linter.unusedSimpArgs false
namespace UrcuVerif.Src.Futex
open UrcuVerif

/-! ## generic runs of a deterministic automaton -/

def runA {σ : Type} {lab : Type} (step : σ → lab → Option σ) : σ → List lab → Option σ
  | s, [] => some s
  | s, l :: ls => match step s l with
    | some n => runA step n ls
    | none => none

theorem runA_append {σ lab} (step : σ → lab → Option σ) : ∀ (a b : List lab) (s s1 s2 : σ),
    runA step s a = some s1 → runA step s1 b = some s2 → runA step s (a ++ b) = some s2 := by
  intro a
  induction a with
  | nil => intro b s s1 s2 h1 h2; simp [runA] at h1; subst h1; simpa using h2
  | cons x a ih =>
    intro b s s1 s2 h1 h2
    simp only [runA, List.cons_append] at h1 ⊢
    split at h1
    · exact ih _ _ _ _ h1 h2
    · simp at h1

/-- a step-by-sequence simulation lifts to runs -/
theorem runA_sim {σ lab σ' lab'} (st : σ → lab → Option σ) (st' : σ' → lab' → Option σ') (f : σ → σ')
    (g : lab → List lab') (h : ∀ s l s1, st s l = some s1 → runA st' (f s) (g l) = some (f s1)) :
    ∀ (ls : List lab) (s s1 : σ), runA st s ls = some s1 → runA st' (f s) (ls.flatMap g) = some (f s1) := by
  intro ls
  induction ls with
  | nil => intro s s1 h1; simp [runA] at h1; subst h1; rfl
  | cons l ls ih =>
    intro s s1 h1
    simp only [runA] at h1
    split at h1
    · rename_i n hn
      simp only [List.flatMap_cons]
      exact runA_append st' _ _ _ _ _ (h _ _ _ hn) (ih _ _ h1)
    · simp at h1

/-! ## generic waiter: `while (load(futex) == A) { FUTEX_WAIT(futex, A) … }` -/

inductive GWPc
  | chk      -- about to load the futex word
  | call     -- saw `A`: about to call FUTEX_WAIT (or inside it, not asleep)
  | asleep   -- asleep in FUTEX_WAIT
  | done     -- left the loop
  deriving DecidableEq, Repr

inductive GWLabel
  | ldArmed            -- loaded the futex word, saw `A`
  | ldOther (v : Int)  -- loaded the futex word, saw `v ≠ A`: leave
  | sleep              -- FUTEX_WAIT: the kernel saw `A`, the thread sleeps
  | woken              -- FUTEX_WAIT returned 0 (FUTEX_WAKE or spurious)
  | eagain             -- FUTEX_WAIT failed with EAGAIN (the kernel saw a value ≠ A): leave
  | intr               -- FUTEX_WAIT failed with EINTR: check again
  deriving DecidableEq, Repr

def gwstep (A : Int) : GWPc → GWLabel → Option GWPc
  | .chk, .ldArmed => some .call
  | .chk, .ldOther v => if v ≠ A then some .done else none
  | .call, .sleep => some .asleep
  | .asleep, .woken => some .chk
  | .call, .eagain => some .done
  | .call, .intr => some .chk
  | _, _ => none

/-! ## generic waker: `if (load(futex) == -1) { store(futex, 0); FUTEX_WAKE }` -/

inductive GKPc | k1 | k2 | k3 | k4
  deriving DecidableEq, Repr

structure GKState where
  kpc : GKPc
  r   : Int
  deriving DecidableEq, Repr

inductive GKLabel
  | k1 (v : Int)   -- load futex, saw `v`
  | k2Wake         -- (saw -1) store futex := 0
  | k2Skip         -- (saw something else) nothing to do
  | k3             -- FUTEX_WAKE
  deriving DecidableEq, Repr

def gkstep (s : GKState) : GKLabel → Option GKState
  | .k1 v => if s.kpc = .k1 then some { kpc := .k2, r := v } else none
  | .k2Wake => if s.kpc = .k2 ∧ s.r = -1 then some { s with kpc := .k3 } else none
  | .k2Skip => if s.kpc = .k2 ∧ s.r ≠ -1 then some { s with kpc := .k4 } else none
  | .k3 => if s.kpc = .k3 then some { s with kpc := .k4 } else none

/-! ## `Handshake/Tso.lean` (memb / mb grace period): the waiter = the grace-period leader -/

namespace Hs
open Handshake

/-- the waiter's labels, decorated: `w2RetLd v` = left because a user-space load of the futex saw `v ≠ -1`,
`w2RetK` = left because the kernel saw a value ≠ -1 (EAGAIN); `woken` = see the header -/
inductive WLabel
  | w0 | wbarRet | w1All | w1Some (i : Nat) | w2Sleep | w2RetLd (v : Int) | w2RetK | woken | w4
  deriving DecidableEq, Repr

def WLabel.toL2 : WLabel → Label
  | .w0 => .w0 | .wbarRet => .wbarRet | .w1All => .w1All | .w1Some i => .w1Some i | .w2Sleep => .w2Sleep
  | .w2RetLd _ => .w2Ret | .w2RetK => .w2Ret | .woken => .wSpurious | .w4 => .w4

/-- local automaton of the waiter: its pc -/
def lstep (pc : WPc) : WLabel → Option WPc
  | .w0 => if pc = .w0 then some .wbar else none
  | .wbarRet => if pc = .wbar then some .w1 else none
  | .w1All => if pc = .w1 then some .w4 else none
  | .w1Some _ => if pc = .w1 then some .w2 else none
  | .w2Sleep => if pc = .w2 then some .wsleep else none
  | .w2RetLd v => if pc = .w2 ∧ v ≠ -1 then some .w0 else none
  | .w2RetK => if pc = .w2 then some .w0 else none
  | .woken => if pc = .wsleep then some .w2 else none
  | .w4 => if pc = .w4 then some .wdone else none

def ObsW (s : State) : WLabel → Prop
  | .w2RetLd v => v = s.futex
  | _ => True

/-- the non-local part of the waiter's guards -/
def GuardW (c : Cfg) (s : State) : WLabel → Prop
  | .wbarRet => c.membarrier = true → ∀ i, i < c.n → s.pend i = false
  | .w1All => ∀ i, i < c.n → s.mdone i = true
  | .w1Some i => i < c.n ∧ s.mdone i = false
  | .w2Sleep => s.futex = -1
  | .w2RetLd v => v = s.futex
  | .w2RetK => s.futex ≠ -1
  | _ => True

def ownedW : Label → Bool
  | .w0 | .wbarRet | .w1All | .w1Some _ | .w2Sleep | .w2Ret | .wSpurious | .w4 => true
  | _ => false

def isWake : Label → Bool
  | .k3 _ => true
  | _ => false

/-- effect of the environment's FUTEX_WAKE on the waiter's pc -/
def wakeEffect (pc : WPc) : WPc := if pc = .wsleep then .w2 else pc

theorem projW_step (c : Cfg) (s s' : State) (l : WLabel)
    (st : step c s l.toL2 = some s') (ho : ObsW s l) : lstep s.wpc l = some s'.wpc := by
  cases l <;> simp only [WLabel.toL2, step] at st <;> (repeat' split at st) <;>
    first
    | (simp at st; done)
    | (simp only [Option.some.injEq] at st; subst st; simp_all [ObsW, lstep])

theorem projW_enabled (c : Cfg) (s : State) (l : WLabel) (pc' : WPc)
    (hl : lstep s.wpc l = some pc') (hg : GuardW c s l) :
    ∃ s', step c s l.toL2 = some s' ∧ s'.wpc = pc' ∧ ObsW s l := by
  cases l <;> simp only [lstep] at hl <;> (repeat' split at hl) <;>
    first
    | (simp at hl; done)
    | (simp only [Option.some.injEq] at hl; subst hl; simp_all [ObsW, GuardW, WLabel.toL2, step])

/-- every label that is neither the waiter's nor a waker's FUTEX_WAKE leaves the waiter's pc unchanged
(wakers' `k0 kf k1 k2Wake k2Skip`, `forced j`, `flushDone j`, `flushFut j`) -/
theorem projW_frame (c : Cfg) (s s' : State) (l : Label)
    (st : step c s l = some s') (ho : ownedW l = false) (hw : isWake l = false) : s'.wpc = s.wpc := by
  cases l <;> simp only [step] at st <;> (repeat' split at st) <;>
    first
    | (simp at st; done)
    | (simp only [Option.some.injEq] at st; subst st; simp_all [ownedW, isWake])

/-- a waker's FUTEX_WAKE acts on the waiter's pc like the local label `woken` if it is asleep, not at all otherwise -/
theorem projW_env_wake (c : Cfg) (s s' : State) (j : Nat) (st : step c s (.k3 j) = some s') :
    s'.wpc = wakeEffect s.wpc ∧ (s.wpc = .wsleep → lstep s.wpc .woken = some s'.wpc) := by
  simp only [step] at st
  split at st
  · simp only [Option.some.injEq] at st; subst st; simp +contextual [wakeEffect, lstep]
  · simp at st

/-- pc of the generic waiter ↦ pc of L2's waiter (`wait_gp()` is L2's pc `w2`; it returns to the head of the
`wait_for_readers` loop, pc `w0`) -/
def pcMap : GWPc → WPc
  | .chk => .w2 | .call => .w2 | .asleep => .wsleep | .done => .w0

/-- generic label ↦ labels of L2's waiter.  `ldArmed` (a user-space load that sees -1) and `intr` (EINTR) have no L2
counterpart: L2's `w2Sleep` / `w2Ret` test the value atomically, as the kernel does, so the user-space pre-check that
finds -1 and an interrupted wait are stutter steps at pc `w2` -/
def gw2l : GWLabel → List WLabel
  | .ldArmed => [] | .ldOther v => [.w2RetLd v] | .sleep => [.w2Sleep] | .woken => [.woken]
  | .eagain => [.w2RetK] | .intr => []

theorem sim (g : GWPc) (l : GWLabel) (g' : GWPc) (h : gwstep (-1) g l = some g') :
    runA lstep (pcMap g) (gw2l l) = some (pcMap g') := by
  cases g <;> cases l <;> simp only [gwstep] at h <;> (try split at h) <;> simp at h <;> subst h <;>
    simp_all [runA, gw2l, lstep, pcMap]

/-- the waker of this model is `Read.HState` / `Read.hstep` (`Src/ReadLocal.lean`, projection lemmas `Read.projH_*`):
generic waker state ↦ that state -/
def kMap (s : GKState) : Read.HState :=
  { kpc := match s.kpc with | .k1 => .k1 | .k2 => .k2 | .k3 => .k3 | .k4 => .k4, r := s.r }

def gk2l : GKLabel → List Read.HLabel
  | .k1 v => [.k1 v] | .k2Wake => [.k2Wake] | .k2Skip => [.k2Skip] | .k3 => [.k3]

theorem simK (sf : Bool) (s : GKState) (l : GKLabel) (s' : GKState) (h : gkstep s l = some s') :
    runA (Read.hstep sf) (kMap s) (gk2l l) = some (kMap s') := by
  obtain ⟨pc, r⟩ := s
  cases l <;> simp only [gkstep] at h <;> split at h <;> simp at h <;> subst h <;>
    simp_all [runA, gk2l, Read.hstep, kMap]

end Hs

/-! ## `Handshake/QsbrTso.lean` (QSBR grace period) -/

namespace Qs
open QsbrHs

inductive WLabel
  | w0 | wArm (i : Nat) | wMb | w1All | w1Some (i : Nat) | w2Sleep | w2RetLd (v : Int) | w2RetK | woken | w4
  deriving DecidableEq, Repr

def WLabel.toL2 : WLabel → Label
  | .w0 => .w0 | .wArm i => .wArm i | .wMb => .wMb | .w1All => .w1All | .w1Some i => .w1Some i | .w2Sleep => .w2Sleep
  | .w2RetLd _ => .w2Ret | .w2RetK => .w2Ret | .woken => .wSpurious | .w4 => .w4

def lstep (pc : WPc) : WLabel → Option WPc
  | .w0 => if pc = .w0 then some .warm else none
  | .wArm _ => if pc = .warm then some .warm else none
  | .wMb => if pc = .warm then some .w1 else none
  | .w1All => if pc = .w1 then some .w4 else none
  | .w1Some _ => if pc = .w1 then some .w2 else none
  | .w2Sleep => if pc = .w2 then some .wsleep else none
  | .w2RetLd v => if pc = .w2 ∧ v ≠ -1 then some .w0 else none
  | .w2RetK => if pc = .w2 then some .w0 else none
  | .woken => if pc = .wsleep then some .w2 else none
  | .w4 => if pc = .w4 then some .wdone else none

def ObsW (s : State) : WLabel → Prop
  | .w2RetLd v => v = s.futex
  | _ => True

def GuardW (c : Cfg) (s : State) : WLabel → Prop
  | .wArm i => i < c.n ∧ s.armed i = false
  | .wMb => (∀ i, i < c.n → s.armed i = true ∧ s.bwait i = false) ∧ s.bfutm1 = false
  | .w1All => ∀ i, i < c.n → s.mdone i = true
  | .w1Some i => i < c.n ∧ s.mdone i = false
  | .w2Sleep => s.futex = -1
  | .w2RetLd v => v = s.futex
  | .w2RetK => s.futex ≠ -1
  | _ => True

def ownedW : Label → Bool
  | .w0 | .wArm _ | .wMb | .w1All | .w1Some _ | .w2Sleep | .w2Ret | .wSpurious | .w4 => true
  | _ => false

def isWake : Label → Bool
  | .k5 _ => true
  | _ => false

def wakeEffect (pc : WPc) : WPc := if pc = .wsleep then .w2 else pc

theorem projW_step (c : Cfg) (s s' : State) (l : WLabel)
    (st : step c s l.toL2 = some s') (ho : ObsW s l) : lstep s.wpc l = some s'.wpc := by
  cases l <;> simp only [WLabel.toL2, step] at st <;> (repeat' split at st) <;>
    first
    | (simp at st; done)
    | (simp only [Option.some.injEq] at st; subst st; simp_all [ObsW, lstep])

theorem projW_enabled (c : Cfg) (s : State) (l : WLabel) (pc' : WPc)
    (hl : lstep s.wpc l = some pc') (hg : GuardW c s l) :
    ∃ s', step c s l.toL2 = some s' ∧ s'.wpc = pc' ∧ ObsW s l := by
  cases l <;> simp only [lstep] at hl <;> (repeat' split at hl) <;>
    first
    | (simp at hl; done)
    | (simp only [Option.some.injEq] at hl; subst hl; simp_all [ObsW, GuardW, WLabel.toL2, step])

/-- environment labels that leave the waiter's pc unchanged: the updater's own buffer flushes `flushFutM1`,
`flushWait j`, every reader label except `k5 j`, `flushW0 j`, `flushF0 j` -/
theorem projW_frame (c : Cfg) (s s' : State) (l : Label)
    (st : step c s l = some s') (ho : ownedW l = false) (hw : isWake l = false) : s'.wpc = s.wpc := by
  cases l <;> simp only [step] at st <;> (repeat' split at st) <;>
    first
    | (simp at st; done)
    | (simp only [Option.some.injEq] at st; subst st; simp_all [ownedW, isWake])

theorem projW_env_wake (c : Cfg) (s s' : State) (j : Nat) (st : step c s (.k5 j) = some s') :
    s'.wpc = wakeEffect s.wpc ∧ (s.wpc = .wsleep → lstep s.wpc .woken = some s'.wpc) := by
  simp only [step] at st
  split at st
  · simp only [Option.some.injEq] at st; subst st; simp +contextual [wakeEffect, lstep]
  · simp at st

def pcMap : GWPc → WPc
  | .chk => .w2 | .call => .w2 | .asleep => .wsleep | .done => .w0

def gw2l : GWLabel → List WLabel
  | .ldArmed => [] | .ldOther v => [.w2RetLd v] | .sleep => [.w2Sleep] | .woken => [.woken]
  | .eagain => [.w2RetK] | .intr => []

theorem sim (g : GWPc) (l : GWLabel) (g' : GWPc) (h : gwstep (-1) g l = some g') :
    runA lstep (pcMap g) (gw2l l) = some (pcMap g') := by
  cases g <;> cases l <;> simp only [gwstep] at h <;> (try split at h) <;> simp at h <;> subst h <;>
    simp_all [runA, gw2l, lstep, pcMap]

/-! ### reader `i` as waker: `urcu_qsbr_wake_up_gp()` (L2 pcs `k1 … k9`; `k0` – the store of the reader word – belongs to
the caller `_urcu_qsbr_quiescent_state_update_and_wakeup` / `thread_offline`) -/

structure KState where
  kpc : KPc
  r   : Int
  deriving DecidableEq, Repr

def projK (s : State) (i : Nat) : KState := { kpc := s.kpc i, r := s.r i }

inductive KLabel
  | k0                  -- store of the own reader word (seq_cst)
  | k1 (w : Bool)       -- load `waiting`, saw `w`
  | k2                  -- store `waiting := 0`
  | kf                  -- `cmm_smp_mb()`
  | k3 (v : Int)        -- load `gp.futex`, saw `v`
  | k4Wake              -- store `gp.futex := 0`
  | k4Skip              -- return
  | k5                  -- FUTEX_WAKE
  deriving DecidableEq, Repr

def KLabel.toL2 (i : Nat) : KLabel → Label
  | .k0 => .k0 i | .k1 true => .k1Set i | .k1 false => .k1Clear i | .k2 => .k2 i | .kf => .kf i | .k3 _ => .k3 i
  | .k4Wake => .k4Wake i | .k4Skip => .k4Skip i | .k5 => .k5 i

def ownerK : Label → Option Nat
  | .k0 i | .k1Set i | .k1Clear i | .k2 i | .kf i | .k3 i | .k4Wake i | .k4Skip i | .k5 i => some i
  | _ => none

def kstep (ks : KState) : KLabel → Option KState
  | .k0 => if ks.kpc = .k0 then some { ks with kpc := .k1 } else none
  | .k1 w => if ks.kpc = .k1 then some { ks with kpc := if w then .k2 else .k9 } else none
  | .k2 => if ks.kpc = .k2 then some { ks with kpc := .kf } else none
  | .kf => if ks.kpc = .kf then some { ks with kpc := .k3 } else none
  | .k3 v => if ks.kpc = .k3 then some { kpc := .k4, r := v } else none
  | .k4Wake => if ks.kpc = .k4 ∧ ks.r = -1 then some { ks with kpc := .k5 } else none
  | .k4Skip => if ks.kpc = .k4 ∧ ks.r ≠ -1 then some { ks with kpc := .k9 } else none
  | .k5 => if ks.kpc = .k5 then some { ks with kpc := .k9 } else none

def ObsK (s : State) (i : Nat) : KLabel → Prop
  | .k1 w => w = s.waiting i
  | .k3 v => v = s.futex
  | _ => True

/-- non-local guards: values loaded; the fence and the system call wait for the store buffer to drain -/
def GuardK (s : State) (i : Nat) : KLabel → Prop
  | .k1 w => w = s.waiting i
  | .kf => s.bw0 i = false
  | .k3 v => v = s.futex
  | .k5 => s.bf0 i = false ∧ s.bw0 i = false
  | _ => True

theorem projK_step (c : Cfg) (s s' : State) (i : Nat) (l : KLabel)
    (st : step c s (l.toL2 i) = some s') (ho : ObsK s i l) : kstep (projK s i) l = some (projK s' i) := by
  cases l with
  | k1 w =>
    cases w <;> simp only [KLabel.toL2, step] at st <;> split at st <;>
      first
      | (simp at st; done)
      | (simp only [Option.some.injEq] at st; subst st; simp_all [ObsK, kstep, projK, upd])
  | _ =>
    simp only [KLabel.toL2, step] at st <;> split at st <;>
      first
      | (simp at st; done)
      | (simp only [Option.some.injEq] at st; subst st; simp_all [ObsK, kstep, projK, upd])

theorem projK_enabled (c : Cfg) (s : State) (i : Nat) (l : KLabel) (ks' : KState)
    (hl : kstep (projK s i) l = some ks') (hi : i < c.n) (hg : GuardK s i l) :
    ∃ s', step c s (l.toL2 i) = some s' ∧ projK s' i = ks' ∧ ObsK s i l := by
  cases l with
  | k1 w =>
    cases w <;> simp only [kstep] at hl <;> split at hl <;>
      first
      | (simp at hl; done)
      | (simp only [Option.some.injEq] at hl; subst hl; simp_all [ObsK, GuardK, KLabel.toL2, step, projK, upd])
  | _ =>
    simp only [kstep] at hl <;> split at hl <;>
      first
      | (simp at hl; done)
      | (simp only [Option.some.injEq] at hl; subst hl; simp_all [ObsK, GuardK, KLabel.toL2, step, projK, upd])

/-- environment labels: the updater's, the flushes of every buffer (also reader `i`'s own `flushW0 i`, `flushF0 i`),
other readers' -/
theorem projK_frame (c : Cfg) (s s' : State) (i : Nat) (l : Label)
    (st : step c s l = some s') (ho : ownerK l ≠ some i) : projK s' i = projK s i := by
  cases l <;> simp only [step] at st <;> (repeat' split at st) <;>
    first
    | (simp at st; done)
    | (simp only [Option.some.injEq] at st; subst st; simp_all [ownerK, projK, upd] <;> grind)

/-- generic waker (the part of `urcu_qsbr_wake_up_gp` from the load of `gp.futex` on) ↦ L2 -/
def kMap (s : GKState) : KState :=
  { kpc := match s.kpc with | .k1 => .k3 | .k2 => .k4 | .k3 => .k5 | .k4 => .k9, r := s.r }

def gk2l : GKLabel → List KLabel
  | .k1 v => [.k3 v] | .k2Wake => [.k4Wake] | .k2Skip => [.k4Skip] | .k3 => [.k5]

theorem simK (s : GKState) (l : GKLabel) (s' : GKState) (h : gkstep s l = some s') :
    runA kstep (kMap s) (gk2l l) = some (kMap s') := by
  obtain ⟨pc, r⟩ := s
  cases l <;> simp only [gkstep] at h <;> split at h <;> simp at h <;> subst h <;>
    simp_all [runA, gk2l, kstep, kMap]

end Qs

/-! ## `CallRcu/Wake.lean` (call_rcu helper futex): helper = waiter (`call_rcu_wait`), `_call_rcu` callers = wakers -/

namespace Cr
open CallRcuWake

/-- helper labels, decorated: `hChk e` = `cds_wfcq_empty()` returned `e`, `hWaitLd v` = loaded the futex, saw `v` -/
inductive WLabel
  | hDec | hTake | hChk (e : Bool) | hWaitLd (v : Int) | hWaitFx (o : FOut) | woken
  deriving DecidableEq, Repr

def WLabel.toL2 : WLabel → Label
  | .hDec => .hDec | .hTake => .hTake | .hChk _ => .hChk | .hWaitLd _ => .hWaitLd | .hWaitFx o => .hWaitFx o
  | .woken => .hSpurious

/-- where the helper goes when the wait is over / when the queue is empty (`decAfter` = the broken variant) -/
def afterWait (c : Cfg) : HPc := if c.decAfter then .take else .dec
def afterEmpty (c : Cfg) : HPc := if c.decAfter then .dec else .waitLd

def lstep (c : Cfg) (pc : HPc) : WLabel → Option HPc
  | .hDec => if pc = .dec then some (if c.decAfter then .waitLd else .take) else none
  | .hTake => if pc = .take then some .chk else none
  | .hChk e => if pc = .chk then some (if e then afterEmpty c else .take) else none
  | .hWaitLd v => if pc = .waitLd then some (if v = -1 then .waitFx else afterWait c) else none
  | .hWaitFx o =>
    if pc = .waitFx then
      match o with
      | .sleep => some .asleep
      | .eagain => some (afterWait c)
      | .eintr => some .waitLd
      | .spurious => some .waitLd
    else none
  | .woken => if pc = .asleep then some .waitLd else none

def ObsW (s : State) : WLabel → Prop
  | .hChk e => e = decide (s.q = 0)
  | .hWaitLd v => v = s.futex
  | _ => True

def GuardW (s : State) : WLabel → Prop
  | .hChk e => e = decide (s.q = 0)
  | .hWaitLd v => v = s.futex
  | .hWaitFx .sleep => s.futex = -1
  | .hWaitFx .eagain => s.futex ≠ -1
  | _ => True

def ownedW : Label → Bool
  | .hDec | .hTake | .hChk | .hWaitLd | .hWaitFx _ | .hSpurious => true
  | _ => false

def isWake : Label → Bool
  | .kWake _ => true
  | _ => false

def wakeEffect (pc : HPc) : HPc := if pc = .asleep then .waitLd else pc

theorem projW_step (c : Cfg) (s s' : State) (l : WLabel)
    (st : step c s l.toL2 = some s') (ho : ObsW s l) : lstep c s.hpc l = some s'.hpc := by
  cases l with
  | hWaitFx o =>
    cases o <;> simp only [WLabel.toL2, step] at st <;> (repeat' split at st) <;>
      first
      | (simp at st; done)
      | (simp only [Option.some.injEq] at st; subst st; simp_all [ObsW, lstep, afterWait, afterEmpty])
  | _ =>
    simp only [WLabel.toL2, step] at st <;> (repeat' split at st) <;>
      first
      | (simp at st; done)
      | (simp only [Option.some.injEq] at st; subst st; simp_all [ObsW, lstep, afterWait, afterEmpty])

theorem projW_enabled (c : Cfg) (s : State) (l : WLabel) (pc' : HPc)
    (hl : lstep c s.hpc l = some pc') (hg : GuardW s l) :
    ∃ s', step c s l.toL2 = some s' ∧ s'.hpc = pc' ∧ ObsW s l := by
  cases l with
  | hWaitFx o =>
    cases o <;> simp only [lstep] at hl <;> (repeat' split at hl) <;>
      first
      | (simp at hl; done)
      | (simp only [Option.some.injEq] at hl; subst hl
         simp_all [ObsW, GuardW, WLabel.toL2, step, afterWait, afterEmpty])
  | _ =>
    simp only [lstep] at hl <;> (repeat' split at hl) <;>
      first
      | (simp at hl; done)
      | (simp only [Option.some.injEq] at hl; subst hl
         simp_all [ObsW, GuardW, WLabel.toL2, step, afterWait, afterEmpty])

/-- wakers' `kEnq kLd kSt kSkip` and `flush j` leave the helper's pc unchanged -/
theorem projW_frame (c : Cfg) (s s' : State) (l : Label)
    (st : step c s l = some s') (ho : ownedW l = false) (hw : isWake l = false) : s'.hpc = s.hpc := by
  cases l <;> simp only [step] at st <;> (repeat' split at st) <;>
    first
    | (simp at st; done)
    | (simp only [Option.some.injEq] at st; subst st; simp_all [ownedW, isWake])

theorem projW_env_wake (c : Cfg) (s s' : State) (j : Nat) (st : step c s (.kWake j) = some s') :
    s'.hpc = wakeEffect s.hpc ∧ (s.hpc = .asleep → lstep c s.hpc .woken = some s'.hpc) := by
  simp only [step] at st
  split at st
  · simp only [Option.some.injEq] at st; subst st; simp +contextual [wakeEffect, lstep]
  · simp at st

def pcMap (c : Cfg) : GWPc → HPc
  | .chk => .waitLd | .call => .waitFx | .asleep => .asleep | .done => afterWait c

/-- one L2 label per generic label -/
def gw2l : GWLabel → List WLabel
  | .ldArmed => [.hWaitLd (-1)] | .ldOther v => [.hWaitLd v] | .sleep => [.hWaitFx .sleep] | .woken => [.woken]
  | .eagain => [.hWaitFx .eagain] | .intr => [.hWaitFx .eintr]

theorem sim (c : Cfg) (g : GWPc) (l : GWLabel) (g' : GWPc) (h : gwstep (-1) g l = some g') :
    runA (lstep c) (pcMap c g) (gw2l l) = some (pcMap c g') := by
  cases g <;> cases l <;> simp only [gwstep] at h <;> (try split at h) <;> simp at h <;> subst h <;>
    simp_all [runA, gw2l, lstep, pcMap]

/-! ### waker `i` (`_call_rcu` → `wake_call_rcu_thread` → `call_rcu_wake_up`) -/

structure KState where
  kpc : KPc
  r   : Int
  deriving DecidableEq, Repr

def projK (s : State) (i : Nat) : KState := { kpc := s.kpc i, r := s.r i }

inductive KLabel
  | kEnq | kLd (v : Int) | kSt | kSkip | kWake
  deriving DecidableEq, Repr

def KLabel.toL2 (i : Nat) : KLabel → Label
  | .kEnq => .kEnq i | .kLd _ => .kLd i | .kSt => .kSt i | .kSkip => .kSkip i | .kWake => .kWake i

def ownerK : Label → Option Nat
  | .kEnq i | .kLd i | .kSt i | .kSkip i | .kWake i => some i
  | _ => none

def kstep (ks : KState) : KLabel → Option KState
  | .kEnq => if ks.kpc = .k0 then some { ks with kpc := .kmb } else none
  | .kLd v => if ks.kpc = .kmb then some { kpc := .k2, r := v } else none
  | .kSt => if ks.kpc = .k2 ∧ ks.r = -1 then some { ks with kpc := .k3 } else none
  | .kSkip => if ks.kpc = .k2 ∧ ks.r ≠ -1 then some { ks with kpc := .k0 } else none
  | .kWake => if ks.kpc = .k3 then some { ks with kpc := .k0 } else none

/-- the load is forwarded from the waker's own store buffer when its previous `futex := 0` is still pending -/
def ObsK (s : State) (i : Nat) : KLabel → Prop
  | .kLd v => v = if s.bfut i then 0 else s.futex
  | _ => True

def GuardK (s : State) (i : Nat) : KLabel → Prop
  | .kEnq => s.bfut i = false
  | .kLd v => v = if s.bfut i then 0 else s.futex
  | .kWake => s.bfut i = false
  | _ => True

theorem projK_step (c : Cfg) (s s' : State) (i : Nat) (l : KLabel)
    (st : step c s (l.toL2 i) = some s') (ho : ObsK s i l) : kstep (projK s i) l = some (projK s' i) := by
  cases l <;> simp only [KLabel.toL2, step] at st <;> (repeat' split at st) <;>
    first
    | (simp at st; done)
    | (simp only [Option.some.injEq] at st; subst st; simp_all [ObsK, kstep, projK, upd])

theorem projK_enabled (c : Cfg) (s : State) (i : Nat) (l : KLabel) (ks' : KState)
    (hl : kstep (projK s i) l = some ks') (hi : i < c.n) (hg : GuardK s i l) :
    ∃ s', step c s (l.toL2 i) = some s' ∧ projK s' i = ks' ∧ ObsK s i l := by
  cases l <;> simp only [kstep] at hl <;> (repeat' split at hl) <;>
    first
    | (simp at hl; done)
    | (simp only [Option.some.injEq] at hl; subst hl; simp_all [ObsK, GuardK, KLabel.toL2, step, projK, upd])

/-- environment: the helper's labels, `flush j` for every `j` (also `j = i`), other wakers' -/
theorem projK_frame (c : Cfg) (s s' : State) (i : Nat) (l : Label)
    (st : step c s l = some s') (ho : ownerK l ≠ some i) : projK s' i = projK s i := by
  cases l <;> simp only [step] at st <;> (repeat' split at st) <;>
    first
    | (simp at st; done)
    | (simp only [Option.some.injEq] at st; subst st; simp_all [ownerK, projK, upd] <;> grind)

/-- generic waker (`call_rcu_wake_up`: L2 pcs `kmb → k2 → k3 → k0`; the `cmm_smp_mb()` at its head belongs to `kEnq`) -/
def kMap (s : GKState) : KState :=
  { kpc := match s.kpc with | .k1 => .kmb | .k2 => .k2 | .k3 => .k3 | .k4 => .k0, r := s.r }

def gk2l : GKLabel → List KLabel
  | .k1 v => [.kLd v] | .k2Wake => [.kSt] | .k2Skip => [.kSkip] | .k3 => [.kWake]

theorem simK (s : GKState) (l : GKLabel) (s' : GKState) (h : gkstep s l = some s') :
    runA kstep (kMap s) (gk2l l) = some (kMap s') := by
  obtain ⟨pc, r⟩ := s
  cases l <;> simp only [gkstep] at h <;> split at h <;> simp at h <;> subst h <;>
    simp_all [runA, gk2l, kstep, kMap]

end Cr

/-! ## `Defer/ConcWake.lean` (defer thread futex): `D` = waiter (`wait_defer`), owners = wakers (`wake_up_defer`) -/

namespace Df
open DeferWake

/-- `D`'s labels, decorated: `dScanEnd f` = the scan ended with `found = f` (`rcu_defer_num_callbacks()` non-zero),
`dLoad v` = loaded the futex, saw `v` -/
inductive WLabel
  | dDec | dScanStart | dScanQ (i : Nat) | dScanEnd (f : Bool) | dStore0 | dLoad (v : Int)
  | dWaitSleep | dWaitEagain | dWaitIntr | woken
  deriving DecidableEq, Repr

def WLabel.toL2 : WLabel → Label
  | .dDec => .dDec | .dScanStart => .dScanStart | .dScanQ i => .dScanQ i | .dScanEnd _ => .dScanEnd | .dStore0 => .dStore0
  | .dLoad _ => .dLoad | .dWaitSleep => .dWaitSleep | .dWaitEagain => .dWaitEagain | .dWaitIntr => .dWaitIntr
  | .woken => .dSpurious

/-- `D`'s local state: its pc and the scan result `found` (only `D` writes it) -/
structure WState where
  dpc : DPc
  found : Bool
  deriving DecidableEq, Repr

def projW (s : State) : WState := { dpc := s.dpc, found := s.found }

def lstep (c : Cfg) (ws : WState) : WLabel → Option WState
  | .dDec =>
    if (c.decFirst = true ∧ ws.dpc = .d0) ∨ (c.decFirst = false ∧ ws.dpc = .dpost) then
      some { dpc := if c.decFirst then .dscan else (if ws.found then .dfound else .dwloop),
             found := if c.decFirst then false else ws.found }
    else none
  | .dScanStart => if c.decFirst = false ∧ ws.dpc = .d0 then some { dpc := .dscan, found := false } else none
  | .dScanQ _ => none    -- changes `found` by a value of the global state: see `projW_scanQ`
  | .dScanEnd f =>
    if ws.dpc = .dscan ∧ f = ws.found then
      some { ws with dpc := if c.decFirst then (if ws.found then .dfound else .dwloop) else .dpost }
    else none
  | .dStore0 => if ws.dpc = .dfound then some { ws with dpc := .d0 } else none
  | .dLoad v => if ws.dpc = .dwloop then some { ws with dpc := if v = -1 then .dwait else .d0 } else none
  | .dWaitSleep => if ws.dpc = .dwait then some { ws with dpc := .dsleep } else none
  | .dWaitEagain => if ws.dpc = .dwait then some { ws with dpc := .d0 } else none
  | .dWaitIntr => if ws.dpc = .dwait then some { ws with dpc := .dwloop } else none
  | .woken => if ws.dpc = .dsleep then some { ws with dpc := .dwloop } else none

def ObsW (s : State) : WLabel → Prop
  | .dLoad v => v = s.futex
  | .dScanEnd f => f = s.found
  | _ => True

def GuardW (c : Cfg) (s : State) : WLabel → Prop
  | .dDec => s.dfutB = false
  | .dScanEnd f => f = s.found ∧ (s.found = true ∨ ∀ i, i < c.n → s.scanned i = true)
  | .dLoad v => v = s.futex
  | .dWaitSleep => s.futex = -1
  | .dWaitEagain => s.futex ≠ -1
  | _ => True

def ownedW : Label → Bool
  | .dDec | .dScanStart | .dScanQ _ | .dScanEnd | .dStore0 | .dLoad | .dWaitSleep | .dWaitEagain | .dWaitIntr
  | .dSpurious => true
  | _ => false

def isWake : Label → Bool
  | .k3 _ => true
  | _ => false

def wakeEffect (ws : WState) : WState := { ws with dpc := if ws.dpc = .dsleep then .dwloop else ws.dpc }

/-- every label of `D` except the queue scan `dScanQ` (which reads the queues of the global state) -/
theorem projW_step (c : Cfg) (s s' : State) (l : WLabel) (hq : ∀ i, l ≠ .dScanQ i)
    (st : step c s l.toL2 = some s') (ho : ObsW s l) : lstep c (projW s) l = some (projW s') := by
  cases l <;> simp only [WLabel.toL2, step] at st <;> (repeat' split at st) <;>
    first
    | (simp at st; done)
    | (simp only [Option.some.injEq] at st; subst st; simp_all [ObsW, lstep, projW] <;> grind)

/-- the scan of queue `i`: pc unchanged, `found` becomes true iff queue `i` is non-empty in memory -/
theorem projW_scanQ (c : Cfg) (s s' : State) (i : Nat) (st : step c s (.dScanQ i) = some s') :
    projW s' = { projW s with found := if s.mh i ≠ s.tl i then true else s.found } := by
  simp only [step] at st
  split at st
  · simp only [Option.some.injEq] at st; subst st; simp [projW]
  · simp at st

theorem projW_enabled (c : Cfg) (s : State) (l : WLabel) (ws' : WState)
    (hl : lstep c (projW s) l = some ws') (hg : GuardW c s l) :
    ∃ s', step c s l.toL2 = some s' ∧ projW s' = ws' ∧ ObsW s l := by
  cases l <;> simp only [lstep] at hl <;> (repeat' split at hl) <;>
    first
    | (simp at hl; done)
    | (simp only [Option.some.injEq] at hl; subst hl
       simp_all [ObsW, GuardW, WLabel.toL2, step, projW] <;> grind)

/-- owners' `k0 kf k1 k2Wake k2Skip`, `flushD`, `flushHd j`, `flushFut j`, `drain j v` leave `D`'s local state unchanged -/
theorem projW_frame (c : Cfg) (s s' : State) (l : Label)
    (st : step c s l = some s') (ho : ownedW l = false) (hw : isWake l = false) : projW s' = projW s := by
  cases l <;> simp only [step] at st <;> (repeat' split at st) <;>
    first
    | (simp at st; done)
    | (simp only [Option.some.injEq] at st; subst st; simp_all [ownedW, isWake, projW])

theorem projW_env_wake (c : Cfg) (s s' : State) (j : Nat) (st : step c s (.k3 j) = some s') :
    projW s' = wakeEffect (projW s) ∧ (s.dpc = .dsleep → lstep c (projW s) .woken = some (projW s')) := by
  simp only [step] at st
  split at st
  · simp only [Option.some.injEq] at st; subst st
    refine ⟨?_, ?_⟩
    · by_cases hs : s.dpc = .dsleep <;> simp [wakeEffect, projW, hs]
    · intro hs; simp [lstep, projW, hs]
  · simp at st

/-! ### the scan inside `rcu_defer_num_callbacks()`

`wait_defer()` calls the external function `rcu_defer_num_callbacks()`; its loads of the owners' queues are L2's `dScanQ i`
labels (own labels of `D`, but not events of `wait_defer`'s text).  At the granularity of `wait_defer`'s events the whole
scan is ONE step `scan f` of `D`'s local automaton: at pc `dscan`, `found` becomes `f` (it can only go from false to true).
`scan_sound`: every L2 run of `dScanQ` labels acts on the projection exactly like `scan f` with `f` = L2's `found`
afterwards – this is the hypothesis under which the oracle value of the call is read: "the call returned non-zero iff
L2's `found` is true after the scan" (the model's `found` is "some scanned queue was non-empty"). -/

inductive XLabel
  | l (w : WLabel)
  | scan (f : Bool)
  deriving DecidableEq, Repr

def xstep (c : Cfg) (ws : WState) : XLabel → Option WState
  | .l w => lstep c ws w
  | .scan f => if ws.dpc = .dscan ∧ (ws.found = true → f = true) then some { ws with found := f } else none

theorem scan_sound (c : Cfg) : ∀ (is : List Nat) (s s' : State), s.dpc = .dscan →
    run c s (is.map .dScanQ) = some s' → xstep c (projW s) (.scan s'.found) = some (projW s') := by
  intro is
  induction is with
  | nil =>
    intro s s' hpc h
    simp only [List.map_nil, run, Option.some.injEq] at h
    subst h
    simp [xstep, projW, hpc]
  | cons i is ih =>
    intro s s' hpc h
    simp only [List.map_cons, run] at h
    split at h
    · simp at h
    · rename_i s1 h1
      have hp := projW_scanQ c s s1 i h1
      have hpc1 : s1.dpc = .dscan := by
        have := congrArg WState.dpc hp
        simp only [projW] at this
        rw [this, hpc]
      have hi := ih s1 s' hpc1 h
      simp only [xstep, projW] at hi ⊢
      have hf1 : s1.found = (if s.mh i ≠ s.tl i then true else s.found) := by
        have := congrArg WState.found hp
        simpa [projW] using this
      by_cases hg : s1.dpc = .dscan ∧ (s1.found = true → s'.found = true)
      · simp only [hg, and_self, if_true, true_and] at hi
        have hgd : s.found = true → s'.found = true := by
          intro hs; apply hg.2
          rw [hf1]; split <;> simp [*]
        have hd : s'.dpc = .dscan := by simp_all
        simp [hpc, hd]
        exact hgd
      · simp [hg] at hi

/-- the wait loop of `wait_defer` starts at L2 pc `dwloop` and ends at `d0` (the caller loops) -/
def pcMap (f : Bool) : GWPc → WState
  | .chk => ⟨.dwloop, f⟩ | .call => ⟨.dwait, f⟩ | .asleep => ⟨.dsleep, f⟩ | .done => ⟨.d0, f⟩

def gw2l : GWLabel → List WLabel
  | .ldArmed => [.dLoad (-1)] | .ldOther v => [.dLoad v] | .sleep => [.dWaitSleep] | .woken => [.woken]
  | .eagain => [.dWaitEagain] | .intr => [.dWaitIntr]

theorem sim (c : Cfg) (f : Bool) (g : GWPc) (l : GWLabel) (g' : GWPc) (h : gwstep (-1) g l = some g') :
    runA (lstep c) (pcMap f g) (gw2l l) = some (pcMap f g') := by
  cases g <;> cases l <;> simp only [gwstep] at h <;> (try split at h) <;> simp at h <;> subst h <;>
    simp_all [runA, gw2l, lstep, pcMap]

/-! ### owner `i` as waker (`_defer_rcu` … `wake_up_defer`) -/

structure KState where
  kpc : KPc
  r   : Int
  deriving DecidableEq, Repr

def projK (s : State) (i : Nat) : KState := { kpc := s.kpc i, r := s.r i }

inductive KLabel
  | k0 | kf | k1 (v : Int) | k2Wake | k2Skip | k3
  deriving DecidableEq, Repr

def KLabel.toL2 (i : Nat) : KLabel → Label
  | .k0 => .k0 i | .kf => .kf i | .k1 _ => .k1 i | .k2Wake => .k2Wake i | .k2Skip => .k2Skip i | .k3 => .k3 i

def ownerK : Label → Option Nat
  | .k0 i | .kf i | .k1 i | .k2Wake i | .k2Skip i | .k3 i => some i
  | _ => none

def kstep (ks : KState) : KLabel → Option KState
  | .k0 => if ks.kpc = .k0 then some { ks with kpc := .kf } else none
  | .kf => if ks.kpc = .kf then some { ks with kpc := .k1 } else none
  | .k1 v => if ks.kpc = .k1 then some { kpc := .k2, r := v } else none
  | .k2Wake => if ks.kpc = .k2 ∧ ks.r = -1 then some { ks with kpc := .k3 } else none
  | .k2Skip => if ks.kpc = .k2 ∧ ks.r ≠ -1 then some { ks with kpc := .k0 } else none
  | .k3 => if ks.kpc = .k3 then some { ks with kpc := .k0 } else none

def ObsK (s : State) : KLabel → Prop
  | .k1 v => v = s.futex
  | _ => True

def GuardK (c : Cfg) (s : State) (i : Nat) : KLabel → Prop
  | .k0 => i < c.n
  | .kf => c.mbBeforeWake = true → s.bhd i = false
  | .k1 v => v = s.futex
  | .k3 => s.bhd i = false ∧ s.bfut i = false
  | _ => True

theorem projK_step (c : Cfg) (s s' : State) (i : Nat) (l : KLabel)
    (st : step c s (l.toL2 i) = some s') (ho : ObsK s l) : kstep (projK s i) l = some (projK s' i) := by
  cases l <;> simp only [KLabel.toL2, step] at st <;> (repeat' split at st) <;>
    first
    | (simp at st; done)
    | (simp only [Option.some.injEq] at st; subst st; simp_all [ObsK, kstep, projK, upd])

theorem projK_enabled (c : Cfg) (s : State) (i : Nat) (l : KLabel) (ks' : KState)
    (hl : kstep (projK s i) l = some ks') (hg : GuardK c s i l) :
    ∃ s', step c s (l.toL2 i) = some s' ∧ projK s' i = ks' ∧ ObsK s l := by
  cases l <;> simp only [kstep] at hl <;> (repeat' split at hl) <;>
    first
    | (simp at hl; done)
    | (simp only [Option.some.injEq] at hl; subst hl; simp_all [ObsK, GuardK, KLabel.toL2, step, projK, upd])

theorem projK_frame (c : Cfg) (s s' : State) (i : Nat) (l : Label)
    (st : step c s l = some s') (ho : ownerK l ≠ some i) : projK s' i = projK s i := by
  cases l <;> simp only [step] at st <;> (repeat' split at st) <;>
    first
    | (simp at st; done)
    | (simp only [Option.some.injEq] at st; subst st; simp_all [ownerK, projK, upd] <;> grind)

/-- generic waker = `wake_up_defer()`: L2 pcs `k1 → k2 → k3 → k0` (`k0`, `kf` – the store of `head` and the
`cmm_smp_mb()` – are in the caller `_defer_rcu`) -/
def kMap (s : GKState) : KState :=
  { kpc := match s.kpc with | .k1 => .k1 | .k2 => .k2 | .k3 => .k3 | .k4 => .k0, r := s.r }

def gk2l : GKLabel → List KLabel
  | .k1 v => [.k1 v] | .k2Wake => [.k2Wake] | .k2Skip => [.k2Skip] | .k3 => [.k3]

theorem simK (s : GKState) (l : GKLabel) (s' : GKState) (h : gkstep s l = some s') :
    runA kstep (kMap s) (gk2l l) = some (kMap s') := by
  obtain ⟨pc, r⟩ := s
  cases l <;> simp only [gkstep] at h <;> split at h <;> simp at h <;> subst h <;>
    simp_all [runA, gk2l, kstep, kMap]

end Df

/-! ## `Handshake/WaitNode.lean` (wait nodes of `src/urcu-wait.h`): one leader / waiter pair per node -/

namespace Wn
open WaitNode

/-! ### waiter (`urcu_adaptative_busy_wait`) -/

inductive WLabel
  | wSeeWaiting | wSleep | wEagain | woken | wSeeWoken | wOrRunning | wSeeTeardown
  deriving DecidableEq, Repr

def WLabel.toL2 : WLabel → Label
  | .wSeeWaiting => .wSeeWaiting | .wSleep => .wSleep | .wEagain => .wEagain | .woken => .wSpurious
  | .wSeeWoken => .wSeeWoken | .wOrRunning => .wOrRunning | .wSeeTeardown => .wSeeTeardown

def lstep (pc : WPc) : WLabel → Option WPc
  | .wSeeWaiting => if pc = .spin then some .spin else none
  | .wSleep => if pc = .spin then some .sleep else none
  | .wEagain => if pc = .spin then some .orRun else none
  | .woken => if pc = .sleep then some .spin else none
  | .wSeeWoken => if pc = .spin then some .orRun else none
  | .wOrRunning => if pc = .orRun then some .waitTd else none
  | .wSeeTeardown => if pc = .waitTd then some .returned else none

/-- the non-local part of the waiter's guards: what the labels observe of the state word -/
def GuardW (s : State) : WLabel → Prop
  | .wSeeWaiting | .wSleep => s.wakeup = false
  | .wEagain | .wSeeWoken => s.wakeup = true
  | .wSeeTeardown => s.teardown = true
  | _ => True

def ownedW : Label → Bool
  | .wSeeWaiting | .wSleep | .wEagain | .wSpurious | .wSeeWoken | .wOrRunning | .wSeeTeardown => true
  | _ => false

def wakeEffect (pc : WPc) : WPc := if pc = .sleep then .spin else pc

theorem projW_step (s s' : State) (l : WLabel) (st : step s l.toL2 = some s') :
    lstep s.wpc l = some s'.wpc ∧ GuardW s l := by
  cases l <;> simp only [WLabel.toL2, step] at st <;> (repeat' split at st) <;>
    first
    | (simp at st; done)
    | (simp only [Option.some.injEq] at st; subst st; simp_all [lstep, GuardW])

theorem projW_enabled (s : State) (l : WLabel) (pc' : WPc) (hl : lstep s.wpc l = some pc') (hg : GuardW s l) :
    ∃ s', step s l.toL2 = some s' ∧ s'.wpc = pc' := by
  cases l <;> simp only [lstep] at hl <;> (repeat' split at hl) <;>
    first
    | (simp at hl; done)
    | (simp only [Option.some.injEq] at hl; subst hl; simp_all [GuardW, WLabel.toL2, step])

/-- the leader's `lStore lLoad lSkipWake lTeardown` and the memory system's `lFlush` leave the waiter's pc unchanged -/
theorem projW_frame (s s' : State) (l : Label) (st : step s l = some s') (ho : ownedW l = false) (hw : l ≠ .lWake) :
    s'.wpc = s.wpc := by
  cases l <;> simp only [step] at st <;> (repeat' split at st) <;>
    first
    | (simp at st; done)
    | (simp only [Option.some.injEq] at st; subst st; simp_all [ownedW, touch])

/-- the leader's FUTEX_WAKE acts on the waiter's pc like `woken` if it is asleep, not at all otherwise -/
theorem projW_env_wake (s s' : State) (st : step s .lWake = some s') :
    s'.wpc = wakeEffect s.wpc ∧ (s.wpc = .sleep → lstep s.wpc .woken = some s'.wpc) := by
  simp only [step] at st
  split at st
  · simp only [Option.some.injEq] at st; subst st
    refine ⟨?_, ?_⟩
    · by_cases hs : s.wpc = .sleep <;> simp [wakeEffect, touch, hs]
    · intro hs; simp [lstep, touch, hs]
  · simp at st

/-! ### leader (`urcu_adaptative_wake_up`) -/

/-- `lLoad b`: loaded the state word, saw RUNNING = `b` -/
inductive KLabel
  | lStore | lLoad (b : Bool) | lWake | lSkipWake | lTeardown
  deriving DecidableEq, Repr

def KLabel.toL2 : KLabel → Label
  | .lStore => .lStore | .lLoad _ => .lLoad | .lWake => .lWake | .lSkipWake => .lSkipWake | .lTeardown => .lTeardown

def kstep (pc : LPc) : KLabel → Option LPc
  | .lStore => if pc = .l0 then some .l1 else none
  | .lLoad b => if pc = .l1 then some (.l2 b) else none
  | .lWake => if pc = .l2 false then some .l3 else none
  | .lSkipWake => if pc = .l2 true then some .l3 else none
  | .lTeardown => if pc = .l3 then some .ldone else none

/-- the load is forwarded from the leader's store buffer while its `state := WAKEUP` is pending -/
def ObsK (s : State) : KLabel → Prop
  | .lLoad b => b = if s.bufWakeup then false else s.running
  | _ => True

/-- FUTEX_WAKE (system call) and the locked `or` drain the store buffer first -/
def GuardK (s : State) : KLabel → Prop
  | .lLoad b => b = if s.bufWakeup then false else s.running
  | .lWake | .lTeardown => s.bufWakeup = false
  | _ => True

def ownedK : Label → Bool
  | .lStore | .lLoad | .lWake | .lSkipWake | .lTeardown => true
  | _ => false

theorem projK_step (s s' : State) (l : KLabel) (st : step s l.toL2 = some s') (ho : ObsK s l) :
    kstep s.lpc l = some s'.lpc := by
  cases l <;> simp only [KLabel.toL2, step] at st <;> (repeat' split at st) <;>
    first
    | (simp at st; done)
    | (simp only [Option.some.injEq] at st; subst st; simp_all [ObsK, kstep, touch])

theorem projK_enabled (s : State) (l : KLabel) (pc' : LPc) (hl : kstep s.lpc l = some pc') (hg : GuardK s l) :
    ∃ s', step s l.toL2 = some s' ∧ s'.lpc = pc' ∧ ObsK s l := by
  cases l <;> simp only [kstep] at hl <;> (repeat' split at hl) <;>
    first
    | (simp at hl; done)
    | (simp only [Option.some.injEq] at hl; subst hl; simp_all [ObsK, GuardK, KLabel.toL2, step, touch])

/-- the waiter's labels and `lFlush` leave the leader's pc unchanged -/
theorem projK_frame (s s' : State) (l : Label) (st : step s l = some s') (ho : ownedK l = false) : s'.lpc = s.lpc := by
  cases l <;> simp only [step] at st <;> (repeat' split at st) <;>
    first
    | (simp at st; done)
    | (simp only [Option.some.injEq] at st; subst st; simp_all [ownedK, touch])

end Wn

/-! ## `CallRcu/Barrier.lean` (the completion futex of `rcu_barrier()`): caller `t` = waiter
(`call_rcu_completion_wait`), the marker callback on helper `h` = waker (`call_rcu_completion_wake_up`)

Only the futex part of the two programs (labels `bWaitLd bWaitFx bSpurious` and `mLdFut mStFut mWake`). -/

namespace Br
open CallRcu

inductive WLabel
  | bWaitLd (v : Int) | bWaitFx (o : FOut) | woken
  deriving DecidableEq, Repr

def WLabel.toL2 (t : Nat) : WLabel → BLabel
  | .bWaitLd _ => .bWaitLd t | .bWaitFx o => .bWaitFx t o | .woken => .bSpurious t

/-- local automaton of caller `t` inside `call_rcu_completion_wait`: its pc (which carries the completion `b`) -/
def lstep (pc : BPc) : WLabel → Option BPc
  | .bWaitLd v =>
    match pc with
    | .waitLd b => some (if v = -1 then .waitFx b else .dec b)
    | _ => none
  | .bWaitFx o =>
    match pc with
    | .waitFx b =>
      match o with
      | .sleep => some (.asleep b)
      | .eagain => some (.dec b)
      | .eintr => some (.waitLd b)
      | .spurious => some (.waitLd b)
    | _ => none
  | .woken =>
    match pc with
    | .asleep b => some (.waitLd b)
    | _ => none

def ObsW (s : BState) (t : Nat) : WLabel → Prop
  | .bWaitLd v => ∀ b, s.bpc t = .waitLd b → v = s.fut b
  | _ => True

def GuardW (s : BState) (t : Nat) : WLabel → Prop
  | .bWaitLd v => ∀ b, s.bpc t = .waitLd b → v = s.fut b
  | .bWaitFx .sleep => ∀ b, s.bpc t = .waitFx b → s.fut b = -1
  | .bWaitFx .eagain => ∀ b, s.bpc t = .waitFx b → s.fut b ≠ -1
  | _ => True

theorem projW_step (c : Cfg) (s s' : BState) (t : Nat) (l : WLabel)
    (st : bstep c s (l.toL2 t) = some s') (ho : ObsW s t l) : lstep (s.bpc t) l = some (s'.bpc t) := by
  cases l with
  | bWaitFx o =>
    cases o <;> simp only [WLabel.toL2, bstep] at st <;> (repeat' split at st) <;>
      first
      | (simp at st; done)
      | (simp only [Option.some.injEq] at st; subst st; simp_all [ObsW, lstep, upd])
  | _ =>
    simp only [WLabel.toL2, bstep] at st <;> (repeat' split at st) <;>
      first
      | (simp at st; done)
      | (simp only [Option.some.injEq] at st; subst st; simp_all [ObsW, lstep, upd])

theorem projW_enabled (c : Cfg) (s : BState) (t : Nat) (l : WLabel) (pc' : BPc)
    (hl : lstep (s.bpc t) l = some pc') (hg : GuardW s t l) :
    ∃ s', bstep c s (l.toL2 t) = some s' ∧ s'.bpc t = pc' := by
  cases l with
  | bWaitFx o =>
    cases o <;> simp only [lstep] at hl <;> (repeat' split at hl) <;>
      first
      | (simp at hl; done)
      | (simp only [Option.some.injEq] at hl; subst hl; simp_all [GuardW, WLabel.toL2, bstep, upd])
  | _ =>
    simp only [lstep] at hl <;> (repeat' split at hl) <;>
      first
      | (simp at hl; done)
      | (simp only [Option.some.injEq] at hl; subst hl; simp_all [GuardW, WLabel.toL2, bstep, upd])

/-- the marker's FUTEX_WAKE (`mWake h`) either leaves caller `t`'s pc alone or acts on it like the local label `woken` -/
theorem projW_env_wake (c : Cfg) (s s' : BState) (h t : Nat) (st : bstep c s (.mWake h) = some s') :
    s'.bpc t = s.bpc t ∨ lstep (s.bpc t) .woken = some (s'.bpc t) := by
  simp only [bstep] at st
  split at st
  · split at st
    · simp only [Option.some.injEq] at st; subst st
      rename_i b _ _ _
      by_cases hb : s.bpc (s.caller b) = .asleep b
      · by_cases ht : s.caller b = t
        · subst ht; right; simp [hb, lstep, upd]
        · left; simp [hb, upd, ht]; intro h; exact absurd h.symm ht
      · left; simp [hb]
    · simp at st
  · simp at st

/-- the caller thread whose pc a label of `rcu_barrier()` moves -/
def ownerW : BLabel → Option Nat
  | .bCall t | .bLock t | .bInit t | .bEnq t _ _ | .bUnlock t | .bDec t | .bLdCnt t | .bWaitLd t | .bWaitFx t _
  | .bSpurious t | .bPut t => some t
  | _ => none

/-- every label that is neither caller `t`'s nor a marker's FUTEX_WAKE leaves `t`'s pc unchanged (all the C03 labels
`.base l`, other callers' labels, the markers' `mSub mLdFut mStFut mPut`, `bRefused`) -/
theorem projW_frame (c : Cfg) (s s' : BState) (t : Nat) (l : BLabel)
    (st : bstep c s l = some s') (ho : ownerW l ≠ some t) (hw : ∀ h, l ≠ .mWake h) : s'.bpc t = s.bpc t := by
  cases l <;> simp only [bstep] at st <;> (repeat' split at st) <;>
    first
    | (simp at st; done)
    | (simp only [Option.some.injEq] at st; subst st; simp_all [ownerW, upd] <;> grind)

/-- the helper whose marker pc a label moves (`hRunEnd h` resets it) -/
def ownerK : BLabel → Option Nat
  | .mSub h | .mLdFut h | .mStFut h | .mWake h | .mPut h => some h
  | .base (.hRunEnd h) => some h
  | _ => none

theorem projK_frame (c : Cfg) (s s' : BState) (h : Nat) (l : BLabel)
    (st : bstep c s l = some s') (ho : ownerK l ≠ some h) : s'.mpc h = s.mpc h := by
  cases l <;> simp only [bstep] at st <;> (repeat' split at st) <;>
    first
    | (simp at st; done)
    | (simp only [Option.some.injEq] at st; subst st; simp_all [ownerK, upd] <;> grind)

def pcMap (b : Nat) : GWPc → BPc
  | .chk => .waitLd b | .call => .waitFx b | .asleep => .asleep b | .done => .dec b

def gw2l : GWLabel → List WLabel
  | .ldArmed => [.bWaitLd (-1)] | .ldOther v => [.bWaitLd v] | .sleep => [.bWaitFx .sleep] | .woken => [.woken]
  | .eagain => [.bWaitFx .eagain] | .intr => [.bWaitFx .eintr]

theorem sim (b : Nat) (g : GWPc) (l : GWLabel) (g' : GWPc) (h : gwstep (-1) g l = some g') :
    runA lstep (pcMap b g) (gw2l l) = some (pcMap b g') := by
  cases g <;> cases l <;> simp only [gwstep] at h <;> (try split at h) <;> simp at h <;> subst h <;>
    simp_all [runA, gw2l, lstep, pcMap]

/-! ### the marker callback on helper `h` as waker -/

inductive KLabel
  | mLdFut (v : Int) | mStFut | mWake
  deriving DecidableEq, Repr

def KLabel.toL2 (h : Nat) : KLabel → BLabel
  | .mLdFut _ => .mLdFut h | .mStFut => .mStFut h | .mWake => .mWake h

def kstep (pc : MPc) : KLabel → Option MPc
  | .mLdFut v => if pc = .ldFut then some (if v = -1 then .stFut else .put) else none
  | .mStFut => if pc = .stFut then some .wake else none
  | .mWake => if pc = .wake then some .put else none

def ObsK (s : BState) (h : Nat) : KLabel → Prop
  | .mLdFut v => ∀ b h', s.mrun h = some (b, h') → v = s.fut b
  | _ => True

/-- the marker runs (`mrun h` is set) and the value loaded is the completion's futex word -/
def GuardK (s : BState) (h : Nat) : KLabel → Prop
  | .mLdFut v => ∃ b h', s.mrun h = some (b, h') ∧ v = s.fut b
  | _ => (s.mrun h).isSome = true

theorem projK_step (c : Cfg) (s s' : BState) (h : Nat) (l : KLabel)
    (st : bstep c s (l.toL2 h) = some s') (ho : ObsK s h l) : kstep (s.mpc h) l = some (s'.mpc h) := by
  cases l <;> simp only [KLabel.toL2, bstep] at st <;> (repeat' split at st) <;>
    first
    | (simp at st; done)
    | (simp only [Option.some.injEq] at st; subst st; simp_all [ObsK, kstep, upd])

theorem projK_enabled (c : Cfg) (s : BState) (h : Nat) (l : KLabel) (pc' : MPc)
    (hl : kstep (s.mpc h) l = some pc') (hg : GuardK s h l) :
    ∃ s', bstep c s (l.toL2 h) = some s' ∧ s'.mpc h = pc' := by
  cases l <;> simp only [kstep] at hl <;> (repeat' split at hl) <;>
    first
    | (simp at hl; done)
    | (simp only [Option.some.injEq] at hl; subst hl
       simp only [GuardK] at hg
       first
       | (obtain ⟨b, h', hm, hv⟩ := hg; simp_all [KLabel.toL2, bstep, upd])
       | (cases hm : s.mrun h with
          | none => simp [hm] at hg
          | some p => obtain ⟨b, h'⟩ := p; simp_all [KLabel.toL2, bstep, upd]))

/-- generic waker ↦ the marker's pcs (`mLdFut` already branches on the value: the generic pc `k2` with register `r` is
`stFut` or `put`) -/
def kMap (s : GKState) : MPc :=
  match s.kpc with
  | .k1 => .ldFut | .k2 => (if s.r = -1 then .stFut else .put) | .k3 => .wake | .k4 => .put

def gk2l : GKLabel → List KLabel
  | .k1 v => [.mLdFut v] | .k2Wake => [.mStFut] | .k2Skip => [] | .k3 => [.mWake]

theorem simK (s : GKState) (l : GKLabel) (s' : GKState) (h : gkstep s l = some s') :
    runA kstep (kMap s) (gk2l l) = some (kMap s') := by
  obtain ⟨pc, r⟩ := s
  cases l <;> simp only [gkstep] at h <;> split at h <;> simp at h <;> subst h <;>
    simp_all [runA, gk2l, kstep, kMap]

end Br

end UrcuVerif.Src.Futex
