import UrcuVerif.Src.Lfht6Add
/-!
# `Lfht5Add.lean` + `Lfht6Add.lean` for `unique_ret` at an arbitrary location, and the wrapper `cds_lfht_add_unique`

`cds_lfht_add_unique` passes the address of its local `iter` (`Loc.glob "&iter"` in the generated IR) as `unique_ret`;
`LfhtUR.addU_exec` is stated for an iterator object `Loc.obj U`.  First part of this file: the same definitions, statements
and proofs with `U : Loc` (namespace `LfhtUG`, generated from the two files by textual substitution).  Second part: the
wrapper.
-/
namespace UrcuVerif.Src.LfhtUG
open UrcuVerif UrcuVerif.Src UrcuVerif.Lfht.Conc UrcuVerif.Src.LfhtR UrcuVerif.Src.LfhtAR

abbrev US := LfhtU.LState
def mkU (x : Thr) (o : Lfht.Conc.Out := .unit) : US := ⟨x, .none, .none, o⟩

/-- the local `d_iter` of `_cds_lfht_add` -/
def dI : Loc := .glob "&d_iter"

theorem laddPos_nb (rev : Nat → Nat) (x : Thr) (h : x.mode ≠ .bkt) :
    LfhtA.laddPos rev x = { x with pc := apc rev x.node x.iter.ptr } := by
  unfold LfhtA.laddPos apc
  by_cases h1 : x.iter.ptr = 0
  · simp [h1]
  · by_cases h2 : rev x.node < rev x.iter.ptr <;> simp [h1, h2, h]

theorem revView_set (rev : Nat → Nat) (p : Loc → Option Val) (l : Loc) (v : Val)
    (hl : ∀ n, Loc.field (.obj n) "reverse_hash" ≠ l) (h : RevView rev p) :
    RevView rev (fun m => if m = l then some v else p m) := by
  intro n hn
  simp only [hl n, if_false]; exact h n hn

theorem rh_ne_field (n : Nat) (b : Loc) (f : String) (hf : f ≠ "reverse_hash") :
    Loc.field (.obj n) "reverse_hash" ≠ Loc.field b f := by
  intro he; injection he with _ h2; exact hf h2.symm

/-- `dupG_exec` in the form used at the call site -/
theorem dupG_exec' (K : LfhtW.LState → List Val → Prop) (fuel : Nat) (rev : Nat → Nat) (env : Env) (inp : List Val)
    (x0 : Thr) (N : Nat) (itx : W) (it : Loc) (k : Nat) (r : Except String Src.Out)
    (hE : exec fuel Gen.Src.«lfht.cds_lfht_next_duplicate» env inp = r)
    (hiter : env.vars "iter" = some (.ptr it)) (hkey : env.vars "key" = some (.int k))
    (hin : env.priv (.field it "node") = some (.ptr (.obj N))) (hN : N ≠ 0)
    (hix : env.priv (.field it "next") = some (encW itx)) (hrev : RevView rev env.priv)
    (hwk : x0.wk = .dupAdd) (hrh : x0.rh = rev N) (hky : x0.ky = k)
    (hO : LfhtWR.OracleK K rev (LfhtW.ofPair (LfhtW.lwalkPos rev x0 itx.ptr)) inp) :
    ∃ out, r = .ok out ∧
      ∃ ls', LfhtWR.lr rev (LfhtW.ofPair (LfhtW.lwalkPos rev x0 itx.ptr)) out.events = some ls' ∧
        LfhtWR.DupGDone K env.priv it x0 out ls' := by
  subst hE
  exact LfhtWR.dupG_exec K fuel rev env inp x0 N itx it k hiter hkey hin hN hix hrev hwk hrh hky hO

/-- environment ~ thread record inside the loops of `_cds_lfht_add` (`M` = L2's mode: `uniq` or `repl`; `U` = the
iterator `unique_ret` points to) -/
def AddRelU (rev : Nat → Nat) (B N : Nat) (U : Loc) (ky : Nat) (M : Mode) (htv szv mv : Val) (gi gg : Int) (env : Env) (x : Thr) : Prop :=
  env.vars "bucket" = some (.ptr (.obj B)) ∧ env.vars "node" = some (.ptr (.obj N)) ∧
  env.vars "iter_prev" = some (.ptr (.obj x.prev)) ∧ env.vars "iter" = some (encW x.iter) ∧
  env.vars "bucket_flag" = some (.int 0) ∧ env.vars "unique_ret" = some (.ptr U) ∧
  env.vars "_goto_insert" = some (.int gi) ∧ env.vars "_goto_gc_node" = some (.int gg) ∧
  env.vars "_goto_end" = some (.int 0) ∧ env.vars "ht" = some htv ∧ env.vars "size" = some szv ∧
  env.vars "key" = some (.int ky) ∧ env.vars "match" = some mv ∧
  (∃ k : Int, env.vars "chain_len" = some (.int k)) ∧ RevView rev env.priv ∧
  x.bkt = B ∧ x.node = N ∧ x.mode = M ∧ x.ky = ky ∧ x.prev ≠ 0 ∧ x.iter.rem = false ∧ x.iter.own = false ∧ x.iter.ptr ≠ N

def notW (x : Thr) : Prop := x.pc ≠ .lSize ∧ x.pc ≠ .lHead ∧ x.pc ≠ .fHead ∧ x.pc ≠ .wNext ∧ x.pc ≠ .wAssert

/-- invariant at the head of the inner loop -/
def AddIU (rev : Nat → Nat) (B N : Nat) (U : Loc) (ky : Nat) (M : Mode) (htv szv mv : Val) (env : Env) (inp : List Val) (ls : US) : Prop :=
  AddRelU rev B N U ky M htv szv mv 0 0 env ls.x ∧ ls.pa = .none ∧ ls.pw = .none ∧
    ls.x.pc = apc rev ls.x.node ls.x.iter.ptr ∧ LfhtU.OracleU rev ls inp

/-- the duplicate `n` was found: `*unique_ret = (n, w)`, L2's thread is where `walkRet` puts the `dupAdd` walk -/
def DupFound (rev : Nat → Nat) (N : Nat) (U : Loc) (M : Mode) (env : Env) (ls : US) : Prop :=
  ∃ (x2 : Thr) (n : Nat) (w : W), n ≠ 0 ∧ x2.wk = .dupAdd ∧ x2.mode = M ∧ x2.node = N ∧ x2.cur = n ∧ x2.wnx = w ∧
    ls = LfhtU.ofW (LfhtW.ofPair (LfhtW.lwalkRet x2 n w)) ∧
    env.priv (.field U "node") = some (.ptr (.obj n)) ∧ env.priv (.field U "next") = some (encW w) ∧
    RevView rev env.priv

/-- how the inner loop ends -/
def AddRU (rev : Nat → Nat) (B N : Nat) (U : Loc) (ky : Nat) (M : Mode) (htv szv mv : Val)
    (c : Ctl) (env : Env) (inp : List Val) (ls : US) : Prop :=
  match c with
  | .brk => (AddRelU rev B N U ky M htv szv mv 1 0 env ls.x ∧ ls.pa = .none ∧ ls.pw = .none ∧ ls.x.pc = .aCas ∧
        LfhtU.OracleU rev ls inp) ∨
      (AddRelU rev B N U ky M htv szv mv 0 1 env ls.x ∧ env.vars "next" = some (encW ls.x.nx) ∧ ls.pa = .none ∧
        ls.pw = .none ∧ ls.x.pc = .aGc ∧ LfhtU.OracleU rev ls inp)
  | .ret v => v = none ∧ DupFound rev N U M env ls
  | .blocked => True
  | .fuel => True
  | _ => False

theorem runA {rev : Nat → Nat} {a a' : LfhtA.LState} {e : Event}
    (h : LfhtA.lstep rev a (LfhtAR.absEv e) = some a') (evs : List Event) :
    LfhtU.lrun rev (LfhtU.ofA a) (e :: evs) = LfhtU.lrun rev (LfhtU.ofA a') evs := by
  simp only [LfhtU.lrun, LfhtU.lstep_ofA h]

theorem addU_inner_body (fuel : Nat) (rev : Nat → Nat) (B N : Nat) (U : Loc) (ky : Nat) (M : Mode) (htv szv mv : Val)
    (hM : M = .uniq ∨ M = .repl) (hN : N ≠ 0)
    (env : Env) (inp : List Val) (ls : US) (hI : AddIU rev B N U ky M htv szv mv env inp ls) :
    ∃ o, exec fuel addInner env inp = .ok o ∧ ∃ ls', LfhtU.lrun rev ls o.events = some ls' ∧
      (if o.ctl.goesOn then AddIU rev B N U ky M htv szv mv o.env o.inp ls'
       else AddRU rev B N U ky M htv szv mv o.ctl o.env o.inp ls') := by
  rcases ls with ⟨x, pa, pw, out⟩
  obtain ⟨hrel, hpa, hpw, hpc, hO⟩ := hI
  dsimp only at hpa hpw hpc hrel; subst hpa; subst hpw
  obtain ⟨hb, hn, hp, hi, hbf, hur, hgi, hgg, hge, hht, hsz, hkey, hmt, ⟨k, hk⟩, hrev, hxb, hxn, hmode, hxky, hp0,
    hcr, hco, hcn⟩ := hrel
  have hMb : M ≠ .bkt := by rcases hM with rfl | rfl <;> decide
  by_cases h0 : x.iter.ptr = 0
  · lexec [addInner, addOuter, firstLoop, Gen.Src.«lfht._cds_lfht_add», call_is_end, call_clear_flag,
      call_is_removed, call_is_bucket, pureCall, bind1]
    refine ⟨_, LfhtU.lrun_nil _ _, ?_⟩
    have h0N : ¬ 0 = N := fun h => hN h.symm
    simp [Ctl.goesOn, AddRU, AddRelU, apc, *]
  · have hri := hrev _ h0
    have hrn := hrev _ hN
    have hrp := hrev _ hp0
    by_cases hgt : rev N < rev x.iter.ptr
    · lexec [addInner, addOuter, firstLoop, Gen.Src.«lfht._cds_lfht_add», call_is_end, call_clear_flag,
        call_is_removed, call_is_bucket, pureCall, bind1, encP_pos h0]
      refine ⟨_, LfhtU.lrun_nil _ _, ?_⟩
      simp [Ctl.goesOn, AddRU, AddRelU, apc, *]
    · have hpcN : x.pc = .aNext := by simp [hpc, apc, h0, hxn, hgt]
      clear hpc
      cases inp with
      | nil =>
        lexec [addInner, addOuter, firstLoop, Gen.Src.«lfht._cds_lfht_add», call_is_end, call_clear_flag,
          call_is_removed, call_is_bucket, pureCall, bind1, encP_pos h0]
        exact ⟨_, LfhtU.lrun_nil _ _, by simp [Ctl.goesOn, AddRU]⟩
      | cons v rest =>
        obtain ⟨l, hl, hrest⟩ := LfhtU.oracleU_A hO (by simp [hpcN]) (by simp [LfhtAR.active, hpcN])
        clear hO
        simp only [LfhtAR.obsLabel, hpcN] at hl
        cases hd : decW v with
        | none => simp [hd] at hl
        | some w =>
          have hv := encW_of_decW hd; subst hv
          simp only [decW_encW, Option.bind] at hl
          split at hl <;> cases hl
          rename_i hw
          obtain ⟨hown, hwn⟩ := hw
          have hev : LfhtAR.absEv (Event.ld ((Loc.obj x.iter.ptr).field "next") (encW w) 1) =
              .ldNext x.iter.ptr w 1 := by simp [LfhtAR.absEv]
          by_cases hr : w.rem
          · have hs1 : LfhtA.lstep rev ⟨x, .none, out⟩ (.ldNext x.iter.ptr w 1) =
                some (LfhtA.mk { x with nx := w, pc := .aGc }) := by simp [LfhtA.lstep, hpcN, hr]
            have hO1 := hrest _ hs1
            lexec [addInner, addOuter, firstLoop, Gen.Src.«lfht._cds_lfht_add», call_is_end, call_clear_flag,
              call_is_removed, call_is_bucket, pureCall, bind1, encP_pos h0]
            refine ⟨LfhtU.ofA (LfhtA.mk { x with nx := w, pc := .aGc }), (runA (a := ⟨x, .none, out⟩) (hev ▸ hs1) _).trans rfl, ?_⟩
            simp only [Ctl.goesOn, AddRU]
            exact .inr ⟨by simp [AddRelU, LfhtU.ofA, LfhtA.mk, *], by simp [LfhtU.ofA, LfhtA.mk], rfl, rfl, rfl, hO1⟩
          · have hwo : w.own = false := by
              cases ho : w.own
              · rfl
              · exact absurd (hown ho) hr
            have hwn' : w.ptr ≠ N := by rw [← hxn]; exact hwn (by simpa using hr)
            by_cases hu : w.bkt = false ∧ rev x.iter.ptr = rev N
            · obtain ⟨hwb, hrq⟩ := hu
              have hmu : x.mode = .uniq ∨ x.mode = .repl := hmode ▸ hM
              obtain ⟨x0, hx0⟩ : ∃ x0 : Thr, x0 = { x with nx := w, wk := .dupAdd, rh := rev x.node } := ⟨_, rfl⟩
              obtain ⟨x1, hx1⟩ : ∃ x1 : Thr, x1 = { x0 with cur := x.iter.ptr, pc := .wNext } := ⟨_, rfl⟩
              have hs1 : LfhtA.lstep rev ⟨x, .none, out⟩ (.ldNext x.iter.ptr w 1) = some (LfhtA.mk x1) := by
                rw [hx1, hx0]; simp [LfhtA.lstep, hpcN, hr, hmu, hwb, hrq, hxn, LfhtA.mk]
              have hO1 := hrest _ hs1
              have hpos : LfhtW.lwalkPos rev x0 x.iter.ptr = (x1, .unit) := by
                rw [hx1]; simp [LfhtW.lwalkPos, h0, hx0, hrq, hxn]
              have hOK : LfhtWR.OracleK (LfhtU.KU rev) rev (LfhtW.ofPair (LfhtW.lwalkPos rev x0 x.iter.ptr)) rest := by
                rw [hpos]; exact LfhtU.oracleK_of_U rev rest _ hO1
              have hx0wk : x0.wk = .dupAdd := by rw [hx0]
              have hx0rh : x0.rh = rev N := by rw [hx0, hxn]
              have hx0ky : x0.ky = ky := by rw [hx0]; exact hxky
              clear hrest
              lexec [addInner, addOuter, firstLoop, Gen.Src.«lfht._cds_lfht_add», call_is_end, call_clear_flag,
                call_is_removed, call_is_bucket, pureCall, bind1, encP_pos h0, Int.natCast_inj]
              simp only [exec_call]
              lexec
              generalize hE : exec fuel Gen.Src.«lfht.cds_lfht_next_duplicate» _ rest = r
              have hrv' : RevView rev (fun m => if m = (Loc.glob "&d_iter").field "next" then some (encW x.iter)
                  else if m = (Loc.glob "&d_iter").field "node" then some (Val.ptr (Loc.obj N)) else env.priv m) :=
                revView_set rev _ _ _ (fun n => rh_ne_field n _ _ (by decide))
                  (revView_set rev _ _ _ (fun n => rh_ne_field n _ _ (by decide)) hrev)
              obtain ⟨o1, rfl, ls2, hl2, hdone⟩ := dupG_exec' (LfhtU.KU rev) fuel rev _ rest x0 N x.iter
                (.glob "&d_iter") ky r hE (by simp) (by simp) (by simp) hN (by simp) hrv' hx0wk hx0rh hx0ky hOK
              rw [hpos] at hl2
              rcases o1 with ⟨ev1, env1, inp1, ctl1⟩
              dsimp only at hl2
              have hrunW := LfhtU.lrun_ofW hl2
              clear hl2
              have hrun : Unit → LfhtU.lrun rev ⟨x, .none, .none, out⟩
                  (Event.ld ((Loc.obj x.iter.ptr).field "next") (encW w) 1 :: ev1) = some (LfhtU.ofW ls2) := fun _ =>
                (runA (a := ⟨x, .none, out⟩) (a' := LfhtA.mk x1) (hev ▸ hs1) _).trans hrunW
              rcases hdone with hbl | hfu | ⟨hc, x2, n, w2, hwk2, hcore2, hls2, hn2, hn0', hpn, hpx, hfr, hK⟩
              · dsimp only at hbl; subst hbl
                lexec
                first | done | trivial | exact ⟨LfhtU.ofW ls2, hrun (), by simp [Ctl.goesOn, AddRU]⟩
              · dsimp only at hfu; subst hfu
                lexec
                first | done | trivial | exact ⟨LfhtU.ofW ls2, hrun (), by simp [Ctl.goesOn, AddRU]⟩
              · dsimp only at hc hpn hpx hfr hK; subst hc
                have hrv1 : RevView rev env1.priv := by
                  intro k hk
                  rw [hfr _ (rh_ne_field k _ _ (by decide)) (rh_ne_field k _ _ (by decide))]
                  exact hrv' k hk
                have e1 : x2.prev = x.prev := by have := congrArg Thr.prev hcore2; rw [hx0] at this; exact this
                have e2 : x2.iter = x.iter := by have := congrArg Thr.iter hcore2; rw [hx0] at this; exact this
                have e3 : x2.bkt = x.bkt := by have := congrArg Thr.bkt hcore2; rw [hx0] at this; exact this
                have e4 : x2.node = x.node := by have := congrArg Thr.node hcore2; rw [hx0] at this; exact this
                have e5 : x2.mode = x.mode := by have := congrArg Thr.mode hcore2; rw [hx0] at this; exact this
                have e6 : x2.ky = x.ky := by have := congrArg Thr.ky hcore2; rw [hx0] at this; exact this
                by_cases hn : n = 0
                · subst hn
                  have hret : LfhtW.lwalkRet x2 0 w2 = ({ x2 with pc := .aCas }, .unit) := by
                    simp [LfhtW.lwalkRet, hwk2]
                  rw [hret] at hls2
                  have hpn' : env1.priv ((Loc.glob "&d_iter").field "node") = some (.int 0) := by simpa using hpn
                  clear hpn
                  lexec
                  refine ⟨LfhtU.ofW ls2, hrun (), ?_⟩
                  simp only [Ctl.goesOn, AddRU]
                  subst hls2
                  refine .inl ⟨?_, rfl, rfl, rfl, hK⟩
                  simp [AddRelU, LfhtU.ofW, LfhtW.ofPair, e1, e2, e3, e4, e5, e6, *]
                · have hpn' : env1.priv ((Loc.glob "&d_iter").field "node") = some (.ptr (.obj n)) := by
                    rw [hpn, encP_pos hn]
                  clear hpn
                  obtain ⟨hc2, hw2, -, -⟩ := hn2 hn
                  lexec
                  refine ⟨LfhtU.ofW ls2, hrun (), ?_⟩
                  simp only [Ctl.goesOn, AddRU]
                  refine ⟨by first | rfl | trivial, x2, n, w2, hn, hwk2, e5.trans hmode, e4.trans hxn, hc2, hw2, hls2 ▸ rfl, by simp, by simp, ?_⟩
                  exact revView_set rev _ _ _ (fun k => rh_ne_field k _ _ (by decide))
                    (revView_set rev _ _ _ (fun k => rh_ne_field k _ _ (by decide)) hrv1)
            · have hmu : x.mode = .uniq ∨ x.mode = .repl := hmode ▸ hM
              have hu2 : ¬((x.mode = .uniq ∨ x.mode = .repl) ∧ w.bkt = false ∧ rev x.iter.ptr = rev x.node) := by
                rw [hxn]; exact fun h => hu h.2
              obtain ⟨ls1, hls1⟩ : ∃ ls1 : LfhtA.LState, ls1 =
                  { x := { x with nx := w, prev := x.iter.ptr, iter := w, pc := apc rev x.node w.ptr },
                    pend := if LfhtA.needsChk rev x w then .chk else .none, out := .unit } := ⟨_, rfl⟩
              have hs1 : LfhtA.lstep rev ⟨x, .none, out⟩ (.ldNext x.iter.ptr w 1) = some ls1 := by
                rw [hls1]
                simp only [LfhtA.lstep, hpcN, hr, hu2, true_and, if_true, if_false, Bool.false_eq_true,
                  show (1 : Int) ≤ 1 from by decide]
                rw [laddPos_nb rev _ (by dsimp only; exact hmode ▸ hMb)]
              have hO1 := hrest _ hs1
              have hfin : ∀ (env' : Env) (inp' : List Val) (ls' : US), ls' = LfhtU.ofA ⟨ls1.x, .none, .unit⟩ →
                  AddRelU rev B N U ky M htv szv mv 0 0 env' ls1.x → LfhtU.OracleU rev ls' inp' →
                  AddIU rev B N U ky M htv szv mv env' inp' ls' := by
                intro env' inp' ls' h1 h2 h3
                subst h1; subst hls1
                exact ⟨h2, rfl, rfl, rfl, h3⟩
              by_cases hwb : w.bkt = true
              · have hk0 : LfhtA.needsChk rev x w = false := by simp [LfhtA.needsChk, hwb]
                rw [hk0] at hls1
                by_cases heq : rev x.prev = rev x.iter.ptr <;>
                lexec [addInner, addOuter, firstLoop, Gen.Src.«lfht._cds_lfht_add», call_is_end, call_clear_flag,
                  call_is_removed, call_is_bucket, pureCall, bind1, encP_pos h0, Int.natCast_inj] <;>
                (refine ⟨LfhtU.ofA ls1, (runA (a := ⟨x, .none, out⟩) (hev ▸ hs1) _).trans rfl, ?_⟩
                 simp only [Ctl.goesOn, if_true]
                 refine hfin _ _ _ (by subst hls1; rfl) ?_ hO1
                 subst hls1; simp [AddRelU, *])
              · have hwb' : w.bkt = false := by simpa using hwb
                have hne' : ¬ rev x.iter.ptr = rev N := fun h => hu ⟨hwb', h⟩
                by_cases heq : rev x.prev = rev x.iter.ptr
                · have hk0 : LfhtA.needsChk rev x w = false := by simp [LfhtA.needsChk, heq]
                  rw [hk0] at hls1
                  lexec [addInner, addOuter, firstLoop, Gen.Src.«lfht._cds_lfht_add», call_is_end, call_clear_flag,
                  call_is_removed, call_is_bucket, pureCall, bind1, encP_pos h0, Int.natCast_inj]
                  refine ⟨LfhtU.ofA ls1, (runA (a := ⟨x, .none, out⟩) (hev ▸ hs1) _).trans rfl, ?_⟩
                  simp only [Ctl.goesOn, if_true]
                  refine hfin _ _ _ (by subst hls1; rfl) ?_ hO1
                  subst hls1; simp [AddRelU, *]
                · have hk1 : LfhtA.needsChk rev x w = true := by simp [LfhtA.needsChk, heq, hwb']
                  rw [hk1] at hls1
                  cases rest with
                  | nil =>
                    lexec [addInner, addOuter, firstLoop, Gen.Src.«lfht._cds_lfht_add», call_is_end, call_clear_flag,
                  call_is_removed, call_is_bucket, pureCall, bind1, encP_pos h0, Int.natCast_inj]
                    exact ⟨_, (runA (a := ⟨x, .none, out⟩) (hev ▸ hs1) _).trans rfl, by simp [Ctl.goesOn, AddRU]⟩
                  | cons v2 rest =>
                    have hO1' : LfhtU.OracleU rev ⟨ls1.x, .chk, .none, .unit⟩ (v2 :: rest) := by
                      subst hls1; exact hO1
                    obtain ⟨l2, hl2, hrest2⟩ := LfhtU.oracleU_A hO1'
                      (by subst hls1; dsimp only [apc]; split <;> simp) (by simp [LfhtAR.active])
                    have hl2' : l2 = .chkResize := by simpa [LfhtAR.obsLabel] using hl2.symm
                    subst hl2'
                    have hs2 : LfhtA.lstep rev ⟨ls1.x, .chk, .unit⟩ .chkResize = some ⟨ls1.x, .none, .unit⟩ := by
                      simp [LfhtA.lstep]
                    have hO2 := hrest2 _ hs2
                    lexec [addInner, addOuter, firstLoop, Gen.Src.«lfht._cds_lfht_add», call_is_end, call_clear_flag,
                  call_is_removed, call_is_bucket, pureCall, bind1, encP_pos h0, Int.natCast_inj]
                    refine ⟨LfhtU.ofA ⟨ls1.x, .none, .unit⟩, ?_, ?_⟩
                    · refine (runA (a := ⟨x, .none, out⟩) (hev ▸ hs1) _).trans ?_
                      subst hls1
                      exact (runA (a := ⟨_, .chk, .unit⟩) (by simpa [LfhtAR.absEv] using hs2) _).trans rfl
                    · simp only [Ctl.goesOn, if_true]
                      refine hfin _ _ _ rfl ?_ hO2
                      subst hls1; simp [AddRelU, *]

/-- **the inner `for (;;)` of `_cds_lfht_add` in the unique / replace modes** -/
theorem addU_inner_loop (fuel : Nat) (rev : Nat → Nat) (B N : Nat) (U : Loc) (ky : Nat) (M : Mode) (htv szv mv : Val)
    (hM : M = .uniq ∨ M = .repl) (hN : N ≠ 0)
    (env : Env) (inp : List Val) (ls : US) (r : Except String Src.Out)
    (hE : iterate (exec fuel addInner) fuel env inp [] = r) (hI : AddIU rev B N U ky M htv szv mv env inp ls) :
    ∃ out, r = .ok out ∧ ∃ ls', LfhtU.lrun rev ls out.events = some ls' ∧
      (out.ctl = .fuel ∨ ∃ c, c.goesOn = false ∧ AddRU rev B N U ky M htv szv mv c out.env out.inp ls' ∧
        out.ctl = c.afterLoop) := by
  obtain ⟨out, hout, evs, ls', hev, hl, hfin⟩ :=
    iterate_inv (LfhtU.lrun rev) (LfhtU.lrun_nil rev) (LfhtU.lrun_append rev) (exec fuel addInner)
      (AddIU rev B N U ky M htv szv mv) (AddRU rev B N U ky M htv szv mv)
      (addU_inner_body fuel rev B N U ky M htv szv mv hM hN) fuel env inp ls [] hI
  refine ⟨out, by rw [← hE, hout], ls', ?_, hfin⟩
  rw [hev]; simpa using hl


/-- L2's `Out` of a successful insertion (`addDone`): the new node in mode `uniq`, NULL in mode `repl` -/
def outM (M : Mode) (n : Nat) : Lfht.Conc.Out :=
  match M with
  | .uniq => .node n
  | _ => .node 0

theorem laddDone_M {M : Mode} (hM : M = .uniq ∨ M = .repl) {x : Thr} (hmode : x.mode = M) :
    LfhtA.laddDone x = some ({ x with pc := .idle, op := .none }, outM M x.node) := by
  rcases hM with rfl | rfl <;> simp [LfhtA.laddDone, hmode, outM]

/-- invariant at the head of the outer loop (L2 at `aHead`: first pass and every retry) -/
def AddOU (rev : Nat → Nat) (B N : Nat) (U : Loc) (ky : Nat) (M : Mode) (htv szv mv : Val) (env : Env) (inp : List Val) (ls : US) : Prop :=
  env.vars "bucket" = some (.ptr (.obj B)) ∧ env.vars "node" = some (.ptr (.obj N)) ∧
    env.vars "bucket_flag" = some (.int 0) ∧ env.vars "unique_ret" = some (.ptr U) ∧
    env.vars "_goto_insert" = some (.int 0) ∧ env.vars "_goto_gc_node" = some (.int 0) ∧
    env.vars "_goto_end" = some (.int 0) ∧ env.vars "ht" = some htv ∧ env.vars "size" = some szv ∧
    env.vars "key" = some (.int ky) ∧ env.vars "match" = some mv ∧
    RevView rev env.priv ∧ ls.pa = .none ∧ ls.pw = .none ∧ ls.x.pc = .aHead ∧ ls.x.bkt = B ∧ ls.x.node = N ∧
    ls.x.mode = M ∧ ls.x.ky = ky ∧ LfhtU.OracleU rev ls inp

/-- the insertion cmpxchg succeeded: L2's thread has returned (`addDone`), the private store `node->next = clear_flag(iter)`
wrote the word L2's `casIns` gives the node, `return_node = node` -/
def AddFinU (rev : Nat → Nat) (N : Nat) (U : Loc) (M : Mode) (env : Env) (ls : US) : Prop :=
  env.vars "unique_ret" = some (.ptr U) ∧ env.vars "return_node" = some (.ptr (.obj N)) ∧
    RevView rev env.priv ∧ ls.pa = .none ∧ ls.pw = .none ∧ ls.x.pc = .idle ∧ ls.x.op = .none ∧
    ls.out = outM M N ∧ ls.x.node = N ∧ env.priv (.field (.obj N) "next") = some (encP ls.x.iter.ptr)

/-- `insert:` -/
theorem addU_post_ins (fuel : Nat) (rev : Nat → Nat) (B N : Nat) (U : Loc) (ky : Nat) (M : Mode) (htv szv mv : Val)
    (hM : M = .uniq ∨ M = .repl) (hN : N ≠ 0)
    (env : Env) (inp : List Val) (ls : US) (r : Except String Src.Out)
    (hE : exec fuel addPost env inp = r)
    (hrel : AddRelU rev B N U ky M htv szv mv 1 0 env ls.x) (hpa : ls.pa = .none) (hpw : ls.pw = .none)
    (hpc : ls.x.pc = .aCas) (hO : LfhtU.OracleU rev ls inp) :
    ∃ o, r = .ok o ∧ ∃ ls', LfhtU.lrun rev ls o.events = some ls' ∧
      (o.ctl = .blocked ∨ (o.ctl = .cont ∧ AddOU rev B N U ky M htv szv mv o.env o.inp ls') ∨
        (o.ctl = .brk ∧ AddFinU rev N U M o.env ls')) := by
  rcases ls with ⟨x, pa, pw, out⟩
  dsimp only at hrel hpa hpw hpc; subst hpa; subst hpw; subst hE
  obtain ⟨hb, hn, hp, hi, hbf, hur, hgi, hgg, hge, hht, hsz, hkey, hmt, ⟨k, hk⟩, hrev, hxb, hxn, hmode, hxky, hp0,
    hcr, hco, hcn⟩ := hrel
  have hcn' : ¬ N = x.iter.ptr := fun h => hcn h.symm
  have hdn : decW (.ptr (.obj x.node)) = some { ptr := x.node } := by rw [hxn]; exact decW_obj N hN
  have hrv1 : ∀ v, RevView rev (fun m => if m = Loc.field (.obj N) "next" then some v else env.priv m) :=
    fun v => revView_setNext rev env.priv N v hrev
  cases inp with
  | nil =>
    by_cases hbk : x.iter.bkt <;>
    lexec [addPost, seqTail, addOuter, firstLoop, Gen.Src.«lfht._cds_lfht_add», call_is_removed,
      call_is_removal_owner, call_is_bucket, call_clear_flag, call_flag_bucket, pureCall, bind1, obj_eq_encP] <;>
    exact ⟨_, LfhtU.lrun_nil _ _⟩
  | cons v rest =>
    obtain ⟨l, hl, hrest⟩ := LfhtU.oracleU_A hO (by simp [hpc]) (by simp [LfhtAR.active, hpc])
    clear hO
    simp only [LfhtAR.obsLabel, hpc] at hl
    cases hd : decW v with
    | none => simp [hd] at hl
    | some w =>
      have hv := encW_of_decW hd; subst hv
      simp only [decW_encW, Option.map] at hl
      cases hl
      by_cases hs : w = x.iter
      · subst hs
        have hst : LfhtA.lstep rev ⟨x, .none, out⟩
            (.casNext x.prev x.iter { ptr := x.node, bkt := x.iter.bkt } x.iter) =
            some (LfhtA.mk { x with pc := .idle, op := .none } (outM M x.node)) := by
          simp [LfhtA.lstep, hpc, laddDone_M hM hmode]
        clear hrest
        cases hbk : x.iter.bkt <;> rw [hbk] at hst <;>
        lexec [addPost, seqTail, addOuter, firstLoop, Gen.Src.«lfht._cds_lfht_add», call_is_removed,
          call_is_removal_owner, call_is_bucket, call_clear_flag, call_flag_bucket, pureCall, bind1, obj_eq_encP] <;>
        (refine ⟨LfhtU.ofA (LfhtA.mk { x with pc := .idle, op := .none } (outM M x.node)), ?_, ?_⟩
         · simp [LfhtU.lrun, LfhtU.lstep, LfhtU.toA, LfhtAR.absEv, ← hxn, hdn, hst]
         · simp [AddFinU, LfhtU.ofA, LfhtA.mk, *])
      · have hst : LfhtA.lstep rev ⟨x, .none, out⟩
            (.casNext x.prev x.iter { ptr := x.node, bkt := x.iter.bkt } w) =
            some (LfhtA.mk { x with pc := .aHead }) := by
          simp [LfhtA.lstep, hpc, hs]
        have hO1 := hrest _ hst
        clear hrest
        cases hbk : x.iter.bkt <;> rw [hbk] at hst <;>
        lexec [addPost, seqTail, addOuter, firstLoop, Gen.Src.«lfht._cds_lfht_add», call_is_removed,
          call_is_removal_owner, call_is_bucket, call_clear_flag, call_flag_bucket, pureCall, bind1, obj_eq_encP] <;>
        (refine ⟨LfhtU.ofA (LfhtA.mk { x with pc := .aHead }), ?_, ?_⟩
         · simp [LfhtU.lrun, LfhtU.lstep, LfhtU.toA, LfhtAR.absEv, ← hxn, hdn, hst]
         · exact ⟨by simp [*], by simp [*], by simp [*], by simp [*], by simp [*], by simp [*], by simp [*],
             by simp [*], by simp [*], by simp [*], by simp [*], by simp [*], rfl, rfl, rfl, hxb, hxn, hmode, hxky, hO1⟩)

/-- `gc_node:` -/
theorem addU_post_gc (fuel : Nat) (rev : Nat → Nat) (B N : Nat) (U : Loc) (ky : Nat) (M : Mode) (htv szv mv : Val)
    (env : Env) (inp : List Val) (ls : US) (r : Except String Src.Out)
    (hE : exec fuel addPost env inp = r)
    (hrel : AddRelU rev B N U ky M htv szv mv 0 1 env ls.x) (hnx : env.vars "next" = some (encW ls.x.nx))
    (hpa : ls.pa = .none) (hpw : ls.pw = .none) (hpc : ls.x.pc = .aGc) (hO : LfhtU.OracleU rev ls inp) :
    ∃ o, r = .ok o ∧ ∃ ls', LfhtU.lrun rev ls o.events = some ls' ∧
      (o.ctl = .blocked ∨ (o.ctl = .normal ∧ AddOU rev B N U ky M htv szv mv o.env o.inp ls')) := by
  rcases ls with ⟨x, pa, pw, out⟩
  dsimp only at hrel hpa hpw hpc hnx; subst hpa; subst hpw; subst hE
  obtain ⟨hb, hn, hp, hi, hbf, hur, hgi, hgg, hge, hht, hsz, hkey, hmt, ⟨k, hk⟩, hrev, hxb, hxn, hmode, hxky, hp0,
    hcr, hco, hcn⟩ := hrel
  cases inp with
  | nil =>
    by_cases hbk : x.iter.bkt <;>
    lexec [addPost, seqTail, addOuter, firstLoop, Gen.Src.«lfht._cds_lfht_add», call_is_removed,
      call_is_removal_owner, call_is_bucket, call_clear_flag, call_flag_bucket, pureCall, bind1] <;>
    exact ⟨_, LfhtU.lrun_nil _ _⟩
  | cons v rest =>
    obtain ⟨l, hl, hrest⟩ := LfhtU.oracleU_A hO (by simp [hpc]) (by simp [LfhtAR.active, hpc])
    clear hO
    simp only [LfhtAR.obsLabel, hpc] at hl
    cases hd : decW v with
    | none => simp [hd] at hl
    | some w =>
      have hv := encW_of_decW hd; subst hv
      simp only [decW_encW, Option.map] at hl
      cases hl
      have hst : LfhtA.lstep rev ⟨x, .none, out⟩
          (.casNext x.prev x.iter { ptr := x.nx.ptr, bkt := x.iter.bkt } w) = some (LfhtA.mk { x with pc := .aHead }) := by
        simp [LfhtA.lstep, hpc]
      have hO1 := hrest _ hst
      clear hrest
      cases hbk : x.iter.bkt <;> rw [hbk] at hst <;>
      lexec [addPost, seqTail, addOuter, firstLoop, Gen.Src.«lfht._cds_lfht_add», call_is_removed,
        call_is_removal_owner, call_is_bucket, call_clear_flag, call_flag_bucket, pureCall, bind1] <;>
      (refine ⟨LfhtU.ofA (LfhtA.mk { x with pc := .aHead }), ?_, ?_⟩
       · simp [LfhtU.lrun, LfhtU.lstep, LfhtU.toA, LfhtAR.absEv, hst]
       · exact ⟨by simp [*], by simp [*], by simp [*], by simp [*], by simp [*], by simp [*], by simp [*],
           by simp [*], by simp [*], by simp [*], by simp [*], by simp [*], rfl, rfl, rfl, hxb, hxn, hmode, hxky, hO1⟩)

/-- how the outer loop ends -/
def AddROU (rev : Nat → Nat) (N : Nat) (U : Loc) (M : Mode) (c : Ctl) (env : Env) (_inp : List Val) (ls : US) : Prop :=
  match c with
  | .brk => AddFinU rev N U M env ls
  | .ret v => v = none ∧ DupFound rev N U M env ls
  | .blocked => True
  | .fuel => True
  | _ => False

theorem addU_outer_body (fuel : Nat) (rev : Nat → Nat) (B N : Nat) (U : Loc) (ky : Nat) (M : Mode) (htv szv mv : Val)
    (hM : M = .uniq ∨ M = .repl) (hB : B ≠ 0) (hN : N ≠ 0)
    (env : Env) (inp : List Val) (ls : US) (hI : AddOU rev B N U ky M htv szv mv env inp ls) :
    ∃ o, exec fuel addOuter env inp = .ok o ∧ ∃ ls', LfhtU.lrun rev ls o.events = some ls' ∧
      (if o.ctl.goesOn then AddOU rev B N U ky M htv szv mv o.env o.inp ls' else AddROU rev N U M o.ctl o.env o.inp ls') := by
  rcases ls with ⟨x, pa, pw, out⟩
  obtain ⟨hb, hn, hbf, hur, hgi, hgg, hge, hht, hsz, hkey, hmt, hrev, hpa, hpw, hpc, hxb, hxn, hmode, hxky, hO⟩ := hI
  dsimp only at hpa hpw hpc hxb hxn hmode hxky; subst hpa; subst hpw
  have hMb : M ≠ .bkt := by rcases hM with rfl | rfl <;> decide
  have hshape : addOuter = .seq _ (.seq _ (.seq _ (.seq _ (.seq (.loop addInner) addPost)))) := rfl
  cases inp with
  | nil =>
    lexec [addOuter, firstLoop, Gen.Src.«lfht._cds_lfht_add»]
    exact ⟨_, LfhtU.lrun_nil _ _, by simp [Ctl.goesOn, AddROU]⟩
  | cons v rest =>
    obtain ⟨l, hl, hrest⟩ := LfhtU.oracleU_A hO (by simp [hpc]) (by simp [LfhtAR.active, hpc])
    clear hO
    simp only [LfhtAR.obsLabel, hpc] at hl
    cases hd : decW v with
    | none => simp [hd] at hl
    | some w =>
      have hv := encW_of_decW hd; subst hv
      simp only [decW_encW, Option.bind] at hl
      split at hl <;> cases hl
      rename_i hcl
      obtain ⟨hwr, hwo, hwn⟩ := hcl
      obtain ⟨ls0, hls0⟩ : ∃ ls0 : LfhtA.LState, ls0 =
          LfhtA.mk { x with prev := x.bkt, iter := w, pc := apc rev x.node w.ptr } := ⟨_, rfl⟩
      have hstep : LfhtA.lstep rev ⟨x, .none, out⟩ (.ldNext x.bkt w 1) = some ls0 := by
        rw [hls0]
        simp only [LfhtA.lstep, hpc, true_and, if_true, show (1 : Int) ≤ 1 from by decide]
        rw [laddPos_nb rev _ (by dsimp only; exact hmode ▸ hMb)]
      have hO1 := hrest _ hstep
      clear hrest
      have hlr0 : ∀ evs, LfhtU.lrun rev ⟨x, .none, .none, out⟩
          (Event.ld ((Loc.obj B).field "next") (encW w) 1 :: evs) = LfhtU.lrun rev (LfhtU.ofA ls0) evs := by
        intro evs
        exact runA (a := ⟨x, .none, out⟩) (by simpa [LfhtAR.absEv, ← hxb] using hstep) evs
      rw [hshape]
      lexec
      generalize hE : iterate (exec fuel addInner) fuel _ rest [] = r
      obtain ⟨o1, rfl, ls1, hl1, hfin⟩ := addU_inner_loop fuel rev B N U ky M htv szv mv hM hN _ _ (LfhtU.ofA ls0) _ hE
        (by subst hls0
            exact ⟨by simp [AddRelU, LfhtU.ofA, LfhtA.mk, *]; exact hxn ▸ hwn, rfl, rfl, rfl, hO1⟩)
      rcases o1 with ⟨ev1, env1, inp1, ctl1⟩
      rcases hfin with hf | ⟨c, hc, hR, hctl⟩
      · dsimp only at hf; subst hf
        simp [hlr0, hl1, Ctl.goesOn, AddROU]
      · dsimp only at hctl hR hl1
        cases c <;> simp [Ctl.goesOn] at hc <;> simp only [AddRU] at hR <;> simp only [Ctl.afterLoop] at hctl <;> subst hctl
        · -- the inner loop broke out: `insert:` or `gc_node:`
          dsimp only
          generalize hE2 : exec fuel addPost env1 inp1 = r2
          rcases hR with ⟨hrel1, hpa1, hpw1, hpc1, hO1'⟩ | ⟨hrel1, hnx1, hpa1, hpw1, hpc1, hO1'⟩
          · obtain ⟨o2, rfl, ls2, hl2, hfin2⟩ := addU_post_ins fuel rev B N U ky M htv szv mv hM hN env1 inp1 ls1 r2 hE2
              hrel1 hpa1 hpw1 hpc1 hO1'
            rcases o2 with ⟨ev2, env2, inp2, ctl2⟩
            rcases hfin2 with hb2 | ⟨hn2, hI2⟩ | ⟨hn2, hI2⟩
            · dsimp only at hb2; subst hb2
              simp [hlr0, LfhtU.lrun_append, hl1, hl2, Ctl.goesOn, AddROU]
            · dsimp only at hn2 hI2; subst hn2
              simp [hlr0, LfhtU.lrun_append, hl1, hl2, Ctl.goesOn, hI2]
            · dsimp only at hn2 hI2; subst hn2
              simp [hlr0, LfhtU.lrun_append, hl1, hl2, Ctl.goesOn, AddROU, hI2]
          · obtain ⟨o2, rfl, ls2, hl2, hfin2⟩ := addU_post_gc fuel rev B N U ky M htv szv mv env1 inp1 ls1 r2 hE2
              hrel1 hnx1 hpa1 hpw1 hpc1 hO1'
            rcases o2 with ⟨ev2, env2, inp2, ctl2⟩
            rcases hfin2 with hb2 | ⟨hn2, hI2⟩
            · dsimp only at hb2; subst hb2
              simp [hlr0, LfhtU.lrun_append, hl1, hl2, Ctl.goesOn, AddROU]
            · dsimp only at hn2 hI2; subst hn2
              simp [hlr0, LfhtU.lrun_append, hl1, hl2, Ctl.goesOn, hI2]
        · -- duplicate found: `return`
          simp [hlr0, hl1, Ctl.goesOn, AddROU, hR]
        · simp [hlr0, hl1, Ctl.goesOn, AddROU]
        · simp [hlr0, hl1, Ctl.goesOn, AddROU]

theorem addU_outer_loop (fuel : Nat) (rev : Nat → Nat) (B N : Nat) (U : Loc) (ky : Nat) (M : Mode) (htv szv mv : Val)
    (hM : M = .uniq ∨ M = .repl) (hB : B ≠ 0) (hN : N ≠ 0)
    (env : Env) (inp : List Val) (ls : US) (r : Except String Src.Out)
    (hE : iterate (exec fuel addOuter) fuel env inp [] = r) (hI : AddOU rev B N U ky M htv szv mv env inp ls) :
    ∃ out, r = .ok out ∧ ∃ ls', LfhtU.lrun rev ls out.events = some ls' ∧
      (out.ctl = .fuel ∨ ∃ c, c.goesOn = false ∧ AddROU rev N U M c out.env out.inp ls' ∧ out.ctl = c.afterLoop) := by
  obtain ⟨out, hout, evs, ls', hev, hl, hfin⟩ :=
    iterate_inv (LfhtU.lrun rev) (LfhtU.lrun_nil rev) (LfhtU.lrun_append rev) (exec fuel addOuter)
      (AddOU rev B N U ky M htv szv mv) (AddROU rev N U M)
      (addU_outer_body fuel rev B N U ky M htv szv mv hM hB hN) fuel env inp ls [] hI
  refine ⟨out, by rw [← hE, hout], ls', ?_, hfin⟩
  rw [hev]; simpa using hl

/-- how `_cds_lfht_add` ends in the unique / replace modes: preempted, out of budget, **inserted** (L2's thread is `idle`
with `Out.node node` in mode `uniq`, `Out.node 0` in mode `repl`; `unique_ret->node = node`; the node's private `next`
word is the one L2's `casIns` gives it), or **duplicate found** (`return` inside the inner loop: `DupFound`) -/
def AddDoneU (rev : Nat → Nat) (N : Nat) (U : Loc) (M : Mode) (out : Src.Out) (ls' : US) : Prop :=
  out.ctl = .blocked ∨ out.ctl = .fuel ∨
    (out.ctl = .normal ∧ ls'.out = outM M N ∧ ls'.x.pc = .idle ∧ ls'.x.op = .none ∧ ls'.pa = .none ∧ ls'.pw = .none ∧
      ls'.x.node = N ∧ out.env.priv (.field (.obj N) "next") = some (encW { ptr := ls'.x.iter.ptr }) ∧
      out.env.priv (.field U "node") = some (.ptr (.obj N)) ∧ RevView rev out.env.priv) ∨
    (out.ctl = .ret none ∧ DupFound rev N U M out.env ls')

/-- **`_cds_lfht_add(ht, hash, match, key, size, node, &U, 0)`** (what `cds_lfht_add_unique` / `cds_lfht_add_replace`
call) from L2's state after the load of `ht->size` (pc `aHead`, the call of `bucket_at` pending), mode `uniq` / `repl` -/
theorem addU_exec (fuel : Nat) (rev : Nat → Nat) (env : Env) (inp : List Val) (x : Thr) (o0 : Lfht.Conc.Out)
    (ht : Nat) (U : Loc) (fp mv : Val) (M : Mode) (hM : M = .uniq ∨ M = .repl)
    (hht : env.vars "ht" = some (.ptr (.obj ht))) (hhash : env.vars "hash" = some (.int x.hs))
    (hsz : env.vars "size" = some (.int x.sz)) (hnode : env.vars "node" = some (.ptr (.obj x.node)))
    (hur : env.vars "unique_ret" = some (.ptr U)) (hbf : env.vars "bucket_flag" = some (.int 0))
    (hkey : env.vars "key" = some (.int x.ky)) (hmt : env.vars "match" = some mv)
    (hn0 : x.node ≠ 0) (hsz1 : 1 ≤ x.sz)
    (hfp : env.priv (.field (.obj ht) "bucket_at") = some fp) (hrev : RevView rev env.priv)
    (hpc : x.pc = .aHead) (hmode : x.mode = M)
    (hO : LfhtU.OracleU rev ⟨x, .bkt, .none, o0⟩ inp) :
    ∃ out, exec fuel Gen.Src.«lfht._cds_lfht_add» env inp = .ok out ∧
      ∃ ls', LfhtU.lrun rev ⟨x, .bkt, .none, o0⟩ out.events = some ls' ∧ AddDoneU rev x.node U M out ls' := by
  have hshape : Gen.Src.«lfht._cds_lfht_add» =
      .seq _ (.seq _ (.seq _ (.seq _ (.seq _ (.seq _ (.seq _ (.seq _ (.seq _ (.seq _ (.seq _
        (.seq (.loop addOuter) addTail))))))))))) := rfl
  rw [hshape]
  have hszi : (1 : Int) ≤ (x.sz : Int) := by omega
  have hcast : ((x.sz : Int) - 1).toNat = x.sz - 1 := by omega
  cases inp with
  | nil =>
    lexec [exec_call, Gen.Src.«lfht.is_bucket», Gen.Src.«lfht.is_removed», Gen.Src.«lfht.is_removal_owner»,
      Gen.Src.«lfht.lookup_bucket», Gen.Src.«lfht.bucket_at»]
    exact ⟨_, LfhtU.lrun_nil _ _, .inl rfl⟩
  | cons v1 rest =>
    obtain ⟨l, hl, hrest⟩ := LfhtU.oracleU_A hO (by simp [hpc]) (by simp [LfhtAR.active])
    clear hO
    simp only [LfhtAR.obsLabel] at hl
    cases v1 with
    | int _ => simp at hl
    | ptr lo =>
      cases lo with
      | obj b =>
        simp only [Option.ite_none_right_eq_some, Option.some.injEq] at hl
        obtain ⟨hb0, rfl⟩ := hl
        obtain ⟨x1, hx1⟩ : ∃ x1 : Thr, x1 = { x with bkt := b } := ⟨_, rfl⟩
        have hs1 : LfhtA.lstep rev ⟨x, .bkt, o0⟩ (.bktAt (x.hs &&& (x.sz - 1)) b) = some (LfhtA.mk x1) := by
          rw [hx1]; simp [LfhtA.lstep, LfhtA.mk]
        have hO1 := hrest _ hs1
        clear hrest
        have hlr1 : ∀ evs, LfhtU.lrun rev ⟨x, .bkt, .none, o0⟩
            (Event.ext "(*bucket_at)" [fp, Val.ptr (Loc.obj ht), Val.int ((x.hs &&& (x.sz - 1) : Nat) : Int)]
              (Val.ptr (Loc.obj b)) :: evs) = LfhtU.lrun rev (LfhtU.ofA (LfhtA.mk x1)) evs := by
          intro evs
          exact runA (a := ⟨x, .bkt, o0⟩) (by simpa [LfhtAR.absEv] using hs1) evs
        lexec [exec_call, Gen.Src.«lfht.is_bucket», Gen.Src.«lfht.is_removed», Gen.Src.«lfht.is_removal_owner»,
          Gen.Src.«lfht.lookup_bucket», Gen.Src.«lfht.bucket_at»]
        generalize hE : iterate (exec fuel addOuter) fuel _ rest [] = r
        obtain ⟨o1, rfl, ls1, hl1, hfin⟩ := addU_outer_loop fuel rev b x.node U x.ky M (.ptr (.obj ht)) (.int x.sz) mv
          hM hb0 hn0 _ rest (LfhtU.ofA (LfhtA.mk x1)) r hE
          ⟨by simp, by simp [hnode], by simp [hbf], by simp [hur], by simp, by simp, by simp, by simp [hht],
            by simp [hsz], by simp [hkey], by simp [hmt], hrev, rfl, rfl, by subst hx1; exact hpc, by subst hx1; rfl,
            by subst hx1; rfl, by subst hx1; exact hmode, by subst hx1; rfl, hO1⟩
        rcases o1 with ⟨ev1, env1, inp1, ctl1⟩
        have hl1 : LfhtU.lrun rev (LfhtU.ofA (LfhtA.mk x1)) ev1 = some ls1 := hl1
        rcases hfin with hf | ⟨c, hc, hR, hctl⟩
        · dsimp only at hf; subst hf
          simp [hlr1, AddDoneU]; exact ⟨ls1, hl1⟩
        · dsimp only at hctl hR
          cases c <;> simp [Ctl.goesOn] at hc <;> simp only [AddROU] at hR <;> simp only [Ctl.afterLoop] at hctl <;>
            subst hctl
          · obtain ⟨hur1, hrn1, hrv1, hpa1, hpw1, hpc1, hop1, hout1, hnd1, hnx1⟩ := hR
            lexec [addTail, seqTail, Gen.Src.«lfht._cds_lfht_add»]
            refine ⟨ls1, by rw [hx1, hpc, hmode] at hl1; exact hl1, .inr (.inr (.inl ⟨rfl, hout1, hpc1, hop1, hpa1, hpw1, hnd1, ?_, ?_, ?_⟩))⟩
            · simp [hnx1, encP_eq_encW]
            · simp
            · exact revView_set rev _ _ _ (fun k => rh_ne_field k _ _ (by decide)) hrv1
          · obtain ⟨rfl, hD⟩ := hR
            simp [hlr1, AddDoneU]; exact ⟨ls1, hl1, hD⟩
          · simp [hlr1, AddDoneU]; exact ⟨ls1, hl1⟩
          · simp [hlr1, AddDoneU]; exact ⟨ls1, hl1⟩
      | _ => simp at hl


-- ==========================================================================================================
-- the wrapper `cds_lfht_add_unique`
-- ==========================================================================================================
theorem addU_exec' (fuel : Nat) (rev : Nat → Nat) (env : Env) (inp : List Val) (x : Thr) (o0 : Lfht.Conc.Out)
    (ht : Nat) (U : Loc) (fp mv : Val) (M : Mode) (r : Except String Src.Out)
    (hE : exec fuel Gen.Src.«lfht._cds_lfht_add» env inp = r) (hM : M = .uniq ∨ M = .repl)
    (hht : env.vars "ht" = some (.ptr (.obj ht))) (hhash : env.vars "hash" = some (.int x.hs))
    (hsz : env.vars "size" = some (.int x.sz)) (hnode : env.vars "node" = some (.ptr (.obj x.node)))
    (hur : env.vars "unique_ret" = some (.ptr U)) (hbf : env.vars "bucket_flag" = some (.int 0))
    (hkey : env.vars "key" = some (.int x.ky)) (hmt : env.vars "match" = some mv)
    (hn0 : x.node ≠ 0) (hsz1 : 1 ≤ x.sz)
    (hfp : env.priv (.field (.obj ht) "bucket_at") = some fp) (hrev : RevView rev env.priv)
    (hpc : x.pc = .aHead) (hmode : x.mode = M)
    (hO : LfhtU.OracleU rev ⟨x, .bkt, .none, o0⟩ inp) :
    ∃ out, r = .ok out ∧
      ∃ ls', LfhtU.lrun rev ⟨x, .bkt, .none, o0⟩ out.events = some ls' ∧ AddDoneU rev x.node U M out ls' := by
  subst hE
  exact addU_exec fuel rev env inp x o0 ht U fp mv M hM hht hhash hsz hnode hur hbf hkey hmt hn0 hsz1 hfp hrev hpc hmode hO

/-- how `cds_lfht_add_unique` ends: preempted, out of budget, or returned the node `n` = L2's `Out.node n` (the new node
when it was inserted, the duplicate found otherwise); L2's thread is `idle` -/
def AddUDone (out : Src.Out) (ls' : US) : Prop :=
  out.ctl = .blocked ∨ out.ctl = .fuel ∨
    ∃ n, out.ctl = .ret (some (.ptr (.obj n))) ∧ ls'.out = .node n ∧ ls'.x.pc = .idle ∧ ls'.x.op = .none ∧
      ls'.pa = .none ∧ ls'.pw = .none

theorem count_step (rev : Nat → Nat) (ls : US) (args : List Val) (r : Val) (hpa : ls.pa = .none) (hpw : ls.pw = .none)
    (hpc : ls.x.pc = .idle) : LfhtU.lrun rev ls [Event.ext "ht_count_add" args r] = some ls := by
  rcases ls with ⟨x, pa, pw, out⟩
  dsimp only at hpa hpw hpc; subst hpa; subst hpw
  simp [LfhtU.lrun, LfhtU.lstep, LfhtU.toA, LfhtU.ofA, LfhtAR.absEv, LfhtA.lstep, hpc]

/-- **`cds_lfht_add_unique(ht, hash, match, key, node)`** from L2's state after `callAdd .uniq node hash key` (pc `aSize`) -/
theorem addU_wrapper_exec (fuel : Nat) (rev : Nat → Nat) (env : Env) (inp : List Val) (x : Thr) (o0 : Lfht.Conc.Out)
    (ht : Nat) (fp mv : Val)
    (hht : env.vars "ht" = some (.ptr (.obj ht))) (hhash : env.vars "hash" = some (.int x.hs))
    (hnode : env.vars "node" = some (.ptr (.obj x.node))) (hkey : env.vars "key" = some (.int x.ky))
    (hmt : env.vars "match" = some mv) (hn0 : x.node ≠ 0)
    (hfp : env.priv (.field (.obj ht) "bucket_at") = some fp)
    (hrev : ∀ n, n ≠ 0 → n ≠ x.node → env.priv (.field (.obj n) "reverse_hash") = some (.int (rev n)))
    (hpc : x.pc = .aSize) (hmode : x.mode = .uniq)
    (hO : LfhtU.OracleU rev ⟨x, .none, .none, o0⟩ inp) :
    ∃ out, exec fuel Gen.Src.«lfht.cds_lfht_add_unique» env inp = .ok out ∧
      ∃ ls', LfhtU.lrun rev ⟨x, .none, .none, o0⟩ out.events = some ls' ∧ AddUDone out ls' := by
  cases inp with
  | nil =>
    lexec [Gen.Src.«lfht.cds_lfht_add_unique»]
    exact ⟨_, LfhtU.lrun_nil _ _, .inl rfl⟩
  | cons v1 rest =>
    obtain ⟨l, hl, hrest⟩ := LfhtU.oracleU_A hO (by simp [hpc]) (by simp [LfhtAR.active, hpc])
    clear hO
    simp only [LfhtAR.obsLabel, hpc] at hl
    cases v1 with
    | ptr _ => simp at hl
    | int h =>
      simp only [Option.ite_none_right_eq_some, Option.some.injEq] at hl
      obtain ⟨rfl, rfl⟩ := hl
      have hs1 : LfhtA.lstep rev ⟨x, .none, o0⟩ (.hashOf x.hs (rev x.node)) = some ⟨x, .size, o0⟩ := by
        simp [LfhtA.lstep, hpc]
      have hO1 := hrest _ hs1
      clear hrest
      cases rest with
      | nil =>
        lexec [Gen.Src.«lfht.cds_lfht_add_unique»]
        simp [LfhtU.lrun, LfhtU.lstep, LfhtU.toA, LfhtAR.absEv, hs1, AddUDone]
      | cons v2 rest =>
        obtain ⟨l, hl, hrest⟩ := LfhtU.oracleU_A (pa := .size) hO1 (by simp [hpc]) (by simp [LfhtAR.active])
        clear hO1
        simp only [LfhtAR.obsLabel] at hl
        cases v2 with
        | ptr _ => simp at hl
        | int n =>
          simp only [Option.ite_none_right_eq_some, Option.some.injEq] at hl
          obtain ⟨hn1, rfl⟩ := hl
          obtain ⟨m, rfl⟩ := Int.eq_ofNat_of_zero_le (show 0 ≤ n by omega)
          have hm1 : 1 ≤ m := by omega
          obtain ⟨x2, hx2⟩ : ∃ x2 : Thr, x2 = { x with sz := m, pc := .aHead } := ⟨_, rfl⟩
          have hs2 : LfhtA.lstep rev ⟨x, .size, o0⟩ (.ldSize m 2) = some ⟨x2, .bkt, .unit⟩ := by
            rw [hx2]; simp [LfhtA.lstep]
          have hO2 := hrest _ (by simpa using hs2)
          clear hrest
          have hlr2 : ∀ evs, LfhtU.lrun rev ⟨x, .none, .none, o0⟩
              (Event.ext "bit_reverse_ulong" [Val.int x.hs] (Val.int (rev x.node)) ::
                Event.ld ((Loc.obj ht).field "size") (Val.int m) 2 :: evs) =
              LfhtU.lrun rev ⟨x2, .bkt, .none, .unit⟩ evs := by
            intro evs
            exact (runA (rev := rev) (a := ⟨x, .none, o0⟩)
                (e := Event.ext "bit_reverse_ulong" [Val.int x.hs] (Val.int (rev x.node)))
                (by simpa [LfhtAR.absEv] using hs1) _).trans
              (runA (rev := rev) (a := ⟨x, .size, o0⟩) (e := Event.ld ((Loc.obj ht).field "size") (Val.int m) 2)
                (by simpa [LfhtAR.absEv] using hs2) _)
          have hrv : RevView rev (fun l => if l = Loc.field (.obj x.node) "reverse_hash" then some (.int (rev x.node))
              else env.priv l) := by
            intro k hk
            by_cases hkn : k = x.node
            · subst hkn; simp
            · have : ¬ (Loc.field (.obj k) "reverse_hash" = Loc.field (.obj x.node) "reverse_hash") := by
                intro he; injection he with h1 _; injection h1 with h1; exact hkn h1
              simp only [this, if_false]; exact hrev k hk hkn
          have hfp' : (Loc.field (.obj ht) "bucket_at" = Loc.field (.obj x.node) "reverse_hash") = False := by
            simp
          lexec [Gen.Src.«lfht.cds_lfht_add_unique», exec_call]
          generalize hE : exec fuel Gen.Src.«lfht._cds_lfht_add» _ rest = r
          obtain ⟨o1, rfl, ls1, hl1, hd⟩ := addU_exec' fuel rev _ rest x2 .unit ht (.glob "&iter") fp mv .uniq r hE
            (.inl rfl) (by simp [hht]) (by subst hx2; simp [hhash]) (by subst hx2; simp)
            (by subst hx2; simp [hnode]) (by simp) (by simp) (by subst hx2; simp [hkey]) (by simp [hmt])
            (by subst hx2; exact hn0) (by subst hx2; exact hm1) (by simp [hfp]) (by simpa using hrv)
            (by subst hx2; rfl) (by subst hx2; exact hmode) hO2
          rcases o1 with ⟨ev1, env1, inp1, ctl1⟩
          have hl1' : LfhtU.lrun rev ⟨x2, .bkt, .none, .unit⟩ ev1 = some ls1 := hl1
          clear hl1
          have hnd : x2.node = x.node := by rw [hx2]
          have hl1x := hl1'
          rw [hx2, hmode] at hl1x
          rw [hnd] at hd
          rcases hd with hb | hf | ⟨hc, hout1, hpc1, hop1, hpa1, hpw1, hnd1, -, hun1, -⟩ | ⟨hc, y, n, w, hn, hwk, hmd, hnd2, -, -, hls, hun1, -, -⟩
          · dsimp only at hb; subst hb
            simp [hlr2, AddUDone]; exact ⟨ls1, hl1'⟩
          · dsimp only at hf; subst hf
            simp [hlr2, AddUDone]; exact ⟨ls1, hl1'⟩
          · dsimp only at hc hun1; subst hc
            have hcnt := fun args r => count_step rev ls1 args r hpa1 hpw1 hpc1
            cases inp1 with
            | nil =>
              lexec
              simp [hlr2, AddUDone] <;> exact ⟨ls1, hl1x⟩
            | cons v3 rest3 =>
              lexec
              refine ⟨ls1, ?_, .inr (.inr ⟨x.node, rfl, by simpa [outM] using hout1, hpc1, hop1, hpa1, hpw1⟩)⟩
              rw [LfhtU.lrun_append, hl1x]
              exact hcnt _ _
          · dsimp only at hc hun1; subst hc
            have hret : LfhtW.lwalkRet y n w = ({ y with pc := .idle, op := .none }, .node n) := by
              simp [LfhtW.lwalkRet, hwk, hn, hmd]
            rw [hret] at hls
            have hpc1 : ls1.x.pc = .idle := by rw [hls]; rfl
            have hcnt := fun args r => count_step rev ls1 args r (by rw [hls]; rfl) (by rw [hls]; rfl) hpc1
            have hfinal : ls1.out = .node n ∧ ls1.x.pc = .idle ∧ ls1.x.op = .none ∧ ls1.pa = .none ∧ ls1.pw = .none := by
              rw [hls]; exact ⟨rfl, rfl, rfl, rfl, rfl⟩
            by_cases hnN : n = x.node
            · cases inp1 with
              | nil =>
                lexec
                simp [hlr2, AddUDone] <;> exact ⟨ls1, hl1x⟩
              | cons v3 rest3 =>
                lexec
                refine ⟨ls1, ?_, .inr (.inr ⟨n, by simp [hnN], hfinal⟩)⟩
                rw [LfhtU.lrun_append, hl1x]
                exact hcnt _ _
            · have hne : ¬ (Val.ptr (Loc.obj n) = Val.ptr (Loc.obj x.node)) := by simpa using hnN
              lexec
              first | exact .inr (.inr ⟨n, rfl, hfinal⟩) | (simp [AddUDone, hls, LfhtU.ofW, LfhtW.ofPair]) | (simp [AddUDone]; exact hfinal)

end UrcuVerif.Src.LfhtUG
