import UrcuVerif.Src.SyncQRefine
/-!
# QSBR: `urcu_qsbr_reader_state`, the scan loop, `wait_gp`, `wait_for_readers` and the grace period of
`urcu_qsbr_synchronize_rcu` refine the updater of `Gp/Qsbr.lean`

Same method as `Src/SyncScan.lean` / `SyncGp.lean` / `SyncSync.lean`: the generated values are equal (`rfl`) to templates, the
proofs are about the templates.
-/
set_option maxRecDepth 8192
set_option linter.unusedSimpArgs false
set_option linter.unusedVariables false
namespace UrcuVerif.Src.SyncQ
open UrcuVerif UrcuVerif.Src UrcuVerif.Gen.Src UrcuVerif.Src.Sync

open Lean.Parser.Tactic in
macro "exec_simp" "[" ts:simpLemma,* "]" : tactic =>
  `(tactic| simp [block, exec, iterate, eval, evalArgs, execPrim, bind, Except.bind, asLoc, Env.setVar, Env.setPriv,
      bindParams, setDst, evalUn, evalBin, boolV, Val.truthy, $ts,*])
open Lean.Parser.Tactic in
macro "exec_simp_at" h:ident "[" ts:simpLemma,* "]" : tactic =>
  `(tactic| simp [block, exec, iterate, eval, evalArgs, execPrim, bind, Except.bind, asLoc, Env.setVar, Env.setPriv,
      bindParams, setDst, evalUn, evalBin, boolV, Val.truthy, $ts,*] at $h:ident)
open Lean.Parser.Tactic in
macro "abs_simp" "[" ts:simpLemma,* "]" : tactic =>
  `(tactic| simp [Ok_cons, Ok_nil_iff, absEv, absExt, inList, curOK, lrun, lstep, registry, curSnap, qsr, gpCtrQ,
      gpFutexQ, regLock, mem_rm, $ts,*])

/-! ## template -/

def qRsCall : Stmt :=
  .call (some "_t4") ["ctr", "group"] [.fieldAddr (.var "index") "ctr", .var "group"] «urcu_qsbr_reader_state»
def qMvSnap : Stmt := .prim none (.ext "cds_list_move") [.fieldAddr (.var "index") "node", .var "cur_snap_readers"]
def qMvQs : Stmt := .prim none (.ext "cds_list_move") [.fieldAddr (.var "index") "node", .var "qsreaders"]
def qSwitch : Stmt :=
  .loop (block [
    (.ifte (.bin .eq (.var "_t5") (.cst "URCU_READER_ACTIVE_CURRENT" (0)))
      (block [(.ifte (.var "cur_snap_readers") (block [qMvSnap, (.brk)]) (.skip)), qMvQs, (.brk)])
      (.ifte (.bin .eq (.var "_t5") (.cst "URCU_READER_INACTIVE" (2))) (block [qMvQs, (.brk)])
        (.ifte (.bin .eq (.var "_t5") (.cst "URCU_READER_ACTIVE_OLD" (1))) (.brk) (.skip)))),
    (.brk)])
def qScanRest : Stmt := block [(.assign "tmp" (.var "_t3")), qRsCall, (.assign "_t5" (.var "_t4")), qSwitch]
def qScanBody : Stmt :=
  block [(.assign "index" (.var "_t3")),
    (.ifte (.var "index") (.skip) (.brk)),
    (.prim (some "_t3") (.ext "cds_list_for_each_entry_safe.next") ([.var "input_readers"] ++ [.var "index"])),
    qScanRest]
/-- `cds_list_for_each_entry(index, input_readers, node) _CMM_STORE_SHARED(index->waiting, 1);` -/
def qWaitingBody : Stmt :=
  block [(.assign "index" (.var "_t2")), (.ifte (.var "index") (.skip) (.brk)),
    (.prim (some "_t2") (.ext "cds_list_for_each_entry.next") ([.var "input_readers"] ++ [.var "index"])),
    (.prim none .ustore [.fieldAddr (.var "index") "waiting", .lit 1, .cst "CMM_RELAXED" (0)])]
def qAnnounce : Stmt :=
  block [(.prim none .ustore [.fieldAddr (.addrGlob "urcu_qsbr_gp") "futex", .lit (-1), .cst "CMM_RELAXED" (0)]),
    (.prim none .wmb []),
    (.prim (some "_t2") (.ext "cds_list_for_each_entry.first") [.var "input_readers"]),
    (.loop qWaitingBody), (.prim none .mb [])]
def qA : Stmt :=
  .ifte (.bin .lt (.var "wait_loops") (.cst "qsbr.RCU_QS_ACTIVE_ATTEMPTS" (100)))
    (block [(.assign "_t1" (.var "wait_loops")), (.assign "wait_loops" (.bin .add (.var "wait_loops") (.lit 1)))]) (.skip)
def qB : Stmt := .ifte (.bin .ge (.var "wait_loops") (.cst "qsbr.RCU_QS_ACTIVE_ATTEMPTS" (100))) qAnnounce (.skip)
def qFirst : Stmt := .prim (some "_t3") (.ext "cds_list_for_each_entry_safe.first") [.var "input_readers"]
def qEmpty : Stmt := .prim (some "_t6") (.ext "cds_list_empty") [.var "input_readers"]
def qReset : Stmt := .prim none .ustore [.fieldAddr (.addrGlob "urcu_qsbr_gp") "futex", .lit 0, .cst "CMM_RELEASE" (3)]
def qUnlock : Stmt := .prim none (.ext "mutex_unlock") [.addrGlob "rcu_registry_lock"]
def qLock : Stmt := .prim none (.ext "mutex_lock") [.addrGlob "rcu_registry_lock"]
def qTail (waitgp : Stmt) : Stmt :=
  .ifte (.var "_t6")
    (block [(.ifte (.bin .ge (.var "wait_loops") (.cst "qsbr.RCU_QS_ACTIVE_ATTEMPTS" (100))) qReset (.skip)), (.brk)])
    (block [qUnlock,
      (.ifte (.bin .ge (.var "wait_loops") (.cst "qsbr.RCU_QS_ACTIVE_ATTEMPTS" (100))) (.call none [] [] waitgp)
        (.prim none .relax [])),
      qLock])
def wfrBodyQ (waitgp : Stmt) : Stmt := block [qA, qB, qFirst, (.loop qScanBody), qEmpty, qTail waitgp]
def wfrQ (waitgp : Stmt) : Stmt := block [(.assign "wait_loops" (.lit 0)), (.loop (wfrBodyQ waitgp))]

theorem qsbr_wfr_eq : «qsbr.wait_for_readers» = wfrQ «qsbr.wait_gp» := rfl

/-! ## `urcu_qsbr_reader_state` -/

/-- the function's answer on the loaded word `v`, `c` = plain-read `urcu_qsbr_gp.ctr`: INACTIVE (2) iff `v = 0`,
ACTIVE_CURRENT (0) iff `v = c`, ACTIVE_OLD (1) otherwise -/
def clsQ (c : Int) (v : Val) : Int := if v = .int 0 then 2 else if v = .int c then 0 else 1

theorem truthy_false_iff (v : Val) : v.truthy = false ↔ v = .int 0 := by
  cases v <;> simp [Val.truthy]

theorem qrs_cons (fuel : Nat) (env : Env) (v : Val) (rest : List Val) (j : Nat) (gv : Val) (c : Int)
    (hi : env.vars "index" = some (.ptr (.obj j))) (hg : env.vars "group" = some gv)
    (hp : env.priv gpCtrQ = some (.int c)) :
    exec fuel qRsCall env (v :: rest) =
      .ok { events := [.ld (.field (.obj j) "ctr") v 0], env := env.setVar "_t4" (.int (clsQ c v)), inp := rest,
            ctl := .normal } := by
  simp only [gpCtrQ] at hp
  by_cases h0 : v = .int 0
  · subst h0
    simp [qRsCall, «urcu_qsbr_reader_state», block, exec, eval, evalArgs, execPrim, bind, Except.bind, asLoc, Env.setVar,
      bindParams, setDst, evalUn, Val.truthy, hi, hg, hp, clsQ]
  · have ht : v.truthy = true := by
      cases hh : v.truthy
      · exact absurd ((truthy_false_iff v).1 hh) h0
      · rfl
    by_cases h1 : v = .int c
    · subst h1
      have hc0 : c ≠ 0 := fun h => h0 (by rw [h])
      simp [qRsCall, «urcu_qsbr_reader_state», block, exec, eval, evalArgs, execPrim, bind, Except.bind, asLoc, Env.setVar,
        bindParams, setDst, evalUn, hi, hg, hp, clsQ, hc0, evalBin, boolV, Val.truthy]
    · simp [qRsCall, «urcu_qsbr_reader_state», block, exec, eval, evalArgs, execPrim, bind, Except.bind, asLoc, Env.setVar,
        bindParams, setDst, evalUn, ht, hi, hg, hp, clsQ, h0, h1, evalBin, boolV, truthy_int]

theorem qrs_nil (fuel : Nat) (env : Env) (j : Nat) (gv : Val)
    (hi : env.vars "index" = some (.ptr (.obj j))) (hg : env.vars "group" = some gv) :
    exec fuel qRsCall env [] =
      .ok { events := [], env := { vars := bindParams ["ctr", "group"] [.ptr (.field (.obj j) "ctr"), gv],
                                   priv := env.priv }, inp := [], ctl := .blocked } := by
  simp [qRsCall, «urcu_qsbr_reader_state», block, exec, eval, evalArgs, execPrim, bind, Except.bind, asLoc, Env.setVar,
      bindParams, setDst, evalUn, Val.truthy, hi, hg]

/-- `urcu_qsbr_reader_state(ctr, group)` on its own -/
theorem qsbr_reader_state_exec (fuel : Nat) (env : Env) (C : Loc) (c : Int) (v : Val) (rest : List Val)
    (hc : env.vars "ctr" = some (.ptr C)) (hp : env.priv gpCtrQ = some (.int c)) :
    ∃ out, exec fuel «urcu_qsbr_reader_state» env (v :: rest) = .ok out ∧
      out.events = [.ld C v 0] ∧ out.ctl = .ret (some (.int (clsQ c v))) ∧ out.inp = rest ∧ out.env.priv = env.priv := by
  simp only [gpCtrQ] at hp
  by_cases h0 : v = .int 0
  · subst h0
    simp [«urcu_qsbr_reader_state», block, exec, eval, evalArgs, execPrim, bind, Except.bind, asLoc, Env.setVar,
      setDst, evalUn, Val.truthy, hc, hp, clsQ]
  · have ht : v.truthy = true := by
      cases hh : v.truthy
      · exact absurd ((truthy_false_iff v).1 hh) h0
      · rfl
    by_cases h1 : v = .int c
    · subst h1
      have hc0 : c ≠ 0 := fun h => h0 (by rw [h])
      simp [«urcu_qsbr_reader_state», block, exec, eval, evalArgs, execPrim, bind, Except.bind, asLoc, Env.setVar,
        setDst, evalUn, hc, hp, clsQ, hc0, evalBin, boolV, Val.truthy]
    · simp [«urcu_qsbr_reader_state», block, exec, eval, evalArgs, execPrim, bind, Except.bind, asLoc, Env.setVar,
        setDst, evalUn, ht, hc, hp, clsQ, h0, h1, evalBin, boolV, truthy_int]

/-! ## the switch (`cur_snap_readers = NULL`) -/

theorem qswitch_old (n : Nat) (env : Env) (inp : List Val) (h5 : env.vars "_t5" = some (.int 1)) :
    exec (n+1) qSwitch env inp = .ok { events := [], env := env, inp := inp, ctl := .normal } := by
  exec_simp [qSwitch, h5]

theorem qswitch_move (n : Nat) (env : Env) (inp : List Val) (c : Int) (k : Nat)
    (hc : c = 0 ∨ c = 2) (h5 : env.vars "_t5" = some (.int c)) (hi : env.vars "index" = some (.ptr (.obj k)))
    (hcs : env.vars "cur_snap_readers" = some (.int 0)) (hq : env.vars "qsreaders" = some (.ptr qsr)) :
    exec (n+1) qSwitch env inp =
      match inp with
      | [] => .ok { events := [], env := env, inp := [], ctl := .blocked }
      | r :: rest => .ok { events := [.ext "cds_list_move" [.ptr (.field (.obj k) "node"), .ptr qsr] r],
                           env := env, inp := rest, ctl := .normal } := by
  rcases hc with rfl | rfl <;> cases inp <;> exec_simp [qSwitch, qMvSnap, qMvQs, h5, hi, hcs, hq]

/-! ## invariants -/

/-- invariant of the retry loop: parameters bound as in the (only) call `wait_for_readers(&registry, NULL, &qsreaders, …)`,
pc `scan`, counter `g` -/
def IterInv (g : Nat) (gv : Val) (env : Env) (ss : SS) : Prop :=
  env.vars "input_readers" = some (.ptr registry) ∧ env.vars "cur_snap_readers" = some (.int 0) ∧
  env.vars "qsreaders" = some (.ptr qsr) ∧ env.vars "group" = some gv ∧ (∃ k : Int, env.vars "wait_loops" = some (.int k)) ∧
  env.priv gpCtrQ = some (.int (encQ g)) ∧ ss.ls.upc = .scan ∧ ss.ls.gp = g ∧ ss.pend = none

def ScanInv (g : Nat) (gv : Val) (env : Env) (ss : SS) : Prop :=
  IterInv g gv env ss ∧ ∃ cur, env.vars "_t3" = some cur ∧ curOK ss.ls.inp none cur = true

theorem inList_scan {g gv env ss} (h : IterInv g gv env ss) : inList ss.ls registry = some ss.ls.inp := by
  simp [inList, h.2.2.2.2.2.2.1]

theorem IterInv_setVar {g gv} {env : Env} {ss : SS} (x : String) (v : Val) (h : IterInv g gv env ss)
    (hx : x ≠ "input_readers" ∧ x ≠ "cur_snap_readers" ∧ x ≠ "qsreaders" ∧ x ≠ "group" ∧ x ≠ "wait_loops") :
    IterInv g gv { vars := fun y => if y = x then some v else env.vars y, priv := env.priv } ss := by
  obtain ⟨h1, h2, h3, h4, ⟨k, h5⟩, h6, h7, h8, h9⟩ := h
  obtain ⟨x1, x2, x3, x4, x5⟩ := hx
  refine ⟨?_, ?_, ?_, ?_, ⟨k, ?_⟩, h6, h7, h8, h9⟩ <;> simp only <;> rw [if_neg (Ne.symm ‹_›)] <;> assumption

theorem IterInv_ss {g gv} {env : Env} {ss ss' : SS} (h : IterInv g gv env ss) (h1 : ss'.ls.upc = ss.ls.upc)
    (h2 : ss'.ls.gp = ss.ls.gp) (h3 : ss'.pend = ss.pend) : IterInv g gv env ss' := by
  obtain ⟨a1, a2, a3, a4, a5, a6, a7, a8, a9⟩ := h
  exact ⟨a1, a2, a3, a4, a5, a6, by rw [h1]; exact a7, by rw [h2]; exact a8, by rw [h3]; exact a9⟩

/-- private stores to other locations keep the invariant -/
theorem IterInv_setPriv {g gv} {env : Env} {ss : SS} (l : Loc) (v : Val) (h : IterInv g gv env ss) (hl : l ≠ gpCtrQ) :
    IterInv g gv { vars := env.vars, priv := fun m => if m = l then some v else env.priv m } ss := by
  obtain ⟨a1, a2, a3, a4, a5, a6, a7, a8, a9⟩ := h
  refine ⟨a1, a2, a3, a4, a5, ?_, a7, a8, a9⟩
  simp only; rw [if_neg (Ne.symm hl)]; exact a6

def ScanPost (g : Nat) (gv : Val) : Post := fun ctl env ss _ =>
  match ctl with
  | .normal => ScanInv g gv env ss
  | .brk => IterInv g gv env ss
  | .blocked => True
  | _ => False

set_option maxHeartbeats 1600000 in
theorem qScanRest_holds (trk : Bool) (n : Nat) (g : Nat) (gv : Val) (env : Env) (inp : List Val) (ss : SS) (wins : Wins)
    (k : Nat) (r : Val) (hit : IterInv g gv env ss) (hi : env.vars "index" = some (.ptr (.obj k))) (hk : k ∈ ss.ls.inp)
    (h3 : env.vars "_t3" = some r) (hr : curOK ss.ls.inp (some k) r = true) :
    Holds trk (exec (n+1) qScanRest env inp) ss wins (ScanPost g gv) := by
  intro out ho
  obtain ⟨hin, hcs, hq, hg, ⟨wl, hwl⟩, hp, hupc, hgp, hpend⟩ := hit
  simp only [qScanRest, block] at ho
  exec_simp_at ho [h3]
  cases inp with
  | nil =>
    rw [qrs_nil (n+1) _ k gv (by simp [hi]) (by simp [hg])] at ho
    simp at ho; subst ho
    simp [Ok_nil_iff, ScanPost]
  | cons v rest2 =>
    rw [qrs_cons (n+1) _ v rest2 k gv (encQ g) (by simp [hi]) (by simp [hg]) (by simpa using hp)] at ho
    exec_simp_at ho []
    obtain ⟨⟨upc, gp, reg, inpl⟩, pend⟩ := ss
    simp only at hupc hgp hpend hk hr
    subst hpend; subst hupc; subst hgp
    simp only [gpCtrQ] at hp
    by_cases h0 : v = .int 0
    · have hc2 : clsQ (encQ gp) v = 2 := by simp [clsQ, h0]
      rw [qswitch_move n _ rest2 _ k (Or.inr hc2) (by simp) (by simp [hi]) (by simp [hcs]) (by simp [hq])] at ho
      subst h0
      cases rest2 <;> simp at ho <;> subst ho <;>
        abs_simp [hk, ScanPost, ScanInv, IterInv, hin, hcs, hq, hg, hwl, hp, h3] <;>
        (try (have := curOK_rm _ _ _ hr; simpa [curOK, mem_rm] using this))
    · by_cases h1 : v = .int (encQ gp)
      · have hc0 : clsQ (encQ gp) v = 0 := by
          have : ¬ encQ gp = 0 := fun h => h0 (by rw [h1, h])
          simp [clsQ, h1, this]
        rw [qswitch_move n _ rest2 _ k (Or.inl hc0) (by simp) (by simp [hi]) (by simp [hcs]) (by simp [hq])] at ho
        subst h1
        have h0' : ¬ (encQ gp = 0) := fun h => h0 (by rw [h])
        cases rest2 <;> simp at ho <;> subst ho <;>
          abs_simp [hk, h0', ScanPost, ScanInv, IterInv, hin, hcs, hq, hg, hwl, hp, h3] <;>
          (try (have := curOK_rm _ _ _ hr; simpa [curOK, mem_rm] using this))
      · have hc1 : clsQ (encQ gp) v = 1 := by simp [clsQ, h0, h1]
        rw [qswitch_old n _ rest2 (by simp [hc1])] at ho
        simp at ho; subst ho
        abs_simp [hk, h0, h1, ScanPost, ScanInv, IterInv, hin, hcs, hq, hg, hwl, hp, h3]
        (try (have := curOK_weaken _ _ _ hr; simpa [curOK, mem_rm] using this))

set_option maxHeartbeats 1600000 in
theorem qScanBody_holds (trk : Bool) (n : Nat) (g : Nat) (gv : Val) (env : Env) (inp : List Val) (ss : SS) (wins : Wins)
    (hI : ScanInv g gv env ss) : Holds trk (exec (n+1) qScanBody env inp) ss wins (ScanPost g gv) := by
  intro out ho
  obtain ⟨hit, cur, h3, hcur⟩ := hI
  have hil := inList_scan hit
  obtain ⟨hin, hcs, hq, hg, ⟨wl, hwl⟩, hp, hupc, hgp, hpend⟩ := hit
  simp only [qScanBody, block] at ho
  cases cur with
  | int z =>
    have hz : z = 0 := by simpa [curOK] using hcur
    subst hz
    exec_simp_at ho [h3]
    subst ho
    simp only [Ok_nil_iff, ScanPost]
    exact ⟨hin, hcs, hq, hg, ⟨wl, by simpa using hwl⟩, hp, hupc, hgp, hpend⟩
  | ptr l =>
    cases l with
    | obj k =>
      have hk : k ∈ ss.ls.inp := by simpa [curOK] using hcur
      cases inp with
      | nil => exec_simp_at ho [h3, hin]; subst ho; simp [Ok_nil_iff, ScanPost]
      | cons r rest =>
        exec_simp_at ho [h3, hin]
        generalize hR : exec (n + 1) qScanRest _ rest = R at ho
        cases R with
        | error m => simp at ho
        | ok o2 =>
          simp at ho; subst ho
          dsimp only
          by_cases hr : curOK ss.ls.inp (some k) r = true
          · have := fun h1 h2 h3 h4 h5 => qScanRest_holds trk n g gv _ rest ss wins k r h1 h2 h3 h4 h5 o2 hR
            have := this
              ⟨by simp [hin], by simp [hcs], by simp [hq], by simp [hg], ⟨wl, by simp [hwl]⟩, hp, hupc, hgp, hpend⟩
              (by simp) hk (by simp) hr
            simp only [Ok_cons, absEv, absExt]
            simp [hil, hpend, hr, lrun]
            have hss : ({ ls := ss.ls, pend := none } : SS) = ss := by cases ss; simp_all
            rw [hss]; exact this
          · simp [Ok_cons, absEv, absExt, hil, hpend, hr]
    | _ => simp [curOK] at hcur

def ScanLoopPost (g : Nat) (gv : Val) : Post := fun ctl env ss _ =>
  match ctl with
  | .normal => IterInv g gv env ss
  | .blocked | .fuel => True
  | _ => False

theorem qScanLoop_holds (trk : Bool) (n : Nat) (g : Nat) (gv : Val) (env : Env) (inp : List Val) (ss : SS) (wins : Wins)
    (hI : ScanInv g gv env ss) : Holds trk (exec (n+1) (.loop qScanBody) env inp) ss wins (ScanLoopPost g gv) := by
  simp only [exec]
  refine Holds.loop _ (fun e s _ => ScanInv g gv e s) (ScanPost g gv) (ScanLoopPost g gv)
    (fun e i s w h => qScanBody_holds trk n g gv e i s w h) ?_ ?_ ?_ ?_ ?_ (n+1) env inp ss wins hI
  · intro e s w h; exact h
  · intro e s w h; exact h.elim
  · intro e s w h; exact h
  · intro ctl e s w h1 h2 h3 h; cases ctl <;> simp_all [ScanPost, ScanLoopPost]
  · intro e s w h; trivial

def StepPost (g : Nat) (gv : Val) : Post := fun ctl env ss _ =>
  match ctl with
  | .normal => IterInv g gv env ss
  | .blocked | .fuel => True
  | _ => False

theorem qA_holds (trk fuel) (g : Nat) (gv : Val) (env inp ss wins) (hI : IterInv g gv env ss) :
    Holds trk (exec fuel qA env inp) ss wins (StepPost g gv) := by
  intro out ho
  obtain ⟨h1, h2, h3, h4, ⟨k, h5⟩, h6, h7, h8, h9⟩ := hI
  by_cases hk : k < 100 <;> exec_simp_at ho [qA, h5, hk] <;> subst ho <;>
    simp [Ok_nil_iff, StepPost, IterInv, *]

theorem qFirst_holds (trk fuel) (g : Nat) (gv : Val) (env inp ss wins) (hI : IterInv g gv env ss) :
    Holds trk (exec fuel qFirst env inp) ss wins
      (fun ctl e s _ => match ctl with | .normal => ScanInv g gv e s | .blocked => True | _ => False) := by
  intro out ho
  have hil := inList_scan hI
  have h1 := hI.1
  have h9 := hI.2.2.2.2.2.2.2.2
  obtain ⟨ls, pend⟩ := ss
  simp only at h9 hil; subst h9
  cases inp with
  | nil => exec_simp_at ho [qFirst, h1]; subst ho; simp [Ok_nil_iff]
  | cons r rest =>
    exec_simp_at ho [qFirst, h1]; subst ho
    have hI2 := IterInv_setVar "_t3" r hI (by decide)
    by_cases hr : curOK ls.inp none r = true
    · simp only [Ok_cons, absEv, absExt]
      simp [hil, hr, lrun, Ok_nil_iff, ScanInv, hI2]
    · simp [Ok_cons, absEv, absExt, hil, hr]

theorem qEmpty_holds (trk fuel) (g : Nat) (gv : Val) (env inp ss wins) (hI : IterInv g gv env ss) :
    Holds trk (exec fuel qEmpty env inp) ss wins
      (fun ctl e s _ => match ctl with
        | .normal => IterInv g gv e s ∧ ∃ r, e.vars "_t6" = some r ∧ r.truthy = decide (s.ls.inp = [])
        | .blocked => True
        | _ => False) := by
  intro out ho
  have hil := inList_scan hI
  have h1 := hI.1
  have h7 := hI.2.2.2.2.2.2.1
  have h9 := hI.2.2.2.2.2.2.2.2
  obtain ⟨ls, pend⟩ := ss
  simp only at h9 hil h7; subst h9
  have hnidle : ¬ (ls.upc = .idle ∧ registry = registry) := by simp [h7]
  cases inp with
  | nil => exec_simp_at ho [qEmpty, h1]; subst ho; simp [Ok_nil_iff]
  | cons r rest =>
    exec_simp_at ho [qEmpty, h1]; subst ho
    have hI2 := IterInv_setVar "_t6" r hI (by decide)
    by_cases hr : r.truthy = decide (ls.inp = [])
    · simp only [Ok_cons, absEv, absExt]
      simp [hil, hr, lrun, Ok_nil_iff, h7, hI2]
    · simp [Ok_cons, absEv, absExt, hil, hr, h7]

/-! ## the futex announcement (`wait_loops >= RCU_QS_ACTIVE_ATTEMPTS`) -/

def LoopPost (g : Nat) (gv : Val) : Post := fun ctl env ss _ =>
  match ctl with
  | .normal | .brk => IterInv g gv env ss
  | .blocked | .fuel => True
  | _ => False

theorem fence_holds (trk fuel) (p : Prim) (hp : p = .mb ∨ p = .wmb ∨ p = .relax ∨ p = .barrier ∨ p = .rmb)
    (g : Nat) (gv : Val) (env inp ss wins) (hI : IterInv g gv env ss) :
    Holds trk (exec fuel (.prim none p []) env inp) ss wins (StepPost g gv) := by
  intro out ho
  obtain ⟨ls, pend⟩ := ss
  rcases hp with rfl | rfl | rfl | rfl | rfl <;> exec_simp_at ho [] <;> subst ho <;> abs_simp [StepPost] <;> exact hI

theorem qWaitingBody_holds (trk fuel) (g : Nat) (gv : Val) (env inp ss wins) (hI : IterInv g gv env ss) :
    Holds trk (exec fuel qWaitingBody env inp) ss wins (LoopPost g gv) := by
  intro out ho
  have h1 := hI.1
  obtain ⟨ls, pend⟩ := ss
  simp only [qWaitingBody, block] at ho
  cases h2 : env.vars "_t2" with
  | none => exec_simp_at ho [h2]
  | some cur =>
    have hI1 := IterInv_setVar "index" cur hI (by decide)
    cases cur with
    | int z =>
      by_cases hz : z = 0
      · subst hz
        exec_simp_at ho [h2]; subst ho
        simp only [Ok_nil_iff, LoopPost]; simpa using hI1
      · cases inp with
        | nil => exec_simp_at ho [h2, hz, h1]; subst ho; simp [Ok_nil_iff, LoopPost]
        | cons r rest => exec_simp_at ho [h2, hz, h1]
    | ptr l =>
      cases inp with
      | nil => exec_simp_at ho [h2, h1]; subst ho; simp [Ok_nil_iff, LoopPost]
      | cons r rest =>
        exec_simp_at ho [h2, h1]; subst ho
        have hI2 := IterInv_setPriv (.field l "waiting") (.int 1)
          (IterInv_setVar "_t2" r hI1 (by decide)) (by simp [gpCtrQ])
        abs_simp [LoopPost]
        exact hI2

theorem eval_ge (env : Env) (k : Int) (h : env.vars "wait_loops" = some (.int k)) :
    eval env (.bin .ge (.var "wait_loops") (.cst "qsbr.RCU_QS_ACTIVE_ATTEMPTS" (100))) = .ok (boolV (k ≥ 100)) := by
  simp [eval, h, bind, Except.bind, evalBin]

theorem StepPost_nn {g gv} (ctl e s w) (hn : ctl ≠ .normal) (h : StepPost g gv ctl e s w) : StepPost g gv ctl e s w := h

theorem qAnnounce_holds (trk fuel) (g : Nat) (gv : Val) (env inp ss wins) (hI : IterInv g gv env ss) :
    Holds trk (exec fuel qAnnounce env inp) ss wins (StepPost g gv) := by
  have hnn : ∀ ctl e s w, ctl ≠ .normal → StepPost g gv ctl e s w → StepPost g gv ctl e s w := fun _ _ _ _ _ h => h
  refine Holds.seq (Qa := StepPost g gv) ?_ ?_ hnn
  · intro out ho
    obtain ⟨ls, pend⟩ := ss
    exec_simp_at ho []; subst ho
    have hI2 := IterInv_setPriv gpFutexQ (.int (-1)) hI (by decide)
    simp only [gpFutexQ] at hI2
    abs_simp [StepPost]; exact hI2
  intro e i s w hq
  refine Holds.seq (fence_holds trk fuel .wmb (by simp) g gv e i s w hq) ?_ hnn
  intro e i s w hq
  refine Holds.seq (Qa := StepPost g gv) ?_ ?_ hnn
  · intro out ho
    obtain ⟨ls, pend⟩ := s
    have h1 := hq.1
    cases i <;> exec_simp_at ho [h1] <;> subst ho <;> abs_simp [StepPost]
    exact IterInv_setVar "_t2" _ hq (by decide)
  intro e i s w hq
  refine Holds.seq (Qa := StepPost g gv) ?_ ?_ hnn
  · simp only [exec]
    refine Holds.loop _ (fun e s _ => IterInv g gv e s) (LoopPost g gv) (StepPost g gv)
      (fun e i s w h => qWaitingBody_holds trk fuel g gv e i s w h) ?_ ?_ ?_ ?_ ?_ fuel e i s w hq
    · intro e s w h; exact h
    · intro e s w h; exact h.elim
    · intro e s w h; exact h
    · intro ctl e s w h1 h2 h3 h; cases ctl <;> simp_all [LoopPost, StepPost]
    · intro e s w h; trivial
  intro e i s w hq
  exact fence_holds trk fuel .mb (by simp) g gv e i s w hq

theorem qB_holds (trk fuel) (g : Nat) (gv : Val) (env inp ss wins) (hI : IterInv g gv env ss) :
    Holds trk (exec fuel qB env inp) ss wins (StepPost g gv) := by
  obtain ⟨k, h5⟩ := hI.2.2.2.2.1
  rw [qB, Sync.exec_ifte _ _ _ _ _ _ _ (eval_ge env k h5)]
  by_cases hk : k ≥ 100
  · simp [boolV, hk, Val.truthy]
    exact qAnnounce_holds trk fuel g gv env inp ss wins hI
  · simp [boolV, hk, Val.truthy]
    intro out ho
    simp only [exec, Except.ok.injEq] at ho; subst ho
    simpa [Ok_nil_iff, StepPost] using hI

/-! ## `wait_gp` (urcu-qsbr.c) -/

def wgBodyQ : Stmt :=
  block [(.prim (some "_t1") .uload [.fieldAddr (.addrGlob "urcu_qsbr_gp") "futex", .cst "CMM_RELAXED" (0)]),
    (.ifte (.bin .eq (.var "_t1") (.lit (-1)))
      (block [(.prim (some "_t2") (.ext "futex_noasync") [.fieldAddr (.addrGlob "urcu_qsbr_gp") "futex", .cst "FUTEX_WAIT" (0), .lit (-1), .null, .null, .lit 0]),
        (.ifte (.un .lnot (.var "_t2")) (.cont) (.skip)),
        (.prim (some "_t3") (.ext "errno") []),
        (.assign "_t4" (.var "_t3")),
        (.ifte (.bin .eq (.var "_t4") (.cst "EAGAIN" (11))) (.ret none)
          (.ifte (.bin .eq (.var "_t4") (.cst "EINTR" (4))) (.skip)
            (block [(.prim (some "_t5") (.ext "errno") []), (.prim none (.ext "urcu_die") [.var "_t5"])])))])
      (.brk))]
def wgQ : Stmt := block [(.prim none .rmb []), (.loop wgBodyQ)]
theorem qsbr_wg_eq : «qsbr.wait_gp» = wgQ := rfl

/-- inside `wait_gp`: private view and checker state untouched -/
def WInv (priv0 : Loc → Option Val) (ss0 : SS) (e : Env) (s : SS) : Prop := e.priv = priv0 ∧ s = ss0

def WPost (priv0 : Loc → Option Val) (ss0 : SS) : Post := fun ctl e s _ =>
  match ctl with
  | .normal | .cont | .brk | .ret none => WInv priv0 ss0 e s
  | .blocked | .fuel => True
  | _ => False

theorem wgBodyQ_holds (trk : Bool) (fuel : Nat) (priv0 : Loc → Option Val) (ss0 : SS) (env : Env) (inp : List Val)
    (ss : SS) (wins : Wins) (hI : WInv priv0 ss0 env ss) :
    Holds trk (exec fuel wgBodyQ env inp) ss wins (WPost priv0 ss0) := by
  intro out ho
  obtain ⟨ls, pend⟩ := ss
  have hI' : ∀ vars, WInv priv0 ss0 { vars := vars, priv := env.priv } ⟨ls, pend⟩ := fun _ => hI
  rcases inp with _ | ⟨v, rest⟩
  · exec_simp_at ho [wgBodyQ]; subst ho; simp [Ok_nil_iff, WPost]
  by_cases hv : v = .int (-1)
  case neg =>
    exec_simp_at ho [wgBodyQ, hv]; subst ho
    abs_simp [WPost]
    exact hI' _
  subst hv
  rcases rest with _ | ⟨r2, rest⟩
  · exec_simp_at ho [wgBodyQ]; subst ho; abs_simp [WPost]
  by_cases h2 : r2.truthy = true
  case neg =>
    simp [wgBodyQ, block, exec, iterate, eval, evalArgs, execPrim, bind, Except.bind, asLoc, Env.setVar, Env.setPriv,
      bindParams, setDst, evalUn, evalBin, boolV, truthy_int, h2] at ho
    subst ho; abs_simp [WPost]; exact hI' _
  rcases rest with _ | ⟨r3, rest⟩
  · simp [wgBodyQ, block, exec, iterate, eval, evalArgs, execPrim, bind, Except.bind, asLoc, Env.setVar, Env.setPriv,
      bindParams, setDst, evalUn, evalBin, boolV, truthy_int, h2] at ho
    subst ho; abs_simp [WPost]
  by_cases h3 : r3 = .int 11
  · subst h3
    simp [wgBodyQ, block, exec, iterate, eval, evalArgs, execPrim, bind, Except.bind, asLoc, Env.setVar, Env.setPriv,
      bindParams, setDst, evalUn, evalBin, boolV, truthy_int, h2] at ho
    subst ho; abs_simp [WPost]; exact hI' _
  by_cases h4 : r3 = .int 4
  · subst h4
    simp [wgBodyQ, block, exec, iterate, eval, evalArgs, execPrim, bind, Except.bind, asLoc, Env.setVar, Env.setPriv,
      bindParams, setDst, evalUn, evalBin, boolV, truthy_int, h2] at ho
    subst ho; abs_simp [WPost]; exact hI' _
  rcases rest with _ | ⟨r4, _ | ⟨r5, rest⟩⟩ <;>
    simp [wgBodyQ, block, exec, iterate, eval, evalArgs, execPrim, bind, Except.bind, asLoc, Env.setVar, Env.setPriv,
      bindParams, setDst, evalUn, evalBin, boolV, truthy_int, h2, h3, h4] at ho <;>
    subst ho <;> abs_simp [WPost]

/-- `wait_gp()` of urcu-qsbr.c: silent events only, nothing changes (the registry lock is released / retaken by the caller) -/
def WaitGpSpecQ (trk : Bool) (waitgp : Stmt) : Prop :=
  ∀ fuel env inp ss wins,
    Holds trk (exec fuel (.call none [] [] waitgp) env inp) ss wins
      (fun ctl e s w => (ctl = .normal ∧ e = env ∧ s = ss) ∨ ctl = .blocked ∨ ctl = .fuel)

def WPostN (priv0 : Loc → Option Val) (ss0 : SS) : Post := fun ctl e s _ =>
  match ctl with
  | .normal | .ret none => WInv priv0 ss0 e s
  | .blocked | .fuel => True
  | _ => False

theorem qsbr_wg_spec (trk : Bool) : WaitGpSpecQ trk «qsbr.wait_gp» := by
  rw [qsbr_wg_eq]
  intro fuel env inp ss wins
  refine Holds.call0 (Qb := WPostN env.priv ss) ?_ ?_ ?_ ?_ ?_ ?_
  · refine Holds.seq (Qa := WPostN env.priv ss) ?_ ?_ (fun _ _ _ _ _ h => h)
    · intro out ho
      obtain ⟨ls, pend⟩ := ss
      exec_simp_at ho []; subst ho
      abs_simp [WPostN, WInv]
    intro e i s w hq
    simp only [block, exec]
    refine Holds.loop _ (fun e s _ => WInv env.priv ss e s) (WPost env.priv ss) (WPostN env.priv ss)
      (fun e i s w h => wgBodyQ_holds trk fuel env.priv ss e i s w h) ?_ ?_ ?_ ?_ ?_ fuel e i s w hq
    · intro e s w h; exact h
    · intro e s w h; exact h
    · intro e s w h; exact h
    · intro ctl e s w h1 h2 h3 h; cases ctl <;> simp_all [WPost, WPostN]
      rename_i v; cases v <;> simp_all
    · intro e s w h; trivial
  · intro e s w h
    have h' : WInv env.priv ss e s := h
    refine Or.inl ⟨rfl, ?_, h'.2⟩
    cases env; simp only [Env.mk.injEq, true_and]; exact h'.1
  · intro e s w h
    have h' : WInv env.priv ss e s := h
    refine Or.inl ⟨rfl, ?_, h'.2⟩
    cases env; simp only [Env.mk.injEq, true_and]; exact h'.1
  · intro v e s w h; exact h.elim
  · intro e s w h; exact Or.inr (Or.inl rfl)
  · intro e s w h; exact Or.inr (Or.inr rfl)

/-! ## one retry iteration and the whole `wait_for_readers` -/

def IterPost (g : Nat) (gv : Val) : Post := fun ctl env ss _ =>
  match ctl with
  | .normal => IterInv g gv env ss
  | .brk => IterInv g gv env ss ∧ ss.ls.inp = []
  | .blocked | .fuel => True
  | _ => False

theorem qUnlock_holds (trk fuel) (g : Nat) (gv : Val) (env inp ss wins) (hI : IterInv g gv env ss) :
    Holds trk (exec fuel qUnlock env inp) ss wins (StepPost g gv) := by
  intro out ho
  obtain ⟨ls, pend⟩ := ss
  cases inp <;> exec_simp_at ho [qUnlock] <;> subst ho <;> abs_simp [StepPost]
  exact hI

theorem qLock_holds (trk fuel) (g : Nat) (gv : Val) (env inp ss wins) (hI : IterInv g gv env ss) :
    Holds trk (exec fuel qLock env inp) ss wins (StepPost g gv) := by
  intro out ho
  obtain ⟨ls, pend⟩ := ss
  obtain ⟨ls', hl1, hl2, hl3⟩ := lrun_env (wins.head?.getD []) ls
  have hI2 : IterInv g gv env ⟨ls', pend⟩ := IterInv_ss hI hl2 hl3 rfl
  cases inp <;> exec_simp_at ho [qLock] <;> subst ho <;> abs_simp [StepPost, hl1, hI2]

theorem qTail_holds (trk fuel waitgp) (hW : WaitGpSpecQ trk waitgp) (g : Nat) (gv : Val) (env inp ss wins)
    (hI : IterInv g gv env ss) (r : Val) (h6 : env.vars "_t6" = some r) (hr : r.truthy = decide (ss.ls.inp = [])) :
    Holds trk (exec fuel (qTail waitgp) env inp) ss wins (IterPost g gv) := by
  obtain ⟨k, hk⟩ := hI.2.2.2.2.1
  have hnn : ∀ ctl e s w, ctl ≠ .normal → StepPost g gv ctl e s w → IterPost g gv ctl e s w := by
    intro ctl e s w hn h; cases ctl <;> simp_all [StepPost, IterPost]
  rw [qTail, Sync.exec_ifte _ _ _ _ _ _ _ (Sync.eval_var env "_t6" r h6)]
  by_cases ht : r.truthy = true
  · have hnil : ss.ls.inp = [] := by simpa [ht] using hr
    simp only [ht, if_true]
    refine Holds.seq (Qa := fun ctl e s _ => match ctl with
        | .normal => IterInv g gv e s ∧ s.ls = ss.ls | .blocked | .fuel => True | _ => False) ?_ ?_ ?_
    · rw [Sync.exec_ifte _ _ _ _ _ _ _ (eval_ge env k hk)]
      by_cases hk100 : k ≥ 100
      · simp [boolV, hk100, Val.truthy]
        intro out ho
        obtain ⟨ls, pend⟩ := ss
        exec_simp_at ho [qReset]; subst ho
        have hI2 := IterInv_setPriv gpFutexQ (.int 0) hI (by decide)
        simp only [gpFutexQ] at hI2
        abs_simp []; exact hI2
      · simp [boolV, hk100, Val.truthy]
        intro out ho
        simp only [exec, Except.ok.injEq] at ho; subst ho
        simpa [Ok_nil_iff] using hI
    · intro e i s w hq out ho
      simp only [block, exec, Except.ok.injEq] at ho; subst ho
      obtain ⟨hq1, hq2⟩ := hq
      simp only [Ok_nil_iff, IterPost]
      exact ⟨hq1, by rw [hq2]; exact hnil⟩
    · intro ctl e s w hn h
      cases ctl <;> simp_all [IterPost]
  · simp only [ht, if_false]
    refine Holds.seq (qUnlock_holds trk fuel g gv env inp ss wins hI) ?_ hnn
    intro e i s w hq
    refine Holds.seq (Qa := StepPost g gv) ?_ ?_ hnn
    · obtain ⟨k', hk'⟩ := hq.2.2.2.2.1
      rw [Sync.exec_ifte _ _ _ _ _ _ _ (eval_ge e k' hk')]
      by_cases hk100 : k' ≥ 100
      · simp [boolV, hk100, Val.truthy]
        refine (hW fuel e i s w).mono ?_
        intro ctl e' s' w' h
        rcases h with ⟨rfl, rfl, rfl⟩ | rfl | rfl
        · exact hq
        · trivial
        · trivial
      · simp [boolV, hk100, Val.truthy]
        exact fence_holds trk fuel .relax (by simp) g gv e i s w hq
    intro e i s w hq
    refine (qLock_holds trk fuel g gv e i s w hq).mono ?_
    intro ctl e s w h
    cases ctl <;> simp_all [StepPost, IterPost]

theorem wfrBodyQ_holds (trk n waitgp) (hW : WaitGpSpecQ trk waitgp) (g : Nat) (gv : Val) (env inp ss wins)
    (hI : IterInv g gv env ss) : Holds trk (exec (n+1) (wfrBodyQ waitgp) env inp) ss wins (IterPost g gv) := by
  have hnn : ∀ ctl e s w, ctl ≠ .normal → StepPost g gv ctl e s w → IterPost g gv ctl e s w := by
    intro ctl e s w hn h; cases ctl <;> simp_all [StepPost, IterPost]
  refine Holds.seq (qA_holds trk (n+1) g gv env inp ss wins hI) ?_ hnn
  intro e i s w hq
  refine Holds.seq (qB_holds trk (n+1) g gv e i s w hq) ?_ hnn
  intro e i s w hq
  refine Holds.seq (qFirst_holds trk (n+1) g gv e i s w hq) ?_ ?_
  · intro e i s w hq
    refine Holds.seq (qScanLoop_holds trk n g gv e i s w hq) ?_ ?_
    · intro e i s w hq
      refine Holds.seq (qEmpty_holds trk (n+1) g gv e i s w hq) ?_ ?_
      · intro e i s w hq
        obtain ⟨hq1, r, hq2, hq3⟩ := hq
        exact qTail_holds trk (n+1) waitgp hW g gv e i s w hq1 r hq2 hq3
      · intro ctl e s w hn h; cases ctl <;> simp_all [IterPost]
    · intro ctl e s w hn h; cases ctl <;> simp_all [ScanLoopPost, IterPost]
  · intro ctl e s w hn h; cases ctl <;> simp_all [IterPost]

def WfrPost (g : Nat) (gv : Val) : Post := fun ctl env ss _ =>
  match ctl with
  | .normal => IterInv g gv env ss ∧ ss.ls.inp = []
  | .blocked | .fuel => True
  | _ => False

def WfrPre (g : Nat) (gv : Val) (env : Env) (ss : SS) : Prop :=
  env.vars "input_readers" = some (.ptr registry) ∧ env.vars "cur_snap_readers" = some (.int 0) ∧
  env.vars "qsreaders" = some (.ptr qsr) ∧ env.vars "group" = some gv ∧
  env.priv gpCtrQ = some (.int (encQ g)) ∧ ss.ls.upc = .scan ∧ ss.ls.gp = g ∧ ss.pend = none

theorem wfrQ_holds (trk fuel waitgp) (hW : WaitGpSpecQ trk waitgp) (g : Nat) (gv : Val) (env inp ss wins)
    (hP : WfrPre g gv env ss) : Holds trk (exec fuel (wfrQ waitgp) env inp) ss wins (WfrPost g gv) := by
  obtain ⟨h1, h2, h3, h4, h6, h7, h8, h9⟩ := hP
  have hI : IterInv g gv (env.setVar "wait_loops" (.int 0)) ss :=
    ⟨by simp [Env.setVar, h1], by simp [Env.setVar, h2], by simp [Env.setVar, h3], by simp [Env.setVar, h4],
      ⟨0, by simp [Env.setVar]⟩, h6, h7, h8, h9⟩
  refine Holds.seq (Qa := fun ctl e s w => ctl = .normal ∧ IterInv g gv e s) ?_ ?_ ?_
  · intro out ho
    exec_simp_at ho []; subst ho
    simp only [Ok_nil_iff, true_and]
    simpa [Env.setVar] using hI
  · intro e i s w hq
    cases fuel with
    | zero =>
      intro out ho
      simp only [block, exec, iterate, Except.ok.injEq] at ho; subst ho
      simp [Ok_nil_iff, WfrPost]
    | succ n =>
      simp only [block, exec]
      refine Holds.loop _ (fun e s _ => IterInv g gv e s) (IterPost g gv) (WfrPost g gv)
        (fun e i s w h => wfrBodyQ_holds trk n waitgp hW g gv e i s w h) ?_ ?_ ?_ ?_ ?_ (n+1) e i s w hq.2
      · intro e s w h; exact h
      · intro e s w h; exact h.elim
      · intro e s w h; exact h
      · intro ctl e s w h1 h2 h3 h; cases ctl <;> simp_all [IterPost, WfrPost]
      · intro e s w h; trivial
  · intro ctl e s w hn h; exact absurd h.1 hn

theorem qsbr_wfr_holds (trk fuel) (g : Nat) (gv : Val) (env inp ss wins) (hP : WfrPre g gv env ss) :
    Holds trk (exec fuel «qsbr.wait_for_readers» env inp) ss wins (WfrPost g gv) := by
  rw [qsbr_wfr_eq]; exact wfrQ_holds trk fuel _ (qsbr_wg_spec trk) g gv env inp ss wins hP

/-! ## the grace period of `urcu_qsbr_synchronize_rcu` -/

def qInc : Stmt :=
  .prim none .ustore [.fieldAddr (.addrGlob "urcu_qsbr_gp") "ctr",
    .bin .add (.pload (.fieldAddr (.addrGlob "urcu_qsbr_gp") "ctr")) (.cst "URCU_QSBR_GP_CTR" (2)), .cst "CMM_RELAXED" (0)]
def qCallWfr (wfr : Stmt) : Stmt :=
  .call none ["input_readers", "cur_snap_readers", "qsreaders", "group"]
    [.addrGlob "registry", .null, .addrGlob "&qsreaders", .addrGlob "&acquire_group"] wfr
def qSplice : Stmt := .prim none (.ext "cds_list_splice") [.addrGlob "&qsreaders", .addrGlob "registry"]
/-- the `else` branch of `if (cds_list_empty(&registry)) goto out;` in `urcu_qsbr_synchronize_rcu` (64-bit variant) -/
def gpBlockQ (wfr : Stmt) : Stmt :=
  block [qInc, (.prim none .barrier []), (.prim none .mb []), qCallWfr wfr, qSplice]

theorem encQ_succ (g : Nat) (hg : 1 ≤ g) : encQ g + 2 = encQ (g + 1) := by
  unfold encQ
  have : g ≠ 0 := by omega
  simp [this]; omega

def GInvQ (upc : Qsbr.UPc) (g : Nat) (K : LState → Prop) (vars : String → Option Val) (env : Env) (ss : SS) : Prop :=
  env.vars = vars ∧ ss.ls.upc = upc ∧ ss.ls.gp = g ∧ ss.pend = none ∧ env.priv gpCtrQ = some (.int (encQ g)) ∧ K ss.ls

def GPostQ (upc : Qsbr.UPc) (g : Nat) (K : LState → Prop) (vars : String → Option Val) : Post := fun ctl env ss _ =>
  match ctl with
  | .normal => GInvQ upc g K vars env ss
  | .blocked | .fuel => True
  | _ => False

theorem GPostQ_nn {upc g K vars} {upc' g' K' vars'} (ctl e s w) (hn : ctl ≠ .normal)
    (h : GPostQ upc g K vars ctl e s w) : GPostQ upc' g' K' vars' ctl e s w := by
  cases ctl <;> simp_all [GPostQ]

theorem gfence_holds (trk fuel) (p : Prim) (hp : p = .barrier ∨ p = .mb) (upc g K vars env inp ss wins)
    (hI : GInvQ upc g K vars env ss) : Holds trk (exec fuel (.prim none p []) env inp) ss wins (GPostQ upc g K vars) := by
  intro out ho
  obtain ⟨ls, pend⟩ := ss
  rcases hp with rfl | rfl <;> exec_simp_at ho [] <;> subst ho <;> abs_simp [GPostQ] <;> exact hI

/-- from pc `idle` with a non-empty registry: `uInc` → scans → `uEnd`, back to pc `idle` with the counter advanced -/
theorem gpBlockQ_holds (trk fuel wfr)
    (hW : ∀ fuel g gv env inp ss wins, WfrPre g gv env ss → Holds trk (exec fuel wfr env inp) ss wins (WfrPost g gv))
    (g : Nat) (hg : 1 ≤ g) (vars env inp ss wins) (hI : GInvQ .idle g (fun ls => ls.reg ≠ []) vars env ss) :
    Holds trk (exec fuel (gpBlockQ wfr) env inp) ss wins (GPostQ .idle (g+1) (fun _ => True) vars) := by
  refine Holds.seq (Qa := GPostQ .scan (g+1) (fun _ => True) vars) ?_ ?_ (fun ctl e s w hn h => GPostQ_nn ctl e s w hn h)
  · intro out ho
    obtain ⟨⟨u, gp, reg, inpl⟩, pend⟩ := ss
    obtain ⟨h1, h2, h3, h4, h5, h6⟩ := hI
    simp only at h2 h3 h4 h6; subst h2; subst h3; subst h4
    simp only [gpCtrQ] at h5
    exec_simp_at ho [qInc, h5]; subst ho
    rw [encQ_succ gp hg]
    abs_simp [GPostQ, GInvQ, h6, h1]
  intro e i s w hq
  refine Holds.seq (gfence_holds trk fuel .barrier (Or.inl rfl) .scan (g+1) (fun _ => True) vars e i s w hq) ?_
    (fun ctl e s w hn h => GPostQ_nn ctl e s w hn h)
  intro e i s w hq
  refine Holds.seq (gfence_holds trk fuel .mb (Or.inr rfl) .scan (g+1) (fun _ => True) vars e i s w hq) ?_
    (fun ctl e s w hn h => GPostQ_nn ctl e s w hn h)
  intro e i s w hq
  refine Holds.seq (Qa := GPostQ .scan (g+1) (fun ls => ls.inp = []) vars) ?_ ?_ (fun ctl e s w hn h => GPostQ_nn ctl e s w hn h)
  · obtain ⟨h1, h2, h3, h4, h5, _⟩ := hq
    refine Holds.callN (vs := [.ptr registry, .int 0, .ptr qsr, .ptr (.glob "&acquire_group")])
      (by simp [evalArgs, eval, bind, Except.bind, registry, qsr]) rfl
      (hW fuel (g+1) (.ptr (.glob "&acquire_group")) _ i s w ⟨rfl, rfl, rfl, rfl, h5, h2, h3, h4⟩) ?_ ?_ ?_ ?_ ?_
    · intro e' s' w' h
      obtain ⟨⟨_, _, _, _, _, a6, a7, a8, a9⟩, hnil⟩ := h
      exact ⟨h1, a7, a8, a9, a6, hnil⟩
    · intro e' s' w' h; exact h.elim
    · intro v e' s' w' h; exact h.elim
    · intro e' s' w' h; trivial
    · intro e' s' w' h; trivial
  intro e i s w hq
  intro out ho
  obtain ⟨⟨u, gp, reg, inpl⟩, pend⟩ := s
  obtain ⟨h1, h2, h3, h4, h5, h6⟩ := hq
  simp only at h2 h3 h4 h6; subst h2; subst h3; subst h4; subst h6
  cases i <;> exec_simp_at ho [qSplice] <;> subst ho <;> abs_simp [GPostQ, GInvQ, h1]
  exact h5

/-- the whole `urcu_qsbr_synchronize_rcu` as generated: `gpBlockQ` is its grace-period branch (checked by `rfl`) -/
def syncQT (wfr : Stmt) : Stmt :=
  block [(.assign "_goto_gp_end" (.lit 0)), (.assign "_goto_out" (.lit 0)),
    (.pstore (.fieldAddr (.addrGlob "&wait") "state") (.cst "URCU_WAIT_WAITING" (0))),
    (.call (some "_t1") [] [] «qsbr.urcu_qsbr_read_ongoing»), (.assign "was_online" (.var "_t1")),
    (.ifte (.var "was_online") (.call none [] [] «qsbr.urcu_qsbr_thread_offline») (.prim none .mb [])),
    (.call (some "_t2") ["queue", "node"] [.addrGlob "gp_waiters", .addrGlob "&wait"] «urcu_wait_add»),
    (.ifte (.bin .ne (.var "_t2") (.lit 0))
      (block [(.call none ["wait"] [.addrGlob "&wait"] «urcu_adaptative_busy_wait»), (.assign "_goto_gp_end" (.lit 1))]) (.skip)),
    (.ifte (.var "_goto_gp_end") (.skip)
      (block [(.call none ["node", "state"] [.addrGlob "&wait", .cst "URCU_WAIT_RUNNING" (2)] «urcu_wait_set_state»),
        (.prim none (.ext "mutex_lock") [.addrGlob "rcu_gp_lock"]),
        (.call none ["waiters", "queue"] [.addrGlob "&waiters", .addrGlob "gp_waiters"] «urcu_move_waiters»),
        (.prim none (.ext "mutex_lock") [.addrGlob "rcu_registry_lock"]),
        (.prim (some "_t3") (.ext "cds_list_empty") [.addrGlob "registry"]),
        (.ifte (.var "_t3") (.assign "_goto_out" (.lit 1)) (.skip)),
        (.ifte (.var "_goto_out") (.skip) (gpBlockQ wfr)),
        (.assign "_goto_out" (.lit 0)),
        (.prim none (.ext "mutex_unlock") [.addrGlob "rcu_registry_lock"]),
        (.prim none (.ext "mutex_unlock") [.addrGlob "rcu_gp_lock"]),
        (.call none ["waiters"] [.addrGlob "&waiters"] «urcu_wake_all_waiters»)])),
    (.assign "_goto_gp_end" (.lit 0)),
    (.ifte (.var "was_online") (.call none [] [] «qsbr.urcu_qsbr_thread_online») (.prim none .mb []))]

theorem qsbr_sync_eq : «qsbr.urcu_qsbr_synchronize_rcu» = syncQT «qsbr.wait_for_readers» := rfl

theorem qsbr_grace_period_holds (trk fuel) (g : Nat) (hg : 1 ≤ g) (vars env inp ss wins)
    (hI : GInvQ .idle g (fun ls => ls.reg ≠ []) vars env ss) :
    Holds trk (exec fuel (gpBlockQ «qsbr.wait_for_readers») env inp) ss wins (GPostQ .idle (g+1) (fun _ => True) vars) :=
  gpBlockQ_holds trk fuel _ (fun fuel g gv env inp ss wins h => qsbr_wfr_holds trk fuel g gv env inp ss wins h)
    g hg vars env inp ss wins hI

end UrcuVerif.Src.SyncQ
